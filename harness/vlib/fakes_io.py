"""Scripted devices behind `frappy.lib.asynconn.AsynConn` (C16).

Only sockets and `select` are faked: `Net` stands in for the modules `socket` and `select` inside
`frappy.lib.asynconn`, so the REAL `AsynTcp` (address from uri + default settings, connect, `send`, `recv`, `flush_recv`
over the receive buffer, `disconnect`) and the REAL `AsynConn.readline / readbytes` (receive buffer, line splitting,
time-outs) are in play; `tcp_under_test` adds nothing but the log entry `flush` at the start of `flush_recv`.

A device lives in virtual time (`vlib.sched.Scheduler`): blocking reads are scheduler blocking points.

    net = Net(sched, log); dev = Device(sched, log, 'dev', script); net.listen(dev)     # listens at ('dev', script['port'])
    script = {
      'eol': '\n',                       # appended by the device to every reply ('' for byte devices)
      'eol_in': '\r',                    # terminates the commands the device accepts (default: as 'eol')
      'port': 4001,                      # tcp port the device listens at
      'cmds': {'A': {'reply': 'a1', 'delay': 0.2, 'chunks': [1, 2], 'gap': 0.05}, 'S': {'reply': None}},
                                         # 'reply' may be a list: the k-th answer to that command (last element repeated)
      'default': {'reply': '{cmd}!', 'delay': 0.0},            # for commands not listed (None: silence)
      'unsolicited': [[1.5, 'junk\n'], ...],   # bytes the device emits by itself, seconds after the connect
      'close': {'send': 3, 'phase': 'before' | 'after_cmd' | 'mid_reply' | 'after_reply'} | {'at': 2.5} | None,
                                          # the device closes the connection (counts sends over all connections)
      'close2': {'at': 1.0},             # the device closes the SECOND connection that long after it was made
      'refuse': [1, 2],                  # connect attempts (0-based, over the whole run) that are refused
    }

All strings are latin-1 images of bytes.  Events are appended to `log` (a `Log`), see `Log.add`.
"""
import socket as _socket

from frappy.errors import CommunicationFailedError
from frappy.lib.asynconn import AsynConn

class Log:
    """time-stamped event log shared by the device, the connections and the harness instrumentation.

    Every event is a dict {'e': kind, 't': microseconds since start, 'who': thread name, ...}; `sorted()` merges
    the device's future arrivals into arrival order (time, then creation order)."""

    def __init__(self, sched):
        self.sched = sched
        self.t0 = sched.now
        self.items = []

    def us(self, t=None):
        return int(round(((self.sched.now if t is None else t) - self.t0) * 1e6))

    def who(self):
        me = self.sched.me()
        return me.name if me is not None else 'main'

    def sync(self, label):
        """a scheduling point of its own for an event a thread performs on shared state (otherwise the code between two
        lock operations would be atomic for the scheduler and races inside it could never be explored).  Call it BEFORE
        the effect is performed and logged (or AFTER both, for effects observed through a callback)."""
        if self.sched.managed():
            self.sched.yield_((label,))

    def add(self, e, t=None, **kw):
        tf = self.sched.now if t is None else t
        ev = {'e': e, 't': self.us(tf), 'tf': tf, 'who': kw.pop('who', None) or self.who(), 'seq': len(self.items)}
        ev.update(kw)
        self.items.append(ev)
        return ev

    def sorted(self):
        return sorted((ev for ev in self.items if not ev.get('dropped')), key=lambda ev: (ev['tf'], ev['seq']))


class Chan:
    """device -> host byte channel of one connection: FIFO of (arrival time, bytes) plus an end-of-file time"""

    def __init__(self, cid):
        self.cid = cid
        self.items = []         # [t_arrival, data, log event]
        self.last = 0.0
        self.open = True        # host side
        self.eof_at = None
        self.busy_until = 0.0   # the device answers one command after the other

    def put(self, t, data, ev=None):
        """enqueue bytes leaving the device at time t (kept in time order; equal times in emission order)"""
        if self.eof_at is not None and t >= self.eof_at:
            return None         # the device has closed before these bytes left it
        i = len(self.items)
        while i > 0 and self.items[i - 1][0] > t:
            i -= 1
        self.items.insert(i, [t, data, ev])
        self.last = max(self.last, t)
        return t

    def close_at(self, t):
        """the device closes at time t: bytes that would have left it later are never sent"""
        self.eof_at = t
        for it in self.items:
            if it[0] > t and it[2] is not None:
                it[2]['dropped'] = True
        self.items = [it for it in self.items if it[0] <= t]
        self.last = max([it[0] for it in self.items] + [0.0])

    def readable(self, now):
        return (bool(self.items) and self.items[0][0] <= now) or (self.eof_at is not None and self.eof_at <= now)

    def next_time(self):
        if self.items:
            return self.items[0][0]
        return self.eof_at


class Device:
    def __init__(self, sched, log, name, script):
        self.sched = sched
        self.log = log
        self.name = name
        self.host = name
        self.port = int(script.get('port', 4001))      # the device listens at (name, port)
        self.script = script
        self.eol = script.get('eol', '\n').encode('latin-1')              # terminates the device's replies
        self.eol_in = script.get('eol_in', script.get('eol', '\n')).encode('latin-1')   # terminates the commands it accepts
        self.nconnect = 0
        self.nsend = 0
        self.chans = []
        self.uses = {}          # command -> number of times it was answered (for 'reply' given as a list)
        self.send_kind = lambda: 'send'     # the harness may classify sends (e.g. 'isend': made by checkHWIdent)

    def unregister(self):
        pass

    # ---- host side entry points -------------------------------------------------------
    def connect(self, target=None):
        self.sched.yield_(('connect',))
        i = self.nconnect
        self.nconnect += 1
        cid = len(self.chans)
        if i in set(self.script.get('refuse') or ()):
            self.log.add('connect', ok=False, conn=None, attempt=i, target=target)
            raise CommunicationFailedError(f'can not connect to {self.name}, refused')
        ch = Chan(cid)
        self.chans.append(ch)
        self.log.add('connect', ok=True, conn=cid, attempt=i, target=target)
        now = self.sched.now
        ch.last = now
        if cid == 0:            # unsolicited output and a timed close are scripted relative to the first connect
            for t, data in self.script.get('unsolicited') or ():
                self._emit(ch, now + t, data.encode('latin-1'), None)
            cl = self.script.get('close')
            if cl and 'at' in cl:
                self._eof(ch, now + cl['at'])
        elif cid == 1 and self.script.get('close2'):     # a second timed close, relative to the second connect
            self._eof(ch, now + self.script['close2']['at'])
        return ch

    def _emit(self, ch, t, data, tag):
        ev = self.log.add('arrive', t=t, who='device', conn=ch.cid, data=data.decode('latin-1'), tag=tag)
        ta = ch.put(t, data, ev)
        if ta is None:
            ev['dropped'] = True
        else:
            ev['t'] = self.log.us(ta)
            ev['tf'] = ta

    def _eof(self, ch, t):
        if ch.eof_at is None:
            ch.close_at(t)
            self.log.add('devclose', t=t, who='device', conn=ch.cid)

    def on_send(self, ch, data):
        n = self.nsend
        self.nsend += 1
        now = self.sched.now
        text = data.decode('latin-1')
        self.log.add(self.send_kind(), conn=ch.cid, data=text, n=n)
        if ch.eof_at is not None and ch.eof_at <= now:
            return              # the device is gone already: the bytes vanish (as a first write to a closed peer)
        cl = self.script.get('close') or {}
        phase = cl.get('phase') if cl.get('send') == n else None
        if phase == 'before':
            self._eof(ch, now)
            return
        if self.eol_in and data.count(self.eol_in) > 1:     # several lines in one send: the device handles them one by one
            lines = data.split(self.eol_in)
            for ln in lines[:-1]:
                self._command(ch, ln + self.eol_in, n, phase, now)
            if lines[-1]:
                self._command(ch, lines[-1], n, phase, now)
            return
        self._command(ch, data, n, phase, now)

    def _command(self, ch, data, n, phase, now):
        cmd = data[:-len(self.eol_in)] if self.eol_in and data.endswith(self.eol_in) else data
        key = cmd.decode('latin-1')
        spec = (self.script.get('cmds') or {}).get(key)
        if spec is None:
            spec = self.script.get('default')
        if phase == 'after_cmd' or spec is None or spec.get('reply') is None:
            if phase is not None:
                self._eof(ch, now)
            return
        rtext = spec['reply']
        if isinstance(rtext, list):       # the k-th time the command is answered: element k (the last one from then on)
            k = self.uses.get(key, 0)
            self.uses[key] = k + 1
            rtext = rtext[min(k, len(rtext) - 1)]
            if rtext is None:
                if phase is not None:
                    self._eof(ch, now)
                return
        reply = rtext.replace('{cmd}', key).replace('{n}', str(n)).encode('latin-1') + self.eol
        chunks = []
        pos = 0
        for s in spec.get('chunks') or ():
            if s > 0 and pos < len(reply):
                chunks.append(reply[pos:pos + s])
                pos += s
        if pos < len(reply):
            chunks.append(reply[pos:])
        t = max(now + float(spec.get('delay') or 0), ch.busy_until)
        tl = t
        gap = float(spec.get('gap') or 0)
        for i, c in enumerate(chunks):
            if phase == 'mid_reply' and i >= max(1, len(chunks) // 2):
                break
            tl = t + i * gap
            self._emit(ch, tl, c, n)
        ch.busy_until = tl
        if phase in ('mid_reply', 'after_reply'):
            self._eof(ch, tl)


class FakeSocket:
    """what `socket.create_connection` returns: the socket of one connection to a scripted device.  Blocking, with a
    time-out (as the real one made by AsynTcp); every operation on shared state is a scheduling point."""

    def __init__(self, dev, ch, timeout):
        self.dev = dev
        self.ch = ch
        self.timeout = timeout

    def settimeout(self, timeout):
        self.timeout = timeout

    def fileno(self):
        return 1000 + self.ch.cid

    def _hclose(self):
        ch = self.ch
        if ch.open:             # (not when called once more, e.g. from AsynConn.__del__ at an arbitrary point)
            self.dev.sched.yield_(('hclose',))
        if ch.open:
            ch.open = False
            try:
                self.dev.log.add('hclose', conn=ch.cid)
            except Exception:
                pass

    def shutdown(self, how):
        if not self.ch.open:
            raise OSError('not connected')
        self._hclose()

    def close(self):
        self._hclose()

    def sendall(self, data):
        self.dev.sched.yield_(('send',))
        if not self.ch.open:    # closed on our side by another thread meanwhile
            raise OSError('connection closed')
        self.dev.on_send(self.ch, data)

    def readable(self):
        return self.ch.readable(self.dev.sched.now)

    def recv(self, bufsize):
        """one device chunk that has arrived (at most bufsize bytes of it); b'' when the device has closed (or the socket was
        shut down on our side by another thread); raises the socket time-out when nothing arrives within self.timeout"""
        ch = self.ch
        sched = self.dev.sched
        log = self.dev.log
        end = sched.now + self.timeout
        sched.yield_(('recv', ch.cid))
        while True:
            now = sched.now
            if not ch.open:     # closed on OUR side by another thread meanwhile: as a socket that was shut down
                return b''
            if ch.items and ch.items[0][0] <= now:
                data = ch.items[0][1]
                if len(data) > bufsize:
                    data, ch.items[0][1] = data[:bufsize], data[bufsize:]
                else:
                    ch.items.pop(0)
                log.add('recv', conn=ch.cid, out='data', data=data.decode('latin-1'))
                return data
            if ch.eof_at is not None and ch.eof_at <= now:
                log.add('recv', conn=ch.cid, out='closed')
                return b''
            remaining = end - now
            if remaining <= 0:
                log.add('recv', conn=ch.cid, out='empty')
                raise _socket.timeout('timed out')
            nxt = ch.next_time()
            wait = remaining if nxt is None else min(remaining, max(nxt - now, 0.0))
            wait = max(wait, 1e-9)
            if not sched.managed():
                sched.now += wait
                continue
            sched.block(('recv', ch.cid), lambda: ch.readable(sched.now) or not ch.open, wait)


class Net:
    """The network of one run: stands in for the modules `socket` and `select` INSIDE `frappy.lib.asynconn`
    (`sched.patched(frappy.lib.asynconn, socket=net.socket, select=net.select)`), so that the REAL `AsynTcp` —
    address resolution from uri and default settings, connect, send, recv, flush_recv over the receive buffer,
    disconnect — runs against the scripted devices.  Only sockets, select and kernel buffering are replaced.

    A connection attempt to an address where no device of the run listens is refused (and logged with its target)."""

    def __init__(self, sched, log):
        self.sched = sched
        self.log = log
        self.devices = {}       # (host, port) -> Device
        self.attempts = 0
        net = self

        class SocketModule:
            def __getattr__(self, name):        # exceptions, constants
                return getattr(_socket, name)

            @staticmethod
            def create_connection(address, timeout=None, **kw):
                return net.connect(tuple(address), timeout)

        class SelectModule:
            @staticmethod
            def select(rlist, wlist, xlist, timeout=None):
                if wlist or xlist or timeout != 0:
                    raise NotImplementedError('only a poll for readability is scripted')
                return [s for s in rlist if s.readable()], [], []

        self.socket = SocketModule()
        self.select = SelectModule()

    def listen(self, dev):
        self.devices[(dev.host, dev.port)] = dev

    def connect(self, address, timeout):
        dev = self.devices.get(address)
        target = {'host': address[0], 'port': address[1]}
        if dev is None:         # nobody listens there
            self.sched.yield_(('connect',))
            self.log.add('connect', ok=False, conn=None, attempt=None, target=target)
            raise ConnectionRefusedError(111, 'Connection refused')
        try:
            ch = dev.connect(target)
        except CommunicationFailedError:        # a scripted refusal
            raise ConnectionRefusedError(111, 'Connection refused') from None
        return FakeSocket(dev, ch, timeout)


def tcp_under_test(log, sched):
    """the real AsynTcp; the only addition is the log entry (and scheduling point) at the start of flush_recv — the event
    `flush` — everything else is observed at the socket"""
    from frappy.lib.asynconn import AsynTcp
    saved = AsynConn.SCHEME_MAP.get('tcp')

    class TcpUnderTest(AsynTcp):
        scheme = 'tcp'

        def flush_recv(self):
            sched.yield_(('flush', self.connection.ch.cid))
            log.add('flush', conn=self.connection.ch.cid)
            return super().flush_recv()

    def restore():
        AsynConn.SCHEME_MAP['tcp'] = saved
    return TcpUnderTest, restore
