"""evidence/<id>.json writer (schema: /root/.vp/EVIDENCE.schema.json)"""
import json
import os

VERIF = os.path.dirname(os.path.dirname(os.path.dirname(os.path.abspath(__file__))))

BASE_TRUST = [
    'Lean 4.33.0 kernel',
    'harness/translate.py (constant tables re-extracted from the repository on every run)',
    'lean/Driver.lean + lean/FrappyDrive/* (JSON glue of the line protocol; not part of any theorem)',
    'harness generators, fakes and canonicalisers (correspondence = differential testing, not proof)',
]


def build(prop, tier, seed, meta, audit, res, wall, proof_ok, nviol, proof_notes):
    axioms = sorted(audit['axioms'])
    cov = {
        'obligations': audit['obligations'],
        'discharged': audit['discharged'],
        'checker_cmd': f'cd /verif/lean && lake build FrappyProofs.Props.{prop} driver && '
                       f'lake env lean --run tools/Audit.lean FrappyProofs.Props.{prop}',
        'trusted_base': BASE_TRUST + [f'axioms used by the theorems: {axioms}'] + list(meta.get('trusted', []))
        + list(res.trusted),
        'theorems': audit['theorems'],
        'proof_modules': audit['modules'],
        'leanchecker': audit.get('leanchecker', 'not run (thorough tier only)'),
        'proof_status': 'all obligations discharged' if proof_ok else proof_notes,
        'evaluations': res.evaluations,
        'distinct_nontrivial': len(res.nontrivial),
        'rule': res.rule,
        'samples': res.samples[:6] if res.samples else [],
        'traces_validated_against_impl': res.traces,
        'disagreements_checked': res.evaluations,
        'correspondence_disagreements': len(res.disagreements),
        'input_distribution': res.dist,
        'notes': res.notes,
        'modelled_not_verified': meta.get('modelled_not_verified', []),
    }
    return {
        'property_id': prop,
        'tier': tier,
        'seed': seed,
        'level': 'proof',
        'coverage': cov,
        'assumptions': list(meta.get('assumptions', [])) + list(res.assumptions),
        'wall_s': round(wall, 2),
        'violations': nviol,
    }


def write(prop, ev):
    d = os.environ.get('VERIF_EVIDENCE_DIR') or os.path.join(VERIF, 'evidence')
    os.makedirs(d, exist_ok=True)
    path = os.path.join(d, f'{prop}.json')
    tmp = path + '.tmp'
    with open(tmp, 'w') as f:
        json.dump(ev, f, indent=1, sort_keys=True, default=str)
        f.write('\n')
    os.replace(tmp, path)
    return path
