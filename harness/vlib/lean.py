"""Interface to the Lean side: build, audit, driver."""
import json
import os
import re
import subprocess
import shutil
import time

VERIF = os.path.dirname(os.path.dirname(os.path.dirname(os.path.abspath(__file__))))
LEAN = os.path.join(VERIF, 'lean')
DRIVER = os.path.join(LEAN, '.lake', 'build', 'bin', 'driver')
DRIVER_GOOD = os.path.join(LEAN, '.lake', 'driver.good')
ALLOWED_AXIOMS = {'propext', 'Classical.choice', 'Quot.sound'}
FORBIDDEN = re.compile(r'\b(sorry|admit|native_decide|bv_decide|implemented_by|unsafe)\b|^axiom\s|maxHeartbeats\s+0', re.M)


def _strip_comments(text):
    """remove Lean block comments (nesting) and line comments"""
    out = []
    i, depth, n = 0, 0, len(text)
    while i < n:
        if text.startswith('/-', i):
            depth += 1
            i += 2
        elif depth and text.startswith('-/', i):
            depth -= 1
            i += 2
        elif depth:
            if text[i] == '\n':
                out.append('\n')
            i += 1
        elif text.startswith('--', i):
            while i < n and text[i] != '\n':
                i += 1
        else:
            out.append(text[i])
            i += 1
    return ''.join(out)


def run(cmd, timeout=3000, cwd=LEAN):
    t0 = time.time()
    p = subprocess.run(cmd, cwd=cwd, stdout=subprocess.PIPE, stderr=subprocess.STDOUT, text=True, timeout=timeout)
    return p.returncode, p.stdout, time.time() - t0


def build(targets):
    """lake build of the given targets; returns (ok, log)"""
    rc, out, dt = run(['lake', 'build'] + list(targets))
    ok = rc == 0
    if ok and os.path.exists(DRIVER) and 'driver' in targets:
        try:
            if (not os.path.exists(DRIVER_GOOD)
                    or os.path.getmtime(DRIVER_GOOD) < os.path.getmtime(DRIVER)):
                shutil.copy2(DRIVER, DRIVER_GOOD + '.tmp')
                os.replace(DRIVER_GOOD + '.tmp', DRIVER_GOOD)
        except OSError:
            pass
    return ok, out, dt


def module_file(mod):
    return os.path.join(LEAN, *mod.split('.')) + '.lean'


def proof_closure(root):
    """FrappyProofs.* modules reachable from root through imports (source-level)"""
    seen, todo = [], [root]
    while todo:
        m = todo.pop()
        if m in seen:
            continue
        seen.append(m)
        try:
            text = _strip_comments(open(module_file(m)).read())
        except OSError:
            continue
        for imp in re.findall(r'^import\s+([\w.]+)', text, re.M):
            if imp.startswith('FrappyProofs.'):
                todo.append(imp)
    return seen


def model_closure(root):
    """all project modules reachable from root (for the forbidden-token scan)"""
    seen, todo = [], [root]
    while todo:
        m = todo.pop()
        if m in seen:
            continue
        seen.append(m)
        try:
            text = _strip_comments(open(module_file(m)).read())
        except OSError:
            continue
        for imp in re.findall(r'^import\s+([\w.]+)', text, re.M):
            if imp.split('.')[0] in ('FrappyProofs', 'FrappyModel'):
                todo.append(imp)
    return seen


def source_theorems(mods):
    """names of `theorem`s written in the sources of the given modules: {module: [name, ...]}"""
    res = {}
    for m in mods:
        try:
            text = _strip_comments(open(module_file(m)).read())
        except OSError:
            continue
        res[m] = re.findall(r'^\s*(?:@\[[^\]]*\]\s*)?(?:private\s+|protected\s+)?theorem\s+([^\s:({\[]+)', text, re.M)
    return res


def forbidden_tokens(mods):
    hits = []
    for m in mods:
        try:
            text = _strip_comments(open(module_file(m)).read())
        except OSError:
            continue
        for mo in FORBIDDEN.finditer(text):
            line = text.count('\n', 0, mo.start()) + 1
            hits.append(f'{m}:{line}:{mo.group(0).strip()}')
    return hits


def audit(root):
    """returns dict: obligations, discharged, failures (list of str), axioms (set), theorems (list)"""
    mods = proof_closure(root)
    src = source_theorems(mods)
    wanted = [(m, n) for m, names in src.items() for n in names]
    res = {'obligations': len(wanted), 'discharged': 0, 'failures': [], 'axioms': set(), 'theorems': [],
           'modules': mods}
    res['failures'] += ['forbidden token ' + h for h in forbidden_tokens(model_closure(root))]
    rc, out, dt = run(['lake', 'env', 'lean', '--run', 'tools/Audit.lean', root])
    if rc != 0:
        res['failures'].append('audit tool failed: ' + out[-2000:])
        return res
    found = {}
    for line in out.splitlines():
        line = line.strip()
        if not line.startswith('{'):
            continue
        try:
            d = json.loads(line)
        except ValueError:
            continue
        found.setdefault(d['module'], {})[d['theorem']] = d['axioms']
    for m, n in wanted:
        cands = [(full, ax) for full, ax in found.get(m, {}).items() if full == n or full.endswith('.' + n)]
        if not cands:
            res['failures'].append(f'theorem {n} of {m} not found in the compiled module')
            continue
        full, ax = cands[0]
        bad = [a for a in ax if a not in ALLOWED_AXIOMS]
        res['axioms'].update(ax)
        if bad:
            res['failures'].append(f'theorem {full} depends on axioms {bad}')
        else:
            res['discharged'] += 1
            res['theorems'].append(full)
    return res


class Driver:
    """line protocol client; all requests of a batch are answered in order"""

    def __init__(self, fallback=False):
        self.path = DRIVER_GOOD if fallback and os.path.exists(DRIVER_GOOD) else DRIVER

    def batch(self, reqs, timeout=3000):
        if not reqs:
            return []
        data = ''.join(json.dumps(r, ensure_ascii=False, separators=(',', ':')) + '\n' for r in reqs)
        p = subprocess.run([self.path], input=data.encode('utf-8', 'surrogatepass'), stdout=subprocess.PIPE,
                           stderr=subprocess.PIPE, timeout=timeout)
        lines = p.stdout.decode('utf-8', 'replace').splitlines()
        if len(lines) != len(reqs):
            raise RuntimeError(f'driver answered {len(lines)} lines for {len(reqs)} requests; rc={p.returncode}; '
                               f'stderr={p.stderr.decode("utf-8", "replace")[-2000:]}')
        return [json.loads(x) for x in lines]


def batch_nl(driver, reqs, timeout=3000):
    """(added for C02) like Driver.batch, but the answer is cut at b'\\n' only: `str.splitlines()` also cuts at U+0085,
    U+2028, U+2029 and \\x0b \\x0c \\x1c-\\x1e, which the Lean JSON printer emits unescaped inside strings"""
    if not reqs:
        return []
    data = ''.join(json.dumps(r, ensure_ascii=False, separators=(',', ':')) + '\n' for r in reqs)
    p = subprocess.run([driver.path], input=data.encode('utf-8', 'surrogatepass'), stdout=subprocess.PIPE,
                       stderr=subprocess.PIPE, timeout=timeout)
    lines = p.stdout.split(b'\n')
    if lines and lines[-1] == b'':
        lines.pop()
    if len(lines) != len(reqs):
        raise RuntimeError(f'driver answered {len(lines)} lines for {len(reqs)} requests; rc={p.returncode}; '
                           f'stderr={p.stderr.decode("utf-8", "replace")[-2000:]}')
    return [json.loads(x.decode('utf-8', 'replace')) for x in lines]
