"""constant tables for C12: the cache messages, the error-class tables of errors.py, the predefined accessibles"""
from translate import llist


def lchars(s):
    """a Python str as a Lean `List Char` literal"""
    def ch(c):
        if c == "'":
            return "'\\''"
        if c == '\\':
            return "'\\\\'"
        if c == '\n':
            return "'\\n'"
        if ord(c) < 32 or ord(c) == 127:
            return "(Char.ofNat %d)" % ord(c)
        return "'%s'" % c
    return '[' + ', '.join(ch(c) for c in s) + ']'


def generate():
    import frappy.client as fc
    import frappy.errors as fe
    import frappy.params as fp
    from frappy.protocol import messages as fm
    # only the classes defined in errors.py itself (its docstring: all of them have to live there); classes that other
    # modules register later would make the table depend on what happens to be imported
    name2class = sorted((k, v.__name__) for k, v in fe.SECoPError.name2class.items() if v.__module__ == 'frappy.errors')
    clsname2name = sorted((k, v.name) for k, v in fe.SECoPError.clsname2class.items() if v.__module__ == 'frappy.errors')
    pair = lambda kv: f'({lchars(kv[0])}, {lchars(kv[1])})'
    return [
        'def updateMessages : List (List Char) := ' + llist(lchars(s) for s in sorted(fc.UPDATE_MESSAGES)),
        'def errorPrefix : List Char := ' + lchars(fm.ERRORPREFIX),
        'def writeReply : List Char := ' + lchars(fm.WRITEREPLY),
        'def eventReply : List Char := ' + lchars(fm.EVENTREPLY),
        'def readReply : List Char := ' + lchars(fm.READREPLY),
        'def readRequest : List Char := ' + lchars(fm.READREQUEST),
        'def name2class : List (List Char × List Char) := ' + llist(pair(kv) for kv in name2class),
        'def clsname2name : List (List Char × List Char) := ' + llist(pair(kv) for kv in clsname2name),
        'def predefined : List (List Char) := ' + llist(lchars(s) for s in fp.PREDEFINED_ACCESSIBLES),
        'def internalError : List Char := ' + lchars(fe.InternalError.__name__),
    ]
