"""constant tables for C15: the start-up timeout of Server._processCfg, default export flags"""
import ast
import inspect


def _flag(cls):
    prop = cls.propertyDict['export']
    value = getattr(prop, 'value', None)
    return bool(prop.default if value is None else value)


def generate():
    import frappy.server
    import frappy.dynamic
    import frappy.modulebase
    src = inspect.getsource(frappy.server.Server._processCfg)
    timeout = None
    for node in ast.walk(ast.parse('class X:\n' + src)):
        if isinstance(node, ast.Call) and getattr(node.func, 'id', None) == 'MultiEvent':
            for kw in node.keywords:
                if kw.arg == 'default_timeout':
                    timeout = ast.literal_eval(kw.value)
    assert timeout is not None
    return [
        f'def startTimeout : Nat := {int(timeout)}',
        f'def pinataExported : Bool := {"true" if _flag(frappy.dynamic.Pinata) else "false"}',
        f'def moduleExported : Bool := {"true" if _flag(frappy.modulebase.Module) else "false"}',
    ]
