"""constant tables for C03: the rebuild table DATATYPES (keys, argument names of every lambda, which have defaults and
which defaults), the float arguments passed through, and the exported properties of every datatype class with their
defaults (what `exportProperties` compares with)."""
import inspect
import struct
import sys


def _bits(x):
    return struct.unpack('<Q', struct.pack('<d', float(x)))[0]


def _default(v):
    """lean term of type `Option String` describing a lambda default"""
    return repr(v)


def generate():
    import frappy.datatypes as d
    from translate import lstr, llist, lint, lbool
    out = []
    keys = list(d.DATATYPES)
    out.append('/-- keys of `DATATYPES`, in table order -/')
    out.append(f'def datatypeKeys : List String := {llist(lstr(k) for k in keys)}')
    rows = []
    for k in keys:
        sig = inspect.signature(d.DATATYPES[k])
        req, opt, varkw = [], [], False
        for name, p in sig.parameters.items():
            if p.kind == p.VAR_KEYWORD:
                varkw = True
            elif p.default is p.empty:
                req.append(name)
            else:
                opt.append((name, repr(p.default)))
        rows.append(f'({lstr(k)}, {llist(lstr(r) for r in req)}, '
                    f'{llist("(%s, %s)" % (lstr(n), lstr(v)) for n, v in opt)}, {lbool(varkw)})')
    out.append('/-- per key: required argument names, optional argument names with the `repr` of their default, '
               'whether `**kwds` swallows unknown keys (must-ignore) -/')
    out.append('def lambdaArgs : List (String × List String × List (String × String) × Bool) :=\n  ' + llist(rows))
    fa = d.floatargs({k: 0 for k in ['unit', 'fmtstr', 'absolute_resolution', 'relative_resolution', 'min', 'max', 'scale',
                                     'type', 'description', 'isUTF8', 'members']})
    out.append(f'def floatArgs : List String := {llist(lstr(k) for k in sorted(fa))}')
    # exported properties of the property-carrying classes: (class, [(name, extname, mandatory, repr(default))])
    rows = []
    for cls in (d.FloatRange, d.IntRange, d.ScaledInteger, d.BLOBType, d.StringType, d.ArrayOf):
        props = []
        for pn, po in cls.propertyDict.items():
            if po.export:
                props.append(f'({lstr(pn)}, {lstr(po.extname)}, {lbool(bool(po.mandatory))}, {lstr(repr(po.default))})')
        rows.append(f'({lstr(cls.__name__)}, {llist(props)})')
    out.append('/-- exported properties in `propertyDict` order: name, external name, mandatory, `repr` of the default -/')
    out.append('def exportedProps : List (String × List (String × String × Bool × String)) :=\n  ' + llist(rows))
    out.append(f'def zeroBits : Nat := {_bits(0.0)}')
    out.append(f'def relResBits : Nat := {_bits(d.FloatRange.propertyDict["relative_resolution"].default)}')
    out.append(f'def scaledRelResBits : Nat := {_bits(d.ScaledInteger.propertyDict["relative_resolution"].default)}')
    out.append(f'def minScaleBits : Nat := {_bits(d.ScaledInteger.propertyDict["scale"].datatype.min)}')
    out.append(f'def floatMaxBits : Nat := {_bits(sys.float_info.max)}')
    out.append(f'def defaultMinInt : Int := {lint(d.DEFAULT_MIN_INT)}')
    out.append(f'def defaultMaxInt : Int := {lint(d.DEFAULT_MAX_INT)}')
    out.append(f'def unlimited : Int := {lint(d.UNLIMITED)}')
    out.append('/-- upper limit of the length properties `IntRange(0)` of blobs and arrays -/')
    out.append(f'def lengthPropMax : Int := {lint(d.BLOBType.propertyDict["maxbytes"].datatype.max)}')
    out.append(f'def arrayLengthPropMax : Int := {lint(d.ArrayOf.propertyDict["maxlen"].datatype.max)}')
    out.append(f'def stringLengthPropMax : Int := {lint(d.StringType.propertyDict["maxchars"].datatype.max)}')
    out.append(f'def defaultFmtstr : String := {lstr(d.FloatRange.propertyDict["fmtstr"].default)}')
    return out
