"""constant tables for C07: request -> reply actions, literals of the wire layer, SECoP error class names.

Everything is emitted as UTF-8 byte lists (`List Nat`), because the wire models work over bytes and `decide`
does not reduce `String` functions."""
import ast
import inspect

from translate import llist


def lbytes(s):
    b = s.encode('utf-8') if isinstance(s, str) else bytes(s)
    return '[' + ', '.join(str(x) for x in b) + ']'


def _literal_error_names(func):
    """string literals used as the error class name (first element of the report list) in `func`"""
    names = set()
    tree = ast.parse(inspect.getsource(func).expandtabs().replace('\n    ', '\n').lstrip())
    for node in ast.walk(tree):
        if isinstance(node, ast.List) and len(node.elts) == 3 and isinstance(node.elts[0], ast.Constant) \
                and isinstance(node.elts[0].value, str):
            names.add(node.elts[0].value)
    return sorted(names)


def _default_accessible(func):
    """string literals `x` of assignments `modulename, pname = specifier, x` in `func`"""
    names = set()
    tree = ast.parse(inspect.getsource(func).expandtabs().replace('\n    ', '\n').lstrip())
    for node in ast.walk(tree):
        if isinstance(node, ast.Assign) and isinstance(node.value, ast.Tuple) and len(node.value.elts) == 2 \
                and isinstance(node.value.elts[1], ast.Constant) and isinstance(node.value.elts[1].value, str):
            names.add(node.value.elts[1].value)
    return sorted(names)


def secop_classes():
    import frappy.errors as fe
    names = []
    todo = [fe.SECoPError]
    seen = set()
    while todo:
        c = todo.pop(0)
        if c in seen:
            continue
        seen.add(c)
        if isinstance(c.name, str) and c.name not in names:
            names.append(c.name)
        todo += c.__subclasses__()
    return names


def generate():
    import frappy.protocol.messages as m
    import frappy.protocol.interface as itf
    import frappy.protocol.interface.handler as h
    from frappy.protocol.dispatcher import Dispatcher
    out = []
    out.append('/-- REQUEST2REPLY of frappy/protocol/messages.py (UTF-8 bytes of request action, reply action) -/')
    out.append('def request2reply : List (List Nat × List Nat) := ' + llist(
        f'({lbytes(k)}, {lbytes(v)})  /- {k} -> {v} -/\n  ' for k, v in m.REQUEST2REPLY.items()))
    for name, val in [('identRequest', m.IDENTREQUEST), ('identReply', m.IDENTREPLY), ('errorPrefix', m.ERRORPREFIX),
                      ('helpRequest', m.HELPREQUEST), ('helpReply', m.HELPREPLY), ('eventReply', m.EVENTREPLY),
                      ('logEvent', m.LOG_EVENT), ('describeRequest', m.DESCRIPTIONREQUEST)]:
        out.append(f'def {name} : List Nat := {lbytes(val)}  -- {val!r}')
    # lines a connection gets that are not replies: events, error events (snapshot/update of a parameter in error
    # state), log messages, help text lines.  Cross-checked with what the client treats as updates.
    import frappy.client as fc
    async_actions = [m.EVENTREPLY, m.ERRORPREFIX + m.EVENTREPLY, m.LOG_EVENT, '_']
    unsolicited = set(fc.UPDATE_MESSAGES) - {m.READREPLY, m.WRITEREPLY, m.ERRORPREFIX + m.READREQUEST}
    if not unsolicited <= set(async_actions):
        raise RuntimeError(f'client UPDATE_MESSAGES has unsolicited actions unknown to the C07 model: {unsolicited}')
    out.append('/-- actions of lines that are not replies: update, error_update, log, help text line -/')
    out.append('def asyncActions : List (List Nat) := ' + llist(f'{lbytes(c)}  /- {c} -/\n  ' for c in async_actions))
    # requests that reach a module and may change what later requests are answered: reading polls the hardware,
    # changing writes a parameter, a command does whatever it does.  No other request has an effect on answers.
    state_actions = [m.READREQUEST, m.WRITEREQUEST, m.COMMANDREQUEST]
    out.append('/-- READREQUEST, WRITEREQUEST, COMMANDREQUEST: the requests carried out by a module -/')
    out.append('def stateActions : List (List Nat) := ' + llist(f'{lbytes(c)}  /- {c} -/\n  ' for c in state_actions))
    for name, val in [('readRequest', m.READREQUEST), ('writeRequest', m.WRITEREQUEST), ('commandRequest', m.COMMANDREQUEST),
                      ('pingRequest', m.HEARTBEATREQUEST), ('activateRequest', m.ENABLEEVENTSREQUEST),
                      ('deactivateRequest', m.DISABLEEVENTSREQUEST), ('loggingRequest', m.LOGGING_REQUEST)]:
        out.append(f'def {name} : List Nat := {lbytes(val)}  -- {val!r}')
    # the dispatcher's own error class and the default accessibles of `read <module>` / `change <module>`
    import frappy.errors as fe
    out.append(f'def protocolError : List Nat := {lbytes(fe.ProtocolError.name)}  -- ProtocolError.name')
    for name, func in [('valueName', Dispatcher.handle_read), ('targetName', Dispatcher.handle_change)]:
        lits = _default_accessible(func)
        if len(lits) != 1:
            raise RuntimeError(f'{func.__name__}: default accessible literals {lits}; the model knows exactly one')
        out.append(f'def {name} : List Nat := {lbytes(lits[0])}  -- {lits[0]!r}: default accessible in {func.__name__}')
    out.append(f'def eol : Nat := {itf.EOL[0]}')
    out.append(f'def helpLineCount : Nat := {len(m.HelpMessage.splitlines())}')
    out.append("def helpLineAction : List Nat := " + lbytes('_') + "  -- handle_help sends ('_', idx+1, line)")
    lits = _literal_error_names(h.RequestHandler.handle)
    if len(lits) != 1:
        raise RuntimeError(f'handler.handle uses error class literals {lits}; the model knows exactly one')
    out.append(f'def handlerErrorClass : List Nat := {lbytes(lits[0])}  -- {lits[0]!r}: literal in RequestHandler.handle')
    classes = secop_classes()
    out.append('/-- `name` of SECoPError and of all its subclasses (frappy/errors.py) -/')
    out.append('def errorClasses : List (List Nat) := ' + llist(f'{lbytes(c)}  /- {c} -/\n  ' for c in classes))
    handlers = sorted(n[len('handle_'):] for n in dir(Dispatcher) if n.startswith('handle_'))
    out.append('/-- `handle_*` attributes of Dispatcher: action names that collide with a handler -/')
    out.append('def dispatcherHandlers : List (List Nat) := ' + llist(f'{lbytes(c)}  /- {c} -/\n  ' for c in handlers))
    return out
