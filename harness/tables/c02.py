"""constant tables for C02: the words `BoolType.from_string` knows, the `json.dumps` settings of `encode_msg_frame`,
the default format strings, and which `export_value` calls `check_type` with `allow_optional`"""
import ast
import inspect
import textwrap


def _fn_ast(fn):
    return ast.parse(textwrap.dedent(inspect.getsource(fn))).body[0]


def _bool_words():
    """the two literal lists of `value in [...]` tests in BoolType.from_string, in source order"""
    import frappy.datatypes as d
    lists = []
    for node in ast.walk(_fn_ast(d.BoolType.from_string)):
        if isinstance(node, ast.Compare) and isinstance(node.ops[0], ast.In) and isinstance(node.comparators[0], ast.List):
            lists.append([ast.literal_eval(e) for e in node.comparators[0].elts])
    return lists


def _dumps_keywords():
    """keyword arguments of the json.dumps call in encode_msg_frame (none = the defaults: ensure_ascii, allow_nan)"""
    import frappy.protocol.interface as i
    kws = []
    for node in ast.walk(_fn_ast(i.encode_msg_frame)):
        if isinstance(node, ast.Call) and isinstance(node.func, ast.Attribute) and node.func.attr == 'dumps':
            kws += [k.arg or '**' for k in node.keywords]
    return sorted(kws)


def generate():
    import frappy.datatypes as d
    from translate import lstr, llist
    words = _bool_words()
    false_words, true_words = (words + [[], []])[:2]
    return [
        '/-- `BoolType.from_string`: the words taken for `False` / `True` -/',
        f'def boolFalseWords : List String := {llist([lstr(w) for w in false_words])}',
        f'def boolTrueWords : List String := {llist([lstr(w) for w in true_words])}',
        '/-- keyword arguments `encode_msg_frame` passes to `json.dumps` (empty: the defaults) -/',
        f'def dumpsKeywords : List String := {llist([lstr(w) for w in _dumps_keywords()])}',
        f'def floatDefaultFmtstr : String := {lstr(d.FloatRange().fmtstr)}',
        f'def scaledDefaultFmtstr : String := {lstr(d.ScaledInteger(1).fmtstr)}',
    ]
