"""constant tables for C08: the message names the harness classifies replies and updates by, and the request ->
reply pairing of the requests the property is about (re-extracted from frappy.protocol.messages on every run)"""
from translate import lstr, llist


def generate():
    import frappy.protocol.messages as M
    pairs = [(M.ENABLEEVENTSREQUEST, M.ENABLEEVENTSREPLY), (M.DISABLEEVENTSREQUEST, M.DISABLEEVENTSREPLY),
             (M.IDENTREQUEST, M.IDENTREPLY)]
    for req, rep in pairs[:2]:
        assert M.REQUEST2REPLY[req] == rep
    return [
        'def requestReply : List (String × String) := ' + llist(f'({lstr(a)}, {lstr(b)})' for a, b in pairs),
        f'def eventReply : String := {lstr(M.EVENTREPLY)}',
        f'def errorPrefix : String := {lstr(M.ERRORPREFIX)}',
    ]
