"""constant tables for C11: the request -> reply table, the update-class messages, the client's time-outs and queue sizes"""
import ast
import inspect

from translate import lstr, llist


def _client_constants():
    """time-outs and queue sizes as written in frappy/client/__init__.py (taken from the syntax tree, not executed)"""
    import frappy.client as fc
    tree = ast.parse(inspect.getsource(fc.SecopClient))
    out = {'queue_sizes': [], 'put_timeout': None, 'wait_timeout': None, 'connect_readline_timeout': None}
    for fn in ast.walk(tree):
        if not isinstance(fn, ast.FunctionDef):
            continue
        for node in ast.walk(fn):
            if not isinstance(node, ast.Call):
                continue
            f = node.func
            name = f.attr if isinstance(f, ast.Attribute) else getattr(f, 'id', None)
            if name == 'Queue' and fn.name == '__init__' and node.args and isinstance(node.args[0], ast.Constant):
                out['queue_sizes'].append(int(node.args[0].value))
            # (the body of queue_request after its connect(): `_queue_request` since the heartbeat repair)
            if fn.name in ('queue_request', '_queue_request') and name == 'put':
                for kw in node.keywords:
                    if kw.arg == 'timeout' and isinstance(kw.value, ast.Constant):
                        out['put_timeout'] = kw.value.value
            if fn.name == 'get_reply' and name == 'wait' and node.args and isinstance(node.args[0], ast.Constant):
                out['wait_timeout'] = node.args[0].value
            if fn.name == 'connect' and name == 'readline' and node.args and isinstance(node.args[0], ast.Constant):
                out['connect_readline_timeout'] = node.args[0].value
    return out


def constants():
    import frappy.client as fc
    from frappy.protocol import messages as m
    c = _client_constants()
    c['request2reply'] = [(str(k), str(v)) for k, v in m.REQUEST2REPLY.items()]
    c['update_messages'] = sorted(str(x) for x in fc.UPDATE_MESSAGES)
    c['error_prefix'] = str(m.ERRORPREFIX)
    c['event_reply'] = str(m.EVENTREPLY)
    return c


def generate():
    c = constants()
    ms = lambda x: int(round(float(x) * 1000))   # noqa: E731
    return [
        'def request2reply : List (String × String) := ' + llist(f'({lstr(k)}, {lstr(v)})' for k, v in c['request2reply']),
        'def updateMessages : List String := ' + llist(lstr(x) for x in c['update_messages']),
        f'def errorPrefix : String := {lstr(c["error_prefix"])}',
        f'def eventReply : String := {lstr(c["event_reply"])}',
        f'def putTimeoutMs : Nat := {ms(c["put_timeout"])}',
        f'def waitTimeoutMs : Nat := {ms(c["wait_timeout"])}',
        'def queueSizes : List Nat := ' + llist(str(x) for x in c['queue_sizes']),
    ]
