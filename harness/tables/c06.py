"""constant tables for C06: which properties of a parameter / command are exported always (the keys every entry of
the report carries); the predefined accessibles are shared with C04 (Generated.C04)"""
from translate import lstr, llist


def generate():
    from frappy.params import Parameter, Command
    palways = [po.extname for pn, po in Parameter.propertyDict.items() if po.export == 'always']
    calways = [po.extname for pn, po in Command.propertyDict.items() if po.export == 'always']
    import frappy.modulebase as mb
    return [
        'def secopBaseClasses : List String := ' + llist(lstr(x) for x in mb.SECoP_BASE_CLASSES),
        'def paramAlways : List String := ' + llist(lstr(x) for x in palways),
        'def commandAlways : List String := ' + llist(lstr(x) for x in calways),
    ]
