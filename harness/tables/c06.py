"""constant tables for C06: which properties of a parameter / command are exported always (the keys every entry of
the report carries); the predefined accessibles are shared with C04 (Generated.C04)"""
from translate import lstr, llist


def generate():
    from frappy.params import Parameter, Command
    palways = [po.extname for pn, po in Parameter.propertyDict.items() if po.export == 'always']
    calways = [po.extname for pn, po in Command.propertyDict.items() if po.export == 'always']
    import frappy.modulebase as mb
    from props.c06 import prop_ser
    decls = []
    for pn, po in mb.Module.propertyDict.items():
        key, text = prop_ser(po, po.default)
        decls.append('(%s, %s, %s, %s, %s, %s)' % (lstr(pn), lstr(po.extname or ''), 'true' if po.export else 'false',
                                                     'true' if po.export == 'always' else 'false', lstr(key), lstr(text)))
    return [
        '/-- `Module.propertyDict`: (name, external name, exported, export always, default as Python value, default as exported) -/',
        'def moduleDecls : List (String × String × Bool × Bool × String × String) := ' + llist(decls),
        'def secopBaseClasses : List String := ' + llist(lstr(x) for x in mb.SECoP_BASE_CLASSES),
        'def paramAlways : List String := ' + llist(lstr(x) for x in palways),
        'def commandAlways : List String := ' + llist(lstr(x) for x in calways),
    ]
