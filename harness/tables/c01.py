"""constant tables for C01: integer transport limits, internal integer limit, default property values of the datatypes"""
import struct
import sys


def _bits(x):
    return struct.unpack('<Q', struct.pack('<d', float(x)))[0]


def generate():
    import frappy.datatypes as d
    from translate import lint
    fr = d.FloatRange()
    sc = d.ScaledInteger(1)
    return [
        f'def defaultMinInt : Int := {lint(d.DEFAULT_MIN_INT)}',
        f'def defaultMaxInt : Int := {lint(d.DEFAULT_MAX_INT)}',
        f'def unlimited : Int := {lint(d.UNLIMITED)}',
        '/-- limits of the property datatype of `IntRange.min/max` (`IntRange(-UNLIMITED, UNLIMITED)`) -/',
        f'def intPropMin : Int := {lint(d.IntRange.propertyDict["min"].datatype.min)}',
        f'def intPropMax : Int := {lint(d.IntRange.propertyDict["max"].datatype.max)}',
        '/-- defaults as IEEE-754 bit patterns -/',
        f'def floatDefaultMinBits : Nat := {_bits(fr.min)}',
        f'def floatDefaultMaxBits : Nat := {_bits(fr.max)}',
        f'def floatMaxBits : Nat := {_bits(sys.float_info.max)}',
        f'def floatDefaultAbsResBits : Nat := {_bits(fr.absolute_resolution)}',
        f'def floatDefaultRelResBits : Nat := {_bits(fr.relative_resolution)}',
        f'def scaledDefaultRelResBits : Nat := {_bits(sc.relative_resolution)}',
        f'def scaledMinScaleBits : Nat := {_bits(d.ScaledInteger.propertyDict["scale"].datatype.min)}',
        f'def intDefaultMin : Int := {lint(d.IntRange().min)}',
        f'def intDefaultMax : Int := {lint(d.IntRange().max)}',
        f'def blobDefaultMin : Nat := {d.BLOBType().minbytes}',
        f'def blobDefaultMax : Nat := {d.BLOBType().maxbytes}',
        f'def stringDefaultMin : Nat := {d.StringType().minchars}',
        f'def stringDefaultMax : Nat := {d.StringType().maxchars}',
        f'def stringDefaultUtf8 : Bool := {"true" if d.StringType().isUTF8 else "false"}',
        f'def arrayDefaultMin : Nat := {d.ArrayOf(d.BoolType()).minlen}',
        f'def arrayDefaultMax : Nat := {d.ArrayOf(d.BoolType()).maxlen}',
    ]
