"""constant tables for C10: names the configuration code dispatches on"""
from translate import lstr, llist, lint


def generate():
    from frappy.params import Parameter, Command, PREDEFINED_ACCESSIBLES
    from frappy.modulebase import Module
    from frappy import datatypes
    pre = [k for k, v in PREDEFINED_ACCESSIBLES.items() if v is Parameter]
    return [
        'def predefinedParams : List String := ' + llist(lstr(k) for k in pre),
        'def paramProps : List String := ' + llist(lstr(k) for k in Parameter.propertyDict),
        'def moduleProps : List String := ' + llist(lstr(k) for k in Module.propertyDict),
        'def mandatoryModuleProps : List String := ' + llist(lstr(k) for k, v in Module.propertyDict.items() if v.mandatory),
        f'def unlimited : Int := {lint(datatypes.UNLIMITED)}',
        f'def defaultMaxInt : Int := {lint(datatypes.DEFAULT_MAX_INT)}',
        'def floatRangeProps : List String := ' + llist(lstr(k) for k in datatypes.FloatRange.propertyDict),
        'def intRangeProps : List String := ' + llist(lstr(k) for k in datatypes.IntRange.propertyDict),
        'def stringProps : List String := ' + llist(lstr(k) for k in datatypes.StringType.propertyDict),
        'def arrayProps : List String := ' + llist(lstr(k) for k in datatypes.ArrayOf.propertyDict),
        'def boolProps : List String := ' + llist(lstr(k) for k in datatypes.BoolType.propertyDict),
        'def enumProps : List String := ' + llist(lstr(k) for k in datatypes.EnumType.propertyDict),
        'def tupleProps : List String := ' + llist(lstr(k) for k in datatypes.TupleOf.propertyDict),
    ]
