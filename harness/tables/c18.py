"""constant tables for C18: what the linked-parameter models take from the source"""
from translate import lstr, llist, lbool


def generate():
    from frappy.params import Limit
    from frappy.mixins import HasControlledBy, HasOutputModule
    from frappy.extparams import StructParam
    members = HasControlledBy.controlled_by.datatype.export_datatype()['members']
    return [
        '/-- `Limit.POSTFIXES` (sorted) -/',
        'def limitPostfixes : List String := ' + llist(lstr(p) for p in sorted(Limit.POSTFIXES)),
        '/-- members of the `controlled_by` enum before any input registered -/',
        'def controlledByMembers : List (String × Nat) := ' + llist(f'({lstr(k)}, {int(v)})' for k, v in members.items()),
        f'def controlledByDefault : Nat := {int(HasControlledBy.controlled_by.default)}',
        f'def controlActiveDefault : Bool := {lbool(bool(HasOutputModule.control_active.default))}',
        f'def controlActiveReadonly : Bool := {lbool(bool(HasOutputModule.control_active.readonly))}',
        f'def controlledByReadonly : Bool := {lbool(bool(HasControlledBy.controlled_by.readonly))}',
        f'def insideRWInitial : Nat := {_guard()[0]}',
        '/-- the guard counter of a struct parameter is kept per thread: a thread inside an access does not change what another thread sees -/',
        f'def insideRWPerThread : Bool := {lbool(_guard()[1])}',
        '/-- default of `omit_unchanged_within` in microseconds (frappy.params): not 0, so whether an unchanged value is announced again depends on timing -/',
        f'def omitUnchangedWithinDefaultUs : Nat := {int(round(float(_omit_default()) * 1e6))}',
    ]


def _omit_default():
    import frappy.params  # noqa: F401  (sets the default)
    from frappy.lib import generalConfig
    return generalConfig.defaults['omit_unchanged_within']


def _guard():
    """(the guard counter of a fresh StructParam as the creating thread sees it, whether another thread sees a counter of its own)"""
    import threading
    from frappy.core import FloatRange, Parameter
    from frappy.extparams import StructParam
    guard = StructParam('x', {'a': Parameter('a', FloatRange())}).insideRW
    if isinstance(guard, int):
        return guard, False
    initial = int(guard.value)
    guard.value += 1      # this thread is inside an access
    seen = []
    t = threading.Thread(target=lambda: seen.append(guard.value))
    t.start()
    t.join()
    guard.value -= 1
    return initial, seen == [initial]
