"""constant tables for C20: the log level table"""
from translate import lstr, llist


def generate():
    import frappy.logging as flog
    levels = [(k, v) for k, v in flog.LOG_LEVELS.items()]
    return [
        'def logLevels : List (String × Nat) := ' + llist(f'({lstr(str(k))}, {int(v)})' for k, v in levels),
        f'def logOff : Nat := {int(flog.OFF)}',
    ]
