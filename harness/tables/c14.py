"""constant tables for C14: default loop limit of the state machine, status codes the busy predicate compares with"""


def generate():
    from frappy.lib.statemachine import StateMachine
    from frappy.datatypes import StatusType
    from frappy.core import BUSY, IDLE, ERROR
    sm = StateMachine()
    return [
        f'def maxloopsDefault : Nat := {int(sm.maxloops)}',
        f'def idleCode : Nat := {int(IDLE)}',
        f'def busyCode : Nat := {int(BUSY)}',
        f'def errorCode : Nat := {int(ERROR)}',
        f'def statusTypeBusy : Nat := {int(StatusType.BUSY)}',
        f'def statusTypeError : Nat := {int(StatusType.ERROR)}',
        f'def statusTypeFinalizing : Nat := {int(StatusType.FINALIZING)}',
    ]
