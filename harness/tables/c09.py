"""constant tables for C09: property tables of Parameter/Command and of the datatype classes, PREDEF_ORDER"""
import json

from translate import lstr, llist, lbool


def jtext(v):
    """canonical JSON text of a canonicalised value (the form property values travel in)"""
    return json.dumps(v, sort_keys=True, separators=(',', ':'), ensure_ascii=True)


def canon(v):
    """JSON-able canonical value: integral floats become ints, tuples lists, enum members ints"""
    if isinstance(v, bool) or v is None or isinstance(v, str):
        return v
    if isinstance(v, int):
        return int(v)
    if isinstance(v, float):
        if v != v or v in (float('inf'), float('-inf')):
            return repr(v)
        return int(v) if v == int(v) and abs(v) < 2 ** 53 else v
    if isinstance(v, (list, tuple)):
        return [canon(x) for x in v]
    if isinstance(v, dict):
        return {str(k): canon(x) for k, x in v.items()}
    try:
        return int(v)
    except Exception:
        return repr(type(v).__name__)


def dtype_classes():
    from frappy import datatypes as D
    return {'double': D.FloatRange, 'int': D.IntRange, 'scaled': D.ScaledInteger, 'string': D.StringType,
            'bool': D.BoolType, 'enum': D.EnumType, 'blob': D.BLOBType, 'array': D.ArrayOf, 'tuple': D.TupleOf,
            'struct': D.StructOf, 'limits': D.LimitsType, 'value': D.ValueType}


def export_rows(cls, skip):
    rows = []
    for pn, po in cls.propertyDict.items():
        if pn in skip or not po.export:
            continue
        try:
            stable = bool(po.datatype.validate(po.default) == po.default)
        except Exception:
            stable = True
        rows.append(f'({lstr(pn)}, {lstr(po.extname)}, {lstr(jtext(canon(po.default)))}, {lbool(po.export == "always")}, {lbool(stable)})')
    return rows


def generate():
    from frappy.params import Parameter, Command
    from frappy.modulebase import PREDEF_ORDER
    from frappy.datatypes import StatusType
    return [
        # the standard status codes: the class attributes of StatusType (datatypes.py), as StatusType.__init__ looks them up
        'def statusCodes : List (String × Int) := ' + llist(
            f'({lstr(k)}, {int(v)})' for k, v in StatusType.__dict__.items() if isinstance(v, int) and not k.startswith('_')),
        'def paramProps : List (String × String) := ' + llist(
            f'({lstr(k)}, {lstr(jtext(canon(po.default)))})' for k, po in Parameter.propertyDict.items() if k != 'datatype'),
        'def dtypeProps : List (String × List String) := ' + llist(
            f'({lstr(t)}, {llist(lstr(k) for k in c.propertyDict)})' for t, c in dtype_classes().items()),
        'def predefOrder : List String := ' + llist(lstr(k) for k in PREDEF_ORDER),
        'def paramExport : List (String × String × String × Bool × Bool) := ' + llist(export_rows(Parameter, {'datatype'})),
        'def cmdExport : List (String × String × String × Bool × Bool) := ' + llist(
            export_rows(Command, {'datatype', 'argument', 'result'})),
    ]
