"""constant tables for C05: the markers of `update_unchanged`, the class defaults of the cache entry, message names"""
from translate import lstr, lint


def callback_facts():
    """from the AST of Module.announceUpdate: the exception classes caught around the call of a parameter callback,
    and where the callback loop stands relative to the last store into the entry and the call of updateCallback"""
    import ast
    import inspect
    import textwrap
    from frappy.modulebase import Module
    tree = ast.parse(textwrap.dedent(inspect.getsource(Module.announceUpdate)))
    loop = None
    for node in ast.walk(tree):
        if isinstance(node, ast.For) and 'paramCallbacks' in ast.unparse(node.iter):
            loop = node
    caught = []
    if loop is not None:
        for node in ast.walk(loop):
            if isinstance(node, ast.Try):
                for h in node.handlers:
                    if h.type is None:
                        caught.append('BaseException')
                    elif isinstance(h.type, ast.Tuple):
                        caught += [ast.unparse(e) for e in h.type.elts]
                    else:
                        caught.append(ast.unparse(h.type))
    stores = [n.lineno for n in ast.walk(tree) if isinstance(n, ast.Assign)
              and any(ast.unparse(t) in ('pobj.value', 'pobj.readerror', 'pobj.timestamp') for t in n.targets)]
    notify = [n.lineno for n in ast.walk(tree) if isinstance(n, ast.Call) and ast.unparse(n.func) == 'self.updateCallback']
    after_store = loop is not None and bool(stores) and max(stores) < loop.lineno
    before_notify = loop is not None and bool(notify) and loop.end_lineno < min(notify)
    return caught, after_store, before_notify


def activate_facts():
    """from the AST of Dispatcher.handle_activate: (a) every `send_reply` of the snapshot stands inside a
    `with <module>.updateLock:` block, (b) the connection is registered as a listener (`subscribe(...)` /
    `_active_connections.add(...)`) before the first of these blocks is entered"""
    import ast
    import inspect
    import textwrap
    from frappy.protocol.dispatcher import Dispatcher
    tree = ast.parse(textwrap.dedent(inspect.getsource(Dispatcher.handle_activate)))
    locked_blocks = [n for n in ast.walk(tree) if isinstance(n, ast.With)
                     and any('updateLock' in ast.unparse(i.context_expr) for i in n.items)]
    inside = set()
    for blk in locked_blocks:
        for n in ast.walk(blk):
            inside.add(id(n))
    sends = [n for n in ast.walk(tree) if isinstance(n, ast.Call) and ast.unparse(n.func).endswith('send_reply')]
    registers = [n.lineno for n in ast.walk(tree) if isinstance(n, ast.Call)
                 and (ast.unparse(n.func).endswith('.subscribe') or ast.unparse(n.func).endswith('_active_connections.add'))]
    under_lock = bool(sends) and all(id(n) in inside for n in sends)
    register_first = bool(registers) and bool(locked_blocks) and max(registers) < min(b.lineno for b in locked_blocks)
    return under_lock, register_first


def funnel_facts():
    """from the AST of Module.announceUpdate: the expression(s) assigned to `changed` (the comparison the model's `changed`
    transcribes; the initialisation with a constant is left out) and the tests of the early returns (repeated error, unchanged
    inside the window), in source order"""
    import ast
    import inspect
    import textwrap
    from frappy.modulebase import Module
    tree = ast.parse(textwrap.dedent(inspect.getsource(Module.announceUpdate)))
    changed = [ast.unparse(n.value) for n in ast.walk(tree) if isinstance(n, ast.Assign)
               and any(ast.unparse(t) == 'changed' for t in n.targets) and not isinstance(n.value, ast.Constant)]
    omit = [ast.unparse(n.test) for n in ast.walk(tree) if isinstance(n, ast.If)
            and any(isinstance(b, ast.Return) for b in n.body)]
    return changed, omit


def fanout_facts():
    """from the AST of Dispatcher.broadcast_event and of the handlers of `change` / `read` requests:
    (a) every loop over the listeners has the single statement `<loop variable>.send_reply(msg)` as its body — every
        selected listener gets the message, whoever it is;
    (b) the attributes of the dispatcher `broadcast_event` reads (who is selected depends on these only);
    (c) `handle_change` / `handle_read` do not use their `conn` argument;
    (d) the attributes of the dispatcher assigned in handle_change, handle_read, _setParameterValue, _getParameterValue"""
    import ast
    import inspect
    import textwrap
    from frappy.protocol.dispatcher import Dispatcher

    def tree_of(name):
        return ast.parse(textwrap.dedent(inspect.getsource(getattr(Dispatcher, name))))
    tree = tree_of('broadcast_event')
    loops = [n for n in ast.walk(tree) if isinstance(n, ast.For) and 'listeners' in ast.unparse(n.iter)]
    unconditional = bool(loops) and all(
        not lp.orelse and len(lp.body) == 1 and isinstance(lp.body[0], ast.Expr)
        and ast.unparse(lp.body[0].value) == f'{ast.unparse(lp.target)}.send_reply(msg)' for lp in loops)
    sends = [n for n in ast.walk(tree) if isinstance(n, ast.Call) and ast.unparse(n.func).endswith('send_reply')]
    all_in_loops = len(sends) == len(loops)
    reads = sorted({n.attr for n in ast.walk(tree) if isinstance(n, ast.Attribute) and ast.unparse(n.value) == 'self'})
    uses_conn = []
    stores = []
    for name in ('handle_change', 'handle_read', '_setParameterValue', '_getParameterValue'):
        t = tree_of(name)
        if any(isinstance(n, ast.Name) and n.id == 'conn' for n in ast.walk(t)):
            uses_conn.append(name)
        for n in ast.walk(t):
            targets = n.targets if isinstance(n, ast.Assign) else [n.target] if isinstance(n, (ast.AugAssign, ast.AnnAssign)) else []
            for tg in targets:
                if isinstance(tg, ast.Attribute) and ast.unparse(tg.value) == 'self':
                    stores.append(f'{name}:{tg.attr}')
    return unconditional and all_in_loops, reads, uses_conn, stores


def transport_facts():
    """from the AST of TCPRequestHandler.send_reply / finish, RequestHandler.__init__ / handle / finish and
    Dispatcher.remove_connection / reset_connection:
    (a) the exception classes caught around `sendall`, and whether EVERY handler of that `try` assigns
        `self.running = False` as a statement of its own (not under a condition);
    (b) `sendall` is only called under `if self.running:` inside `with self.send_lock:`;
    (c) every `while` loop of `handle` tests `self.running` and nothing else;
    (d) `__init__` calls `self.finish()` in the `finally` of the `try` that calls `self.handle()`;
    (e) `finish` tells the dispatcher `remove_connection(self)`; the TCP `finish` calls the base `finish` and closes the socket
        in a `finally`;
    (f) `remove_connection` takes the connection out of `_connections` and calls `reset_connection`, which discards it from
        every set of `_subscriptions` and from `_active_connections`"""
    import ast
    import inspect
    import textwrap
    from frappy.protocol.dispatcher import Dispatcher
    from frappy.protocol.interface.handler import RequestHandler
    from frappy.protocol.interface.tcp import TCPRequestHandler

    def tree_of(obj):
        return ast.parse(textwrap.dedent(inspect.getsource(obj)))

    def calls(node, suffix):
        return [n for n in ast.walk(node) if isinstance(n, ast.Call) and ast.unparse(n.func).endswith(suffix)]

    def stops(stmt):
        return (isinstance(stmt, ast.Assign) and [ast.unparse(t) for t in stmt.targets] == ['self.running']
                and isinstance(stmt.value, ast.Constant) and stmt.value.value is False)

    tree = tree_of(TCPRequestHandler.send_reply)
    tries = [n for n in ast.walk(tree) if isinstance(n, ast.Try) and any(calls(st, '.sendall') for st in n.body)]
    caught, all_stop = [], bool(tries)
    for t in tries:
        all_stop = all_stop and bool(t.handlers) and not t.orelse
        for h in t.handlers:
            if h.type is None:
                caught.append('BaseException')
            elif isinstance(h.type, ast.Tuple):
                caught += [ast.unparse(e) for e in h.type.elts]
            else:
                caught.append(ast.unparse(h.type))
            all_stop = all_stop and any(stops(st) for st in h.body)
    all_sends = calls(tree, '.sendall')
    in_tries = sum(len(calls(st, '.sendall')) for t in tries for st in t.body)
    all_stop = all_stop and len(all_sends) == in_tries
    guarded = False
    for w in [n for n in ast.walk(tree) if isinstance(n, ast.With)
              and any(ast.unparse(i.context_expr) == 'self.send_lock' for i in n.items)]:
        ifs = [n for n in w.body if isinstance(n, ast.If) and ast.unparse(n.test) == 'self.running' and not n.orelse]
        inside = sum(len(calls(st, '.sendall')) for i in ifs for st in i.body)
        guarded = guarded or (bool(all_sends) and inside == len(all_sends))
    loops = [n for n in ast.walk(tree_of(RequestHandler.handle)) if isinstance(n, ast.While)]
    loops_ok = bool(loops) and all(ast.unparse(lp.test) == 'self.running' for lp in loops)
    init = tree_of(RequestHandler.__init__)
    finish_always = any(isinstance(n, ast.Try) and any(calls(st, 'self.handle') for st in n.body)
                        and any(calls(st, 'self.finish') for st in n.finalbody) for n in ast.walk(init))
    finish_removes = any(ast.unparse(c) == 'self.server.dispatcher.remove_connection(self)'
                         for c in calls(tree_of(RequestHandler.finish), 'remove_connection'))
    tfin = tree_of(TCPRequestHandler.finish)
    finish_closes = (any(ast.unparse(c) == 'super().finish()' for c in calls(tfin, '.finish'))
                     and any(isinstance(n, ast.Try) and any(calls(st, 'self.request.close') for st in n.finalbody)
                             for n in ast.walk(tfin)))
    rem = tree_of(Dispatcher.remove_connection)
    res = tree_of(Dispatcher.reset_connection)
    forgets = (bool(calls(rem, 'self._connections.remove')) and bool(calls(rem, 'self.reset_connection'))
               and bool(calls(res, 'self._active_connections.discard'))
               and any(isinstance(n, ast.For) and '_subscriptions' in ast.unparse(n.iter) and calls(n, '.discard')
                       for n in ast.walk(res)))
    return caught, all_stop, guarded, loops_ok, finish_always, finish_removes, finish_closes, forgets


def generate():
    from frappy.params import Parameter
    from frappy.lib import generalConfig
    from frappy.protocol.messages import EVENTREPLY, ERRORPREFIX
    dt = Parameter.propertyDict['update_unchanged'].datatype
    enum = next(t for t in dt.types if hasattr(t, '_enum'))
    members = {m.name: int(m.value) for m in enum._enum.members}
    default = Parameter.propertyDict['update_unchanged'].default
    gen = generalConfig.defaults.get('omit_unchanged_within', 0)
    caught, after_store, before_notify = callback_facts()
    snap_under_lock, register_first = activate_facts()
    from translate import llist, lbool
    changed_exprs, omit_tests = funnel_facts()
    fan_uncond, fan_reads, req_uses_conn, req_stores = fanout_facts()
    (send_caught, send_stops, send_guarded, loops_ok, finish_always, finish_removes, finish_closes,
     remove_forgets) = transport_facts()
    return [
        'def sendCaught : List String := ' + llist(lstr(c) for c in send_caught),
        f'def sendFailureStops : Bool := {lbool(send_stops)}',
        f'def sendGuardedByRunning : Bool := {lbool(send_guarded)}',
        f'def handleLoopsTestRunning : Bool := {lbool(loops_ok)}',
        f'def finishAlwaysCalled : Bool := {lbool(finish_always)}',
        f'def finishRemovesConnection : Bool := {lbool(finish_removes)}',
        f'def tcpFinishClosesSocket : Bool := {lbool(finish_closes)}',
        f'def removeConnectionForgets : Bool := {lbool(remove_forgets)}',
        'def changedExprs : List String := ' + llist(lstr(c) for c in changed_exprs),
        'def earlyReturnTests : List String := ' + llist(lstr(c) for c in omit_tests),
        f'def fanoutUnconditional : Bool := {lbool(fan_uncond)}',
        'def fanoutReads : List String := ' + llist(lstr(c) for c in fan_reads),
        'def requestHandlersUsingConn : List String := ' + llist(lstr(c) for c in req_uses_conn),
        'def requestHandlersStores : List String := ' + llist(lstr(c) for c in req_stores),
        'def callbackCaught : List String := ' + llist(lstr(c) for c in caught),
        f'def callbacksAfterStores : Bool := {lbool(after_store)}',
        f'def callbacksBeforeNotify : Bool := {lbool(before_notify)}',
        f'def snapshotSentUnderUpdateLock : Bool := {lbool(snap_under_lock)}',
        f'def registeredBeforeSnapshot : Bool := {lbool(register_first)}',
        f'def updateUnchangedAlways : Int := {lint(members["always"])}',
        f'def updateUnchangedNever : Int := {lint(members["never"])}',
        f'def updateUnchangedDefault : Int := {lint(members["default"])}',
        f'def updateUnchangedPropertyDefault : Int := {lint(int(default))}',
        f'def entryDefaultTimestamp : Int := {lint(int(Parameter.timestamp))}',
        f'def entryDefaultWindow : Int := {lint(int(Parameter.omit_unchanged_within))}',
        f'def generalWindowMillis : Int := {lint(int(round(gen * 1000)))}',
        f'def eventReply : String := {lstr(EVENTREPLY)}',
        f'def errorEventReply : String := {lstr(ERRORPREFIX + EVENTREPLY)}',
    ]
