"""constant tables for C05: the markers of `update_unchanged`, the class defaults of the cache entry, message names"""
from translate import lstr, lint


def generate():
    from frappy.params import Parameter
    from frappy.lib import generalConfig
    from frappy.protocol.messages import EVENTREPLY, ERRORPREFIX
    dt = Parameter.propertyDict['update_unchanged'].datatype
    enum = next(t for t in dt.types if hasattr(t, '_enum'))
    members = {m.name: int(m.value) for m in enum._enum.members}
    default = Parameter.propertyDict['update_unchanged'].default
    gen = generalConfig.defaults.get('omit_unchanged_within', 0)
    return [
        f'def updateUnchangedAlways : Int := {lint(members["always"])}',
        f'def updateUnchangedNever : Int := {lint(members["never"])}',
        f'def updateUnchangedDefault : Int := {lint(members["default"])}',
        f'def updateUnchangedPropertyDefault : Int := {lint(int(default))}',
        f'def entryDefaultTimestamp : Int := {lint(int(Parameter.timestamp))}',
        f'def entryDefaultWindow : Int := {lint(int(Parameter.omit_unchanged_within))}',
        f'def generalWindowMillis : Int := {lint(int(round(gen * 1000)))}',
        f'def eventReply : String := {lstr(EVENTREPLY)}',
        f'def errorEventReply : String := {lstr(ERRORPREFIX + EVENTREPLY)}',
    ]
