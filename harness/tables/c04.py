"""constant tables for C04 / C06: PREDEFINED_ACCESSIBLES (name, kind) in source order; SECoP names of the error
classes the dispatcher itself raises"""
from translate import lstr, llist


def generate():
    from frappy.params import PREDEFINED_ACCESSIBLES, Parameter, Command
    import frappy.errors as ferr
    items = []
    for name, cls in PREDEFINED_ACCESSIBLES.items():
        kind = '.parameter' if cls is Parameter else '.command' if cls is Command else None
        if kind is None:
            raise RuntimeError(f'PREDEFINED_ACCESSIBLES[{name!r}] is neither Parameter nor Command')
        items.append(f'({lstr(name)}, {kind})')
    names = [('noSuchModule', ferr.NoSuchModuleError), ('noSuchParameter', ferr.NoSuchParameterError),
             ('noSuchCommand', ferr.NoSuchCommandError), ('readOnly', ferr.ReadOnlyError),
             ('wrongType', ferr.WrongTypeError), ('rangeError', ferr.RangeError),
             ('protocol', ferr.ProtocolError), ('internal', ferr.InternalError)]
    return [
        'inductive Kind | parameter | command deriving DecidableEq, Repr',
        'def predefined : List (String × Kind) := ' + llist(items),
        'def errorNames : List (String × String) := ' + llist(f'({lstr(k)}, {lstr(c.name)})' for k, c in names),
    ]
