"""constant tables for C13: literals of the poll thread body, limits of the interval datatypes"""
import ast
import inspect
import math
import textwrap

from translate import lbool

TICKS = 1024          # ticks per second of the virtual clock (2^-10 s: float arithmetic on multiples is exact)


def _consts():
    from frappy.modulebase import Module
    src = textwrap.dedent(inspect.getsource(Module._Module__pollThread))
    tree = ast.parse(src)
    cap = None
    waits = []
    for node in ast.walk(tree):
        if isinstance(node, ast.Assign) and len(node.targets) == 1 and isinstance(node.targets[0], ast.Name) \
                and node.targets[0].id == 'wait_time' and isinstance(node.value, ast.Constant):
            cap = node.value.value
        if isinstance(node, ast.Call) and isinstance(node.func, ast.Attribute) and node.func.attr == 'wait' \
                and node.args and isinstance(node.args[0], ast.Constant):
            waits.append(node.args[0].value)
    if cap is None or len(waits) != 1:
        raise RuntimeError(f'poll thread body changed shape: cap={cap} constant waits={waits}')
    # callPollFunc: the handler that contains failures
    src2 = textwrap.dedent(inspect.getsource(Module.callPollFunc))
    t2 = ast.parse(src2)
    handlers = [h for n in ast.walk(t2) if isinstance(n, ast.Try) for h in n.handlers]
    catches_exception = any(isinstance(h.type, ast.Name) and h.type.id == 'Exception' for h in handlers)
    fast_default = inspect.signature(Module.setFastPoll).parameters['fast_interval'].default
    return cap, waits[0], catches_exception, fast_default


def _write_init_accessors():
    """which methods of the module `writeInitParams` looks up and calls: the string prefixes of its
    `getattr(self, '<prefix>' + pname, ...)` look-ups, and the names of methods it calls on `self` directly"""
    from frappy.modulebase import Module
    tree = ast.parse(textwrap.dedent(inspect.getsource(Module.writeInitParams)))
    prefixes, selfcalls = set(), set()
    for node in ast.walk(tree):
        if isinstance(node, ast.Call) and isinstance(node.func, ast.Name) and node.func.id == 'getattr' and len(node.args) >= 2:
            a = node.args[1]
            if isinstance(a, ast.BinOp) and isinstance(a.op, ast.Add) and isinstance(a.left, ast.Constant) and isinstance(a.left.value, str):
                prefixes.add(a.left.value)
            elif isinstance(a, ast.Constant) and isinstance(a.value, str):
                prefixes.add(a.value)
            elif isinstance(a, ast.JoinedStr):
                prefixes.add(''.join(v.value for v in a.values if isinstance(v, ast.Constant)))
            else:
                prefixes.add('?')       # a look-up this extraction does not understand: the table fact below fails
        if isinstance(node, ast.Call) and isinstance(node.func, ast.Attribute) and isinstance(node.func.value, ast.Name) \
                and node.func.value.id == 'self':
            selfcalls.add(node.func.attr)
    return sorted(prefixes), sorted(selfcalls)


def _lstrs(l):
    return '[' + ', '.join('"%s"' % x.replace('\\', '\\\\').replace('"', '\\"') for x in l) + ']'


def generate():
    from frappy.modulebase import Module
    from frappy.modules import Readable
    from frappy.io import IOBase
    cap, startup, catches, fast = _consts()
    slow_dt = Module.propertyDict['slowinterval'].datatype
    poll_dt = Readable.accessibles['pollinterval'].datatype
    io_dt = IOBase.accessibles['pollinterval'].datatype
    return [
        f'def ticksPerSecond : Nat := {TICKS}',
        f'def waitCap : Nat := {int(cap * TICKS)}',
        f'def startupWait : Nat := {math.ceil(startup * TICKS)}',
        f'def fastIntervalDefault : Nat := {int(fast * TICKS)}',
        f'def slowMin : Nat := {math.floor(slow_dt.min * TICKS)}',
        f'def slowMax : Nat := {math.ceil(slow_dt.max * TICKS)}',
        f'def pollMinReadable : Nat := {math.floor(poll_dt.min * TICKS)}',
        f'def pollMinIO : Nat := {math.floor(io_dt.min * TICKS)}',
        f'def callPollFuncCatchesException : Bool := {lbool(catches)}',
        f'def writeInitParamsLookups : List String := {_lstrs(_write_init_accessors()[0])}',
        f'def writeInitParamsSelfCalls : List String := {_lstrs(_write_init_accessors()[1])}',
    ]
