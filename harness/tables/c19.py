"""constant tables for C19 (UDP discovery responder), re-extracted from frappy/protocol/discovery.py and
frappy/server.py of the tree under test:

* MAX_MESSAGE_LEN, UDP_PORT
* the buffer size handed to `recvfrom`, the port number used for the budget (`self._getMessage(2**16-1)`)
* the fixed text of a message (the JSON skeleton around port / equipment_id / firmware / description), obtained by
  running the real `_getMessage` on marker values and splitting at the markers
* the firmware prefix ('FRAPPY ')
* which exception classes the `except` clause around `json.loads(msg.decode('utf-8'))` catches
* the interface schemes the server knows (Server.INTERFACES)
"""
import ast
import inspect
import json

from translate import llist


def lchar(ch):
    o = ord(ch)
    if ch in "'\\\"":
        return "'\\" + ch + "'"
    if 32 <= o < 127:
        return "'" + ch + "'"
    return f'Char.ofNat {o}'


def lchars(s):
    return llist(lchar(c) for c in s)


class _Sock:
    def setsockopt(self, *a):
        pass

    def bind(self, a):
        pass

    def close(self):
        pass


class _SockMod:
    def __init__(self, real):
        self._real = real

    def __getattr__(self, name):
        return getattr(self._real, name)

    def socket(self, *a, **kw):
        return _Sock()


class _Log:
    def __getattr__(self, name):
        return lambda *a, **kw: None


def _segments(D):
    """the fixed pieces of a message: text = seg0 port seg1 "id" seg2 "fw" seg3 "desc" seg4"""
    saved = D.socket, D.get_version
    D.socket = _SockMod(saved[0])
    D.get_version = lambda *a: ''
    try:
        u = D.UDPListener('@I@', '@D@', ['tcp://1'], _Log(), startup_broadcast=False)
        prefix = u.firmware
        u.firmware = '@F@'
        text = u._getMessage(77777).decode('utf-8')
    finally:
        D.socket, D.get_version = saved
    segs = []
    rest = text
    for marker in ('77777', '"@I@"', '"@F@"', '"@D@"'):
        if rest.count(marker) != 1:
            return prefix, None
        head, rest = rest.split(marker)
        segs.append(head)
    segs.append(rest)
    return prefix, segs


def _ast_facts(D):
    tree = ast.parse(inspect.getsource(D))
    recv = None
    budget_port = None
    caught = None
    for node in ast.walk(tree):
        if isinstance(node, ast.Call) and isinstance(node.func, ast.Attribute):
            if node.func.attr == 'recvfrom' and node.args:
                recv = eval(compile(ast.Expression(node.args[0]), '<recvfrom>', 'eval'), vars(D))  # pylint: disable=eval-used
        if isinstance(node, ast.FunctionDef) and node.name == '__init__':
            for sub in ast.walk(node):
                if isinstance(sub, ast.Call) and isinstance(sub.func, ast.Attribute) and sub.func.attr == '_getMessage' \
                        and sub.args:
                    budget_port = eval(compile(ast.Expression(sub.args[0]), '<port>', 'eval'), vars(D))  # pylint: disable=eval-used
        if isinstance(node, ast.Try):
            src = ast.unparse(ast.Module(node.body, []))
            if 'json.loads' in src:
                classes = []
                for h in node.handlers:
                    # only a handler that goes on with the loop counts as catching
                    if not (len(h.body) == 1 and isinstance(h.body[0], ast.Continue)):
                        continue
                    if h.type is None:
                        classes.append(BaseException)
                    else:
                        v = eval(compile(ast.Expression(h.type), '<except>', 'eval'), vars(D))  # pylint: disable=eval-used
                        classes += list(v) if isinstance(v, tuple) else [v]
                caught = tuple(classes)
    return recv, budget_port, caught


def generate():
    import frappy.protocol.discovery as D
    from frappy.server import Server
    prefix, segs = _segments(D)
    recv, budget_port, caught = _ast_facts(D)
    caught = caught or ()

    def catches(exc):
        return 'true' if caught and issubclass(exc, caught) else 'false'
    out = [
        f'def maxMessageLen : Nat := {int(D.MAX_MESSAGE_LEN)}',
        f'def udpPort : Nat := {int(D.UDP_PORT)}',
        f'def recvBufSize : Nat := {int(recv) if recv is not None else 0}',
        f'def budgetPort : Nat := {int(budget_port) if budget_port is not None else 0}',
        'def firmwarePrefix : List Char := ' + lchars(prefix),
    ]
    if segs is None:
        out.append('-- the message text could not be split at the marker values: the skeleton is left empty')
        segs = ['', '', '', '', '']
    for i, s in enumerate(segs):
        out.append(f'def seg{i} : List Char := ' + lchars(s))
    out += [
        '-- exception classes caught (with `continue`) around `json.loads(msg.decode(\'utf-8\'))`',
        f'def catchesUnicodeDecodeError : Bool := {catches(UnicodeDecodeError)}',
        f'def catchesJSONDecodeError : Bool := {catches(json.JSONDecodeError)}',
        f'def catchesValueError : Bool := {catches(ValueError)}',
        f'def catchesRecursionError : Bool := {catches(RecursionError)}',
        f'def catchesTypeError : Bool := {catches(TypeError)}',
        'def serverSchemes : List (List Char) := ' + llist(lchars(s) for s in Server.INTERFACES),
    ]
    return out
