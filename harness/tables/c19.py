"""constant tables for C19 (UDP discovery responder), re-extracted from frappy/protocol/discovery.py and
frappy/server.py of the tree under test:

* MAX_MESSAGE_LEN, UDP_PORT
* the buffer size handed to `recvfrom`, the port number used for the budget (`self._getMessage(2**16-1)`)
* the fixed text of a message (the JSON skeleton around port / equipment_id / firmware / description), obtained by
  running the real `_getMessage` on marker values and splitting at the markers
* the firmware prefix ('FRAPPY ')
* which exception classes the `except` clause around `json.loads(msg.decode('utf-8'))` catches
* the interface schemes the server knows (Server.INTERFACES)
"""
import ast
import inspect
import json

from translate import llist


def lchar(ch):
    o = ord(ch)
    if ch in "'\\\"":
        return "'\\" + ch + "'"
    if 32 <= o < 127:
        return "'" + ch + "'"
    return f'Char.ofNat {o}'


def lchars(s):
    return llist(lchar(c) for c in s)


class _Sock:
    def setsockopt(self, *a):
        pass

    def bind(self, a):
        pass

    def close(self):
        pass


class _SockMod:
    def __init__(self, real):
        self._real = real

    def __getattr__(self, name):
        return getattr(self._real, name)

    def socket(self, *a, **kw):
        return _Sock()


class _Log:
    def __getattr__(self, name):
        return lambda *a, **kw: None


def _segments(D):
    """the fixed pieces of a message: text = seg0 port seg1 "id" seg2 "fw" seg3 "desc" seg4"""
    saved = D.socket, D.get_version
    D.socket = _SockMod(saved[0])
    D.get_version = lambda *a: ''
    try:
        u = D.UDPListener('@I@', '@D@', ['tcp://1'], _Log(), startup_broadcast=False)
        prefix = u.firmware
        u.firmware = '@F@'
        text = u._getMessage(77777)
        if not isinstance(text, str):
            text = text.decode('utf-8')
    finally:
        D.socket, D.get_version = saved
    segs = []
    rest = text
    for marker in ('77777', '"@I@"', '"@F@"', '"@D@"'):
        if rest.count(marker) != 1:
            return prefix, None
        head, rest = rest.split(marker)
        segs.append(head)
    segs.append(rest)
    return prefix, segs


def _ast_facts(D):
    tree = ast.parse(inspect.getsource(D))
    recv = None
    budget_port = None
    caught = None
    for node in ast.walk(tree):
        if isinstance(node, ast.Call) and isinstance(node.func, ast.Attribute):
            if node.func.attr == 'recvfrom' and node.args:
                recv = eval(compile(ast.Expression(node.args[0]), '<recvfrom>', 'eval'), vars(D))  # pylint: disable=eval-used
        if isinstance(node, ast.FunctionDef) and node.name == '__init__':
            for sub in ast.walk(node):
                if isinstance(sub, ast.Call) and isinstance(sub.func, ast.Attribute) and sub.func.attr == '_getMessage' \
                        and sub.args:
                    budget_port = eval(compile(ast.Expression(sub.args[0]), '<port>', 'eval'), vars(D))  # pylint: disable=eval-used
        if isinstance(node, ast.Try):
            src = ast.unparse(ast.Module(node.body, []))
            if 'json.loads' in src:
                classes = []
                for h in node.handlers:
                    # only a handler that goes on with the loop counts as catching
                    if not (len(h.body) == 1 and isinstance(h.body[0], ast.Continue)):
                        continue
                    if h.type is None:
                        classes.append(BaseException)
                    else:
                        v = eval(compile(ast.Expression(h.type), '<except>', 'eval'), vars(D))  # pylint: disable=eval-used
                        classes += list(v) if isinstance(v, tuple) else [v]
                caught = tuple(classes)
    return recv, budget_port, caught


def _send_fact(D):
    """are the answer sends (`sendto(..., addr)` inside the receive loop of `run`) enclosed in a `try` whose handler catches
    OSError and goes on with the loop (no `raise`, no `return`, no `break` in the handler)?"""
    tree = ast.parse(inspect.getsource(D))
    for fn in ast.walk(tree):
        if not (isinstance(fn, ast.FunctionDef) and fn.name == 'run'):
            continue
        for loop in ast.walk(fn):
            if not isinstance(loop, ast.While):
                continue
            answer_sends = []          # (call node, protected?)

            def visit(node, protected):
                if isinstance(node, ast.Try):
                    ok = False
                    for h in node.handlers:
                        if h.type is None:
                            classes = (BaseException,)
                        else:
                            v = eval(compile(ast.Expression(h.type), '<except>', 'eval'), vars(D))  # pylint: disable=eval-used
                            classes = tuple(v) if isinstance(v, tuple) else (v,)
                        leaves = any(isinstance(x, (ast.Raise, ast.Return, ast.Break)) for b in h.body for x in ast.walk(b))
                        if issubclass(OSError, classes) and not leaves:
                            ok = True
                    for child in node.body:
                        visit(child, protected or ok)
                    for part in (node.handlers, node.orelse, node.finalbody):
                        for child in part:
                            visit(child, protected)
                    return
                if isinstance(node, ast.Call) and isinstance(node.func, ast.Attribute) and node.func.attr == 'sendto':
                    answer_sends.append(protected)
                elif isinstance(node, ast.Call) and isinstance(node.func, ast.Attribute) \
                        and isinstance(node.func.value, ast.Name) and node.func.value.id == 'self' \
                        and not node.func.attr.startswith('_getMessage') and node.func.attr.startswith('_'):
                    # a private helper called from the loop (it may do the sending): counts as a send at this place
                    answer_sends.append(protected)
                for child in ast.iter_child_nodes(node):
                    visit(child, protected)
            for stmt in loop.body:
                visit(stmt, False)
            return bool(answer_sends) and all(answer_sends)
    return False


def _server_facts():
    """(A) `self.interfaces = {}` inside the restart loop of Server.run, (B) the UDPListener gets the bound ports
    (`iface.port`) or `list(self.interfaces)`, (C) Server.restart shuts `self.discovery` down"""
    import frappy.server as S
    tree = ast.parse(inspect.getsource(S.Server))
    reset = bound = closes = False
    known_arg = False
    for fn in ast.walk(tree):
        if isinstance(fn, ast.FunctionDef) and fn.name == 'run':
            for loop in ast.walk(fn):
                if isinstance(loop, ast.While):
                    for node in ast.walk(loop):
                        if isinstance(node, ast.Assign) and isinstance(node.value, ast.Dict) and not node.value.keys \
                                and any(ast.unparse(t) == 'self.interfaces' for t in node.targets):
                            reset = True
            for node in ast.walk(fn):
                if isinstance(node, ast.Call) and ast.unparse(node.func) == 'UDPListener' and len(node.args) >= 3:
                    arg = ast.unparse(node.args[2])
                    if arg == 'list(self.interfaces)':
                        known_arg = True
                    elif 'iface.port' in arg and 'self.interfaces.items()' in arg:
                        known_arg = bound = True
        if isinstance(fn, ast.FunctionDef) and fn.name == 'restart':
            for node in ast.walk(fn):
                if isinstance(node, ast.Call) and ast.unparse(node.func) == 'self.discovery.shutdown':
                    closes = True
    return reset, bound, closes, known_arg


def generate():
    import frappy.protocol.discovery as D
    from frappy.server import Server
    prefix, segs = _segments(D)
    recv, budget_port, caught = _ast_facts(D)
    caught = caught or ()

    def catches(exc):
        return 'true' if caught and issubclass(exc, caught) else 'false'
    out = [
        f'def maxMessageLen : Nat := {int(D.MAX_MESSAGE_LEN)}',
        f'def udpPort : Nat := {int(D.UDP_PORT)}',
        f'def recvBufSize : Nat := {int(recv) if recv is not None else 0}',
        f'def budgetPort : Nat := {int(budget_port) if budget_port is not None else 0}',
        'def firmwarePrefix : List Char := ' + lchars(prefix),
    ]
    if segs is None:
        out.append('-- the message text could not be split at the marker values: the skeleton is left empty')
        segs = ['', '', '', '', '']
    for i, s in enumerate(segs):
        out.append(f'def seg{i} : List Char := ' + lchars(s))
    out += [
        '-- exception classes caught (with `continue`) around `json.loads(msg.decode(\'utf-8\'))`',
        f'def catchesUnicodeDecodeError : Bool := {catches(UnicodeDecodeError)}',
        f'def catchesJSONDecodeError : Bool := {catches(json.JSONDecodeError)}',
        f'def catchesValueError : Bool := {catches(ValueError)}',
        f'def catchesRecursionError : Bool := {catches(RecursionError)}',
        f'def catchesTypeError : Bool := {catches(TypeError)}',
        'def serverSchemes : List (List Char) := ' + llist(lchars(s) for s in Server.INTERFACES),
        '-- the sends answering a request are inside `try … except OSError` that goes on with the loop',
        f'def catchesSendError : Bool := {"true" if _send_fact(D) else "false"}',
    ]
    reset, bound, closes, known_arg = _server_facts()
    out += [
        '-- frappy/server.py: Server.run / Server.restart',
        f'def interfacesResetPerRound : Bool := {"true" if reset else "false"}',
        f'def announcesBoundPort : Bool := {"true" if bound else "false"}',
        f'def restartClosesDiscovery : Bool := {"true" if closes else "false"}',
        f'def listenerArgumentRecognised : Bool := {"true" if known_arg else "false"}',
    ]
    return out
