"""constants the C16 model takes from the source"""


def generate():
    from frappy.lib.asynconn import AsynConn
    from frappy.io import IOBase
    from frappy.lib import SECoP_DEFAULT_PORT
    return [
        f'/-- `AsynConn.timeout`: the longest one `recv` blocks, in microseconds -/\ndef recvGranularity : Nat := {int(AsynConn.timeout * 1000000)}',
        f'/-- `IOBase._last_connect_attempt` before the first attempt -/\ndef initialLastAttempt : Nat := {int(IOBase._last_connect_attempt)}',
        f'/-- `frappy.lib.SECoP_DEFAULT_PORT`: the tcp port used when neither the uri nor the default settings give one -/\n'
        f'def secopDefaultPort : Nat := {int(SECoP_DEFAULT_PORT)}',
    ]
