"""constants the C16 model takes from the source"""


def generate():
    from frappy.lib.asynconn import AsynConn
    from frappy.io import IOBase
    return [
        f'/-- `AsynConn.timeout`: the longest one `recv` blocks, in microseconds -/\ndef recvGranularity : Nat := {int(AsynConn.timeout * 1000000)}',
        f'/-- `IOBase._last_connect_attempt` before the first attempt -/\ndef initialLastAttempt : Nat := {int(IOBase._last_connect_attempt)}',
    ]
