"""mkdesign.py: regenerates the tables of DESIGN.md section 9.2 between the GENERATED markers from the committed artefacts."""
import glob
import json
import os
import re

VERIF = os.path.dirname(os.path.dirname(os.path.abspath(__file__)))


def props():
    res = {}
    for line in open(os.path.join(VERIF, 'properties.jsonl')):
        p = json.loads(line)
        res[p['id']] = p
    return res


def strip_comments(text):
    out, i, depth, n = [], 0, 0, len(text)
    while i < n:
        if text.startswith('/-', i):
            depth += 1; i += 2
        elif depth and text.startswith('-/', i):
            depth -= 1; i += 2
        elif depth:
            i += 1
        elif text.startswith('--', i):
            while i < n and text[i] != '\n':
                i += 1
        else:
            out.append(text[i]); i += 1
    return ''.join(out)


def prop_theorems(pid):
    path = os.path.join(VERIF, 'lean', 'FrappyProofs', 'Props', pid + '.lean')
    try:
        text = strip_comments(open(path).read())
    except OSError:
        return [], [], []
    thms = re.findall(r'^\s*theorem\s+([^\s:({\[]+)', text, re.M)
    stmts = re.findall(r'^\s*def\s+([^\s:({\[]+_statement)\b', text, re.M)
    partial = [t for t in thms if '_partial' in t]
    return thms, partial, stmts


def main():
    P = props()
    out = []
    out.append('#### Status per property (generated)\n')
    out.append('| prop | obligations (all discharged) | property theorems | `_partial` | stated only (`_statement`) | fixes | recorded findings | notes |')
    out.append('|---|---|---|---|---|---|---|---|')
    total_fix = total_find = 0
    for pid in sorted(P):
        try:
            ev = json.load(open(os.path.join(VERIF, 'evidence', pid + '.json')))
            obl = '%d/%d' % (ev['coverage']['discharged'], ev['coverage']['obligations'])
        except (OSError, KeyError):
            obl = '–'
        thms, partial, stmts = prop_theorems(pid)
        try:
            kf = json.load(open(os.path.join(VERIF, 'known_findings', pid + '.json')))
        except OSError:
            kf = {'findings': [], 'fixed': []}
        total_fix += len(kf.get('fixed', []))
        total_find += len(kf.get('findings', []))
        out.append(f"| {pid} | {obl} | {len(thms)} | {', '.join('`%s`' % t for t in partial) or '–'} | "
                   f"{', '.join('`%s`' % t for t in stmts) or '–'} | {len(kf.get('fixed', []))} | {len(kf.get('findings', []))} | "
                   f"`design_notes/{pid}.md` |")
    out.append(f'\nTotals: {total_fix} repaired defects (`fix:` commits in the repository, listed in `known_findings/*.json` → `fixed`), '
               f'{total_find} recorded findings.\n')

    out.append('#### Recorded findings (generated from `known_findings/*.json`)\n')
    for pid in sorted(P):
        try:
            kf = json.load(open(os.path.join(VERIF, 'known_findings', pid + '.json')))
        except OSError:
            continue
        for f in kf.get('findings', []):
            out.append(f"* **{pid}** `{f['signature']}` — {f['what']}")
    out.append('')

    out.append('#### Repaired defects (generated from `known_findings/*.json`)\n')
    for pid in sorted(P):
        try:
            kf = json.load(open(os.path.join(VERIF, 'known_findings', pid + '.json')))
        except OSError:
            continue
        for f in kf.get('fixed', []):
            out.append('* ' + f)
    out.append('')

    out.append('#### Seeded changes and which check catches them (generated from `seeded/*/meta.json`)\n')
    out.append('Each was written by an independent agent that saw only the property text and a scratch worktree; each compiles, passes the '
               '301 baseline tests and fails its own `demo.py`; `harness/seeded.py <id>` applies it to a scratch worktree of `/repo` and runs '
               '`./check` with `VERIF_REPO` pointing there.\n')
    out.append('| id | what it breaks / what it needs to manifest | caught | first report of the check |')
    out.append('|---|---|---|---|')
    n = caught = 0
    n_neutral = [0]
    for d in sorted(glob.glob(os.path.join(VERIF, 'seeded', '*'))):
        try:
            m = json.load(open(os.path.join(d, 'meta.json')))
        except OSError:
            continue
        sid = os.path.basename(d)
        v = m.get('verified', {})
        neutral = m.get('neutralised_by')
        if neutral:
            # a later `fix:` commit removed the weakness the change relied on: its demo passes with the patch applied
            n_neutral[0] += 1
            what = (m.get('what_breaks') or m.get('title') or '').replace('\n', ' ').replace('|', '/')
            out.append(f"| {sid} | {what[:260]} | no longer a violation | {neutral.replace('|', '/')} |")
            continue
        n += 1
        caught += bool(v.get('caught'))
        what = (m.get('what_breaks') or m.get('title') or '').replace('\n', ' ').replace('|', '/')
        need = (m.get('needs_to_manifest') or '').replace('\n', ' ').replace('|', '/')
        how = ('yes' + ('' if v.get('with_failing_input') else ' (no-failing-input-found)')) if v.get('caught') else '**no**'
        note = v.get('note') or ''
        rep = (v.get('first_report') or '').replace('\n', ' ').replace('|', '/')[:160]
        out.append(f"| {sid} | {what[:260]} — *needs:* {need[:220]} | {how} | {rep}{(' — ' + note) if note else ''} |")
    out.append(f'\n{caught} of {n} seeded changes are caught on the current tree'
               + (f' ({n_neutral[0]} more no longer break the property after a later repair of the repository: their demonstrations pass with the patch applied)' if n_neutral[0] else '') + '.\n')

    text = '\n'.join(out)
    p = os.path.join(VERIF, 'DESIGN.md')
    s = open(p).read()
    a = s.index('<!-- GENERATED-9.2-BEGIN -->') + len('<!-- GENERATED-9.2-BEGIN -->')
    b = s.index('<!-- GENERATED-9.2-END -->')
    s = s[:a] + '\n' + text + '\n' + s[b:]
    open(p, 'w').write(s)
    print('DESIGN.md section 9.2 regenerated:', caught, 'of', n, 'seeded caught')


if __name__ == '__main__':
    main()
