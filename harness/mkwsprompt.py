"""mkwsprompt.py <Cxx> <ws-name>: prints the work-package prompt for a worker strengthening property Cxx
(missed seeded changes are read from seeded/*/meta.json)."""
import glob, json, os, sys
HERE = os.path.dirname(os.path.abspath(__file__))
VERIF = os.path.dirname(HERE)
pid = sys.argv[1].upper()
ws = sys.argv[2]
missed = []
for mp in sorted(glob.glob(os.path.join(VERIF, 'seeded', pid + '-m*', 'meta.json'))):
    m = json.load(open(mp))
    v = m.get('verified', {})
    sid = os.path.basename(os.path.dirname(mp))
    if v.get('caught') and v.get('with_failing_input'):
        continue
    state = 'NOT caught (check exit %s)' % v.get('check_exit') if not v.get('caught') else 'caught only as no-failing-input-found'
    missed.append('  * %s — %s: %s' % (sid, state, m.get('title', '')))
t = open(os.path.join(HERE, 'ws_prompt.txt')).read()
for k, v in {'@PID@': pid, '@pid@': pid.lower(), '@ws@': ws, '@MISSED@': '\n'.join(missed) or '  (none at the moment)'}.items():
    t = t.replace(k, v)
print(t)
