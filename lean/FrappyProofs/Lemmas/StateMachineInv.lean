import FrappyProofs.Lemmas.C14Observe
import FrappyProofs.Lemmas.StateMachineCount
/-
The coupling between the machine and what an observer reads off its history, preserved by every
definition of the model; together with it, every event the model appends satisfies the clause conditions.
-/
namespace Frappy.SM
open Frappy.Spec.C14 Frappy.States

/-- all clause conditions that do not depend on the status rules -/
def okAll (ml : Nat) (o : Obs) (e : Ev) : Bool :=
  okInit o e && okCleanupOnce o e && okCleanupNotInterrupted o e && okStopInactive o e && okLastStart o e &&
  okPickedUp o e && okBound ml o e && okNoRaise o e && okStopPosted o e && okStartPosted o e

/-- the observer after the history of `σ` -/
abbrev ob (idle : Status) (σ : SM) : Obs := observe idle σ.trace

/-- the observer's bookkeeping of module-level requests: start requests begun / posted and not yet returned, stop
    requests owing their stop / having posted it and not yet returned (all `0` outside `startMachine`/`stopMachine`) -/
structure RQ where
  rq : Nat := 0
  sc : Nat := 0
  so : Nat := 0
  sk : Nat := 0

/-- coupling + all clause conditions so far; `mc`, `mi`, `tk`: what is due (`mustCleanup`, `mustInterrupt`, `taken`) -/
structure Inv (idle : Status) (ml : Nat) (mc : Option Cid) (mi : Bool) (tk : Option Req) (σ : SM)
    (q : RQ := {}) : Prop where
  good : Always idle (okAll ml) σ.trace
  cur : (ob idle σ).cur = σ.statefunc
  runCleanup : (ob idle σ).runCleanup = σ.cleanup
  interrupted : (ob idle σ).interrupted = (σ.reason.isSome && σ.statefunc.isSome)
  pending : (ob idle σ).pending = σ.nextTask
  attrs : (ob idle σ).attrs = σ.attrs
  mustCleanup : (ob idle σ).mustCleanup = mc
  mustInterrupt : (ob idle σ).mustInterrupt = mi
  taken : (ob idle σ).taken = tk
  j0 : ∀ r, σ.nextTask = some r → (ob idle σ).lastPost = some r
  j1 : ∀ st, (ob idle σ).lastPost = some (.stop st) → σ.nextTask = none → σ.statefunc = none
  requesting : (ob idle σ).requesting = q.rq
  startCredit : (ob idle σ).startCredit = q.sc
  stopOwed : (ob idle σ).stopOwed = q.so
  stopCredit : (ob idle σ).stopCredit = q.sk

/-- what requests leave alone -/
structure Same (idle : Status) (σ σ' : SM) : Prop where
  statefunc : σ'.statefunc = σ.statefunc
  cleanup : σ'.cleanup = σ.cleanup
  reason : σ'.reason = σ.reason
  init : σ'.init = σ.init
  attrs : σ'.attrs = σ.attrs
  fresh : (ob idle σ').fresh = (ob idle σ).fresh
  inState : (ob idle σ').inState = (ob idle σ).inState
  calls : (ob idle σ').callsInCycle = (ob idle σ).callsInCycle
  task : (σ'.nextTask = σ.nextTask ∧ (ob idle σ').lastPost = (ob idle σ).lastPost ∧
          (ob idle σ').postedInCycle = (ob idle σ).postedInCycle) ∨
         (σ'.nextTask.isSome = true ∧ (ob idle σ').postedInCycle = true)

theorem Same.refl (idle : Status) (σ : SM) : Same idle σ σ :=
  ⟨rfl, rfl, rfl, rfl, rfl, rfl, rfl, rfl, Or.inl ⟨rfl, rfl, rfl⟩⟩

theorem Same.trans {idle : Status} {a b c : SM} (h1 : Same idle a b) (h2 : Same idle b c) : Same idle a c := by
  refine ⟨h2.statefunc.trans h1.statefunc, h2.cleanup.trans h1.cleanup, h2.reason.trans h1.reason,
    h2.init.trans h1.init, h2.attrs.trans h1.attrs, h2.fresh.trans h1.fresh, h2.inState.trans h1.inState,
    h2.calls.trans h1.calls, ?_⟩
  rcases h2.task with ⟨t1, t2, t3⟩ | t
  · rcases h1.task with ⟨u1, u2, u3⟩ | ⟨u1, u2⟩
    · exact Or.inl ⟨t1.trans u1, t2.trans u2, t3.trans u3⟩
    · exact Or.inr ⟨by rw [t1]; exact u1, by rw [t3]; exact u2⟩
  · exact Or.inr t

variable {idle : Status} {ml : Nat}

section requests
variable {tk : Option Req}

/-- what a post does to the bookkeeping -/
def RQ.post (q : RQ) (r : Req) : RQ :=
  { rq := if isStart r then q.rq - 1 else q.rq,
    sc := if isStart r && decide (0 < q.rq) then q.sc + 1 else q.sc,
    so := if isStart r then q.so else q.so - 1,
    sk := if !isStart r && decide (0 < q.so) then q.sk + 1 else q.sk }

theorem RQ.post_zero (r : Req) : ({} : RQ).post r = {} := by cases r <;> rfl

theorem inv_post {q : RQ} {σ : SM} (h : Inv idle ml none false tk σ q) (r : Req) :
    Inv idle ml none false tk (post σ r) (q.post r) ∧ Same idle σ (post σ r) := by
  have hg := h.good
  have h1 := h.requesting; have h2 := h.startCredit; have h3 := h.stopOwed; have h4 := h.stopCredit
  simp only [ob] at h1 h2 h3 h4
  refine ⟨⟨?_, ?_, ?_, ?_, ?_, ?_, ?_, ?_, ?_, ?_, ?_, ?_, ?_, ?_, ?_⟩, ⟨rfl, rfl, rfl, rfl, rfl, ?_, ?_, ?_, ?_⟩⟩ <;>
    simp only [post, SM.log, ob, observe_snoc, Obs.step, always_snoc, RQ.post]
  · refine ⟨hg, ?_⟩
    simp [okAll, okInit, okCleanupOnce, okCleanupNotInterrupted, okStopInactive, okLastStart, okPickedUp, okBound,
      okNoRaise, okStopPosted, okStartPosted, isCycleEv, h.mustCleanup, h.mustInterrupt]
  · exact h.cur
  · exact h.runCleanup
  · exact h.interrupted
  · exact h.attrs
  · exact h.mustCleanup
  · exact h.mustInterrupt
  · exact h.taken
  · intro r' hr; simp at hr; simp [hr]
  · intro st _ hn; simp at hn
  · rw [h1]
  · rw [h1, h2]
  · rw [h3]
  · rw [h3, h4]
  · simp

/-- changing only `status`, `idleStatus`, `slot` -/
theorem inv_congr {mc mi} {q : RQ} {σ σ' : SM} (htr : σ'.trace = σ.trace) (hsf : σ'.statefunc = σ.statefunc)
    (hcl : σ'.cleanup = σ.cleanup) (hre : σ'.reason = σ.reason) (hnt : σ'.nextTask = σ.nextTask)
    (hin : σ'.init = σ.init) (hat : σ'.attrs = σ.attrs) (h : Inv idle ml mc mi tk σ q) :
    Inv idle ml mc mi tk σ' q ∧ Same idle σ σ' := by
  have ho : ob idle σ' = ob idle σ := by unfold ob; rw [htr]
  refine ⟨⟨?_, ?_, ?_, ?_, ?_, ?_, ?_, ?_, ?_, ?_, ?_, ?_, ?_, ?_, ?_⟩, ⟨hsf, hcl, hre, hin, hat, ?_, ?_, ?_, ?_⟩⟩ <;>
    simp only [ho, htr, hsf, hcl, hre, hnt, hat]
  · exact h.good
  · exact h.cur
  · exact h.runCleanup
  · exact h.interrupted
  · exact h.pending
  · exact h.attrs
  · exact h.mustCleanup
  · exact h.mustInterrupt
  · exact h.taken
  · exact h.j0
  · exact h.j1
  · exact h.requesting
  · exact h.startCredit
  · exact h.stopOwed
  · exact h.stopCredit
  · simp

/-- the events that only do the bookkeeping of module-level requests, and status reports -/
def ReqEv (σ : SM) (q : RQ) (e : Ev) (q' : RQ) : Prop :=
  (e = .reqStart ∧ True ∧ q' = { q with rq := q.rq + 1 }) ∨
  (e = .reqStop ∧ True ∧ q' = { q with so := if σ.statefunc.isSome then q.so + 1 else q.so }) ∨
  (e = .reqDone true ∧ 0 < q.sc ∧ q' = { q with sc := q.sc - 1 }) ∨
  (e = .reqDone false ∧ (0 < q.sk ∨ q.so = 0) ∧ q' = { q with sk := q.sk - 1 }) ∨
  (∃ st, e = .status st) ∧ True ∧ q' = q

theorem inv_reqEv {q q' : RQ} {σ σ' : SM} {e : Ev} (he : ReqEv σ q e q')
    (htr : σ'.trace = σ.trace ++ [e]) (hsf : σ'.statefunc = σ.statefunc)
    (hcl : σ'.cleanup = σ.cleanup) (hre : σ'.reason = σ.reason) (hnt : σ'.nextTask = σ.nextTask)
    (hin : σ'.init = σ.init) (hat : σ'.attrs = σ.attrs) (h : Inv idle ml none false tk σ q) :
    Inv idle ml none false tk σ' q' ∧ Same idle σ σ' := by
  have hg := h.good
  have h1 := h.requesting; have h2 := h.startCredit; have h3 := h.stopOwed; have h4 := h.stopCredit; have hcur := h.cur
  simp only [ob] at h1 h2 h3 h4 hcur
  rcases he with ⟨rfl, hc, rfl⟩ | ⟨rfl, hc, rfl⟩ | ⟨rfl, hc, rfl⟩ | ⟨rfl, hc, rfl⟩ | ⟨⟨st, rfl⟩, hc, rfl⟩
  all_goals
    refine ⟨⟨?_, ?_, ?_, ?_, ?_, ?_, ?_, ?_, ?_, ?_, ?_, ?_, ?_, ?_, ?_⟩, ⟨hsf, hcl, hre, hin, hat, ?_, ?_, ?_, ?_⟩⟩ <;>
      simp only [ob, htr, hsf, hcl, hre, hnt, hat, observe_snoc, Obs.step, always_snoc]
    · refine ⟨hg, ?_⟩
      simp [okAll, okInit, okCleanupOnce, okCleanupNotInterrupted, okStopInactive, okLastStart, okPickedUp, okBound,
        okNoRaise, okStopPosted, okStartPosted, isCycleEv, h.mustCleanup, h.mustInterrupt, h2, h3, h4, hc]
    · exact h.cur
    · exact h.runCleanup
    · exact h.interrupted
    · exact h.pending
    · exact h.attrs
    · exact h.mustCleanup
    · exact h.mustInterrupt
    · exact h.taken
    · exact h.j0
    · exact h.j1
    all_goals first | exact h1 | exact h2 | exact h3 | exact h4 | simp [h1, h2, h3, h4, hcur]

/-- appending a status report -/
theorem inv_neutral {σ σ' : SM} {e : Ev} (he : ∃ st, e = .status st)
    (htr : σ'.trace = σ.trace ++ [e]) (hsf : σ'.statefunc = σ.statefunc)
    (hcl : σ'.cleanup = σ.cleanup) (hre : σ'.reason = σ.reason) (hnt : σ'.nextTask = σ.nextTask)
    (hin : σ'.init = σ.init) (hat : σ'.attrs = σ.attrs) (h : Inv idle ml none false tk σ) :
    Inv idle ml none false tk σ' ∧ Same idle σ σ' :=
  inv_reqEv (Or.inr (Or.inr (Or.inr (Or.inr ⟨he, trivial, rfl⟩)))) htr hsf hcl hre hnt hin hat h

theorem inv_startMachine (cfg : Cfg) {σ : SM} (h : Inv idle ml none false tk σ) (s cl kw ovr) :
    Inv idle ml none false tk (startMachine cfg σ s cl kw ovr) ∧ Same idle σ (startMachine cfg σ s cl kw ovr) := by
  unfold startMachine startMachineB startMachineA
  obtain ⟨h1, s1⟩ := inv_reqEv (σ := σ) (σ' := σ.log .reqStart) (q' := { rq := 1 })
    (Or.inl ⟨rfl, trivial, rfl⟩) rfl rfl rfl rfl rfl rfl rfl h
  obtain ⟨h2, s2⟩ := inv_congr (σ := σ.log .reqStart) (σ' := { σ.log .reqStart with status := startStatus cfg.rules σ.statefunc.isSome s ovr })
    rfl rfl rfl rfl rfl rfl rfl h1
  obtain ⟨h3, s3⟩ := inv_post h2 (.start s cl kw ovr)
  have h3' : Inv idle ml none false tk (post _ (.start s cl kw ovr)) { sc := 1 } := h3
  obtain ⟨h4, s4⟩ := inv_reqEv (σ := post _ (.start s cl kw ovr)) (σ' := (post _ (.start s cl kw ovr)).log (.status _))
    (Or.inr (Or.inr (Or.inr (Or.inr ⟨⟨_, rfl⟩, trivial, rfl⟩)))) rfl rfl rfl rfl rfl rfl rfl h3'
  obtain ⟨h5, s5⟩ := inv_reqEv (σ := SM.log _ (.status _)) (σ' := (SM.log _ (.status _)).log (.reqDone true))
    (q' := {}) (Or.inr (Or.inr (Or.inl ⟨rfl, by decide, rfl⟩))) rfl rfl rfl rfl rfl rfl rfl h4
  exact ⟨h5, ((s1.trans s2).trans (s3.trans s4)).trans s5⟩

theorem inv_stopMachine (cfg : Cfg) {σ : SM} (h : Inv idle ml none false tk σ) (st) :
    Inv idle ml none false tk (stopMachine cfg σ st) ∧ Same idle σ (stopMachine cfg σ st) := by
  unfold stopMachine
  obtain ⟨h0, s0⟩ := inv_reqEv (σ := σ) (σ' := σ.log .reqStop) (q' := { so := if σ.statefunc.isSome then 1 else 0 })
    (Or.inr (Or.inl ⟨rfl, trivial, rfl⟩)) rfl rfl rfl rfl rfl rfl rfl h
  simp only
  have hsf0 : (σ.log .reqStop).statefunc = σ.statefunc := rfl
  generalize σ.log .reqStop = σ0 at h0 s0 hsf0 ⊢
  split
  · rename_i hsf
    rw [← hsf0, hsf] at h0
    obtain ⟨h1, s1⟩ := inv_reqEv (σ := σ0) (σ' := σ0.log (.reqDone false)) (q' := {})
      (Or.inr (Or.inr (Or.inr (Or.inl ⟨rfl, Or.inr rfl, rfl⟩)))) rfl rfl rfl rfl rfl rfl rfl h0
    exact ⟨h1, s0.trans s1⟩
  · rename_i cur hsf
    rw [← hsf0, hsf] at h0
    obtain ⟨h1, s1⟩ := inv_congr (σ := σ0) (σ' := { σ0 with idleStatus := st }) rfl rfl rfl rfl rfl rfl rfl h0
    obtain ⟨h2, s2⟩ := inv_post h1 (.stop st)
    have h2' : Inv idle ml none false tk (post { σ0 with idleStatus := st } (.stop st)) { sk := 1 } := h2
    obtain ⟨h3, s3⟩ := inv_congr (σ := post { σ0 with idleStatus := st } (.stop st)) (σ' := { post { σ0 with idleStatus := st } (.stop st) with
      status := stopStatus cfg.rules cur (post { σ0 with idleStatus := st } (.stop st)).status })
      rfl rfl rfl rfl rfl rfl rfl h2'
    obtain ⟨h4, s4⟩ := inv_reqEv (σ := _) (σ' := SM.log _ (.status _))
      (Or.inr (Or.inr (Or.inr (Or.inr ⟨⟨_, rfl⟩, trivial, rfl⟩)))) rfl rfl rfl rfl rfl rfl rfl h3
    obtain ⟨h5, s5⟩ := inv_reqEv (σ := SM.log _ (.status _)) (σ' := (SM.log _ (.status _)).log (.reqDone false))
      (q' := {}) (Or.inr (Or.inr (Or.inr (Or.inl ⟨rfl, Or.inl (by decide), rfl⟩)))) rfl rfl rfl rfl rfl rfl rfl h4
    exact ⟨h5, (s0.trans ((s1.trans s2).trans (s3.trans s4))).trans s5⟩

theorem inv_request (cfg : Cfg) {σ : SM} (h : Inv idle ml none false tk σ) (r : Req) :
    Inv idle ml none false tk (request cfg σ r) ∧ Same idle σ (request cfg σ r) := by
  unfold request
  split
  · cases r with
    | start s cl kw ovr => exact inv_startMachine cfg h s cl kw ovr
    | stop st => exact inv_stopMachine cfg h st
  · have := inv_post h r
    rw [RQ.post_zero] at this
    exact this

theorem inv_requests (cfg : Cfg) (rs : List Req) {σ : SM} (h : Inv idle ml none false tk σ) :
    Inv idle ml none false tk (requests cfg σ rs) ∧ Same idle σ (requests cfg σ rs) := by
  unfold requests
  induction rs generalizing σ with
  | nil => exact ⟨h, Same.refl idle σ⟩
  | cons r rs ih =>
    simp only [List.foldl_cons]
    obtain ⟨h1, s1⟩ := inv_request cfg h r
    obtain ⟨h2, s2⟩ := ih h1
    exact ⟨h2, s1.trans s2⟩

theorem inv_absorb (cfg : Cfg) (P : Prog) {σ : SM} (h : Inv idle ml none false tk σ) :
    Inv idle ml none false tk (absorb cfg P σ) ∧ Same idle σ (absorb cfg P σ) := by
  unfold absorb
  obtain ⟨h1, s1⟩ := inv_congr (σ := σ) (σ' := { σ with slot := σ.slot + 1 }) rfl rfl rfl rfl rfl rfl rfl h
  obtain ⟨h2, s2⟩ := inv_requests cfg (P.env σ.slot) h1
  exact ⟨h2, s1.trans s2⟩

end requests

/-! ### transitions -/

/-- when a transition to `ns` is allowed to happen: either from an active state, or (start being entered)
    from the inactive machine with no reason pending and not after a stop that was already consumed -/
def EnterOK (idle : Status) (σ : SM) : Prop :=
  σ.statefunc.isSome = true ∨
    (σ.reason = none ∧ (σ.nextTask.isSome = true ∨ ∀ st, (ob idle σ).lastPost ≠ some (.stop st)))

/-- what a transition leaves alone / establishes -/
structure Entered (idle : Status) (σ σ' : SM) (ns : Option Sid) : Prop where
  statefunc : σ'.statefunc = ns
  cleanup : σ'.cleanup = σ.cleanup
  reason : σ'.reason = σ.reason
  init : σ'.init = true
  attrs : σ'.attrs = σ.attrs
  nextTask : σ'.nextTask = σ.nextTask
  fresh : (ob idle σ').fresh = true
  calls : (ob idle σ').callsInCycle = (ob idle σ).callsInCycle
  lastPost : (ob idle σ').lastPost = (ob idle σ).lastPost
  posted : (ob idle σ').postedInCycle = (ob idle σ).postedInCycle
  lastEnter : (ob idle σ').lastEnter = some ns

theorem inv_enter_core {tk : Option Req} {σ : SM} (ns : Option Sid) (h : Inv idle ml none false tk σ)
    (hTk : ∀ s cl kw ovr, tk = some (.start s cl kw ovr) → ns = some s)
    (hE : ns.isSome = true → EnterOK idle σ) :
    let σ' : SM := { σ with init := true, statefunc := ns, trace := σ.trace ++ [.enter ns] }
    Inv idle ml none false tk σ' ∧ Entered idle σ σ' ns := by
  intro σ'
  have hg := h.good
  refine ⟨⟨?_, ?_, ?_, ?_, ?_, ?_, ?_, ?_, ?_, ?_, ?_, ?_, ?_, ?_, ?_⟩, ⟨rfl, rfl, rfl, rfl, rfl, rfl, ?_, ?_, ?_, ?_, ?_⟩⟩ <;>
    simp only [σ', ob, observe_snoc, Obs.step, always_snoc]
  · refine ⟨hg, ?_⟩
    have ht := h.taken; have hmc := h.mustCleanup; have hmi := h.mustInterrupt
    simp only [ob] at ht hmc hmi
    cases tk with
    | none => simp [okAll, okInit, okCleanupOnce, okCleanupNotInterrupted, okStopInactive, okLastStart, okPickedUp,
        okBound, okNoRaise, okStopPosted, okStartPosted, isCycleEv, hmc, hmi, ht]
    | some r =>
      cases r with
      | stop st => simp [okAll, okInit, okCleanupOnce, okCleanupNotInterrupted, okStopInactive, okLastStart, okPickedUp,
          okBound, okNoRaise, okStopPosted, okStartPosted, isCycleEv, hmc, hmi, ht]
      | start s cl kw ovr => simp [okAll, okInit, okCleanupOnce, okCleanupNotInterrupted, okStopInactive, okLastStart,
          okPickedUp, okBound, okNoRaise, okStopPosted, okStartPosted, isCycleEv, hmc, hmi, ht, hTk s cl kw ovr rfl]
  · exact h.runCleanup
  · have := h.interrupted
    cases ns with
    | none => simp
    | some s =>
      rcases hE rfl with hs | ⟨hr, _⟩
      · simp [ob] at this; simp [this, hs]
      · simp [ob] at this; simp [this, hr]
  · exact h.pending
  · exact h.attrs
  · exact h.mustCleanup
  · exact h.mustInterrupt
  · exact h.taken
  · exact h.j0
  · intro st hl hn
    cases ns with
    | none => rfl
    | some s =>
      exfalso
      rcases hE rfl with hs | ⟨_, hs | hs⟩
      · have := h.j1 st hl hn; simp [this] at hs
      · simp [hn] at hs
      · exact hs st hl
  · exact h.requesting
  · exact h.startCredit
  · have := h.stopOwed; simp only [ob] at this; cases ns <;> simp [this]
  · exact h.stopCredit

theorem inv_enter (cfg : Cfg) {tk : Option Req} {σ : SM} (ns : Option Sid) (h : Inv idle ml none false tk σ)
    (hTk : ∀ s cl kw ovr, tk = some (.start s cl kw ovr) → ns = some s)
    (hE : ns.isSome = true → EnterOK idle σ) :
    let σ' : SM := { hook cfg σ ns with init := true, statefunc := ns }
    Inv idle ml none false tk σ' ∧ Entered idle σ σ' ns := by
  intro σ'
  obtain ⟨h1, e1⟩ := inv_enter_core ns h hTk hE
  by_cases hs : cfg.hasStates = true
  · have hσ' : σ' = { hook cfg σ ns with init := true, statefunc := ns } := rfl
    simp only [hook, SM.log, hs, if_true] at hσ'
    obtain ⟨h2, s2⟩ := inv_neutral (σ := _) (σ' := σ') (e := .status σ'.status) ⟨_, rfl⟩
      (by rw [hσ']) (by rw [hσ']) (by rw [hσ']) (by rw [hσ']) (by rw [hσ']) (by rw [hσ']) (by rw [hσ']) h1
    refine ⟨h2, ⟨?_, ?_, ?_, ?_, ?_, ?_, ?_, ?_, ?_, ?_, ?_⟩⟩
    · rw [hσ']
    · rw [hσ']
    · rw [hσ']
    · rw [hσ']
    · rw [hσ']
    · rw [hσ']
    · rw [s2.fresh]; exact e1.fresh
    · rw [s2.calls]; exact e1.calls
    · have : (ob idle σ').lastPost = (ob idle ({ σ with init := true, statefunc := ns, trace := σ.trace ++ [.enter ns] } : SM)).lastPost := by
        rw [hσ']; simp only [ob, observe_snoc, Obs.step]
      rw [this]; exact e1.lastPost
    · have : (ob idle σ').postedInCycle = (ob idle ({ σ with init := true, statefunc := ns, trace := σ.trace ++ [.enter ns] } : SM)).postedInCycle := by
        rw [hσ']; simp only [ob, observe_snoc, Obs.step]
      rw [this]; exact e1.posted
    · have : (ob idle σ').lastEnter = (ob idle ({ σ with init := true, statefunc := ns, trace := σ.trace ++ [.enter ns] } : SM)).lastEnter := by
        rw [hσ']; simp only [ob, observe_snoc, Obs.step]
      rw [this]; exact e1.lastEnter
  · have hσ' : σ' = { σ with init := true, statefunc := ns, trace := σ.trace ++ [.enter ns] } := by
      simp only [σ', hook, SM.log, hs]; rfl
    rw [hσ']; exact ⟨h1, e1⟩

theorem EnterOK.of_same {σ a : SM} (hs : Same idle σ a) (h : EnterOK idle σ) : EnterOK idle a := by
  unfold EnterOK at *
  rcases h with h | ⟨hr, h⟩
  · exact Or.inl (by rw [hs.statefunc]; exact h)
  · refine Or.inr ⟨by rw [hs.reason]; exact hr, ?_⟩
    rcases hs.task with ⟨t1, t2, _⟩ | ⟨t1, _⟩
    · rcases h with h | h
      · exact Or.inl (by rw [t1]; exact h)
      · exact Or.inr (by rw [t2]; exact h)
    · exact Or.inl t1

/-- what `_new_state` leaves alone / establishes (requests may arrive in its slot) -/
structure NS (idle : Status) (σ σ' : SM) (ns : Option Sid) : Prop where
  statefunc : σ'.statefunc = ns
  cleanup : σ'.cleanup = σ.cleanup
  reason : σ'.reason = σ.reason
  init : σ'.init = true
  attrs : σ'.attrs = σ.attrs
  fresh : (ob idle σ').fresh = true
  calls : (ob idle σ').callsInCycle = (ob idle σ).callsInCycle
  lastEnter : (ob idle σ').lastEnter = some ns
  task : (σ'.nextTask = σ.nextTask ∧ (ob idle σ').lastPost = (ob idle σ).lastPost ∧
          (ob idle σ').postedInCycle = (ob idle σ).postedInCycle) ∨
         (σ'.nextTask.isSome = true ∧ (ob idle σ').postedInCycle = true)

theorem inv_newState (cfg : Cfg) (P : Prog) {tk : Option Req} {σ : SM} (ns : Option Sid)
    (h : Inv idle ml none false tk σ)
    (hTk : ∀ s cl kw ovr, tk = some (.start s cl kw ovr) → ns = some s)
    (hE : ns.isSome = true → EnterOK idle σ) :
    Inv idle ml none false tk (newState cfg P σ ns) ∧ NS idle σ (newState cfg P σ ns) ns := by
  obtain ⟨h1, s1⟩ := inv_absorb cfg P h
  obtain ⟨h2', e2'⟩ := inv_enter cfg ns h1 hTk (fun hn => (hE hn).of_same s1)
  have h2 : Inv idle ml none false tk (newState cfg P σ ns) := h2'
  have e2 : Entered idle (absorb cfg P σ) (newState cfg P σ ns) ns := e2'
  refine ⟨h2, ⟨e2.statefunc, e2.cleanup.trans s1.cleanup, e2.reason.trans s1.reason, e2.init,
    e2.attrs.trans s1.attrs, e2.fresh, e2.calls.trans s1.calls, e2.lastEnter, ?_⟩⟩
  rcases s1.task with ⟨t1, t2, t3⟩ | ⟨t1, t2⟩
  · exact Or.inl ⟨e2.nextTask.trans t1, e2.lastPost.trans t2, e2.posted.trans t3⟩
  · exact Or.inr ⟨by rw [e2.nextTask]; exact t1, by rw [e2.posted]; exact t2⟩

/-! ### user functions and `_cleanup` -/

/-- what a call of a user function (after its `call`/`cleanup` event) leaves alone -/
structure AO (idle : Status) (σ σ' : SM) : Prop where
  statefunc : σ'.statefunc = σ.statefunc
  reason : σ'.reason = σ.reason
  init : σ'.init = σ.init
  attrs : σ'.attrs = σ.attrs
  fresh : (ob idle σ').fresh = (ob idle σ).fresh
  calls : (ob idle σ').callsInCycle = (ob idle σ).callsInCycle
  task : (σ'.nextTask = σ.nextTask ∧ (ob idle σ').lastPost = (ob idle σ).lastPost ∧
          (ob idle σ').postedInCycle = (ob idle σ).postedInCycle) ∨
         (σ'.nextTask.isSome = true ∧ (ob idle σ').postedInCycle = true)

theorem inv_applyOutcome (cfg : Cfg) {σ : SM} (o : Outcome) (b : Bool) (h : Inv idle ml none false none σ)
    (hb : (ob idle σ).inState = b) :
    Inv idle ml none (b && isErrorRet o.ret) none (applyOutcome cfg σ o) ∧ AO idle σ (applyOutcome cfg σ o) := by
  obtain ⟨h1, s1⟩ := inv_requests cfg o.posts h
  have hb1 : (ob idle (requests cfg σ o.posts)).inState = b := by rw [s1.inState]; exact hb
  unfold applyOutcome
  generalize requests cfg σ o.posts = τ at h1 s1 hb1 ⊢
  have hg := h1.good
  have hmc := h1.mustCleanup; have hmi := h1.mustInterrupt
  simp only [ob] at hmc hmi hb1
  cases hf : o.fin with
  | none =>
    simp only [applyFin]
    refine ⟨⟨?_, ?_, ?_, ?_, ?_, ?_, ?_, ?_, ?_, ?_, ?_, ?_, ?_, ?_, ?_⟩, ⟨s1.statefunc, s1.reason, s1.init, s1.attrs, ?_, ?_, ?_⟩⟩ <;>
      simp only [SM.log, ob, observe_snoc, Obs.step, always_snoc]
    · refine ⟨hg, ?_⟩
      simp [okAll, okInit, okCleanupOnce, okCleanupNotInterrupted, okStopInactive, okLastStart, okPickedUp, okBound,
        okNoRaise, okStopPosted, okStartPosted, isCycleEv, hmc, hmi]
    · exact h1.cur
    · exact h1.runCleanup
    · exact h1.interrupted
    · exact h1.pending
    · exact h1.attrs
    · exact h1.mustCleanup
    · rw [hb1]
    · exact h1.taken
    · exact h1.j0
    · exact h1.j1
    · exact h1.requesting
    · exact h1.startCredit
    · exact h1.stopOwed
    · exact h1.stopCredit
    · exact s1.fresh
    · exact s1.calls
    · exact s1.task
  | some st =>
    simp only [applyFin]
    refine ⟨⟨?_, ?_, ?_, ?_, ?_, ?_, ?_, ?_, ?_, ?_, ?_, ?_, ?_, ?_, ?_⟩, ⟨s1.statefunc, s1.reason, s1.init, s1.attrs, ?_, ?_, ?_⟩⟩ <;>
      simp only [SM.log, ob, observe_snoc, Obs.step, always_snoc]
    · refine ⟨hg, ?_⟩
      simp [okAll, okInit, okCleanupOnce, okCleanupNotInterrupted, okStopInactive, okLastStart, okPickedUp, okBound,
        okNoRaise, okStopPosted, okStartPosted, isCycleEv, hmc, hmi]
    · exact h1.cur
    · exact h1.interrupted
    · exact h1.pending
    · exact h1.attrs
    · exact h1.mustCleanup
    · rw [hb1]
    · exact h1.taken
    · exact h1.j0
    · exact h1.j1
    · exact h1.requesting
    · exact h1.startCredit
    · exact h1.stopOwed
    · exact h1.stopCredit
    · exact s1.fresh
    · exact s1.calls
    · exact s1.task

/-- what `_cleanup` leaves alone / establishes -/
structure DC (idle : Status) (σ σ' : SM) : Prop where
  statefunc : σ'.statefunc = σ.statefunc
  reason : σ'.reason.isSome = true
  init : σ'.init = σ.init
  attrs : σ'.attrs = σ.attrs
  fresh : (ob idle σ').fresh = (ob idle σ).fresh
  calls : (ob idle σ').callsInCycle = (ob idle σ).callsInCycle
  task : (σ'.nextTask = σ.nextTask ∧ (ob idle σ').lastPost = (ob idle σ).lastPost ∧
          (ob idle σ').postedInCycle = (ob idle σ).postedInCycle) ∨
         (σ'.nextTask.isSome = true ∧ (ob idle σ').postedInCycle = true)

/-- the interruption itself: log line and `cleanup_reason` -/
theorem inv_interrupt {σ : SM} (k : IKind) (mi : Bool) (h : Inv idle ml none mi none σ)
    (hmi : mi = true → k = .error) (hsf : σ.statefunc.isSome = true) (hre : σ.reason.isSome = true → k = .error) :
    Inv idle ml σ.cleanup false none (setReason (σ.log (.interrupt k)) k) ∧
    (ob idle (setReason (σ.log (.interrupt k)) k)).lastInterrupt = true ∧
    DC idle σ (setReason (σ.log (.interrupt k)) k) ∧
    (setReason (σ.log (.interrupt k)) k).cleanup = σ.cleanup := by
  have hg := h.good
  have hmc := h.mustCleanup; have hmi' := h.mustInterrupt; have hint := h.interrupted
  simp only [ob] at hmc hmi' hint
  have hok : okAll ml (observe idle σ.trace) (.interrupt k) = true := by
    simp only [okAll, okInit, okCleanupOnce, okCleanupNotInterrupted, okStopInactive, okLastStart, okPickedUp, okBound,
      okNoRaise, okStopPosted, okStartPosted, isCycleEv, hmc, hmi', hint, hsf]
    cases mi with
    | false =>
      cases hr : σ.reason with
      | none => simp
      | some r => simp [hre (by simp [hr])]
    | true => simp [hmi rfl]
  cases hr : σ.reason with
  | none =>
    have e : setReason (σ.log (.interrupt k)) k = { σ with reason := some k, trace := σ.trace ++ [.interrupt k] } := by
      simp [setReason, SM.log, hr]
    rw [e]
    refine ⟨⟨?_, ?_, ?_, ?_, ?_, ?_, ?_, ?_, ?_, ?_, ?_, ?_, ?_, ?_, ?_⟩, ?_, ⟨rfl, rfl, rfl, rfl, ?_, ?_, ?_⟩, rfl⟩ <;>
      simp only [ob, observe_snoc, Obs.step, always_snoc]
    · exact ⟨hg, hok⟩
    · exact h.cur
    · exact h.runCleanup
    · simp [hsf]
    · exact h.pending
    · exact h.attrs
    · exact h.runCleanup
    · exact h.taken
    · exact h.j0
    · exact h.j1
    · exact h.requesting
    · exact h.startCredit
    · exact h.stopOwed
    · exact h.stopCredit
    · simp
  | some r =>
    have e : setReason (σ.log (.interrupt k)) k = { σ with trace := σ.trace ++ [.interrupt k] } := by
      simp [setReason, SM.log, hr]
    rw [e]
    refine ⟨⟨?_, ?_, ?_, ?_, ?_, ?_, ?_, ?_, ?_, ?_, ?_, ?_, ?_, ?_, ?_⟩, ?_, ⟨rfl, ?_, rfl, rfl, ?_, ?_, ?_⟩, rfl⟩ <;>
      simp only [ob, observe_snoc, Obs.step, always_snoc]
    · exact ⟨hg, hok⟩
    · exact h.cur
    · exact h.runCleanup
    · simp [hsf, hr]
    · exact h.pending
    · exact h.attrs
    · exact h.runCleanup
    · exact h.taken
    · exact h.j0
    · exact h.j1
    · exact h.requesting
    · exact h.startCredit
    · exact h.stopOwed
    · exact h.stopCredit
    · simp [hr]
    · simp

theorem DC.of_ao {a b c : SM} (h1 : DC idle a b) (hcl : AO idle b c) : DC idle a c := by
  refine ⟨hcl.statefunc.trans h1.statefunc, by rw [hcl.reason]; exact h1.reason, hcl.init.trans h1.init,
    hcl.attrs.trans h1.attrs, hcl.fresh.trans h1.fresh, hcl.calls.trans h1.calls, ?_⟩
  rcases hcl.task with ⟨t1, t2, t3⟩ | t
  · rcases h1.task with ⟨u1, u2, u3⟩ | ⟨u1, u2⟩
    · exact Or.inl ⟨t1.trans u1, t2.trans u2, t3.trans u3⟩
    · exact Or.inr ⟨by rw [t1]; exact u1, by rw [t3]; exact u2⟩
  · exact Or.inr t

theorem inv_doCleanup (cfg : Cfg) (P : Prog) {σ : SM} (k : IKind) (mi : Bool) (h : Inv idle ml none mi none σ)
    (hmi : mi = true → k = .error) (hsf : σ.statefunc.isSome = true) (hre : σ.reason.isSome = true → k = .error) :
    Inv idle ml none false none (doCleanup cfg P σ k).σ ∧ DC idle σ (doCleanup cfg P σ k).σ := by
  obtain ⟨h1, hl, d1, hc⟩ := inv_interrupt k mi h hmi hsf hre
  unfold doCleanup
  generalize setReason (σ.log (.interrupt k)) k = τ at h1 hl d1 hc ⊢
  simp only
  cases hcl : τ.cleanup with
  | none =>
    simp only
    rw [← hc, hcl] at h1
    exact ⟨h1, d1⟩
  | some c =>
    simp only
    rw [← hc, hcl] at h1
    have hg := h1.good
    have hmc := h1.mustCleanup; have hmi' := h1.mustInterrupt; have hrc := h1.runCleanup
    simp only [ob] at hmc hmi' hl hrc
    have h2 : Inv idle ml none false none ({ τ with cleanup := none }.log (.cleanup c)) ∧
        AO idle τ ({ τ with cleanup := none }.log (.cleanup c)) ∧
        (ob idle ({ τ with cleanup := none }.log (.cleanup c))).inState = false := by
      refine ⟨⟨?_, ?_, ?_, ?_, ?_, ?_, ?_, ?_, ?_, ?_, ?_, ?_, ?_, ?_, ?_⟩, ⟨rfl, rfl, rfl, rfl, ?_, ?_, ?_⟩, ?_⟩ <;>
        simp only [SM.log, ob, observe_snoc, Obs.step, always_snoc]
      · refine ⟨hg, ?_⟩
        simp [okAll, okInit, okCleanupOnce, okCleanupNotInterrupted, okStopInactive, okLastStart, okPickedUp, okBound,
          okNoRaise, okStopPosted, okStartPosted, isCycleEv, hmc, hmi', hl, hrc, hcl]
      · exact h1.cur
      · exact h1.interrupted
      · exact h1.pending
      · exact h1.attrs
      · exact h1.mustInterrupt
      · exact h1.taken
      · exact h1.j0
      · exact h1.j1
      · exact h1.requesting
      · exact h1.startCredit
      · exact h1.stopOwed
      · exact h1.stopCredit
      · simp
    obtain ⟨h2, a2, hb⟩ := h2
    obtain ⟨h3, a3⟩ := inv_applyOutcome cfg (P.clean ({ τ with cleanup := none }.log (.cleanup c)).trace c) false h2 hb
    simp only [Bool.false_and] at h3
    refine ⟨h3, (d1.of_ao a2).of_ao a3⟩

/-! ### the body of the inner loop -/

/-- the observer's `fresh` is the machine's `init` -/
def InitOK (idle : Status) (σ : SM) : Prop := (ob idle σ).fresh = σ.init

/-- a request arrived in this cycle, or a cleanup sequence is in progress, or no request is waiting -/
def Q (idle : Status) (σ : SM) : Prop :=
  (ob idle σ).postedInCycle = true ∨ (σ.reason.isSome = true ∧ σ.statefunc.isSome = true) ∨ σ.nextTask = none

abbrev K (idle : Status) (σ : SM) : Nat := (ob idle σ).callsInCycle

abbrev Inv0 (idle : Status) (ml : Nat) (σ : SM) : Prop := Inv idle ml none false none σ

def StepOK (idle : Status) (ml : Nat) (k0 : Nat) : Step → Prop
  | .ret τ => Inv0 idle ml τ ∧ InitOK idle τ ∧ Q idle τ ∧ K idle τ ≤ k0 + 1
  | .brk τ => Inv0 idle ml τ ∧ K idle τ ≤ k0 + 1
  | .cont τ => Inv0 idle ml τ ∧ InitOK idle τ ∧ τ.statefunc.isSome = true ∧ K idle τ ≤ k0 + 1

/-- changing only fields the coupling does not look at (`init`, `status`, …) -/
theorem inv_of_eq {mc mi tk} {σ σ' : SM} (htr : σ'.trace = σ.trace) (hsf : σ'.statefunc = σ.statefunc)
    (hcl : σ'.cleanup = σ.cleanup) (hre : σ'.reason = σ.reason) (hnt : σ'.nextTask = σ.nextTask)
    (hat : σ'.attrs = σ.attrs) (h : Inv idle ml mc mi tk σ) : Inv idle ml mc mi tk σ' := by
  have ho : ob idle σ' = ob idle σ := by unfold ob; rw [htr]
  refine ⟨?_, ?_, ?_, ?_, ?_, ?_, ?_, ?_, ?_, ?_, ?_, ?_, ?_, ?_, ?_⟩ <;> simp only [ho, htr, hsf, hcl, hre, hnt, hat]
  · exact h.good
  · exact h.cur
  · exact h.runCleanup
  · exact h.interrupted
  · exact h.pending
  · exact h.attrs
  · exact h.mustCleanup
  · exact h.mustInterrupt
  · exact h.taken
  · exact h.j0
  · exact h.j1
  · exact h.requesting
  · exact h.startCredit
  · exact h.stopOwed
  · exact h.stopCredit

theorem stepOK_afterCleanup (cfg : Cfg) (P : Prog) (r : CRes) (k0 : Nat) (h : Inv0 idle ml r.σ)
    (hsf : r.σ.statefunc.isSome = true) (hk : K idle r.σ ≤ k0 + 1) :
    StepOK idle ml k0 (afterCleanup cfg P r) := by
  unfold afterCleanup
  split
  · exact ⟨h, hk⟩
  · rename_i s _
    obtain ⟨h1, n1⟩ := inv_newState cfg P (some s) h (by intro _ _ _ _ hh; cases hh) (fun _ => Or.inl hsf)
    refine ⟨h1, ?_, by rw [n1.statefunc]; rfl, by unfold K; rw [n1.calls]; exact hk⟩
    unfold InitOK; rw [n1.fresh, n1.init]

theorem stepOK_callState (cfg : Cfg) (P : Prog) {σ : SM} (s : Sid) (h : Inv0 idle ml σ)
    (hsf : σ.statefunc = some s) (hi : InitOK idle σ) (hk : K idle σ < 2 * ml)
    (hR : σ.nextTask = none ∨ σ.reason.isSome = true) :
    StepOK idle ml (K idle σ) (callState cfg P σ s) := by
  have hg := h.good
  have hmc := h.mustCleanup; have hmi := h.mustInterrupt; have hcur := h.cur; have htk := h.taken
  simp only [ob] at hmc hmi hcur htk
  unfold InitOK at hi
  simp only [ob] at hi
  unfold K at hk
  simp only [ob] at hk
  -- the call event
  have h1 : Inv0 idle ml (σ.log (.call s σ.init)) ∧ (ob idle (σ.log (.call s σ.init))).inState = true ∧
      (ob idle (σ.log (.call s σ.init))).fresh = false ∧
      (ob idle (σ.log (.call s σ.init))).callsInCycle = (ob idle σ).callsInCycle + 1 ∧
      (ob idle (σ.log (.call s σ.init))).postedInCycle = (ob idle σ).postedInCycle := by
    refine ⟨⟨?_, ?_, ?_, ?_, ?_, ?_, ?_, ?_, ?_, ?_, ?_, ?_, ?_, ?_, ?_⟩, ?_, ?_, ?_, ?_⟩ <;>
      simp only [SM.log, ob, observe_snoc, Obs.step, always_snoc]
    · refine ⟨hg, ?_⟩
      simp [okAll, okInit, okCleanupOnce, okCleanupNotInterrupted, okStopInactive, okLastStart, okPickedUp, okBound,
        okNoRaise, okStopPosted, okStartPosted, isCycleEv, hmc, hmi, hcur, hsf, htk, hi, hk]
    · exact h.cur
    · exact h.runCleanup
    · exact h.interrupted
    · exact h.pending
    · exact h.attrs
    · exact h.mustCleanup
    · exact h.mustInterrupt
    · exact h.taken
    · exact h.j0
    · exact h.j1
    · exact h.requesting
    · exact h.startCredit
    · exact h.stopOwed
    · exact h.stopCredit
  obtain ⟨h1, hin, hfr, hca, hpo⟩ := h1
  obtain ⟨h2, a2⟩ := inv_applyOutcome cfg (P.state (σ.log (.call s σ.init)).trace s) true h1 hin
  unfold callState
  simp only
  generalize P.state (σ.log (.call s σ.init)).trace s = o at h2 a2 ⊢
  generalize hσ2 : applyOutcome cfg (σ.log (.call s σ.init)) o = σ2 at h2 a2 ⊢
  have hsf2 : σ2.statefunc.isSome = true := by rw [a2.statefunc]; simp [SM.log, hsf]
  have hk2 : K idle σ2 ≤ K idle σ + 1 := by unfold K; rw [a2.calls, hca]; exact Nat.le_refl _
  have hfr2 : (ob idle σ2).fresh = false := by rw [a2.fresh]; exact hfr
  cases hret : o.ret with
  | retry =>
    simp only [hret, isErrorRet, Bool.and_false] at h2 ⊢
    have h3 : Inv0 idle ml (clearInit σ2) := inv_of_eq (σ := σ2) (σ' := clearInit σ2) rfl rfl rfl rfl rfl rfl h2
    refine ⟨h3, ?_, ?_, hk2⟩
    · unfold InitOK; simp only [clearInit, ob]; exact hfr2
    · unfold Q
      simp only [clearInit, ob]
      rcases a2.task with ⟨t1, _, t3⟩ | ⟨_, t2⟩
      · by_cases hp : (ob idle σ).postedInCycle = true
        · left; simp only [ob] at t3 hpo hp; rw [t3, hpo]; exact hp
        · right
          rcases hR with hR | hR
          · right; rw [t1]; exact hR
          · left; exact ⟨by rw [a2.reason]; exact hR, hsf2⟩
      · left; exact t2
  | finish =>
    simp only [hret, isErrorRet, Bool.and_false] at h2 ⊢
    exact ⟨inv_of_eq (σ := σ2) (σ' := clearInit σ2) rfl rfl rfl rfl rfl rfl h2, hk2⟩
  | next s' =>
    simp only [hret, isErrorRet, Bool.and_false] at h2 ⊢
    have h3 : Inv0 idle ml (clearInit σ2) := inv_of_eq (σ := σ2) (σ' := clearInit σ2) rfl rfl rfl rfl rfl rfl h2
    obtain ⟨h4, n4⟩ := inv_newState cfg P (some s') h3 (by intro _ _ _ _ hh; cases hh) (fun _ => Or.inl hsf2)
    refine ⟨h4, ?_, by rw [n4.statefunc]; rfl, by unfold K; rw [n4.calls]; exact hk2⟩
    unfold InitOK; rw [n4.fresh, n4.init]
  | bad =>
    simp only [hret, isErrorRet, Bool.and_true] at h2 ⊢
    have h3 : Inv idle ml none true none (clearInit σ2) := inv_of_eq (σ := σ2) (σ' := clearInit σ2) rfl rfl rfl rfl rfl rfl h2
    obtain ⟨h4, d4⟩ := inv_doCleanup cfg P .error true h3 (fun _ => rfl) hsf2 (fun _ => rfl)
    exact stepOK_afterCleanup cfg P _ _ h4 (by rw [d4.statefunc]; exact hsf2)
      (by unfold K; rw [d4.calls]; exact hk2)
  | raise =>
    simp only [hret, isErrorRet, Bool.and_true] at h2 ⊢
    obtain ⟨h4, d4⟩ := inv_doCleanup cfg P .error true h2 (fun _ => rfl) hsf2 (fun _ => rfl)
    exact stepOK_afterCleanup cfg P _ _ h4 (by rw [d4.statefunc]; exact hsf2)
      (by unfold K; rw [d4.calls]; exact hk2)

theorem InitOK.of_same {σ τ : SM} (hs : Same idle σ τ) (h : InitOK idle σ) : InitOK idle τ := by
  unfold InitOK at *; rw [hs.fresh, hs.init]; exact h

theorem stepOK_interruptArm (cfg : Cfg) (P : Prog) {σ : SM} (h : Inv0 idle ml σ)
    (hsf : σ.statefunc.isSome = true) (_hnt : σ.nextTask.isSome = true) (hre : σ.reason = none) :
    StepOK idle ml (K idle σ) (interruptArm cfg P σ) := by
  obtain ⟨h1, s1⟩ := inv_absorb cfg P h
  unfold interruptArm
  simp only
  generalize absorb cfg P σ = τ at h1 s1 ⊢
  have hsf1 : τ.statefunc.isSome = true := by rw [s1.statefunc]; exact hsf
  have hk1 : K idle τ = K idle σ := s1.calls
  split
  · rename_i t _
    obtain ⟨h2, d2⟩ := inv_doCleanup cfg P (kindOf t) false h1 (fun hh => by cases hh) hsf1
      (fun hh => by rw [s1.reason, hre] at hh; cases hh)
    exact stepOK_afterCleanup cfg P _ _ h2 (by rw [d2.statefunc]; exact hsf1)
      (by unfold K at *; rw [d2.calls, hk1]; exact Nat.le_succ _)
  · exact ⟨h1, by rw [hk1]; exact Nat.le_succ _⟩

theorem stepOK_stepOnce (cfg : Cfg) (P : Prog) {σ : SM} (h : Inv0 idle ml σ)
    (hsf : σ.statefunc.isSome = true) (hi : InitOK idle σ) (hk : K idle σ < 2 * ml) :
    StepOK idle ml (K idle σ) (stepOnce cfg P σ) := by
  obtain ⟨h1, s1⟩ := inv_absorb cfg P h
  have hi1 := hi.of_same s1
  unfold stepOnce
  simp only
  generalize absorb cfg P σ = τ at h1 s1 hi1 ⊢
  have hsf1 : τ.statefunc.isSome = true := by rw [s1.statefunc]; exact hsf
  have hk1 : K idle τ = K idle σ := s1.calls
  split
  · exact ⟨h1, by rw [hk1]; exact Nat.le_succ _⟩
  · rename_i s hs
    rw [← hk1]
    split
    · rename_i hc
      simp only [Bool.and_eq_true, Option.isNone_iff_eq_none] at hc
      exact stepOK_interruptArm cfg P h1 hsf1 hc.1 hc.2
    · rename_i hc
      apply stepOK_callState cfg P s h1 hs hi1 (by rw [hk1]; exact hk)
      cases hn : τ.nextTask with
      | none => exact Or.inl rfl
      | some t =>
        right
        cases hr : τ.reason with
        | none => simp [hn, hr] at hc
        | some r => rfl

/-! ### the loops -/

def InnerOK (idle : Status) (ml : Nat) (k0 : Nat) : Inner → Prop
  | .ret τ => Inv0 idle ml τ ∧ InitOK idle τ ∧ Q idle τ ∧ K idle τ ≤ k0
  | .brk τ => Inv0 idle ml τ ∧ K idle τ ≤ k0
  | .exhausted τ => Inv0 idle ml τ ∧ τ.statefunc.isSome = true ∧ K idle τ ≤ k0

theorem innerOK_inner (cfg : Cfg) (P : Prog) (n : Nat) {σ : SM} (h : Inv0 idle ml σ)
    (hsf : σ.statefunc.isSome = true) (hi : InitOK idle σ) (hk : K idle σ + n ≤ 2 * ml) :
    InnerOK idle ml (K idle σ + n) (inner cfg P n σ) := by
  induction n generalizing σ with
  | zero => exact ⟨h, hsf, Nat.le_refl _⟩
  | succ n ih =>
    have h1 := stepOK_stepOnce cfg P h hsf hi (by omega)
    unfold inner
    split
    · rename_i τ he; rw [he] at h1
      exact ⟨h1.1, h1.2.1, h1.2.2.1, by have := h1.2.2.2; omega⟩
    · rename_i τ he; rw [he] at h1
      exact ⟨h1.1, by have := h1.2; omega⟩
    · rename_i τ he; rw [he] at h1
      obtain ⟨a, b, c, d⟩ := h1
      have := ih a c b (by omega)
      revert this
      generalize inner cfg P n τ = r
      intro this
      cases r with
      | ret τ' => exact ⟨this.1, this.2.1, this.2.2.1, by have := this.2.2.2; omega⟩
      | brk τ' => exact ⟨this.1, by have := this.2; omega⟩
      | exhausted τ' => exact ⟨this.1, this.2.1, by have := this.2.2; omega⟩

/-- what the end of a pass through the outer loop establishes -/
def Settled (idle : Status) (ml : Nat) (k0 : Nat) (τ : SM) : Prop :=
  Inv0 idle ml τ ∧ InitOK idle τ ∧ Q idle τ ∧ K idle τ ≤ k0

theorem settled_takeTask (cfg : Cfg) (P : Prog) {σ : SM} (h : Inv0 idle ml σ) (hsf : σ.statefunc = none)
    (hi : InitOK idle σ) : Settled idle ml (K idle σ) (takeTask cfg P σ) := by
  unfold takeTask
  cases hnt : σ.nextTask with
  | none =>
    simp only
    exact ⟨h, hi, Or.inr (Or.inr hnt), Nat.le_refl _⟩
  | some t =>
    simp only
    have hg := h.good
    have hmc := h.mustCleanup; have hmi := h.mustInterrupt; have hcur := h.cur; have hpe := h.pending
    have hint := h.interrupted; have hlp := h.j0 t hnt
    simp only [ob] at hmc hmi hcur hpe hint hlp
    -- the take
    have h1 : Inv idle ml none false (startOf (some t)) (SM.log { σ with nextTask := none, reason := none } .take) ∧
        (ob idle (SM.log { σ with nextTask := none, reason := none } .take)).fresh = (ob idle σ).fresh ∧
        (ob idle (SM.log { σ with nextTask := none, reason := none } .take)).callsInCycle = (ob idle σ).callsInCycle ∧
        (ob idle (SM.log { σ with nextTask := none, reason := none } .take)).lastPost = some t ∧
        (ob idle (SM.log { σ with nextTask := none, reason := none } .take)).postedInCycle = (ob idle σ).postedInCycle := by
      refine ⟨⟨?_, ?_, ?_, ?_, ?_, ?_, ?_, ?_, ?_, ?_, ?_, ?_, ?_, ?_, ?_⟩, ?_, ?_, ?_, ?_⟩ <;>
        simp only [SM.log, ob, observe_snoc, Obs.step, always_snoc]
      · refine ⟨hg, ?_⟩
        simp [okAll, okInit, okCleanupOnce, okCleanupNotInterrupted, okStopInactive, okLastStart, okPickedUp, okBound,
          okNoRaise, okStopPosted, okStartPosted, isCycleEv, hmc, hmi, hcur, hsf, hpe, hnt]
      · exact h.cur
      · exact h.runCleanup
      · rw [hint, hsf]; simp
      · exact h.attrs
      · exact h.mustCleanup
      · exact h.mustInterrupt
      · rw [hpe, hnt]
      · intro r hr; cases hr
      · intro _ _ _; exact hsf
      · exact h.requesting
      · exact h.startCredit
      · exact h.stopOwed
      · exact h.stopCredit
      · exact hlp
    obtain ⟨h1, hf1, hc1, hl1, hp1⟩ := h1
    generalize hσ1 : SM.log { σ with nextTask := none, reason := none } .take = σ1 at h1 hf1 hc1 hl1 hp1 ⊢
    have hsf1 : σ1.statefunc = none := by rw [← hσ1]; exact hsf
    have hnt1 : σ1.nextTask = none := by rw [← hσ1]; rfl
    have hre1 : σ1.reason = none := by rw [← hσ1]; rfl
    have hin1 : σ1.init = σ.init := by rw [← hσ1]; rfl
    cases t with
    | stop st =>
      simp only [startOf] at h1 ⊢
      refine ⟨h1, ?_, Or.inr (Or.inr hnt1), by unfold K; rw [hc1]; exact Nat.le_refl _⟩
      unfold InitOK; rw [hf1, hin1]; exact hi
    | start s cl kw ovr =>
      simp only [startOf] at h1 ⊢
      obtain ⟨h2, n2⟩ := inv_newState cfg P (some s) h1
        (by intro s' cl' kw' ovr' hh; simp at hh; rw [hh.1])
        (fun _ => Or.inr ⟨hre1, Or.inr (by intro st hh; rw [hl1] at hh; cases hh)⟩)
      generalize newState cfg P σ1 (some s) = σ2 at h2 n2 ⊢
      have hg2 := h2.good
      have hmc2 := h2.mustCleanup; have hmi2 := h2.mustInterrupt; have htk2 := h2.taken; have hat2 := h2.attrs
      have hle2 := n2.lastEnter
      simp only [ob] at hmc2 hmi2 htk2 hat2 hle2
      refine ⟨⟨?_, ?_, ?_, ?_, ?_, ?_, ?_, ?_, ?_, ?_, ?_, ?_, ?_, ?_, ?_⟩, ?_, ?_, ?_⟩
      all_goals simp only [InitOK, Q, K, SM.log, ob, observe_snoc, Obs.step, always_snoc]
      · refine ⟨hg2, ?_⟩
        simp [okAll, okInit, okCleanupOnce, okCleanupNotInterrupted, okStopInactive, okLastStart, okPickedUp, okBound,
          okNoRaise, okStopPosted, okStartPosted, isCycleEv, hmc2, hmi2, htk2, hat2, hle2]
      · exact h2.cur
      · exact h2.interrupted
      · exact h2.pending
      · exact h2.mustCleanup
      · exact h2.mustInterrupt
      · exact h2.j0
      · exact h2.j1
      · exact h2.requesting
      · exact h2.startCredit
      · exact h2.stopOwed
      · exact h2.stopCredit
      · rw [n2.init]; exact n2.fresh
      · rcases n2.task with ⟨t1, _, t3⟩ | ⟨_, t2⟩
        · right; right; rw [t1]; exact hnt1
        · left; exact t2
      · have := n2.calls; simp only [ob] at this hc1; rw [this, hc1]; exact Nat.le_refl _

theorem settled_pickup (cfg : Cfg) (P : Prog) {σ : SM} (h : Inv0 idle ml σ) (hsf : σ.statefunc = none)
    (hi : InitOK idle σ) : Settled idle ml (K idle σ) (pickup cfg P σ) := by
  obtain ⟨h1, s1⟩ := inv_absorb cfg P h
  have hi1 := hi.of_same s1
  unfold pickup
  simp only
  generalize absorb cfg P σ = τ at h1 s1 hi1 ⊢
  have hk1 : K idle τ = K idle σ := s1.calls
  rw [← hk1]
  split
  · exact settled_takeTask cfg P h1 (by rw [s1.statefunc]; exact hsf) hi1
  · rename_i hc
    refine ⟨h1, hi1, Or.inr (Or.inr ?_), Nat.le_refl _⟩
    cases hn : τ.nextTask with
    | none => rfl
    | some t => simp [hn] at hc

theorem inv_finishRun (cfg : Cfg) (P : Prog) {σ : SM} (h : Inv0 idle ml σ) :
    Inv0 idle ml (finishRun cfg P σ) ∧ (finishRun cfg P σ).statefunc = none ∧ InitOK idle (finishRun cfg P σ) ∧
      K idle (finishRun cfg P σ) = K idle σ := by
  unfold finishRun
  obtain ⟨h1, n1⟩ := inv_newState cfg P none h (by intro _ _ _ _ hh; cases hh) (fun hh => by cases hh)
  refine ⟨h1, n1.statefunc, ?_, n1.calls⟩
  unfold InitOK; rw [n1.fresh]; exact n1.init.symm

theorem settled_finish_pickup (cfg : Cfg) (P : Prog) {σ : SM} (h : Inv0 idle ml σ) :
    Settled idle ml (K idle σ) (pickup cfg P (finishRun cfg P σ)) := by
  obtain ⟨h1, hs, hi, hk⟩ := inv_finishRun cfg P h
  rw [← hk]; exact settled_pickup cfg P h1 hs hi

theorem settled_chainLimit (cfg : Cfg) (P : Prog) {σ : SM} (h : Inv0 idle ml σ) (hsf : σ.statefunc.isSome = true) :
    Settled idle ml (K idle σ) (chainLimit cfg P σ) := by
  obtain ⟨h1, d1⟩ := inv_doCleanup cfg P .error false h (fun hh => by cases hh) hsf (fun _ => rfl)
  unfold chainLimit
  simp only
  generalize doCleanup cfg P σ .error = r at h1 d1 ⊢
  have hk1 : K idle r.σ = K idle σ := d1.calls
  rw [← hk1]
  split
  · rename_i s _
    obtain ⟨h2, n2⟩ := inv_newState cfg P (some s) h1 (by intro _ _ _ _ hh; cases hh)
      (fun _ => Or.inl (by rw [d1.statefunc]; exact hsf))
    refine ⟨h2, ?_, Or.inr (Or.inl ⟨by rw [n2.reason]; exact d1.reason, by rw [n2.statefunc]; rfl⟩),
      by unfold K; rw [n2.calls]; exact Nat.le_refl _⟩
    unfold InitOK; rw [n2.fresh]; exact n2.init.symm
  · exact settled_finish_pickup cfg P h1

def OuterOK (idle : Status) (ml : Nat) (k0 : Nat) : Outer → Prop
  | .ret τ => Settled idle ml k0 τ
  | .next τ => Settled idle ml k0 τ

theorem Settled.mono {k0 k1 : Nat} {τ : SM} (h : Settled idle ml k0 τ) (hk : k0 ≤ k1) : Settled idle ml k1 τ :=
  ⟨h.1, h.2.1, h.2.2.1, Nat.le_trans h.2.2.2 hk⟩

theorem outerOK_outerBody (cfg : Cfg) (P : Prog) {σ : SM} (hml : cfg.maxloops = ml) (h : Inv0 idle ml σ)
    (hi : InitOK idle σ) (hk : K idle σ + ml ≤ 2 * ml) :
    OuterOK idle ml (K idle σ + ml) (outerBody cfg P σ) := by
  unfold outerBody
  cases hsf : σ.statefunc with
  | none =>
    simp only
    exact (settled_pickup cfg P h hsf hi).mono (Nat.le_add_right _ _)
  | some s =>
    simp only
    have h1 := innerOK_inner cfg P ml h (by simp [hsf]) hi hk
    rw [hml]
    revert h1
    generalize inner cfg P ml σ = r
    intro h1
    cases r with
    | ret τ => exact h1
    | brk τ => exact (settled_finish_pickup cfg P h1.1).mono h1.2
    | exhausted τ => exact (settled_chainLimit cfg P h1.1 h1.2.1).mono h1.2.2

theorem settled_outer (cfg : Cfg) (P : Prog) (hml : cfg.maxloops = ml) (n : Nat) {σ : SM} (h : Inv0 idle ml σ)
    (hi : InitOK idle σ) (hk : K idle σ + n * ml ≤ 2 * ml) (hq : n = 0 → Q idle σ) :
    Settled idle ml (2 * ml) (outer cfg P n σ) := by
  induction n generalizing σ with
  | zero =>
    unfold outer
    exact ⟨h, hi, hq rfl, by simp only [Nat.zero_mul, Nat.add_zero] at hk; exact hk⟩
  | succ n ih =>
    have h1 := outerOK_outerBody cfg P hml h hi (by rw [Nat.add_mul] at hk; omega)
    unfold outer
    revert h1
    generalize outerBody cfg P σ = r
    intro h1
    cases r with
    | ret τ => exact Settled.mono h1 (by rw [Nat.add_mul] at hk; omega)
    | next τ =>
      simp only
      exact ih h1.1 h1.2.1 (by have := h1.2.2.2; rw [Nat.add_mul] at hk; omega) (fun _ => h1.2.2.1)

/-! ### `cycle`, operations, runs -/

/-- between operations -/
def Stable (idle : Status) (ml : Nat) (σ : SM) : Prop := Inv0 idle ml σ ∧ InitOK idle σ

theorem stable_cycle (cfg : Cfg) (P : Prog) (hml : cfg.maxloops = ml) {σ : SM} (h : Stable idle ml σ) :
    Stable idle ml (cycle cfg P σ) := by
  obtain ⟨h, hi⟩ := h
  have hg := h.good
  have hmc := h.mustCleanup; have hmi := h.mustInterrupt
  simp only [ob] at hmc hmi
  have h1 : Inv0 idle ml (σ.log .cycleBegin) ∧ InitOK idle (σ.log .cycleBegin) ∧ K idle (σ.log .cycleBegin) = 0 := by
    refine ⟨⟨?_, ?_, ?_, ?_, ?_, ?_, ?_, ?_, ?_, ?_, ?_, ?_, ?_, ?_, ?_⟩, ?_, ?_⟩ <;>
      simp only [InitOK, K, SM.log, ob, observe_snoc, Obs.step, always_snoc]
    · refine ⟨hg, ?_⟩
      simp [okAll, okInit, okCleanupOnce, okCleanupNotInterrupted, okStopInactive, okLastStart, okPickedUp, okBound,
        okNoRaise, okStopPosted, okStartPosted, isCycleEv, hmc, hmi]
    · exact h.cur
    · exact h.runCleanup
    · exact h.interrupted
    · exact h.pending
    · exact h.attrs
    · exact h.mustCleanup
    · exact h.mustInterrupt
    · exact h.taken
    · exact h.j0
    · exact h.j1
    · exact h.requesting
    · exact h.startCredit
    · exact h.stopOwed
    · exact h.stopCredit
    · exact hi
  obtain ⟨h1, hi1, hk1⟩ := h1
  have h2 := settled_outer cfg P hml 2 h1 hi1 (by rw [hk1]; omega) (fun hh => by cases hh)
  unfold cycle endCycle
  generalize outer cfg P 2 (σ.log .cycleBegin) = τ at h2 ⊢
  obtain ⟨h2, hi2, hq2, _⟩ := h2
  have hg2 := h2.good
  have hmc2 := h2.mustCleanup; have hmi2 := h2.mustInterrupt; have hcur2 := h2.cur; have hpe2 := h2.pending
  have hint2 := h2.interrupted; have htk2 := h2.taken; have hj1 := h2.j1
  simp only [ob] at hmc2 hmi2 hcur2 hpe2 hint2 htk2 hj1
  unfold Q at hq2
  simp only [ob] at hq2
  refine ⟨⟨?_, ?_, ?_, ?_, ?_, ?_, ?_, ?_, ?_, ?_, ?_, ?_, ?_, ?_, ?_⟩, ?_⟩ <;>
    simp only [InitOK, SM.log, ob, observe_snoc, Obs.step, always_snoc]
  · refine ⟨hg2, ?_⟩
    simp only [okAll, okInit, okCleanupOnce, okCleanupNotInterrupted, okStopInactive, okLastStart, okPickedUp, okBound,
      okNoRaise, okStopPosted, okStartPosted, isCycleEv, hmc2, hmi2, hcur2, hpe2, hint2, htk2]
    rcases hq2 with hq | ⟨hr, hs⟩ | hn
    · simp [hq]
    · simp [hr, hs]
    · cases hlp : (observe idle τ.trace).lastPost with
      | none => simp [hn]
      | some r =>
        cases r with
        | start s cl kw ovr => simp [hn]
        | stop st => simp [hn, hj1 st hlp hn]
  · exact h2.cur
  · exact h2.runCleanup
  · exact h2.interrupted
  · exact h2.pending
  · exact h2.attrs
  · exact h2.mustCleanup
  · exact h2.mustInterrupt
  · exact h2.taken
  · exact h2.j0
  · exact h2.j1
  · exact h2.requesting
  · exact h2.startCredit
  · exact h2.stopOwed
  · exact h2.stopCredit
  · exact hi2

theorem stable_cycleMachine (cfg : Cfg) (P : Prog) (hml : cfg.maxloops = ml) {σ : SM} (h : Stable idle ml σ) :
    Stable idle ml (cycleMachine cfg P σ) := by
  have h1 := stable_cycle cfg P hml h
  unfold cycleMachine
  simp only
  generalize cycle cfg P σ = τ at h1 ⊢
  split
  · obtain ⟨h2, s2⟩ := inv_neutral (σ := τ) (σ' := τ.log (.status τ.status)) ⟨_, rfl⟩
      rfl rfl rfl rfl rfl rfl rfl h1.1
    exact ⟨h2, h1.2.of_same s2⟩
  · exact h1

theorem stable_stepOp (cfg : Cfg) (P : Prog) (hml : cfg.maxloops = ml) {σ : SM} (h : Stable idle ml σ) (op : Op) :
    Stable idle ml (stepOp cfg P σ op) := by
  cases op with
  | cycle => exact stable_cycleMachine cfg P hml h
  | req r =>
    obtain ⟨h2, s2⟩ := inv_request cfg h.1 r
    exact ⟨h2, h.2.of_same s2⟩

theorem stable_initial (idle : Status) (ml : Nat) : Stable idle ml (SM.initial idle) := by
  refine ⟨⟨always_nil _ _, rfl, rfl, rfl, rfl, rfl, rfl, rfl, rfl, ?_, ?_, rfl, rfl, rfl, rfl⟩, rfl⟩
  · intro r hr; cases hr
  · intro _ _ _; rfl

theorem stable_run (cfg : Cfg) (P : Prog) (hml : cfg.maxloops = ml) (ops : List Op) {σ : SM} (h : Stable idle ml σ) :
    Stable idle ml (run cfg P σ ops) := by
  unfold run
  induction ops generalizing σ with
  | nil => exact h
  | cons op ops ih => exact ih (stable_stepOp cfg P hml h op)

/-- every history of the model satisfies all clause conditions that do not depend on the status rules -/
theorem run_good (cfg : Cfg) (P : Prog) (idle : Status) (ops : List Op) :
    Always idle (okAll cfg.maxloops) (run cfg P (SM.initial idle) ops).trace :=
  (stable_run cfg P rfl ops (stable_initial idle cfg.maxloops)).1.good

end Frappy.SM
