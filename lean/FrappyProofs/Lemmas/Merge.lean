import FrappyModel.Spec.C10
/- helper lemmas for C10: merging of config files -/
namespace Frappy.Lemmas.Merge
open Frappy.Config Frappy.Spec.C10

variable {M : Type}

theorem lookup_append {α : Type} (k n : Name) (v : α) (l : List (Name × α)) :
    lookup k (l ++ [(n, v)]) = match lookup k l with
      | some r => some r
      | none => if n = k then some v else none := by
  induction l with
  | nil => simp [lookup]
  | cons x l ih =>
    simp only [List.cons_append, lookup]
    split
    · rfl
    · exact ih

theorem lookup_map {α β : Type} (f : α → β) (k : Name) (l : List (Name × α)) :
    lookup k (l.map fun m => (m.1, f m.2)) = (lookup k l).map f := by
  induction l with
  | nil => rfl
  | cons x l ih =>
    simp only [List.map_cons, lookup]
    split
    · rfl
    · exact ih

theorem mem_names_iff {α : Type} (k : Name) (l : List (Name × α)) :
    k ∈ l.map (·.1) ↔ (lookup k l).isSome = true := by
  induction l with
  | nil => simp [lookup]
  | cons x l ih =>
    simp only [List.map_cons, List.mem_cons, lookup]
    split
    · rename_i h; simp [h]
    · rename_i h
      rw [ih]
      constructor
      · rintro (h' | h')
        · exact absurd h'.symm h
        · exact h'
      · exact Or.inr

/-- the inner loop of `merge_modules` -/
theorem mergeStep_fold (eq : Name) (k : Name) :
    ∀ (ms : List (Name × M)) (acc : Merged M),
      lookup k (ms.foldl (mergeStep eq) acc).modules =
        (match lookup k acc.modules with
         | some r => some r
         | none => (lookup k ms).map (fun m => (m, some eq))) ∧
      (ms.foldl (mergeStep eq) acc).ambiguous = acc.ambiguous := by
  intro ms
  induction ms with
  | nil =>
    intro acc
    constructor
    · cases h : lookup k acc.modules <;> simp [lookup, h]
    · rfl
  | cons x ms ih =>
    intro acc
    simp only [List.foldl_cons]
    obtain ⟨h1, h2⟩ := ih (mergeStep eq acc x)
    rw [h1, h2]
    unfold mergeStep
    by_cases hx : (lookup x.1 acc.modules).isSome = true
    · simp only [hx, ↓reduceIte, and_true]
      cases hk : lookup k acc.modules with
      | some r => rfl
      | none =>
        have hne : x.1 ≠ k := by
          intro hxe; rw [hxe, hk] at hx; cases hx
        simp [lookup, hne]
    · simp only [hx, Bool.false_eq_true, ↓reduceIte, and_true]
      rw [lookup_append]
      cases hk : lookup k acc.modules with
      | some r => rfl
      | none =>
        by_cases hxe : x.1 = k
        · simp [lookup, hxe]
        · simp [lookup, hxe]

theorem merge_lookup (acc : Merged M) (other : CfgFile M) (k : Name) :
    lookup k (mergeModules acc other).modules =
      match lookup k acc.modules with
      | some r => some r
      | none => (lookup k other.modules).map (fun m => (m, some other.equipmentId)) := by
  unfold mergeModules
  exact (mergeStep_fold other.equipmentId k other.modules _).1

theorem merge_ambiguous (acc : Merged M) (other : CfgFile M) (k : Name) :
    k ∈ (mergeModules acc other).ambiguous ↔
      k ∈ acc.ambiguous ∨ ((lookup k acc.modules).isSome = true ∧ (lookup k other.modules).isSome = true) := by
  unfold mergeModules
  rw [(mergeStep_fold other.equipmentId k other.modules _).2]
  simp only [List.mem_append, List.mem_filter, Bool.and_eq_true, Bool.not_eq_eq_eq_not, Bool.not_true,
    List.contains_eq_mem, decide_eq_false_iff_not]
  rw [mem_names_iff]
  constructor
  · rintro (h | ⟨h1, h2, _⟩)
    · exact Or.inl h
    · exact Or.inr ⟨h2, h1⟩
  · rintro (h | ⟨h1, h2⟩)
    · exact Or.inl h
    · by_cases hk : k ∈ acc.ambiguous
      · exact Or.inl hk
      · exact Or.inr ⟨h2, h1, hk⟩

/-- which names become ambiguous while the remaining files are merged in: `known` = defined so far -/
def ambRest (known : Name → Bool) : List (CfgFile M) → Name → Bool
  | [], _ => false
  | g :: rest, k => (known k && (lookup k g.modules).isSome) ||
      ambRest (fun x => known x || (lookup x g.modules).isSome) rest k

theorem fold_spec : ∀ (rest : List (CfgFile M)) (acc : Merged M) (known : Name → Bool),
    (∀ k, (lookup k acc.modules).isSome = known k) →
    ∀ k, lookup k (rest.foldl mergeModules acc).modules =
        (match lookup k acc.modules with
         | some r => some r
         | none => firstDef rest false k) ∧
      (k ∈ (rest.foldl mergeModules acc).ambiguous ↔ k ∈ acc.ambiguous ∨ ambRest known rest k = true) := by
  intro rest
  induction rest with
  | nil =>
    intro acc known _ k
    constructor
    · cases h : lookup k acc.modules <;> simp [firstDef, h]
    · simp [ambRest]
  | cons g rest ih =>
    intro acc known hknown k
    simp only [List.foldl_cons]
    have hknown' : ∀ x, (lookup x (mergeModules acc g).modules).isSome = (known x || (lookup x g.modules).isSome) := by
      intro x
      rw [merge_lookup, ← hknown x]
      cases h1 : lookup x acc.modules <;> cases h2 : lookup x g.modules <;> simp
    obtain ⟨h1, h2⟩ := ih (mergeModules acc g) _ hknown' k
    constructor
    · rw [h1, merge_lookup]
      cases hk : lookup k acc.modules with
      | some r => rfl
      | none =>
        simp only [firstDef]
        cases h : lookup k g.modules <;> simp
    · rw [h2, merge_ambiguous, hknown k]
      simp only [ambRest, Bool.or_eq_true, Bool.and_eq_true]
      constructor
      · rintro ((h | h) | h)
        · exact Or.inl h
        · exact Or.inr (Or.inl h)
        · exact Or.inr (Or.inr h)
      · rintro (h | h | h)
        · exact Or.inl (Or.inl h)
        · exact Or.inl (Or.inr h)
        · exact Or.inr h

/-- number of files (among `files`) that define `k` -/
theorem ambRest_count (k : Name) : ∀ (rest : List (CfgFile M)) (known : Name → Bool),
    ambRest known rest k = true ↔
      (known k = true ∧ 1 ≤ countFiles rest k) ∨ 2 ≤ countFiles rest k := by
  intro rest
  induction rest with
  | nil => intro known; simp [ambRest, countFiles]
  | cons g rest ih =>
    intro known
    simp only [ambRest, Bool.or_eq_true, Bool.and_eq_true]
    rw [ih]
    have hc : countFiles (g :: rest) k = (if (lookup k g.modules).isSome then 1 else 0) + countFiles rest k := by
      unfold countFiles
      simp only [List.filter_cons]
      split <;> simp <;> omega
    rw [hc]
    cases hg : (lookup k g.modules).isSome <;> cases hkn : known k <;> simp <;> omega

end Frappy.Lemmas.Merge
