import FrappyProofs.Lemmas.Datainfo
/-
C03: a struct whose `optional` list names all its members (in whatever order, possibly repeated) is exported
without `optional` and rebuilt with the members in member order.  `normOpt` is that normal form; it has the
same datainfo and the same `validate` / `import_value`, and it satisfies `OptionalInOrder`, so
`rebuild_core` applies to it: the hypothesis `OptionalInOrder` is not needed for behavioural equivalence.
-/
set_option linter.unusedSectionVars false
set_option linter.unusedVariables false
namespace Frappy.Lemmas.C03Datainfo
open FloatOps DType DInfo Frappy.Datatypes
open PVal (dictGet ofJVal)

variable {F : Type} [FloatOps F] [LawfulFloatOps F] [CompatLaws F]

mutual
/-- `optional` replaced by the member names wherever it names all members -/
def normOpt : DInfo F → DInfo F
  | .array e a b => .array (normOpt e) a b
  | .tuple es => .tuple (normOptList es)
  | .struct ms opt c =>
    .struct (normOptFields ms) (if optionalDiffers (ms.map (·.1)) opt then opt else ms.map (·.1)) c
  | t => t
def normOptList : List (DInfo F) → List (DInfo F)
  | [] => []
  | t :: ts => normOpt t :: normOptList ts
def normOptFields : List (String × DInfo F) → List (String × DInfo F)
  | [] => []
  | (k, t) :: ts => (k, normOpt t) :: normOptFields ts
end

theorem normOptFields_names : ∀ ms : List (String × DInfo F), (normOptFields ms).map (·.1) = ms.map (·.1)
  | [] => by simp only [normOptFields]
  | (k, t) :: ts => by simp only [normOptFields, List.map_cons, normOptFields_names ts]

theorem normOptList_length : ∀ es : List (DInfo F), (normOptList es).length = es.length
  | [] => by simp only [normOptList, List.length_nil]
  | t :: ts => by simp only [normOptList, List.length_cons, normOptList_length ts]

theorem optionalDiffers_self (names : List String) : optionalDiffers names names = false := by
  unfold optionalDiffers
  simp

theorem all_congr_mem {α : Type} {f g : α → Bool} : ∀ (l : List α), (∀ x ∈ l, f x = g x) → l.all f = l.all g
  | [], _ => rfl
  | a :: l, h => by
    simp only [List.all_cons]
    rw [h a (List.mem_cons_self ..), all_congr_mem l (fun x hx => h x (List.mem_cons_of_mem _ hx))]

/-- `structCheck` looks at `optional` only through membership of member names -/
theorem structCheck_opt_congr {names opt : List String} (h : optionalDiffers names opt = false) (allow : Bool)
    (items : List (String × PVal F)) : structCheck names opt allow items = structCheck names names allow items := by
  unfold optionalDiffers at h
  simp only [Bool.not_eq_false', Bool.and_eq_true, List.all_eq_true, List.contains_eq_mem, decide_eq_true_eq] at h
  unfold structCheck
  congr 1
  apply all_congr_mem
  intro k hk
  have h1 : opt.contains k = true := by simpa using h.1 k hk
  have h2 : names.contains k = true := by simpa using hk
  rw [h1, h2]

theorem ite_opt_structCheck (names opt : List String) (allow : Bool) (items : List (String × PVal F)) :
    structCheck names (if optionalDiffers names opt then opt else names) allow items = structCheck names opt allow items := by
  cases h : optionalDiffers names opt
  · simp only [Bool.false_eq_true, if_false]; exact (structCheck_opt_congr h allow items).symm
  · simp only [if_true]

/-! ### the same datainfo -/

theorem ite_opt_differs (names opt : List String) :
    optionalDiffers names (if optionalDiffers names opt then opt else names) = optionalDiffers names opt := by
  cases h : optionalDiffers names opt
  · simp only [Bool.false_eq_true, if_false]; exact optionalDiffers_self names
  · simp only [if_true]; exact h

mutual
theorem export_normOpt (D : Consts F) : ∀ dt : DInfo F, exportDatatype D (normOpt dt) = exportDatatype D dt
  | .double mn mx ar rr u f => by simp only [normOpt]
  | .int mn mx => by simp only [normOpt]
  | .scaled s mn mx ar rr u f => by simp only [normOpt]
  | .bool => by simp only [normOpt]
  | .enum n ms => by simp only [normOpt]
  | .string a b u => by simp only [normOpt]
  | .blob a b => by simp only [normOpt]
  | .array e a b => by
    simp only [normOpt, exportDatatype]
    rw [export_normOpt D e]
  | .tuple es => by
    simp only [normOpt, exportDatatype]
    rw [exportList_normOpt D es]
  | .struct ms opt c => by
    simp only [normOpt, exportDatatype]
    rw [exportFields_normOpt D ms, normOptFields_names ms, ite_opt_differs]
    cases h : optionalDiffers (ms.map (·.1)) opt
    · simp only [optField, Bool.false_eq_true, if_false]
    · simp only [if_true]
theorem exportList_normOpt (D : Consts F) : ∀ es : List (DInfo F), exportList D (normOptList es) = exportList D es
  | [] => by simp only [normOptList]
  | t :: ts => by
    simp only [normOptList, exportList]
    rw [export_normOpt D t, exportList_normOpt D ts]
theorem exportFields_normOpt (D : Consts F) : ∀ ms : List (String × DInfo F),
    exportFields D (normOptFields ms) = exportFields D ms
  | [] => by simp only [normOptFields]
  | (k, t) :: ts => by
    simp only [normOptFields, exportFields]
    rw [export_normOpt D t, exportFields_normOpt D ts]
end

/-! ### the same behaviour -/

mutual
theorem conv_normOpt (m : Mode) : ∀ (dt : DInfo F) (v : PVal F) (prev : Option (PVal F)),
    conv m (normOpt dt).erase v prev = conv m dt.erase v prev
  | .double mn mx ar rr u f, v, prev => by simp only [normOpt]
  | .int mn mx, v, prev => by simp only [normOpt]
  | .scaled s mn mx ar rr u f, v, prev => by simp only [normOpt]
  | .bool, v, prev => by simp only [normOpt]
  | .enum n ms, v, prev => by simp only [normOpt]
  | .string a b u, v, prev => by simp only [normOpt]
  | .blob a b, v, prev => by simp only [normOpt]
  | .array e a b, v, prev => by
    have h : conv m (normOpt e).erase = conv m e.erase := by
      funext v p; exact conv_normOpt m e v p
    simp only [normOpt, erase, conv, h]
  | .tuple es, v, prev => by
    have h : convTuple m (eraseList (normOptList es)) = convTuple m (eraseList es) := by
      funext vs ps; exact convTuple_normOpt m es vs ps
    simp only [normOpt, erase, conv, h, eraseList_length, normOptList_length]
  | .struct ms opt c, v, prev => by
    have h : convMember m (eraseFields (normOptFields ms)) = convMember m (eraseFields ms) := by
      funext k v; exact convMember_normOpt m ms k v
    simp only [normOpt, erase, conv, h, eraseFields_names, normOptFields_names, ite_opt_structCheck]
theorem convTuple_normOpt (m : Mode) : ∀ (es : List (DInfo F)) (vs : List (PVal F)) (ps : Option (List (PVal F))),
    convTuple m (eraseList (normOptList es)) vs ps = convTuple m (eraseList es) vs ps
  | [], vs, ps => by simp only [normOptList]
  | t :: ts, [], ps => by simp only [normOptList, eraseList, convTuple]
  | t :: ts, v :: vs, some [] => by simp only [normOptList, eraseList, convTuple]
  | t :: ts, v :: vs, some (p :: ps) => by
    simp only [normOptList, eraseList, convTuple]
    rw [conv_normOpt m t v (some p), convTuple_normOpt m ts vs (some ps)]
  | t :: ts, v :: vs, none => by
    simp only [normOptList, eraseList, convTuple]
    rw [conv_normOpt m t v none, convTuple_normOpt m ts vs none]
theorem convMember_normOpt (m : Mode) : ∀ (ms : List (String × DInfo F)) (k : String) (v : PVal F),
    convMember m (eraseFields (normOptFields ms)) k v = convMember m (eraseFields ms) k v
  | [], k, v => by simp only [normOptFields]
  | (k0, t) :: rest, k, v => by
    simp only [normOptFields, eraseFields, convMember]
    rw [conv_normOpt m t v none, convMember_normOpt m rest k v]
end

mutual
theorem import_normOpt : ∀ (dt : DInfo F) (j : JVal F),
    importValue (normOpt dt).erase j = importValue dt.erase j
  | .double mn mx ar rr u f, j => by simp only [normOpt]
  | .int mn mx, j => by simp only [normOpt]
  | .scaled s mn mx ar rr u f, j => by simp only [normOpt]
  | .bool, j => by simp only [normOpt]
  | .enum n ms, j => by simp only [normOpt]
  | .string a b u, j => by simp only [normOpt]
  | .blob a b, j => by simp only [normOpt]
  | .array e a b, j => by
    have h : importValue (normOpt e).erase = importValue e.erase := by
      funext j; exact import_normOpt e j
    simp only [normOpt, erase, importValue, h]
  | .tuple es, j => by
    have h : importTuple (eraseList (normOptList es)) = importTuple (eraseList es) := by
      funext js; exact importTuple_normOpt es js
    simp only [normOpt, erase, importValue, h, eraseList_length, normOptList_length]
  | .struct ms opt c, j => by
    have h : importMember (eraseFields (normOptFields ms)) = importMember (eraseFields ms) := by
      funext k j; exact importMember_normOpt ms k j
    simp only [normOpt, erase, importValue, h, eraseFields_names, normOptFields_names, ite_opt_structCheck]
theorem importTuple_normOpt : ∀ (es : List (DInfo F)) (js : List (JVal F)),
    importTuple (eraseList (normOptList es)) js = importTuple (eraseList es) js
  | [], js => by simp only [normOptList]
  | t :: ts, [] => by simp only [normOptList, eraseList, importTuple]
  | t :: ts, j :: js => by
    simp only [normOptList, eraseList, importTuple]
    rw [import_normOpt t j, importTuple_normOpt ts js]
theorem importMember_normOpt : ∀ (ms : List (String × DInfo F)) (k : String) (j : JVal F),
    importMember (eraseFields (normOptFields ms)) k j = importMember (eraseFields ms) k j
  | [], k, j => by simp only [normOptFields]
  | (k0, t) :: rest, k, j => by
    simp only [normOptFields, eraseFields, importMember]
    rw [import_normOpt t j, importMember_normOpt rest k j]
end

/-! ### the normal form meets the hypotheses of `rebuild_core` -/

mutual
theorem normOpt_wf (D : Consts F) : ∀ dt : DInfo F, dt.WF D → (normOpt dt).WF D
  | .double mn mx ar rr u f, h => by simpa only [normOpt] using h
  | .int mn mx, h => by simpa only [normOpt] using h
  | .scaled s mn mx ar rr u f, h => by simpa only [normOpt] using h
  | .bool, h => by simpa only [normOpt] using h
  | .enum n ms, h => by simpa only [normOpt] using h
  | .string a b u, h => by simpa only [normOpt] using h
  | .blob a b, h => by simpa only [normOpt] using h
  | .array e a b, h => by
    simp only [normOpt, DInfo.WF] at h ⊢
    exact ⟨normOpt_wf D e h.1, h.2⟩
  | .tuple es, h => by
    simp only [normOpt, DInfo.WF] at h ⊢
    refine ⟨?_, normOptList_wf D es h.2⟩
    intro e
    have := normOptList_length es
    rw [e] at this
    cases es with
    | nil => exact h.1 rfl
    | cons _ _ => simp at this
  | .struct ms opt c, h => by
    simp only [normOpt, DInfo.WF] at h ⊢
    obtain ⟨h1, h2, h3, h4⟩ := h
    refine ⟨?_, ?_, ?_, normOptFields_wf D ms h4⟩
    · intro e
      cases ms with
      | nil => exact h1 rfl
      | cons hd tl => obtain ⟨k, t⟩ := hd; simp [normOptFields] at e
    · rw [normOptFields_names]; exact h2
    · rw [normOptFields_names]
      intro k hk
      split at hk
      · exact h3 k hk
      · exact hk
theorem normOptList_wf (D : Consts F) : ∀ es : List (DInfo F), DInfo.WFList D es → DInfo.WFList D (normOptList es)
  | [], h => by simpa only [normOptList] using h
  | t :: ts, h => by
    simp only [normOptList, DInfo.WFList] at h ⊢
    exact ⟨normOpt_wf D t h.1, normOptList_wf D ts h.2⟩
theorem normOptFields_wf (D : Consts F) : ∀ ms : List (String × DInfo F), DInfo.WFFields D ms →
    DInfo.WFFields D (normOptFields ms)
  | [], h => by simpa only [normOptFields] using h
  | (k, t) :: ts, h => by
    simp only [normOptFields, DInfo.WFFields] at h ⊢
    exact ⟨normOpt_wf D t h.1, normOptFields_wf D ts h.2⟩
end

mutual
theorem normOpt_exportable : ∀ dt : DInfo F, dt.Exportable → (normOpt dt).Exportable
  | .double mn mx ar rr u f, h => by simpa only [normOpt] using h
  | .int mn mx, h => by simpa only [normOpt] using h
  | .scaled s mn mx ar rr u f, h => by simpa only [normOpt] using h
  | .bool, h => by simpa only [normOpt] using h
  | .enum n ms, h => by simpa only [normOpt] using h
  | .string a b u, h => by simpa only [normOpt] using h
  | .blob a b, h => by simpa only [normOpt] using h
  | .array e a b, h => by
    simp only [normOpt, DInfo.Exportable] at h ⊢
    exact normOpt_exportable e h
  | .tuple es, h => by
    simp only [normOpt, DInfo.Exportable] at h ⊢
    exact normOptList_exportable es h
  | .struct ms opt c, h => by
    simp only [normOpt, DInfo.Exportable] at h ⊢
    exact normOptFields_exportable ms h
theorem normOptList_exportable : ∀ es : List (DInfo F), DInfo.ExportableList es → DInfo.ExportableList (normOptList es)
  | [], h => by simpa only [normOptList] using h
  | t :: ts, h => by
    simp only [normOptList, DInfo.ExportableList] at h ⊢
    exact ⟨normOpt_exportable t h.1, normOptList_exportable ts h.2⟩
theorem normOptFields_exportable : ∀ ms : List (String × DInfo F), DInfo.ExportableFields ms →
    DInfo.ExportableFields (normOptFields ms)
  | [], h => by simpa only [normOptFields] using h
  | (k, t) :: ts, h => by
    simp only [normOptFields, DInfo.ExportableFields] at h ⊢
    exact ⟨normOpt_exportable t h.1, normOptFields_exportable ts h.2⟩
end

mutual
theorem normOpt_inOrder : ∀ dt : DInfo F, (normOpt dt).OptionalInOrder
  | .double mn mx ar rr u f => by simp only [normOpt, DInfo.OptionalInOrder]
  | .int mn mx => by simp only [normOpt, DInfo.OptionalInOrder]
  | .scaled s mn mx ar rr u f => by simp only [normOpt, DInfo.OptionalInOrder]
  | .bool => by simp only [normOpt, DInfo.OptionalInOrder]
  | .enum n ms => by simp only [normOpt, DInfo.OptionalInOrder]
  | .string a b u => by simp only [normOpt, DInfo.OptionalInOrder]
  | .blob a b => by simp only [normOpt, DInfo.OptionalInOrder]
  | .array e a b => by
    simp only [normOpt, DInfo.OptionalInOrder]
    exact normOpt_inOrder e
  | .tuple es => by
    simp only [normOpt, DInfo.OptionalInOrder]
    exact normOptList_inOrder es
  | .struct ms opt c => by
    simp only [normOpt, DInfo.OptionalInOrder, normOptFields_names]
    refine ⟨?_, normOptFields_inOrder ms⟩
    intro h
    rw [ite_opt_differs] at h
    simp only [h, Bool.false_eq_true, if_false]
theorem normOptList_inOrder : ∀ es : List (DInfo F), DInfo.OptionalInOrderList (normOptList es)
  | [] => by simp only [normOptList, DInfo.OptionalInOrderList]
  | t :: ts => by
    simp only [normOptList, DInfo.OptionalInOrderList]
    exact ⟨normOpt_inOrder t, normOptList_inOrder ts⟩
theorem normOptFields_inOrder : ∀ ms : List (String × DInfo F), DInfo.OptionalInOrderFields (normOptFields ms)
  | [] => by simp only [normOptFields, DInfo.OptionalInOrderFields]
  | (k, t) :: ts => by
    simp only [normOptFields, DInfo.OptionalInOrderFields]
    exact ⟨normOpt_inOrder t, normOptFields_inOrder ts⟩
end

end Frappy.Lemmas.C03Datainfo
