import FrappyProofs.Lemmas.Reconnect
/-
C11 — "nothing in a quiet state ever ends the tx thread": the closure lemma behind `marker_eaten_hangs`.
A state is quiet when `_running` is set, the current connection is healthy, no queue holds a marker, and every thread
has finished, or waits in `txthread.join()`, or is a tx thread in its loop, or is an rx thread polling (including its
heartbeat).  The threads' own steps (no fault of the environment: `o = 0`, or `o = 2` = heartbeat due) keep it quiet.
-/
namespace Frappy.Client.Reconnect

def quietPc (t : Th) : Bool :=
  t.pc == .done || t.pc == .d5
  || (t.kind == .txw && (t.pc == .tcheck || t.pc == .tgetq || t.pc == .tget || t.pc == .tproc || t.pc == .tsend))
  || (t.kind == .rxw && (t.pc == .rcheck || t.pc == .rio || t.pc == .rread || t.pc == .c0 || t.pc == .c1 || t.pc == .cend
        || t.pc == .rhbq || t.pc == .rhb) && !t.raised)

/-- what a quiet step does: the thread stays quiet and keeps its kind, `_running` and `self.io` stay, the thread list
and the connections stay, every queue keeps being free of markers -/
theorem fp_quiet {cfg : Cfg} {s s1 : St} {me o : Nat} {t t' : Th} (h : stepTh cfg s me t o = some (s1, t'))
    (hq : quietPc t = true) (ho : o = 0 ∨ o = 2) (hr : s.running = true) (hio : s.io.isSome = true)
    (hm : ∀ q, true ∉ queueOf s q) (hd5 : t.pc ≠ .d5) :
    quietPc t' = true ∧ t'.kind = t.kind ∧ s1.running = true ∧ s1.io = s.io ∧ s1.th = s.th ∧ s1.conns = s.conns
      ∧ (t'.pc = .done → t.pc = .done) ∧ t'.pc ≠ .d5 := by
  unfold stepTh at h
  cases hpc : t.pc <;> rw [hpc] at h <;> simp only at h <;> (repeat' split at h) <;>
    first
    | (cases h; done)
    | (simp [quietPc, hpc] at hq; done)
    | (simp only [Option.some.injEq, Prod.mk.injEq] at h; obtain ⟨rfl, rfl⟩ := h
       simp_all [quietPc, setQueue, afterConnect]; done)
    | (simp only [Option.some.injEq, Prod.mk.injEq] at h; obtain ⟨rfl, rfl⟩ := h
       rcases ho with rfl | rfl <;> simp_all [quietPc, setQueue, afterConnect]; done)
    | (exfalso; have := hm t.q; simp_all; done)


theorem mem_queueOf_setQueue {s : St} {q q' : Nat} {l : List Bool} {x : Bool}
    (h : x ∈ queueOf (setQueue s q l) q') : x ∈ l ∨ x ∈ queueOf s q' := by
  simp only [queueOf, setQueue] at h ⊢
  rw [getElem?_updAt] at h
  by_cases hq : q' = q
  · subst hq
    simp only [if_true] at h
    cases hs : s.queues[q']? with
    | none => rw [hs] at h; simp at h
    | some l0 => rw [hs] at h; simp at h; exact Or.inl h
  · simp only [hq, if_false] at h
    exact Or.inr h

/-- the queues stay free of markers -/
theorem fp_quiet_queues {cfg : Cfg} {s s1 : St} {me o : Nat} {t t' : Th} (h : stepTh cfg s me t o = some (s1, t'))
    (hq : quietPc t = true) (hm : ∀ q, true ∉ queueOf s q) : ∀ q, true ∉ queueOf s1 q := by
  unfold stepTh at h
  cases hpc : t.pc <;> rw [hpc] at h <;> simp only at h <;> (repeat' split at h) <;>
    first
    | (cases h; done)
    | (simp [quietPc, hpc] at hq; done)
    | (simp only [Option.some.injEq, Prod.mk.injEq] at h; obtain ⟨rfl, rfl⟩ := h; exact hm)
    | (simp only [Option.some.injEq, Prod.mk.injEq] at h; obtain ⟨rfl, rfl⟩ := h
       intro q hx
       rcases mem_queueOf_setQueue hx with hx | hx
       · have := hm t.q; simp_all
       · exact hm q hx)


structure Quiet (s : St) : Prop where
  run : s.running = true
  io : s.io.isSome = true
  nomark : ∀ q, true ∉ queueOf s q
  th : ∀ (i : Nat) (t : Th), s.th[i]? = some t → quietPc t = true
  join : ∀ (i : Nat) (t : Th), s.th[i]? = some t → t.pc = .d5 →
    ∃ (x : Nat) (X : Th), t.w = some x ∧ s.th[x]? = some X ∧ X.pc ≠ .done

theorem quiet_step {cfg : Cfg} {s s' : St} {a : Act} (hq : Quiet s) (hi : internal a) (h : step cfg s a = some s') :
    Quiet s' ∧ ∀ (i : Nat) (t : Th), s.th[i]? = some t → t.pc = .d5 → ∃ t', s'.th[i]? = some t' ∧ t'.pc = .d5 := by
  cases a with
  | th me o =>
    obtain ⟨t, s1, t', ht, hst, rfl⟩ := step_th_inv h
    have hne5 : t.pc ≠ .d5 := by
      intro h5
      obtain ⟨x, X, hw, hX, hXd⟩ := hq.join me t ht h5
      unfold stepTh at hst
      rw [h5] at hst
      simp only [hw, isDone, hX] at hst
      simp [hXd] at hst
    obtain ⟨f1, f2, f3, f4, f5, f6, f7, f8⟩ := fp_quiet hst (hq.th me t ht) hi hq.run hq.io hq.nomark hne5
    have f9 := fp_quiet_queues hst (hq.th me t ht) hq.nomark
    have look : ∀ (i : Nat) (x : Th), (updAt s1.th me (fun _ => t'))[i]? = some x →
        (i = me ∧ x = t') ∨ (i ≠ me ∧ s.th[i]? = some x) := by
      intro i x hx
      rw [getElem?_updAt, f5] at hx
      by_cases him : i = me
      · left; subst him; rw [ht] at hx; simp at hx; exact ⟨rfl, hx.symm⟩
      · right; simp only [him, if_false] at hx; exact ⟨him, hx⟩
    have keep : ∀ (i : Nat) (x : Th), s.th[i]? = some x → i ≠ me → (updAt s1.th me (fun _ => t'))[i]? = some x := by
      intro i x hx him
      rw [getElem?_updAt, f5]; simp [him, hx]
    have atme : (updAt s1.th me (fun _ => t'))[me]? = some t' := by
      rw [getElem?_updAt, f5, ht]; simp
    refine ⟨⟨f3, by rw [f4]; exact hq.io, fun q => by simpa [queueOf] using f9 q, ?_, ?_⟩, ?_⟩
    · intro i x hx
      rcases look i x hx with ⟨_, rfl⟩ | ⟨_, hx⟩
      · exact f1
      · exact hq.th i x hx
    · intro i x hx h5
      rcases look i x hx with ⟨_, rfl⟩ | ⟨him, hx⟩
      · exact absurd h5 f8
      · obtain ⟨y, Y, hw, hY, hYd⟩ := hq.join i x hx h5
        by_cases hym : y = me
        · subst hym
          rw [ht] at hY; cases hY
          exact ⟨y, t', hw, atme, fun hd => hYd (f7 hd)⟩
        · exact ⟨y, Y, hw, keep y Y hY hym, hYd⟩
    · intro i x hx h5
      have him : i ≠ me := by
        intro e; subst e; rw [ht] at hx; cases hx; exact hne5 h5
      exact ⟨x, keep i x hx him, h5⟩
  | drop c => exact absurd hi (by simp [internal])
  | newDisc => exact absurd hi (by simp [internal])
  | newReq => exact absurd hi (by simp [internal])
  | put q => exact absurd hi (by simp [internal])

/-- in a quiet state a thread that waits in `txthread.join()` waits for ever, whatever the threads do -/
theorem quiet_forever {cfg : Cfg} {acts : List Act} {s s' : St} (hq : Quiet s) (hi : ∀ a ∈ acts, internal a)
    (h : run cfg s acts = some s') :
    Quiet s' ∧ ∀ (i : Nat) (t : Th), s.th[i]? = some t → t.pc = .d5 → ∃ t', s'.th[i]? = some t' ∧ t'.pc = .d5 := by
  induction acts generalizing s with
  | nil => simp [run] at h; subst h; exact ⟨hq, fun i t ht h5 => ⟨t, ht, h5⟩⟩
  | cons a r ih =>
    simp only [run] at h
    split at h
    · next s1 hs1 =>
      obtain ⟨hq1, k1⟩ := quiet_step hq (hi a (by simp)) hs1
      obtain ⟨hq2, k2⟩ := ih hq1 (fun b hb => hi b (by simp [hb])) h
      refine ⟨hq2, fun i t ht h5 => ?_⟩
      obtain ⟨t1, ht1, h51⟩ := k1 i t ht h5
      exact k2 i t1 ht1 h51
    · cases h

/-- checker for `Quiet` -/
def quietB (s : St) : Bool :=
  s.running && s.io.isSome && s.queues.all (fun l => !l.contains true) && s.th.all quietPc
  && s.th.all (fun t => t.pc != .d5 || (match t.w with
      | some x => (match s.th[x]? with | some X => X.pc != .done | none => false)
      | none => false))

theorem quiet_of_quietB {s : St} (h : quietB s = true) : Quiet s := by
  simp only [quietB, Bool.and_eq_true] at h
  obtain ⟨⟨⟨⟨h1, h2⟩, h3⟩, h4⟩, h5⟩ := h
  refine ⟨h1, h2, ?_, ?_, ?_⟩
  · intro q hm
    simp only [queueOf] at hm
    cases hs : s.queues[q]? with
    | none => rw [hs] at hm; simp at hm
    | some l =>
      rw [hs] at hm
      have := List.all_eq_true.1 h3 l (List.mem_of_getElem? hs)
      simp at hm this
      exact this hm
  · intro i t ht
    exact List.all_eq_true.1 h4 t (List.mem_of_getElem? ht)
  · intro i t ht h5'
    have := List.all_eq_true.1 h5 t (List.mem_of_getElem? ht)
    simp only [h5', bne_self_eq_false, Bool.false_or] at this
    cases hw : t.w with
    | none => simp [hw] at this
    | some x =>
      cases hX : s.th[x]? with
      | none => simp [hw, hX] at this
      | some X => simp [hw, hX] at this; exact ⟨x, X, rfl, hX, this⟩

end Frappy.Client.Reconnect
