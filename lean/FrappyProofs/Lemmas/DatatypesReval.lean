import FrappyProofs.Lemmas.DatatypesCall
/-
C01: "validating an already validated value returns it unchanged", from ONE property of the float carrier
(`SnapIdem`: snapping a value to the grid of a scaled type is idempotent) instead of the tree-dependent
hypothesis `GridExact` - by a mutual induction over what `validate` did, not over the value set.
-/
set_option linter.unusedSectionVars false
set_option linter.unusedVariables false
namespace Frappy.Lemmas.C01
open FloatOps DType Frappy.Datatypes Frappy.Spec.C01
open PVal (toFloat? seqItems? prevItems prevFields dictGet dictSet isNone given notOffered)

variable {F : Type} [FloatOps F] [LawfulFloatOps F]

/-- snapping to the grid is idempotent on the carrier: a finite value that came out of `snap` snaps to
itself (`round(y / scale) * scale = y` for every finite `y = round(x / scale) * scale`, `scale > 0`) -/
def SnapIdem (F : Type) [FloatOps F] : Prop :=
  ∀ scale x y : F, isFinite scale = true → DType.positive scale = true →
    snap scale x = some y → isFinite y = true → snap scale y = some y

/-- `r` is a fixed point of `validate`, without and with itself as `previous` -/
def Reval (dt : DType F) (r : PVal F) : Prop :=
  conv .validate dt r none = .ok r ∧ conv .validate dt r (some r) = .ok r

/-! ### the scaled leaf -/

/-- `ScaledInteger.__call__` is idempotent where snapping is -/
theorem scaledCall_reval (hs : SnapIdem F) {scale : F} (hfs : isFinite scale = true)
    (hp : DType.positive scale = true) {v : PVal F} {r : F} (h : scaledCall scale v = .ok r) :
    scaledCall scale (.float r) = .ok r := by
  obtain ⟨x, _, hsn, hf⟩ := scaledCall_snap h
  exact scaledCall_self (scaledCall_canon hp h) (hs scale x r hfs hp hsn hf) hf

theorem scaledValidate_fix {scale min max r lo hi : F} (hr : scaledCall scale (.float r) = .ok r)
    (hlo : scaledCall scale (.float min) = .ok lo) (hhi : scaledCall scale (.float max) = .ok hi)
    (h1 : le lo r = true) (h2 : le r hi = true) : scaledValidate scale min max (.float r) = .ok r := by
  unfold scaledValidate
  rw [hr, hlo, hhi]
  simp only [h1, h2, Bool.and_self, ↓reduceIte]

/-- what `ScaledInteger.validate` returned - the grid value of the offer, or a limit's grid value it was
clamped to - is returned unchanged -/
theorem scaledValidate_reval (hs : SnapIdem F) {scale min max ar rr : F}
    (hwf : (DType.scaled scale min max ar rr).WF) {v : PVal F} {r : F}
    (h : scaledValidate scale min max v = .ok r) : scaledValidate scale min max (.float r) = .ok r := by
  have hwf' := hwf
  simp only [DType.WF] at hwf'
  obtain ⟨hfs, hp, _, _, hle, hcmin, hcmax, _⟩ := hwf'
  obtain ⟨result, lo, hi, x, hres, hlo, hhi, hx, hcase⟩ := scaledValidate_ok h
  obtain ⟨slo, dlo⟩ := scaledCall_limit hcmin hlo
  obtain ⟨shi, dhi⟩ := scaledCall_limit hcmax hhi
  have hlohi := snap_mono hfs hp hle dlo dhi
  obtain ⟨_, _, _, _, _, _, _, flo⟩ := scaledCall_ok hlo
  obtain ⟨_, _, _, _, _, _, _, fhi⟩ := scaledCall_ok hhi
  obtain ⟨_, _, _, _, _, _, _, fres⟩ := scaledCall_ok hres
  have nlo := notNaN_of_finite flo
  have nhi := notNaN_of_finite fhi
  have nres := notNaN_of_finite fres
  rcases hcase with ⟨h1, h2, hr⟩ | ⟨_, _, _, hr⟩
  · rw [hr]
    exact scaledValidate_fix (scaledCall_reval hs hfs hp hres) hlo hhi h1 h2
  · have hb := median3_between nlo nres nhi hlohi
    rw [hr]
    rcases median3_mem lo result hi with e | e | e
    · rw [e] at hb ⊢
      exact scaledValidate_fix (scaledCall_reval hs hfs hp hlo) hlo hhi hb.1 hb.2
    · rw [e] at hb ⊢
      exact scaledValidate_fix (scaledCall_reval hs hfs hp hres) hlo hhi hb.1 hb.2
    · rw [e] at hb ⊢
      exact scaledValidate_fix (scaledCall_reval hs hfs hp hhi) hlo hhi hb.1 hb.2

/-! ### the mutual induction over what `validate` did -/

mutual
theorem conv_reval (hs : SnapIdem F) : ∀ (dt : DType F) (v : PVal F) (prev : Option (PVal F)) (r : PVal F),
    dt.WF → PrevOK dt prev → conv .validate dt v prev = .ok r → Reval dt r
  | .double min max ar rr, v, prev, r, hwf, hp, h =>
    conv_idem _ r hwf (by simp only [GridExact]) (conv_sound _ v prev r hwf hp h) (conv_canon _ v prev r hwf h)
  | .int min max, v, prev, r, hwf, hp, h =>
    conv_idem _ r hwf (by simp only [GridExact]) (conv_sound _ v prev r hwf hp h) (conv_canon _ v prev r hwf h)
  | .bool, v, prev, r, hwf, hp, h =>
    conv_idem _ r hwf (by simp only [GridExact]) (conv_sound _ v prev r hwf hp h) (conv_canon _ v prev r hwf h)
  | .enum ms, v, prev, r, hwf, hp, h =>
    conv_idem _ r hwf (by simp only [GridExact]) (conv_sound _ v prev r hwf hp h) (conv_canon _ v prev r hwf h)
  | .string minc maxc utf8, v, prev, r, hwf, hp, h =>
    conv_idem _ r hwf (by simp only [GridExact]) (conv_sound _ v prev r hwf hp h) (conv_canon _ v prev r hwf h)
  | .blob minb maxb, v, prev, r, hwf, hp, h =>
    conv_idem _ r hwf (by simp only [GridExact]) (conv_sound _ v prev r hwf hp h) (conv_canon _ v prev r hwf h)
  | .scaled scale min max ar rr, v, prev, r, hwf, hp, h => by
    simp only [conv] at h
    obtain ⟨x, hx, hr⟩ := map_ok h
    have := scaledValidate_reval hs hwf hx
    rw [hr]
    simp [Reval, conv, this, Except.map]
  | .array elem lo hi, v, prev, r, hwf, hp, h => by
    simp only [conv] at h
    simp only [DType.WF] at hwf
    split at h
    · cases h
    · rename_i vs hvs
      split at h
      · cases h
      · rename_i hge
        split at h
        · cases h
        · rename_i hle
          obtain ⟨rs, hrs, hr⟩ := map_ok h
          have hrs := mapErr_ok hrs
          obtain ⟨h1, h2⟩ := mapPrev_ok (P := Reval elem) (Q := Shaped elem)
            (fun v p r hq h => conv_reval hs elem v p r hwf.1 hq h) vs _ rs (prevItems_shaped hp) hrs
          obtain ⟨m1, m2⟩ := mapPrev_id (f := conv .validate elem) rs (fun v hv => h1 v hv)
          rw [hr]
          constructor
          · simp only [conv, seqItems?, prevItems]
            rw [if_neg (by omega), if_neg (by omega), m1]
            rfl
          · simp only [conv, seqItems?, prevItems]
            rw [if_neg (by omega), if_neg (by omega), m2]
            rfl
  | .tuple elems, v, prev, r, hwf, hp, h => by
    simp only [DType.WF] at hwf
    cases prev with
    | some p =>
      simp only [conv] at h
      split at h
      · cases h
      · rename_i vs hvs
        split at h
        · cases h
        · rename_i hlen
          have hlen' : vs.length = elems.length := by simpa using hlen
          split at h
          · cases h
          · rename_i ps hps
            obtain ⟨rs, hrs, hr⟩ := map_ok h
            have hrs := mapErr_ok hrs
            have hq := hp p rfl
            have hzip : ZipShaped elems ps := by
              simp only [Shaped, hps] at hq
              exact hq
            obtain ⟨l, t1, t2⟩ := convTuple_reval hs elems vs (some ps) rs hwf.2 hlen'
              (fun l hl => by injection hl with hl; rw [← hl]; exact hzip) hrs
            rw [hr]
            constructor
            · simp only [conv, seqItems?]
              rw [if_neg (by simpa using l), t1]
              rfl
            · simp only [conv, seqItems?]
              rw [if_neg (by simpa using l), t2]
              rfl
    | none =>
      simp only [conv] at h
      split at h
      · cases h
      · rename_i vs hvs
        split at h
        · cases h
        · rename_i hlen
          have hlen' : vs.length = elems.length := by simpa using hlen
          obtain ⟨rs, hrs, hr⟩ := map_ok h
          have hrs := mapErr_ok hrs
          obtain ⟨l, t1, t2⟩ := convTuple_reval hs elems vs none rs hwf.2 hlen' (fun l hl => by cases hl) hrs
          rw [hr]
          constructor
          · simp only [conv, seqItems?]
            rw [if_neg (by simpa using l), t1]
            rfl
          · simp only [conv, seqItems?]
            rw [if_neg (by simpa using l), t2]
            rfl
  | .struct ms opt cl, v, prev, r, hwf, hp, h => by
    have hin := conv_sound _ v prev r hwf hp h
    simp only [conv] at h
    simp only [DType.WF] at hwf
    split at h
    · rename_i items
      split at h
      · obtain ⟨acc, hacc, hr⟩ := map_ok h
        have hacc := mapErr_ok hacc
        obtain ⟨acc0, h0, h1'⟩ := structFold_ok hacc
        have hf : ∀ k v r, convMember .validate ms k v = some (.ok r) → convMember .validate ms k r = some (.ok r) :=
          fun k v r hkv => convMember_reval hs ms k v r hwf.2.2.2 hkv
        obtain ⟨a0, _, _⟩ := foldFields_ok (M := fun k x => convMember .validate ms k x = some (.ok x)) hf _ _ acc0 h0
        obtain ⟨a, _, _⟩ := foldFields_ok (M := fun k x => convMember .validate ms k x = some (.ok x)) hf items _ acc h1'
        have hfix : ∀ kv ∈ acc, convMember .validate ms kv.1 kv.2 = some (.ok kv.2) :=
          a (a0 (by intro kv hkv; cases hkv))
        subst hr
        simp only [InSet, InSetG] at hin
        obtain ⟨i1, i2, i3⟩ := hin
        have hnone : ∀ kv ∈ acc, isNone kv.2 = false := fun kv hkv => memberIn_notNone ms kv.1 kv.2 (i1 kv hkv)
        have hcheck := structCheck_inSet i1 i3 hnone
        have hff : ∀ kv ∈ acc, isNone kv.2 = false ∧ convMember .validate ms kv.1 kv.2 = some (.ok kv.2) :=
          fun kv hkv => ⟨hnone kv hkv, hfix kv hkv⟩
        have f1 := foldFields_id_none (f := convMember .validate ms) acc [] hff (by simpa using i2)
        have e1 : notOffered acc ([] : List (String × PVal F)) = [] := rfl
        have e2 := notOffered_self acc hnone
        constructor
        · simp only [conv, beq_self_eq_true, Bool.or_true, hcheck, ↓reduceIte, prevFields, e1, structFold, foldFields, f1]
          rfl
        · simp only [conv, beq_self_eq_true, Bool.or_true, hcheck, ↓reduceIte, prevFields, e2, structFold, foldFields, f1]
          rfl
      · cases h
    · cases h
theorem convTuple_reval (hs : SnapIdem F) : ∀ (ts : List (DType F)) (vs : List (PVal F)) (ps : Option (List (PVal F)))
    (rs : List (PVal F)), WFList ts → vs.length = ts.length → (∀ l, ps = some l → ZipShaped ts l) →
    convTuple .validate ts vs ps = .ok rs →
    rs.length = ts.length ∧ convTuple .validate ts rs none = .ok rs ∧ convTuple .validate ts rs (some rs) = .ok rs
  | [], vs, ps, rs, _, _, _, h => by
    simp only [convTuple] at h
    injection h with h
    subst h
    simp [convTuple]
  | t :: ts, [], ps, rs, _, hlen, _, h => by simp at hlen
  | t :: ts, v :: vs, some [], rs, _, _, hps, h => by
    have := hps [] rfl
    simp only [ZipShaped] at this
  | t :: ts, v :: vs, some (p :: ps), rs, hwf, hlen, hps, h => by
    simp only [convTuple] at h
    simp only [WFList] at hwf
    have hz := hps _ rfl
    simp only [ZipShaped] at hz
    split at h
    · cases h
    · rename_i r hr
      split at h
      · cases h
      · rename_i rs' hrs
        injection h with h
        subst h
        obtain ⟨a, b⟩ := conv_reval hs t v (some p) r hwf.1 (fun q hq => by injection hq with hq; rw [← hq]; exact hz.1) hr
        obtain ⟨l, c, d⟩ := convTuple_reval hs ts vs (some ps) rs' hwf.2 (by simpa using hlen)
          (fun l hl => by injection hl with hl; rw [← hl]; exact hz.2) hrs
        refine ⟨by simp [l], ?_, ?_⟩
        · simp only [convTuple, a, c]
        · simp only [convTuple, b, d]
  | t :: ts, v :: vs, none, rs, hwf, hlen, hps, h => by
    simp only [convTuple] at h
    simp only [WFList] at hwf
    split at h
    · cases h
    · rename_i r hr
      split at h
      · cases h
      · rename_i rs' hrs
        injection h with h
        subst h
        obtain ⟨a, b⟩ := conv_reval hs t v none r hwf.1 (fun q hq => by cases hq) hr
        obtain ⟨l, c, d⟩ := convTuple_reval hs ts vs none rs' hwf.2 (by simpa using hlen) (fun l hl => by cases hl) hrs
        refine ⟨by simp [l], ?_, ?_⟩
        · simp only [convTuple, a, c]
        · simp only [convTuple, b, d]
theorem convMember_reval (hs : SnapIdem F) : ∀ (ms : List (String × DType F)) (k : String) (v r : PVal F),
    WFFields ms → convMember .validate ms k v = some (.ok r) → convMember .validate ms k r = some (.ok r)
  | [], k, v, r, _, h => by simp [convMember] at h
  | (k0, t) :: rest, k, v, r, hwf, h => by
    simp only [convMember] at h ⊢
    simp only [WFFields] at hwf
    split at h
    · rename_i hk
      rw [if_pos hk]
      injection h with h
      rw [(conv_reval hs t v none r hwf.1 (fun q hq => by cases hq) h).1]
    · rename_i hk
      rw [if_neg hk]
      exact convMember_reval hs rest k v r hwf.2 h
end

/-! ### `SnapIdem` gives the per-tree hypothesis `GridAll` of `call_idem` -/

mutual
theorem gridAll_of_snapIdem (hs : SnapIdem F) : ∀ (dt : DType F), dt.WF → GridAll dt
  | .scaled scale min max ar rr, hwf => by
    simp only [DType.WF] at hwf
    simp only [GridAll]
    exact fun x y h hf => hs scale x y hwf.1 hwf.2.1 h hf
  | .array elem _ _, hwf => by
    simp only [DType.WF] at hwf
    simp only [GridAll]
    exact gridAll_of_snapIdem hs elem hwf.1
  | .tuple elems, hwf => by
    simp only [DType.WF] at hwf
    simp only [GridAll]
    exact gridAllList_of_snapIdem hs elems hwf.2
  | .struct ms _ _, hwf => by
    simp only [DType.WF] at hwf
    simp only [GridAll]
    exact gridAllFields_of_snapIdem hs ms hwf.2.2.2
  | .double .., _ => by simp only [GridAll]
  | .int .., _ => by simp only [GridAll]
  | .bool, _ => by simp only [GridAll]
  | .enum .., _ => by simp only [GridAll]
  | .string .., _ => by simp only [GridAll]
  | .blob .., _ => by simp only [GridAll]
theorem gridAllList_of_snapIdem (hs : SnapIdem F) : ∀ (ts : List (DType F)), WFList ts → GridAllList ts
  | [], _ => by simp only [GridAllList]
  | t :: ts, hwf => by
    simp only [WFList] at hwf
    simp only [GridAllList]
    exact ⟨gridAll_of_snapIdem hs t hwf.1, gridAllList_of_snapIdem hs ts hwf.2⟩
theorem gridAllFields_of_snapIdem (hs : SnapIdem F) : ∀ (ms : List (String × DType F)), WFFields ms → GridAllFields ms
  | [], _ => by simp only [GridAllFields]
  | (k, t) :: rest, hwf => by
    simp only [WFFields] at hwf
    simp only [GridAllFields]
    exact ⟨gridAll_of_snapIdem hs t hwf.1, gridAllFields_of_snapIdem hs rest hwf.2⟩
end

end Frappy.Lemmas.C01
