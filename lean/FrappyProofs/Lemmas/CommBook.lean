import FrappyProofs.Lemmas.CommDelay
/- helper lemmas for C16: the call a caller is in, and its sends, read off the log -/
open Frappy.Spec.C16
namespace Frappy.Comm

@[simp] theorem failTo_reqs0 (k : Caller) : (failTo k).reqs0 = k.reqs0 := rfl
@[simp] theorem failTo_sendT (k : Caller) : (failTo k).sendT = k.sendT := rfl
@[simp] theorem nextReq_reqs0 (k : Caller) : (nextReq k).reqs0 = k.reqs0 := by unfold nextReq; split <;> rfl
@[simp] theorem nextReq_sendT (k : Caller) : (nextReq k).sendT = k.sendT := by unfold nextReq; split <;> rfl
@[simp] theorem afterConnected_reqs0 (s : State) (k : Caller) : (afterConnected s k).reqs0 = k.reqs0 := by
  unfold afterConnected; split <;> split <;> (try split) <;> simp
@[simp] theorem afterConnected_sendT (s : State) (k : Caller) : (afterConnected s k).sendT = k.sendT := by
  unfold afterConnected; split <;> split <;> (try split) <;> simp
@[simp] theorem toFlush_reqs0 (s : State) (k : Caller) : (toFlush s k).reqs0 = k.reqs0 := by unfold toFlush; split <;> simp
@[simp] theorem toFlush_sendT (s : State) (k : Caller) : (toFlush s k).sendT = k.sendT := by unfold toFlush; split <;> simp
@[simp] theorem rcFail_reqs0 (k : Caller) : (rcFail k).reqs0 = k.reqs0 := by unfold rcFail; split <;> simp
@[simp] theorem rcFail_sendT (k : Caller) : (rcFail k).sendT = k.sendT := by unfold rcFail; split <;> simp
@[simp] theorem afterIdent_reqs0 (s : State) (k : Caller) : (afterIdent s k).reqs0 = k.reqs0 := by
  unfold afterIdent; split <;> (try split) <;> simp
@[simp] theorem afterIdent_sendT (s : State) (k : Caller) : (afterIdent s k).sendT = k.sendT := by
  unfold afterIdent; split <;> (try split) <;> simp
@[simp] theorem startIdent_reqs0 (s : State) (k : Caller) : (startIdent s k).reqs0 = k.reqs0 := by
  unfold startIdent; split <;> simp
@[simp] theorem startIdent_sendT (s : State) (k : Caller) : (startIdent s k).sendT = k.sendT := by
  unfold startIdent; split <;> simp
@[simp] theorem idNext_reqs0 (cfg : Cfg) (k : Caller) : (idNext cfg k).reqs0 = k.reqs0 := by
  unfold idNext; split <;> (try split) <;> (try split) <;> simp
@[simp] theorem idNext_sendT (cfg : Cfg) (k : Caller) : (idNext cfg k).sendT = k.sendT := by
  unfold idNext; split <;> (try split) <;> (try split) <;> simp
@[simp] theorem toIdFlush_reqs0 (s : State) (k : Caller) : (toIdFlush s k).reqs0 = k.reqs0 := by unfold toIdFlush; split <;> simp
@[simp] theorem toIdFlush_sendT (s : State) (k : Caller) : (toIdFlush s k).sendT = k.sendT := by unfold toIdFlush; split <;> simp
@[simp] theorem toIdEndFail_reqs0 (k : Caller) : (toIdEndFail k).reqs0 = k.reqs0 := rfl
@[simp] theorem toIdEndFail_sendT (k : Caller) : (toIdEndFail k).sendT = k.sendT := rfl
@[simp] theorem failTo_ne_idle (k : Caller) : (failTo k).pc ≠ .idle := by rcases failTo_pc2 k with h | h <;> simp [h]
@[simp] theorem nextReq_ne_idle (k : Caller) : (nextReq k).pc ≠ .idle := by
  rcases nextReq_pc_cases k with h | h | h <;> simp [h]
@[simp] theorem afterConnected_ne_idle (s : State) (k : Caller) : (afterConnected s k).pc ≠ .idle := by
  unfold afterConnected; split <;> split <;> (try split) <;> simp
@[simp] theorem toFlush_ne_idle (s : State) (k : Caller) : (toFlush s k).pc ≠ .idle := by
  rcases toFlush_pc_cases s k with h | h | h <;> simp [h]
@[simp] theorem rcFail_ne_idle (k : Caller) : (rcFail k).pc ≠ .idle := by unfold rcFail; split <;> simp
@[simp] theorem afterIdent_ne_idle (s : State) (k : Caller) : (afterIdent s k).pc ≠ .idle := by
  unfold afterIdent; split <;> (try split) <;> simp
@[simp] theorem startIdent_ne_idle (s : State) (k : Caller) : (startIdent s k).pc ≠ .idle := by
  unfold startIdent; split <;> simp
@[simp] theorem idNext_ne_idle (cfg : Cfg) (k : Caller) : (idNext cfg k).pc ≠ .idle := by
  unfold idNext; split <;> (try split) <;> (try split) <;> simp
@[simp] theorem toIdFlush_ne_idle (s : State) (k : Caller) : (toIdFlush s k).pc ≠ .idle := by unfold toIdFlush; split <;> simp
@[simp] theorem toIdEndFail_ne_idle (k : Caller) : (toIdEndFail k).pc ≠ .idle := by simp [toIdEndFail]

theorem step_call_facts (s s' : State) (t c x : Nat) (kd : Kind) (rq : List Req)
    (h : stepCaller s t c (.call x kd rq) = some s') :
    (s.callers c).pc = .idle ∧ (s'.callers c).kind = kd ∧ (s'.callers c).reqs0 = rq ∧ (s'.callers c).sent = 0 ∧
      (s'.callers c).pc ≠ .idle := by
  cases hpc : (s.callers c).pc <;> simp only [stepCaller, hpc] at h <;> try (simp at h)
  obtain ⟨_, rfl⟩ := h
  refine ⟨rfl, ?_⟩
  cases kd <;> simp

theorem step_idle_only_call (s s' : State) (t c : Nat) (e : Ev) (h : stepCaller s t c e = some s')
    (hp : (s.callers c).pc = .idle) : ∃ x kd rq, e = .call x kd rq := by
  cases e <;> simp only [stepCaller, hp] at h <;> try (simp at h)
  exact ⟨_, _, _, rfl⟩

set_option maxHeartbeats 16000000 in
theorem step_nonidle (s s' : State) (t c : Nat) (e : Ev) (h : stepCaller s t c e = some s')
    (hp : (s.callers c).pc ≠ .idle) (hr : ∀ x r, e ≠ .ret x r) :
    (s'.callers c).pc ≠ .idle ∧ (s'.callers c).kind = (s.callers c).kind ∧ (s'.callers c).reqs0 = (s.callers c).reqs0 ∧
    (((∃ x a b d, e = .send x a b d) ∧ (s'.callers c).sent = (s.callers c).sent + 1 ∧ (s'.callers c).sendT = t) ∨
     ((∀ x a b d, e ≠ .send x a b d) ∧ (s'.callers c).sent = (s.callers c).sent ∧ (s'.callers c).sendT = (s.callers c).sendT)) := by
  step_arms
  all_goals (try (simp only [setC_same]))
  all_goals (first
    | (exfalso; exact hp hpc)
    | (exfalso; exact hp rfl)
    | (exfalso; exact hr _ _ rfl)
    | (refine ⟨?_, ?_, ?_, Or.inr ⟨?_, ?_, ?_⟩⟩ <;> (first | (simp; done) | (simp [hpc]; done) | (exact hp)))
    | (refine ⟨?_, ?_, ?_, Or.inl ⟨⟨_, _, _, _, rfl⟩, ?_, ?_⟩⟩ <;> (simp; done))
    | (split <;> (refine ⟨?_, ?_, ?_, Or.inr ⟨?_, ?_, ?_⟩⟩ <;> (first | (simp; done) | (simp [hpc]; done) | (exact hp))))
    | skip)


/-! ### `sendsIn` under extension of the log -/

theorem filter_congr' {α : Type} {l : List α} {p q : α → Bool} (h : ∀ a ∈ l, p a = q a) : l.filter p = l.filter q := by
  induction l with
  | nil => rfl
  | cons a l ih =>
    simp only [List.filter_cons]
    rw [h a (by simp), ih (fun b hb => h b (by simp [hb]))]

theorem sendsIn_append_le (log : Log) (e : TEv) (c a b : Nat) (h : b ≤ log.length) :
    sendsIn (log ++ [e]) c a b = sendsIn log c a b := by
  unfold sendsIn
  apply filter_congr'
  intro m hm
  simp only [List.mem_range] at hm
  rw [sendAt_append_lt log e m (by omega)]

theorem sendsIn_succ (log : Log) (c a n : Nat) :
    sendsIn log c a (n + 1) = sendsIn log c a n ++ (if a < n ∧ sendAt log n = some c then [n] else []) := by
  unfold sendsIn
  rw [List.range_succ, List.filter_append]
  congr 1
  by_cases h : a < n ∧ sendAt log n = some c
  · simp [h]
  · simp only [h, if_false]
    simp only [List.filter_cons, List.filter_nil]
    split
    · next hc =>
      exfalso; apply h
      simp only [Bool.and_eq_true, decide_eq_true_eq, beq_iff_eq] at hc
      exact hc
    · rfl

theorem sendsIn_take (log : Log) (c a q : Nat) : sendsIn (log.take q) c a q = sendsIn log c a q := by
  unfold sendsIn
  apply filter_congr'
  intro m hm
  simp only [List.mem_range] at hm
  rw [sendAt_take log q m hm]

/-- sends of `c` in (a, q) when p is the last of them -/
theorem sendsIn_last (log : Log) (c a p : Nat) (hap : a < p) (hp : sendAt log p = some c) :
    ∀ d, (∀ m, p < m → m < p + 1 + d → sendAt log m ≠ some c) →
      sendsIn log c a (p + 1 + d) = sendsIn log c a p ++ [p]
  | 0, _ => by rw [Nat.add_zero, sendsIn_succ]; simp [hap, hp]
  | d + 1, h => by
    have ih := sendsIn_last log c a p hap hp d (fun m h1 h2 => h m h1 (by omega))
    rw [← Nat.add_assoc, sendsIn_succ, ih]
    have := h (p + 1 + d) (by omega) (by omega)
    simp [this]

/-! ### which call a caller is in -/

def isCallOf (c : Nat) : Option Ev → Bool
  | some (.call c' _ _) => c' == c
  | _ => false

structure LInv (log : Log) (s : State) : Prop where
  l0 : ∀ c, (s.callers c).pc = .idle → ∀ a, isCallOf c (evAt log a) = true → ¬ NoRetAfter log c a
  l1 : ∀ c, (s.callers c).pc ≠ .idle → ∃ a, a < log.length ∧
        evAt log a = some (.call c (s.callers c).kind (s.callers c).reqs0) ∧ NoRetAfter log c a ∧
        (∀ a2, isCallOf c (evAt log a2) = true → NoRetAfter log c a2 → a2 = a) ∧
        (s.callers c).sent = (sendsIn log c a log.length).length ∧
        (1 ≤ (s.callers c).sent → ∃ p, a < p ∧ p < log.length ∧ sendAt log p = some c ∧
          (∀ m, p < m → m < log.length → sendAt log m ≠ some c) ∧ timeAt log p = (s.callers c).sendT)

theorem noRetAfter_extend {log : Log} {e : TEv} {c a : Nat} (h : NoRetAfter log c a) (he : isRetOf c (some e.ev) = false) :
    NoRetAfter (log ++ [e]) c a := by
  intro m h1 h2
  simp only [List.length_append, List.length_singleton] at h2
  rcases Nat.lt_or_ge m log.length with hm | hm
  · rw [evAt_append_lt log e m hm]; exact h m h1 hm
  · have : m = log.length := by omega
    subst this; rw [evAt_append_eq]; exact he

theorem isCallOf_lt {log : Log} {c a : Nat} (h : isCallOf c (evAt log a) = true) : a < log.length := by
  false_or_by_contra; rename_i hn
  rw [evAt_none log a (by omega)] at h; simp [isCallOf] at h

/-- an event that is neither a call, a return nor a send of `c`, and leaves `c`'s bookkeeping alone -/
theorem linv_keep {log : Log} {e : TEv} {k k' : Caller} (c : Nat)
    (hcall : isCallOf c (some e.ev) = false) (hret : isRetOf c (some e.ev) = false)
    (hsend : sendAt (log ++ [e]) log.length ≠ some c)
    (hkind : k'.kind = k.kind) (hreq : k'.reqs0 = k.reqs0) (hsent : k'.sent = k.sent) (hT : k'.sendT = k.sendT)
    (hold : ∃ a, a < log.length ∧ evAt log a = some (.call c k.kind k.reqs0) ∧ NoRetAfter log c a ∧
        (∀ a2, isCallOf c (evAt log a2) = true → NoRetAfter log c a2 → a2 = a) ∧
        k.sent = (sendsIn log c a log.length).length ∧
        (1 ≤ k.sent → ∃ p, a < p ∧ p < log.length ∧ sendAt log p = some c ∧
          (∀ m, p < m → m < log.length → sendAt log m ≠ some c) ∧ timeAt log p = k.sendT)) :
    ∃ a, a < (log ++ [e]).length ∧ evAt (log ++ [e]) a = some (.call c k'.kind k'.reqs0) ∧ NoRetAfter (log ++ [e]) c a ∧
        (∀ a2, isCallOf c (evAt (log ++ [e]) a2) = true → NoRetAfter (log ++ [e]) c a2 → a2 = a) ∧
        k'.sent = (sendsIn (log ++ [e]) c a (log ++ [e]).length).length ∧
        (1 ≤ k'.sent → ∃ p, a < p ∧ p < (log ++ [e]).length ∧ sendAt (log ++ [e]) p = some c ∧
          (∀ m, p < m → m < (log ++ [e]).length → sendAt (log ++ [e]) m ≠ some c) ∧ timeAt (log ++ [e]) p = k'.sendT) := by
  obtain ⟨a, hal, hev, hnr, huniq, hcnt, hlast⟩ := hold
  have hlen : (log ++ [e]).length = log.length + 1 := by simp
  refine ⟨a, by omega, by rw [evAt_append_lt log e a hal, hkind, hreq]; exact hev, noRetAfter_extend hnr hret, ?_, ?_, ?_⟩
  · intro a2 hc2 hn2
    have h2l := isCallOf_lt hc2
    rw [hlen] at h2l
    rcases Nat.lt_or_ge a2 log.length with h | h
    · rw [evAt_append_lt log e a2 h] at hc2
      exact huniq a2 hc2 (noRetAfter_restrict hn2)
    · have : a2 = log.length := by omega
      subst this; rw [evAt_append_eq, hcall] at hc2; simp at hc2
  · rw [hsent, hcnt, hlen, sendsIn_succ, sendsIn_append_le log e c a log.length (Nat.le_refl _)]
    have : ¬ (a < log.length ∧ sendAt (log ++ [e]) log.length = some c) := fun h => hsend h.2
    simp [this]
  · intro h1
    rw [hsent] at h1
    obtain ⟨p, hap, hpl, hps, hpno, hpt⟩ := hlast h1
    refine ⟨p, hap, by omega, by rw [sendAt_append_lt log e p hpl]; exact hps, ?_, by rw [timeAt_append_lt log e p hpl, hT]; exact hpt⟩
    intro m h1' h2'
    rw [hlen] at h2'
    rcases Nat.lt_or_ge m log.length with h | h
    · rw [sendAt_append_lt log e m h]; exact hpno m h1' h
    · have : m = log.length := by omega
      subst this; exact hsend


theorem sendsIn_empty (log : Log) (c a b : Nat) (h : b ≤ a + 1) : sendsIn log c a b = [] := by
  unfold sendsIn
  apply List.filter_eq_nil_iff.2
  intro m hm
  simp only [List.mem_range] at hm
  simp; intro h1; omega

theorem who_call {e : Ev} {c0 c : Nat} (hw : e.who = some c0) (h : isCallOf c (some e) = true) : c = c0 := by
  cases e <;> simp [isCallOf] at h
  simp [Ev.who] at hw; omega

theorem who_ret {e : Ev} {c0 c : Nat} (hw : e.who = some c0) (h : isRetOf c (some e) = true) : c = c0 := by
  cases e <;> simp [isRetOf] at h
  simp [Ev.who] at hw; omega

theorem who_send {log : Log} {e : TEv} {c0 c : Nat} (hw : e.ev.who = some c0)
    (h : sendAt (log ++ [e]) log.length = some c) : c = c0 := by
  simp only [sendAt, evAt_append_eq] at h
  cases hev : e.ev <;> simp only [hev] at h <;> try (simp at h)
  rw [hev] at hw; simp [Ev.who] at hw; omega

theorem linv_other {log : Log} {s s' : State} (e : TEv) (hl : LInv log s) (c : Nat)
    (hsame : s'.callers c = s.callers c)
    (hcall : isCallOf c (some e.ev) = false) (hret : isRetOf c (some e.ev) = false)
    (hsend : sendAt (log ++ [e]) log.length ≠ some c) :
    ((s'.callers c).pc = .idle → ∀ a, isCallOf c (evAt (log ++ [e]) a) = true → ¬ NoRetAfter (log ++ [e]) c a) ∧
    ((s'.callers c).pc ≠ .idle → ∃ a, a < (log ++ [e]).length ∧
        evAt (log ++ [e]) a = some (.call c (s'.callers c).kind (s'.callers c).reqs0) ∧ NoRetAfter (log ++ [e]) c a ∧
        (∀ a2, isCallOf c (evAt (log ++ [e]) a2) = true → NoRetAfter (log ++ [e]) c a2 → a2 = a) ∧
        (s'.callers c).sent = (sendsIn (log ++ [e]) c a (log ++ [e]).length).length ∧
        (1 ≤ (s'.callers c).sent → ∃ p, a < p ∧ p < (log ++ [e]).length ∧ sendAt (log ++ [e]) p = some c ∧
          (∀ m, p < m → m < (log ++ [e]).length → sendAt (log ++ [e]) m ≠ some c) ∧
          timeAt (log ++ [e]) p = (s'.callers c).sendT)) := by
  rw [hsame]
  refine ⟨fun hp a hc hn => ?_, fun hp => linv_keep c hcall hret hsend rfl rfl rfl rfl (hl.l1 c hp)⟩
  have hal := isCallOf_lt hc
  simp only [List.length_append, List.length_singleton] at hal
  rcases Nat.lt_or_ge a log.length with h | h
  · rw [evAt_append_lt log e a h] at hc
    exact hl.l0 c hp a hc (noRetAfter_restrict hn)
  · have : a = log.length := by omega
    subst this; rw [evAt_append_eq, hcall] at hc; simp at hc

theorem linv_step {log : Log} {s s' : State} (e : TEv) (hl : LInv log s) (h : step s e = some s') :
    LInv (log ++ [e]) s' := by
  have hlen : (log ++ [e]).length = log.length + 1 := by simp
  -- per caller
  suffices hall : ∀ c,
      ((s'.callers c).pc = .idle → ∀ a, isCallOf c (evAt (log ++ [e]) a) = true → ¬ NoRetAfter (log ++ [e]) c a) ∧
      ((s'.callers c).pc ≠ .idle → ∃ a, a < (log ++ [e]).length ∧
        evAt (log ++ [e]) a = some (.call c (s'.callers c).kind (s'.callers c).reqs0) ∧ NoRetAfter (log ++ [e]) c a ∧
        (∀ a2, isCallOf c (evAt (log ++ [e]) a2) = true → NoRetAfter (log ++ [e]) c a2 → a2 = a) ∧
        (s'.callers c).sent = (sendsIn (log ++ [e]) c a (log ++ [e]).length).length ∧
        (1 ≤ (s'.callers c).sent → ∃ p, a < p ∧ p < (log ++ [e]).length ∧ sendAt (log ++ [e]) p = some c ∧
          (∀ m, p < m → m < (log ++ [e]).length → sendAt (log ++ [e]) m ≠ some c) ∧
          timeAt (log ++ [e]) p = (s'.callers c).sendT)) from
    ⟨fun c => (hall c).1, fun c => (hall c).2⟩
  intro c
  cases hwho : e.ev.who with
  | none =>
    have hcal := (step_env_callers hwho h).1
    refine linv_other e hl c (by rw [hcal]) ?_ ?_ ?_
    · cases hev : e.ev <;> simp only [isCallOf] <;> try rfl
      rw [hev] at hwho; simp [Ev.who] at hwho
    · cases hev : e.ev <;> simp only [isRetOf] <;> try rfl
      rw [hev] at hwho; simp [Ev.who] at hwho
    · rw [sendAt_last_not_send (by intro x a b d hc; rw [hc] at hwho; simp [Ev.who] at hwho)]; simp
  | some c0 =>
    rw [step_caller_form s e c0 hwho] at h
    split at h
    · simp at h
    · by_cases hcc : c = c0
      · subst hcc
        by_cases hidle : (s.callers c).pc = .idle
        · -- a call starts
          obtain ⟨x, kd, rq, hev⟩ := step_idle_only_call _ s' e.t c e.ev h hidle
          have hx : x = c := by rw [hev] at hwho; simpa [Ev.who] using hwho
          subst hx
          rw [hev] at h
          obtain ⟨_, hk, hrq, hs0, hne⟩ := step_call_facts _ s' e.t x x kd rq h
          refine ⟨fun hp => absurd hp hne, fun _ => ?_⟩
          refine ⟨log.length, by omega, by rw [evAt_append_eq, hev, hk, hrq], ?_, ?_, ?_, ?_⟩
          · intro m h1 h2; rw [hlen] at h2; omega
          · intro a2 hc2 hn2
            have h2l := isCallOf_lt hc2
            rw [hlen] at h2l
            rcases Nat.lt_or_ge a2 log.length with hlt | hge
            · rw [evAt_append_lt log e a2 hlt] at hc2
              exact absurd (noRetAfter_restrict hn2) (hl.l0 x hidle a2 hc2)
            · omega
          · rw [hs0, hlen, sendsIn_empty _ _ _ _ (Nat.le_refl _)]; rfl
          · intro h1; rw [hs0] at h1; omega
        · by_cases hret : ∃ x r, e.ev = .ret x r
          · -- the call returns
            obtain ⟨x, r, hev⟩ := hret
            have hx : x = c := by rw [hev] at hwho; simpa [Ev.who] using hwho
            subst hx
            rw [hev] at h
            have hid := (step_ret_idle _ s' e.t x x r h).1
            refine ⟨fun _ a hc hn => ?_, fun hp => absurd hid hp⟩
            have hal := isCallOf_lt hc
            rw [hlen] at hal
            rcases Nat.lt_or_ge a log.length with hlt | hge
            · have := hn log.length hlt (by omega)
              rw [evAt_append_eq, hev] at this
              simp [isRetOf] at this
            · have : a = log.length := by omega
              subst this; rw [evAt_append_eq, hev] at hc; simp [isCallOf] at hc
          · -- the call goes on
            have hnr : ∀ x r, e.ev ≠ .ret x r := fun x r hx => hret ⟨x, r, hx⟩
            obtain ⟨hne, hk, hrq, hcase⟩ := step_nonidle _ s' e.t c e.ev h hidle hnr
            refine ⟨fun hp => absurd hp hne, fun _ => ?_⟩
            have hcall : isCallOf c (some e.ev) = false := by
              cases hev : e.ev <;> simp only [isCallOf] <;> try rfl
              rename_i x kd rq
              rw [hev] at h
              exact absurd (step_call_facts _ s' e.t c x kd rq h).1 hidle
            have hretf : isRetOf c (some e.ev) = false := by
              cases hev : e.ev <;> simp only [isRetOf] <;> try rfl
              exact absurd hev (hnr _ _)
            rcases hcase with ⟨⟨x, a1, b1, d1, hev⟩, hs1, hT1⟩ | ⟨hns, hs1, hT1⟩
            · -- a send
              have hx : x = c := by rw [hev] at hwho; simpa [Ev.who] using hwho
              subst hx
              obtain ⟨a, hal, hevA, hnra, huniq, hcnt, _⟩ := hl.l1 x hidle
              have hsa : sendAt (log ++ [e]) log.length = some x := by simp [sendAt, evAt_append_eq, hev]
              refine ⟨a, by omega, by rw [evAt_append_lt log e a hal, hk, hrq]; exact hevA, noRetAfter_extend hnra hretf, ?_, ?_, ?_⟩
              · intro a2 hc2 hn2
                have h2l := isCallOf_lt hc2
                rw [hlen] at h2l
                rcases Nat.lt_or_ge a2 log.length with hlt | hge
                · rw [evAt_append_lt log e a2 hlt] at hc2
                  exact huniq a2 hc2 (noRetAfter_restrict hn2)
                · have : a2 = log.length := by omega
                  subst this; rw [evAt_append_eq, hcall] at hc2; simp at hc2
              · rw [hs1, hcnt, hlen, sendsIn_succ, sendsIn_append_le log e x a log.length (Nat.le_refl _)]
                simp [hal, hsa]
              · intro _
                refine ⟨log.length, hal, by omega, hsa, ?_, by rw [timeAt_append_eq, hT1]⟩
                intro m h1 h2; rw [hlen] at h2; omega
            · -- anything else
              have hsend : sendAt (log ++ [e]) log.length ≠ some c := by
                rw [sendAt_last_not_send hns]; simp
              exact linv_keep c hcall hretf hsend hk hrq hs1 hT1 (hl.l1 c hidle)
      · have hsame := step_others _ s' e.t c0 e.ev h c hcc
        refine linv_other e hl c hsame ?_ ?_ ?_
        · cases hb : isCallOf c (some e.ev) with
          | false => rfl
          | true => exact absurd (who_call hwho hb) hcc
        · cases hb : isRetOf c (some e.ev) with
          | false => rfl
          | true => exact absurd (who_ret hwho hb) hcc
        · intro hs; exact hcc (who_send hwho hs)


theorem step_ret_ok (s s' : State) (t c x : Nat) (rs : List Bytes) (h : stepCaller s t c (.ret x (.ok rs)) = some s') :
    ((s.callers c).pc = .done ∨ (s.callers c).pc = .rcheck) ∧ (s.callers c).failed = false := by
  cases hpc : (s.callers c).pc <;> simp only [stepCaller, hpc] at h <;> try (simp at h)
  · obtain ⟨⟨_, hr⟩, _⟩ := h
    refine ⟨Or.inr rfl, ?_⟩
    unfold result at hr
    cases hf : (s.callers c).failed <;> simp [hf] at hr ⊢
  · obtain ⟨hr, _⟩ := h
    refine ⟨Or.inl rfl, ?_⟩
    unfold result at hr
    cases hf : (s.callers c).failed <;> simp [hf] at hr ⊢

theorem linv_init (cfg : Cfg) (cbs : List Nat) : LInv [] { cfg := cfg, cbsReg := cbs } := by
  refine ⟨fun c _ a hc => ?_, fun c hp => ?_⟩
  · simp [isCallOf, evAt] at hc
  · simp at hp

theorem linv_exec_gen : ∀ (evs pre : List TEv) (s0 s : State), LInv pre s0 → exec s0 evs = some s → LInv (pre ++ evs) s
  | [], pre, s0, s, hv, h => by simp [exec] at h; subst h; simpa using hv
  | e :: es, pre, s0, s, hv, h => by
    simp only [exec] at h
    cases hst : step s0 e with
    | none => simp [hst] at h
    | some s1 =>
      simp only [hst] at h
      have := linv_exec_gen es (pre ++ [e]) s1 s (linv_step e hv hst) h
      simpa using this

theorem linv_exec (cfg : Cfg) (cbs : List Nat) (evs : List TEv) (s : State)
    (h : exec { cfg := cfg, cbsReg := cbs } evs = some s) : LInv evs s := by
  simpa using linv_exec_gen evs [] _ s (linv_init cfg cbs) h

/-- the delay bookkeeping of every caller, relative to the clock of the state -/
def GInv (s : State) : Prop := ∀ c, GhostOk s.clock (s.callers c)

theorem ginv_step {s s' : State} (e : TEv) (hg : GInv s)
    (h : step s e = some s') : GInv s' := by
  have hclk : s.clock ≤ e.t := by
    unfold step at h; split at h
    · simp at h
    · omega
  intro c
  cases hwho : e.ev.who with
  | none =>
    have hcal := (step_env_callers hwho h).1
    have hclock : s'.clock = e.t := by
      unfold step at h
      split at h
      · simp at h
      · simp only at h
        cases hev : e.ev <;> simp only [hev, Ev.who] at hwho h <;> try (simp at hwho)
        · split at h
          · split at h
            · simp at h
            · simp only [Option.some.injEq] at h; subst h; rfl
          · simp only [Option.some.injEq] at h; subst h; rfl
        · split at h <;> (simp only [Option.some.injEq] at h; subst h; rfl)
        · simp only [Option.some.injEq] at h; subst h; rfl
    rw [hcal, hclock]
    exact ghost_mono (hg c) hclk ⟨rfl, rfl, rfl, rfl, rfl, rfl, rfl⟩ rfl rfl
  | some c0 =>
    rw [step_caller_form s e c0 hwho] at h
    split at h
    · simp at h
    · have hb := step_basic _ s' e.t c0 e.ev h
      have hclock : s'.clock = e.t := hb.2.1
      rw [hclock]
      by_cases hcc : c = c0
      · subst hcc
        exact step_ghost _ s' e.t c s.clock e.ev h hclk (hg c)
      · rw [step_others _ s' e.t c0 e.ev h c hcc]
        exact ghost_mono (hg c) hclk ⟨rfl, rfl, rfl, rfl, rfl, rfl, rfl⟩ rfl rfl

theorem ginv_exec_gen : ∀ (evs : List TEv) (s0 s : State), GInv s0 → exec s0 evs = some s → GInv s
  | [], s0, s, hv, h => by simp [exec] at h; subst h; exact hv
  | e :: es, s0, s, hv, h => by
    simp only [exec] at h
    cases hst : step s0 e with
    | none => simp [hst] at h
    | some s1 =>
      simp only [hst] at h
      exact ginv_exec_gen es s1 s (ginv_step e hv hst) h

theorem ginv_exec (cfg : Cfg) (cbs : List Nat) (evs : List TEv) (s : State)
    (h : exec { cfg := cfg, cbsReg := cbs } evs = some s) : GInv s :=
  ginv_exec_gen evs _ s (fun _ => ghost_dead _ _ (Or.inr (Or.inr (Or.inr rfl)))) h

end Frappy.Comm
