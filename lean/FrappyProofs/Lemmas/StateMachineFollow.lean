import FrappyProofs.Lemmas.C14Observe
import FrappyProofs.Lemmas.StateMachineCount
/-
A sequence of states is executed as its functions direct (`okFollowUp`, `okEnterCalledFor`): a third invariant carried
through every definition of the model.  It only talks about the history and `next_task`:
`me` — the state that is to be entered next (handed over by the function that returned last, or by the start taken),
`mf` — the run may end now, `i` — the function called last is a state function.
-/
namespace Frappy.SM
open Frappy.Spec.C14 Frappy.States

/-- both conditions -/
def okT (o : Obs) (e : Ev) : Bool := okFollowUp o e && okEnterCalledFor o e

structure FU (idle : Status) (me : Option Sid) (mf i : Bool) (σ : SM) : Prop where
  good : Always idle okT σ.trace
  me : (observe idle σ.trace).mustEnter = me
  mf : (observe idle σ.trace).mayFinish = mf
  ins : (observe idle σ.trace).inState = i
  pend : (observe idle σ.trace).pending = σ.nextTask

/-- … whatever kind of function was called last -/
def FUe (idle : Status) (me : Option Sid) (mf : Bool) (σ : SM) : Prop := ∃ i, FU idle me mf i σ

variable {idle : Status} {me : Option Sid} {mf i : Bool}

theorem nextOf_eq (r : Ret) : nextOf r = retState r := by cases r <;> rfl

/-- changing fields the invariant does not look at -/
theorem fu_congr {σ σ' : SM} (htr : σ'.trace = σ.trace) (hnt : σ'.nextTask = σ.nextTask) (h : FU idle me mf i σ) :
    FU idle me mf i σ' := by
  refine ⟨?_, ?_, ?_, ?_, ?_⟩ <;> simp only [htr, hnt]
  · exact h.good
  · exact h.me
  · exact h.mf
  · exact h.ins
  · exact h.pend

/-- one more event -/
theorem fu_ev {σ σ' : SM} {e : Ev} {me' : Option Sid} {mf' i' : Bool} (htr : σ'.trace = σ.trace ++ [e])
    (h : FU idle me mf i σ) (hok : okT (observe idle σ.trace) e = true)
    (hme : ((observe idle σ.trace).step e).mustEnter = me') (hmf : ((observe idle σ.trace).step e).mayFinish = mf')
    (hi : ((observe idle σ.trace).step e).inState = i') (hp : ((observe idle σ.trace).step e).pending = σ'.nextTask) :
    FU idle me' mf' i' σ' := by
  refine ⟨?_, ?_, ?_, ?_, ?_⟩ <;> simp only [htr, observe_snoc, always_snoc]
  · exact ⟨h.good, hok⟩
  · exact hme
  · exact hmf
  · exact hi
  · exact hp

/-- events of requests and status reports: they fall between two events of the cycle thread -/
def otherEv : Ev → Bool
  | .reqStart => true
  | .reqStop => true
  | .reqDone _ => true
  | .status _ => true
  | _ => false

theorem fu_other {σ σ' : SM} {e : Ev} (he : otherEv e = true) (htr : σ'.trace = σ.trace ++ [e])
    (hnt : σ'.nextTask = σ.nextTask) (h : FU idle me mf i σ) : FU idle me mf i σ' := by
  have key : ∀ o : Obs, okT o e = true ∧ (o.step e).mustEnter = o.mustEnter ∧ (o.step e).mayFinish = o.mayFinish ∧
      (o.step e).inState = o.inState ∧ (o.step e).pending = o.pending := by
    intro o
    cases e with
    | reqDone b => cases b <;> simp [okT, okFollowUp, okEnterCalledFor, isCycleEv, Obs.step]
    | _ => first | (simp [otherEv] at he; done) | simp [okT, okFollowUp, okEnterCalledFor, isCycleEv, Obs.step]
  obtain ⟨k0, k1, k2, k3, k4⟩ := key (observe idle σ.trace)
  exact fu_ev htr h k0 (k1.trans h.me) (k2.trans h.mf) (k3.trans h.ins) (by rw [k4, hnt]; exact h.pend)

/-! ### requests -/

theorem fu_post {σ : SM} (h : FU idle me mf i σ) (r : Req) : FU idle me mf i (post σ r) :=
  fu_ev (e := .post r) (σ := σ) (σ' := post σ r) rfl h (by simp [okT, okFollowUp, okEnterCalledFor, isCycleEv])
    (by simp only [Obs.step]; exact h.me) (by simp only [Obs.step]; exact h.mf) (by simp only [Obs.step]; exact h.ins)
    (by simp only [Obs.step]; rfl)

theorem fu_startMachine (cfg : Cfg) {σ : SM} (h : FU idle me mf i σ) (s cl kw ovr) :
    FU idle me mf i (startMachine cfg σ s cl kw ovr) := by
  have h1 : FU idle me mf i (σ.log .reqStart) := fu_other (e := .reqStart) rfl rfl rfl h
  have h2 : FU idle me mf i (startMachineA cfg (σ.log .reqStart) s ovr) :=
    fu_congr (σ := σ.log .reqStart) (σ' := startMachineA cfg (σ.log .reqStart) s ovr) rfl rfl h1
  have h3 := fu_post h2 (.start s cl kw ovr)
  have h4 : FU idle me mf i (startMachineB (startMachineA cfg (σ.log .reqStart) s ovr) (.start s cl kw ovr)) :=
    fu_other (e := .status _) rfl rfl rfl h3
  exact fu_other (e := .reqDone true) rfl rfl rfl h4

theorem fu_stopMachine (cfg : Cfg) {σ : SM} (h : FU idle me mf i σ) (st : Status) :
    FU idle me mf i (stopMachine cfg σ st) := by
  have h0 : FU idle me mf i (σ.log .reqStop) := fu_other (e := .reqStop) rfl rfl rfl h
  unfold stopMachine
  simp only
  generalize σ.log .reqStop = σ0 at h0 ⊢
  split
  · exact fu_other (e := .reqDone false) rfl rfl rfl h0
  · rename_i cur _
    have h1 : FU idle me mf i { σ0 with idleStatus := st } := fu_congr (σ := σ0) rfl rfl h0
    have h2 := fu_post h1 (.stop st)
    generalize post { σ0 with idleStatus := st } (.stop st) = σ1 at h2 ⊢
    have h3 : FU idle me mf i { σ1 with status := stopStatus cfg.rules cur σ1.status } := fu_congr (σ := σ1) rfl rfl h2
    have h4 : FU idle me mf i (SM.log { σ1 with status := stopStatus cfg.rules cur σ1.status }
        (.status (stopStatus cfg.rules cur σ1.status))) :=
      fu_other (e := .status _) (σ := { σ1 with status := stopStatus cfg.rules cur σ1.status }) rfl rfl rfl h3
    exact fu_other (e := .reqDone false) rfl rfl rfl h4

theorem fu_request (cfg : Cfg) {σ : SM} (h : FU idle me mf i σ) (r : Req) : FU idle me mf i (request cfg σ r) := by
  unfold request
  split
  · cases r with
    | start s cl kw ovr => exact fu_startMachine cfg h s cl kw ovr
    | stop st => exact fu_stopMachine cfg h st
  · exact fu_post h r

theorem fu_requests (cfg : Cfg) (rs : List Req) {σ : SM} (h : FU idle me mf i σ) : FU idle me mf i (requests cfg σ rs) := by
  unfold requests
  induction rs generalizing σ with
  | nil => exact h
  | cons r rs ih => exact ih (fu_request cfg h r)

theorem fu_absorb (cfg : Cfg) (P : Prog) {σ : SM} (h : FU idle me mf i σ) : FU idle me mf i (absorb cfg P σ) := by
  unfold absorb
  exact fu_requests cfg _ (fu_congr (σ := σ) (σ' := { σ with slot := σ.slot + 1 }) rfl rfl h)

/-! requests leave the state function alone and never clear `next_task` -/

theorem sf_stopMachine (cfg : Cfg) (σ : SM) (st : Status) : (stopMachine cfg σ st).statefunc = σ.statefunc := by
  unfold stopMachine
  simp only
  split <;> rfl

theorem sf_request (cfg : Cfg) (σ : SM) (r : Req) : (request cfg σ r).statefunc = σ.statefunc := by
  unfold request
  split
  · cases r with
    | start s cl kw ovr => rfl
    | stop st => exact sf_stopMachine cfg σ st
  · rfl

theorem sf_requests (cfg : Cfg) (rs : List Req) (σ : SM) : (requests cfg σ rs).statefunc = σ.statefunc := by
  unfold requests
  induction rs generalizing σ with
  | nil => rfl
  | cons r rs ih => simp only [List.foldl_cons]; rw [ih]; exact sf_request cfg σ r

theorem sf_absorb (cfg : Cfg) (P : Prog) (σ : SM) : (absorb cfg P σ).statefunc = σ.statefunc := by
  unfold absorb; rw [sf_requests]

theorem nt_stopMachine (cfg : Cfg) (σ : SM) (st : Status) (h : σ.nextTask.isSome = true) :
    (stopMachine cfg σ st).nextTask.isSome = true := by
  unfold stopMachine
  simp only
  split
  · exact h
  · rfl

theorem nt_request (cfg : Cfg) (σ : SM) (r : Req) (h : σ.nextTask.isSome = true) :
    (request cfg σ r).nextTask.isSome = true := by
  unfold request
  split
  · cases r with
    | start s cl kw ovr => rfl
    | stop st => exact nt_stopMachine cfg σ st h
  · rfl

theorem nt_requests (cfg : Cfg) (rs : List Req) (σ : SM) (h : σ.nextTask.isSome = true) :
    (requests cfg σ rs).nextTask.isSome = true := by
  unfold requests
  induction rs generalizing σ with
  | nil => exact h
  | cons r rs ih => simp only [List.foldl_cons]; exact ih _ (nt_request cfg σ r h)

theorem nt_absorb (cfg : Cfg) (P : Prog) (σ : SM) (h : σ.nextTask.isSome = true) :
    (absorb cfg P σ).nextTask.isSome = true := by
  unfold absorb; exact nt_requests cfg _ _ h

/-! ### transitions -/

theorem fu_newState (cfg : Cfg) (P : Prog) {σ : SM} (ns : Option Sid) (h : FU idle me mf i σ)
    (hs : ∀ s, ns = some s → me = some s) (hn : ns = none → me = none ∧ mf = true) :
    FU idle none false i (newState cfg P σ ns) ∧ (newState cfg P σ ns).statefunc = ns := by
  have h1 := fu_absorb cfg P h
  unfold newState
  generalize absorb cfg P σ = τ at h1 ⊢
  have hme := h1.me; have hmf := h1.mf
  have h2 : FU idle none false i (τ.log (.enter ns)) := by
    refine fu_ev (e := .enter ns) (σ := τ) rfl h1 ?_ (by simp only [Obs.step]) (by simp only [Obs.step])
      (by simp only [Obs.step]; exact h1.ins) (by simp only [Obs.step]; exact h1.pend)
    cases ns with
    | none => simp [okT, okFollowUp, okEnterCalledFor, hme, hmf, (hn rfl).1, (hn rfl).2]
    | some s => simp [okT, okFollowUp, okEnterCalledFor, hme, hs s rfl]
  refine ⟨?_, rfl⟩
  by_cases hh : cfg.hasStates = true
  · refine fu_other (e := .status (hook cfg τ ns).status) (σ := τ.log (.enter ns)) rfl ?_ ?_ h2
    · simp [hook, hh, SM.log]
    · simp [hook, hh, SM.log]
  · refine fu_congr (σ := τ.log (.enter ns)) ?_ ?_ h2 <;> simp [hook, hh, SM.log]

/-! ### user functions and `_cleanup` -/

theorem fu_applyOutcome (cfg : Cfg) {σ : SM} (o : Outcome) (h : FU idle none mf i σ) :
    FU idle (retState o.ret) (endsRun i o.ret) false (applyOutcome cfg σ o) := by
  have h1 := fu_requests cfg o.posts h
  unfold applyOutcome
  generalize requests cfg σ o.posts = τ at h1 ⊢
  have hme := h1.me; have hi := h1.ins
  have h3 : FU idle none mf i (applyFin τ o.fin) := by
    cases o.fin with
    | none => exact h1
    | some st => exact fu_congr (σ := τ) (σ' := applyFin τ (some st)) rfl rfl h1
  have hme3 := h3.me; have hi3 := h3.ins
  exact fu_ev (e := .ret o.ret o.fin) rfl h3 (by simp [okT, okFollowUp, okEnterCalledFor, hme3])
    (by simp only [Obs.step]; exact nextOf_eq _) (by simp only [Obs.step]; rw [hi3]) (by simp only [Obs.step])
    (by simp only [Obs.step]; exact h3.pend)

theorem fu_doCleanup (cfg : Cfg) (P : Prog) {σ : SM} (k : IKind) (h : FU idle none mf i σ) :
    FUe idle (doCleanup cfg P σ k).ret (doCleanup cfg P σ k).ret.isNone (doCleanup cfg P σ k).σ := by
  have hme := h.me
  have h0 : FU idle none true i (σ.log (.interrupt k)) :=
    fu_ev (e := .interrupt k) rfl h (by simp [okT, okFollowUp, okEnterCalledFor, hme])
      (by simp only [Obs.step]) (by simp only [Obs.step]) (by simp only [Obs.step]; exact h.ins)
      (by simp only [Obs.step]; exact h.pend)
  have h1 : FU idle none true i (setReason (σ.log (.interrupt k)) k) := by
    unfold setReason
    split
    · exact fu_congr (σ := σ.log (.interrupt k)) rfl rfl h0
    · exact h0
  unfold doCleanup
  generalize setReason (σ.log (.interrupt k)) k = τ at h1 ⊢
  simp only
  split
  · exact ⟨i, h1⟩
  · rename_i c _
    have hme1 := h1.me
    have h2 : FU idle none false false ({ τ with cleanup := none }.log (.cleanup c)) :=
      fu_ev (e := .cleanup c) (σ := τ) rfl h1 (by simp [okT, okFollowUp, okEnterCalledFor, hme1])
        (by simp only [Obs.step]) (by simp only [Obs.step]) (by simp only [Obs.step])
        (by simp only [Obs.step]; exact h1.pend)
    have h3 := fu_applyOutcome cfg (P.clean ({ τ with cleanup := none }.log (.cleanup c)).trace c) h2
    refine ⟨false, ?_⟩
    simp only
    generalize (P.clean ({ τ with cleanup := none }.log (.cleanup c)).trace c) = o at h3 ⊢
    cases hr : o.ret <;> simp only [hr, retState, endsRun, Option.isNone, Bool.not_false] at h3 ⊢ <;> exact h3

/-! ### the body of the inner loop -/

def StepF (idle : Status) : Step → Prop
  | .ret τ => FUe idle none false τ
  | .brk τ => FUe idle none true τ
  | .cont τ => FUe idle none false τ ∧ τ.statefunc.isSome = true

theorem stepF_afterCleanup (cfg : Cfg) (P : Prog) (r : CRes) (h : FUe idle r.ret r.ret.isNone r.σ) :
    StepF idle (afterCleanup cfg P r) := by
  obtain ⟨i, h⟩ := h
  unfold afterCleanup
  split
  · rename_i hr; rw [hr] at h; exact ⟨i, h⟩
  · rename_i s hr; rw [hr] at h
    obtain ⟨h1, e1⟩ := fu_newState cfg P (some s) h (fun s' hs' => by cases hs'; rfl) (fun hh => by cases hh)
    exact ⟨⟨i, h1⟩, by rw [e1]; rfl⟩

theorem stepF_callState (cfg : Cfg) (P : Prog) {σ : SM} (s : Sid) (h : FUe idle none false σ) :
    StepF idle (callState cfg P σ s) := by
  obtain ⟨i, h⟩ := h
  have hme := h.me
  have h1 : FU idle none false true (σ.log (.call s σ.init)) :=
    fu_ev (e := .call s σ.init) rfl h (by simp [okT, okFollowUp, okEnterCalledFor, hme])
      (by simp only [Obs.step]) (by simp only [Obs.step]) (by simp only [Obs.step])
      (by simp only [Obs.step]; exact h.pend)
  have h2 := fu_applyOutcome cfg (P.state (σ.log (.call s σ.init)).trace s) h1
  unfold callState
  simp only
  generalize P.state (σ.log (.call s σ.init)).trace s = o at h2 ⊢
  generalize applyOutcome cfg (σ.log (.call s σ.init)) o = σ2 at h2 ⊢
  cases hr : o.ret with
  | retry =>
    simp only [hr, retState, endsRun, Bool.not_true] at h2 ⊢
    exact ⟨false, fu_congr (σ := σ2) rfl rfl h2⟩
  | finish =>
    simp only [hr, retState, endsRun] at h2 ⊢
    exact ⟨false, fu_congr (σ := σ2) rfl rfl h2⟩
  | next s' =>
    simp only [hr, retState, endsRun] at h2 ⊢
    have h3 : FU idle (some s') false false (clearInit σ2) := fu_congr (σ := σ2) rfl rfl h2
    obtain ⟨h4, e4⟩ := fu_newState cfg P (some s') h3 (fun s'' hs' => by cases hs'; rfl) (fun hh => by cases hh)
    exact ⟨⟨false, h4⟩, by rw [e4]; rfl⟩
  | bad =>
    simp only [hr, retState, endsRun] at h2 ⊢
    have h3 : FU idle none true false (clearInit σ2) := fu_congr (σ := σ2) rfl rfl h2
    exact stepF_afterCleanup cfg P _ (fu_doCleanup cfg P .error h3)
  | raise =>
    simp only [hr, retState, endsRun] at h2 ⊢
    exact stepF_afterCleanup cfg P _ (fu_doCleanup cfg P .error h2)

theorem stepF_interruptArm (cfg : Cfg) (P : Prog) {σ : SM} (h : FUe idle none false σ)
    (hnt : σ.nextTask.isSome = true) : StepF idle (interruptArm cfg P σ) := by
  obtain ⟨i, h⟩ := h
  have h1 := fu_absorb cfg P h
  have hnt1 := nt_absorb cfg P σ hnt
  unfold interruptArm
  simp only
  generalize absorb cfg P σ = τ at h1 hnt1 ⊢
  split
  · rename_i t _
    exact stepF_afterCleanup cfg P _ (fu_doCleanup cfg P (kindOf t) h1)
  · rename_i hn; rw [hn] at hnt1; cases hnt1

theorem stepF_stepOnce (cfg : Cfg) (P : Prog) {σ : SM} (h : FUe idle none false σ) (hsf : σ.statefunc.isSome = true) :
    StepF idle (stepOnce cfg P σ) := by
  obtain ⟨i, h⟩ := h
  have h1 := fu_absorb cfg P h
  have hsf1 : (absorb cfg P σ).statefunc.isSome = true := by rw [sf_absorb]; exact hsf
  unfold stepOnce
  simp only
  generalize absorb cfg P σ = τ at h1 hsf1 ⊢
  split
  · rename_i hn; rw [hn] at hsf1; cases hsf1
  · rename_i s _
    split
    · rename_i hc
      simp only [Bool.and_eq_true] at hc
      exact stepF_interruptArm cfg P ⟨i, h1⟩ hc.1
    · exact stepF_callState cfg P s ⟨i, h1⟩

def InnerF (idle : Status) : Inner → Prop
  | .ret τ => FUe idle none false τ
  | .brk τ => FUe idle none true τ
  | .exhausted τ => FUe idle none false τ

theorem innerF_inner (cfg : Cfg) (P : Prog) (n : Nat) {σ : SM} (h : FUe idle none false σ)
    (hsf : σ.statefunc.isSome = true) : InnerF idle (inner cfg P n σ) := by
  induction n generalizing σ with
  | zero => exact h
  | succ n ih =>
    have h1 := stepF_stepOnce cfg P h hsf
    unfold inner
    split
    · rename_i τ he; rw [he] at h1; exact h1
    · rename_i τ he; rw [he] at h1; exact h1
    · rename_i τ he; rw [he] at h1; exact ih h1.1 h1.2

/-! ### picking up a task; the loops; `cycle`; runs -/

theorem fu_takeTask (cfg : Cfg) (P : Prog) {σ : SM} (h : FUe idle none false σ) :
    FUe idle none false (takeTask cfg P σ) := by
  obtain ⟨i, h⟩ := h
  unfold takeTask
  cases hnt : σ.nextTask with
  | none => exact ⟨i, h⟩
  | some t =>
    simp only
    have hme := h.me; have hp := h.pend
    rw [hnt] at hp
    have h1 : FU idle (startState (some t)) false i (SM.log { σ with nextTask := none, reason := none } .take) :=
      fu_ev (e := .take) (σ := σ) rfl h (by simp [okT, okFollowUp, okEnterCalledFor, hme])
        (by simp only [Obs.step]; rw [hp]) (by simp only [Obs.step]) (by simp only [Obs.step]; exact h.ins)
        (by simp only [Obs.step]; rfl)
    generalize SM.log { σ with nextTask := none, reason := none } .take = σ1 at h1 ⊢
    cases t with
    | stop st => exact ⟨i, h1⟩
    | start s cl kw ovr =>
      simp only [startState] at h1 ⊢
      obtain ⟨h2, _⟩ := fu_newState cfg P (some s) h1 (fun s' hs' => by cases hs'; rfl) (fun hh => by cases hh)
      generalize newState cfg P σ1 (some s) = σ2 at h2 ⊢
      have hme2 := h2.me
      exact ⟨i, fu_ev (e := .pickup s cl (updAttrs σ2.attrs kw)) (σ := σ2) rfl h2 (by simp [okT, okFollowUp, okEnterCalledFor, hme2])
        (by simp only [Obs.step]) (by simp only [Obs.step]) (by simp only [Obs.step]; exact h2.ins)
        (by simp only [Obs.step]; exact h2.pend)⟩

theorem fu_pickup (cfg : Cfg) (P : Prog) {σ : SM} (h : FUe idle none false σ) : FUe idle none false (pickup cfg P σ) := by
  obtain ⟨i, h⟩ := h
  have h1 := fu_absorb cfg P h
  unfold pickup
  simp only
  split
  · exact fu_takeTask cfg P ⟨i, h1⟩
  · exact ⟨i, h1⟩

theorem fu_finishRun (cfg : Cfg) (P : Prog) {σ : SM} (h : FUe idle none true σ) : FUe idle none false (finishRun cfg P σ) := by
  obtain ⟨i, h⟩ := h
  exact ⟨i, (fu_newState cfg P none h (fun s hs => by cases hs) (fun _ => ⟨rfl, rfl⟩)).1⟩

theorem fu_chainLimit (cfg : Cfg) (P : Prog) {σ : SM} (h : FUe idle none false σ) :
    FUe idle none false (chainLimit cfg P σ) := by
  obtain ⟨i, h⟩ := h
  have h1 := fu_doCleanup cfg P .error h
  unfold chainLimit
  simp only
  generalize doCleanup cfg P σ .error = r at h1 ⊢
  obtain ⟨j, h1⟩ := h1
  split
  · rename_i s hr; rw [hr] at h1
    exact ⟨j, (fu_newState cfg P (some s) h1 (fun s' hs' => by cases hs'; rfl) (fun hh => by cases hh)).1⟩
  · rename_i hr; rw [hr] at h1
    exact fu_pickup cfg P (fu_finishRun cfg P ⟨j, h1⟩)

theorem fu_outerBody (cfg : Cfg) (P : Prog) {σ : SM} (h : FUe idle none false σ) :
    FUe idle none false (outerBody cfg P σ).sm := by
  unfold outerBody
  split
  · exact fu_pickup cfg P h
  · rename_i s hsf
    have h1 := innerF_inner cfg P cfg.maxloops h (by rw [hsf]; rfl)
    revert h1
    generalize inner cfg P cfg.maxloops σ = c
    intro h1
    cases c with
    | ret τ => exact h1
    | brk τ => exact fu_pickup cfg P (fu_finishRun cfg P h1)
    | exhausted τ => exact fu_chainLimit cfg P h1

theorem fu_outer (cfg : Cfg) (P : Prog) (n : Nat) {σ : SM} (h : FUe idle none false σ) :
    FUe idle none false (outer cfg P n σ) := by
  induction n generalizing σ with
  | zero => exact h
  | succ n ih =>
    have h1 := fu_outerBody cfg P h
    unfold outer
    split
    · rename_i τ he; rw [he] at h1; exact h1
    · rename_i τ he; rw [he] at h1; exact ih h1

theorem fu_cycleMachine (cfg : Cfg) (P : Prog) {σ : SM} (h : FUe idle none false σ) :
    FUe idle none false (cycleMachine cfg P σ) := by
  obtain ⟨i, h⟩ := h
  have hme := h.me
  have h1 : FU idle none false i (σ.log .cycleBegin) :=
    fu_ev (e := .cycleBegin) rfl h (by simp [okT, okFollowUp, okEnterCalledFor, hme])
      (by simp only [Obs.step]) (by simp only [Obs.step]) (by simp only [Obs.step]; exact h.ins)
      (by simp only [Obs.step]; exact h.pend)
  have h2 := fu_outer cfg P 2 ⟨i, h1⟩
  unfold cycleMachine cycle endCycle
  simp only
  generalize outer cfg P 2 (σ.log .cycleBegin) = τ at h2 ⊢
  obtain ⟨j, h2⟩ := h2
  have hme2 := h2.me
  have h3 : FU idle none false j (τ.log (.cycleEnd τ.statefunc.isSome τ.nextTask.isSome)) :=
    fu_ev (e := .cycleEnd _ _) rfl h2 (by simp [okT, okFollowUp, okEnterCalledFor, hme2])
      (by simp only [Obs.step]) (by simp only [Obs.step]) (by simp only [Obs.step]; exact h2.ins)
      (by simp only [Obs.step]; exact h2.pend)
  split
  · exact ⟨j, fu_other (e := .status _) rfl rfl rfl h3⟩
  · exact ⟨j, h3⟩

theorem fu_initial (idle : Status) : FUe idle none false (SM.initial idle) :=
  ⟨false, always_nil _ _, rfl, rfl, rfl, rfl⟩

theorem fu_run (cfg : Cfg) (P : Prog) (ops : List Op) {σ : SM} (h : FUe idle none false σ) :
    FUe idle none false (run cfg P σ ops) := by
  unfold run
  induction ops generalizing σ with
  | nil => exact h
  | cons op ops ih =>
    simp only [List.foldl_cons]
    apply ih
    cases op with
    | cycle => exact fu_cycleMachine cfg P h
    | req r => obtain ⟨i, h⟩ := h; exact ⟨i, fu_request cfg h r⟩

/-- every history of the model is executed as its functions direct -/
theorem run_follow (cfg : Cfg) (P : Prog) (idle : Status) (ops : List Op) :
    Always idle okT (run cfg P (SM.initial idle) ops).trace := by
  obtain ⟨_, h⟩ := fu_run cfg P ops (fu_initial idle)
  exact h.good

end Frappy.SM
