import FrappyProofs.Lemmas.StateMachineInv
/-
The busy clause: a second invariant carried through every definition of the model (mixin mode, `hasStates = true`).
`engaged and no status declared that is not busy → busy status`, `not engaged → status = idle status`, the observer's
`idle` is the machine's `idle_status`; with it every status report the model appends satisfies `okBusy` and `okFinal`.
No assumption about the program or the requests: where the author declares a status that is not busy (`Obs.lax`) the
clause demands nothing, and what earlier engagements declared does not count.

Requests are atomic with respect to `cycle` here — in the code: `start_machine`, `stop_machine`, `final_status` and
`StateMachine._new_state` (hook + change of state) run under one lock.
-/
namespace Frappy.SM
open Frappy.Spec.C14 Frappy.States

/-- the status rules keep to busy codes: attached status codes are busy, and `BUSY` itself is a busy code -/
structure BusyRules (r : Rules) : Prop where
  attached : ∀ s st, r.statusOf s = some st → isBusy r st = true
  busy : r.busy < r.error

theorem nonBusy_false {r : Rules} {x : Option Status} (h : nonBusy r x = false) (st : Status) (hx : x = some st) :
    isBusy r st = true := by
  subst hx; simpa [nonBusy] using h

theorem getStatus_busy {r : Rules} (s : Sid) (d : Nat) (hd : r.busy ≤ d ∧ d < r.error)
    (hs : nonBusy r (r.statusOf s) = false) : isBusy r (getStatus r s d) = true := by
  unfold getStatus
  cases h : r.statusOf s with
  | some st => exact nonBusy_false hs st h
  | none => simp [isBusy, hd.1, hd.2]

/-- `start_machine` assigns a busy status unless the override or the status attached to the start state is not busy -/
theorem startStatus_busy {r : Rules} (hb : r.busy < r.error) (active : Bool) (s : Sid) (ovr : Option Status)
    (hovr : nonBusy r ovr = false) (hs : nonBusy r (r.statusOf s) = false) :
    isBusy r (startStatus r active s ovr) = true := by
  have hg := getStatus_busy s r.busy ⟨Nat.le_refl _, hb⟩ hs
  unfold startStatus
  cases ovr with
  | some st => exact nonBusy_false hovr st rfl
  | none =>
    cases active with
    | false => exact hg
    | true => simpa [isBusy] using hg

/-- `stop_machine` keeps the status busy while the machine is still active (unless the active state declares otherwise) -/
theorem stopStatus_busy {r : Rules} (cur : Sid) (status : Status)
    (hs : isBusy r status = true) (hc : nonBusy r (r.statusOf cur) = false) : isBusy r (stopStatus r cur status) = true := by
  have hd : r.busy ≤ status.1 ∧ status.1 < r.error := by simpa [isBusy] using hs
  have hg := getStatus_busy cur status.1 hd hc
  unfold stopStatus
  simpa [isBusy] using hg

/-- a transition after which the module is still engaged (a state is entered, or a start is waiting) assigns a busy
status or leaves the (busy) status alone — unless the state entered / the start state waiting declares otherwise -/
theorem transitionStatus_busy {r : Rules} (hb : r.busy < r.error) (status idle : Status) (p : Pending)
    (ns : Option Sid) (hs : ns.isSome = true → isBusy r status = true) (heng : ns.isSome = true ∨ ∃ s, p = .start s)
    (hns : ∀ s, ns = some s → nonBusy r (r.statusOf s) = false)
    (hp : ∀ s, p = .start s → nonBusy r (r.statusOf s) = false)
    (st : Status) (h : transitionStatus r status idle p ns = some st) : isBusy r st = true := by
  unfold transitionStatus at h
  cases ns with
  | some s =>
    have hs := hs rfl
    have hd : r.busy ≤ status.1 ∧ status.1 < r.error := by simpa [isBusy] using hs
    cases hso : r.statusOf s with
    | none => cases p <;> simp [hso] at h
    | some st0 =>
      have h0 := nonBusy_false (hns s rfl) st0 hso
      have hd0 : r.busy ≤ st0.1 ∧ st0.1 < r.error := by simpa [isBusy] using h0
      cases p with
      | none => simp [hso] at h; rw [← h]; exact h0
      | stop => simp [hso] at h; rw [← h]; simp [isBusy, hd0.1, hd0.2]
      | start s' =>
        simp only [hso] at h
        split at h
        · simp at h; rw [← h]; exact hs
        · simp at h; rw [← h]; simp [isBusy, hd.1, hd.2]
  | none =>
    rcases heng with hh | ⟨s', rfl⟩
    · cases hh
    · simp at h; rw [← h]; exact getStatus_busy s' r.busy ⟨Nat.le_refl _, hb⟩ (hp s' rfl)

/-- the transition that makes the module idle (machine inactive, no start waiting) assigns the final / stopped status -/
theorem transitionStatus_final (r : Rules) (status idle : Status) (p : Pending)
    (hp : ∀ s, p ≠ .start s) : transitionStatus r status idle p none = some idle := by
  unfold transitionStatus
  cases p with
  | none => rfl
  | stop => rfl
  | start s => exact absurd rfl (hp s)

/-! ### what "no status declared that is not busy" gives -/

theorem lax_false {r : Rules} {o : Obs} (h : o.lax r = false) :
    nonBusy r o.override = false ∧ ∀ s, s ∈ o.declared → nonBusy r (r.statusOf s) = false := by
  unfold Obs.lax at h
  rw [Bool.or_eq_false_iff, List.any_eq_false] at h
  exact ⟨h.1, fun s hs => by simpa using h.2 s hs⟩

theorem lax_of {r : Rules} {o : Obs} (h1 : nonBusy r o.override = false)
    (h2 : ∀ s, s ∈ o.declared → nonBusy r (r.statusOf s) = false) : o.lax r = false := by
  unfold Obs.lax
  rw [Bool.or_eq_false_iff, List.any_eq_false]
  exact ⟨h1, fun s hs => by simp [h2 s hs]⟩

theorem lax_congr {r : Rules} {o o' : Obs} (h1 : o'.declared = o.declared) (h2 : o'.override = o.override) :
    o'.lax r = o.lax r := by
  unfold Obs.lax; rw [h1, h2]

/-- more declared, same override: the larger engagement being strict makes the smaller one strict -/
theorem lax_mono {r : Rules} {o o' : Obs} (h1 : ∀ s, s ∈ o.declared → s ∈ o'.declared) (h2 : o'.override = o.override)
    (h : o'.lax r = false) : o.lax r = false := by
  obtain ⟨a, b⟩ := lax_false h
  exact lax_of (by rw [← h2]; exact a) (fun s hs => b s (h1 s hs))

/-! ### the invariant -/

/-- both conditions of the busy clause -/
def okB (r : Rules) (o : Obs) (e : Ev) : Bool := okBusy r o e && okFinal o e

theorem okB_other {r : Rules} (o : Obs) {e : Ev} (he : ∀ st, e ≠ .status st) : okB r o e = true := by
  cases e <;> first | rfl | exact absurd rfl (he _)

theorem okB_status {r : Rules} {o : Obs} {st : Status} (hreq : o.requesting = 0)
    (hb : o.engaged = true → o.lax r = false → isBusy r st = true) (hf : o.engaged = false → st = o.idle) :
    okB r o (.status st) = true := by
  simp only [okB, okBusy, okFinal, hreq, Nat.lt_irrefl, if_false]
  cases he : o.engaged with
  | false => simp [hf he]
  | true =>
    cases hl : o.lax r with
    | false => simp [hb he hl]
    | true => simp

/-- … while a start request is being issued -/
theorem okB_status_requesting {r : Rules} {o : Obs} {st : Status} (hreq : 0 < o.requesting) :
    okB r o (.status st) = true := by
  simp [okB, okBusy, okFinal, hreq]

/-- the module is engaged: a state function is active, a start is waiting, or a start was taken and is being entered -/
def eng (tk : Option Req) (σ : SM) : Bool := σ.statefunc.isSome || isStartReq σ.nextTask || tk.isSome

structure BI (idle : Status) (r : Rules) (tk : Option Req) (σ : SM) : Prop where
  good : Always idle (okB r) σ.trace
  cur : (ob idle σ).cur = σ.statefunc
  pending : (ob idle σ).pending = σ.nextTask
  taken : (ob idle σ).taken = tk
  requesting : (ob idle σ).requesting = 0
  idl : (ob idle σ).idle = σ.idleStatus
  curDecl : ∀ s, σ.statefunc = some s → s ∈ (ob idle σ).declared
  pendDecl : ∀ s, startState σ.nextTask = some s → s ∈ (ob idle σ).declared
  busy : eng tk σ = true → (ob idle σ).lax r = false → isBusy r σ.status = true
  final : eng tk σ = false → σ.status = σ.idleStatus

variable {idle : Status} {r : Rules} {tk : Option Req}

theorem BI.engaged {σ : SM} (h : BI idle r tk σ) : (ob idle σ).engaged = eng tk σ := by
  unfold Obs.engaged eng
  rw [h.cur, h.pending, h.taken]

/-- changing fields the invariant does not look at -/
theorem bi_congr {σ σ' : SM} (htr : σ'.trace = σ.trace) (hsf : σ'.statefunc = σ.statefunc)
    (hnt : σ'.nextTask = σ.nextTask) (hst : σ'.status = σ.status) (hid : σ'.idleStatus = σ.idleStatus)
    (h : BI idle r tk σ) : BI idle r tk σ' := by
  have ho : ob idle σ' = ob idle σ := by unfold ob; rw [htr]
  refine ⟨?_, ?_, ?_, ?_, ?_, ?_, ?_, ?_, ?_, ?_⟩ <;> simp only [ho, htr, hsf, hnt, hst, hid, eng]
  · exact h.good
  · exact h.cur
  · exact h.pending
  · exact h.taken
  · exact h.requesting
  · exact h.idl
  · exact h.curDecl
  · exact h.pendDecl
  · exact h.busy
  · exact h.final

/-- events that touch nothing the invariant looks at -/
def neutralEv : Ev → Bool
  | .cycleBegin => true
  | .cycleEnd _ _ => true
  | .call _ _ => true
  | .cleanup _ => true
  | .interrupt _ => true
  | .raised => true
  | .reqStop => true
  | .reqDone _ => true
  | .ret _ none => true
  | _ => false

theorem bi_neutral {σ σ' : SM} {e : Ev} (he : neutralEv e = true) (htr : σ'.trace = σ.trace ++ [e])
    (hsf : σ'.statefunc = σ.statefunc) (hnt : σ'.nextTask = σ.nextTask) (hst : σ'.status = σ.status)
    (hid : σ'.idleStatus = σ.idleStatus) (h : BI idle r tk σ) : BI idle r tk σ' := by
  have hg := h.good
  have key : ∀ o : Obs, okB r o e = true ∧ (o.step e).cur = o.cur ∧ (o.step e).pending = o.pending ∧
      (o.step e).taken = o.taken ∧ (o.step e).requesting = o.requesting ∧ (o.step e).idle = o.idle ∧
      (o.step e).declared = o.declared ∧ (o.step e).override = o.override := by
    intro o
    cases e with
    | ret rr fin => cases fin <;> simp [neutralEv] at he <;> simp [okB, okBusy, okFinal, Obs.step]
    | reqDone b => cases b <;> simp [okB, okBusy, okFinal, Obs.step]
    | _ => first | (simp [neutralEv] at he; done) | simp [okB, okBusy, okFinal, Obs.step]
  obtain ⟨k0, k1, k2, k3, k4, k5, k6, k7⟩ := key (observe idle σ.trace)
  have kl : ((observe idle σ.trace).step e).lax r = (observe idle σ.trace).lax r := lax_congr k6 k7
  refine ⟨?_, ?_, ?_, ?_, ?_, ?_, ?_, ?_, ?_, ?_⟩ <;> simp only [ob, htr, observe_snoc, always_snoc, hsf, hnt, hst, hid, eng]
  · exact ⟨hg, k0⟩
  · rw [k1]; exact h.cur
  · rw [k2]; exact h.pending
  · rw [k3]; exact h.taken
  · rw [k4]; exact h.requesting
  · rw [k5]; exact h.idl
  · rw [k6]; exact h.curDecl
  · rw [k6]; exact h.pendDecl
  · rw [kl]; exact h.busy
  · exact h.final

/-! ### requests (mixin: `start_machine`, `stop_machine` as a whole) -/

theorem bi_startMachine (cfg : Cfg) (hb : cfg.rules.busy < cfg.rules.error) {σ : SM} (h : BI idle cfg.rules tk σ) (s cl kw ovr) :
    BI idle cfg.rules tk (startMachine cfg σ s cl kw ovr) ∧ (startMachine cfg σ s cl kw ovr).statefunc = σ.statefunc := by
  have hg := h.good
  have h4 := h.requesting; have h5 := h.idl; have h3 := h.taken; have h1 := h.cur
  simp only [ob] at h1 h3 h4 h5
  -- the observer after `reqStart` and the post
  generalize ho2 : ((observe idle σ.trace).step .reqStart).step (.post (.start s cl kw ovr)) = o2
  have o2req : o2.requesting = 0 := by rw [← ho2]; simp [Obs.step, isStart, h4]
  have o2decl : o2.declared = s :: σ.statefunc.toList := by rw [← ho2]; simp [Obs.step, h1]
  have o2ovr : o2.override = ovr := by rw [← ho2]; simp [Obs.step]
  have o2cur : o2.cur = σ.statefunc := by rw [← ho2]; simp [Obs.step, h1]
  have o2pend : o2.pending = some (.start s cl kw ovr) := by rw [← ho2]; simp [Obs.step]
  have o2tk : o2.taken = tk := by rw [← ho2]; simp [Obs.step, h3]
  have o2idle : o2.idle = σ.idleStatus := by rw [← ho2]; simp [Obs.step, h5]
  have hbusy : o2.lax cfg.rules = false → isBusy cfg.rules (startStatus cfg.rules σ.statefunc.isSome s ovr) = true := by
    intro hl
    obtain ⟨a, b⟩ := lax_false hl
    exact startStatus_busy hb _ s ovr (by rw [← o2ovr]; exact a) (b s (by rw [o2decl]; simp))
  have o2eng : o2.engaged = true := by simp [Obs.engaged, o2pend, isStartReq]
  refine ⟨⟨?_, ?_, ?_, ?_, ?_, ?_, ?_, ?_, ?_, ?_⟩, rfl⟩ <;>
    simp only [startMachine, startMachineA, startMachineB, post, SM.log, ob, observe_snoc, always_snoc, eng, ho2]
  · refine ⟨⟨⟨⟨hg, okB_other _ (by intro st hh; cases hh)⟩, okB_other _ (by intro st hh; cases hh)⟩, ?_⟩,
      okB_other _ (by intro st hh; cases hh)⟩
    exact okB_status o2req (fun _ hl => hbusy hl) (fun he => by rw [o2eng] at he; cases he)
  · simp only [Obs.step]; exact o2cur
  · simp only [Obs.step]; exact o2pend
  · simp only [Obs.step]; exact o2tk
  · simp only [Obs.step]; rw [o2req]
  · simp only [Obs.step]; exact o2idle
  · intro s' hs'; simp only [Obs.step]; rw [o2decl, hs']; simp
  · intro s' hs'; simp only [Obs.step]; rw [o2decl]; simp only [startState] at hs'; cases hs'; simp
  · intro _ hl; simp only [Obs.step] at hl; exact hbusy hl
  · simp [isStartReq]

theorem bi_stopMachine (cfg : Cfg) {σ : SM} (h : BI idle cfg.rules tk σ) (st : Status) :
    BI idle cfg.rules tk (stopMachine cfg σ st) ∧ (stopMachine cfg σ st).statefunc = σ.statefunc := by
  have h0 : BI idle cfg.rules tk (σ.log .reqStop) := bi_neutral (e := .reqStop) rfl rfl rfl rfl rfl rfl h
  unfold stopMachine
  simp only
  have hsf0 : (σ.log .reqStop).statefunc = σ.statefunc := rfl
  generalize σ.log .reqStop = σ0 at h0 hsf0 ⊢
  split
  · exact ⟨bi_neutral (e := .reqDone false) rfl rfl rfl rfl rfl rfl h0, hsf0⟩
  · rename_i cur hsf
    have hg := h0.good
    have h4 := h0.requesting; have h3 := h0.taken; have h1 := h0.cur; have h2 := h0.pending
    simp only [ob] at h1 h2 h3 h4
    generalize ho1 : (observe idle σ0.trace).step (.post (.stop st)) = o1
    have o1req : o1.requesting = 0 := by rw [← ho1]; simp [Obs.step, isStart, h4]
    have o1decl : o1.declared = (observe idle σ0.trace).declared := by rw [← ho1]; simp [Obs.step]
    have o1ovr : o1.override = (observe idle σ0.trace).override := by rw [← ho1]; simp [Obs.step]
    have o1cur : o1.cur = σ0.statefunc := by rw [← ho1]; simp [Obs.step, h1]
    have o1pend : o1.pending = some (.stop st) := by rw [← ho1]; simp [Obs.step]
    have o1tk : o1.taken = tk := by rw [← ho1]; simp [Obs.step, h3]
    have o1idle : o1.idle = st := by rw [← ho1]; simp [Obs.step]
    have o1lax : o1.lax cfg.rules = (observe idle σ0.trace).lax cfg.rules := lax_congr o1decl o1ovr
    have o1eng : o1.engaged = true := by simp [Obs.engaged, o1cur, hsf]
    have hbusy : o1.lax cfg.rules = false → isBusy cfg.rules (stopStatus cfg.rules cur σ0.status) = true := by
      intro hl
      rw [o1lax] at hl
      have hl' : (ob idle σ0).lax cfg.rules = false := hl
      exact stopStatus_busy cur σ0.status (h0.busy (by simp [eng, hsf]) hl')
        ((lax_false hl').2 cur (h0.curDecl cur hsf))
    refine ⟨bi_neutral (e := .reqDone false) rfl rfl rfl rfl rfl rfl (σ := SM.log _ (.status _)) ?_, hsf0⟩
    refine ⟨?_, ?_, ?_, ?_, ?_, ?_, ?_, ?_, ?_, ?_⟩ <;>
      simp only [post, SM.log, ob, observe_snoc, always_snoc, eng, ho1]
    · exact ⟨⟨hg, okB_other _ (by intro st hh; cases hh)⟩,
        okB_status o1req (fun _ hl => hbusy hl) (fun he => by rw [o1eng] at he; cases he)⟩
    · simp only [Obs.step]; exact o1cur
    · simp only [Obs.step]; exact o1pend
    · simp only [Obs.step]; exact o1tk
    · simp only [Obs.step]; exact o1req
    · simp only [Obs.step]; exact o1idle
    · intro s' hs'; simp only [Obs.step]; rw [o1decl]; exact h0.curDecl s' hs'
    · intro s' hs'; simp [startState] at hs'
    · intro _ hl; simp only [Obs.step] at hl; exact hbusy hl
    · simp [hsf]

/-- one request to the module -/
theorem bi_request (cfg : Cfg) (hs : cfg.hasStates = true) (hb : cfg.rules.busy < cfg.rules.error) {σ : SM}
    (h : BI idle cfg.rules tk σ) (q : Req) :
    BI idle cfg.rules tk (request cfg σ q) ∧ (request cfg σ q).statefunc = σ.statefunc := by
  unfold request
  simp only [hs, if_true]
  cases q with
  | start s cl kw ovr => exact bi_startMachine cfg hb h s cl kw ovr
  | stop st => exact bi_stopMachine cfg h st

theorem bi_requests (cfg : Cfg) (hs : cfg.hasStates = true) (hb : cfg.rules.busy < cfg.rules.error) (rs : List Req) {σ : SM}
    (h : BI idle cfg.rules tk σ) :
    BI idle cfg.rules tk (requests cfg σ rs) ∧ (requests cfg σ rs).statefunc = σ.statefunc := by
  unfold requests
  induction rs generalizing σ with
  | nil => exact ⟨h, rfl⟩
  | cons q rs ih =>
    simp only [List.foldl_cons]
    obtain ⟨h1, e1⟩ := bi_request cfg hs hb h q
    obtain ⟨h2, e2⟩ := ih h1
    exact ⟨h2, e2.trans e1⟩

theorem bi_absorb (cfg : Cfg) (hs : cfg.hasStates = true) (hb : cfg.rules.busy < cfg.rules.error) (P : Prog)
    {σ : SM} (h : BI idle cfg.rules tk σ) :
    BI idle cfg.rules tk (absorb cfg P σ) ∧ (absorb cfg P σ).statefunc = σ.statefunc := by
  unfold absorb
  exact bi_requests cfg hs hb (P.env σ.slot) (bi_congr (σ := σ) (σ' := { σ with slot := σ.slot + 1 }) rfl rfl rfl rfl rfl h)

/-! ### transitions: the hook of the mixin -/

theorem pendingOf_start {nt : Option Req} (h : isStartReq nt = true) : ∃ s, pendingOf nt = .start s := by
  cases nt with
  | none => simp [isStartReq] at h
  | some q => cases q with
    | start s cl kw ovr => exact ⟨s, rfl⟩
    | stop st => simp [isStartReq] at h

theorem pendingOf_not_start {nt : Option Req} (h : isStartReq nt = false) : ∀ s, pendingOf nt ≠ .start s := by
  intro s hs
  cases nt with
  | none => simp [pendingOf] at hs
  | some q => cases q with
    | start s' cl kw ovr => simp [isStartReq] at h
    | stop st => simp [pendingOf] at hs

theorem pendingOf_startState {nt : Option Req} {s : Sid} (h : pendingOf nt = .start s) : startState nt = some s := by
  cases nt with
  | none => simp [pendingOf] at h
  | some q => cases q with
    | start s' cl kw ovr => simp [pendingOf] at h; simp [startState, h]
    | stop st => simp [pendingOf] at h

/-- the status `state_transition` assigns (or leaves) -/
def hookStatus (r : Rules) (status idleSt : Status) (nt : Option Req) (ns : Option Sid) : Status :=
  match transitionStatus r status idleSt (pendingOf nt) ns with
  | some st => st
  | none => status

theorem hookStatus_busy {r : Rules} (hb0 : r.busy < r.error) (status idleSt : Status) (nt : Option Req) (ns : Option Sid)
    (tk : Option Req) (hb : ns.isSome = true → isBusy r status = true) (hTk : tk.isSome = true → ns.isSome = true)
    (hns : ∀ s, ns = some s → nonBusy r (r.statusOf s) = false)
    (hp : ∀ s, startState nt = some s → nonBusy r (r.statusOf s) = false)
    (he : (ns.isSome || isStartReq nt || tk.isSome) = true) : isBusy r (hookStatus r status idleSt nt ns) = true := by
  unfold hookStatus
  have heng : ns.isSome = true ∨ ∃ s, pendingOf nt = .start s := by
    cases hn : ns.isSome with
    | true => exact Or.inl rfl
    | false =>
      cases hq : isStartReq nt with
      | true => exact Or.inr (pendingOf_start hq)
      | false =>
        cases ht : tk.isSome with
        | true => rw [hTk ht] at hn; cases hn
        | false => simp [hn, hq, ht] at he
  cases hts : transitionStatus r status idleSt (pendingOf nt) ns with
  | some st' =>
    exact transitionStatus_busy hb0 status idleSt (pendingOf nt) ns hb heng hns
      (fun s hs => hp s (pendingOf_startState hs)) st' hts
  | none =>
    cases ns with
    | some s => exact hb rfl
    | none =>
      exfalso
      unfold transitionStatus at hts
      cases hp' : pendingOf nt <;> simp [hp'] at hts

theorem hookStatus_final (r : Rules) (status idleSt : Status) (nt : Option Req) (ns : Option Sid) (tk : Option Req)
    (he : (ns.isSome || isStartReq nt || tk.isSome) = false) : hookStatus r status idleSt nt ns = idleSt := by
  unfold hookStatus
  simp only [Bool.or_eq_false_iff] at he
  obtain ⟨⟨hn, hq⟩, _⟩ := he
  cases ns with
  | some s => simp at hn
  | none => rw [transitionStatus_final r status idleSt (pendingOf nt) (pendingOf_not_start hq)]

theorem bi_newState (cfg : Cfg) (hs : cfg.hasStates = true) (hb : cfg.rules.busy < cfg.rules.error) (P : Prog)
    {σ : SM} (ns : Option Sid) (h : BI idle cfg.rules tk σ)
    (hEng : ns.isSome = true → σ.statefunc.isSome = true ∨ tk.isSome = true)
    (hTk : tk.isSome = true → ns.isSome = true) :
    BI idle cfg.rules tk (newState cfg P σ ns) ∧ (newState cfg P σ ns).statefunc = ns := by
  obtain ⟨h1, e1⟩ := bi_absorb cfg hs hb P h
  unfold newState
  generalize absorb cfg P σ = τ at h1 e1 ⊢
  have hg := h1.good
  have h1c := h1.cur; have h1p := h1.pending; have h1t := h1.taken; have h1r := h1.requesting; have h1i := h1.idl
  simp only [ob] at h1c h1p h1t h1r h1i
  -- the observer after the transition
  generalize ho1 : (observe idle τ.trace).step (.enter ns) = o1
  have o1req : o1.requesting = 0 := by rw [← ho1]; simp [Obs.step, h1r]
  have o1decl : ∀ s, s ∈ (observe idle τ.trace).declared → s ∈ o1.declared := by
    intro s hs'; rw [← ho1]; cases ns <;> simp [Obs.step, hs']
  have o1ns : ∀ s, ns = some s → s ∈ o1.declared := by
    intro s hs'; rw [← ho1, hs']; simp [Obs.step]
  have o1ovr : o1.override = (observe idle τ.trace).override := by rw [← ho1]; simp [Obs.step]
  have o1cur : o1.cur = ns := by rw [← ho1]; simp [Obs.step]
  have o1pend : o1.pending = τ.nextTask := by rw [← ho1]; simp [Obs.step, h1p]
  have o1tk : o1.taken = tk := by rw [← ho1]; simp [Obs.step, h1t]
  have o1idle : o1.idle = τ.idleStatus := by rw [← ho1]; simp [Obs.step, h1i]
  have o1eng : o1.engaged = (ns.isSome || isStartReq τ.nextTask || tk.isSome) := by
    simp [Obs.engaged, o1cur, o1pend, o1tk]
  have ok1 : (ns.isSome || isStartReq τ.nextTask || tk.isSome) = true → o1.lax cfg.rules = false →
      isBusy cfg.rules (hookStatus cfg.rules τ.status τ.idleStatus τ.nextTask ns) = true := by
    intro he hl
    have hl0 : (ob idle τ).lax cfg.rules = false := lax_mono o1decl o1ovr hl
    refine hookStatus_busy hb τ.status τ.idleStatus τ.nextTask ns tk ?_ hTk ?_ ?_ he
    · intro hn
      apply h1.busy _ hl0
      rcases hEng hn with h' | h'
      · simp [eng, e1, h']
      · simp [eng, h']
    · intro s hs'; exact (lax_false hl).2 s (o1ns s hs')
    · intro s hs'; exact (lax_false hl0).2 s (h1.pendDecl s hs')
  have ok2 := hookStatus_final cfg.rules τ.status τ.idleStatus τ.nextTask ns tk
  have e : ({ hook cfg τ ns with init := true, statefunc := ns } : SM) =
      { τ with init := true, statefunc := ns, status := hookStatus cfg.rules τ.status τ.idleStatus τ.nextTask ns,
               trace := τ.trace ++ [.enter ns] ++ [.status (hookStatus cfg.rules τ.status τ.idleStatus τ.nextTask ns)] } := by
    simp only [hook, hs, SM.log, if_true, hookStatus]
    cases transitionStatus cfg.rules τ.status τ.idleStatus (pendingOf τ.nextTask) ns <;> rfl
  show BI idle cfg.rules tk ({ hook cfg τ ns with init := true, statefunc := ns } : SM) ∧ _
  rw [e]
  refine ⟨⟨?_, ?_, ?_, ?_, ?_, ?_, ?_, ?_, ?_, ?_⟩, rfl⟩ <;>
    simp only [ob, observe_snoc, always_snoc, eng, ho1]
  · exact ⟨⟨hg, okB_other _ (by intro st hh; cases hh)⟩,
      okB_status o1req (fun he hl => ok1 (by rw [← o1eng]; exact he) hl)
        (fun he => by rw [o1idle]; exact ok2 (by rw [← o1eng]; exact he))⟩
  · simp only [Obs.step]; exact o1cur
  · simp only [Obs.step]; exact o1pend
  · simp only [Obs.step]; exact o1tk
  · simp only [Obs.step]; exact o1req
  · simp only [Obs.step]; exact o1idle
  · intro s hs'; simp only [Obs.step]; exact o1ns s hs'
  · intro s hs'; simp only [Obs.step]; exact o1decl s (h1.pendDecl s hs')
  · intro he hl; simp only [Obs.step] at hl; exact ok1 he hl
  · exact ok2

/-! ### user functions and `_cleanup` -/

theorem bi_applyOutcome (cfg : Cfg) (hs : cfg.hasStates = true) (hb : cfg.rules.busy < cfg.rules.error) {σ : SM} (o : Outcome)
    (h : BI idle cfg.rules tk σ) (hsf : σ.statefunc.isSome = true) :
    BI idle cfg.rules tk (applyOutcome cfg σ o) ∧ (applyOutcome cfg σ o).statefunc = σ.statefunc := by
  obtain ⟨h1, e1⟩ := bi_requests cfg hs hb o.posts h
  unfold applyOutcome
  generalize requests cfg σ o.posts = τ at h1 e1 ⊢
  have hsf1 : τ.statefunc.isSome = true := by rw [e1]; exact hsf
  cases hf : o.fin with
  | none =>
    simp only [applyFin]
    exact ⟨bi_neutral (e := .ret o.ret none) rfl rfl rfl rfl rfl rfl h1, e1⟩
  | some st =>
    simp only [applyFin]
    have hg := h1.good
    have kl : ((observe idle τ.trace).step (.ret o.ret (some st))).lax cfg.rules = (observe idle τ.trace).lax cfg.rules :=
      lax_congr (by simp only [Obs.step]) (by simp only [Obs.step])
    refine ⟨⟨?_, ?_, ?_, ?_, ?_, ?_, ?_, ?_, ?_, ?_⟩, e1⟩ <;>
      simp only [SM.log, ob, observe_snoc, always_snoc, eng]
    · exact ⟨hg, okB_other _ (by intro st hh; cases hh)⟩
    · simp only [Obs.step]; exact h1.cur
    · simp only [Obs.step]; exact h1.pending
    · simp only [Obs.step]; exact h1.taken
    · simp only [Obs.step]; exact h1.requesting
    · simp only [Obs.step]
    · intro s hs'; simp only [Obs.step]; exact h1.curDecl s hs'
    · intro s hs'; simp only [Obs.step]; exact h1.pendDecl s hs'
    · intro he hl; rw [kl] at hl; exact h1.busy he hl
    · intro he; simp [hsf1] at he

theorem bi_doCleanup (cfg : Cfg) (hs : cfg.hasStates = true) (hb : cfg.rules.busy < cfg.rules.error) (P : Prog)
    {σ : SM} (k : IKind) (h : BI idle cfg.rules tk σ) (hsf : σ.statefunc.isSome = true) :
    BI idle cfg.rules tk (doCleanup cfg P σ k).σ ∧ (doCleanup cfg P σ k).σ.statefunc = σ.statefunc := by
  have h1 : BI idle cfg.rules tk (setReason (σ.log (.interrupt k)) k) ∧
      (setReason (σ.log (.interrupt k)) k).statefunc = σ.statefunc := by
    have h0 : BI idle cfg.rules tk (σ.log (.interrupt k)) := bi_neutral (e := .interrupt k) rfl rfl rfl rfl rfl rfl h
    unfold setReason
    split
    · exact ⟨bi_congr (σ := σ.log (.interrupt k)) rfl rfl rfl rfl rfl h0, rfl⟩
    · exact ⟨h0, rfl⟩
  unfold doCleanup
  generalize setReason (σ.log (.interrupt k)) k = τ at h1 ⊢
  obtain ⟨h1, e1⟩ := h1
  simp only
  split
  · exact ⟨h1, e1⟩
  · rename_i c _
    have h2 : BI idle cfg.rules tk ({ τ with cleanup := none }.log (.cleanup c)) :=
      bi_neutral (e := .cleanup c) (σ := τ) rfl rfl rfl rfl rfl rfl h1
    obtain ⟨h3, e3⟩ := bi_applyOutcome cfg hs hb (P.clean ({ τ with cleanup := none }.log (.cleanup c)).trace c) h2
      (by show τ.statefunc.isSome = true; rw [e1]; exact hsf)
    exact ⟨h3, e3.trans e1⟩

/-! ### the body of the inner loop -/

def StepB (idle : Status) (r : Rules) : Step → Prop
  | .ret τ => BI idle r none τ
  | .brk τ => BI idle r none τ
  | .cont τ => BI idle r none τ ∧ τ.statefunc.isSome = true

theorem stepB_afterCleanup (cfg : Cfg) (hs : cfg.hasStates = true) (hb : cfg.rules.busy < cfg.rules.error) (P : Prog)
    (c : CRes) (h : BI idle cfg.rules none c.σ) (hsf : c.σ.statefunc.isSome = true) :
    StepB idle cfg.rules (afterCleanup cfg P c) := by
  unfold afterCleanup
  split
  · exact h
  · rename_i s _
    obtain ⟨h1, e1⟩ := bi_newState cfg hs hb P (some s) h (fun _ => Or.inl hsf) (fun hh => by cases hh)
    exact ⟨h1, by rw [e1]; rfl⟩

theorem stepB_callState (cfg : Cfg) (hs : cfg.hasStates = true) (hb : cfg.rules.busy < cfg.rules.error) (P : Prog)
    {σ : SM} (s : Sid) (h : BI idle cfg.rules none σ) (hsf : σ.statefunc = some s) :
    StepB idle cfg.rules (callState cfg P σ s) := by
  have h1 : BI idle cfg.rules none (σ.log (.call s σ.init)) := bi_neutral (e := .call s σ.init) rfl rfl rfl rfl rfl rfl h
  obtain ⟨h2, e2⟩ := bi_applyOutcome cfg hs hb (P.state (σ.log (.call s σ.init)).trace s) h1
    (by show σ.statefunc.isSome = true; simp [hsf])
  unfold callState
  simp only
  generalize P.state (σ.log (.call s σ.init)).trace s = o at h2 e2 ⊢
  generalize applyOutcome cfg (σ.log (.call s σ.init)) o = σ2 at h2 e2 ⊢
  have hsf2 : σ2.statefunc.isSome = true := by rw [e2]; show σ.statefunc.isSome = true; simp [hsf]
  have h3 : BI idle cfg.rules none (clearInit σ2) := bi_congr (σ := σ2) rfl rfl rfl rfl rfl h2
  cases o.ret with
  | retry => exact h3
  | finish => exact h3
  | next s' =>
    obtain ⟨h4, e4⟩ := bi_newState cfg hs hb P (some s') h3 (fun _ => Or.inl hsf2) (fun hh => by cases hh)
    exact ⟨h4, by rw [e4]; rfl⟩
  | bad =>
    obtain ⟨h4, e4⟩ := bi_doCleanup cfg hs hb P .error h3 hsf2
    exact stepB_afterCleanup cfg hs hb P _ h4 (by rw [e4]; exact hsf2)
  | raise =>
    obtain ⟨h4, e4⟩ := bi_doCleanup cfg hs hb P .error h2 hsf2
    exact stepB_afterCleanup cfg hs hb P _ h4 (by rw [e4]; exact hsf2)

theorem stepB_interruptArm (cfg : Cfg) (hs : cfg.hasStates = true) (hb : cfg.rules.busy < cfg.rules.error) (P : Prog)
    {σ : SM} (h : BI idle cfg.rules none σ) (hsf : σ.statefunc.isSome = true) :
    StepB idle cfg.rules (interruptArm cfg P σ) := by
  obtain ⟨h1, e1⟩ := bi_absorb cfg hs hb P h
  unfold interruptArm
  simp only
  generalize absorb cfg P σ = τ at h1 e1 ⊢
  have hsf1 : τ.statefunc.isSome = true := by rw [e1]; exact hsf
  split
  · rename_i t _
    obtain ⟨h2, e2⟩ := bi_doCleanup cfg hs hb P (kindOf t) h1 hsf1
    exact stepB_afterCleanup cfg hs hb P _ h2 (by rw [e2]; exact hsf1)
  · exact h1

theorem stepB_stepOnce (cfg : Cfg) (hs : cfg.hasStates = true) (hb : cfg.rules.busy < cfg.rules.error) (P : Prog)
    {σ : SM} (h : BI idle cfg.rules none σ) :
    StepB idle cfg.rules (stepOnce cfg P σ) := by
  obtain ⟨h1, _⟩ := bi_absorb cfg hs hb P h
  unfold stepOnce
  simp only
  generalize absorb cfg P σ = τ at h1 ⊢
  split
  · exact h1
  · rename_i s hsf
    split
    · exact stepB_interruptArm cfg hs hb P h1 (by simp [hsf])
    · exact stepB_callState cfg hs hb P s h1 hsf

def InnerB (idle : Status) (r : Rules) : Inner → Prop
  | .ret τ => BI idle r none τ
  | .brk τ => BI idle r none τ
  | .exhausted τ => BI idle r none τ ∧ τ.statefunc.isSome = true

theorem innerB_inner (cfg : Cfg) (hs : cfg.hasStates = true) (hb : cfg.rules.busy < cfg.rules.error) (P : Prog)
    (n : Nat) {σ : SM} (h : BI idle cfg.rules none σ) (hsf : σ.statefunc.isSome = true) :
    InnerB idle cfg.rules (inner cfg P n σ) := by
  induction n generalizing σ with
  | zero => exact ⟨h, hsf⟩
  | succ n ih =>
    have h1 := stepB_stepOnce cfg hs hb P h
    unfold inner
    split
    · rename_i τ he; rw [he] at h1; exact h1
    · rename_i τ he; rw [he] at h1; exact h1
    · rename_i τ he; rw [he] at h1; exact ih h1.1 h1.2

/-! ### picking up a task; the loops; `cycle` -/

theorem startOf_isSome (nt : Option Req) : (startOf nt).isSome = isStartReq nt := by
  cases nt with
  | none => rfl
  | some t => cases t <;> rfl

theorem bi_takeTask (cfg : Cfg) (hs : cfg.hasStates = true) (hb : cfg.rules.busy < cfg.rules.error) (P : Prog)
    {σ : SM} (h : BI idle cfg.rules none σ) :
    BI idle cfg.rules none (takeTask cfg P σ) := by
  unfold takeTask
  cases hnt : σ.nextTask with
  | none => exact h
  | some t =>
    simp only
    have hg := h.good
    have hp := h.pending
    simp only [ob] at hp
    have kl : ((observe idle σ.trace).step .take).lax cfg.rules = (observe idle σ.trace).lax cfg.rules :=
      lax_congr (by simp only [Obs.step]) (by simp only [Obs.step])
    have h1 : BI idle cfg.rules (startOf (some t)) (SM.log { σ with nextTask := none, reason := none } .take) := by
      have hb' := h.busy; have hf := h.final
      simp only [eng, hnt] at hb' hf
      refine ⟨?_, ?_, ?_, ?_, ?_, ?_, ?_, ?_, ?_, ?_⟩ <;>
        simp only [SM.log, ob, observe_snoc, always_snoc, eng, startOf_isSome]
      · exact ⟨hg, okB_other _ (by intro st hh; cases hh)⟩
      · simp only [Obs.step]; exact h.cur
      · simp only [Obs.step]
      · simp only [Obs.step]; rw [hp, hnt]
      · simp only [Obs.step]; exact h.requesting
      · simp only [Obs.step]; exact h.idl
      · intro s hs'; simp only [Obs.step]; exact h.curDecl s hs'
      · intro s hs'; simp [startState] at hs'
      · intro he hl; rw [kl] at hl; apply hb' _ hl; simpa [isStartReq] using he
      · intro he; apply hf; simpa [isStartReq] using he
    generalize SM.log { σ with nextTask := none, reason := none } .take = σ1 at h1 ⊢
    cases t with
    | stop st => exact h1
    | start s cl kw ovr =>
      simp only [startOf] at h1 ⊢
      obtain ⟨h2, e2⟩ := bi_newState cfg hs hb P (some s) h1 (fun _ => Or.inr rfl) (fun _ => rfl)
      generalize newState cfg P σ1 (some s) = σ2 at h2 e2 ⊢
      have hg2 := h2.good
      have kl2 : ((observe idle σ2.trace).step (.pickup s cl (updAttrs σ2.attrs kw))).lax cfg.rules =
          (observe idle σ2.trace).lax cfg.rules := lax_congr (by simp only [Obs.step]) (by simp only [Obs.step])
      refine ⟨?_, ?_, ?_, ?_, ?_, ?_, ?_, ?_, ?_, ?_⟩ <;>
        simp only [SM.log, ob, observe_snoc, always_snoc, eng]
      · exact ⟨hg2, okB_other _ (by intro st hh; cases hh)⟩
      · simp only [Obs.step]; exact h2.cur
      · simp only [Obs.step]; exact h2.pending
      · simp only [Obs.step]
      · simp only [Obs.step]; exact h2.requesting
      · simp only [Obs.step]; exact h2.idl
      · intro s' hs'; simp only [Obs.step]; exact h2.curDecl s' hs'
      · intro s' hs'; simp only [Obs.step]; exact h2.pendDecl s' hs'
      · intro _ hl; rw [kl2] at hl; exact h2.busy (by simp [eng]) hl
      · intro he; simp [e2] at he

theorem bi_pickup (cfg : Cfg) (hs : cfg.hasStates = true) (hb : cfg.rules.busy < cfg.rules.error) (P : Prog)
    {σ : SM} (h : BI idle cfg.rules none σ) :
    BI idle cfg.rules none (pickup cfg P σ) := by
  obtain ⟨h1, _⟩ := bi_absorb cfg hs hb P h
  unfold pickup
  simp only
  split
  · exact bi_takeTask cfg hs hb P h1
  · exact h1

theorem bi_finishRun (cfg : Cfg) (hs : cfg.hasStates = true) (hb : cfg.rules.busy < cfg.rules.error) (P : Prog)
    {σ : SM} (h : BI idle cfg.rules none σ) :
    BI idle cfg.rules none (finishRun cfg P σ) :=
  (bi_newState cfg hs hb P none h (fun hh => by cases hh) (fun hh => by cases hh)).1

theorem bi_chainLimit (cfg : Cfg) (hs : cfg.hasStates = true) (hb : cfg.rules.busy < cfg.rules.error) (P : Prog)
    {σ : SM} (h : BI idle cfg.rules none σ) (hsf : σ.statefunc.isSome = true) :
    BI idle cfg.rules none (chainLimit cfg P σ) := by
  obtain ⟨h1, e1⟩ := bi_doCleanup cfg hs hb P .error h hsf
  unfold chainLimit
  simp only
  generalize doCleanup cfg P σ .error = c at h1 e1 ⊢
  split
  · rename_i s _
    exact (bi_newState cfg hs hb P (some s) h1 (fun _ => Or.inl (by rw [e1]; exact hsf)) (fun hh => by cases hh)).1
  · exact bi_pickup cfg hs hb P (bi_finishRun cfg hs hb P h1)

theorem bi_outerBody (cfg : Cfg) (hs : cfg.hasStates = true) (hb : cfg.rules.busy < cfg.rules.error) (P : Prog)
    {σ : SM} (h : BI idle cfg.rules none σ) :
    BI idle cfg.rules none (outerBody cfg P σ).sm := by
  unfold outerBody
  split
  · exact bi_pickup cfg hs hb P h
  · rename_i s hsf
    have h1 := innerB_inner cfg hs hb P cfg.maxloops h (by simp [hsf])
    revert h1
    generalize inner cfg P cfg.maxloops σ = c
    intro h1
    cases c with
    | ret τ => exact h1
    | brk τ => exact bi_pickup cfg hs hb P (bi_finishRun cfg hs hb P h1)
    | exhausted τ => exact bi_chainLimit cfg hs hb P h1.1 h1.2

theorem bi_outer (cfg : Cfg) (hs : cfg.hasStates = true) (hb : cfg.rules.busy < cfg.rules.error) (P : Prog)
    (n : Nat) {σ : SM} (h : BI idle cfg.rules none σ) :
    BI idle cfg.rules none (outer cfg P n σ) := by
  induction n generalizing σ with
  | zero => exact h
  | succ n ih =>
    have h1 := bi_outerBody cfg hs hb P h
    unfold outer
    split
    · rename_i τ he; rw [he] at h1; exact h1
    · rename_i τ he; rw [he] at h1; exact ih h1

theorem bi_cycleMachine (cfg : Cfg) (hs : cfg.hasStates = true) (hb : cfg.rules.busy < cfg.rules.error) (P : Prog)
    {σ : SM} (h : BI idle cfg.rules none σ) :
    BI idle cfg.rules none (cycleMachine cfg P σ) := by
  have h1 : BI idle cfg.rules none (σ.log .cycleBegin) := bi_neutral (e := .cycleBegin) rfl rfl rfl rfl rfl rfl h
  have h2 := bi_outer cfg hs hb P 2 h1
  unfold cycleMachine cycle endCycle
  simp only [hs, if_true]
  generalize outer cfg P 2 (σ.log .cycleBegin) = τ at h2 ⊢
  have h3 : BI idle cfg.rules none (τ.log (.cycleEnd τ.statefunc.isSome τ.nextTask.isSome)) :=
    bi_neutral (e := .cycleEnd _ _) rfl rfl rfl rfl rfl rfl h2
  generalize τ.log (.cycleEnd τ.statefunc.isSome τ.nextTask.isSome) = υ at h3 ⊢
  have hg := h3.good
  have heng := h3.engaged
  refine ⟨?_, ?_, ?_, ?_, ?_, ?_, ?_, ?_, ?_, ?_⟩ <;>
    simp only [SM.log, ob, observe_snoc, always_snoc, eng]
  · exact ⟨hg, okB_status h3.requesting (fun he hl => h3.busy (by rw [← heng]; exact he) hl)
      (fun he => by rw [h3.idl]; exact h3.final (by rw [← heng]; exact he))⟩
  · exact h3.cur
  · exact h3.pending
  · exact h3.taken
  · exact h3.requesting
  · exact h3.idl
  · exact h3.curDecl
  · exact h3.pendDecl
  · exact h3.busy
  · exact h3.final

theorem bi_initial (idle : Status) (r : Rules) : BI idle r none (SM.initial idle) := by
  refine ⟨always_nil _ _, rfl, rfl, rfl, rfl, rfl, ?_, ?_, ?_, ?_⟩
  · intro s hs; cases hs
  · intro s hs; cases hs
  · intro he; simp [eng, SM.initial, isStartReq] at he
  · intro _; rfl

theorem bi_run (cfg : Cfg) (hs : cfg.hasStates = true) (hb : cfg.rules.busy < cfg.rules.error) (P : Prog)
    (ops : List Op) {σ : SM} (h : BI idle cfg.rules none σ) :
    BI idle cfg.rules none (run cfg P σ ops) := by
  unfold run
  induction ops generalizing σ with
  | nil => exact h
  | cons op ops ih =>
    simp only [List.foldl_cons]
    apply ih
    cases op with
    | cycle => exact bi_cycleMachine cfg hs hb P h
    | req q => exact (bi_request cfg hs hb h q).1

/-- every status report in a history of the model satisfies both conditions of the busy clause — whatever the program
and the requests -/
theorem run_busy (cfg : Cfg) (hs : cfg.hasStates = true) (hb : cfg.rules.busy < cfg.rules.error) (P : Prog)
    (idle : Status) (ops : List Op) :
    Always idle (okB cfg.rules) (run cfg P (SM.initial idle) ops).trace :=
  (bi_run cfg hs hb P ops (bi_initial idle cfg.rules)).good

/-! ### modules that declare busy status codes only -/

/-- the `status=` overrides of all start requests in a history are busy -/
def postsBusy (r : Rules) (tr : List Ev) : Bool :=
  tr.all fun e => match e with
    | .post (.start _ _ _ ovr) => !nonBusy r ovr
    | _ => true

theorem override_foldl {r : Rules} (tr : List Ev) (o : Obs) (h0 : nonBusy r o.override = false)
    (hp : postsBusy r tr = true) : nonBusy r (tr.foldl Obs.step o).override = false := by
  induction tr generalizing o with
  | nil => exact h0
  | cons e tr ih =>
    simp only [List.foldl_cons]
    simp only [postsBusy, List.all_cons, Bool.and_eq_true] at hp
    apply ih _ _ hp.2
    cases e with
    | post q =>
      cases q with
      | start s cl kw ovr => simpa [Obs.step] using hp.1
      | stop st => simpa [Obs.step] using h0
    | reqDone b => cases b <;> simpa [Obs.step] using h0
    | _ => simpa [Obs.step] using h0

/-- with attached status codes and overrides all busy, no engagement is ever lax -/
theorem lax_never {r : Rules} (hr : BusyRules r) (idle : Status) (tr : List Ev) (hp : postsBusy r tr = true) :
    (observe idle tr).lax r = false := by
  apply lax_of
  · exact override_foldl tr (Obs.init idle) rfl hp
  · intro s _
    cases h : r.statusOf s with
    | none => rfl
    | some st => simp [nonBusy, hr.attached s st h]

theorem strict_of_busy {r : Rules} (hr : BusyRules r) (idle : Status) (tr : List Ev) (hp : postsBusy r tr = true)
    (h : Always idle (okBusy r) tr) : Always idle (okBusyStrict r) tr := by
  intro pre e post hx
  have h1 := h pre e post hx
  have hp1 : postsBusy r pre = true := by
    rw [hx] at hp
    simp only [postsBusy, List.all_append, Bool.and_eq_true] at hp ⊢
    exact hp.1
  have hl := lax_never hr idle pre hp1
  cases e with
  | status st => simpa [okBusy, okBusyStrict, hl] using h1
  | _ => rfl

end Frappy.SM
