import FrappyProofs.Lemmas.StateMachineInv
/-
The busy clause: a second invariant carried through every definition of the model (mixin mode, `hasStates = true`).
`engaged → busy status`, `not engaged → status = idle status`, the observer's `idle` is the machine's `idle_status`;
with it every status report the model appends satisfies `okBusy` and `okFinal`.

Requests are atomic with respect to `cycle` here — in the code: `start_machine`, `stop_machine`, `final_status` and
`StateMachine._new_state` (hook + change of state) run under one lock.
-/
namespace Frappy.SM
open Frappy.Spec.C14 Frappy.States

/-- the status rules keep to busy codes: attached status codes are busy, and `BUSY` itself is a busy code -/
structure BusyRules (r : Rules) : Prop where
  attached : ∀ s st, r.statusOf s = some st → isBusy r st = true
  busy : r.busy < r.error

/-- a request keeps to busy status codes (the `status=` override of `start_machine`) -/
def busyReq (r : Rules) : Req → Prop
  | .start _ _ _ (some st) => isBusy r st = true
  | _ => True

/-- the requests a program issues (from inside its functions, and from other threads) keep to busy status codes -/
structure BusyProg (r : Rules) (P : Prog) : Prop where
  state : ∀ tr s, ∀ q ∈ (P.state tr s).posts, busyReq r q
  clean : ∀ tr c, ∀ q ∈ (P.clean tr c).posts, busyReq r q
  env : ∀ n, ∀ q ∈ P.env n, busyReq r q

theorem getStatus_busy {r : Rules} (hr : BusyRules r) (s : Sid) (d : Nat) (hd : r.busy ≤ d ∧ d < r.error) :
    isBusy r (getStatus r s d) = true := by
  unfold getStatus
  cases h : r.statusOf s with
  | some st => exact hr.attached s st h
  | none => simp [isBusy, hd.1, hd.2]

/-- `start_machine` assigns a busy status (any target state, machine active or not, a busy override or none) -/
theorem startStatus_busy {r : Rules} (hr : BusyRules r) (active : Bool) (s : Sid) (ovr : Option Status)
    (hovr : ∀ st, ovr = some st → isBusy r st = true) : isBusy r (startStatus r active s ovr) = true := by
  have hg := getStatus_busy hr s r.busy ⟨Nat.le_refl _, hr.busy⟩
  unfold startStatus
  cases ovr with
  | some st => exact hovr st rfl
  | none =>
    cases active with
    | false => exact hg
    | true => simpa [isBusy] using hg

/-- `stop_machine` keeps the status busy while the machine is still active -/
theorem stopStatus_busy {r : Rules} (hr : BusyRules r) (cur : Sid) (status : Status)
    (hs : isBusy r status = true) : isBusy r (stopStatus r cur status) = true := by
  have hd : r.busy ≤ status.1 ∧ status.1 < r.error := by simpa [isBusy] using hs
  have hg := getStatus_busy hr cur status.1 hd
  unfold stopStatus
  simpa [isBusy] using hg

/-- a transition after which the module is still engaged (a state is entered, or a start is waiting) assigns a busy
status or leaves the (busy) status alone -/
theorem transitionStatus_busy {r : Rules} (hr : BusyRules r) (status idle : Status) (p : Pending)
    (ns : Option Sid) (hs : ns.isSome = true → isBusy r status = true) (heng : ns.isSome = true ∨ ∃ s, p = .start s)
    (st : Status) (h : transitionStatus r status idle p ns = some st) : isBusy r st = true := by
  unfold transitionStatus at h
  cases ns with
  | some s =>
    have hs := hs rfl
    have hd : r.busy ≤ status.1 ∧ status.1 < r.error := by simpa [isBusy] using hs
    cases hso : r.statusOf s with
    | none => cases p <;> simp [hso] at h
    | some st0 =>
      have h0 := hr.attached s st0 hso
      have hd0 : r.busy ≤ st0.1 ∧ st0.1 < r.error := by simpa [isBusy] using h0
      cases p with
      | none => simp [hso] at h; rw [← h]; exact h0
      | stop => simp [hso] at h; rw [← h]; simp [isBusy, hd0.1, hd0.2]
      | start s' =>
        simp only [hso] at h
        split at h
        · simp at h; rw [← h]; exact hs
        · simp at h; rw [← h]; simp [isBusy, hd.1, hd.2]
  | none =>
    rcases heng with hh | ⟨s', rfl⟩
    · cases hh
    · simp at h; rw [← h]; exact getStatus_busy hr s' r.busy ⟨Nat.le_refl _, hr.busy⟩

/-- the transition that makes the module idle (machine inactive, no start waiting) assigns the final / stopped status -/
theorem transitionStatus_final (r : Rules) (status idle : Status) (p : Pending)
    (hp : ∀ s, p ≠ .start s) : transitionStatus r status idle p none = some idle := by
  unfold transitionStatus
  cases p with
  | none => rfl
  | stop => rfl
  | start s => exact absurd rfl (hp s)

/-! ### the invariant -/

/-- both conditions of the busy clause -/
def okB (r : Rules) (o : Obs) (e : Ev) : Bool := okBusy r o e && okFinal o e

/-- the module is engaged: a state function is active, a start is waiting, or a start was taken and is being entered -/
def eng (tk : Option Req) (σ : SM) : Bool := σ.statefunc.isSome || isStartReq σ.nextTask || tk.isSome

structure BI (idle : Status) (r : Rules) (tk : Option Req) (σ : SM) : Prop where
  good : Always idle (okB r) σ.trace
  cur : (ob idle σ).cur = σ.statefunc
  pending : (ob idle σ).pending = σ.nextTask
  taken : (ob idle σ).taken = tk
  requesting : (ob idle σ).requesting = 0
  idle : (ob idle σ).idle = σ.idleStatus
  busy : eng tk σ = true → isBusy r σ.status = true
  final : eng tk σ = false → σ.status = σ.idleStatus

variable {idle : Status} {r : Rules} {tk : Option Req}

/-- changing fields the invariant does not look at -/
theorem bi_congr {σ σ' : SM} (htr : σ'.trace = σ.trace) (hsf : σ'.statefunc = σ.statefunc)
    (hnt : σ'.nextTask = σ.nextTask) (hst : σ'.status = σ.status) (hid : σ'.idleStatus = σ.idleStatus)
    (h : BI idle r tk σ) : BI idle r tk σ' := by
  have ho : ob idle σ' = ob idle σ := by unfold ob; rw [htr]
  refine ⟨?_, ?_, ?_, ?_, ?_, ?_, ?_, ?_⟩ <;> simp only [ho, htr, hsf, hnt, hst, hid, eng]
  · exact h.good
  · exact h.cur
  · exact h.pending
  · exact h.taken
  · exact h.requesting
  · exact h.idle
  · exact h.busy
  · exact h.final

/-- events that touch nothing the invariant looks at -/
def neutralEv : Ev → Bool
  | .cycleBegin => true
  | .cycleEnd _ _ => true
  | .call _ _ => true
  | .cleanup _ => true
  | .interrupt _ => true
  | .raised => true
  | .reqStop => true
  | .reqDone _ => true
  | .ret _ none => true
  | _ => false

theorem bi_neutral {σ σ' : SM} {e : Ev} (he : neutralEv e = true) (htr : σ'.trace = σ.trace ++ [e])
    (hsf : σ'.statefunc = σ.statefunc) (hnt : σ'.nextTask = σ.nextTask) (hst : σ'.status = σ.status)
    (hid : σ'.idleStatus = σ.idleStatus) (h : BI idle r tk σ) : BI idle r tk σ' := by
  have hg := h.good
  have key : ∀ o : Obs, okB r o e = true ∧ (o.step e).cur = o.cur ∧ (o.step e).pending = o.pending ∧
      (o.step e).taken = o.taken ∧ (o.step e).requesting = o.requesting ∧ (o.step e).idle = o.idle := by
    intro o
    cases e with
    | ret rr fin => cases fin <;> simp [neutralEv] at he <;> simp [okB, okBusy, okFinal, Obs.step]
    | reqDone b => cases b <;> simp [okB, okBusy, okFinal, Obs.step]
    | _ => first | (simp [neutralEv] at he; done) | simp [okB, okBusy, okFinal, Obs.step]
  obtain ⟨k0, k1, k2, k3, k4, k5⟩ := key (observe idle σ.trace)
  refine ⟨?_, ?_, ?_, ?_, ?_, ?_, ?_, ?_⟩ <;> simp only [ob, htr, observe_snoc, always_snoc, hsf, hnt, hst, hid, eng]
  · exact ⟨hg, k0⟩
  · rw [k1]; exact h.cur
  · rw [k2]; exact h.pending
  · rw [k3]; exact h.taken
  · rw [k4]; exact h.requesting
  · rw [k5]; exact h.idle
  · exact h.busy
  · exact h.final

/-! ### requests (mixin: `start_machine`, `stop_machine` as a whole) -/

theorem bi_startMachine (cfg : Cfg) (hr : BusyRules cfg.rules) {σ : SM} (h : BI idle cfg.rules tk σ) (s cl kw ovr)
    (hq : busyReq cfg.rules (.start s cl kw ovr)) :
    BI idle cfg.rules tk (startMachine cfg σ s cl kw ovr) ∧ (startMachine cfg σ s cl kw ovr).statefunc = σ.statefunc := by
  have hg := h.good
  have hb : isBusy cfg.rules (startStatus cfg.rules σ.statefunc.isSome s ovr) = true := by
    apply startStatus_busy hr
    intro st hst; subst hst; exact hq
  have h4 := h.requesting; have h5 := h.idle; have h3 := h.taken; have h1 := h.cur
  simp only [ob] at h1 h3 h4 h5
  refine ⟨⟨?_, ?_, ?_, ?_, ?_, ?_, ?_, ?_⟩, rfl⟩ <;>
    simp only [startMachine, startMachineA, startMachineB, post, SM.log, ob, observe_snoc, Obs.step, always_snoc, eng]
  · refine ⟨⟨⟨⟨hg, ?_⟩, ?_⟩, ?_⟩, ?_⟩ <;>
      simp [okB, okBusy, okFinal, Obs.engaged, isStartReq, isStart, h4, hb]
  · exact h1
  · exact h3
  · simp [h4, isStart]
  · exact h5
  · intro _; exact hb
  · simp [isStartReq]

theorem bi_stopMachine (cfg : Cfg) (hr : BusyRules cfg.rules) {σ : SM} (h : BI idle cfg.rules tk σ) (st : Status) :
    BI idle cfg.rules tk (stopMachine cfg σ st) ∧ (stopMachine cfg σ st).statefunc = σ.statefunc := by
  have h0 : BI idle cfg.rules tk (σ.log .reqStop) := bi_neutral (e := .reqStop) rfl rfl rfl rfl rfl rfl h
  unfold stopMachine
  simp only
  have hsf0 : (σ.log .reqStop).statefunc = σ.statefunc := rfl
  generalize σ.log .reqStop = σ0 at h0 hsf0 ⊢
  split
  · exact ⟨bi_neutral (e := .reqDone false) rfl rfl rfl rfl rfl rfl h0, hsf0⟩
  · rename_i cur hsf
    have hg := h0.good
    have hbusy : isBusy cfg.rules σ0.status = true := h0.busy (by simp [eng, hsf])
    have hb := stopStatus_busy hr cur σ0.status hbusy
    have h4 := h0.requesting; have h3 := h0.taken; have h1 := h0.cur
    simp only [ob] at h1 h3 h4
    refine ⟨bi_neutral (e := .reqDone false) rfl rfl rfl rfl rfl rfl (σ := SM.log _ (.status _)) ?_, hsf0⟩
    refine ⟨?_, ?_, ?_, ?_, ?_, ?_, ?_, ?_⟩ <;>
      simp only [post, SM.log, ob, observe_snoc, Obs.step, always_snoc, eng]
    · refine ⟨⟨hg, ?_⟩, ?_⟩ <;>
        simp [okB, okBusy, okFinal, Obs.engaged, isStart, h4, h1, hsf, hb]
    · exact h1
    · exact h3
    · simp [h4, isStart]
    · intro _; exact hb
    · simp [hsf]

/-- one request to the module -/
theorem bi_request (cfg : Cfg) (hs : cfg.hasStates = true) (hr : BusyRules cfg.rules) {σ : SM}
    (h : BI idle cfg.rules tk σ) (q : Req) (hq : busyReq cfg.rules q) :
    BI idle cfg.rules tk (request cfg σ q) ∧ (request cfg σ q).statefunc = σ.statefunc := by
  unfold request
  simp only [hs, if_true]
  cases q with
  | start s cl kw ovr => exact bi_startMachine cfg hr h s cl kw ovr hq
  | stop st => exact bi_stopMachine cfg hr h st

theorem bi_requests (cfg : Cfg) (hs : cfg.hasStates = true) (hr : BusyRules cfg.rules) (rs : List Req) {σ : SM}
    (h : BI idle cfg.rules tk σ) (hq : ∀ q ∈ rs, busyReq cfg.rules q) :
    BI idle cfg.rules tk (requests cfg σ rs) ∧ (requests cfg σ rs).statefunc = σ.statefunc := by
  unfold requests
  induction rs generalizing σ with
  | nil => exact ⟨h, rfl⟩
  | cons q rs ih =>
    simp only [List.foldl_cons]
    obtain ⟨h1, e1⟩ := bi_request cfg hs hr h q (hq q (by simp))
    obtain ⟨h2, e2⟩ := ih h1 (fun q' hq' => hq q' (by simp [hq']))
    exact ⟨h2, e2.trans e1⟩

theorem bi_absorb (cfg : Cfg) (hs : cfg.hasStates = true) (hr : BusyRules cfg.rules) (P : Prog)
    (hP : BusyProg cfg.rules P) {σ : SM} (h : BI idle cfg.rules tk σ) :
    BI idle cfg.rules tk (absorb cfg P σ) ∧ (absorb cfg P σ).statefunc = σ.statefunc := by
  unfold absorb
  exact bi_requests cfg hs hr (P.env σ.slot) (bi_congr (σ := σ) (σ' := { σ with slot := σ.slot + 1 }) rfl rfl rfl rfl rfl h)
    (hP.env σ.slot)

/-! ### transitions: the hook of the mixin -/

theorem pendingOf_start {nt : Option Req} (h : isStartReq nt = true) : ∃ s, pendingOf nt = .start s := by
  cases nt with
  | none => simp [isStartReq] at h
  | some q => cases q with
    | start s cl kw ovr => exact ⟨s, rfl⟩
    | stop st => simp [isStartReq] at h

theorem pendingOf_not_start {nt : Option Req} (h : isStartReq nt = false) : ∀ s, pendingOf nt ≠ .start s := by
  intro s hs
  cases nt with
  | none => simp [pendingOf] at hs
  | some q => cases q with
    | start s' cl kw ovr => simp [isStartReq] at h
    | stop st => simp [pendingOf] at hs

/-- the status `state_transition` assigns (or leaves) -/
def hookStatus (r : Rules) (status idleSt : Status) (nt : Option Req) (ns : Option Sid) : Status :=
  match transitionStatus r status idleSt (pendingOf nt) ns with
  | some st => st
  | none => status

theorem hookStatus_ok {r : Rules} (hr : BusyRules r) (status idleSt : Status) (nt : Option Req) (ns : Option Sid)
    (tk : Option Req) (hb : ns.isSome = true → isBusy r status = true) (hTk : tk.isSome = true → ns.isSome = true) :
    ((ns.isSome || isStartReq nt || tk.isSome) = true → isBusy r (hookStatus r status idleSt nt ns) = true) ∧
    ((ns.isSome || isStartReq nt || tk.isSome) = false → hookStatus r status idleSt nt ns = idleSt) := by
  unfold hookStatus
  constructor
  · intro he
    have heng : ns.isSome = true ∨ ∃ s, pendingOf nt = .start s := by
      cases hn : ns.isSome with
      | true => exact Or.inl rfl
      | false =>
        cases hq : isStartReq nt with
        | true => exact Or.inr (pendingOf_start hq)
        | false =>
          cases ht : tk.isSome with
          | true => rw [hTk ht] at hn; cases hn
          | false => simp [hn, hq, ht] at he
    cases hts : transitionStatus r status idleSt (pendingOf nt) ns with
    | some st' => exact transitionStatus_busy hr status idleSt (pendingOf nt) ns hb heng st' hts
    | none =>
      cases ns with
      | some s => exact hb rfl
      | none =>
        exfalso
        unfold transitionStatus at hts
        cases hp : pendingOf nt <;> simp [hp] at hts
  · intro he
    simp only [Bool.or_eq_false_iff] at he
    obtain ⟨⟨hn, hq⟩, _⟩ := he
    cases ns with
    | some s => simp at hn
    | none => rw [transitionStatus_final r status idleSt (pendingOf nt) (pendingOf_not_start hq)]

theorem bi_newState (cfg : Cfg) (hs : cfg.hasStates = true) (hr : BusyRules cfg.rules) (P : Prog)
    (hP : BusyProg cfg.rules P) {σ : SM} (ns : Option Sid) (h : BI idle cfg.rules tk σ)
    (hEng : ns.isSome = true → σ.statefunc.isSome = true ∨ tk.isSome = true)
    (hTk : tk.isSome = true → ns.isSome = true) :
    BI idle cfg.rules tk (newState cfg P σ ns) ∧ (newState cfg P σ ns).statefunc = ns := by
  obtain ⟨h1, e1⟩ := bi_absorb cfg hs hr P hP h
  unfold newState
  generalize absorb cfg P σ = τ at h1 e1 ⊢
  have hb : ns.isSome = true → isBusy cfg.rules τ.status = true := by
    intro hn
    apply h1.busy
    rcases hEng hn with h' | h'
    · simp [eng, e1, h']
    · simp [eng, h']
  obtain ⟨ok1, ok2⟩ := hookStatus_ok hr τ.status τ.idleStatus τ.nextTask ns tk hb hTk
  have hg := h1.good
  have h1c := h1.cur; have h1p := h1.pending; have h1t := h1.taken; have h1r := h1.requesting; have h1i := h1.idle
  simp only [ob] at h1c h1p h1t h1r h1i
  have e : ({ hook cfg τ ns with init := true, statefunc := ns } : SM) =
      { τ with init := true, statefunc := ns, status := hookStatus cfg.rules τ.status τ.idleStatus τ.nextTask ns,
               trace := τ.trace ++ [.enter ns] ++ [.status (hookStatus cfg.rules τ.status τ.idleStatus τ.nextTask ns)] } := by
    simp only [hook, hs, SM.log, if_true, hookStatus]
    cases transitionStatus cfg.rules τ.status τ.idleStatus (pendingOf τ.nextTask) ns <;> rfl
  show BI idle cfg.rules tk ({ hook cfg τ ns with init := true, statefunc := ns } : SM) ∧ _
  rw [e]
  refine ⟨⟨?_, ?_, ?_, ?_, ?_, ?_, ?_, ?_⟩, rfl⟩ <;>
    simp only [ob, observe_snoc, Obs.step, always_snoc, eng]
  · refine ⟨⟨hg, ?_⟩, ?_⟩
    · simp [okB, okBusy, okFinal]
    · simp only [okB, okBusy, okFinal, Obs.engaged, h1p, h1t, h1r, h1i, Nat.lt_irrefl, if_false]
      cases he : (ns.isSome || isStartReq τ.nextTask || tk.isSome) with
      | true => simp [ok1 he]
      | false => simp [ok2 he]
  · exact h1p
  · exact h1t
  · exact h1r
  · exact h1i
  · exact ok1
  · exact ok2

/-! ### user functions and `_cleanup` -/

theorem bi_applyOutcome (cfg : Cfg) (hs : cfg.hasStates = true) (hr : BusyRules cfg.rules) {σ : SM} (o : Outcome)
    (h : BI idle cfg.rules tk σ) (hq : ∀ q ∈ o.posts, busyReq cfg.rules q) (hsf : σ.statefunc.isSome = true) :
    BI idle cfg.rules tk (applyOutcome cfg σ o) ∧ (applyOutcome cfg σ o).statefunc = σ.statefunc := by
  obtain ⟨h1, e1⟩ := bi_requests cfg hs hr o.posts h hq
  unfold applyOutcome
  generalize requests cfg σ o.posts = τ at h1 e1 ⊢
  have hsf1 : τ.statefunc.isSome = true := by rw [e1]; exact hsf
  cases hf : o.fin with
  | none =>
    simp only [applyFin]
    exact ⟨bi_neutral (e := .ret o.ret none) rfl rfl rfl rfl rfl rfl h1, e1⟩
  | some st =>
    simp only [applyFin]
    have hg := h1.good
    refine ⟨⟨?_, ?_, ?_, ?_, ?_, ?_, ?_, ?_⟩, e1⟩ <;>
      simp only [SM.log, ob, observe_snoc, Obs.step, always_snoc, eng]
    · exact ⟨hg, by simp [okB, okBusy, okFinal]⟩
    · exact h1.cur
    · exact h1.pending
    · exact h1.taken
    · exact h1.requesting
    · intro he; exact h1.busy he
    · intro he; simp [hsf1] at he

theorem bi_doCleanup (cfg : Cfg) (hs : cfg.hasStates = true) (hr : BusyRules cfg.rules) (P : Prog)
    (hP : BusyProg cfg.rules P) {σ : SM} (k : IKind) (h : BI idle cfg.rules tk σ) (hsf : σ.statefunc.isSome = true) :
    BI idle cfg.rules tk (doCleanup cfg P σ k).σ ∧ (doCleanup cfg P σ k).σ.statefunc = σ.statefunc := by
  have h1 : BI idle cfg.rules tk (setReason (σ.log (.interrupt k)) k) ∧
      (setReason (σ.log (.interrupt k)) k).statefunc = σ.statefunc := by
    have h0 : BI idle cfg.rules tk (σ.log (.interrupt k)) := bi_neutral (e := .interrupt k) rfl rfl rfl rfl rfl rfl h
    unfold setReason
    split
    · exact ⟨bi_congr (σ := σ.log (.interrupt k)) rfl rfl rfl rfl rfl h0, rfl⟩
    · exact ⟨h0, rfl⟩
  unfold doCleanup
  generalize setReason (σ.log (.interrupt k)) k = τ at h1 ⊢
  obtain ⟨h1, e1⟩ := h1
  simp only
  split
  · exact ⟨h1, e1⟩
  · rename_i c _
    have h2 : BI idle cfg.rules tk ({ τ with cleanup := none }.log (.cleanup c)) :=
      bi_neutral (e := .cleanup c) (σ := τ) rfl rfl rfl rfl rfl rfl h1
    obtain ⟨h3, e3⟩ := bi_applyOutcome cfg hs hr (P.clean ({ τ with cleanup := none }.log (.cleanup c)).trace c) h2
      (hP.clean _ c) (by show τ.statefunc.isSome = true; rw [e1]; exact hsf)
    exact ⟨h3, e3.trans e1⟩

/-! ### the body of the inner loop -/

def StepB (idle : Status) (r : Rules) : Step → Prop
  | .ret τ => BI idle r none τ
  | .brk τ => BI idle r none τ
  | .cont τ => BI idle r none τ ∧ τ.statefunc.isSome = true

theorem stepB_afterCleanup (cfg : Cfg) (hs : cfg.hasStates = true) (hr : BusyRules cfg.rules) (P : Prog)
    (hP : BusyProg cfg.rules P) (c : CRes) (h : BI idle cfg.rules none c.σ) (hsf : c.σ.statefunc.isSome = true) :
    StepB idle cfg.rules (afterCleanup cfg P c) := by
  unfold afterCleanup
  split
  · exact h
  · rename_i s _
    obtain ⟨h1, e1⟩ := bi_newState cfg hs hr P hP (some s) h (fun _ => Or.inl hsf) (fun hh => by cases hh)
    exact ⟨h1, by rw [e1]; rfl⟩

theorem stepB_callState (cfg : Cfg) (hs : cfg.hasStates = true) (hr : BusyRules cfg.rules) (P : Prog)
    (hP : BusyProg cfg.rules P) {σ : SM} (s : Sid) (h : BI idle cfg.rules none σ) (hsf : σ.statefunc = some s) :
    StepB idle cfg.rules (callState cfg P σ s) := by
  have h1 : BI idle cfg.rules none (σ.log (.call s σ.init)) := bi_neutral (e := .call s σ.init) rfl rfl rfl rfl rfl rfl h
  obtain ⟨h2, e2⟩ := bi_applyOutcome cfg hs hr (P.state (σ.log (.call s σ.init)).trace s) h1 (hP.state _ s)
    (by show σ.statefunc.isSome = true; simp [hsf])
  unfold callState
  simp only
  generalize P.state (σ.log (.call s σ.init)).trace s = o at h2 e2 ⊢
  generalize applyOutcome cfg (σ.log (.call s σ.init)) o = σ2 at h2 e2 ⊢
  have hsf2 : σ2.statefunc.isSome = true := by rw [e2]; show σ.statefunc.isSome = true; simp [hsf]
  have h3 : BI idle cfg.rules none (clearInit σ2) := bi_congr (σ := σ2) rfl rfl rfl rfl rfl h2
  cases o.ret with
  | retry => exact h3
  | finish => exact h3
  | next s' =>
    obtain ⟨h4, e4⟩ := bi_newState cfg hs hr P hP (some s') h3 (fun _ => Or.inl hsf2) (fun hh => by cases hh)
    exact ⟨h4, by rw [e4]; rfl⟩
  | bad =>
    obtain ⟨h4, e4⟩ := bi_doCleanup cfg hs hr P hP .error h3 hsf2
    exact stepB_afterCleanup cfg hs hr P hP _ h4 (by rw [e4]; exact hsf2)
  | raise =>
    obtain ⟨h4, e4⟩ := bi_doCleanup cfg hs hr P hP .error h2 hsf2
    exact stepB_afterCleanup cfg hs hr P hP _ h4 (by rw [e4]; exact hsf2)

theorem stepB_interruptArm (cfg : Cfg) (hs : cfg.hasStates = true) (hr : BusyRules cfg.rules) (P : Prog)
    (hP : BusyProg cfg.rules P) {σ : SM} (h : BI idle cfg.rules none σ) (hsf : σ.statefunc.isSome = true) :
    StepB idle cfg.rules (interruptArm cfg P σ) := by
  obtain ⟨h1, e1⟩ := bi_absorb cfg hs hr P hP h
  unfold interruptArm
  simp only
  generalize absorb cfg P σ = τ at h1 e1 ⊢
  have hsf1 : τ.statefunc.isSome = true := by rw [e1]; exact hsf
  split
  · rename_i t _
    obtain ⟨h2, e2⟩ := bi_doCleanup cfg hs hr P hP (kindOf t) h1 hsf1
    exact stepB_afterCleanup cfg hs hr P hP _ h2 (by rw [e2]; exact hsf1)
  · exact h1

theorem stepB_stepOnce (cfg : Cfg) (hs : cfg.hasStates = true) (hr : BusyRules cfg.rules) (P : Prog)
    (hP : BusyProg cfg.rules P) {σ : SM} (h : BI idle cfg.rules none σ) :
    StepB idle cfg.rules (stepOnce cfg P σ) := by
  obtain ⟨h1, _⟩ := bi_absorb cfg hs hr P hP h
  unfold stepOnce
  simp only
  generalize absorb cfg P σ = τ at h1 ⊢
  split
  · exact h1
  · rename_i s hsf
    split
    · exact stepB_interruptArm cfg hs hr P hP h1 (by simp [hsf])
    · exact stepB_callState cfg hs hr P hP s h1 hsf

def InnerB (idle : Status) (r : Rules) : Inner → Prop
  | .ret τ => BI idle r none τ
  | .brk τ => BI idle r none τ
  | .exhausted τ => BI idle r none τ ∧ τ.statefunc.isSome = true

theorem innerB_inner (cfg : Cfg) (hs : cfg.hasStates = true) (hr : BusyRules cfg.rules) (P : Prog)
    (hP : BusyProg cfg.rules P) (n : Nat) {σ : SM} (h : BI idle cfg.rules none σ) (hsf : σ.statefunc.isSome = true) :
    InnerB idle cfg.rules (inner cfg P n σ) := by
  induction n generalizing σ with
  | zero => exact ⟨h, hsf⟩
  | succ n ih =>
    have h1 := stepB_stepOnce cfg hs hr P hP h
    unfold inner
    split
    · rename_i τ he; rw [he] at h1; exact h1
    · rename_i τ he; rw [he] at h1; exact h1
    · rename_i τ he; rw [he] at h1; exact ih h1.1 h1.2

/-! ### picking up a task; the loops; `cycle` -/

theorem startOf_isSome (nt : Option Req) : (startOf nt).isSome = isStartReq nt := by
  cases nt with
  | none => rfl
  | some t => cases t <;> rfl

theorem bi_takeTask (cfg : Cfg) (hs : cfg.hasStates = true) (hr : BusyRules cfg.rules) (P : Prog)
    (hP : BusyProg cfg.rules P) {σ : SM} (h : BI idle cfg.rules none σ) :
    BI idle cfg.rules none (takeTask cfg P σ) := by
  unfold takeTask
  cases hnt : σ.nextTask with
  | none => exact h
  | some t =>
    simp only
    have hg := h.good
    have hp := h.pending
    simp only [ob] at hp
    have h1 : BI idle cfg.rules (startOf (some t)) (SM.log { σ with nextTask := none, reason := none } .take) := by
      have hb := h.busy; have hf := h.final
      simp only [eng, hnt] at hb hf
      refine ⟨?_, ?_, ?_, ?_, ?_, ?_, ?_, ?_⟩ <;>
        simp only [SM.log, ob, observe_snoc, Obs.step, always_snoc, eng, startOf_isSome]
      · exact ⟨hg, by simp [okB, okBusy, okFinal]⟩
      · exact h.cur
      · rw [hp, hnt]
      · exact h.requesting
      · exact h.idle
      · intro he; apply hb; simpa [isStartReq] using he
      · intro he; apply hf; simpa [isStartReq] using he
    generalize SM.log { σ with nextTask := none, reason := none } .take = σ1 at h1 ⊢
    cases t with
    | stop st => exact h1
    | start s cl kw ovr =>
      simp only [startOf] at h1 ⊢
      obtain ⟨h2, e2⟩ := bi_newState cfg hs hr P hP (some s) h1 (fun _ => Or.inr rfl) (fun _ => rfl)
      generalize newState cfg P σ1 (some s) = σ2 at h2 e2 ⊢
      have hg2 := h2.good
      have hb2 : isBusy cfg.rules σ2.status = true := h2.busy (by simp [eng])
      refine ⟨?_, ?_, ?_, ?_, ?_, ?_, ?_, ?_⟩ <;>
        simp only [SM.log, ob, observe_snoc, Obs.step, always_snoc, eng]
      · exact ⟨hg2, by simp [okB, okBusy, okFinal]⟩
      · exact h2.cur
      · exact h2.pending
      · exact h2.requesting
      · exact h2.idle
      · intro _; exact hb2
      · intro he; simp [e2] at he

theorem bi_pickup (cfg : Cfg) (hs : cfg.hasStates = true) (hr : BusyRules cfg.rules) (P : Prog)
    (hP : BusyProg cfg.rules P) {σ : SM} (h : BI idle cfg.rules none σ) :
    BI idle cfg.rules none (pickup cfg P σ) := by
  obtain ⟨h1, _⟩ := bi_absorb cfg hs hr P hP h
  unfold pickup
  simp only
  split
  · exact bi_takeTask cfg hs hr P hP h1
  · exact h1

theorem bi_finishRun (cfg : Cfg) (hs : cfg.hasStates = true) (hr : BusyRules cfg.rules) (P : Prog)
    (hP : BusyProg cfg.rules P) {σ : SM} (h : BI idle cfg.rules none σ) :
    BI idle cfg.rules none (finishRun cfg P σ) :=
  (bi_newState cfg hs hr P hP none h (fun hh => by cases hh) (fun hh => by cases hh)).1

theorem bi_chainLimit (cfg : Cfg) (hs : cfg.hasStates = true) (hr : BusyRules cfg.rules) (P : Prog)
    (hP : BusyProg cfg.rules P) {σ : SM} (h : BI idle cfg.rules none σ) (hsf : σ.statefunc.isSome = true) :
    BI idle cfg.rules none (chainLimit cfg P σ) := by
  obtain ⟨h1, e1⟩ := bi_doCleanup cfg hs hr P hP .error h hsf
  unfold chainLimit
  simp only
  generalize doCleanup cfg P σ .error = c at h1 e1 ⊢
  split
  · rename_i s _
    exact (bi_newState cfg hs hr P hP (some s) h1 (fun _ => Or.inl (by rw [e1]; exact hsf)) (fun hh => by cases hh)).1
  · exact bi_pickup cfg hs hr P hP (bi_finishRun cfg hs hr P hP h1)

theorem bi_outerBody (cfg : Cfg) (hs : cfg.hasStates = true) (hr : BusyRules cfg.rules) (P : Prog)
    (hP : BusyProg cfg.rules P) {σ : SM} (h : BI idle cfg.rules none σ) :
    BI idle cfg.rules none (outerBody cfg P σ).sm := by
  unfold outerBody
  split
  · exact bi_pickup cfg hs hr P hP h
  · rename_i s hsf
    have h1 := innerB_inner cfg hs hr P hP cfg.maxloops h (by simp [hsf])
    revert h1
    generalize inner cfg P cfg.maxloops σ = c
    intro h1
    cases c with
    | ret τ => exact h1
    | brk τ => exact bi_pickup cfg hs hr P hP (bi_finishRun cfg hs hr P hP h1)
    | exhausted τ => exact bi_chainLimit cfg hs hr P hP h1.1 h1.2

theorem bi_outer (cfg : Cfg) (hs : cfg.hasStates = true) (hr : BusyRules cfg.rules) (P : Prog)
    (hP : BusyProg cfg.rules P) (n : Nat) {σ : SM} (h : BI idle cfg.rules none σ) :
    BI idle cfg.rules none (outer cfg P n σ) := by
  induction n generalizing σ with
  | zero => exact h
  | succ n ih =>
    have h1 := bi_outerBody cfg hs hr P hP h
    unfold outer
    split
    · rename_i τ he; rw [he] at h1; exact h1
    · rename_i τ he; rw [he] at h1; exact ih h1

theorem bi_cycleMachine (cfg : Cfg) (hs : cfg.hasStates = true) (hr : BusyRules cfg.rules) (P : Prog)
    (hP : BusyProg cfg.rules P) {σ : SM} (h : BI idle cfg.rules none σ) :
    BI idle cfg.rules none (cycleMachine cfg P σ) := by
  have h1 : BI idle cfg.rules none (σ.log .cycleBegin) := bi_neutral (e := .cycleBegin) rfl rfl rfl rfl rfl rfl h
  have h2 := bi_outer cfg hs hr P hP 2 h1
  unfold cycleMachine cycle endCycle
  simp only [hs, if_true]
  generalize outer cfg P 2 (σ.log .cycleBegin) = τ at h2 ⊢
  have h3 : BI idle cfg.rules none (τ.log (.cycleEnd τ.statefunc.isSome τ.nextTask.isSome)) :=
    bi_neutral (e := .cycleEnd _ _) rfl rfl rfl rfl rfl rfl h2
  generalize τ.log (.cycleEnd τ.statefunc.isSome τ.nextTask.isSome) = υ at h3 ⊢
  have hg := h3.good
  have c1 := h3.cur; have c2 := h3.pending; have c3 := h3.taken; have c4 := h3.requesting; have c5 := h3.idle
  simp only [ob] at c1 c2 c3 c4 c5
  have hb := h3.busy; have hf := h3.final
  simp only [eng] at hb hf
  refine ⟨?_, ?_, ?_, ?_, ?_, ?_, ?_, ?_⟩ <;>
    simp only [SM.log, ob, observe_snoc, Obs.step, always_snoc, eng]
  · refine ⟨hg, ?_⟩
    simp only [okB, okBusy, okFinal, Obs.engaged, c1, c2, c3, c4, c5, Nat.lt_irrefl, if_false]
    cases he : (υ.statefunc.isSome || isStartReq υ.nextTask || (none : Option Req).isSome) with
    | true => simp [hb he]
    | false => simp [hf he]
  · exact h3.cur
  · exact h3.pending
  · exact h3.taken
  · exact h3.requesting
  · exact h3.idle
  · exact hb
  · exact hf

theorem bi_initial (idle : Status) (r : Rules) : BI idle r none (SM.initial idle) := by
  refine ⟨always_nil _ _, rfl, rfl, rfl, rfl, rfl, ?_, ?_⟩
  · intro he; simp [eng, SM.initial, isStartReq] at he
  · intro _; rfl

/-- the requests of an operation sequence keep to busy status codes -/
def BusyOps (r : Rules) (ops : List Op) : Prop := ∀ q, Op.req q ∈ ops → busyReq r q

theorem bi_run (cfg : Cfg) (hs : cfg.hasStates = true) (hr : BusyRules cfg.rules) (P : Prog)
    (hP : BusyProg cfg.rules P) (ops : List Op) (ho : BusyOps cfg.rules ops) {σ : SM} (h : BI idle cfg.rules none σ) :
    BI idle cfg.rules none (run cfg P σ ops) := by
  unfold run
  induction ops generalizing σ with
  | nil => exact h
  | cons op ops ih =>
    simp only [List.foldl_cons]
    apply ih (fun q hq => ho q (by simp [hq]))
    cases op with
    | cycle => exact bi_cycleMachine cfg hs hr P hP h
    | req q => exact (bi_request cfg hs hr h q (ho q (by simp))).1

/-- every status report in a history of the model satisfies both conditions of the busy clause -/
theorem run_busy (cfg : Cfg) (hs : cfg.hasStates = true) (hr : BusyRules cfg.rules) (P : Prog)
    (hP : BusyProg cfg.rules P) (idle : Status) (ops : List Op) (ho : BusyOps cfg.rules ops) :
    Always idle (okB cfg.rules) (run cfg P (SM.initial idle) ops).trace :=
  (bi_run cfg hs hr P hP ops ho (bi_initial idle cfg.rules)).good

end Frappy.SM
