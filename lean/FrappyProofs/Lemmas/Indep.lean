import FrappyProofs.Lemmas.ReqLoop
import FrappyModel.Wire.Dispatch
/- helper lemmas: leaving out neutral lines; the dispatcher model -/
namespace Frappy.Wire
open Frappy.Spec.C07

variable {J σ : Type}

/-- the replies to a list of lines, one per line, from dispatcher state `st` -/
def answers (T : Tables) (L : Lib J) (d : Disp σ J) : σ → List Bytes → List (Triple J)
  | _, [] => []
  | st, l :: ls => lineReply T L d st l :: answers T L d (handleLine T L d st l).2 ls

theorem replies_msg_eq_answers (T : Tables) (L : Lib J) (d : Disp σ J) :
    ∀ (ls : List Bytes) (st : σ), (replies (serveLines T L d st ls).1).map (·.msg) = answers T L d st ls
  | [], _ => by simp [serveLines, replies, answers]
  | l :: ls, st => by
    simp [serveLines, replies_append, replies_handleLine, answers, replies_msg_eq_answers T L d ls]

/-- what the decoder hands on carries the action of the request line -/
theorem decodeMsg_action (L : Lib J) (line : Bytes) (t : Triple J) (h : decodeMsg L line = some t) :
    t.action = (parts (strip line)).action := by
  unfold decodeMsg at h
  simp only at h
  split at h
  · split at h
    · cases h; rfl
    · split at h
      · cases h; rfl
      · cases h
  · cases h

/-- a line that is not a message is answered without the dispatcher -/
theorem decodeMsg_undecodable (L : Lib J) (line : Bytes) (h : undecodableB L line = true) : decodeMsg L line = none := by
  unfold undecodableB at h
  unfold decodeMsg
  simp only
  by_cases hu : L.utf8ok (strip line) = true
  · simp only [hu, Bool.not_true, Bool.false_or, Bool.and_eq_true, bne_iff_ne, ne_eq, Option.isNone_iff_eq_none] at h
    simp [hu, h.1, h.2]
  · simp [hu]

/-- a line that may be left out leaves the dispatcher in a state that answers like the one before -/
theorem handleLine_neutral (T : Tables) (L : Lib J) (d : Disp σ J) (R : σ → σ → Prop) (hd : DispNeutral T d R)
    (st : σ) (line : Bytes) (hn : Removable T L line = true) : R (handleLine T L d st line).2 st := by
  unfold handleLine nextMessage
  by_cases hb : strip line = []
  · simp only [hb, ↓reduceIte]
    exact hd.refl st
  · simp only [hb, ↓reduceIte]
    cases hdec : decodeMsg L line with
    | none => exact hd.refl st
    | some t =>
      simp only
      by_cases hh : t.action = T.helpRequest
      · simp only [hh, ↓reduceIte]; exact hd.refl st
      · simp only [hh, ↓reduceIte]
        apply hd.neutral
        rw [decodeMsg_action L line t hdec]
        simp only [Removable, Bool.or_eq_true] at hn
        rcases hn with hn | hn
        · simpa [Neutral, reqOf, hb] using hn
        · rw [decodeMsg_undecodable L line hn] at hdec; cases hdec

/-- states that answer alike give the same reply to a line and stay alike -/
theorem handleLine_same (T : Tables) (L : Lib J) (d : Disp σ J) (R : σ → σ → Prop) (hd : DispNeutral T d R)
    (s s' : σ) (h : R s s') (line : Bytes) :
    lineReply T L d s line = lineReply T L d s' line ∧ R (handleLine T L d s line).2 (handleLine T L d s' line).2 := by
  unfold lineReply handleLine
  cases nextMessage T L line with
  | bad raw => exact ⟨by trivial, h⟩
  | msg t =>
    simp only
    by_cases hh : t.action = T.helpRequest
    · simp only [hh, ↓reduceIte]; exact ⟨by trivial, h⟩
    · simp only [hh, ↓reduceIte]
      obtain ⟨h1, h2⟩ := hd.same s s' t h
      exact ⟨by rw [h1], h2⟩

/-- leaving out neutral lines: the answers to the lines that stay are the same, and the dispatcher
ends in a state that answers alike -/
theorem answers_neutral_removed (T : Tables) (L : Lib J) (d : Disp σ J) (R : σ → σ → Prop) (hd : DispNeutral T d R) :
    ∀ (m : Marked) (s s' : σ), OnlyNeutralDropped T L m → R s s' →
      keptOf m (answers T L d s (allLines m)) = answers T L d s' (keptLines m)
      ∧ R (stateAfter T L d s (allLines m)) (stateAfter T L d s' (keptLines m))
  | [], s, s', _, h => ⟨by simp [keptOf, keptLines, answers], by simpa [allLines, keptLines, stateAfter] using h⟩
  | (l, true) :: m, s, s', hm, h => by
    obtain ⟨h1, h2⟩ := handleLine_same T L d R hd s s' h l
    obtain ⟨ih1, ih2⟩ := answers_neutral_removed T L d R hd m _ _ (fun p hp => hm p (List.mem_cons_of_mem _ hp)) h2
    simp only [allLines, keptLines, List.map_cons, List.filter_cons_of_pos, answers, keptOf, stateAfter] at ih1 ih2 ⊢
    exact ⟨by rw [h1, ih1], ih2⟩
  | (l, false) :: m, s, s', hm, h => by
    have hn : Removable T L l = true := hm (l, false) (List.mem_cons_self ..) rfl
    have h2 : R (handleLine T L d s l).2 s' := hd.trans _ _ _ (handleLine_neutral T L d R hd s l hn) h
    obtain ⟨ih1, ih2⟩ := answers_neutral_removed T L d R hd m _ _ (fun p hp => hm p (List.mem_cons_of_mem _ hp)) h2
    simp only [allLines, keptLines, List.map_cons, answers, keptOf, stateAfter] at ih1 ih2 ⊢
    refine ⟨?_, ?_⟩
    · simpa using ih1
    · simpa using ih2


/-! ## the dispatcher model -/

section dispatcher

variable {ν κ : Type}

/-- what the theorems need of the dispatcher's constants: the three requests a module carries out are
the state actions -/
structure DTableFacts (T : Tables) (D : DTables) : Prop where
  read_state : D.readRequest ∈ T.stateActions
  write_state : D.writeRequest ∈ T.stateActions
  command_state : D.commandRequest ∈ T.stateActions

/-- the handlers: only `read`, `change`, `do` touch the node state; the result never depends on the
subscriptions (they are not even an argument) -/
theorem handleAction_neutral (T : Tables) (D : DTables) (N : NodeIf ν κ J) (facts : DTableFacts T D)
    (reply : Bytes) (nu : ν) (t : Triple J) (h : t.action ∉ T.stateActions) :
    (handleAction T D N reply nu t).2 = nu := by
  have h1 : t.action ≠ D.readRequest := fun e => h (e ▸ facts.read_state)
  have h2 : t.action ≠ D.writeRequest := fun e => h (e ▸ facts.write_state)
  have h3 : t.action ≠ D.commandRequest := fun e => h (e ▸ facts.command_state)
  unfold handleAction
  simp only [h1, h2, h3, ↓reduceIte]
  repeat' split
  all_goals rfl

/-- **the dispatcher is neutral**: states with the same node state answer alike, and every request
other than `read` / `change` / `do` leaves the node state as it is -/
theorem dispatch_neutral (T : Tables) (D : DTables) (N : NodeIf ν κ J) (facts : DTableFacts T D) :
    DispNeutral T (dispatch T D N) (fun a b => a.1 = b.1) where
  refl := fun _ => rfl
  trans := fun _ _ _ h1 h2 => h1.trans h2
  same := by
    intro s s' t h
    obtain ⟨nu, k⟩ := s
    obtain ⟨nu', k'⟩ := s'
    simp only at h
    subst h
    exact ⟨rfl, rfl⟩
  neutral := by
    intro s t h
    simp only [dispatch]
    split
    · rfl
    · split
      · exact handleAction_neutral T D N facts _ s.1 t h
      · rfl


theorem modReply_ok {a : Bytes} {s : Option Bytes} {m : ModResult J} {r : Triple J}
    (h : modReply a s m = .ok r) : r.action = a ∧ r.spec = s := by
  cases m with
  | ok j => simp only [modReply, DispResult.ok.injEq] at h; subst h; exact ⟨rfl, rfl⟩
  | secop c => simp [modReply] at h
  | exc => simp [modReply] at h

theorem noSpec_iff (s : Option Bytes) : noSpec s = true ↔ s.getD [] = [] := by simp [noSpec]

/-- a positive result of a handler carries the reply action it was given and the request's specifier
(`describe` without specifier: the node `.`) -/
theorem handleAction_ok (T : Tables) (D : DTables) (N : NodeIf ν κ J) (reply : Bytes) (nu : ν) (t : Triple J)
    (r : Triple J) (h : (handleAction T D N reply nu t).1 = .ok r) :
    r.action = reply ∧ (r.spec.getD [] = t.spec.getD []
      ∨ (t.action = T.describeRequest ∧ t.spec.getD [] = [] ∧ r.spec.getD [] = [46])) := by
  unfold handleAction at h
  split at h
  · cases h
  split at h
  · rename_i hdesc
    obtain ⟨h1, h2⟩ := modReply_ok h
    refine ⟨h1, ?_⟩
    by_cases hs : noSpec t.spec = true
    · right; rw [h2]; simp only [hs, ↓reduceIte, Option.getD_some]
      exact ⟨hdesc, (noSpec_iff _).1 hs, by trivial⟩
    · left; rw [h2]; simp [hs]
  split at h
  · split at h
    · cases h
    · cases h; exact ⟨rfl, Or.inl rfl⟩
  split at h
  · split at h
    · cases h
    · obtain ⟨h1, h2⟩ := modReply_ok h; exact ⟨h1, Or.inl (by rw [h2])⟩
  split at h
  · split at h
    · cases h
    · obtain ⟨h1, h2⟩ := modReply_ok h; exact ⟨h1, Or.inl (by rw [h2])⟩
  split at h
  · split at h
    · cases h
    · split at h
      · cases h
      · obtain ⟨h1, h2⟩ := modReply_ok h; exact ⟨h1, Or.inl (by rw [h2])⟩
  split at h
  · split at h
    · cases h
    · split at h
      · rename_i hs
        cases h; exact ⟨rfl, Or.inl (by simpa using ((noSpec_iff _).1 hs).symm)⟩
      · split at h
        · cases h
        · cases h; exact ⟨rfl, Or.inl rfl⟩
  split at h
  · split at h
    · cases h
    · cases h
      refine ⟨rfl, Or.inl ?_⟩
      by_cases hs : noSpec t.spec = true
      · simpa [hs] using ((noSpec_iff _).1 hs).symm
      · simp [hs]
  split at h
  · split at h
    · cases h; exact ⟨rfl, Or.inl rfl⟩
    · cases h
    · cases h
  · cases h

theorem modReply_secop {a : Bytes} {s : Option Bytes} {m : ModResult J} {c : Bytes}
    (h : modReply a s m = .secop c) : m = .secop c := by
  cases m with
  | ok j => simp [modReply] at h
  | secop c' => simp only [modReply, DispResult.secop.injEq] at h; rw [h]
  | exc => simp [modReply] at h

/-- the SECoP errors the node and its modules raise carry class names out of `classes` -/
structure NodeClasses (classes : List Bytes) (N : NodeIf ν κ J) : Prop where
  describe : ∀ s c, N.describe s = .secop c → c ∈ classes
  activate : ∀ s c, N.activateCheck s = some c → c ∈ classes
  logging : ∀ s d c, N.logging s d = .secop c → c ∈ classes
  read : ∀ nu m p c, (N.read nu m p).1 = .secop c → c ∈ classes
  change : ∀ nu m p v c, (N.change nu m p v).1 = .secop c → c ∈ classes
  exec : ∀ nu m p v c, (N.exec nu m p v).1 = .secop c → c ∈ classes

/-- a SECoP error coming out of a handler is the dispatcher's own `ProtocolError` or was raised by the node -/
theorem handleAction_secop (T : Tables) (D : DTables) (N : NodeIf ν κ J) (classes : List Bytes) (hN : NodeClasses classes N)
    (hp : D.protocolError ∈ classes) (reply : Bytes) (nu : ν) (t : Triple J) (c : Bytes)
    (h : (handleAction T D N reply nu t).1 = .secop c) : c ∈ classes := by
  have own : ∀ {x : Bytes}, DispResult.secop (J := J) D.protocolError = .secop x → x ∈ classes := by
    intro x hx; cases hx; exact hp
  by_cases h1 : t.action = T.helpRequest
  · unfold handleAction at h
    rw [if_pos h1] at h
    cases h
  by_cases h2 : t.action = T.describeRequest
  · unfold handleAction at h
    rw [if_neg h1, if_pos h2] at h
    exact hN.describe _ c (modReply_secop h)
  by_cases h3 : t.action = D.pingRequest
  · unfold handleAction at h
    rw [if_neg h1, if_neg h2, if_pos h3] at h
    split at h
    · exact own h
    · cases h
  by_cases h4 : t.action = D.readRequest
  · unfold handleAction at h
    rw [if_neg h1, if_neg h2, if_neg h3, if_pos h4] at h
    split at h
    · exact own h
    · exact hN.read _ _ _ c (modReply_secop h)
  by_cases h5 : t.action = D.writeRequest
  · unfold handleAction at h
    rw [if_neg h1, if_neg h2, if_neg h3, if_neg h4, if_pos h5] at h
    split at h
    · exact own h
    · exact hN.change _ _ _ _ c (modReply_secop h)
  by_cases h6 : t.action = D.commandRequest
  · unfold handleAction at h
    rw [if_neg h1, if_neg h2, if_neg h3, if_neg h4, if_neg h5, if_pos h6] at h
    split at h
    · exact own h
    · split at h
      · exact own h
      · exact hN.exec _ _ _ _ c (modReply_secop h)
  by_cases h7 : t.action = D.activateRequest
  · unfold handleAction at h
    rw [if_neg h1, if_neg h2, if_neg h3, if_neg h4, if_neg h5, if_neg h6, if_pos h7] at h
    split at h
    · exact own h
    · split at h
      · cases h
      · split at h
        · rename_i cls hcls
          cases h
          exact hN.activate _ _ hcls
        · cases h
  by_cases h8 : t.action = D.deactivateRequest
  · unfold handleAction at h
    rw [if_neg h1, if_neg h2, if_neg h3, if_neg h4, if_neg h5, if_neg h6, if_neg h7, if_pos h8] at h
    split at h
    · exact own h
    · cases h
  by_cases h9 : t.action = D.loggingRequest
  · unfold handleAction at h
    rw [if_neg h1, if_neg h2, if_neg h3, if_neg h4, if_neg h5, if_neg h6, if_neg h7, if_neg h8, if_pos h9] at h
    split at h
    · cases h
    · rename_i c' hc'
      cases h
      exact hN.logging _ _ _ hc'
    · cases h
  · unfold handleAction at h
    rw [if_neg h1, if_neg h2, if_neg h3, if_neg h4, if_neg h5, if_neg h6, if_neg h7, if_neg h8, if_neg h9] at h
    cases h

/-- **dispatch_reply_fits** — every positive reply of the dispatcher belongs to the request: the reply
action `REQUEST2REPLY` gives (or the identification reply) and the request's specifier -/
theorem dispatch_reply_fits (T : Tables) (D : DTables) (N : NodeIf ν κ J) (st : ν × κ) (t r : Triple J)
    (h : (dispatch T D N st t).1.res = .ok r) :
    FitsOk T ⟨t.action, t.spec.getD []⟩ r.action (r.spec.getD []) := by
  simp only [dispatch] at h
  by_cases hid : t.action = T.identRequest
  · simp only [hid, ↓reduceIte, DispResult.ok.injEq] at h
    subst h
    exact ⟨by simp [expectedReply, hid], Or.inr (Or.inl ⟨Or.inl hid, rfl⟩)⟩
  · simp only [hid, ↓reduceIte] at h
    cases hl : T.request2reply.lookup t.action with
    | none => simp [hl] at h
    | some reply =>
      simp only [hl] at h
      obtain ⟨h1, h2⟩ := handleAction_ok T D N reply st.1 t r h
      refine ⟨by simp [expectedReply, hid, hl, h1], ?_⟩
      rcases h2 with h2 | ⟨ha, hs, hr⟩
      · exact Or.inl h2
      · exact Or.inr (Or.inr ⟨ha, hs, hr⟩)


/-- **dispatch_answers** — the dispatcher model does its part of "the reply belongs to the request" for every node whose
errors carry class names of errors.py: positive replies fit (`dispatch_reply_fits`), raised classes are known -/
theorem dispatch_answers (T : Tables) (D : DTables) (N : NodeIf ν κ J) (hN : NodeClasses T.errorClasses N)
    (hp : D.protocolError ∈ T.errorClasses) : DispAnswers T (dispatch T D N) := by
  intro st t
  cases hr : (dispatch T D N st t).1.res with
  | ok r => exact dispatch_reply_fits T D N st t r hr
  | secop c =>
    simp only [dispatch] at hr
    show c ∈ T.errorClasses
    by_cases hid : t.action = T.identRequest
    · simp only [hid, ↓reduceIte] at hr
      cases hr
    · simp only [hid, ↓reduceIte] at hr
      cases hl : T.request2reply.lookup t.action with
      | none => simp only [hl, DispResult.secop.injEq] at hr; rw [← hr]; exact hp
      | some reply =>
        simp only [hl] at hr
        exact handleAction_secop T D N T.errorClasses hN hp reply st.1 t c hr
  | exc => trivial
  | garbage => trivial

/-- the node hands only finite data (no NaN, no ±Infinity) to the dispatcher, and `logging` accepts
only finite levels -/
structure NodeFinite (fin : J → Bool) (N : NodeIf ν κ J) : Prop where
  describe : ∀ s j, N.describe s = .ok j → fin j = true
  pong : fin N.pong = true
  read : ∀ nu m p j, (N.read nu m p).1 = .ok j → fin j = true
  change : ∀ nu m p v j, (N.change nu m p v).1 = .ok j → fin j = true
  exec : ∀ nu m c v j, (N.exec nu m c v).1 = .ok j → fin j = true
  events : ∀ nu k t, ∀ m ∈ N.events nu k t, ∀ j, m.data = some j → fin j = true
  logging : ∀ s j, N.logging s (some j) = .ok () → fin j = true

theorem modReply_data {a : Bytes} {s : Option Bytes} {m : ModResult J} {r : Triple J}
    (h : modReply a s m = .ok r) : ∃ j, m = .ok j ∧ r.data = some j := by
  cases m with
  | ok j => simp only [modReply, DispResult.ok.injEq] at h; subst h; exact ⟨j, rfl, rfl⟩
  | secop c => simp [modReply] at h
  | exc => simp [modReply] at h

theorem handleAction_finite (T : Tables) (D : DTables) (N : NodeIf ν κ J) (fin : J → Bool) (hN : NodeFinite fin N)
    (reply : Bytes) (nu : ν) (t : Triple J) (r : Triple J) (h : (handleAction T D N reply nu t).1 = .ok r)
    (j : J) (hj : r.data = some j) : fin j = true := by
  unfold handleAction at h
  split at h
  · cases h
  split at h
  · obtain ⟨j', h1, h2⟩ := modReply_data h
    rw [h2] at hj; cases hj
    exact hN.describe _ _ h1
  split at h
  · split at h
    · cases h
    · cases h; cases hj; exact hN.pong
  split at h
  · split at h
    · cases h
    · obtain ⟨j', h1, h2⟩ := modReply_data h
      rw [h2] at hj; cases hj
      exact hN.read _ _ _ _ h1
  split at h
  · split at h
    · cases h
    · obtain ⟨j', h1, h2⟩ := modReply_data h
      rw [h2] at hj; cases hj
      exact hN.change _ _ _ _ _ h1
  split at h
  · split at h
    · cases h
    · split at h
      · cases h
      · obtain ⟨j', h1, h2⟩ := modReply_data h
        rw [h2] at hj; cases hj
        exact hN.exec _ _ _ _ _ h1
  split at h
  · split at h
    · cases h
    · split at h
      · cases h; cases hj
      · split at h
        · cases h
        · cases h; cases hj
  split at h
  · split at h
    · cases h
    · cases h; cases hj
  split at h
  · split at h
    · rename_i hl
      cases h
      simp only at hj
      rw [hj] at hl
      exact hN.logging _ _ hl
    · cases h
    · cases h
  · cases h

/-- with a node that hands over only finite data, the dispatcher hands only finite data to the wire layer -/
theorem dispatch_finite (T : Tables) (D : DTables) (N : NodeIf ν κ J) (fin : J → Bool) (hN : NodeFinite fin N) :
    ∀ st t, (∀ m ∈ (dispatch T D N st t).1.async, ∀ j, m.data = some j → fin j = true) ∧
      ∀ r, (dispatch T D N st t).1.res = .ok r → ∀ j, r.data = some j → fin j = true := by
  intro st t
  refine ⟨fun m hm j hj => hN.events st.1 st.2 t m hm j hj, ?_⟩
  intro r h j hj
  simp only [dispatch] at h
  by_cases hid : t.action = T.identRequest
  · simp only [hid, ↓reduceIte, DispResult.ok.injEq] at h
    subst h; cases hj
  · simp only [hid, ↓reduceIte] at h
    cases hl : T.request2reply.lookup t.action with
    | none => simp [hl] at h
    | some reply =>
      simp only [hl] at h
      exact handleAction_finite T D N fin hN reply st.1 t r h j hj

end dispatcher

end Frappy.Wire
