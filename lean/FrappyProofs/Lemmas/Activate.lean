import FrappyModel.Spec.C08
/-
Helper lemmas for C08: monitors and appended traces, the lock discipline of the model, and the
inductive invariants behind the property theorems.
-/
namespace Frappy.Activate
open Frappy.Spec.C08

/-! ## monitors and appended events -/

theorem Mon.acceptsFrom_append {S : Type} (M : Mon S) (s : S) (tr : List Obs) (o : Obs) :
    M.acceptsFrom s (tr ++ [o]) = (M.acceptsFrom s tr && M.ok (M.after s tr) o) := by
  induction tr generalizing s with
  | nil => simp [Mon.acceptsFrom, Mon.after]
  | cons x xs ih => simp [Mon.acceptsFrom, Mon.after, ih, Bool.and_assoc]

theorem Mon.after_append {S : Type} (M : Mon S) (s : S) (tr : List Obs) (o : Obs) :
    M.after s (tr ++ [o]) = M.next (M.after s tr) o := by
  simp [Mon.after, List.foldl_append]

/-! ## which locks a program counter implies -/

def hHoldsDisp : HPc → Bool
  | .idle => false
  | .start _ => false
  | .wantSub r => r != .disconnect
  | .relSub r => r != .disconnect
  | .wantUpd _ _ _ => true
  | .snapMod _ _ _ _ => true
  | .snapSend _ _ _ _ _ _ => true
  | .wantAcc _ _ _ _ _ => true
  | .relAcc _ _ _ _ _ => true
  | .relDisp _ _ => true
  | .rep _ _ => false
  | .done => false

def hHoldsSub : HPc → Bool
  | .relSub _ => true
  | _ => false

def hHoldsUpd : HPc → Mod → Bool
  | .snapMod _ m _ _, m' => m' == m
  | .snapSend _ m _ _ _ _, m' => m' == m
  | _, _ => false

def uHoldsSub : UPc → Bool
  | .sending _ _ _ _ => true
  | _ => false

def uHoldsUpd : UPc → Mod → Bool
  | .wantSub m _ _, m' => m' == m
  | .sending m _ _ _, m' => m' == m
  | .relUpd m _, m' => m' == m
  | _, _ => false

theorem afterSnap_holds (s : Scope) (l : List Mod) :
    hHoldsDisp (afterSnap s l) = true ∧ hHoldsSub (afterSnap s l) = false ∧ ∀ m, hHoldsUpd (afterSnap s l) m = false := by
  cases l <;> simp [afterSnap, hHoldsDisp, hHoldsSub, hHoldsUpd]

@[simp] theorem hHoldsDisp_idle  : hHoldsDisp .idle = false := rfl
@[simp] theorem hHoldsSub_idle  : hHoldsSub .idle = false := rfl
@[simp] theorem hHoldsUpd_idle  {m' : Mod} : hHoldsUpd .idle m' = false := rfl
@[simp] theorem hHoldsDisp_start {r} : hHoldsDisp (.start r) = false := rfl
@[simp] theorem hHoldsSub_start {r} : hHoldsSub (.start r) = false := rfl
@[simp] theorem hHoldsUpd_start {r} {m' : Mod} : hHoldsUpd (.start r) m' = false := rfl
@[simp] theorem hHoldsDisp_wantSub {r} : hHoldsDisp (.wantSub r) = (r != .disconnect) := rfl
@[simp] theorem hHoldsSub_wantSub {r} : hHoldsSub (.wantSub r) = false := rfl
@[simp] theorem hHoldsUpd_wantSub {r} {m' : Mod} : hHoldsUpd (.wantSub r) m' = false := rfl
@[simp] theorem hHoldsDisp_relSub {r} : hHoldsDisp (.relSub r) = (r != .disconnect) := rfl
@[simp] theorem hHoldsSub_relSub {r} : hHoldsSub (.relSub r) = true := rfl
@[simp] theorem hHoldsUpd_relSub {r} {m' : Mod} : hHoldsUpd (.relSub r) m' = false := rfl
@[simp] theorem hHoldsDisp_wantUpd {s} {m} {rest} : hHoldsDisp (.wantUpd s m rest) = true := rfl
@[simp] theorem hHoldsSub_wantUpd {s} {m} {rest} : hHoldsSub (.wantUpd s m rest) = false := rfl
@[simp] theorem hHoldsUpd_wantUpd {s} {m} {rest} {m' : Mod} : hHoldsUpd (.wantUpd s m rest) m' = false := rfl
@[simp] theorem hHoldsDisp_snapMod {s} {m} {ps} {rest} : hHoldsDisp (.snapMod s m ps rest) = true := rfl
@[simp] theorem hHoldsSub_snapMod {s} {m} {ps} {rest} : hHoldsSub (.snapMod s m ps rest) = false := rfl
@[simp] theorem hHoldsUpd_snapMod {s} {m} {ps} {rest} {m' : Mod} : hHoldsUpd (.snapMod s m ps rest) m' = (m' == m) := rfl
@[simp] theorem hHoldsDisp_snapSend {s} {m} {p} {e} {ps} {rest} : hHoldsDisp (.snapSend s m p e ps rest) = true := rfl
@[simp] theorem hHoldsSub_snapSend {s} {m} {p} {e} {ps} {rest} : hHoldsSub (.snapSend s m p e ps rest) = false := rfl
@[simp] theorem hHoldsUpd_snapSend {s} {m} {p} {e} {ps} {rest} {m' : Mod} : hHoldsUpd (.snapSend s m p e ps rest) m' = (m' == m) := rfl
@[simp] theorem hHoldsDisp_wantAcc {w} {m} {p} {e} {n} : hHoldsDisp (.wantAcc w m p e n) = true := rfl
@[simp] theorem hHoldsSub_wantAcc {w} {m} {p} {e} {n} : hHoldsSub (.wantAcc w m p e n) = false := rfl
@[simp] theorem hHoldsUpd_wantAcc {w} {m} {p} {e} {n} {m' : Mod} : hHoldsUpd (.wantAcc w m p e n) m' = false := rfl
@[simp] theorem hHoldsDisp_relAcc {w} {m} {p} {e} {n} : hHoldsDisp (.relAcc w m p e n) = true := rfl
@[simp] theorem hHoldsSub_relAcc {w} {m} {p} {e} {n} : hHoldsSub (.relAcc w m p e n) = false := rfl
@[simp] theorem hHoldsUpd_relAcc {w} {m} {p} {e} {n} {m' : Mod} : hHoldsUpd (.relAcc w m p e n) m' = false := rfl
@[simp] theorem hHoldsDisp_relDisp {r} {ok} : hHoldsDisp (.relDisp r ok) = true := rfl
@[simp] theorem hHoldsSub_relDisp {r} {ok} : hHoldsSub (.relDisp r ok) = false := rfl
@[simp] theorem hHoldsUpd_relDisp {r} {ok} {m' : Mod} : hHoldsUpd (.relDisp r ok) m' = false := rfl
@[simp] theorem hHoldsDisp_rep {r} {ok} : hHoldsDisp (.rep r ok) = false := rfl
@[simp] theorem hHoldsSub_rep {r} {ok} : hHoldsSub (.rep r ok) = false := rfl
@[simp] theorem hHoldsUpd_rep {r} {ok} {m' : Mod} : hHoldsUpd (.rep r ok) m' = false := rfl
@[simp] theorem hHoldsDisp_done  : hHoldsDisp .done = false := rfl
@[simp] theorem hHoldsSub_done  : hHoldsSub .done = false := rfl
@[simp] theorem hHoldsUpd_done  {m' : Mod} : hHoldsUpd .done m' = false := rfl
@[simp] theorem uHoldsSub_idle  : uHoldsSub .idle = false := rfl
@[simp] theorem uHoldsUpd_idle  {m' : Mod} : uHoldsUpd .idle m' = false := rfl
@[simp] theorem uHoldsSub_wantSub {m} {p} {e} : uHoldsSub (.wantSub m p e) = false := rfl
@[simp] theorem uHoldsUpd_wantSub {m} {p} {e} {m' : Mod} : uHoldsUpd (.wantSub m p e) m' = (m' == m) := rfl
@[simp] theorem uHoldsSub_sending {m} {p} {e} {l} : uHoldsSub (.sending m p e l) = true := rfl
@[simp] theorem uHoldsUpd_sending {m} {p} {e} {l} {m' : Mod} : uHoldsUpd (.sending m p e l) m' = (m' == m) := rfl
@[simp] theorem uHoldsSub_relUpd {m} {em} : uHoldsSub (.relUpd m em) = false := rfl
@[simp] theorem uHoldsUpd_relUpd {m} {em} {m' : Mod} : uHoldsUpd (.relUpd m em) m' = (m' == m) := rfl
@[simp] theorem uHoldsSub_done  : uHoldsSub .done = false := rfl
@[simp] theorem uHoldsUpd_done  {m' : Mod} : uHoldsUpd .done m' = false := rfl

@[simp] theorem tableWrite_disp (σ c r) : (tableWrite σ c r).disp = σ.disp := by
  cases r <;> (try rename_i s; cases s) <;> rfl
@[simp] theorem tableWrite_sub (σ c r) : (tableWrite σ c r).sub = σ.sub := by
  cases r <;> (try rename_i s; cases s) <;> rfl
@[simp] theorem tableWrite_upd (σ c r) : (tableWrite σ c r).upd = σ.upd := by
  cases r <;> (try rename_i s; cases s) <;> rfl
@[simp] theorem tableWrite_hpc (σ c r) : (tableWrite σ c r).hpc = σ.hpc := by
  cases r <;> (try rename_i s; cases s) <;> rfl
@[simp] theorem tableWrite_upc (σ c r) : (tableWrite σ c r).upc = σ.upc := by
  cases r <;> (try rename_i s; cases s) <;> rfl
@[simp] theorem tableWrite_hscript (σ c r) : (tableWrite σ c r).hscript = σ.hscript := by
  cases r <;> (try rename_i s; cases s) <;> rfl
@[simp] theorem tableWrite_uscript (σ c r) : (tableWrite σ c r).uscript = σ.uscript := by
  cases r <;> (try rename_i s; cases s) <;> rfl
@[simp] theorem tableWrite_cache (σ c r) : (tableWrite σ c r).cache = σ.cache := by
  cases r <;> (try rename_i s; cases s) <;> rfl
@[simp] theorem tableWrite_trace (σ c r) : (tableWrite σ c r).trace = σ.trace := by
  cases r <;> (try rename_i s; cases s) <;> rfl

macro "step_cases" hs:ident : tactic =>
  `(tactic| (repeat' split at $hs:ident
             all_goals first | (simp only [Option.some.injEq] at $hs:ident; subst $hs:ident) | (cases $hs:ident)))


@[simp] theorem firstPc_disp (r) : hHoldsDisp (firstPc r) = false := by cases r <;> simp [firstPc]
@[simp] theorem firstPc_sub (r) : hHoldsSub (firstPc r) = false := by cases r <;> simp [firstPc]
@[simp] theorem firstPc_upd (r m) : hHoldsUpd (firstPc r) m = false := by cases r <;> simp [firstPc]
@[simp] theorem firstPc_ne (r) : firstPc r ≠ .start .disconnect := by cases r <;> simp [firstPc]
@[simp] theorem afterSnap_disp (s l) : hHoldsDisp (afterSnap s l) = true := (afterSnap_holds s l).1
@[simp] theorem afterSnap_sub (s l) : hHoldsSub (afterSnap s l) = false := (afterSnap_holds s l).2.1
@[simp] theorem afterSnap_upd (s l m) : hHoldsUpd (afterSnap s l) m = false := (afterSnap_holds s l).2.2 m
@[simp] theorem afterSnap_ne (s l) : afterSnap s l ≠ .start .disconnect := by cases l <;> simp [afterSnap]
@[simp] theorem afterTable_disp (cfg c r) : hHoldsDisp (afterTable cfg c r) = (r != .disconnect) := by
  cases r <;> simp [afterTable]
@[simp] theorem afterTable_sub (cfg c r) : hHoldsSub (afterTable cfg c r) = false := by
  cases r <;> simp [afterTable]
@[simp] theorem afterTable_upd (cfg c r m) : hHoldsUpd (afterTable cfg c r) m = false := by
  cases r <;> simp [afterTable]
@[simp] theorem afterTable_ne (cfg c r) : afterTable cfg c r ≠ .start .disconnect := by cases r <;> simp [afterTable]
@[simp] theorem afterCall_disp (w m p e n) : hHoldsDisp (afterCall w m p e n) = true := by
  unfold afterCall; split <;> simp
@[simp] theorem afterCall_sub (w m p e n) : hHoldsSub (afterCall w m p e n) = false := by
  unfold afterCall; split <;> simp
@[simp] theorem afterCall_upd (w m p e n m') : hHoldsUpd (afterCall w m p e n) m' = false := by
  unfold afterCall; split <;> simp
@[simp] theorem afterCall_ne (w m p e n) : afterCall w m p e n ≠ .start .disconnect := by
  unfold afterCall; split <;> simp
@[simp] theorem afterStart_disp (cfg r) (h : r ≠ .disconnect) : hHoldsDisp (afterStart cfg r) = true := by
  cases r <;> simp_all [afterStart] <;> split <;> simp
@[simp] theorem afterStart_sub (cfg r) : hHoldsSub (afterStart cfg r) = false := by
  cases r <;> simp [afterStart] <;> split <;> simp
@[simp] theorem afterStart_upd (cfg r m) : hHoldsUpd (afterStart cfg r) m = false := by
  cases r <;> simp [afterStart] <;> split <;> simp
@[simp] theorem afterStart_ne (cfg r) : afterStart cfg r ≠ .start .disconnect := by
  cases r <;> simp [afterStart] <;> split <;> simp

theorem stepUG_some {cfg : Cfg} {σ σ' : State} {k : Nat} {arg : Conn} (h : stepUG cfg σ k arg = some σ') :
    stepU cfg σ k arg = some σ' := by
  unfold stepUG at h
  split at h
  · exact h
  · cases h


def lockMove {T : Type} (o : Option T) (t : T) (b b' : Bool) : Option T :=
  if b' && !b then some t else if b && !b' then none else o

theorem lockMove_inv {T : Type} [DecidableEq T] (holds holds' : T → Bool) (o : Option T) (t : T)
    (h : ∀ x, holds x = true ↔ o = some x) (hoth : ∀ x, x ≠ t → holds' x = holds x)
    (hg : holds' t = true → holds t = false → o = none) :
    ∀ x, holds' x = true ↔ lockMove o t (holds t) (holds' t) = some x := by
  intro x
  by_cases hx : x = t
  · subst hx
    have := h x
    cases h1 : holds x <;> cases h2 : holds' x <;> simp_all [lockMove]
  · rw [hoth x hx]
    have h1 := h x
    have h2 := h t
    cases h3 : holds t <;> cases h4 : holds' t <;> simp_all [lockMove]
    all_goals (intro h5; exact hx h5.symm)

theorem stepH_frame (cfg : Cfg) (σ σ' : State) (c : Conn) (hn : σ.hpc c ≠ .start .disconnect)
    (hs : stepH cfg σ c = some σ') :
    σ'.hpc = set σ.hpc c (σ'.hpc c) ∧ σ'.upc = σ.upc ∧ (∀ k, k ≠ own c → σ'.uscript k = σ.uscript k) ∧ σ'.cache = σ.cache ∧
    σ'.disp = lockMove σ.disp c (hHoldsDisp (σ.hpc c)) (hHoldsDisp (σ'.hpc c)) ∧
    (hHoldsDisp (σ'.hpc c) = true → hHoldsDisp (σ.hpc c) = false → σ.disp = none) ∧
    σ'.sub = lockMove σ.sub (.h c) (hHoldsSub (σ.hpc c)) (hHoldsSub (σ'.hpc c)) ∧
    (hHoldsSub (σ'.hpc c) = true → hHoldsSub (σ.hpc c) = false → σ.sub = none) ∧
    (∀ m, σ'.upd m = lockMove (σ.upd m) (.h c) (hHoldsUpd (σ.hpc c) m) (hHoldsUpd (σ'.hpc c) m)) ∧
    (∀ m, hHoldsUpd (σ'.hpc c) m = true → hHoldsUpd (σ.hpc c) m = false → σ.upd m = none) ∧
    σ'.hpc c ≠ .start .disconnect := by
  unfold stepH at hs
  step_cases hs
  all_goals
    refine ⟨?_, ?_, ?_, ?_, ?_, ?_, ?_, ?_, ?_, ?_, ?_⟩
    all_goals
      try intro m
      simp_all [lockMove, set_apply, Subtype.ext_iff]
      try (intro h; cases Subtype.ext h; assumption)


theorem stepU_frame (cfg : Cfg) (σ σ' : State) (k : Nat) (arg : Conn) (hs : stepU cfg σ k arg = some σ') :
    σ'.upc = set σ.upc k (σ'.upc k) ∧ σ'.hpc = σ.hpc ∧ σ'.hscript = σ.hscript ∧ σ'.disp = σ.disp ∧
    σ'.active = σ.active ∧ σ'.subs = σ.subs ∧
    σ'.sub = lockMove σ.sub (.u k) (uHoldsSub (σ.upc k)) (uHoldsSub (σ'.upc k)) ∧
    (uHoldsSub (σ'.upc k) = true → uHoldsSub (σ.upc k) = false → σ.sub = none) ∧
    (∀ m, σ'.upd m = lockMove (σ.upd m) (.u k) (uHoldsUpd (σ.upc k) m) (uHoldsUpd (σ'.upc k) m)) ∧
    (∀ m, uHoldsUpd (σ'.upc k) m = true → uHoldsUpd (σ.upc k) m = false → σ.upd m = none) := by
  unfold stepU at hs
  step_cases hs
  all_goals
    refine ⟨?_, ?_, ?_, ?_, ?_, ?_, ?_, ?_, ?_, ?_⟩
    all_goals
      try intro m
      simp_all [lockMove, set_apply, Subtype.ext_iff]
      try (intro h; cases Subtype.ext h; assumption)

def holdsSub (σ : State) : Tid → Bool
  | .h c => hHoldsSub (σ.hpc c)
  | .u k => uHoldsSub (σ.upc k)

def holdsUpd (σ : State) (m : Mod) : Tid → Bool
  | .h c => hHoldsUpd (σ.hpc c) m
  | .u k => uHoldsUpd (σ.upc k) m

/-- the lock discipline: a lock is owned by exactly the thread whose program counter lies in the region it guards -/
structure LockInv (σ : State) : Prop where
  disp : ∀ c, hHoldsDisp (σ.hpc c) = true ↔ σ.disp = some c
  sub : ∀ t, holdsSub σ t = true ↔ σ.sub = some t
  upd : ∀ m t, holdsUpd σ m t = true ↔ σ.upd m = some t
  noStartDisc : ∀ c, σ.hpc c ≠ .start .disconnect

theorem lockInv_init (hs us cache) : LockInv (init hs us cache) := by
  constructor
  · intro c; simp [init]
  · intro t; cases t <;> simp [init, holdsSub]
  · intro m t; cases t <;> simp [init, holdsUpd]
  · intro c; simp [init]

theorem lockInv_stepH (cfg : Cfg) (σ σ' : State) (c : Conn) (hI : LockInv σ) (hs : stepH cfg σ c = some σ') :
    LockInv σ' := by
  obtain ⟨f1, f2, _, _, f5, f6, f7, f8, f9, f10, f11⟩ := stepH_frame cfg σ σ' c (hI.noStartDisc c) hs
  have hoth : ∀ x, x ≠ c → σ'.hpc x = σ.hpc x := by intro x hx; rw [f1]; simp [set_apply, hx]
  constructor
  · rw [f5]
    exact lockMove_inv (fun x => hHoldsDisp (σ.hpc x)) (fun x => hHoldsDisp (σ'.hpc x)) σ.disp c hI.disp
      (by intro x hx; show hHoldsDisp (σ'.hpc x) = hHoldsDisp (σ.hpc x); rw [hoth x hx]) f6
  · rw [f7]
    exact lockMove_inv (holdsSub σ) (holdsSub σ') σ.sub (.h c) hI.sub
      (by intro t ht; cases t with
          | h x => simp only [holdsSub]; rw [hoth x (by intro h; exact ht (by rw [h]))]
          | u k => simp only [holdsSub, f2]) f8
  · intro m
    rw [f9 m]
    exact lockMove_inv (holdsUpd σ m) (holdsUpd σ' m) (σ.upd m) (.h c) (hI.upd m)
      (by intro t ht; cases t with
          | h x => simp only [holdsUpd]; rw [hoth x (by intro h; exact ht (by rw [h]))]
          | u k => simp only [holdsUpd, f2]) (f10 m)
  · intro x
    by_cases hx : x = c
    · rw [hx]; exact f11
    · rw [hoth x hx]; exact hI.noStartDisc x

theorem lockInv_stepU (cfg : Cfg) (σ σ' : State) (k : Nat) (arg : Conn) (hI : LockInv σ)
    (hs : stepU cfg σ k arg = some σ') : LockInv σ' := by
  obtain ⟨f1, f2, _, f4, _, _, f8, f9, f10, f11⟩ := stepU_frame cfg σ σ' k arg hs
  have hoth : ∀ x, x ≠ k → σ'.upc x = σ.upc x := by intro x hx; rw [f1]; simp [set_apply, hx]
  constructor
  · rw [f4, f2]; exact hI.disp
  · rw [f8]
    exact lockMove_inv (holdsSub σ) (holdsSub σ') σ.sub (.u k) hI.sub
      (by intro t ht; cases t with
          | u x => simp only [holdsSub]; rw [hoth x (by intro h; exact ht (by rw [h]))]
          | h c => simp only [holdsSub, f2]) f9
  · intro m
    rw [f10 m]
    exact lockMove_inv (holdsUpd σ m) (holdsUpd σ' m) (σ.upd m) (.u k) (hI.upd m)
      (by intro t ht; cases t with
          | u x => simp only [holdsUpd]; rw [hoth x (by intro h; exact ht (by rw [h]))]
          | h c => simp only [holdsUpd, f2]) (f11 m)
  · rw [f2]; exact hI.noStartDisc

theorem lockInv_step (cfg : Cfg) (σ σ' : State) (a : Act) (hI : LockInv σ) (hs : step cfg σ a = some σ') :
    LockInv σ' := by
  unfold step at hs
  split at hs
  · exact lockInv_stepH cfg σ σ' _ hI hs
  · exact lockInv_stepU cfg σ σ' _ _ hI (stepUG_some hs)

theorem lockInv_reach (cfg : Cfg) (hs us cache) (σ : State) (h : Reach cfg (init hs us cache) σ) : LockInv σ := by
  induction h with
  | init => exact lockInv_init hs us cache
  | step a _ hstep ih => exact lockInv_step cfg _ _ a ih hstep

/-! ## tables, scopes and the Silent invariant -/

/-! ## names: keys of subscriptions are strings -/

theorem takeWhile_colon (l p : Name) (h : colon ∉ l) :
    (l ++ colon :: p).takeWhile (fun ch => ch != colon) = l := by
  induction l with
  | nil => simp [List.takeWhile]
  | cons x xs ih =>
    have hx : x ≠ colon := by intro e; exact h (by simp [e])
    have hxs : colon ∉ xs := by intro e; exact h (by simp [e])
    simp [List.takeWhile, hx, ih hxs]

theorem modPart_pkey (m : Mod) (p : Par) : modPart (pkey m p) = m.val :=
  takeWhile_colon m.val p m.property

theorem key_split (l l' p p' : Name) (h : colon ∉ l) (h' : colon ∉ l')
    (e : l ++ colon :: p = l' ++ colon :: p') : l = l' ∧ p = p' := by
  have h1 := congrArg (List.takeWhile (fun ch => ch != colon)) e
  rw [takeWhile_colon l p h, takeWhile_colon l' p' h'] at h1
  subst h1
  have := List.append_cancel_left e
  exact ⟨rfl, by simpa using this⟩

theorem pkey_inj (m m' : Mod) (p p' : Par) : pkey m p = pkey m' p' ↔ m = m' ∧ p = p' := by
  constructor
  · intro e
    obtain ⟨h1, h2⟩ := key_split _ _ _ _ m.property m'.property e
    exact ⟨Subtype.ext h1, h2⟩
  · rintro ⟨rfl, rfl⟩; rfl

theorem pkey_ne_mod (m m' : Mod) (p : Par) : pkey m p ≠ m'.val := by
  intro e
  apply m'.property
  rw [← e]; simp [pkey]

theorem prefix_key (l l' p : Name) (h : colon ∉ l) (h' : colon ∉ l') :
    (l ++ [colon]).isPrefixOf (l' ++ colon :: p) = true ↔ l = l' := by
  rw [List.isPrefixOf_iff_prefix]
  constructor
  · rintro ⟨t, ht⟩
    have : l ++ colon :: t = l' ++ colon :: p := by simpa using ht
    exact (key_split _ _ _ _ h h' this).1
  · rintro rfl
    exact ⟨p, by simp⟩

theorem not_prefix_mod (l l' : Name) (h' : colon ∉ l') : (l ++ [colon]).isPrefixOf l' = false := by
  cases hb : (l ++ [colon]).isPrefixOf l' with
  | false => rfl
  | true =>
    rw [List.isPrefixOf_iff_prefix] at hb
    obtain ⟨t, ht⟩ := hb
    exact absurd (by rw [← ht]; simp) h'

theorem contains_colon_mod (m : Mod) : m.val.contains colon = false := by
  cases h : m.val.contains colon with
  | false => rfl
  | true => exact absurd (by simpa using h) m.property

theorem contains_colon_pkey (m : Mod) (p : Par) : (pkey m p).contains colon = true := by
  simp [pkey]

/-- the string tests of `unsubscribe` implement "the same scope, or a parameter of the module" -/
theorem unsubKeys_iff_cancels (d a : Scope) (hd : d ≠ .all) (ha : a ≠ .all) :
    unsubKeys d.key a.key = true ↔ cancels d a = true := by
  cases d with
  | all => exact absurd rfl hd
  | mod m =>
    cases a with
    | all => exact absurd rfl ha
    | mod m' =>
      simp only [unsubKeys, Scope.key, contains_colon_mod, not_prefix_mod _ _ m'.property, cancels,
        Bool.or_eq_true, Bool.and_eq_true, beq_iff_eq, Bool.not_false, Bool.false_eq_true, and_false, false_or]
      constructor
      · intro e; exact Subtype.ext e.symm
      · intro e; rw [e]
    | par m' p' =>
      simp only [unsubKeys, Scope.key, contains_colon_mod, cancels, Bool.or_eq_true, Bool.and_eq_true,
        beq_iff_eq, Bool.not_false, true_and]
      constructor
      · rintro (h | h)
        · exact Subtype.ext ((prefix_key _ _ _ m.property m'.property).1 h)
        · exact absurd h (pkey_ne_mod m' m p')
      · intro e; subst e; left
        exact (prefix_key m.val m.val p' m.property m.property).2 rfl
  | par m p =>
    cases a with
    | all => exact absurd rfl ha
    | mod m' =>
      simp only [unsubKeys, Scope.key, contains_colon_pkey, cancels, Bool.or_eq_true, Bool.and_eq_true,
        beq_iff_eq, Bool.not_true, Bool.false_eq_true, false_and, false_or, iff_false]
      intro e; exact pkey_ne_mod m m' p e.symm
    | par m' p' =>
      simp only [unsubKeys, Scope.key, contains_colon_pkey, cancels, Bool.or_eq_true, Bool.and_eq_true,
        beq_iff_eq, Bool.not_true, Bool.false_eq_true, false_and, false_or]
      constructor
      · intro e; obtain ⟨h1, h2⟩ := (pkey_inj _ _ _ _).1 e; exact ⟨h1.symm, h2.symm⟩
      · rintro ⟨h1, h2⟩; subst h1 h2; rfl

theorem unsubKeys_eq_cancels (d a : Scope) (hd : d ≠ .all) (ha : a ≠ .all) :
    unsubKeys d.key a.key = cancels d a :=
  Bool.eq_iff_iff.2 (unsubKeys_iff_cancels d a hd ha)


def tableHas (σ : State) (c : Conn) : Scope → Bool
  | .all => σ.active c
  | .mod m => σ.subs m.val c
  | .par m p => σ.subs (pkey m p) c

theorem tableHas_key (σ : State) (c : Conn) (a : Scope) (ha : a ≠ .all) : tableHas σ c a = σ.subs a.key c := by
  cases a with
  | all => exact absurd rfl ha
  | mod m => rfl
  | par m p => rfl

theorem key_inj (a b : Scope) (ha : a ≠ .all) (hb : b ≠ .all) (h : a.key = b.key) : a = b := by
  cases a with
  | all => exact absurd rfl ha
  | mod m =>
    cases b with
    | all => exact absurd rfl hb
    | mod m' => simp only [Scope.key] at h; rw [Subtype.ext h]
    | par m' p' => exact absurd h.symm (pkey_ne_mod m' m p')
  | par m p =>
    cases b with
    | all => exact absurd rfl hb
    | mod m' => exact absurd h (pkey_ne_mod m m' p)
    | par m' p' => obtain ⟨h1, h2⟩ := (pkey_inj _ _ _ _).1 h; rw [h1, h2]

theorem listens_eq (σ : State) (c : Conn) (m : Mod) (p : Par) :
    listens σ c m p = (tableHas σ c (.par m p) || tableHas σ c (.mod m) || tableHas σ c .all) := by
  simp [listens, tableHas, modPart_pkey]

theorem listens_iff (σ : State) (c : Conn) (m : Mod) (p : Par) :
    listens σ c m p = true ↔ ∃ s, tableHas σ c s = true ∧ covers s m p = true := by
  rw [listens_eq]
  constructor
  · intro h
    simp only [Bool.or_eq_true] at h
    rcases h with (h | h) | h
    · exact ⟨.par m p, h, by simp [covers]⟩
    · exact ⟨.mod m, h, by simp [covers]⟩
    · exact ⟨.all, h, rfl⟩
  · rintro ⟨s, h1, h2⟩
    cases s with
    | all => simp [h1]
    | mod m' =>
      have : m' = m := by
        have : m'.val = m.val := by simpa [covers] using h2
        exact Subtype.ext this
      subst this; simp [h1]
    | par m' p' =>
      have : m'.val = m.val ∧ p' = p := by simpa [covers] using h2
      obtain ⟨h3, rfl⟩ := this
      have := Subtype.ext h3
      subst this; simp [h1]

/-- what `subscribe` / `_active_connections.add` does to the table, scope-wise -/
theorem tableHas_register (σ : State) (c : Conn) (s : Scope) (c' : Conn) (a : Scope) :
    tableHas (register σ c s) c' a = (if c' = c ∧ a = s then true else tableHas σ c' a) := by
  cases s with
  | all => cases a <;> simp [register, tableHas]
  | mod m =>
    cases a with
    | all => simp [register, subscribe, tableHas]
    | mod m' =>
      simp only [register, subscribe, tableHas, Scope.key, Scope.mod.injEq]
      by_cases h : m' = m
      · subst h; simp
      · have : ¬ m'.val = m.val := fun e => h (Subtype.ext e)
        simp [this, h]
    | par m' p' =>
      have : ¬ pkey m' p' = m.val := pkey_ne_mod m' m p'
      simp [register, subscribe, tableHas, Scope.key, this]
  | par m p =>
    cases a with
    | all => simp [register, subscribe, tableHas]
    | mod m' =>
      have : ¬ m'.val = pkey m p := fun e => pkey_ne_mod m m' p e.symm
      simp [register, subscribe, tableHas, Scope.key, this]
    | par m' p' =>
      simp only [register, subscribe, tableHas, Scope.key, Scope.par.injEq, pkey_inj]
      by_cases h : c' = c <;> simp [h]

/-- what `unsubscribe` / `_active_connections.discard` does to the table, scope-wise: its string tests clear
exactly the scopes the deactivation matches -/
theorem tableHas_unregister (σ : State) (c : Conn) (d : Scope) (c' : Conn) (a : Scope) :
    tableHas (unregister σ c d) c' a = (if c' = c ∧ cancels d a = true then false else tableHas σ c' a) := by
  cases d with
  | all => cases a <;> simp [unregister, tableHas, cancels]
  | mod m =>
    cases a with
    | all => simp [unregister, unsubscribe, tableHas, cancels]
    | mod m' =>
      have := unsubKeys_eq_cancels (.mod m) (.mod m') (by simp) (by simp)
      simp only [Scope.key] at this
      simp only [unregister, unsubscribe, tableHas, Scope.key, this]
      by_cases h : c' = c <;> simp [h]
    | par m' p' =>
      have := unsubKeys_eq_cancels (.mod m) (.par m' p') (by simp) (by simp)
      simp only [Scope.key] at this
      simp only [unregister, unsubscribe, tableHas, Scope.key, this]
      by_cases h : c' = c <;> simp [h]
  | par m p =>
    cases a with
    | all => simp [unregister, unsubscribe, tableHas, cancels]
    | mod m' =>
      have := unsubKeys_eq_cancels (.par m p) (.mod m') (by simp) (by simp)
      simp only [Scope.key] at this
      simp only [unregister, unsubscribe, tableHas, Scope.key, this]
      by_cases h : c' = c <;> simp [h]
    | par m' p' =>
      have := unsubKeys_eq_cancels (.par m p) (.par m' p') (by simp) (by simp)
      simp only [Scope.key] at this
      simp only [unregister, unsubscribe, tableHas, Scope.key, this]
      by_cases h : c' = c <;> simp [h]

theorem tableHas_resetConn (σ : State) (c c' : Conn) (a : Scope) :
    tableHas (resetConn σ c) c' a = (if c' = c then false else tableHas σ c' a) := by
  cases a <;> simp [resetConn, tableHas]

/-- the scope a request thread is activating, from its marker to its reply -/
def activating : HPc → Option Scope
  | .start (.activate s) => some s
  | .wantSub (.activate s) => some s
  | .relSub (.activate s) => some s
  | .wantUpd s _ _ => some s
  | .snapMod s _ _ _ => some s
  | .snapSend s _ _ _ _ _ => some s
  | .relDisp (.activate s) _ => some s
  | .rep (.activate s) _ => some s
  | _ => none

/-- the request whose table change is done and whose positive reply is still to come -/
def ending : HPc → Option Req
  | .relSub r => some r
  | .relDisp r ok => if replyEnds r ok then some r else none
  | .rep r ok => if replyEnds r ok then some r else none
  | _ => none

def goodMod (cfg : Cfg) (s : Scope) (m : Mod) : Prop := ∀ p ∈ scopePars cfg s m, covers s m p = true

theorem goodMod_scopeMods (cfg : Cfg) (s : Scope) : ∀ m ∈ scopeMods cfg s, goodMod cfg s m := by
  intro m hm p hp
  cases s <;> simp_all [scopeMods, scopePars, covers]

/-- what is still to be sent in a snapshot lies in the scope being activated -/
def covInv (cfg : Cfg) : HPc → Prop
  | .wantUpd s m rest => ∀ m' ∈ m :: rest, goodMod cfg s m'
  | .snapMod s m ps rest => (∀ p ∈ ps, covers s m p = true) ∧ ∀ m' ∈ rest, goodMod cfg s m'
  | .snapSend s m p _ ps rest => covers s m p = true ∧ (∀ p' ∈ ps, covers s m p' = true) ∧ ∀ m' ∈ rest, goodMod cfg s m'
  | _ => True

def liveOf (σ : State) : Conn → List Scope := silentMon.after silentMon.init σ.trace

structure SilentInv (cfg : Cfg) (σ : State) : Prop where
  acc : silentMon.acceptsFrom silentMon.init σ.trace = true
  tbl : ∀ c s, tableHas σ c s = true → s ∈ liveOf σ c
  act : ∀ c s, activating (σ.hpc c) = some s → s ∈ liveOf σ c
  snd : ∀ k m p e l, σ.upc k = .sending m p e l → ∀ c ∈ l, listens σ c m p = true
  clr : ∀ c r, ending (σ.hpc c) = some r → ∀ a, ends r a = true → tableHas σ c a = false
  cov : ∀ c, covInv cfg (σ.hpc c)

theorem silentInv_init (cfg : Cfg) (hs us cache) : SilentInv cfg (init hs us cache) := by
  constructor <;> intros <;> simp_all [init, Mon.acceptsFrom, tableHas, activating, ending, covInv]
  rename_i c s h; cases s <;> simp [tableHas] at h


theorem liveOf_append (σ : State) (o : Obs) (tr : List Obs) (h : tr = σ.trace ++ [o]) :
    silentMon.after silentMon.init tr = liveNext (liveOf σ) o := by
  subst h; exact Mon.after_append silentMon silentMon.init σ.trace o

theorem mem_filter_not_ends {l : List Scope} {r : Req} {s : Scope} (h : s ∈ l) (h2 : ends r s = false) :
    s ∈ l.filter (fun a => !ends r a) := by
  simp [List.mem_filter, h, h2]

theorem silent_acc_stepH (cfg : Cfg) (σ σ' : State) (c : Conn) (hI : SilentInv cfg σ)
    (hs : stepH cfg σ c = some σ') : silentMon.acceptsFrom silentMon.init σ'.trace = true := by
  have hacc := hI.acc
  unfold stepH at hs
  step_cases hs
  all_goals (try simp only [tableWrite_trace]); (try exact hacc)
  all_goals
    try dsimp only
    rw [Mon.acceptsFrom_append, hacc]
    simp [silentMon, silentOk]
  -- the snapshot send
  rename_i s m p e ps rest heq
  have h1 := hI.act c s (by simp [heq, activating])
  have h2 := hI.cov c
  rw [heq] at h2
  simp only [covInv] at h2
  simp only [coveredBy, List.any_eq_true]
  exact ⟨s, h1, h2.1⟩


theorem liveNext_emit (live u m p e) : liveNext live (.emit u m p e) = live := rfl
theorem liveNext_emitDone (live u) : liveNext live (.emitDone u) = live := rfl
theorem liveNext_deliver (live c m p e) : liveNext live (.deliver c m p e) = live := rfl

theorem stepU_sending (cfg : Cfg) (σ σ' : State) (k : Nat) (arg : Conn) (hs : stepU cfg σ k arg = some σ')
    (m : Mod) (p : Par) (e : Entry) (l : List Conn) (h : σ'.upc k = .sending m p e l) :
    (σ.upc k = .wantSub m p e ∧ l = listeners cfg σ m p) ∨
    (∃ l0, σ.upc k = .sending m p e l0 ∧ ∀ c ∈ l, c ∈ l0) := by
  unfold stepU at hs
  step_cases hs
  all_goals simp only [set_same] at h
  all_goals (try cases h)
  · left; rename_i heq; exact ⟨heq, rfl⟩
  · right; rename_i heq
    refine ⟨_, heq, ?_⟩
    intro c hc
    exact (List.mem_filter.1 hc).1

theorem stepU_deliver (cfg : Cfg) (σ σ' : State) (k : Nat) (arg : Conn) (hs : stepU cfg σ k arg = some σ') :
    σ'.trace = σ.trace ∨ (∃ u m p e, σ'.trace = σ.trace ++ [.emit u m p e]) ∨ (∃ u, σ'.trace = σ.trace ++ [.emitDone u]) ∨
    (∃ m p e l, σ.upc k = .sending m p e l ∧ arg ∈ l ∧ σ'.trace = σ.trace ++ [.deliver arg m p e]) := by
  unfold stepU at hs
  step_cases hs
  all_goals first
    | (left; rfl)
    | (right; left; exact ⟨_, _, _, _, rfl⟩)
    | (right; right; right; rename_i heq harg; exact ⟨_, _, _, _, heq, harg, rfl⟩)
    | (right; right; left; exact ⟨_, rfl⟩)

theorem silentInv_stepU (cfg : Cfg) (σ σ' : State) (k : Nat) (arg : Conn) (hI : SilentInv cfg σ)
    (hs : stepU cfg σ k arg = some σ') : SilentInv cfg σ' := by
  obtain ⟨hacc, htbl, hact, hsnd, hclr, hcov⟩ := hI
  obtain ⟨f1, f2, f3, f4, f5, f6, f8, f9, f10, f11⟩ := stepU_frame cfg σ σ' k arg hs
  clear f3 f4 f8 f9 f10 f11
  have htab : ∀ c s, tableHas σ' c s = tableHas σ c s := by
    intro c s; cases s <;> simp [tableHas, f5, f6]
  have hlis : ∀ c m p, listens σ' c m p = listens σ c m p := by
    intro c m p; simp [listens, f5, f6]
  have htr := stepU_deliver cfg σ σ' k arg hs
  have hlive : liveOf σ' = liveOf σ := by
    simp only [liveOf]
    rcases htr with h | ⟨u, m, p, e, h⟩ | ⟨u, h⟩ | ⟨m, p, e, l, _, _, h⟩
    · rw [h]
    all_goals (rw [h, Mon.after_append]; rfl)
  refine ⟨?_, ?_, ?_, ?_, ?_, ?_⟩
  · rcases htr with h | ⟨u, m, p, e, h⟩ | ⟨u, h⟩ | ⟨m, p, e, l, heq, harg, h⟩
    · rw [h]; exact hacc
    · rw [h, Mon.acceptsFrom_append, hacc]; simp [silentMon, silentOk]
    · rw [h, Mon.acceptsFrom_append, hacc]; simp [silentMon, silentOk]
    · rw [h, Mon.acceptsFrom_append, hacc]
      have h1 := hsnd k m p e l heq arg harg
      obtain ⟨s, h2, h3⟩ := (listens_iff σ arg m p).1 h1
      simp only [silentMon, silentOk, Bool.true_and, coveredBy, List.any_eq_true]
      exact ⟨s, htbl arg s h2, h3⟩
  · intro c s h; rw [hlive]; rw [htab] at h; exact htbl c s h
  · intro c s h; rw [hlive]; rw [f2] at h; exact hact c s h
  · intro k' m p e l hk' c hc
    rw [hlis]
    by_cases hk : k' = k
    · subst hk
      rcases stepU_sending cfg σ σ' k' arg hs m p e l hk' with ⟨h1, h2⟩ | ⟨l0, h1, h2⟩
      · subst h2
        simp only [listeners, List.mem_filter] at hc
        exact hc.2
      · exact hsnd k' m p e l0 h1 c (h2 c hc)
    · rw [f1, set_other _ _ _ _ hk] at hk'
      exact hsnd k' m p e l hk' c hc
  · intro c r h a ha; rw [htab]; rw [f2] at h; exact hclr c r h a ha
  · intro c; rw [f2]; exact hcov c


/-- an action of connection `c` that changes neither the tables nor the monitor's scopes -/
theorem silentInv_pcOnly (cfg : Cfg) (σ σ' : State) (c : Conn) (pc' : HPc) (hI : SilentInv cfg σ)
    (hacc : silentMon.acceptsFrom silentMon.init σ'.trace = true)
    (hpc : σ'.hpc = set σ.hpc c pc') (hlive : liveOf σ' = liveOf σ) (hupc : σ'.upc = σ.upc)
    (ha : σ'.active = σ.active) (hm : σ'.subs = σ.subs)
    (hact : ∀ s, activating pc' = some s → activating (σ.hpc c) = some s)
    (hclr : ∀ r, ending pc' = some r → ending (σ.hpc c) = some r ∨ ∀ a, ends r a = false)
    (hcov : covInv cfg pc') : SilentInv cfg σ' := by
  have htab : ∀ c s, tableHas σ' c s = tableHas σ c s := by
    intro c s; cases s <;> simp [tableHas, ha, hm]
  have hlis : ∀ c m p, listens σ' c m p = listens σ c m p := by
    intro c m p; simp [listens, ha, hm]
  refine ⟨hacc, ?_, ?_, ?_, ?_, ?_⟩
  · intro c' s h; rw [hlive]; rw [htab] at h; exact hI.tbl c' s h
  · intro c' s h; rw [hlive]; rw [hpc, set_apply] at h
    split at h
    · rename_i hc; rw [hc]; exact hI.act c s (hact s h)
    · exact hI.act c' s h
  · intro k m p e l hk c' hc'; rw [hlis]; rw [hupc] at hk; exact hI.snd k m p e l hk c' hc'
  · intro c' r h a ha'; rw [htab]; rw [hpc, set_apply] at h
    split at h
    · rename_i hc; rw [hc]
      rcases hclr r h with h1 | h1
      · exact hI.clr c r h1 a ha'
      · rw [h1 a] at ha'; cases ha'
    · exact hI.clr c' r h a ha'
  · intro c'; rw [hpc, set_apply]; split
    · exact hcov
    · exact hI.cov c'

theorem mem_liveNext_reqStart (live : Conn → List Scope) (c : Conn) (r : Req) (c' : Conn) (s : Scope)
    (h : s ∈ live c') : s ∈ liveNext live (.reqStart c r) c' := by
  cases r <;> simp [liveNext, set_apply] <;> (try exact h)
  split
  · rename_i hc; subst hc; exact List.mem_cons_of_mem _ h
  · exact h

/-- the request marker -/
theorem silentInv_begin (cfg : Cfg) (σ σ' : State) (c : Conn) (r : Req) (hI : SilentInv cfg σ)
    (hacc : silentMon.acceptsFrom silentMon.init σ'.trace = true)
    (hidle : σ.hpc c = .idle)
    (hpc : σ'.hpc = set σ.hpc c (firstPc r)) (htr : σ'.trace = σ.trace ++ [.reqStart c r]) (hupc : σ'.upc = σ.upc)
    (ha : σ'.active = σ.active) (hm : σ'.subs = σ.subs) : SilentInv cfg σ' := by
  have htab : ∀ c s, tableHas σ' c s = tableHas σ c s := by
    intro c s; cases s <;> simp [tableHas, ha, hm]
  have hlis : ∀ c m p, listens σ' c m p = listens σ c m p := by
    intro c m p; simp [listens, ha, hm]
  have hlive : liveOf σ' = liveNext (liveOf σ) (.reqStart c r) := by
    simp only [liveOf]; rw [htr, Mon.after_append]; rfl
  refine ⟨hacc, ?_, ?_, ?_, ?_, ?_⟩
  · intro c' s h; rw [hlive]; rw [htab] at h; exact mem_liveNext_reqStart _ _ _ _ _ (hI.tbl c' s h)
  · intro c' s h; rw [hlive]; rw [hpc, set_apply] at h
    split at h
    · rename_i hc; subst hc
      cases r <;> simp [firstPc, activating] at h
      subst h; simp [liveNext]
    · exact mem_liveNext_reqStart _ _ _ _ _ (hI.act c' s h)
  · intro k m p e l hk c' hc'; rw [hlis]; rw [hupc] at hk; exact hI.snd k m p e l hk c' hc'
  · intro c' r' h a ha'; rw [htab]; rw [hpc, set_apply] at h
    split at h
    · cases r <;> simp [firstPc, ending] at h
    · exact hI.clr c' r' h a ha'
  · intro c'; rw [hpc, set_apply]; split
    · cases r <;> simp [firstPc, covInv]
    · exact hI.cov c'

/-- a reply (or the end of a disconnect) -/
theorem silentInv_reply (cfg : Cfg) (σ σ' : State) (c : Conn) (r : Req) (ok : Bool) (hI : SilentInv cfg σ)
    (hacc : silentMon.acceptsFrom silentMon.init σ'.trace = true)
    (hend : replyEnds r ok = true → ending (σ.hpc c) = some r)
    (hpc : σ'.hpc = set σ.hpc c .idle) (htr : σ'.trace = σ.trace ++ [.reply c r ok]) (hupc : σ'.upc = σ.upc)
    (ha : σ'.active = σ.active) (hm : σ'.subs = σ.subs) : SilentInv cfg σ' := by
  have htab : ∀ c s, tableHas σ' c s = tableHas σ c s := by
    intro c s; cases s <;> simp [tableHas, ha, hm]
  have hlis : ∀ c m p, listens σ' c m p = listens σ c m p := by
    intro c m p; simp [listens, ha, hm]
  have hlive : liveOf σ' = liveNext (liveOf σ) (.reply c r ok) := by
    simp only [liveOf]; rw [htr, Mon.after_append]; rfl
  have hkeep : ∀ c' s, s ∈ liveOf σ c' → (c' = c → tableHas σ c s = true ∨ False) → s ∈ liveOf σ' c' := by
    intro c' s h hx
    rw [hlive]
    simp only [liveNext]
    cases hre : replyEnds r ok with
    | false => simpa using h
    | true =>
      simp only [if_true, set_apply]
      split
      · rename_i hc; subst hc
        rcases hx rfl with ht | hf
        · apply mem_filter_not_ends h
          cases he : ends r s with
          | false => rfl
          | true => have := hI.clr c' r (hend hre) s he; rw [ht] at this; cases this
        · exact hf.elim
      · exact h
  refine ⟨hacc, ?_, ?_, ?_, ?_, ?_⟩
  · intro c' s h; rw [htab] at h
    exact hkeep c' s (hI.tbl c' s h) (by intro hc; subst hc; exact Or.inl h)
  · intro c' s h; rw [hpc, set_apply] at h
    split at h
    · simp [activating] at h
    · rename_i hc
      exact hkeep c' s (hI.act c' s h) (by intro hc'; exact absurd hc' hc)
  · intro k m p e l hk c' hc'; rw [hlis]; rw [hupc] at hk; exact hI.snd k m p e l hk c' hc'
  · intro c' r' h a ha'; rw [htab]; rw [hpc, set_apply] at h
    split at h
    · simp [ending] at h
    · exact hI.clr c' r' h a ha'
  · intro c'; rw [hpc, set_apply]; split
    · simp [covInv]
    · exact hI.cov c'


/-- the table after the table change of request `r` of connection `c`, scope-wise -/
theorem tableHas_tableWrite (σ : State) (c : Conn) (r : Req) (c' : Conn) (a : Scope) :
    tableHas (tableWrite σ c r) c' a =
      (if c' = c ∧ ends r a = true then false
       else if c' = c ∧ r = .activate a then true else tableHas σ c' a) := by
  cases r with
  | activate s0 =>
    simp only [tableWrite, tableHas_register, ends, Req.activate.injEq]
    by_cases h : c' = c ∧ a = s0
    · obtain ⟨h1, h2⟩ := h; subst h1 h2; simp
    · have : ¬ (c' = c ∧ s0 = a) := fun e => h ⟨e.1, e.2.symm⟩
      simp [h, this]
  | deactivate s0 => simp [tableWrite, tableHas_unregister, ends]
  | ident => simp [tableWrite, tableHas_resetConn, ends]
  | disconnect => simp [tableWrite, tableHas_resetConn, ends]
  | rw w m p e => simp [tableWrite, ends]
  | malformed a s => simp [tableWrite, ends]

theorem tableHas_write_other (σ : State) (c c' : Conn) (r : Req) (s : Scope) (h : c' ≠ c) :
    tableHas (tableWrite σ c r) c' s = tableHas σ c' s := by
  simp [tableHas_tableWrite, h]

theorem tableHas_write_self (σ : State) (c : Conn) (r : Req) (s : Scope)
    (h : tableHas (tableWrite σ c r) c s = true) : tableHas σ c s = true ∨ r = .activate s := by
  rw [tableHas_tableWrite] at h
  split at h
  · cases h
  · split at h
    · rename_i h2; exact Or.inr h2.2
    · exact Or.inl h

theorem tableHas_write_ends (σ : State) (c : Conn) (r : Req) (a : Scope) (h : ends r a = true) :
    tableHas (tableWrite σ c r) c a = false := by
  simp [tableHas_tableWrite, h]

/-- the table change of a request -/
theorem silentInv_write (cfg : Cfg) (σ σ' : State) (c : Conn) (r : Req) (hI : SilentInv cfg σ) (hL : LockInv σ)
    (hacc : silentMon.acceptsFrom silentMon.init σ'.trace = true)
    (hold : σ.hpc c = .wantSub r) (hfree : σ.sub = none)
    (hpc : σ'.hpc = set σ.hpc c (.relSub r)) (htr : σ'.trace = σ.trace) (hupc : σ'.upc = σ.upc)
    (htab : ∀ c' s, tableHas σ' c' s = tableHas (tableWrite σ c r) c' s) : SilentInv cfg σ' := by
  have hlive : liveOf σ' = liveOf σ := by simp only [liveOf, htr]
  refine ⟨hacc, ?_, ?_, ?_, ?_, ?_⟩
  · intro c' s h; rw [hlive]; rw [htab] at h
    by_cases hc : c' = c
    · subst hc
      rcases tableHas_write_self σ c' r s h with h1 | h1
      · exact hI.tbl c' s h1
      · subst h1; exact hI.act c' s (by rw [hold]; rfl)
    · rw [tableHas_write_other σ c c' r s hc] at h; exact hI.tbl c' s h
  · intro c' s h; rw [hlive]; rw [hpc, set_apply] at h
    split at h
    · rename_i hc; subst hc
      apply hI.act c' s; rw [hold]
      cases r <;> simp_all [activating]
    · exact hI.act c' s h
  · intro k m p e l hk c' hc'
    rw [hupc] at hk
    have := (hL.sub (.u k)).1 (by simp [holdsSub, hk])
    rw [hfree] at this; cases this
  · intro c' r' h a ha'; rw [htab]; rw [hpc, set_apply] at h
    split at h
    · rename_i hc; subst hc
      simp only [ending, Option.some.injEq] at h; subst h
      exact tableHas_write_ends σ c' r a ha'
    · rename_i hc
      rw [tableHas_write_other σ c c' r a hc]; exact hI.clr c' r' h a ha'
  · intro c'; rw [hpc, set_apply]; split
    · simp [covInv]
    · exact hI.cov c'


theorem activating_afterSnap (s : Scope) (l : List Mod) : activating (afterSnap s l) = some s := by
  cases l <;> rfl

theorem ending_afterSnap (s : Scope) (l : List Mod) (r : Req) (h : ending (afterSnap s l) = some r) :
    r = .activate s := by
  cases l <;> simp [afterSnap, ending, replyEnds] at h; exact h.symm

theorem covInv_afterSnap (cfg : Cfg) (s : Scope) (l : List Mod) (h : ∀ m ∈ l, goodMod cfg s m) :
    covInv cfg (afterSnap s l) := by
  cases l with
  | nil => simp [afterSnap, covInv]
  | cons m rest => simpa [afterSnap, covInv] using h

theorem activating_afterStart (cfg : Cfg) (r : Req) : activating (afterStart cfg r) = activating (.start r) := by
  cases r with
  | rw w m p e => by_cases hk : cfg.rw w m p = .calls <;> simp [afterStart, hk, activating]
  | _ => simp [afterStart, activating]

theorem ending_afterStart (cfg : Cfg) (r r' : Req) (h : ending (afterStart cfg r) = some r') : ∀ a, ends r' a = false := by
  cases r with
  | rw w m p e =>
    by_cases hk : cfg.rw w m p = .calls
    · simp [afterStart, hk, ending] at h
    · simp [afterStart, hk, ending, replyEnds] at h
      intro a; rw [← h]; rfl
  | _ => simp [afterStart, ending] at h

theorem covInv_afterStart (cfg : Cfg) (r : Req) : covInv cfg (afterStart cfg r) := by
  cases r with
  | rw w m p e => by_cases hk : cfg.rw w m p = .calls <;> simp [afterStart, hk, covInv]
  | _ => simp [afterStart, covInv]

theorem silentInv_stepH (cfg : Cfg) (σ σ' : State) (c : Conn) (hI : SilentInv cfg σ) (hL : LockInv σ)
    (hs : stepH cfg σ c = some σ') : SilentInv cfg σ' := by
  have hacc := silent_acc_stepH cfg σ σ' c hI hs
  have hcov := hI.cov c
  unfold stepH at hs
  step_cases hs
  · -- thread ends
    rename_i heq _
    exact silentInv_pcOnly cfg σ _ c .done hI hacc rfl rfl rfl rfl rfl (by simp [activating]) (by simp [ending]) (by simp [covInv])
  · rename_i _ heq _ r rs _
    exact silentInv_begin cfg σ _ c r hI hacc heq rfl rfl rfl rfl rfl
  · rename_i r heq _ _
    exact silentInv_pcOnly cfg σ _ c _ hI hacc rfl rfl rfl rfl rfl
      (by intro s h; rw [heq]; rw [activating_afterStart] at h; exact h)
      (by intro r' h; right; exact ending_afterStart cfg r r' h) (covInv_afterStart cfg r)
  · rename_i r heq _ hinv
    exact silentInv_pcOnly cfg σ _ c _ hI hacc rfl rfl rfl rfl rfl
      (by intro s h; rw [heq]; cases r <;> simp_all [activating])
      (by intro r' h; cases r <;> simp_all [ending, replyEnds, validReq]) (by simp [covInv])
  · rename_i r heq hfree
    exact silentInv_write cfg σ _ c r hI hL hacc heq hfree (by simp) (by simp) (by simp)
      (by intro c' s; cases s <;> rfl)
  · rename_i r heq hr
    subst hr
    exact silentInv_reply cfg σ _ c .disconnect (!cfg.logFails c) hI hacc (by intro _; rw [heq]; rfl) (by simp [afterTable]) rfl rfl rfl rfl
  · rename_i r heq hr
    refine silentInv_pcOnly cfg σ _ c _ hI hacc rfl rfl rfl rfl rfl ?_ ?_ ?_
    · intro s h; rw [heq]
      cases r with
      | activate s0 => simp only [afterTable] at h; rw [activating_afterSnap] at h; simpa [activating] using h
      | deactivate s0 => simp [afterTable, activating] at h
      | ident => simp [afterTable, activating] at h
      | disconnect => exact absurd rfl hr
      | rw w m p e => simp [afterTable, activating] at h
      | malformed a s => simp [afterTable, activating] at h
    · intro r' h; rw [heq]; left
      cases r with
      | activate s => simp only [afterTable] at h; rw [ending_afterSnap s _ r' h]; rfl
      | deactivate s => simpa [afterTable, ending, replyEnds] using h
      | ident => simpa [afterTable, ending, replyEnds] using h
      | disconnect => exact absurd rfl hr
      | rw w m p e => simpa [afterTable, ending, replyEnds] using h
      | malformed a s => simpa [afterTable, ending, replyEnds] using h
    · cases r with
      | activate s => exact covInv_afterSnap cfg s _ (goodMod_scopeMods cfg s)
      | _ => simp [afterTable, covInv]
  · rename_i s m rest heq hfree
    rw [heq] at hcov
    exact silentInv_pcOnly cfg σ _ c _ hI hacc rfl rfl rfl rfl rfl
      (by intro s' h; rw [heq]; simpa [activating] using h) (by simp [ending])
      (by simp only [covInv] at hcov ⊢; exact ⟨hcov m (by simp), fun m' hm' => hcov m' (by simp [hm'])⟩)
  · rename_i s m rest heq
    rw [heq] at hcov
    exact silentInv_pcOnly cfg σ _ c _ hI hacc rfl rfl rfl rfl rfl
      (by intro s' h; rw [heq]; rw [activating_afterSnap] at h; simpa [activating] using h)
      (by intro r' h; have := ending_afterSnap s rest r' h; subst this; right; intro a; rfl)
      (covInv_afterSnap cfg s rest hcov.2)
  · rename_i s m p ps rest heq
    rw [heq] at hcov
    exact silentInv_pcOnly cfg σ _ c _ hI hacc rfl rfl rfl rfl rfl
      (by intro s' h; rw [heq]; simpa [activating] using h) (by simp [ending])
      (by simp only [covInv] at hcov ⊢
          exact ⟨hcov.1 p (by simp), fun p' hp' => hcov.1 p' (by simp [hp']), hcov.2⟩)
  · rename_i s m p e ps rest heq
    rw [heq] at hcov
    exact silentInv_pcOnly cfg σ _ c _ hI hacc rfl
      (by simp only [liveOf]; rw [Mon.after_append]; rfl) rfl rfl rfl
      (by intro s' h; rw [heq]; simpa [activating] using h) (by simp [ending])
      (by simp only [covInv] at hcov ⊢; exact ⟨hcov.2.1, hcov.2.2⟩)
  · -- the call: the announcement is handed to the connection's updater slot
    exact silentInv_pcOnly cfg σ _ c _ hI hacc rfl rfl rfl rfl rfl
      (by intro s' h; simp [activating] at h) (by simp [ending]) (by simp [covInv])
  · exact silentInv_pcOnly cfg σ _ c _ hI hacc rfl rfl rfl rfl rfl
      (by intro s' h; simp [activating] at h) (by simp [ending]) (by simp [covInv])
  · exact silentInv_pcOnly cfg σ _ c _ hI hacc rfl rfl rfl rfl rfl
      (by intro s' h; unfold afterCall at h; split at h <;> simp [activating] at h)
      (by intro r' h; right; unfold afterCall at h; split at h <;> simp [ending] at h
          intro a; rw [← h.2]; rfl)
      (by unfold afterCall; split <;> simp [covInv])
  · rename_i r ok heq
    exact silentInv_pcOnly cfg σ _ c _ hI hacc rfl rfl rfl rfl rfl
      (by intro s' h; rw [heq]; cases r <;> simp_all [activating])
      (by intro r' h; rw [heq]; left; simpa [ending] using h) (by simp [covInv])
  · rename_i r ok heq
    exact silentInv_reply cfg σ _ c r ok hI hacc (by intro h; rw [heq]; simp [ending, h]) rfl rfl rfl rfl rfl

theorem silentInv_reach (cfg : Cfg) (hs us cache) (σ : State) (h : Reach cfg (init hs us cache) σ) :
    SilentInv cfg σ := by
  induction h with
  | init => exact silentInv_init cfg hs us cache
  | step a hprev hstep ih =>
    have hL := lockInv_reach cfg hs us cache _ hprev
    unfold step at hstep
    split at hstep
    · exact silentInv_stepH cfg _ _ _ ih hL hstep
    · exact silentInv_stepU cfg _ _ _ _ ih (stepUG_some hstep)


/-! ## runs -/

theorem run_reach (cfg : Cfg) (σ₀ σ σ' : State) (as : List Act) (h : Reach cfg σ₀ σ) (hr : run cfg σ as = some σ') :
    Reach cfg σ₀ σ' := by
  induction as generalizing σ with
  | nil => simp [run] at hr; subst hr; exact h
  | cons a as ih =>
    simp only [run] at hr
    split at hr
    · rename_i σ1 h1; exact ih σ1 (Reach.step a h h1) hr
    · cases hr

theorem listens_write_other (σ : State) (c c' : Conn) (r : Req) (m : Mod) (p : Par) (h : c' ≠ c) :
    listens (tableWrite σ c r) c' m p = listens σ c' m p := by
  simp [listens_eq, tableHas_write_other _ _ _ _ _ h]

theorem others_stepH (cfg : Cfg) (σ σ' : State) (c c' : Conn) (m : Mod) (p : Par) (h : c' ≠ c)
    (hs : stepH cfg σ c = some σ') : listens σ' c' m p = listens σ c' m p := by
  unfold stepH at hs
  step_cases hs
  all_goals first
    | rfl
    | exact listens_write_other σ c c' _ m p h

end Frappy.Activate
