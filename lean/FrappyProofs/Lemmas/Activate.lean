import FrappyModel.Spec.C08
/-
Helper lemmas for C08: monitors and appended traces, the lock discipline of the model, and the
inductive invariants behind the property theorems.
-/
namespace Frappy.Activate
open Frappy.Spec.C08

/-! ## monitors and appended events -/

theorem Mon.acceptsFrom_append {S : Type} (M : Mon S) (s : S) (tr : List Obs) (o : Obs) :
    M.acceptsFrom s (tr ++ [o]) = (M.acceptsFrom s tr && M.ok (M.after s tr) o) := by
  induction tr generalizing s with
  | nil => simp [Mon.acceptsFrom, Mon.after]
  | cons x xs ih => simp [Mon.acceptsFrom, Mon.after, ih, Bool.and_assoc]

theorem Mon.after_append {S : Type} (M : Mon S) (s : S) (tr : List Obs) (o : Obs) :
    M.after s (tr ++ [o]) = M.next (M.after s tr) o := by
  simp [Mon.after, List.foldl_append]

/-! ## which locks a program counter implies -/

def hHoldsDisp : HPc → Bool
  | .idle => false
  | .start _ => false
  | .wantSub r => r != .disconnect
  | .relSub r => r != .disconnect
  | .wantUpd _ _ _ => true
  | .snapMod _ _ _ _ => true
  | .snapSend _ _ _ _ _ _ => true
  | .relDisp _ _ => true
  | .rep _ _ => false
  | .done => false

def hHoldsSub : HPc → Bool
  | .relSub _ => true
  | _ => false

def hHoldsUpd : HPc → Mod → Bool
  | .snapMod _ m _ _, m' => m' == m
  | .snapSend _ m _ _ _ _, m' => m' == m
  | _, _ => false

def uHoldsSub : UPc → Bool
  | .sending _ _ _ _ => true
  | _ => false

def uHoldsUpd : UPc → Mod → Bool
  | .wantSub m _ _, m' => m' == m
  | .sending m _ _ _, m' => m' == m
  | .relUpd m _, m' => m' == m
  | _, _ => false

theorem afterSnap_holds (s : Scope) (l : List Mod) :
    hHoldsDisp (afterSnap s l) = true ∧ hHoldsSub (afterSnap s l) = false ∧ ∀ m, hHoldsUpd (afterSnap s l) m = false := by
  cases l <;> simp [afterSnap, hHoldsDisp, hHoldsSub, hHoldsUpd]

@[simp] theorem hHoldsDisp_idle  : hHoldsDisp .idle = false := rfl
@[simp] theorem hHoldsSub_idle  : hHoldsSub .idle = false := rfl
@[simp] theorem hHoldsUpd_idle  {m' : Mod} : hHoldsUpd .idle m' = false := rfl
@[simp] theorem hHoldsDisp_start {r} : hHoldsDisp (.start r) = false := rfl
@[simp] theorem hHoldsSub_start {r} : hHoldsSub (.start r) = false := rfl
@[simp] theorem hHoldsUpd_start {r} {m' : Mod} : hHoldsUpd (.start r) m' = false := rfl
@[simp] theorem hHoldsDisp_wantSub {r} : hHoldsDisp (.wantSub r) = (r != .disconnect) := rfl
@[simp] theorem hHoldsSub_wantSub {r} : hHoldsSub (.wantSub r) = false := rfl
@[simp] theorem hHoldsUpd_wantSub {r} {m' : Mod} : hHoldsUpd (.wantSub r) m' = false := rfl
@[simp] theorem hHoldsDisp_relSub {r} : hHoldsDisp (.relSub r) = (r != .disconnect) := rfl
@[simp] theorem hHoldsSub_relSub {r} : hHoldsSub (.relSub r) = true := rfl
@[simp] theorem hHoldsUpd_relSub {r} {m' : Mod} : hHoldsUpd (.relSub r) m' = false := rfl
@[simp] theorem hHoldsDisp_wantUpd {s} {m} {rest} : hHoldsDisp (.wantUpd s m rest) = true := rfl
@[simp] theorem hHoldsSub_wantUpd {s} {m} {rest} : hHoldsSub (.wantUpd s m rest) = false := rfl
@[simp] theorem hHoldsUpd_wantUpd {s} {m} {rest} {m' : Mod} : hHoldsUpd (.wantUpd s m rest) m' = false := rfl
@[simp] theorem hHoldsDisp_snapMod {s} {m} {ps} {rest} : hHoldsDisp (.snapMod s m ps rest) = true := rfl
@[simp] theorem hHoldsSub_snapMod {s} {m} {ps} {rest} : hHoldsSub (.snapMod s m ps rest) = false := rfl
@[simp] theorem hHoldsUpd_snapMod {s} {m} {ps} {rest} {m' : Mod} : hHoldsUpd (.snapMod s m ps rest) m' = (m' == m) := rfl
@[simp] theorem hHoldsDisp_snapSend {s} {m} {p} {e} {ps} {rest} : hHoldsDisp (.snapSend s m p e ps rest) = true := rfl
@[simp] theorem hHoldsSub_snapSend {s} {m} {p} {e} {ps} {rest} : hHoldsSub (.snapSend s m p e ps rest) = false := rfl
@[simp] theorem hHoldsUpd_snapSend {s} {m} {p} {e} {ps} {rest} {m' : Mod} : hHoldsUpd (.snapSend s m p e ps rest) m' = (m' == m) := rfl
@[simp] theorem hHoldsDisp_relDisp {r} {ok} : hHoldsDisp (.relDisp r ok) = true := rfl
@[simp] theorem hHoldsSub_relDisp {r} {ok} : hHoldsSub (.relDisp r ok) = false := rfl
@[simp] theorem hHoldsUpd_relDisp {r} {ok} {m' : Mod} : hHoldsUpd (.relDisp r ok) m' = false := rfl
@[simp] theorem hHoldsDisp_rep {r} {ok} : hHoldsDisp (.rep r ok) = false := rfl
@[simp] theorem hHoldsSub_rep {r} {ok} : hHoldsSub (.rep r ok) = false := rfl
@[simp] theorem hHoldsUpd_rep {r} {ok} {m' : Mod} : hHoldsUpd (.rep r ok) m' = false := rfl
@[simp] theorem hHoldsDisp_done  : hHoldsDisp .done = false := rfl
@[simp] theorem hHoldsSub_done  : hHoldsSub .done = false := rfl
@[simp] theorem hHoldsUpd_done  {m' : Mod} : hHoldsUpd .done m' = false := rfl
@[simp] theorem uHoldsSub_idle  : uHoldsSub .idle = false := rfl
@[simp] theorem uHoldsUpd_idle  {m' : Mod} : uHoldsUpd .idle m' = false := rfl
@[simp] theorem uHoldsSub_wantSub {m} {p} {e} : uHoldsSub (.wantSub m p e) = false := rfl
@[simp] theorem uHoldsUpd_wantSub {m} {p} {e} {m' : Mod} : uHoldsUpd (.wantSub m p e) m' = (m' == m) := rfl
@[simp] theorem uHoldsSub_sending {m} {p} {e} {l} : uHoldsSub (.sending m p e l) = true := rfl
@[simp] theorem uHoldsUpd_sending {m} {p} {e} {l} {m' : Mod} : uHoldsUpd (.sending m p e l) m' = (m' == m) := rfl
@[simp] theorem uHoldsSub_relUpd {m} {em} : uHoldsSub (.relUpd m em) = false := rfl
@[simp] theorem uHoldsUpd_relUpd {m} {em} {m' : Mod} : uHoldsUpd (.relUpd m em) m' = (m' == m) := rfl
@[simp] theorem uHoldsSub_done  : uHoldsSub .done = false := rfl
@[simp] theorem uHoldsUpd_done  {m' : Mod} : uHoldsUpd .done m' = false := rfl

@[simp] theorem tableWrite_disp (σ c r) : (tableWrite σ c r).disp = σ.disp := by
  cases r <;> (try rename_i s; cases s) <;> rfl
@[simp] theorem tableWrite_sub (σ c r) : (tableWrite σ c r).sub = σ.sub := by
  cases r <;> (try rename_i s; cases s) <;> rfl
@[simp] theorem tableWrite_upd (σ c r) : (tableWrite σ c r).upd = σ.upd := by
  cases r <;> (try rename_i s; cases s) <;> rfl
@[simp] theorem tableWrite_hpc (σ c r) : (tableWrite σ c r).hpc = σ.hpc := by
  cases r <;> (try rename_i s; cases s) <;> rfl
@[simp] theorem tableWrite_upc (σ c r) : (tableWrite σ c r).upc = σ.upc := by
  cases r <;> (try rename_i s; cases s) <;> rfl
@[simp] theorem tableWrite_hscript (σ c r) : (tableWrite σ c r).hscript = σ.hscript := by
  cases r <;> (try rename_i s; cases s) <;> rfl
@[simp] theorem tableWrite_uscript (σ c r) : (tableWrite σ c r).uscript = σ.uscript := by
  cases r <;> (try rename_i s; cases s) <;> rfl
@[simp] theorem tableWrite_cache (σ c r) : (tableWrite σ c r).cache = σ.cache := by
  cases r <;> (try rename_i s; cases s) <;> rfl
@[simp] theorem tableWrite_trace (σ c r) : (tableWrite σ c r).trace = σ.trace := by
  cases r <;> (try rename_i s; cases s) <;> rfl

macro "step_cases" hs:ident : tactic =>
  `(tactic| (repeat' split at $hs:ident
             all_goals first | (simp only [Option.some.injEq] at $hs:ident; subst $hs:ident) | (cases $hs:ident)))


@[simp] theorem firstPc_disp (r) : hHoldsDisp (firstPc r) = false := by cases r <;> simp [firstPc]
@[simp] theorem firstPc_sub (r) : hHoldsSub (firstPc r) = false := by cases r <;> simp [firstPc]
@[simp] theorem firstPc_upd (r m) : hHoldsUpd (firstPc r) m = false := by cases r <;> simp [firstPc]
@[simp] theorem firstPc_ne (r) : firstPc r ≠ .start .disconnect := by cases r <;> simp [firstPc]
@[simp] theorem afterSnap_disp (s l) : hHoldsDisp (afterSnap s l) = true := (afterSnap_holds s l).1
@[simp] theorem afterSnap_sub (s l) : hHoldsSub (afterSnap s l) = false := (afterSnap_holds s l).2.1
@[simp] theorem afterSnap_upd (s l m) : hHoldsUpd (afterSnap s l) m = false := (afterSnap_holds s l).2.2 m
@[simp] theorem afterSnap_ne (s l) : afterSnap s l ≠ .start .disconnect := by cases l <;> simp [afterSnap]
@[simp] theorem afterTable_disp (cfg r) : hHoldsDisp (afterTable cfg r) = (r != .disconnect) := by
  cases r <;> simp [afterTable]
@[simp] theorem afterTable_sub (cfg r) : hHoldsSub (afterTable cfg r) = false := by
  cases r <;> simp [afterTable]
@[simp] theorem afterTable_upd (cfg r m) : hHoldsUpd (afterTable cfg r) m = false := by
  cases r <;> simp [afterTable]
@[simp] theorem afterTable_ne (cfg r) : afterTable cfg r ≠ .start .disconnect := by cases r <;> simp [afterTable]


def lockMove {T : Type} (o : Option T) (t : T) (b b' : Bool) : Option T :=
  if b' && !b then some t else if b && !b' then none else o

theorem lockMove_inv {T : Type} [DecidableEq T] (holds holds' : T → Bool) (o : Option T) (t : T)
    (h : ∀ x, holds x = true ↔ o = some x) (hoth : ∀ x, x ≠ t → holds' x = holds x)
    (hg : holds' t = true → holds t = false → o = none) :
    ∀ x, holds' x = true ↔ lockMove o t (holds t) (holds' t) = some x := by
  intro x
  by_cases hx : x = t
  · subst hx
    have := h x
    cases h1 : holds x <;> cases h2 : holds' x <;> simp_all [lockMove]
  · rw [hoth x hx]
    have h1 := h x
    have h2 := h t
    cases h3 : holds t <;> cases h4 : holds' t <;> simp_all [lockMove]
    all_goals (intro h5; exact hx h5.symm)

theorem stepH_frame (cfg : Cfg) (σ σ' : State) (c : Conn) (hn : σ.hpc c ≠ .start .disconnect)
    (hs : stepH cfg σ c = some σ') :
    σ'.hpc = set σ.hpc c (σ'.hpc c) ∧ σ'.upc = σ.upc ∧ σ'.uscript = σ.uscript ∧ σ'.cache = σ.cache ∧
    σ'.disp = lockMove σ.disp c (hHoldsDisp (σ.hpc c)) (hHoldsDisp (σ'.hpc c)) ∧
    (hHoldsDisp (σ'.hpc c) = true → hHoldsDisp (σ.hpc c) = false → σ.disp = none) ∧
    σ'.sub = lockMove σ.sub (.h c) (hHoldsSub (σ.hpc c)) (hHoldsSub (σ'.hpc c)) ∧
    (hHoldsSub (σ'.hpc c) = true → hHoldsSub (σ.hpc c) = false → σ.sub = none) ∧
    (∀ m, σ'.upd m = lockMove (σ.upd m) (.h c) (hHoldsUpd (σ.hpc c) m) (hHoldsUpd (σ'.hpc c) m)) ∧
    (∀ m, hHoldsUpd (σ'.hpc c) m = true → hHoldsUpd (σ.hpc c) m = false → σ.upd m = none) ∧
    σ'.hpc c ≠ .start .disconnect := by
  unfold stepH at hs
  step_cases hs
  all_goals
    refine ⟨?_, ?_, ?_, ?_, ?_, ?_, ?_, ?_, ?_, ?_, ?_⟩
    all_goals
      try intro m
      simp_all [lockMove, set_apply]


theorem stepU_frame (cfg : Cfg) (σ σ' : State) (k : Nat) (arg : Conn) (hs : stepU cfg σ k arg = some σ') :
    σ'.upc = set σ.upc k (σ'.upc k) ∧ σ'.hpc = σ.hpc ∧ σ'.hscript = σ.hscript ∧ σ'.disp = σ.disp ∧
    σ'.active = σ.active ∧ σ'.subMod = σ.subMod ∧ σ'.subPar = σ.subPar ∧
    σ'.sub = lockMove σ.sub (.u k) (uHoldsSub (σ.upc k)) (uHoldsSub (σ'.upc k)) ∧
    (uHoldsSub (σ'.upc k) = true → uHoldsSub (σ.upc k) = false → σ.sub = none) ∧
    (∀ m, σ'.upd m = lockMove (σ.upd m) (.u k) (uHoldsUpd (σ.upc k) m) (uHoldsUpd (σ'.upc k) m)) ∧
    (∀ m, uHoldsUpd (σ'.upc k) m = true → uHoldsUpd (σ.upc k) m = false → σ.upd m = none) := by
  unfold stepU at hs
  step_cases hs
  all_goals
    refine ⟨?_, ?_, ?_, ?_, ?_, ?_, ?_, ?_, ?_, ?_, ?_⟩
    all_goals
      try intro m
      simp_all [lockMove, set_apply]

def holdsSub (σ : State) : Tid → Bool
  | .h c => hHoldsSub (σ.hpc c)
  | .u k => uHoldsSub (σ.upc k)

def holdsUpd (σ : State) (m : Mod) : Tid → Bool
  | .h c => hHoldsUpd (σ.hpc c) m
  | .u k => uHoldsUpd (σ.upc k) m

/-- the lock discipline: a lock is owned by exactly the thread whose program counter lies in the region it guards -/
structure LockInv (σ : State) : Prop where
  disp : ∀ c, hHoldsDisp (σ.hpc c) = true ↔ σ.disp = some c
  sub : ∀ t, holdsSub σ t = true ↔ σ.sub = some t
  upd : ∀ m t, holdsUpd σ m t = true ↔ σ.upd m = some t
  noStartDisc : ∀ c, σ.hpc c ≠ .start .disconnect

theorem lockInv_init (hs us cache) : LockInv (init hs us cache) := by
  constructor
  · intro c; simp [init]
  · intro t; cases t <;> simp [init, holdsSub]
  · intro m t; cases t <;> simp [init, holdsUpd]
  · intro c; simp [init]

theorem lockInv_stepH (cfg : Cfg) (σ σ' : State) (c : Conn) (hI : LockInv σ) (hs : stepH cfg σ c = some σ') :
    LockInv σ' := by
  obtain ⟨f1, f2, _, _, f5, f6, f7, f8, f9, f10, f11⟩ := stepH_frame cfg σ σ' c (hI.noStartDisc c) hs
  have hoth : ∀ x, x ≠ c → σ'.hpc x = σ.hpc x := by intro x hx; rw [f1]; simp [set_apply, hx]
  constructor
  · rw [f5]
    exact lockMove_inv (fun x => hHoldsDisp (σ.hpc x)) (fun x => hHoldsDisp (σ'.hpc x)) σ.disp c hI.disp
      (by intro x hx; show hHoldsDisp (σ'.hpc x) = hHoldsDisp (σ.hpc x); rw [hoth x hx]) f6
  · rw [f7]
    exact lockMove_inv (holdsSub σ) (holdsSub σ') σ.sub (.h c) hI.sub
      (by intro t ht; cases t with
          | h x => simp only [holdsSub]; rw [hoth x (by intro h; exact ht (by rw [h]))]
          | u k => simp only [holdsSub, f2]) f8
  · intro m
    rw [f9 m]
    exact lockMove_inv (holdsUpd σ m) (holdsUpd σ' m) (σ.upd m) (.h c) (hI.upd m)
      (by intro t ht; cases t with
          | h x => simp only [holdsUpd]; rw [hoth x (by intro h; exact ht (by rw [h]))]
          | u k => simp only [holdsUpd, f2]) (f10 m)
  · intro x
    by_cases hx : x = c
    · rw [hx]; exact f11
    · rw [hoth x hx]; exact hI.noStartDisc x

theorem lockInv_stepU (cfg : Cfg) (σ σ' : State) (k : Nat) (arg : Conn) (hI : LockInv σ)
    (hs : stepU cfg σ k arg = some σ') : LockInv σ' := by
  obtain ⟨f1, f2, _, f4, _, _, _, f8, f9, f10, f11⟩ := stepU_frame cfg σ σ' k arg hs
  have hoth : ∀ x, x ≠ k → σ'.upc x = σ.upc x := by intro x hx; rw [f1]; simp [set_apply, hx]
  constructor
  · rw [f4, f2]; exact hI.disp
  · rw [f8]
    exact lockMove_inv (holdsSub σ) (holdsSub σ') σ.sub (.u k) hI.sub
      (by intro t ht; cases t with
          | u x => simp only [holdsSub]; rw [hoth x (by intro h; exact ht (by rw [h]))]
          | h c => simp only [holdsSub, f2]) f9
  · intro m
    rw [f10 m]
    exact lockMove_inv (holdsUpd σ m) (holdsUpd σ' m) (σ.upd m) (.u k) (hI.upd m)
      (by intro t ht; cases t with
          | u x => simp only [holdsUpd]; rw [hoth x (by intro h; exact ht (by rw [h]))]
          | h c => simp only [holdsUpd, f2]) (f11 m)
  · rw [f2]; exact hI.noStartDisc

theorem lockInv_step (cfg : Cfg) (σ σ' : State) (a : Act) (hI : LockInv σ) (hs : step cfg σ a = some σ') :
    LockInv σ' := by
  unfold step at hs
  split at hs
  · exact lockInv_stepH cfg σ σ' _ hI hs
  · exact lockInv_stepU cfg σ σ' _ _ hI hs

theorem lockInv_reach (cfg : Cfg) (hs us cache) (σ : State) (h : Reach cfg (init hs us cache) σ) : LockInv σ := by
  induction h with
  | init => exact lockInv_init hs us cache
  | step a _ hstep ih => exact lockInv_step cfg _ _ a ih hstep

/-! ## no reachable state has every thread blocked -/

theorem stepH_enabled (cfg : Cfg) (σ : State) (c : Conn) :
    (stepH cfg σ c).isSome = (match σ.hpc c with
      | .start _ => decide (σ.disp = none)
      | .wantSub _ => decide (σ.sub = none)
      | .wantUpd _ m _ => decide (σ.upd m = none)
      | .done => false
      | _ => true) := by
  unfold stepH
  repeat' split
  all_goals simp_all

/-- the receiver an updater may always choose -/
def someArg (σ : State) (k : Nat) : Conn :=
  match σ.upc k with
  | .sending _ _ _ (x :: _) => x
  | _ => 0

theorem stepU_enabled (cfg : Cfg) (σ : State) (k : Nat) :
    (stepU cfg σ k (someArg σ k)).isSome = (match σ.upc k with
      | .idle => (match σ.uscript k with | [] => true | (m, _, _) :: _ => decide (σ.upd m = none))
      | .wantSub _ _ _ => decide (σ.sub = none)
      | .done => false
      | _ => true) := by
  cases hpc : σ.upc k with
  | idle =>
    simp only [stepU, hpc]
    split <;> simp_all
    split <;> simp_all
    split <;> simp_all
  | wantSub m p e => simp only [stepU, hpc]; split <;> simp_all
  | sending m p e l => cases l <;> simp [stepU, someArg, hpc]
  | relUpd m em => simp [stepU, hpc]
  | done => simp [stepU, hpc]

theorem no_deadlock (cfg : Cfg) (σ : State) (hI : LockInv σ) (t : Tid) (ht : finished σ t = false) :
    ∃ a, (step cfg σ a).isSome = true := by
  cases hsub : σ.sub with
  | some t' =>
    have := (hI.sub t').2 hsub
    cases t' with
    | h c =>
      refine ⟨⟨.h c, 0⟩, ?_⟩
      simp only [step, stepH_enabled]
      simp only [holdsSub] at this
      cases hpc : σ.hpc c <;> simp_all
    | u k =>
      refine ⟨⟨.u k, someArg σ k⟩, ?_⟩
      simp only [step, stepU_enabled]
      simp only [holdsSub] at this
      cases hpc : σ.upc k <;> simp_all
  | none =>
    by_cases hupd : ∃ m t', σ.upd m = some t'
    · obtain ⟨m, t', hm⟩ := hupd
      have := (hI.upd m t').2 hm
      cases t' with
      | h c =>
        refine ⟨⟨.h c, 0⟩, ?_⟩
        simp only [step, stepH_enabled]
        simp only [holdsUpd] at this
        cases hpc : σ.hpc c <;> simp_all
      | u k =>
        refine ⟨⟨.u k, someArg σ k⟩, ?_⟩
        simp only [step, stepU_enabled]
        simp only [holdsUpd] at this
        cases hpc : σ.upc k <;> simp_all
    · have hfree : ∀ m, σ.upd m = none := by
        intro m
        cases h : σ.upd m with
        | none => rfl
        | some t' => exact absurd ⟨m, t', h⟩ hupd
      cases hdisp : σ.disp with
      | some c =>
        have := (hI.disp c).2 hdisp
        refine ⟨⟨.h c, 0⟩, ?_⟩
        simp only [step, stepH_enabled]
        have hu := fun m => (hI.upd m (.h c)).1
        simp only [holdsUpd] at hu
        have hs := (hI.sub (.h c)).1
        simp only [holdsSub] at hs
        cases hpc : σ.hpc c <;> simp_all
      | none =>
        cases t with
        | h c =>
          refine ⟨⟨.h c, 0⟩, ?_⟩
          simp only [step, stepH_enabled]
          simp only [finished] at ht
          cases hpc : σ.hpc c <;> simp_all
        | u k =>
          refine ⟨⟨.u k, someArg σ k⟩, ?_⟩
          simp only [step, stepU_enabled]
          simp only [finished] at ht
          cases hpc : σ.upc k <;> simp_all
          split <;> simp_all

/-! ## tables, scopes and the Silent invariant -/

def tableHas (σ : State) (c : Conn) : Scope → Bool
  | .all => σ.active c
  | .mod m => σ.subMod m c
  | .par m p => σ.subPar m p c

theorem listens_iff (σ : State) (c : Conn) (m : Mod) (p : Par) :
    listens σ c m p = true ↔ ∃ s, tableHas σ c s = true ∧ covers s m p = true := by
  constructor
  · intro h
    simp only [listens, Bool.or_eq_true] at h
    rcases h with (h | h) | h
    · exact ⟨.all, h, rfl⟩
    · exact ⟨.mod m, h, by simp [covers]⟩
    · exact ⟨.par m p, h, by simp [covers]⟩
  · rintro ⟨s, h1, h2⟩
    cases s with
    | all => simp_all [listens, tableHas]
    | mod m' => simp_all [listens, tableHas, covers]
    | par m' p' => simp_all [listens, tableHas, covers]

/-- the scope a request thread is activating, from its marker to its reply -/
def activating : HPc → Option Scope
  | .start (.activate s) => some s
  | .wantSub (.activate s) => some s
  | .relSub (.activate s) => some s
  | .wantUpd s _ _ => some s
  | .snapMod s _ _ _ => some s
  | .snapSend s _ _ _ _ _ => some s
  | .relDisp (.activate s) _ => some s
  | .rep (.activate s) _ => some s
  | _ => none

/-- the request whose table change is done and whose positive reply is still to come -/
def ending : HPc → Option Req
  | .relSub r => some r
  | .relDisp r true => some r
  | .rep r true => some r
  | _ => none

def goodMod (cfg : Cfg) (s : Scope) (m : Mod) : Prop := ∀ p ∈ scopePars cfg s m, covers s m p = true

theorem goodMod_scopeMods (cfg : Cfg) (s : Scope) : ∀ m ∈ scopeMods cfg s, goodMod cfg s m := by
  intro m hm p hp
  cases s <;> simp_all [scopeMods, scopePars, covers]

/-- what is still to be sent in a snapshot lies in the scope being activated -/
def covInv (cfg : Cfg) : HPc → Prop
  | .wantUpd s m rest => ∀ m' ∈ m :: rest, goodMod cfg s m'
  | .snapMod s m ps rest => (∀ p ∈ ps, covers s m p = true) ∧ ∀ m' ∈ rest, goodMod cfg s m'
  | .snapSend s m p _ ps rest => covers s m p = true ∧ (∀ p' ∈ ps, covers s m p' = true) ∧ ∀ m' ∈ rest, goodMod cfg s m'
  | _ => True

def liveOf (σ : State) : Conn → List Scope := silentMon.after silentMon.init σ.trace

structure SilentInv (cfg : Cfg) (σ : State) : Prop where
  acc : silentMon.acceptsFrom silentMon.init σ.trace = true
  tbl : ∀ c s, tableHas σ c s = true → s ∈ liveOf σ c
  act : ∀ c s, activating (σ.hpc c) = some s → s ∈ liveOf σ c
  snd : ∀ k m p e l, σ.upc k = .sending m p e l → ∀ c ∈ l, listens σ c m p = true
  clr : ∀ c r, ending (σ.hpc c) = some r → ∀ a, ends r a = true → tableHas σ c a = false
  cov : ∀ c, covInv cfg (σ.hpc c)

theorem silentInv_init (cfg : Cfg) (hs us cache) : SilentInv cfg (init hs us cache) := by
  constructor <;> intros <;> simp_all [init, Mon.acceptsFrom, tableHas, activating, ending, covInv]
  rename_i c s h; cases s <;> simp [tableHas] at h


end Frappy.Activate
