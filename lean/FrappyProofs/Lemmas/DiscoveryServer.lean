import FrappyProofs.Lemmas.Discovery
/-
Helper lemmas for the server part of C19: what is in `self.interfaces` after the start attempts of a
round, which responders are running in a round.
-/
namespace Frappy.Discovery
open Frappy.Spec.C19

theorem mem_dictSet (d : IfDict) (k : Iface) (v : Nat) (e : Iface × Nat) (h : e ∈ dictSet d k v) :
    e ∈ d ∨ e = (k, v) := by
  unfold dictSet at h
  split at h
  · simp only [List.mem_map] at h
    obtain ⟨e', he', rfl⟩ := h
    split
    · exact Or.inr rfl
    · exact Or.inl he'
  · simp only [List.mem_append, List.mem_singleton] at h
    exact h

/-- an entry of the dict after a series of start attempts was there before or stems from a successful attempt -/
theorem mem_foldl_record : ∀ (attempts : List Attempt) (d : IfDict) (e : Iface × Nat),
    e ∈ attempts.foldl recordAttempt d → e ∈ d ∨ ∃ a ∈ attempts, a.iface = e.1 ∧ a.result = .started e.2
  | [], d, e, h => Or.inl h
  | a :: rest, d, e, h => by
    simp only [List.foldl_cons] at h
    rcases mem_foldl_record rest _ e h with h' | ⟨a', ha', h'⟩
    · unfold recordAttempt at h'
      cases hr : a.result with
      | failed => rw [hr] at h'; exact Or.inl h'
      | started b =>
        rw [hr] at h'
        rcases mem_dictSet _ _ _ _ h' with h'' | h''
        · exact Or.inl h''
        · subst h''; exact Or.inr ⟨a, by simp, rfl, hr⟩
    · exact Or.inr ⟨a', by simp [ha'], h'⟩

theorem gen_reset : generatedServerTables.resetPerRound = true := by decide
theorem gen_bound : generatedServerTables.announcesBoundPort = true := by decide
theorem gen_closes : generatedServerTables.restartClosesDiscovery = true := by decide

/-- with the per-round reset, the dict of a round does not depend on earlier rounds -/
theorem startInterfaces_gen (prev : IfDict) (attempts : List Attempt) :
    startInterfaces generatedServerTables prev attempts = attempts.foldl recordAttempt [] := by
  unfold startInterfaces; rw [gen_reset]; rfl

theorem mem_startInterfaces_gen (prev : IfDict) (attempts : List Attempt) (e : Iface × Nat)
    (h : e ∈ startInterfaces generatedServerTables prev attempts) :
    ∃ a ∈ attempts, a.iface = e.1 ∧ a.result = .started e.2 := by
  rw [startInterfaces_gen] at h
  rcases mem_foldl_record attempts [] e h with h' | h'
  · simp at h'
  · exact h'

/-- the responder a round constructs -/
def roundListener (t : Tables) (id version : Str) (description : Option Str) (attempts : List Attempt) : Listener :=
  construct t id version description
    (announcedIfaces generatedServerTables (attempts.foldl recordAttempt []))

/-- every port the responder of a round can announce was bound by a TCP interface started in that round -/
theorem roundListener_ports_served (t : Tables) (id version : Str) (description : Option Str)
    (attempts : List Attempt) (hs : ∀ a ∈ attempts, a.iface.scheme ∈ Generated.C19.serverSchemes) :
    AnnouncedServed (servedTcpPorts attempts) (roundListener t id version description attempts).ports := by
  have key : ∀ s ∈ Generated.C19.serverSchemes, (['t', 'c', 'p'].isPrefixOf s = true → s = ['t', 'c', 'p']) := by decide
  intro p hp
  unfold roundListener at hp
  rw [construct_ports] at hp
  unfold portsOf announcedIfaces at hp
  rw [gen_bound] at hp
  simp only [if_true, List.mem_map, List.mem_filter] at hp
  obtain ⟨i, ⟨⟨e, he, rfl⟩, htcp⟩, rfl⟩ := hp
  have he' : e ∈ startInterfaces generatedServerTables [] attempts := by rw [startInterfaces_gen]; exact he
  obtain ⟨a, ha, hai, har⟩ := mem_startInterfaces_gen [] attempts e he'
  unfold servedTcpPorts
  simp only [List.mem_filterMap]
  refine ⟨a, ha, ?_⟩
  rw [har]
  have hsch : a.iface.scheme = ['t', 'c', 'p'] := by
    apply key _ (hs a ha)
    rw [hai]; exact htcp
  simp [hsch]

/-- in every round exactly the responder constructed in that round is running (or none) -/
theorem runRounds_live (t : Tables) (id version : Str) (description : Option Str) :
    ∀ (rounds : List (List Attempt)) (s : SrvState), s.live = [] →
    ∀ (i : Nat) (s' : SrvState) (attempts : List Attempt),
      (runRounds generatedServerTables t id version description s rounds)[i]? = some s' →
      rounds[i]? = some attempts →
      ∀ L ∈ s'.live, L = roundListener t id version description attempts
  | [], _, _, i, s', attempts, h, _ => by simp [runRounds] at h
  | a :: rest, s, hs, i, s', attempts, h, hr => by
    unfold runRounds at h
    cases i with
    | zero =>
      simp only [List.getElem?_cons_zero, Option.some.injEq] at h hr
      subst h; subst hr
      intro L hL
      unfold startRound at hL
      split at hL
      · simp [hs] at hL
      · simp only [hs, List.nil_append, List.mem_singleton] at hL
        rw [hL, startInterfaces_gen]; rfl
    | succ j =>
      simp only [List.getElem?_cons_succ] at h hr
      split at h
      · refine runRounds_live t id version description rest _ ?_ j s' attempts h hr
        unfold restartStep startRound
        rw [gen_closes]
        split <;> simp [hs]
      · simp at h

theorem runRounds_live_le_one (t : Tables) (id version : Str) (description : Option Str) :
    ∀ (rounds : List (List Attempt)) (s : SrvState), s.live = [] →
    ∀ (i : Nat) (s' : SrvState),
      (runRounds generatedServerTables t id version description s rounds)[i]? = some s' → s'.live.length ≤ 1
  | [], _, _, i, s', h => by simp [runRounds] at h
  | a :: rest, s, hs, i, s', h => by
    unfold runRounds at h
    cases i with
    | zero =>
      simp only [List.getElem?_cons_zero, Option.some.injEq] at h
      subst h
      unfold startRound; split <;> simp [hs]
    | succ j =>
      simp only [List.getElem?_cons_succ] at h
      split at h
      · refine runRounds_live_le_one t id version description rest _ ?_ j s' h
        unfold restartStep startRound
        rw [gen_closes]
        split <;> simp [hs]
      · simp at h

end Frappy.Discovery
