import FrappyProofs.Lemmas.LifecycleWait
/-
Helper lemmas for C15: no lifecycle hook of any module runs a second time, in every life of a node — also of one that is
rejected (failing hooks, bad attachments, cycles).  From the invariant `Inv` of `get_module` at the top level
(`top_core`) for earlyInit / initModule, and from the structure of the start phase (`start_loop_complete`) for
startModule.
-/
namespace Frappy.Proofs.LifecycleOnce
open Frappy.Lifecycle Frappy.Spec.C15 Frappy.Proofs.Lifecycle Frappy.Proofs.LifecycleInit Frappy.Proofs.LifecycleWait

/-- the hook part of the clause for one module -/
def HookOk (m : Name) (log : List Ev) : Prop :=
  log.count (.early m) ≤ 1 ∧ log.count (.init m) ≤ 1 ∧ log.count (.start m) ≤ 1 ∧
  (Ev.init m ∈ log → Ev.early m ∈ log) ∧ NeverAfter (· == .init m) (· == .early m) log

theorem hooksAtMostOnce_of (log : List Ev) (h : ∀ m, HookOk m log) : HooksAtMostOnce log :=
  fun _ _ m _ => h m

theorem count_zero_of_shape {l : List Ev} {e : Ev} {f : Ev → Bool} (hl : ∀ x ∈ l, f x = false) (he : f e = true) :
    l.count e = 0 := by
  apply List.count_eq_zero.mpr
  intro hm
  have := hl e hm
  rw [he] at this
  cases this

/-- at the top level (no initialisation in progress) the invariant of `get_module` gives the hook part for the
initialisation log; it contains no start event -/
theorem top_hookOk (st : St) (h : Top st) (m : Name) : HookOk m st.log := by
  obtain ⟨i, hs⟩ := h
  have hstart : st.log.count (Ev.start m) = 0 :=
    List.count_eq_zero.mpr (fun hm => by have := i.shape _ hm; simp [isInitEv] at this)
  by_cases hm : m ∈ st.inited
  · refine ⟨by rw [i.earlyIn m (Or.inr hm)]; exact Nat.le_refl 1, i.initLe m hm, by omega,
      fun _ => mem_of_count_eq_one (i.earlyIn m (Or.inr hm)), i.order m⟩
  · have hns : m ∉ st.stack := by rw [hs]; simp
    refine ⟨by rw [i.earlyOut m hns hm]; omega, by rw [i.initFresh m hns hm]; omega, by omega, ?_, i.order m⟩
    intro hin
    have := List.count_pos_iff.mpr hin
    rw [i.initFresh m hns hm] at this
    omega

/-- a part without `earlyInit` / `initModule` appended to a part without `startModule` -/
theorem hookOk_append (m : Name) (A L : List Ev) (h : HookOk m A) (hA : A.count (Ev.start m) = 0)
    (hL : ∀ e ∈ L, isInitEv e = false) (hs : L.count (Ev.start m) ≤ 1) : HookOk m (A ++ L) := by
  have hne : Ev.early m ∉ L := fun hm => by have := hL _ hm; simp [isInitEv] at this
  have hni : Ev.init m ∉ L := fun hm => by have := hL _ hm; simp [isInitEv] at this
  obtain ⟨h1, h2, _, h4, h5⟩ := h
  refine ⟨by rw [List.count_append, List.count_eq_zero.mpr hne]; exact h1,
    by rw [List.count_append, List.count_eq_zero.mpr hni]; exact h2,
    by rw [List.count_append, hA]; omega, ?_, ?_⟩
  · intro hin
    rcases List.mem_append.mp hin with hin | hin
    · exact List.mem_append.mpr (Or.inl (h4 hin))
    · exact absurd hin hni
  · unfold NeverAfter
    rw [List.pairwise_append]
    refine ⟨h5, pairwise_of_left L (fun x hx y hh => ?_), fun x _ y hy hh => ?_⟩
    · have : x = Ev.init m := beq_iff_eq.mp hh.1
      exact hni (this ▸ hx)
    · have : y = Ev.early m := beq_iff_eq.mp hh.2
      exact hne (this ▸ hy)

theorem top_no_start (st : St) (h : Top st) (m : Name) : st.log.count (Ev.start m) = 0 :=
  List.count_eq_zero.mpr (fun hm => by have := h.1.shape _ hm; simp [isInitEv] at this)

theorem count_start_startEvents (st : St) (hnd : st.modules.Nodup) (m : Name) :
    (startEvents st).count (Ev.start m) ≤ 1 := by
  unfold startEvents
  have key : ∀ (l : List Name), l.Nodup → (l.flatMap (startOne st)).count (Ev.start m) ≤ 1 ∧
      (m ∉ l → (l.flatMap (startOne st)).count (Ev.start m) = 0) := by
    intro l
    induction l with
    | nil => intro _; simp
    | cons a l ih =>
      intro hnd
      obtain ⟨ha, hl⟩ := List.nodup_cons.mp hnd
      obtain ⟨ih1, ih2⟩ := ih hl
      have hone : (startOne st a).count (Ev.start m) = if a = m then 1 else 0 := by
        unfold startOne
        by_cases hm : a = m
        · subst hm; split <;> simp
        · split <;> simp [hm]
      simp only [List.flatMap_cons, List.count_append, hone]
      constructor
      · by_cases hm : a = m
        · subst hm; rw [ih2 ha]; simp
        · simp [hm]; exact ih1
      · intro hn
        have hm : a ≠ m := fun e => hn (by simp [e])
        have hml : m ∉ l := fun e => hn (by simp [e])
        simp [hm, ih2 hml]
  exact (key st.modules hnd).1

/-- the part of a life after the initialisation: `startModule` at most once per module, no `earlyInit` / `initModule` -/
theorem later_hooks (st : St) (sched : List Act) (pick : List Name → Nat) (hnd : st.modules.Nodup) (m : Name) :
    (laterPart st sched pick).count (Ev.start m) ≤ 1 ∧
    (∀ e ∈ laterPart st sched pick, isInitEv e = false) := by
  refine ⟨?_, fun e he => (later_no_init st sched pick e he).2⟩
  have hw : (waitPhase st sched).count (Ev.start m) = (startEvents st).count (Ev.start m) := by
    rw [← start_loop_complete st sched, List.count_filter]
    rfl
  have hs : (shutdownLog st.modules (threadsOf st) st.edges pick).count (Ev.start m) = 0 := by
    apply List.count_eq_zero.mpr
    intro hm
    simp only [shutdownLog, List.mem_append, List.mem_map] at hm
    rcases hm with (⟨x, _, hx⟩ | ⟨x, _, hx⟩) | ⟨x, _, hx⟩ <;> cases hx
  simp only [laterPart, List.count_append, hw, hs]
  have := count_start_startEvents st hnd m
  simp
  exact this

end Frappy.Proofs.LifecycleOnce
