import FrappyProofs.Lemmas.Reconnect
/-
C11 — the invariant of the life-cycle model behind `shutdown_stands` (repaired code: `joinAll`):
while a shutdown request stands (flag set, not cleared since, no request of a user inside the window when it was set)
  * the flag is set;
  * only reconnect threads are inside the window "past the test of the flag, `self.io` not yet assigned", and each of them
    is still on the list of every disconnect(True) whose request stands (that disconnect is in its join phase);
  * a disconnect(True) whose request stands and which has read `self.io`: `self.io` is still that or `None`; past its
    `if self.io is io: self.io = None`: `self.io` is `None`.
-/
namespace Frappy.Client.Reconnect

def covered (U : Th) (i : Nat) : Prop :=
  U.pc = .s2 ∨ U.pc = .s3 ∨ U.pc = .s3b ∨ U.pc = .s4 ∨ U.pc = .s5 ∨ U.pc = .s6
    ∨ (U.pc = .s7 ∧ i ∈ U.snap) ∨ (U.pc = .s8 ∧ (i ∈ U.snap ∨ U.w = some i))

structure Inv (s : St) : Prop where
  reg : ∀ (i : Nat) (t : Th), s.th[i]? = some t → t.kind = .recon → reconPc t.pc = true ∧ (regPc t.pc = true → i ∈ s.registered)
  ep : ∀ (i : Nat) (t : Th) (e : Nat), s.th[i]? = some t → t.ep = some e → e ≤ s.epoch ∧ afterS1 t.pc = true
  flag : ∀ (u : Nat) (U : Th), s.th[u]? = some U → standing s U = true → s.shutdown = true
  win : ∀ (u : Nat) (U : Th) (i : Nat) (t : Th), s.th[u]? = some U → standing s U = true → s.th[i]? = some t → inWindow t = true →
          t.kind = .recon ∧ covered U i
  io : ∀ (u : Nat) (U : Th), s.th[u]? = some U → standing s U = true →
          (isP1 U.pc = true → s.io = U.io ∨ s.io = none) ∧ (isP2 U.pc = true → s.io = none)

theorem standing_iff (s : St) (t : Th) : standing s t = true ↔ t.ep = some s.epoch := by
  simp [standing]

theorem covered_sim {x y : Th} (h : Sim x y) (i : Nat) : covered x i ↔ covered y i := by
  obtain ⟨h1, -, -, h4, h5, -⟩ := h.pc
  simp [covered, h1, h4, h5]

theorem inWindow_sim {x y : Th} (h : Sim x y) : inWindow x = inWindow y := by
  simp [inWindow, h.pc.1]

theorem covered_isJ {U : Th} {i : Nat} (h : covered U i) : isJ U.pc = true := by
  rcases h with h | h | h | h | h | h | ⟨h, -⟩ | ⟨h, -⟩ <;> simp [h, isJ]

theorem fresh_not_window {x : Th} (h : Fresh x) : inWindow x = false := by
  rcases h.2.1 with h | h | h <;> simp [inWindow, h]

theorem init_threads (i : Nat) (t : Th) (h : ({} : St).th[i]? = some t) : t.ep = none ∧ t.kind ≠ .recon := by
  match i, h with
  | 0, h => simp at h; subst h; simp
  | 1, h => simp at h; subst h; simp
  | i + 2, h => simp at h

theorem inv_init : Inv ({} : St) := by
  constructor
  · intro i t h hk; exact absurd hk (init_threads i t h).2
  · intro i t e h he; rw [(init_threads i t h).1] at he; cases he
  · intro u U h hs; simp [standing, (init_threads u U h).1] at hs
  · intro u U i t h hs; simp [standing, (init_threads u U h).1] at hs
  · intro u U h hs; simp [standing, (init_threads u U h).1] at hs


theorem isDone_pc {s : St} {c : Nat} {y : Th} (h : isDone s c = true) (hy : s.th[c]? = some y) : y.pc = .done := by
  simp [isDone, hy] at h; exact h

theorem window_regPc {t : Th} (h : inWindow t = true) : regPc t.pc = true := by
  simp [inWindow] at h
  rcases h with h | h <;> simp [h, regPc, cPc]

theorem window_not_after {t : Th} (h : inWindow t = true) : afterS1 t.pc = false ∧ isJ t.pc = false := by
  simp [inWindow] at h
  rcases h with h | h <;> simp [h, afterS1, isJ, isD1, isP1, isP2]

theorem inv_th {cfg : Cfg} {s s' : St} {me o : Nat} (hj : cfg.joinAll = true) (inv : Inv s)
    (h : step cfg s (.th me o) = some s') : Inv s' := by
  obtain ⟨t, s1, t', ht, hst, rfl⟩ := step_th_inv h
  clear h
  have hkr := fp_kind_reg hst
  have hep := fp_epoch hst
  have hio := fp_io hst
  have hwin := fp_window hst
  have hthr := fp_threads hst
  have haft := fp_after hst
  have hph := fp_phase hst
  have after := fun (i : Nat) (x : Th) hx => th_after (t' := t') ht hthr i x hx
  have hmono : s.epoch ≤ s1.epoch := by
    rcases hep with h | h | h | h <;> omega
  -- nobody's request stands after a clear
  have hclear : t.pc = .c2 → s1.epoch = s.epoch + 1 → ∀ (i : Nat) (x : Th), (updAt s1.th me (fun _ => t'))[i]? = some x →
      x.ep ≠ some s1.epoch := by
    intro _ he i x hx hxe
    have hle : ∀ e, x.ep = some e → e ≤ s.epoch := by
      intro e hxe'
      rcases after i x hx with ⟨rfl, rfl⟩ | ⟨_, y, hy, hsim⟩ | ⟨_, hf⟩
      · rcases hep with h | h | h | h
        · exact (inv.ep _ t e ht (h.2.2 ▸ hxe')).1
        · omega
        · exact (inv.ep _ t e ht (h.2.2.1 ▸ hxe')).1
        · rw [h.2.1] at hxe'; cases hxe'
      · exact (inv.ep i y e hy (hsim.pc.2.2.1 ▸ hxe')).1
      · rw [hf.1] at hxe'; cases hxe'
    have := hle _ hxe
    omega
  -- a thread other than the acting one whose request stands afterwards: it stood before
  have hstood : ∀ (u : Nat) (U y : Th), (updAt s1.th me (fun _ => t'))[u]? = some U → u ≠ me → s.th[u]? = some y → Sim U y →
      U.ep = some s1.epoch → standing s y = true := by
    intro u U y hU hne hy hsim hUe
    rw [standing_iff, ← hsim.pc.2.2.1]
    rcases hep with h | h | h | h
    · rw [hUe, h.1]
    · rw [hUe, h.2.1]
    · exact absurd hUe (hclear h.1 h.2.1 u U hU)
    · rw [hUe, h.2.2.1]
  constructor
  · -- reg
    intro i x hx hk
    dsimp only at hx ⊢
    rcases after i x hx with ⟨rfl, rfl⟩ | ⟨hne, y, hy, hsim⟩ | ⟨hne, hf⟩
    · have hk0 : t.kind = .recon := by rw [← hkr.1]; exact hk
      obtain ⟨hrp, hreg⟩ := inv.reg _ t ht hk0
      obtain ⟨h1, h2⟩ := fp_recon hst hk0 hrp
      refine ⟨h1, fun h3 => ?_⟩
      rcases h2 h3 with h4 | h4
      · have hm := hreg h4
        rcases hkr.2 with ⟨_, _, e⟩ | ⟨e1, _⟩ | ⟨e1, _⟩
        · rw [e]; exact hm
        · rw [e1] at h4; simp [regPc, cPc] at h4
        · rw [e1] at h4; simp [regPc, cPc] at h4
      · rcases hkr.2 with ⟨e0, _, _⟩ | ⟨_, e⟩ | ⟨e1, _⟩
        · exact absurd h4 e0
        · rw [e]; simp
        · rw [e1] at h4; cases h4
    · obtain ⟨hp, hkk, -⟩ := hsim.pc
      obtain ⟨hrp, hreg⟩ := inv.reg i y hy (hkk ▸ hk)
      refine ⟨hp ▸ hrp, fun h3 => ?_⟩
      have hm := hreg (hp ▸ h3)
      rcases hkr.2 with ⟨_, _, e⟩ | ⟨_, e⟩ | ⟨_, e⟩
      · rw [e]; exact hm
      · rw [e]; exact List.mem_append_left _ hm
      · rw [e]; simp [List.mem_filter, hm, hne]
    · rw [hf.2.2 hk]; simp [reconPc, regPc, cPc]
  · -- ep
    intro i x e hx hxe
    dsimp only at hx ⊢
    rcases after i x hx with ⟨rfl, rfl⟩ | ⟨hne, y, hy, hsim⟩ | ⟨hne, hf⟩
    · rcases hep with h | h | h | h
      · have := inv.ep _ t e ht (h.2.2 ▸ hxe)
        exact ⟨by omega, haft.1 this.2⟩
      · refine ⟨?_, by rw [h.2.2.2.1]; rfl⟩
        rcases h.2.2.2.2 with h5 | h5
        · rw [h5] at hxe; cases hxe
        · rw [h5.1] at hxe; cases hxe; omega
      · have := inv.ep _ t e ht (h.2.2.1 ▸ hxe)
        exact ⟨by omega, haft.1 this.2⟩
      · rw [h.2.1] at hxe; cases hxe
    · have := inv.ep i y e hy (hsim.pc.2.2.1 ▸ hxe)
      exact ⟨by omega, by rw [hsim.pc.1]; exact this.2⟩
    · rw [hf.1] at hxe; cases hxe
  · -- flag
    intro u U hU hs
    dsimp only at hU hs ⊢
    rw [standing_iff] at hs
    dsimp only at hs
    rcases hep with h | h | h | h
    · rw [h.2.1]
      rcases after u U hU with ⟨rfl, rfl⟩ | ⟨hne, y, hy, hsim⟩ | ⟨hne, hf⟩
      · exact inv.flag _ t ht (by rw [standing_iff, ← h.2.2, hs, h.1])
      · exact inv.flag u y hy (hstood u U y hU hne hy hsim hs)
      · rw [hf.1] at hs; cases hs
    · exact h.2.2.1
    · exact absurd hs (hclear h.1 h.2.1 u U hU)
    · rw [h.2.2.2]
      rcases after u U hU with ⟨rfl, rfl⟩ | ⟨hne, y, hy, hsim⟩ | ⟨hne, hf⟩
      · rw [h.2.1] at hs; cases hs
      · exact inv.flag u y hy (hstood u U y hU hne hy hsim hs)
      · rw [hf.1] at hs; cases hs
  · -- win
    intro u U i x hU hs hx hw
    dsimp only at hU hs hx ⊢
    rw [standing_iff] at hs
    dsimp only at hs
    rcases after i x hx with ⟨rfl, rfl⟩ | ⟨hne, y, hy, hsim⟩ | ⟨hne, hf⟩
    · -- the acting thread is in the window afterwards
      rcases hwin hw with ⟨h5, hsd⟩ | h6
      · -- it has just passed the test of the flag: nobody's request stands
        exfalso
        have hd : s1.epoch = s.epoch ∧ s1.shutdown = s.shutdown ∧ t'.ep = t.ep := by
          rcases hep with h | h | h | h
          · exact h
          · simp [h5] at h
          · simp [h5] at h
          · simp [h5] at h
        have hsh : s.shutdown = true := by
          rcases after u U hU with ⟨rfl, rfl⟩ | ⟨hneu, Y, hY, hsimU⟩ | ⟨hneu, hfU⟩
          · exact inv.flag _ t ht (by rw [standing_iff, ← hd.2.2, hs, hd.1])
          · exact inv.flag u Y hY (hstood u U Y hU hneu hY hsimU hs)
          · rw [hfU.1] at hs; cases hs
        rw [hsh] at hsd; cases hsd
      · -- it was in the window before
        have hwt : inWindow t = true := by simp [inWindow, h6]
        have hd : s1.epoch = s.epoch ∧ s1.shutdown = s.shutdown ∧ t'.ep = t.ep := by
          rcases hep with h | h | h | h
          · exact h
          · simp [h6] at h
          · simp [h6] at h
          · simp [h6] at h
        rcases after u U hU with ⟨rfl, rfl⟩ | ⟨hneu, Y, hY, hsimU⟩ | ⟨hneu, hfU⟩
        · have := inv.win _ t _ t ht (by rw [standing_iff, ← hd.2.2, hs, hd.1]) ht hwt
          have := covered_isJ this.2
          simp [h6, isJ] at this
        · have := inv.win u Y _ t hY (hstood u U Y hU hneu hY hsimU hs) ht hwt
          exact ⟨hkr.1 ▸ this.1, (covered_sim hsimU _).2 this.2⟩
        · rw [hfU.1] at hs; cases hs
    · -- another thread is in the window
      have hwy : inWindow y = true := by rw [← inWindow_sim hsim]; exact hw
      have hky : x.kind = y.kind := hsim.pc.2.1
      rcases after u U hU with ⟨rfl, rfl⟩ | ⟨hneu, Y, hY, hsimU⟩ | ⟨hneu, hfU⟩
      · -- the acting thread's request stands afterwards
        rcases hep with h | h | h | h
        · have hst0 : standing s t = true := by rw [standing_iff, ← h.2.2, hs, h.1]
          obtain ⟨hk, hcov⟩ := inv.win _ t i y ht hst0 hy hwy
          refine ⟨hky ▸ hk, ?_⟩
          have hJ := covered_isJ hcov
          rcases fp_join hst hj hJ with ⟨hp, _⟩ | ⟨_, he⟩ | ⟨h6, h7, hsn⟩ | ⟨h7, hsn, _⟩ | ⟨h7, h8, r, hw', hsn⟩
              | ⟨h8, h7, hsn, c, hwc, hdone⟩
          · rcases hp with hp | hp | hp | hp | hp <;> simp [covered, hp]
          · rw [he] at hs; cases hs
          · have hreg := (inv.reg i y hy hk).2 (window_regPc hwy)
            simp [covered, h7, hsn, List.mem_filter, hreg, hne]
          · exfalso; simp [covered, h7, hsn] at hcov
          · simp [covered, h7] at hcov
            rw [hsn] at hcov
            simp at hcov
            simp [covered, h8, hw']
            rcases hcov with hh | hh
            · exact Or.inr hh.symm
            · exact Or.inl hh
          · simp [covered, h8] at hcov
            rcases hcov with hh | hh
            · simp [covered, h7, hsn, hh]
            · exfalso
              rw [hwc] at hh
              cases hh
              have := isDone_pc hdone hy
              simp [inWindow, this] at hwy
        · refine ⟨?_, by simp [covered, h.2.2.2.1]⟩
          rcases h.2.2.2.2 with h5 | h5
          · rw [h5] at hs; cases hs
          · rw [hky]
            cases hk : y.kind <;> try rfl
            all_goals
              exfalso
              have hu : inUserWindow y = true := by simp [inUserWindow, hwy, hk]
              have hmem : y ∈ s.th := List.mem_of_getElem? hy
              have := List.any_eq_false.1 h5.2 y hmem
              rw [hu] at this
              exact this rfl
        · exact absurd hs (hclear h.1 h.2.1 _ _ hU)
        · rw [h.2.1] at hs; cases hs
      · have hst0 := hstood u U Y hU hneu hY hsimU hs
        obtain ⟨hk, hcov⟩ := inv.win u Y i y hY hst0 hy hwy
        exact ⟨hky ▸ hk, (covered_sim hsimU i).2 hcov⟩
      · rw [hfU.1] at hs; cases hs
    · rw [fresh_not_window hf] at hw; cases hw
  · -- io
    intro u U hU hs
    dsimp only at hU hs ⊢
    rw [standing_iff] at hs
    dsimp only at hs
    rcases after u U hU with ⟨rfl, rfl⟩ | ⟨hne, Y, hY, hsim⟩ | ⟨hne, hf⟩
    · rcases hep with h | h | h | h
      · have hst0 : standing s t = true := by rw [standing_iff, ← h.2.2, hs, h.1]
        obtain ⟨i1, i2⟩ := inv.io _ t ht hst0
        have haf : afterS1 t.pc = true := (inv.ep _ t _ ht (by rw [← h.2.2]; exact hs)).2
        constructor
        · intro hp1
          rcases hph.1 hp1 with ⟨hp, hioe⟩ | ⟨hd2, hioe⟩
          · rcases hio with ⟨_, _, e⟩ | ⟨e6, _⟩ | ⟨_, e⟩
            · rw [e, hioe]; exact i1 hp
            · rw [e6] at hp; simp [isP1] at hp
            · right; exact e
          · rcases hio with ⟨_, _, e⟩ | ⟨e6, _⟩ | ⟨e6, _⟩
            · left; rw [e, hioe]
            · rw [hd2] at e6; cases e6
            · rw [hd2] at e6; cases e6
        · intro hp2
          rcases hph.2 hp2 haf with hp | ⟨hd, hne'⟩ | hd | ⟨_, he⟩
          · have := i2 hp
            rcases hio with ⟨_, _, e⟩ | ⟨e6, _⟩ | ⟨_, e⟩
            · rw [e]; exact this
            · rw [e6] at hp; simp [isP2] at hp
            · exact e
          · have := i1 (by simp [hd, isP1])
            rcases this with h' | h'
            · exact absurd h' hne'
            · rcases hio with ⟨_, _, e⟩ | ⟨e6, _⟩ | ⟨e6, _⟩
              · rw [e]; exact h'
              · rw [hd] at e6; cases e6
              · rw [hd] at e6; cases e6
          · rcases hio with ⟨_, e6, _⟩ | ⟨e6, _⟩ | ⟨_, e⟩
            · exact absurd hd e6
            · rw [hd] at e6; cases e6
            · exact e
          · rw [he] at hs; cases hs
      · simp [h.2.2.2.1, isP1, isP2]
      · exact absurd hs (hclear h.1 h.2.1 _ _ hU)
      · rw [h.2.1] at hs; cases hs
    · have hst0 := hstood u U Y hU hne hY hsim hs
      obtain ⟨i1, i2⟩ := inv.io u Y hY hst0
      obtain ⟨hp, -, -, -, -, hioe⟩ := hsim.pc
      rw [hp, hioe]
      rcases hio with ⟨_, _, e⟩ | ⟨e6, _⟩ | ⟨_, e⟩
      · rw [e]; exact ⟨i1, i2⟩
      · have hwt : inWindow t = true := by simp [inWindow, e6]
        have hJ := covered_isJ (inv.win u Y _ t hY hst0 ht hwt).2
        constructor <;> intro hpp <;> (exfalso; revert hJ hpp; cases Y.pc <;> simp [isJ, isP1, isP2])
      · rw [e]; exact ⟨fun _ => Or.inr rfl, fun _ => rfl⟩
    · rw [hf.1] at hs; cases hs


theorem getElem?_append_one {α : Type} {l : List α} {x y : α} {i : Nat} (h : (l ++ [x])[i]? = some y) :
    l[i]? = some y ∨ y = x := by
  rcases Nat.lt_or_ge i l.length with hi | hi
  · left; rw [List.getElem?_append_left hi] at h; exact h
  · right
    rw [List.getElem?_append_right hi] at h
    cases hk : i - l.length with
    | zero => rw [hk] at h; simp at h; exact h.symm
    | succ k => rw [hk] at h; simp at h

theorem inv_append {s : St} {x : Th} (inv : Inv s) (hx : x.ep = none) (hk : x.kind ≠ .recon) (hw : inWindow x = false) :
    Inv { s with th := s.th ++ [x] } := by
  constructor
  · intro i t h hkt
    rcases getElem?_append_one h with h | h
    · exact inv.reg i t h hkt
    · subst h; exact absurd hkt hk
  · intro i t e h he
    rcases getElem?_append_one h with h | h
    · exact inv.ep i t e h he
    · subst h; rw [hx] at he; cases he
  · intro u U h hs
    rcases getElem?_append_one h with h | h
    · exact inv.flag u U h hs
    · subst h; simp [standing, hx] at hs
  · intro u U i t h hs ht hwt
    rcases getElem?_append_one h with h | h
    · rcases getElem?_append_one ht with ht | ht
      · exact inv.win u U i t h hs ht hwt
      · subst ht; rw [hw] at hwt; cases hwt
    · subst h; simp [standing, hx] at hs
  · intro u U h hs
    rcases getElem?_append_one h with h | h
    · exact inv.io u U h hs
    · subst h; simp [standing, hx] at hs

theorem inv_step {cfg : Cfg} {s s' : St} {a : Act} (hj : cfg.joinAll = true) (inv : Inv s)
    (h : step cfg s a = some s') : Inv s' := by
  cases a with
  | th me o => exact inv_th hj inv h
  | drop c => simp only [step] at h; cases h; exact ⟨inv.reg, inv.ep, inv.flag, inv.win, inv.io⟩
  | newDisc => simp only [step] at h; cases h; exact inv_append inv rfl (by simp) (by simp [inWindow])
  | newReq => simp only [step] at h; cases h; exact inv_append inv rfl (by simp) (by simp [inWindow])
  | put q => simp only [step, setQueue] at h; cases h; exact ⟨inv.reg, inv.ep, inv.flag, inv.win, inv.io⟩

theorem reachable_inv {cfg : Cfg} (hj : cfg.joinAll = true) {s : St} (h : Reachable cfg s) : Inv s := by
  induction h with
  | init => exact inv_init
  | step a _ hs ih => exact inv_step hj ih hs

end Frappy.Client.Reconnect
