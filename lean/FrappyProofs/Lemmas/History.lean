import FrappyModel.Datatypes.History
import FrappyModel.Datatypes.CompatUsers
/-
C03 — lemmas about histories on one datatype object (`FrappyModel/Datatypes/History.lean`) and about the direction of
the proxy check (`CompatUsers.lean`).
-/
namespace Frappy.Lemmas.C03History
open Frappy Frappy.Datatypes
variable {F : Type} [FloatOps F]

mutual
/-- the main-unit substitution touches nothing that takes part in validation -/
theorem setMainUnit_erase (u : String) : (t : DInfo F) → (setMainUnit u t).erase = t.erase
  | .double .. => by simp only [setMainUnit, DInfo.erase]
  | .int .. => by simp only [setMainUnit]
  | .scaled .. => by simp only [setMainUnit, DInfo.erase]
  | .bool => by simp only [setMainUnit]
  | .enum .. => by simp only [setMainUnit]
  | .string .. => by simp only [setMainUnit]
  | .blob .. => by simp only [setMainUnit]
  | .array e a b => by simp only [setMainUnit, DInfo.erase, setMainUnit_erase u e]
  | .tuple es => by simp only [setMainUnit, DInfo.erase, setMainUnitList_erase u es]
  | .struct ms opt c => by simp only [setMainUnit, DInfo.erase, setMainUnitFields_erase u ms]
theorem setMainUnitList_erase (u : String) :
    (ts : List (DInfo F)) → DInfo.eraseList (setMainUnitList u ts) = DInfo.eraseList ts
  | [] => by simp only [setMainUnitList]
  | t :: ts => by simp only [setMainUnitList, DInfo.eraseList, setMainUnit_erase u t, setMainUnitList_erase u ts]
theorem setMainUnitFields_erase (u : String) :
    (ts : List (String × DInfo F)) → DInfo.eraseFields (setMainUnitFields u ts) = DInfo.eraseFields ts
  | [] => by simp only [setMainUnitFields]
  | (k, t) :: ts => by
    simp only [setMainUnitFields, DInfo.eraseFields, setMainUnit_erase u t, setMainUnitFields_erase u ts]
end

/-- a history that ends by asking the object itself for its description: the last description recorded is the one of
the object at the end — whatever was asked for and changed before -/
theorem run_snoc_export (D : Consts F) :
    ∀ (steps : List (Step F)) (t t' : DInfo F) (outs : List (Except Err (JVal F))),
      run D t (steps ++ [.export []]) = .ok (t', outs) →
      ∃ outs0, run D t steps = .ok (t', outs0) ∧ outs = outs0 ++ [exportDatatype D t']
  | [], t, t', outs, h => by
    simp only [List.nil_append, run, step, nodeAt, Except.ok.injEq, Prod.mk.injEq] at h
    obtain ⟨h1, h2⟩ := h
    subst h1
    exact ⟨[], rfl, by simpa using h2.symm⟩
  | s :: rest, t, t', outs, h => by
    simp only [List.cons_append, run] at h
    cases hs : step D t s with
    | error e => rw [hs] at h; cases h
    | ok r =>
      obtain ⟨t1, out⟩ := r
      rw [hs] at h
      simp only at h
      cases hr : run D t1 (rest ++ [.export []]) with
      | error e => rw [hr] at h; cases h
      | ok r2 =>
        obtain ⟨t2, outs2⟩ := r2
        rw [hr] at h
        simp only [Except.ok.injEq, Prod.mk.injEq] at h
        obtain ⟨h1, h2⟩ := h
        obtain ⟨outs0, ih1, ih2⟩ := run_snoc_export D rest t1 t2 outs2 hr
        refine ⟨out.toList ++ outs0, ?_, ?_⟩
        · simp only [run, hs, ih1, h1]
        · rw [← h2, ih2, h1, List.append_assoc]

theorem passes_iff (r : Except Err Unit) : passes r = true ↔ r = .ok () := by
  cases r with
  | ok u => cases u; simp [passes]
  | error e => simp [passes]

end Frappy.Lemmas.C03History
