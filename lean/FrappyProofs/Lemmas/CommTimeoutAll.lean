import FrappyProofs.Lemmas.CommTimeout
import FrappyProofs.Lemmas.CommExchange
/- helper lemmas for C16: how long ANY read keeps waiting — the read loop of a command (`read`), of an identification
request (`idRead`) and of `readBytes` called by `getFullReply` (`readX`); each has the communicator's time-out, counted
from the event that starts it -/
open Frappy.Spec.C16
namespace Frappy.Comm

def loopPc (p : Pc) : Bool := match p with | .read | .readX | .idRead => true | _ => false

/-- events that start a read with a time-out of its own: a send, an identification request, a `readBytes` -/
def loopStartKind (e : Ev) : Bool := match e with
  | .send _ _ _ _ => true | .isend _ _ _ _ => true | .more _ _ => true | _ => false

def loopStartEv (c : Nat) (e : Ev) : Bool := loopStartKind e && (e.who == some c)

/-- p is the position of the last event by which caller `c` started a read -/
def LoopStart (log : Log) (c p : Nat) : Prop :=
  (∃ ev, evAt log p = some ev ∧ loopStartEv c ev = true) ∧
  ∀ m, p < m → m < log.length → ∀ ev, evAt log m = some ev → loopStartEv c ev = false

theorem misc_loopPc (s : State) (cfg : Cfg) (k : Caller) :
    loopPc (failTo k).pc = false ∧ loopPc (nextReq k).pc = false ∧ loopPc (afterConnected s k).pc = false ∧
    loopPc (toFlush s k).pc = false ∧ loopPc (rcFail k).pc = false ∧ loopPc (afterIdent s k).pc = false ∧
    loopPc (startIdent s k).pc = false ∧ loopPc (idNext cfg k).pc = false ∧ loopPc (toIdFlush s k).pc = false ∧
    loopPc (toIdEndFail k).pc = false := by
  have h1 : loopPc (failTo k).pc = false := by unfold failTo; simp only; split <;> rfl
  have h3 : loopPc (afterConnected s k).pc = false := by
    unfold afterConnected; split <;> split <;> (try split) <;> (try rfl) <;> exact h1
  have h6 : loopPc (afterIdent s k).pc = false := by unfold afterIdent; split <;> (try split) <;> (try rfl) <;> exact h3
  refine ⟨h1, ?_, h3, ?_, ?_, h6, ?_, ?_, ?_, rfl⟩
  · unfold nextReq; split <;> (try split) <;> rfl
  · unfold toFlush; split <;> (try rfl); exact h1
  · unfold rcFail; split <;> (try rfl); exact h1
  · unfold startIdent; split <;> (try rfl); exact h6
  · unfold idNext; split <;> (try split) <;> (try split) <;> rfl
  · unfold toIdFlush; split <;> rfl

set_option maxHeartbeats 32000000 in
/-- a caller is in a read loop after an event: it was in it before (the event is an empty `recv` within the recv period
and before the time-out has been noticed, or a `recv` with data), or the event has just started the read -/
theorem step_loop (s s' : State) (t c : Nat) (e : Ev) (h : stepCaller s t c e = some s')
    (hp : loopPc (s'.callers c).pc = true) :
    (loopPc (s.callers c).pc = true ∧ (s'.callers c).endT = (s.callers c).endT ∧
      (((∃ x, e = .recv x .empty) ∧ t ≤ (s.callers c).lastT + s.cfg.gran + s.cfg.slack ∧
          mayRetry (s.callers c) s.cfg.slack = true ∧ (s'.callers c).lastT = t ∧ (s'.callers c).emptyAt = some t) ∨
       ((∃ x d, e = .recv x (.data d)) ∧ (s'.callers c).lastT = t ∧ (s'.callers c).emptyAt = none))) ∨
    (loopStartKind e = true ∧ (s'.callers c).endT = t + s.cfg.timeout ∧ (s'.callers c).lastT = t ∧
      (s'.callers c).emptyAt = none) := by
  step_arms
  all_goals (first
    | (exfalso; simp only [setC_same] at hp; first
        | (rw [hpc] at hp; simp [loopPc] at hp; done)
        | (simp [loopPc] at hp; done)
        | helper_contra misc_loopPc
        | (split at hp <;> first | (simp [loopPc] at hp; done) | helper_contra misc_loopPc))
    | (left; refine ⟨by simp [hpc, loopPc], by simp, Or.inl ⟨⟨_, rfl⟩, ?_, ?_, by simp, by simp⟩⟩ <;> simp_all; done)
    | (left; refine ⟨by simp [hpc, loopPc], by simp, Or.inr ⟨⟨_, _, rfl⟩, by simp, by simp⟩⟩; done)
    | (right; refine ⟨?_, ?_, ?_, ?_⟩ <;> (simp [loopStartKind]; done))
    | skip)

/-- an empty `recv` is accepted in a read loop only (a drain never waits) -/
theorem step_recv_empty_loop (s s' : State) (t c x : Nat) (h : stepCaller s t c (.recv x .empty) = some s') :
    loopPc (s.callers c).pc = true := by
  cases hpc : (s.callers c).pc <;> simp only [stepCaller, hpc] at h <;> first | rfl | (simp at h; done)

structure EInvAll (cfg : Cfg) (log : Log) (s : State) : Prop where
  e : ∀ c, loopPc (s.callers c).pc = true → ∃ p, LoopStart log c p ∧
      (s.callers c).endT = timeAt log p + cfg.timeout ∧
      (s.callers c).lastT ≤ waitBound cfg log c p (s.callers c) +
        (if (s.callers c).emptyAt.isSome then cfg.gran + cfg.slack else 0) ∧
      (∀ te, (s.callers c).emptyAt = some te → te = (s.callers c).lastT)

theorem loopStart_lt {log : Log} {c p : Nat} (h : LoopStart log c p) : p < log.length := by
  obtain ⟨⟨ev, hev, _⟩, _⟩ := h
  false_or_by_contra; rename_i hn
  rw [evAt_none log p (by omega)] at hev; simp at hev

theorem loopStart_extend {log : Log} {e : TEv} {c p : Nat} (h : LoopStart log c p) (he : loopStartEv c e.ev = false) :
    LoopStart (log ++ [e]) c p := by
  have hpl := loopStart_lt h
  obtain ⟨⟨ev, hev, hs⟩, hno⟩ := h
  refine ⟨⟨ev, by rw [evAt_append_lt log e p hpl]; exact hev, hs⟩, fun m h1 h2 ev' hev' => ?_⟩
  simp only [List.length_append, List.length_singleton] at h2
  rcases Nat.lt_or_ge m log.length with hlt | hge
  · rw [evAt_append_lt log e m hlt] at hev'; exact hno m h1 hlt ev' hev'
  · have : m = log.length := by omega
    subst this
    rw [evAt_append_eq] at hev'
    simp only [Option.some.injEq] at hev'
    rw [← hev']; exact he

theorem einvAll_step {cfg : Cfg} {log : Log} {s s' : State} (e : TEv) (hcfg : s.cfg = cfg) (he : EInvAll cfg log s)
    (h : step s e = some s') : EInvAll cfg (log ++ [e]) s' := by
  have hlen : (log ++ [e]).length = log.length + 1 := by simp
  refine ⟨fun c hp => ?_⟩
  -- the caller record of c is unchanged and the new event is not c's
  have keep : s'.callers c = s.callers c → e.ev.who ≠ some c →
      ∃ p, LoopStart (log ++ [e]) c p ∧
      (s'.callers c).endT = timeAt (log ++ [e]) p + cfg.timeout ∧
      (s'.callers c).lastT ≤ waitBound cfg (log ++ [e]) c p (s'.callers c) +
        (if (s'.callers c).emptyAt.isSome then cfg.gran + cfg.slack else 0) ∧
      (∀ te, (s'.callers c).emptyAt = some te → te = (s'.callers c).lastT) := by
    intro hsame hnw
    rw [hsame] at hp ⊢
    obtain ⟨p, hls, h1, h2, h3⟩ := he.e c hp
    have hpl := loopStart_lt hls
    have hnl : loopStartEv c e.ev = false := by
      unfold loopStartEv
      cases hk : loopStartKind e.ev <;> simp
      intro hw; exact hnw hw
    refine ⟨p, loopStart_extend hls hnl, by rw [timeAt_append_lt log e p hpl]; exact h1, ?_, h3⟩
    unfold waitBound at h2 ⊢
    rw [hlen, lastDataTime_snoc log e c p hpl,
      dataStep_not_data (by
        intro d; rw [evAt_append_eq]; intro hx
        simp only [Option.some.injEq] at hx
        rw [hx] at hnw; simp [Ev.who] at hnw)]
    exact h2
  cases hwho : e.ev.who with
  | none =>
    exact keep (by rw [(step_env_callers hwho h).1]) (by rw [hwho]; simp)
  | some c0 =>
    rw [step_caller_form s e c0 hwho] at h
    split at h
    · simp at h
    · by_cases hcc : c = c0
      · subst hcc
        rcases step_loop _ s' e.t c e.ev h hp with ⟨hold, hend, hcase⟩ | ⟨hstart, hend, hlt, hem⟩
        · -- already in the loop
          obtain ⟨p, hls, h1, h2, h3⟩ := he.e c hold
          have hpl := loopStart_lt hls
          have hnl : loopStartEv c e.ev = false := by
            rcases hcase with ⟨⟨x, hx⟩, _⟩ | ⟨⟨x, d, hx⟩, _⟩ <;> simp [loopStartEv, loopStartKind, hx]
          refine ⟨p, loopStart_extend hls hnl, ?_⟩
          rcases hcase with ⟨⟨x, hx⟩, hg, hm, hlt, hem⟩ | ⟨⟨x, d, hx⟩, hlt, hem⟩
          · -- an empty recv
            simp only at hg hm hend
            rw [hcfg] at hg hm
            have hb := mayRetry_lastT hm h2 h3
            refine ⟨by rw [hend, timeAt_append_lt log e p hpl]; exact h1, ?_, ?_⟩
            · rw [hlt, hem]
              unfold waitBound at hb ⊢
              rw [hend, hlen, lastDataTime_snoc log e c p hpl,
                dataStep_not_data (by intro d; rw [evAt_append_eq, hx]; simp)]
              simp only [Option.isSome_some, if_true]
              omega
            · intro te hte; rw [hem] at hte; simp only [Option.some.injEq] at hte; rw [hlt]; exact hte.symm
          · -- a data recv
            have hx' : x = c := by rw [hx] at hwho; simpa [Ev.who] using hwho
            subst hx'
            simp only at hend
            refine ⟨by rw [hend, timeAt_append_lt log e p hpl]; exact h1, ?_, ?_⟩
            · rw [hlt, hem]
              unfold waitBound
              rw [hlen, lastDataTime_snoc log e x p hpl]
              unfold dataStep
              rw [evAt_append_eq, hx, timeAt_append_eq]
              simp only [if_true, Option.isSome_none, Bool.false_eq_true, if_false, Nat.add_zero]
              omega
            · intro te hte; rw [hem] at hte; simp at hte
        · -- the event that starts the read
          refine ⟨log.length, ⟨⟨e.ev, by rw [evAt_append_eq], by simp [loopStartEv, hstart, hwho]⟩,
            fun m h1 h2 => by rw [hlen] at h2; omega⟩, ?_, ?_, ?_⟩
          · simp only at hend; rw [hend, timeAt_append_eq, hcfg]
          · rw [hlt, hem]; unfold waitBound
            simp only [Option.isSome_none, Bool.false_eq_true, if_false, Nat.add_zero]
            simp only at hend
            rw [hend]; omega
          · intro te hte; rw [hem] at hte; simp at hte
      · exact keep (step_others _ s' e.t c0 e.ev h c hcc) (by rw [hwho]; simpa using fun hx => hcc hx.symm)

theorem einvAll_exec_gen {cfg : Cfg} : ∀ (evs pre : List TEv) (s0 s : State), s0.cfg = cfg →
    EInvAll cfg pre s0 → exec s0 evs = some s → EInvAll cfg (pre ++ evs) s
  | [], pre, s0, s, _, hv, h => by simp [exec] at h; subst h; simpa using hv
  | e :: es, pre, s0, s, hc, hv, h => by
    simp only [exec] at h
    cases hst : step s0 e with
    | none => simp [hst] at h
    | some s1 =>
      simp only [hst] at h
      have := einvAll_exec_gen es (pre ++ [e]) s1 s (by rw [step_keeps_cfg hst]; exact hc) (einvAll_step e hc hv hst) h
      simpa using this

theorem einvAll_exec (cfg : Cfg) (cbs : List Nat) (evs : List TEv) (s : State)
    (h : exec { cfg := cfg, cbsReg := cbs } evs = some s) : EInvAll cfg evs s := by
  have h0 : EInvAll cfg [] { cfg := cfg, cbsReg := cbs } := ⟨fun c hp => by simp [loopPc] at hp⟩
  simpa using einvAll_exec_gen evs [] _ s rfl h0 h

end Frappy.Comm
