import FrappyModel.Client.Reconnect
/-
C11 — helper lemmas for the life-cycle model (`Client/Reconnect.lean`): scripts (for the counter-traces and examples),
list lemmas, and the invariants behind `shutdown_stands`.
-/
namespace Frappy.Client.Reconnect

/-! ### scripts: "thread `tid` runs until it is at `pc`" -/

inductive Cmd where
  | to (tid : Nat) (pc : Pc)
  | act (a : Act)

def runTo (cfg : Cfg) : Nat → St → Nat → Pc → Option St
  | 0, _, _, _ => none
  | n + 1, s, tid, pc =>
    match s.th[tid]? with
    | none => none
    | some t => if t.pc = pc then some s else
      match step cfg s (.th tid 0) with
      | some s' => runTo cfg n s' tid pc
      | none => none

def exec (cfg : Cfg) : St → List Cmd → Option St
  | s, [] => some s
  | s, .to tid pc :: r => match runTo cfg 80 s tid pc with | some s' => exec cfg s' r | none => none
  | s, .act a :: r => match step cfg s a with | some s' => exec cfg s' r | none => none

theorem runTo_reachable {cfg : Cfg} {n : Nat} {s s' : St} {tid : Nat} {pc : Pc} (h : Reachable cfg s)
    (hr : runTo cfg n s tid pc = some s') : Reachable cfg s' := by
  induction n generalizing s with
  | zero => simp [runTo] at hr
  | succ n ih =>
    simp only [runTo] at hr
    split at hr
    · cases hr
    · split at hr
      · cases hr; exact h
      · split at hr
        · next s1 hs1 => exact ih (Reachable.step _ h hs1) hr
        · cases hr

theorem exec_reachable {cfg : Cfg} {cmds : List Cmd} {s s' : St} (h : Reachable cfg s)
    (hr : exec cfg s cmds = some s') : Reachable cfg s' := by
  induction cmds generalizing s with
  | nil => simp [exec] at hr; cases hr; exact h
  | cons c r ih =>
    cases c with
    | to tid pc =>
      simp only [exec] at hr
      split at hr
      · next s1 hs1 => exact ih (runTo_reachable h hs1) hr
      · cases hr
    | act a =>
      simp only [exec] at hr
      split at hr
      · next s1 hs1 => exact ih (Reachable.step _ h hs1) hr
      · cases hr

/-! ### lists -/

theorem getElem?_updAt {α : Type} (l : List α) (i j : Nat) (f : α → α) :
    (updAt l i f)[j]? = if j = i then (l[j]?).map f else l[j]? := by
  induction l generalizing i j with
  | nil => simp [updAt]
  | cons a t ih =>
    cases i with
    | zero => cases j <;> simp [updAt]
    | succ i =>
      cases j with
      | zero => simp [updAt]
      | succ j => simp [updAt, ih]

theorem length_updAt {α : Type} (l : List α) (i : Nat) (f : α → α) : (updAt l i f).length = l.length := by
  induction l generalizing i with
  | nil => simp [updAt]
  | cons a t ih => cases i <;> simp [updAt, ih]


/-! ### classes of program points -/

/-- inside `connect()` -/
def cPc : Pc → Bool
  | .c0 | .c1 | .c2 | .c2p | .c3 | .c3g | .c3m | .c3p | .c4 | .c5 | .c6 | .c6w | .c7w | .c7r | .c7
  | .c8 | .c9 | .c10 | .c11 | .c12 | .c12q | .c12p | .c12r | .c12w | .c13 | .c13q | .c13p | .c13r | .c13w | .c14 | .cx | .cend => true
  | _ => false

/-- where a registered reconnect thread can be -/
def regPc (p : Pc) : Bool := cPc p || p == .kloopA || p == .kloopB || p == .kexc

/-- where a reconnect thread can be -/
def reconPc (p : Pc) : Bool := regPc p || p == .kreg || p == .kunreg || p == .kunreg2 || p == .kunreg3 || p == .done

/-- `disconnect(True)` between having set the flag and having waited for all reconnect threads -/
def isJ : Pc → Bool
  | .s2 | .s3 | .s3b | .s4 | .s5 | .s6 | .s7 | .s8 => true
  | _ => false

/-- … from its first drain to the read of `self.io` -/
def isD1 : Pc → Bool
  | .d1q | .d1 | .d1gq | .d1g | .d2 => true
  | _ => false

/-- … with the local `io` read, up to `if self.io is io: self.io = None` -/
def isP1 : Pc → Bool
  | .d2s | .d3 | .d3q | .d4 | .d5 | .d6 | .d6w | .d7 | .d7b | .d7s | .d8 | .d9 | .d9w | .d10 | .d10r | .d10w => true
  | _ => false

/-- … after that, and after its return -/
def isP2 : Pc → Bool
  | .d10p | .d11 | .d11g | .d12 | .d12p | .dfin | .done | .rr0 | .rr1 | .rr1b | .rr2 => true
  | _ => false

def afterS1 (p : Pc) : Bool := isJ p || isD1 p || isP1 p || isP2 p

/-! ### what one step of a thread does (each by inspection of all program points) -/

set_option hygiene false in
macro "fp_cases" : tactic => `(tactic| (
  unfold stepTh at h
  cases hpc : t.pc <;> rw [hpc] at h <;> simp only at h <;> (repeat' split at h) <;>
    first
    | (cases h; done)
    | (simp only [Option.some.injEq, Prod.mk.injEq] at h; obtain ⟨rfl, rfl⟩ := h
       simp_all [shutConn, setQueue, setCancel, startDisc, inWindow, cPc, regPc, reconPc, isJ, isD1, isP1, isP2, afterS1]; done)
    | (simp only [Option.some.injEq, Prod.mk.injEq] at h; obtain ⟨rfl, rfl⟩ := h
       simp only [afterConnect, afterDisc]
       cases hk' : t.kind <;> cases hr' : t.raised <;> simp_all [inWindow, cPc, regPc, reconPc, isJ, isD1, isP1, isP2, afterS1]; done)))

theorem fp_kind_reg {cfg : Cfg} {s s1 : St} {me o : Nat} {t t' : Th} (h : stepTh cfg s me t o = some (s1, t')) :
    t'.kind = t.kind ∧
    ((t.pc ≠ .kreg ∧ t.pc ≠ .kunreg ∧ s1.registered = s.registered) ∨ (t.pc = .kreg ∧ s1.registered = s.registered ++ [me])
      ∨ (t.pc = .kunreg ∧ s1.registered = s.registered.filter (· != me))) := by
  fp_cases

theorem fp_epoch {cfg : Cfg} {s s1 : St} {me o : Nat} {t t' : Th} (h : stepTh cfg s me t o = some (s1, t')) :
    (s1.epoch = s.epoch ∧ s1.shutdown = s.shutdown ∧ t'.ep = t.ep)
    ∨ (t.pc = .s1 ∧ s1.epoch = s.epoch ∧ s1.shutdown = true ∧ t'.pc = .s2
        ∧ (t'.ep = none ∨ (t'.ep = some s.epoch ∧ s.th.any inUserWindow = false)))
    ∨ (t.pc = .c2 ∧ s1.epoch = s.epoch + 1 ∧ t'.ep = t.ep ∧ s.registered.contains me = false)
    ∨ (t.pc = .s2 ∧ t'.ep = none ∧ s1.epoch = s.epoch ∧ s1.shutdown = s.shutdown) := by
  fp_cases

theorem fp_io {cfg : Cfg} {s s1 : St} {me o : Nat} {t t' : Th} (h : stepTh cfg s me t o = some (s1, t')) :
    (t.pc ≠ .c6w ∧ t.pc ≠ .d10w ∧ s1.io = s.io) ∨ (t.pc = .c6w ∧ s1.io = t.io) ∨ (t.pc = .d10w ∧ s1.io = none) := by
  fp_cases

theorem fp_window {cfg : Cfg} {s s1 : St} {me o : Nat} {t t' : Th} (h : stepTh cfg s me t o = some (s1, t')) :
    inWindow t' = true → (t.pc = .c5 ∧ s.shutdown = false) ∨ t.pc = .c6 := by
  fp_cases

theorem fp_recon {cfg : Cfg} {s s1 : St} {me o : Nat} {t t' : Th} (h : stepTh cfg s me t o = some (s1, t'))
    (hk : t.kind = .recon) (hp : reconPc t.pc = true) :
    reconPc t'.pc = true ∧ (regPc t'.pc = true → regPc t.pc = true ∨ t.pc = .kreg) := by
  fp_cases

theorem fp_after {cfg : Cfg} {s s1 : St} {me o : Nat} {t t' : Th} (h : stepTh cfg s me t o = some (s1, t')) :
    (afterS1 t.pc = true → afterS1 t'.pc = true) ∧ (isJ t'.pc = true → isJ t.pc = true ∨ t.pc = .s1) := by
  fp_cases


/-- a thread created by a step: a worker at its gate, or a reconnect thread before it has registered -/
def Fresh (x : Th) : Prop := x.ep = none ∧ (x.pc = .rgate ∨ x.pc = .tgate ∨ x.pc = .kreg) ∧ (x.kind = .recon → x.pc = .kreg)

theorem fp_threads {cfg : Cfg} {s s1 : St} {me o : Nat} {t t' : Th} (h : stepTh cfg s me t o = some (s1, t')) :
    s1.th = s.th ∨ (∃ x, s1.th = s.th ++ [x] ∧ Fresh x)
      ∨ (∃ r, s1.th = updAt s.th r (fun x => { x with cancel := true })) := by
  unfold stepTh at h
  cases hpc : t.pc <;> rw [hpc] at h <;> simp only at h <;> (repeat' split at h) <;>
    first
    | (cases h; done)
    | (simp only [Option.some.injEq, Prod.mk.injEq] at h; obtain ⟨rfl, rfl⟩ := h
       first
       | (exact Or.inl rfl)
       | (simp only [shutConn, setQueue]; exact Or.inl rfl)
       | (exact Or.inr (Or.inr ⟨_, rfl⟩))
       | (exact Or.inr (Or.inl ⟨_, rfl, by simp [Fresh]⟩)))

theorem fp_join {cfg : Cfg} {s s1 : St} {me o : Nat} {t t' : Th} (h : stepTh cfg s me t o = some (s1, t'))
    (hj : cfg.joinAll = true) (hJ : isJ t.pc = true) :
    ((t'.pc = .s3 ∨ t'.pc = .s3b ∨ t'.pc = .s4 ∨ t'.pc = .s5 ∨ t'.pc = .s6) ∧ t'.ep = t.ep)
    ∨ (t.pc = .s2 ∧ t'.ep = none)
    ∨ (t.pc = .s6 ∧ t'.pc = .s7 ∧ t'.snap = s.registered.filter (· != me))
    ∨ (t.pc = .s7 ∧ t.snap = [] ∧ t'.pc = .d1q)
    ∨ (t.pc = .s7 ∧ t'.pc = .s8 ∧ ∃ r, t'.w = some r ∧ t.snap = r :: t'.snap)
    ∨ (t.pc = .s8 ∧ t'.pc = .s7 ∧ t'.snap = t.snap ∧ ∃ c, t.w = some c ∧ isDone s c = true) := by
  fp_cases

theorem fp_phase {cfg : Cfg} {s s1 : St} {me o : Nat} {t t' : Th} (h : stepTh cfg s me t o = some (s1, t')) :
    (isP1 t'.pc = true → (isP1 t.pc = true ∧ t'.io = t.io) ∨ (t.pc = .d2 ∧ t'.io = s.io))
    ∧ (isP2 t'.pc = true → afterS1 t.pc = true →
        isP2 t.pc = true ∨ (t.pc = .d10r ∧ s.io ≠ t.io) ∨ t.pc = .d10w ∨ (t.pc = .s2 ∧ t'.ep = none)) := by
  fp_cases


/-! ### from thread steps to steps of the system -/

theorem step_th_inv {cfg : Cfg} {s s' : St} {me o : Nat} (h : step cfg s (.th me o) = some s') :
    ∃ t s1 t', s.th[me]? = some t ∧ stepTh cfg s me t o = some (s1, t')
      ∧ s' = { s1 with th := updAt s1.th me (fun _ => t') } := by
  simp only [step] at h
  split at h
  · cases h
  · next t ht =>
    split at h
    · cases h
    · next s1 t' hst => cases h; exact ⟨t, s1, t', ht, hst, rfl⟩

/-- `x` is `y` up to its cancel event -/
def Sim (x y : Th) : Prop := x = y ∨ x = { y with cancel := true }

theorem th_after {s s1 : St} {me : Nat} {t t' : Th} (ht : s.th[me]? = some t)
    (hth : s1.th = s.th ∨ (∃ x, s1.th = s.th ++ [x] ∧ Fresh x)
      ∨ (∃ r, s1.th = updAt s.th r (fun x => { x with cancel := true })))
    (i : Nat) (x : Th) (hx : (updAt s1.th me (fun _ => t'))[i]? = some x) :
    (me = i ∧ t' = x) ∨ (i ≠ me ∧ ∃ y, s.th[i]? = some y ∧ Sim x y) ∨ (i ≠ me ∧ Fresh x) := by
  have hlt : me < s.th.length := by
    rcases Nat.lt_or_ge me s.th.length with h | h
    · exact h
    · rw [List.getElem?_eq_none h] at ht; cases ht
  rw [getElem?_updAt] at hx
  by_cases him : i = me
  · left
    subst him
    simp only [if_true] at hx
    cases hs : s1.th[i]? with
    | none => rw [hs] at hx; cases hx
    | some z => rw [hs] at hx; simp at hx; exact ⟨rfl, hx⟩
  · right
    simp only [him, if_false] at hx
    rcases hth with h | ⟨z, h, hz⟩ | ⟨r, h⟩
    · left; rw [h] at hx; exact ⟨him, x, hx, Or.inl rfl⟩
    · rw [h] at hx
      rcases Nat.lt_or_ge i s.th.length with hi | hi
      · left; rw [List.getElem?_append_left hi] at hx; exact ⟨him, x, hx, Or.inl rfl⟩
      · right
        rw [List.getElem?_append_right hi] at hx
        cases hk : i - s.th.length with
        | zero => rw [hk] at hx; simp at hx; subst hx; exact ⟨him, hz⟩
        | succ k => rw [hk] at hx; simp at hx
    · left
      rw [h, getElem?_updAt] at hx
      by_cases hir : i = r
      · simp only [hir, if_true] at hx
        cases hs : s.th[r]? with
        | none => rw [hs] at hx; cases hx
        | some y => rw [hs] at hx; simp at hx; exact ⟨him, y, by rw [hir]; exact hs, Or.inr hx.symm⟩
      · simp only [hir, if_false] at hx
        exact ⟨him, x, hx, Or.inl rfl⟩

theorem Sim.pc {x y : Th} (h : Sim x y) : x.pc = y.pc ∧ x.kind = y.kind ∧ x.ep = y.ep ∧ x.snap = y.snap ∧ x.w = y.w ∧ x.io = y.io := by
  rcases h with h | h <;> subst h <;> simp

end Frappy.Client.Reconnect
