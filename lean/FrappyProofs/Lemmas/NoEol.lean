import FrappyProofs.Lemmas.ReqLoop
import FrappyProofs.Lemmas.Codec
/- no frame the request loop sends contains a newline of its own -/
namespace Frappy.Wire
open Frappy.Spec.C07

theorem mem_strip {x : Nat} {l : Bytes} (h : x ∈ strip l) : x ∈ l := by
  unfold strip rstrip lstrip at h
  have h1 := List.mem_reverse.1 h
  have h2 := (List.dropWhile_sublist _).subset h1
  have h3 := List.mem_reverse.1 h2
  exact (List.dropWhile_sublist _).subset h3

theorem mem_rstripSp {x : Nat} {l : Bytes} (h : x ∈ rstripSp l) : x ∈ l := by
  unfold rstripSp at h
  exact List.mem_reverse.1 ((List.dropWhile_sublist _).subset (List.mem_reverse.1 h))

theorem mem_cut (l : Bytes) :
    (∀ x ∈ (cut l).1, x ∈ l) ∧ (∀ r, (cut l).2 = some r → ∀ x ∈ r, x ∈ l) := by
  induction l with
  | nil => simp [cut]
  | cons b t ih =>
    unfold cut
    by_cases hb : b = SP
    · simp only [hb, ↓reduceIte]
      exact ⟨by simp, fun r hr x hx => by cases hr; exact List.mem_cons_of_mem _ hx⟩
    · simp only [hb, ↓reduceIte]
      refine ⟨fun x hx => ?_, fun r hr x hx => List.mem_cons_of_mem _ (ih.2 r hr x hx)⟩
      rcases List.mem_cons.1 hx with rfl | hx
      · exact List.mem_cons_self ..
      · exact List.mem_cons_of_mem _ (ih.1 x hx)

theorem mem_parts (l : Bytes) :
    (∀ x ∈ (parts l).action, x ∈ l) ∧ (∀ x ∈ (parts l).spec, x ∈ l) ∧ (∀ x ∈ (parts l).data, x ∈ l) := by
  have hc := mem_cut l
  unfold parts
  rcases h : cut l with ⟨a, _ | r⟩
  · rw [h] at hc
    exact ⟨hc.1, by simp, by simp⟩
  · rw [h] at hc
    simp only
    have hr := mem_cut r
    rcases h2 : cut r with ⟨s, _ | d⟩
    · rw [h2] at hr
      exact ⟨hc.1, fun x hx => hc.2 r rfl x (hr.1 x hx), by simp⟩
    · rw [h2] at hr
      exact ⟨hc.1, fun x hx => hc.2 r rfl x (hr.1 x hx), fun x hx => hc.2 r rfl x (hr.2 d rfl x hx)⟩

theorem eol_latin1 {l : Bytes} (h : EOL ∉ l) : EOL ∉ latin1 l := by
  unfold latin1
  intro hm
  obtain ⟨b, hb, hx⟩ := List.mem_flatMap.1 hm
  by_cases h128 : b < 128
  · simp only [h128, ↓reduceIte, List.mem_singleton] at hx
    exact h (hx ▸ hb)
  · simp only [h128, ↓reduceIte, List.mem_cons, List.not_mem_nil, or_false] at hx
    simp only [EOL] at hx
    omega

theorem decimalAux_digits : ∀ (f n : Nat) (acc : Bytes), (∀ x ∈ acc, x ≠ EOL) →
    ∀ x ∈ decimalAux f n acc, x ≠ EOL := by
  intro f
  induction f with
  | zero => intro n acc h; simpa [decimalAux] using h
  | succ f ih =>
    intro n acc h
    have hacc : ∀ x ∈ (48 + n % 10) :: acc, x ≠ EOL := by
      intro x hx
      rcases List.mem_cons.1 hx with rfl | hx
      · simp [EOL]; omega
      · exact h x hx
    unfold decimalAux
    split
    · exact hacc
    · exact ih _ _ hacc

theorem eol_decimal (n : Nat) : EOL ∉ decimal n := by
  intro h
  exact decimalAux_digits (n + 1) n [] (by simp) EOL h rfl

theorem eol_joined {J : Type} (L : Lib J) (t : Triple J) (ha : EOL ∉ t.action) (hs : EOL ∉ t.spec.getD [])
    (hd : ∀ j, t.data = some j → EOL ∉ L.dumps j) : EOL ∉ joined L t := by
  unfold joined
  have hsp : EOL ≠ SP := by decide
  simp only [List.mem_append, List.mem_cons, not_or]
  refine ⟨ha, hsp, hs, hsp, ?_⟩
  cases hdat : t.data with
  | none => simp
  | some j => exact hd j hdat

/-- facts about the constant tables needed here -/
structure TableNoEol (T : Tables) : Prop where
  prefix_noEol : EOL ∉ T.errorPrefix
  helpReply_noEol : EOL ∉ T.helpReply
  helpLine_noEol : EOL ∉ T.helpLineAction

variable {J σ : Type}

theorem eol_errorReply (T : Tables) (L : Lib J) (laws : LibLaws L) (tf : TableNoEol T) (a : Bytes) (s : Option Bytes)
    (c : Bytes) (ha : EOL ∉ a) (hs : EOL ∉ s.getD []) : EOL ∉ joined L (errorReply T L a s c) := by
  apply eol_joined
  · simp only [errorReply, List.mem_append, not_or]; exact ⟨tf.prefix_noEol, ha⟩
  · exact hs
  · intro j hj; simp only [errorReply, Option.some.injEq] at hj; rw [← hj]; exact laws.dumps_noEol _

theorem decodeMsg_fields {L : Lib J} {line : Bytes} {t : Triple J} (h : decodeMsg L line = some t) :
    t.action = (parts (strip line)).action ∧ t.spec.getD [] = (parts (strip line)).spec := by
  unfold decodeMsg at h
  simp only at h
  split at h
  · split at h
    · cases h; exact ⟨rfl, orNone_getD _⟩
    · split at h
      · cases h; exact ⟨rfl, orNone_getD _⟩
      · cases h
  · cases h

/-- a dispatcher doing its part in the sense of `DispFits` sends only triples without newline in action and specifier -/
theorem dispFits_noEol {T : Tables} {L : Lib J} {d : Disp σ J} (hd : DispFits T L d) : DispNoEol d := by
  intro st t _
  obtain ⟨hasync, hres⟩ := hd st t
  have wf : ∀ m : Triple J, WFTriple L m → NoEolTriple m := by
    intro m hm
    refine ⟨hm.1.2.2.1, ?_⟩
    cases hs : m.spec with
    | none => simp
    | some s => simpa using (hm.2 s hs).2.2.1
  refine ⟨fun m hm => wf m (hasync m hm).1, fun r hr => ?_⟩
  rw [hr] at hres
  exact wf r hres.1

/-- … and its replies belong to the requests -/
theorem dispFits_answers {T : Tables} {L : Lib J} {d : Disp σ J} (hd : DispFits T L d) : DispAnswers T d := by
  intro st t
  have h := (hd st t).2
  cases hr : (d st t).1.res with
  | ok r => rw [hr] at h; exact h.2
  | secop c => rw [hr] at h; exact h
  | exc => trivial
  | garbage => trivial

theorem eol_handleLine (T : Tables) (L : Lib J) (d : Disp σ J) (laws : LibLaws L) (tf : TableNoEol T)
    (hd : DispNoEol d) (st : σ) (line : Bytes) (hline : EOL ∉ line) :
    ∀ o ∈ (handleLine T L d st line).1, EOL ∉ joined L o.msg := by
  intro o ho
  have hstrip : EOL ∉ strip line := fun h => hline (mem_strip h)
  unfold handleLine at ho
  cases hn : nextMessage T L line with
  | bad raw =>
    have hraw : raw = line := by
      unfold nextMessage at hn
      split at hn
      · cases hn
      · split at hn
        · cases hn
        · cases hn; rfl
    simp only [hn, List.mem_singleton] at ho
    subst ho
    subst hraw
    simp only [decodeErrorReply]
    have hl : EOL ∉ latin1 (strip raw) := eol_latin1 hstrip
    have hc := mem_cut (latin1 (strip raw))
    apply eol_errorReply T L laws tf
    · exact fun h => hl (hc.1 _ h)
    · cases hc2 : (cut (latin1 (strip raw))).2 with
      | none => simp
      | some r =>
        simp only [Option.map_some, Option.getD_some]
        exact fun h => hl (hc.2 r hc2 _ ((mem_cut r).1 _ h))
  | msg t =>
    simp only [hn] at ho
    by_cases hh : t.action = T.helpRequest
    · simp only [hh, ↓reduceIte, List.mem_append, List.mem_singleton] at ho
      rcases ho with ho | rfl
      · simp only [helpLines, List.mem_map] at ho
        obtain ⟨i, _, rfl⟩ := ho
        apply eol_joined
        · exact tf.helpLine_noEol
        · simpa using eol_decimal (i + 1)
        · intro j hj; simp only [Option.some.injEq] at hj; rw [← hj]; exact laws.dumps_noEol _
      · apply eol_joined
        · exact tf.helpReply_noEol
        · simp
        · intro j hj; simp at hj
    · simp only [hh, ↓reduceIte, List.mem_append, List.mem_map, List.mem_singleton] at ho
      have wf_noEol : ∀ m : Triple J, NoEolTriple m → EOL ∉ joined L m := by
        intro m hm
        exact eol_joined L m hm.1 hm.2 (fun j _ => laws.dumps_noEol _)
      -- the fields of the request come out of the line
      have hreq : EOL ∉ t.action ∧ EOL ∉ t.spec.getD [] := by
        unfold nextMessage at hn
        split at hn
        · cases hn
          exact absurd rfl hh
        · split at hn
          · rename_i t' hdec
            cases hn
            obtain ⟨h1, h2⟩ := decodeMsg_fields hdec
            have hp := mem_parts (strip line)
            rw [h1, h2]
            exact ⟨fun h => hstrip (hp.1 _ h), fun h => hstrip (hp.2.1 _ h)⟩
          · cases hn
      obtain ⟨hasync, hres⟩ := hd st t hreq
      rcases ho with ⟨m, hm, rfl⟩ | rfl
      · exact wf_noEol m (hasync m hm)
      · cases hr : (d st t).1.res with
        | ok r => simp only [resultReply]; exact wf_noEol r (hres r hr)
        | secop c => simp only [resultReply]; exact eol_errorReply T L laws tf _ _ _ hreq.1 hreq.2
        | exc => simp only [resultReply]; exact eol_errorReply T L laws tf _ _ _ hreq.1 hreq.2
        | garbage => simp only [resultReply]; exact eol_errorReply T L laws tf _ _ _ hreq.1 hreq.2

theorem eol_serveLines (T : Tables) (L : Lib J) (d : Disp σ J) (laws : LibLaws L) (tf : TableNoEol T)
    (hd : DispNoEol d) : ∀ (ls : List Bytes) (st : σ), (∀ l ∈ ls, EOL ∉ l) →
    ∀ o ∈ (serveLines T L d st ls).1, EOL ∉ joined L o.msg
  | [], _, _, o, ho => by simp [serveLines] at ho
  | l :: ls, st, hls, o, ho => by
    simp only [serveLines, List.mem_append] at ho
    rcases ho with ho | ho
    · exact eol_handleLine T L d laws tf hd st l (hls l (List.mem_cons_self ..)) o ho
    · exact eol_serveLines T L d laws tf hd ls _ (fun x hx => hls x (List.mem_cons_of_mem _ hx)) o ho

end Frappy.Wire
