import FrappyModel.Spec.C14
/-
The observer is a fold: what `Always` means for a history extended by one event.
-/
namespace Frappy.Spec.C14
open Frappy.SM Frappy.States

theorem observe_nil (idle : Status) : observe idle [] = Obs.init idle := rfl

theorem observe_snoc (idle : Status) (tr : List Ev) (e : Ev) :
    observe idle (tr ++ [e]) = (observe idle tr).step e := by
  simp [observe, List.foldl_append]

theorem always_nil (idle : Status) (ok : Obs → Ev → Bool) : Always idle ok [] := by
  intro pre e post h
  cases pre <;> simp at h

theorem always_snoc (idle : Status) (ok : Obs → Ev → Bool) (tr : List Ev) (e : Ev) :
    Always idle ok (tr ++ [e]) ↔ Always idle ok tr ∧ ok (observe idle tr) e = true := by
  constructor
  · intro h
    refine ⟨?_, h tr e [] rfl⟩
    intro pre x post hx
    exact h pre x (post ++ [e]) (by rw [hx]; simp)
  · rintro ⟨h1, h2⟩ pre x post hx
    rcases List.eq_nil_or_concat post with hp | ⟨post', y, hp⟩
    · subst hp
      have := List.append_inj' hx rfl
      obtain ⟨rfl, h3⟩ := this
      simp at h3; subst h3; exact h2
    · subst hp
      have hx' : tr ++ [e] = (pre ++ x :: post') ++ [y] := by rw [hx]; simp
      have := List.append_inj' hx' rfl
      obtain ⟨h3, _⟩ := this
      exact h1 pre x post' h3

theorem Always.mono {idle : Status} {ok ok' : Obs → Ev → Bool} {tr : List Ev}
    (h : Always idle ok tr) (hm : ∀ o e, ok o e = true → ok' o e = true) : Always idle ok' tr :=
  fun pre e post hx => hm _ _ (h pre e post hx)

end Frappy.Spec.C14
