import FrappyProofs.Lemmas.ActivateQuiet
import FrappyProofs.Lemmas.ActivateExplicit
/-
C08: what `snapMon` accepts, said with indices into the trace (the English sentence of `SnapshotComplete`).
-/
namespace Frappy.Spec.C08
open Frappy.Activate

theorem getElem?_lt {α : Type} {l : List α} {k : Nat} {a : α} (h : l[k]? = some a) : k < l.length := by
  rcases Nat.lt_or_ge k l.length with h1 | h1
  · exact h1
  · rw [List.getElem?_eq_none h1] at h; cases h

theorem snoc_cases {α : Type} {l : List α} {o a : α} {k : Nat} (h : (l ++ [o])[k]? = some a) :
    (k < l.length ∧ l[k]? = some a) ∨ (k = l.length ∧ a = o) := by
  rcases Nat.lt_trichotomy k l.length with h1 | h1 | h1
  · left; rw [List.getElem?_append_left h1] at h; exact ⟨h1, h⟩
  · right; subst h1; simp at h; exact ⟨rfl, h.symm⟩
  · rw [List.getElem?_eq_none (by simp; omega)] at h; cases h

theorem take_cases {α : Type} {l : List α} {i k : Nat} {a : α} (h : (l.take i)[k]? = some a) :
    k < i ∧ l[k]? = some a := by
  rw [List.getElem?_take] at h
  split at h
  · rename_i h1; exact ⟨h1, h⟩
  · cases h

/-- `o` opens a new snapshot obligation of `c` (an `activate` marker) or closes the running one (a reply to `c`) -/
def resets (c : Conn) : Obs → Prop
  | .reqStart c' (.activate _) => c' = c
  | .reply c' _ _ => c' = c
  | _ => False

/-- what the monitor's `pend c = some l` says about the trace: an `activate sc` marker of `c` at `j`, nothing resetting
after it, and every item of the scope that is no longer in `l` was delivered to `c` after `j` -/
def PendSpec (cfg : Cfg) (tr : List Obs) (c : Conn) (l : List (Mod × Par)) : Prop :=
  ∃ (j : Nat) (sc : Scope), tr[j]? = some (.reqStart c (.activate sc)) ∧
    (∀ (k : Nat) (o : Obs), j < k → tr[k]? = some o → ¬ resets c o) ∧
    ∀ x ∈ scopeItems cfg sc, x ∉ l → ∃ (k : Nat) (e : Entry), j < k ∧ tr[k]? = some (.deliver c x.1 x.2 e)

theorem pendSpec_snoc (cfg : Cfg) (tr : List Obs) (c : Conn) (l : List (Mod × Par)) (o : Obs)
    (h : PendSpec cfg tr c l) (hno : ¬ resets c o) : PendSpec cfg (tr ++ [o]) c l := by
  obtain ⟨j, sc, hj, hk, hx⟩ := h
  have hjl := getElem?_lt hj
  refine ⟨j, sc, by rw [List.getElem?_append_left hjl]; exact hj, ?_, ?_⟩
  · intro k o' hjk hko
    rcases snoc_cases hko with ⟨_, h1⟩ | ⟨_, h1⟩
    · exact hk k o' hjk h1
    · subst h1; exact hno
  · intro x hx1 hx2
    obtain ⟨k, e, hjk, hke⟩ := hx x hx1 hx2
    exact ⟨k, e, hjk, by rw [List.getElem?_append_left (getElem?_lt hke)]; exact hke⟩

theorem pend_spec (cfg : Cfg) (cache : Mod → Par → Entry) (tr : List Obs) :
    ∀ c l, (snapAfter cfg cache tr).pend c = some l → PendSpec cfg tr c l := by
  induction tr using rev_ind with
  | hnil => intro c l h; simp [snapAfter, Mon.after, snapMon] at h
  | hsnoc tr o ih =>
    intro c l h
    rw [snapAfter_append] at h
    cases o with
    | reqStart c' r =>
      cases r with
      | activate sc =>
        by_cases hc : c = c'
        · subst hc
          simp only [snapNext, set_same, Option.some.injEq] at h
          subst h
          refine ⟨tr.length, sc, by simp, ?_, ?_⟩
          · intro k o hk hko
            rw [List.getElem?_eq_none (by simp; omega)] at hko; cases hko
          · intro x hx hnx; exact absurd hx hnx
        · simp only [snapNext, set_other _ _ _ _ hc] at h
          exact pendSpec_snoc cfg tr c l _ (ih c l h) (by simp only [resets]; exact fun e => hc e.symm)
      | deactivate s => exact pendSpec_snoc cfg tr c l _ (ih c l h) (by simp [resets])
      | ident => exact pendSpec_snoc cfg tr c l _ (ih c l h) (by simp [resets])
      | disconnect => exact pendSpec_snoc cfg tr c l _ (ih c l h) (by simp [resets])
      | rw w m p e => exact pendSpec_snoc cfg tr c l _ (ih c l h) (by simp [resets])
      | malformed a s => exact pendSpec_snoc cfg tr c l _ (ih c l h) (by simp [resets])
    | reply c' r ok =>
      by_cases hc : c = c'
      · subst hc; simp [snapNext] at h
      · simp only [snapNext, set_other _ _ _ _ hc] at h
        exact pendSpec_snoc cfg tr c l _ (ih c l h) (by simp only [resets]; exact fun e => hc e.symm)
    | deliver c' m p e =>
      by_cases hc : c = c'
      · subst hc
        simp only [snapNext, set_same, Option.map_eq_some_iff] at h
        obtain ⟨l0, h0, hl⟩ := h
        obtain ⟨j, sc, hj, hk, hx⟩ := pendSpec_snoc cfg tr c l0 (.deliver c m p e) (ih c l0 h0) (by simp [resets])
        refine ⟨j, sc, hj, hk, ?_⟩
        intro x hx1 hx2
        by_cases hin : x ∈ l0
        · have hxe : x = (m, p) := by
            subst hl
            simp only [List.mem_filter, not_and, bne_iff_ne, ne_eq, Decidable.not_not] at hx2
            exact hx2 hin
          subst hxe
          have hjl : j < tr.length := by
            have := getElem?_lt hj
            rcases snoc_cases hj with ⟨h1, _⟩ | ⟨_, h1⟩
            · exact h1
            · cases h1
          exact ⟨tr.length, e, hjl, by simp⟩
        · exact hx x hx1 hin
      · simp only [snapNext, set_other _ _ _ _ hc] at h
        exact pendSpec_snoc cfg tr c l _ (ih c l h) (by simp [resets])
    | emit u m p e => exact pendSpec_snoc cfg tr c l _ (ih c l h) (by simp [resets])
    | emitDone u => exact pendSpec_snoc cfg tr c l _ (ih c l h) (by simp [resets])

/-- the English sentence of `SnapshotComplete`: every delivered update carries the value the cache holds at that moment;
and a positive reply to an `activate` is preceded by an `activate sc` marker of the same connection — no other such marker
and no reply to that connection in between — after which every exported parameter in `sc` was delivered to it -/
def SnapshotExplicit (cfg : Cfg) (cache : Mod → Par → Entry) (tr : List Obs) : Prop :=
  (∀ (i : Nat) (c : Conn) (m : Mod) (p : Par) (e : Entry), tr[i]? = some (.deliver c m p e) →
      e = cacheAfter cache (tr.take i) m p) ∧
  (∀ (i : Nat) (c : Conn) (s : Scope), tr[i]? = some (.reply c (.activate s) true) →
      ∃ (j : Nat) (sc : Scope), j < i ∧ tr[j]? = some (.reqStart c (.activate sc)) ∧
        (∀ (k : Nat) (o : Obs), j < k → k < i → tr[k]? = some o → ¬ resets c o) ∧
        ∀ x ∈ scopeItems cfg sc, ∃ (k : Nat) (e : Entry), j < k ∧ k < i ∧ tr[k]? = some (.deliver c x.1 x.2 e))

theorem snapshotExplicit_of_complete (cfg : Cfg) (cache : Mod → Par → Entry) (tr : List Obs)
    (h : SnapshotComplete cfg cache tr) : SnapshotExplicit cfg cache tr := by
  unfold SnapshotComplete Mon.accepts at h
  rw [Mon.acceptsFrom_iff] at h
  constructor
  · intro i c m p e hi
    have := h i _ hi
    rw [cacheAfter_eq cfg cache (tr.take i)]
    simpa [snapMon, snapOk, snapAfter] using this
  · intro i c s hi
    have h1 := h i _ hi
    have h2 : (snapAfter cfg cache (tr.take i)).pend c = some [] := by
      simpa [snapMon, snapOk, snapAfter] using h1
    obtain ⟨j, sc, hj, hk, hx⟩ := pend_spec cfg cache (tr.take i) c [] h2
    obtain ⟨hji, hj'⟩ := take_cases hj
    refine ⟨j, sc, hji, hj', ?_, ?_⟩
    · intro k o hjk hki hko
      exact hk k o hjk (by rw [List.getElem?_take, if_pos hki]; exact hko)
    · intro x hx1
      obtain ⟨k, e, hjk, hke⟩ := hx x hx1 (by simp)
      obtain ⟨hki, hke'⟩ := take_cases hke
      exact ⟨k, e, hjk, hki, hke'⟩

end Frappy.Spec.C08
