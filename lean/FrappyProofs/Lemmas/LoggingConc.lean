import FrappyProofs.Lemmas.Logging
/- helper lemmas for the interleaving layer of C20 (`FrappyModel/Node/LoggingConc.lean`) -/
namespace Frappy.Logging
open Frappy.Spec.C20

/-- abstract effect of one primitive update -/
def microCur (t : Tables) (cur : Cur) (z : Micro) : Cur := setCur t cur z.m z.c z.l

theorem applyMicro_inv (t : Tables) {s : Subs} {cur : Cur} (h : Inv s cur) (z : Micro) :
    Inv (applyMicro t s z) (microCur t cur z) := setConnLevel_inv t h z.m z.c z.l

theorem foldl_micro_inv (t : Tables) (zs : List Micro) :
    ∀ {s : Subs} {cur : Cur}, Inv s cur → Inv (zs.foldl (applyMicro t) s) (zs.foldl (microCur t) cur) := by
  induction zs with
  | nil => intro s cur h; exact h
  | cons z zs ih => intro s cur h; exact ih (applyMicro_inv t h z)

/-- the value of one pair after a sequence of updates, as a scan that looks at that pair only -/
def scanPair (t : Tables) (m : String) (c : Conn) (v : Option Level) (z : Micro) : Option Level :=
  if z.m = m ∧ z.c = c then (if z.l = t.off then none else some z.l) else v

theorem foldl_microCur_apply (t : Tables) (zs : List Micro) (cur : Cur) (m : String) (c : Conn) :
    (zs.foldl (microCur t) cur) m c = zs.foldl (scanPair t m c) (cur m c) := by
  induction zs generalizing cur with
  | nil => rfl
  | cons z zs ih => rw [List.foldl_cons, List.foldl_cons, ih]; rfl

theorem scanPair_other (t : Tables) (m : String) (c : Conn) (v : Option Level) (z : Micro) (h : z.c ≠ c) :
    scanPair t m c v z = v := by
  simp [scanPair, h]

theorem foldl_scanPair_other (t : Tables) (m : String) (c : Conn) (zs : List Micro) (h : ∀ z ∈ zs, z.c ≠ c)
    (v : Option Level) : zs.foldl (scanPair t m c) v = v := by
  induction zs generalizing v with
  | nil => rfl
  | cons z zs ih =>
    rw [List.foldl_cons, scanPair_other t m c v z (h z List.mem_cons_self)]
    exact ih (fun z' hz' => h z' (List.mem_cons_of_mem _ hz')) v

theorem shuffle_scanPair (t : Tables) (m : String) (c : Conn) {xs ys zs : List Micro} (hs : Shuffle xs ys zs)
    (hy : ∀ y ∈ ys, y.c ≠ c) (v : Option Level) :
    zs.foldl (scanPair t m c) v = xs.foldl (scanPair t m c) v := by
  induction hs generalizing v with
  | nil => rfl
  | left x _ ih => rw [List.foldl_cons, List.foldl_cons]; exact ih hy _
  | right y _ ih =>
    rw [List.foldl_cons, scanPair_other t m c v y (hy y List.mem_cons_self)]
    exact ih (fun y' hy' => hy y' (List.mem_cons_of_mem _ hy')) v

theorem setAll_eq_foldl_map (t : Tables) (mods : List String) (s : Subs) (c : Conn) (l : Level) :
    setAll t mods s c l = (mods.map (fun m => (⟨m, c, l⟩ : Micro))).foldl (applyMicro t) s := by
  unfold setAll
  rw [List.foldl_map]
  rfl

/-! ### histories: the setting of a pair depends on the events of its own connection only -/

theorem effect_other (t : Tables) (mods : List String) (m : String) (c : Conn) (op : Op) (h : c ∉ opConns op) :
    effect t mods m c op = none := by
  cases op with
  | emit _ _ => rfl
  | logging c' spec lvl =>
    have : c' ≠ c := by intro e; apply h; simp [opConns, e]
    simp [effect, this]
  | ident c' =>
    have : c' ≠ c := by intro e; apply h; simp [opConns, e]
    simp [effect, this]
  | disconnect c' =>
    have : c' ≠ c := by intro e; apply h; simp [opConns, e]
    simp [effect, this]

theorem foldl_upd_other (t : Tables) (mods : List String) (m : String) (c : Conn) (ops : List Op)
    (h : ∀ op ∈ ops, c ∉ opConns op) (v : Option Level) :
    ops.foldl (fun cur op => upd (effect t mods m c op) cur) v = v := by
  induction ops generalizing v with
  | nil => rfl
  | cons op ops ih =>
    rw [List.foldl_cons, effect_other t mods m c op (h op List.mem_cons_self)]
    exact ih (fun op' h' => h op' (List.mem_cons_of_mem _ h')) v

theorem shuffle_foldl_upd (t : Tables) (mods : List String) (m : String) (c : Conn) {xs ys zs : List Op}
    (hs : Shuffle xs ys zs) (hy : ∀ op ∈ ys, c ∉ opConns op) (v : Option Level) :
    zs.foldl (fun cur op => upd (effect t mods m c op) cur) v
      = xs.foldl (fun cur op => upd (effect t mods m c op) cur) v := by
  induction hs generalizing v with
  | nil => rfl
  | left x _ ih => rw [List.foldl_cons, List.foldl_cons]; exact ih hy _
  | right y _ ih =>
    rw [List.foldl_cons, effect_other t mods m c y (hy y List.mem_cons_self)]
    exact ih (fun y' hy' => hy y' (List.mem_cons_of_mem _ hy')) v

theorem Shuffle.symm {α : Type} {xs ys zs : List α} (h : Shuffle xs ys zs) : Shuffle ys xs zs := by
  induction h with
  | nil => exact .nil
  | left x _ ih => exact .right x ih
  | right y _ ih => exact .left y ih

/-! ### concurrent runs -/

theorem cfinal_append (t : Tables) (s : Subs) (a b : List CEv) :
    cfinal t s (a ++ b) = cfinal t (cfinal t s a) b := by
  unfold cfinal; rw [List.foldl_append]

theorem cdeliveries_append (t : Tables) (s : Subs) (a b : List CEv) :
    cdeliveries t s (a ++ b) = cdeliveries t s a ++ cdeliveries t (cfinal t s a) b := by
  induction a generalizing s with
  | nil => rfl
  | cons e a ih =>
    cases e with
    | upd z =>
      show cdeliveries t (applyMicro t s z) (a ++ b) = _
      rw [ih]; rfl
    | emit m lvl =>
      show sortConns (receivers s m lvl) :: cdeliveries t s (a ++ b) = _
      rw [ih]; rfl

/-- abstract state after the updates of a run -/
def ccur (t : Tables) (cur : Cur) (evs : List CEv) : Cur :=
  evs.foldl (fun cur e => match e with
    | .upd z => microCur t cur z
    | .emit _ _ => cur) cur

theorem cfinal_inv (t : Tables) (evs : List CEv) :
    ∀ {s : Subs} {cur : Cur}, Inv s cur → Inv (cfinal t s evs) (ccur t cur evs) := by
  induction evs with
  | nil => intro s cur h; exact h
  | cons e evs ih =>
    intro s cur h
    cases e with
    | upd z => exact ih (applyMicro_inv t h z)
    | emit m lvl => exact ih h

theorem ccur_other (t : Tables) (evs : List CEv) (cur : Cur) (m : String) (c : Conn)
    (h : ∀ z, CEv.upd z ∈ evs → z.c ≠ c) : ccur t cur evs m c = cur m c := by
  induction evs generalizing cur with
  | nil => rfl
  | cons e evs ih =>
    have hrest : ∀ z, CEv.upd z ∈ evs → z.c ≠ c := fun z hz => h z (List.mem_cons_of_mem _ hz)
    cases e with
    | upd z =>
      show ccur t (microCur t cur z) evs m c = cur m c
      rw [ih _ hrest]
      have := h z List.mem_cons_self
      simp [microCur, setCur, this]
    | emit m' lvl => exact ih _ hrest

end Frappy.Logging
