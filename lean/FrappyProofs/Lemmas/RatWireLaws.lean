import FrappyModel.Spec.C02
/- The exact carrier `Rat` satisfies `Spec.C02.WireLaws` (the laws are consistent; non-vacuity of the C02 theorems). -/
namespace Frappy
open FloatOps

instance : Spec.C02.WireLaws Rat where
  same_iff x y := by simp [FloatOps.same]
  le_notNaN _ _ _ := ⟨rfl, rfl⟩
  le_trans x y z h1 h2 := by
    simp only [FloatOps.le, decide_eq_true_eq] at *; exact Rat.le_trans h1 h2
  feq_refl x _ := by simp [FloatOps.feq]
  le_refl x _ := by simp [FloatOps.le]
  negMax_le_max := by decide +kernel
  isNaN_addZero _ := rfl
  le_addZero_left _ _ := rfl
  le_addZero_right _ _ := rfl
  feq_addZero_self x _ := by simp [FloatOps.feq, FloatOps.addZero]
  mul_comm x y := Rat.mul_comm x y
  ofInt_inRange i _ _ := ⟨(i : Rat), rfl⟩

end Frappy
