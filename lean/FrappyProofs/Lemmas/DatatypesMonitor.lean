import FrappyProofs.Lemmas.DatatypesContainers
/-
C01: the monitor of the value set (`inSetB`, decidable grid test) implies the declared value set.
-/
set_option linter.unusedSectionVars false
set_option linter.unusedVariables false
namespace Frappy.Lemmas.C01
open FloatOps DType Frappy.Datatypes Frappy.Spec.C01

variable {F : Type} [FloatOps F]

theorem onGrid_of_near {scale x : F} (h : OnGridNear scale x) : OnGrid scale x := by
  unfold OnGridNear at h
  split at h
  · rename_i k _
    rcases h with h | h | h
    · exact ⟨k - 1, h⟩
    · exact ⟨k, h⟩
    · exact ⟨k + 1, h⟩
  · exact h.elim

mutual
theorem inSetG_mono {G G' : F → F → Prop} (hg : ∀ s x, G s x → G' s x) :
    ∀ (dt : DType F) (v : PVal F), InSetG G dt v → InSetG G' dt v
  | .double _ _ _ _, v, h => by cases v <;> simp only [InSetG] at h ⊢ <;> exact h
  | .int _ _, v, h => by cases v <;> simp only [InSetG] at h ⊢ <;> exact h
  | .scaled _ _ _ _ _, v, h => by
    cases v <;> simp only [InSetG] at h ⊢
    case float x => exact ⟨hg _ _ h.1, h.2⟩
  | .bool, v, h => by cases v <;> simp only [InSetG] at h ⊢
  | .enum _, v, h => by cases v <;> simp only [InSetG] at h ⊢ <;> exact h
  | .string _ _ _, v, h => by cases v <;> simp only [InSetG] at h ⊢ <;> exact h
  | .blob _ _, v, h => by cases v <;> simp only [InSetG] at h ⊢ <;> exact h
  | .array elem _ _, v, h => by
    cases v <;> simp only [InSetG] at h ⊢
    case tuple vs => exact ⟨fun x hx => inSetG_mono hg elem x (h.1 x hx), h.2⟩
  | .tuple elems, v, h => by
    cases v <;> simp only [InSetG] at h ⊢
    case tuple vs => exact zipInG_mono hg elems vs h
  | .struct ms _ _, v, h => by
    cases v <;> simp only [InSetG] at h ⊢
    case dict d => exact ⟨fun kv hkv => memberInG_mono hg ms kv.1 kv.2 (h.1 kv hkv), h.2⟩
theorem zipInG_mono {G G' : F → F → Prop} (hg : ∀ s x, G s x → G' s x) :
    ∀ (ts : List (DType F)) (vs : List (PVal F)), ZipInG G ts vs → ZipInG G' ts vs
  | [], [], h => by simp only [ZipInG]
  | t :: ts, v :: vs, h => by
    simp only [ZipInG] at h ⊢
    exact ⟨inSetG_mono hg t v h.1, zipInG_mono hg ts vs h.2⟩
  | [], _ :: _, h => by simp only [ZipInG] at h
  | _ :: _, [], h => by simp only [ZipInG] at h
theorem memberInG_mono {G G' : F → F → Prop} (hg : ∀ s x, G s x → G' s x) :
    ∀ (ms : List (String × DType F)) (k : String) (v : PVal F), MemberInG G ms k v → MemberInG G' ms k v
  | [], _, _, h => by simp only [MemberInG] at h
  | (k0, t) :: rest, k, v, h => by
    simp only [MemberInG] at h ⊢
    split
    · rename_i hk; rw [if_pos hk] at h; exact inSetG_mono hg t v h
    · rename_i hk; rw [if_neg hk] at h; exact memberInG_mono hg rest k v h
end

end Frappy.Lemmas.C01
