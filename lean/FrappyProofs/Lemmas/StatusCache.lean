import FrappyModel.Timed.States
/-
The `statusMap` cache of `HasStates.get_status` is transparent: it only ever holds what is attached to the state
functions, so a lookup through the cache gives what the lookup without cache gives.
-/
namespace Frappy.States

/-- every cache entry is the status attached to that state function (`none`: nothing attached) -/
def Coherent (r : Rules) (c : StatusCache) : Prop := ∀ p, p ∈ c → p.2 = r.statusOf p.1

theorem coherent_nil (r : Rules) : Coherent r [] := by
  intro p hp; cases hp

theorem cacheGet_coherent {r : Rules} {c : StatusCache} {s : Sid} {v : Option Status} (hc : Coherent r c)
    (h : cacheGet c s = some v) : v = r.statusOf s := by
  unfold cacheGet at h
  cases hf : c.find? (fun p => p.1 == s) with
  | none => simp [hf] at h
  | some p =>
    simp only [hf, Option.map_some, Option.some.injEq] at h
    have hm := List.mem_of_find?_eq_some hf
    have hp := List.find?_some hf
    simp only [beq_iff_eq] at hp
    rw [← h, hc p hm, hp]

theorem getStatusCached_coherent {r : Rules} {c : StatusCache} (hc : Coherent r c) (s : Sid) (d : Option Nat) :
    (getStatusCached r c s d).1 = getStatusOpt r s d ∧ Coherent r (getStatusCached r c s d).2 := by
  unfold getStatusCached getStatusOpt
  cases hg : cacheGet c s with
  | some v =>
    simp only
    rw [cacheGet_coherent hc hg]
    exact ⟨rfl, hc⟩
  | none =>
    simp only
    refine ⟨trivial, ?_⟩
    intro p hp
    simp only [List.mem_cons] at hp
    rcases hp with rfl | hp
    · rfl
    · exact hc p hp

theorem lookups_coherent {r : Rules} (qs : List (Sid × Option Nat)) {c : StatusCache} (hc : Coherent r c) :
    (lookups r c qs).1 = qs.map (fun q => getStatusOpt r q.1 q.2) ∧ Coherent r (lookups r c qs).2 := by
  induction qs generalizing c with
  | nil => exact ⟨rfl, hc⟩
  | cons q qs ih =>
    obtain ⟨s, d⟩ := q
    obtain ⟨h1, h2⟩ := getStatusCached_coherent hc s d
    obtain ⟨h3, h4⟩ := ih h2
    simp only [lookups, List.map_cons]
    exact ⟨by rw [h1, h3], h4⟩

/-- the pure lookup in the two forms the rest of the model uses -/
theorem getStatusOpt_some (r : Rules) (s : Sid) (d : Nat) : getStatusOpt r s (some d) = some (getStatus r s d) := by
  unfold getStatusOpt withDefault getStatus
  cases r.statusOf s <;> rfl

theorem getStatusOpt_none (r : Rules) (s : Sid) : getStatusOpt r s none = r.statusOf s := by
  unfold getStatusOpt withDefault
  cases r.statusOf s <;> rfl

end Frappy.States
