import FrappyProofs.Lemmas.CommTimeout
/- helper lemmas for C16: the replies a call returns -/
open Frappy.Spec.C16
namespace Frappy.Comm

/-- while a caller is in the read loop, it has not returned since its last send -/
structure NInv (log : Log) (s : State) : Prop where
  n : ∀ c, (s.callers c).pc = .read → ∀ i conn n, LastSend log i c conn n → NoRetAfter log c i

theorem ninv_step {log : Log} {s s' : State} (e : TEv) (hn : NInv log s) (h : step s e = some s') :
    NInv (log ++ [e]) s' := by
  refine ⟨fun c hp i conn n hls => ?_⟩
  have keep : s'.callers c = s.callers c → (∀ x a b d, e.ev = .send x a b d → x ≠ c) → isRetOf c (some e.ev) = false →
      NoRetAfter (log ++ [e]) c i := by
    intro hsame hnsend hnret
    rw [hsame] at hp
    have hns : sendAt (log ++ [e]) log.length = none := by
      cases hsa : sendAt (log ++ [e]) log.length with
      | none => rfl
      | some x =>
        exfalso
        have hpl := lastSend_at_new hls hsa
        subst hpl
        obtain ⟨⟨d, hd⟩, _⟩ := hls
        rw [evAt_append_eq] at hd
        simp only [Option.some.injEq] at hd
        exact hnsend c conn n d hd rfl
    obtain ⟨_, hold⟩ := lastSend_restrict hls hns
    exact noRetAfter_extend (hn.n c hp i conn n hold) hnret
  cases hwho : e.ev.who with
  | none =>
    refine keep (by rw [(step_env_callers hwho h).1]) ?_ ?_
    · intro x a b d hx; rw [hx] at hwho; simp [Ev.who] at hwho
    · cases hev : e.ev <;> simp only [isRetOf] <;> try rfl
      rw [hev] at hwho; simp [Ev.who] at hwho
  | some c0 =>
    rw [step_caller_form s e c0 hwho] at h
    split at h
    · simp at h
    · by_cases hcc : c = c0
      · subst hcc
        rcases step_enter_read _ s' e.t c e.ev h hp with hrd | ⟨x, conn', n', d', hsend⟩
        · rcases step_read_time _ s' e.t c e.ev h hrd with ⟨_, _, hcase⟩ | hne
          · have hrecv : ∃ x o, e.ev = .recv x o := by
              rcases hcase with ⟨⟨x, hx⟩, _⟩ | ⟨⟨x, d, hx⟩, _⟩
              · exact ⟨x, _, hx⟩
              · exact ⟨x, _, hx⟩
            obtain ⟨x, o, hx⟩ := hrecv
            have hns : sendAt (log ++ [e]) log.length = none := by simp [sendAt, evAt_append_eq, hx]
            obtain ⟨_, hold⟩ := lastSend_restrict hls hns
            exact noRetAfter_extend (hn.n c hrd i conn n hold) (by rw [hx]; rfl)
          · exact absurd hp hne
        · have hx : x = c := by rw [hsend] at hwho; simpa [Ev.who] using hwho
          subst hx
          have hsa : sendAt (log ++ [e]) log.length = some x := by simp [sendAt, evAt_append_eq, hsend]
          have hpl := lastSend_at_new hls hsa
          subst hpl
          intro m h1 h2
          simp only [List.length_append, List.length_singleton] at h2; omega
      · refine keep (step_others _ s' e.t c0 e.ev h c hcc) ?_ ?_
        · intro x a b d hx hxc; rw [hx] at hwho; simp only [Ev.who, Option.some.injEq] at hwho; omega
        · cases hb : isRetOf c (some e.ev) with
          | false => rfl
          | true => exact absurd (who_ret hwho hb) hcc

theorem ninv_exec_gen : ∀ (evs pre : List TEv) (s0 s : State), NInv pre s0 → exec s0 evs = some s → NInv (pre ++ evs) s
  | [], pre, s0, s, hv, h => by simp [exec] at h; subst h; simpa using hv
  | e :: es, pre, s0, s, hv, h => by
    simp only [exec] at h
    cases hst : step s0 e with
    | none => simp [hst] at h
    | some s1 =>
      simp only [hst] at h
      have := ninv_exec_gen es (pre ++ [e]) s1 s (ninv_step e hv hst) h
      simpa using this


@[simp] theorem failTo_replies (k : Caller) : (failTo k).replies = k.replies := rfl
@[simp] theorem nextReq_replies (k : Caller) : (nextReq k).replies = k.replies := by unfold nextReq; split <;> rfl
@[simp] theorem afterConnected_replies (s : State) (k : Caller) : (afterConnected s k).replies = k.replies := by
  unfold afterConnected; split <;> split <;> (try split) <;> simp
@[simp] theorem rcFail_replies (k : Caller) : (rcFail k).replies = k.replies := by unfold rcFail; split <;> simp
@[simp] theorem afterIdent_replies (s : State) (k : Caller) : (afterIdent s k).replies = k.replies := by
  unfold afterIdent; split <;> (try split) <;> simp
@[simp] theorem startIdent_replies (s : State) (k : Caller) : (startIdent s k).replies = k.replies := by
  unfold startIdent; split <;> simp
@[simp] theorem idNext_replies (cfg : Cfg) (k : Caller) : (idNext cfg k).replies = k.replies := by
  unfold idNext; split <;> (try split) <;> (try split) <;> simp
@[simp] theorem toIdFlush_replies (s : State) (k : Caller) : (toIdFlush s k).replies = k.replies := by unfold toIdFlush; split <;> simp
@[simp] theorem toIdEndFail_replies (k : Caller) : (toIdEndFail k).replies = k.replies := rfl
@[simp] theorem toFlush_replies (s : State) (k : Caller) : (toFlush s k).replies = k.replies := by unfold toFlush; split <;> simp

set_option maxHeartbeats 16000000 in
/-- where the list of replies of a caller changes -/
theorem step_replies (s s' : State) (t c : Nat) (e : Ev) (h : stepCaller s t c e = some s') :
    (s'.callers c).replies = (s.callers c).replies ∨
    (∃ x kd rq, e = .call x kd rq ∧ (s'.callers c).replies = []) ∨
    ((s.callers c).pc = .read ∧ (s'.callers c).pc = .relI) ∨
    (∃ x conn n d l r, e = .send x conn n d ∧ complete s.cfg (current (s.callers c)) [] = some (l, r) ∧
      (s'.callers c).replies = (s.callers c).replies ++ [l] ∧ s.conn = some conn) ∨
    ((∃ x n, e = .more x n) ∨ (s.callers c).pc = .readX) := by
  step_arms
  all_goals (try (simp only [setC_same]))
  all_goals (first
    | (right; right; right; right; left; exact ⟨_, _, rfl⟩)
    | (right; right; right; right; right; exact hpc)
    | (right; right; right; right; right; trivial)
    | (left; simp; done)
    | (left; split <;> simp; done)
    | (right; left; exact ⟨_, _, _, rfl, by simp⟩)
    | (right; left; refine ⟨_, _, _, rfl, ?_⟩; split <;> simp; done)
    | (right; right; left; exact ⟨hpc, by simp⟩)
    | (right; right; left; exact ⟨rfl, by simp⟩)
    | (right; right; left; simp; done)
    | (right; right; right; left; exact ⟨_, _, _, _, _, _, rfl, ‹_›, by simp, hg.2.2.1⟩)
    | skip)


def NoConnectBetween (log : Log) (p w : Nat) : Prop :=
  ∀ m, p < m → m < w → okConnectBy log m = none ∧ hcloseAt log m = false

/-- reply `l` of caller `c` is framed from bytes that arrived after one of `c`'s own sends since which `c` has not
returned (unless the connection was replaced in between) -/
def FreshReply (cfg : Cfg) (log : Log) (c : Nat) (l : Bytes) : Prop :=
  ∃ p w conn n r, p < w ∧ w ≤ log.length ∧ (∃ d, evAt log p = some (.send c conn n d)) ∧ NoRetAfter log c p ∧
    (NoConnectBetween log p w → replyFrom cfg.bytesMode cfg.eol r l (arrivedIn log conn none p w) = true)

theorem arrivedIn_append_le (log : Log) (e : TEv) (conn : Nat) (tag : Option Nat) (p w : Nat) (h : w ≤ log.length) :
    arrivedIn (log ++ [e]) conn tag p w = arrivedIn log conn tag p w := by
  unfold arrivedIn
  apply flatMap_congr'
  intro m hm
  simp only [List.mem_filter, List.mem_range] at hm
  rw [evAt_append_lt log e m (by omega)]

theorem freshReply_extend {cfg : Cfg} {log : Log} {e : TEv} {c : Nat} {l : Bytes} (h : FreshReply cfg log c l)
    (hr : isRetOf c (some e.ev) = false) : FreshReply cfg (log ++ [e]) c l := by
  obtain ⟨p, w, conn, n, r, hpw, hwl, ⟨d, hd⟩, hnr, himp⟩ := h
  refine ⟨p, w, conn, n, r, hpw, by simp; omega, ⟨d, by rw [evAt_append_lt log e p (by omega)]; exact hd⟩,
    noRetAfter_extend hnr hr, fun hnc => ?_⟩
  rw [arrivedIn_append_le log e conn none p w hwl]
  apply himp
  intro m h1 h2
  have := hnc m h1 h2
  simpa [okConnectBy, hcloseAt, evAt_append_lt log e m (by omega : m < log.length)] using this

structure QInv (cfg : Cfg) (log : Log) (s : State) : Prop where
  q : NoMore log → ∀ c l, l ∈ (s.callers c).replies → (s.callers c).pc ≠ .idle → FreshReply cfg log c l

theorem step_call_replies (s s' : State) (t c x : Nat) (kd : Kind) (rq : List Req)
    (h : stepCaller s t c (.call x kd rq) = some s') : (s'.callers c).replies = [] := by
  cases hpc : (s.callers c).pc <;> simp only [stepCaller, hpc] at h <;> try (simp at h)
  obtain ⟨_, rfl⟩ := h
  cases kd <;> simp

theorem qinv_step {cfg : Cfg} {log : Log} {s s' : State} (e : TEv) (hcfg : s.cfg = cfg) (hi : Inv log s)
    (hq0 : QInv cfg log s)
    (hr : RInv log s) (hn : NInv log s) (h : step s e = some s') : QInv cfg (log ++ [e]) s' := by
  refine ⟨fun hnm c l hl hp => ?_⟩
  obtain ⟨hnm0, hnme⟩ := noMore_restrict hnm
  have hq : ∀ c l, l ∈ (s.callers c).replies → (s.callers c).pc ≠ .idle → FreshReply cfg log c l := hq0.q hnm0
  have keep : s'.callers c = s.callers c → isRetOf c (some e.ev) = false → FreshReply cfg (log ++ [e]) c l := by
    intro hsame hnret
    rw [hsame] at hl hp
    exact freshReply_extend (hq c l hl hp) hnret
  cases hwho : e.ev.who with
  | none =>
    refine keep (by rw [(step_env_callers hwho h).1]) ?_
    cases hev : e.ev <;> simp only [isRetOf] <;> try rfl
    rw [hev] at hwho; simp [Ev.who] at hwho
  | some c0 =>
    rw [step_caller_form s e c0 hwho] at h
    split at h
    · simp at h
    · by_cases hcc : c = c0
      · subst hcc
        -- the event is not a return of c (the caller is not idle afterwards)
        have hnret : isRetOf c (some e.ev) = false := by
          cases hev : e.ev <;> simp only [isRetOf] <;> try rfl
          rename_i x r
          rw [hev] at h
          exact absurd (step_ret_idle _ s' e.t c x r h).1 hp
        by_cases hidle : (s.callers c).pc = .idle
        · obtain ⟨x, kd, rq, hev⟩ := step_idle_only_call _ s' e.t c e.ev h hidle
          rw [hev] at h
          rw [step_call_replies _ s' e.t c x kd rq h] at hl
          simp at hl
        · rcases step_replies _ s' e.t c e.ev h with hsame | ⟨x, kd, rq, hev, hnil⟩ | ⟨hrd, hrel⟩ | ⟨x, conn, n, d, l0, r0, hev, hcomp, hrep, hconn⟩ | hmore
          rotate_left 4
          · exfalso
            rcases hmore with ⟨x, n, hx⟩ | hx
            · exact hnme x n hx
            · exact hi.nx hnm0 c hx
          · rw [hsame] at hl
            exact freshReply_extend (hq c l hl hidle) hnret
          · rw [hnil] at hl; simp at hl
          · -- a reply is completed in the read loop
            obtain ⟨_, hcase⟩ := step_read _ s' e.t c e.ev h hrd
            rcases hcase with ⟨hp', _⟩ | ⟨_, x, l0, r0, dd, rest, hev, hchan, hcomp, hrep⟩ | ⟨_, hne⟩
            · rw [hrel] at hp'; simp at hp'
            · rw [hrep] at hl
              rcases List.mem_append.1 hl with hold | hnew
              · exact freshReply_extend (hq c l hold hidle) hnret
              · simp only [List.mem_singleton] at hnew
                subst hnew
                obtain ⟨i, conn, n, hls, himp⟩ := hr.r c hrd
                have hnr := hn.n c hrd i conn n hls
                have hil := lastSend_lt hls
                obtain ⟨⟨d, hd⟩, _⟩ := hls
                refine ⟨i, log.length, conn, n, current (s.callers c), hil, by simp,
                  ⟨d, by rw [evAt_append_lt log e i hil]; exact hd⟩, noRetAfter_extend hnr hnret, fun hnc => ?_⟩
                rw [arrivedIn_append_le log e conn none i log.length (Nat.le_refl _)]
                have hno : NoConnectAfter log i := by
                  intro m h1 h2
                  have := hnc m h1 h2
                  simpa [okConnectBy, hcloseAt, evAt_append_lt log e m h2] using this
                obtain ⟨_, heq⟩ := himp hno
                rw [← heq]
                simp only at hchan hcomp
                rw [hchan, ← hcfg]
                have := complete_replyFrom s.cfg (current (s.callers c)) (s.rxbuf ++ dd) l r0 rest.flatten hcomp
                simpa [List.append_assoc] using this
            · exact absurd hrel hne
          · -- a reply of length 0 is complete with the send
            rw [hrep] at hl
            rcases List.mem_append.1 hl with hold | hnew
            · exact freshReply_extend (hq c l hold hidle) hnret
            · simp only [List.mem_singleton] at hnew
              subst hnew
              have hx : x = c := by rw [hev] at hwho; simpa [Ev.who] using hwho
              subst hx
              refine ⟨log.length, log.length + 1, conn, n, current (s.callers x), by omega, by simp,
                ⟨d, by rw [evAt_append_eq, hev]⟩, ?_, fun _ => ?_⟩
              · intro m h1 h2; simp only [List.length_append, List.length_singleton] at h2; omega
              · rw [arrivedIn_empty, ← hcfg]
                simp only at hcomp
                have := complete_replyFrom s.cfg (current (s.callers x)) [] l r0 [] hcomp
                simpa using this
      · refine keep (step_others _ s' e.t c0 e.ev h c hcc) ?_
        cases hb : isRetOf c (some e.ev) with
        | false => rfl
        | true => exact absurd (who_ret hwho hb) hcc

theorem qinv_exec_gen {cfg : Cfg} : ∀ (evs pre : List TEv) (s0 s : State), s0.cfg = cfg → Inv pre s0 → RInv pre s0 →
    NInv pre s0 → QInv cfg pre s0 → exec s0 evs = some s → QInv cfg (pre ++ evs) s
  | [], pre, s0, s, _, _, _, _, hv, h => by simp [exec] at h; subst h; simpa using hv
  | e :: es, pre, s0, s, hc, hi, hr, hn, hv, h => by
    simp only [exec] at h
    cases hst : step s0 e with
    | none => simp [hst] at h
    | some s1 =>
      simp only [hst] at h
      have := qinv_exec_gen es (pre ++ [e]) s1 s (by rw [step_keeps_cfg hst]; exact hc) (inv_step e hi hst)
        (rinv_step e hi hr hst) (ninv_step e hn hst) (qinv_step e hc hi hv hr hn hst) h
      simpa using this

theorem qinv_exec (cfg : Cfg) (cbs : List Nat) (evs : List TEv) (s : State)
    (h : exec { cfg := cfg, cbsReg := cbs } evs = some s) : QInv cfg evs s := by
  have hn0 : NInv [] { cfg := cfg, cbsReg := cbs } := ⟨fun c hp => by simp at hp⟩
  have hq0 : QInv cfg [] { cfg := cfg, cbsReg := cbs } := ⟨fun _ c l hl => by simp at hl⟩
  simpa using qinv_exec_gen evs [] _ s rfl (inv_init cfg cbs) (rinv_init cfg cbs) hn0 hq0 h

end Frappy.Comm
