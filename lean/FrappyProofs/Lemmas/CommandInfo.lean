import FrappyModel.Datatypes.CommandInfo
import FrappyProofs.Lemmas.DatainfoOpt
/-
C03: the description of a command is rebuilt component-wise — lemmas for `command_rebuild_equiv`.
-/
set_option linter.unusedSectionVars false
set_option linter.unusedVariables false
set_option linter.unusedSimpArgs false
namespace Frappy.Lemmas.C03Datainfo
open FloatOps DType DInfo Frappy.Datatypes
open PVal (dictGet ofJVal)

variable {F : Type} [FloatOps F] [LawfulFloatOps F] [CompatLaws F]

/-- a description that `get_datatype` accepts is not `null`, so the `command` lambda rebuilds it -/
theorem getOpt_of_ok (D : Consts F) {j : JVal F} {t : DInfo F} (h : getDatatype D j = .ok t) :
    getOpt D (some j) = .ok (some t) := by
  cases j with
  | null => simp [getDatatype, dconv] at h
  | bool b => simp only [getOpt, h]
  | int i => simp only [getOpt, h]
  | num x => simp only [getOpt, h]
  | str s => simp only [getOpt, h]
  | arr items => simp only [getOpt, h]
  | obj fields => simp only [getOpt, h]

/-- two optional components with the same behaviour: both absent, or both present and `validate` / `import_value` agree -/
def SameOpt (x y : Option (DInfo F)) : Prop :=
  match x, y with
  | none, none => True
  | some t', some t =>
    (∀ v prev, validate t'.erase v prev = validate t.erase v prev) ∧ (∀ w, importValue t'.erase w = importValue t.erase w)
  | _, _ => False

/-- what the round trip does to one component -/
def OptRebuilt (D : Consts F) (x : Option (DInfo F)) (jx : Option (JVal F)) (x' : Option (DInfo F)) : Prop :=
  exportOpt D x = .ok jx ∧ getOpt D jx = .ok x' ∧ exportOpt D x' = .ok jx ∧ SameOpt x' x

theorem optRebuilt_none (D : Consts F) : OptRebuilt D (none : Option (DInfo F)) none none :=
  ⟨rfl, rfl, rfl, trivial⟩

theorem optRebuilt_some (D : Consts F) {t t' : DInfo F} {j : JVal F} (h1 : exportDatatype D t = .ok j)
    (h2 : getDatatype D j = .ok t') (h3 : exportDatatype D t' = .ok j)
    (h4 : ∀ v prev, validate t'.erase v prev = validate t.erase v prev)
    (h5 : ∀ w, importValue t'.erase w = importValue t.erase w) :
    OptRebuilt D (some t) (some j) (some t') :=
  ⟨by simp only [exportOpt, h1], getOpt_of_ok D h2, by simp only [exportOpt, h3], ⟨h4, h5⟩⟩

/-- the command lambda on the exported object -/
theorem getCommand_export (D : Consts F) {a r : Option (JVal F)} {a' r' : Option (DInfo F)}
    (ha : getOpt D a = .ok a') (hr : getOpt D r = .ok r') :
    getCommand D (.obj ([("type", .str "command")] ++ optItem "argument" a ++ optItem "result" r)) =
      .ok { argument := a', result := r' } := by
  cases a <;> cases r <;>
    simp [getCommand, optItem, dictGet, ha, hr] <;> simp_all [getOpt]

end Frappy.Lemmas.C03Datainfo
