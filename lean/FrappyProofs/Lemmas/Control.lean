import FrappyModel.Spec.C18
/- helper lemmas about the control hand-over model -/
namespace Frappy.Control
open Frappy.Spec.C18

@[simp] theorem emit_cb (s : St) (e : Ev) : (emit s e).cb = s.cb := rfl
@[simp] theorem emit_act (s : St) (e : Ev) : (emit s e).act = s.act := rfl

@[simp] theorem deactivate_cb (i : Nat) (s : St) : (deactivate i s).cb = s.cb := by
  unfold deactivate; split <;> rfl

theorem deactivate_act (i : Nat) (s : St) (j : Nat) :
    (deactivate i s).act j = if j = i then false else s.act j := by
  unfold deactivate
  by_cases h : s.act i = true
  · simp [h]
  · simp only [h]
    by_cases hj : j = i
    · subst hj; simpa using h
    · simp [hj]

@[simp] theorem deactivateAll_cb (skip : Option Nat) (l : List Nat) : ∀ s, (deactivateAll skip l s).cb = s.cb := by
  induction l with
  | nil => intro s; rfl
  | cons i is ih => intro s; simp only [deactivateAll]; rw [ih]; split <;> simp

theorem deactivateAll_act (skip : Option Nat) (l : List Nat) : ∀ s j,
    (deactivateAll skip l s).act j = if j ∈ l ∧ skip ≠ some j then false else s.act j := by
  induction l with
  | nil => intro s j; simp [deactivateAll]
  | cons i is ih =>
    intro s j
    simp only [deactivateAll]
    rw [ih]
    by_cases hsk : skip = some i
    · simp only [hsk, if_true]
      by_cases hj : j = i
      · subst hj; simp
      · have : ¬ (some i = some j) := by intro h; exact hj (Option.some.inj h).symm
        simp [hj]
    · simp only [hsk, if_false, deactivate_act]
      by_cases hj : j = i
      · subst hj; simp [hsk]
      · simp [hj]

theorem activate_cb (n k : Nat) (s : St) : (activate n k s).cb = some k := by
  simp [activate]

theorem activate_act (n k : Nat) (s : St) (j : Nat) (hj : j < n) : (activate n k s).act j = decide (j = k) := by
  simp only [activate, emit_act, emit_cb]
  by_cases h : j = k
  · simp [h]
  · simp only [h, if_false, decide_false]
    rw [deactivateAll_act]
    have : some k ≠ some j := by intro e; exact h (Option.some.inj e).symm
    simp [hj, this]

theorem selfControlled_none (n : Nat) (s : St) (h : s.cb = none) : selfControlled n s = s := by
  unfold selfControlled; rw [h]

theorem selfControlled_cb (n : Nat) (s : St) : (selfControlled n s).cb = none := by
  unfold selfControlled
  cases h : s.cb with
  | none => simpa using h
  | some c => simp

theorem selfControlled_act (n : Nat) (s : St) (c : Nat) (h : s.cb = some c) (j : Nat) (hj : j < n) :
    (selfControlled n s).act j = false := by
  unfold selfControlled
  rw [h]
  simp only
  rw [deactivateAll_act]
  simp [hj]

end Frappy.Control
