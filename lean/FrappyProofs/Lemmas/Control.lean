import FrappyModel.Spec.C18
/- helper lemmas about the control hand-over model (with failing `set_control_active` methods) -/
namespace Frappy.Control
open Frappy.Spec.C18

@[simp] theorem emit_cb (s : St) (e : Ev) : (emit s e).cb = s.cb := rfl
@[simp] theorem emit_act (s : St) (e : Ev) : (emit s e).act = s.act := rfl

theorem mem_inputsOf (cfg : Cfg) (o j : Nat) : j ∈ inputsOf cfg o ↔ j < cfg.n ∧ cfg.outOf j = o := by
  simp [inputsOf]

@[simp] theorem mark_cb (cfg : Cfg) (i : Nat) (b : Bool) (s : St) : (mark cfg i b s).cb = s.cb := rfl
@[simp] theorem mark_ok (cfg : Cfg) (i : Nat) (b : Bool) (s : St) : (mark cfg i b s).ok = s.ok := rfl
theorem mark_act (cfg : Cfg) (i : Nat) (b : Bool) (s : St) (j : Nat) :
    (mark cfg i b s).act j = if j = i then b else s.act j := rfl

@[simp] theorem setAct_cb (cfg : Cfg) (f : Faults) (i : Nat) (b : Bool) (s : St) : (setAct cfg f i b s).cb = s.cb := by
  unfold setAct; split <;> rfl

/-- the flag after `set_control_active(b)`: changed unless the method raised before it got there -/
theorem setAct_act (cfg : Cfg) (f : Faults) (i : Nat) (b : Bool) (s : St) (j : Nat) :
    (setAct cfg f i b s).act j = if j = i then (if f i b = .failBefore then s.act i else b) else s.act j := by
  unfold setAct
  cases h : f i b <;> by_cases hj : j = i <;> simp [hj, mark_act]

/-- the operation goes on after `set_control_active(b)` only when it returned -/
theorem setAct_ok (cfg : Cfg) (f : Faults) (i : Nat) (b : Bool) (s : St) :
    (setAct cfg f i b s).ok = (s.ok && decide (f i b = .ok)) := by
  unfold setAct
  cases h : f i b <;> simp

@[simp] theorem deactivate_cb (cfg : Cfg) (f : Faults) (i : Nat) (s : St) : (deactivate cfg f i s).cb = s.cb := by
  unfold deactivate; split <;> simp

/-- a `deactivate_control` switches nobody on and touches only its own flag -/
theorem deactivate_mono (cfg : Cfg) (f : Faults) (i : Nat) (s : St) (j : Nat)
    (h : (deactivate cfg f i s).act j = true) : s.act j = true := by
  unfold deactivate at h
  by_cases ha : s.act i = true
  · simp only [ha, if_true] at h
    rw [setAct_act] at h
    by_cases hj : j = i
    · subst hj; exact ha
    · simpa [hj] using h
  · simpa [ha] using h

theorem deactivate_frame (cfg : Cfg) (f : Faults) (i : Nat) (s : St) (j : Nat) (hj : j ≠ i) :
    (deactivate cfg f i s).act j = s.act j := by
  unfold deactivate
  split
  · rw [setAct_act]; simp [hj]
  · rfl

theorem deactivate_ok_le (cfg : Cfg) (f : Faults) (i : Nat) (s : St) (h : (deactivate cfg f i s).ok = true) :
    s.ok = true := by
  unfold deactivate at h
  split at h
  · rw [setAct_ok] at h; simp at h; exact h.1
  · exact h

/-- when `deactivate_control` returned, the input is not marked -/
theorem deactivate_done (cfg : Cfg) (f : Faults) (i : Nat) (s : St) (h : (deactivate cfg f i s).ok = true) :
    (deactivate cfg f i s).act i = false := by
  unfold deactivate at h ⊢
  by_cases ha : s.act i = true
  · simp only [ha, if_true] at h ⊢
    rw [setAct_ok] at h
    have hf : f i false = .ok := by simp at h; exact h.2
    rw [setAct_act]; simp [hf]
  · simp [ha]

@[simp] theorem deactivateAll_cb (cfg : Cfg) (f : Faults) (skip : Option Nat) (l : List Nat) :
    ∀ s, (deactivateAll cfg f skip l s).cb = s.cb := by
  induction l with
  | nil => intro s; rfl
  | cons i is ih =>
    intro s
    simp only [deactivateAll]
    split
    · rfl
    · rw [ih]; split <;> simp

theorem deactivateAll_mono (cfg : Cfg) (f : Faults) (skip : Option Nat) (l : List Nat) :
    ∀ s j, (deactivateAll cfg f skip l s).act j = true → s.act j = true := by
  induction l with
  | nil => intro s j h; exact h
  | cons i is ih =>
    intro s j h
    simp only [deactivateAll] at h
    split at h
    · exact h
    · have := ih _ j h
      split at this
      · exact this
      · exact deactivate_mono cfg f i s j this

theorem deactivateAll_frame (cfg : Cfg) (f : Faults) (skip : Option Nat) (l : List Nat) :
    ∀ s j, (j ∉ l ∨ skip = some j) → (deactivateAll cfg f skip l s).act j = s.act j := by
  induction l with
  | nil => intro s j _; rfl
  | cons i is ih =>
    intro s j hj
    simp only [deactivateAll]
    split
    · rfl
    · have hj' : j ∉ is ∨ skip = some j := by
        rcases hj with hj | hj
        · exact Or.inl (fun hm => hj (List.mem_cons_of_mem _ hm))
        · exact Or.inr hj
      rw [ih _ j hj']
      split
      · rfl
      · rename_i hsk
        have hne : j ≠ i := by
          rcases hj with hj | hj
          · intro e; exact hj (e ▸ List.mem_cons_self)
          · intro e; rw [e] at hj; exact hsk hj
        exact deactivate_frame cfg f i s j hne

theorem deactivateAll_ok_le (cfg : Cfg) (f : Faults) (skip : Option Nat) (l : List Nat) :
    ∀ s, (deactivateAll cfg f skip l s).ok = true → s.ok = true := by
  induction l with
  | nil => intro s h; exact h
  | cons i is ih =>
    intro s h
    simp only [deactivateAll] at h
    by_cases hs : s.ok = true
    · exact hs
    · simp only [hs] at h
      simp at hs
      simp [hs] at h

/-- when the loop over the registry went through, none of its entries (except the one skipped) is marked -/
theorem deactivateAll_done (cfg : Cfg) (f : Faults) (skip : Option Nat) (l : List Nat) :
    ∀ s, (deactivateAll cfg f skip l s).ok = true → ∀ j ∈ l, skip ≠ some j →
      (deactivateAll cfg f skip l s).act j = false := by
  induction l with
  | nil => intro s _ j hj; cases hj
  | cons i is ih =>
    intro s h j hj hsk
    have hs : s.ok = true := deactivateAll_ok_le cfg f skip (i :: is) s h
    simp only [deactivateAll, hs, Bool.not_true, Bool.false_eq_true, if_false] at h ⊢
    by_cases hji : j = i
    · subst hji
      have hsk' : ¬ skip = some j := hsk
      simp only [hsk', if_false] at h ⊢
      have hok := deactivateAll_ok_le cfg f skip is _ h
      have hoff := deactivate_done cfg f j s hok
      cases hr : (deactivateAll cfg f skip is (deactivate cfg f j s)).act j with
      | false => rfl
      | true => rw [deactivateAll_mono cfg f skip is _ j hr] at hoff; cases hoff
    · have hmem : j ∈ is := by
        cases hj with
        | head => exact absurd rfl hji
        | tail _ hm => exact hm
      exact ih _ h j hmem hsk

theorem setCb_cb (cfg : Cfg) (o : Nat) (c : Option Nat) (s : St) (o' : Nat) :
    (setCb cfg o c s).cb o' = if o' = o then c else s.cb o' := rfl
@[simp] theorem setCb_act (cfg : Cfg) (o : Nat) (c : Option Nat) (s : St) : (setCb cfg o c s).act = s.act := rfl
@[simp] theorem setCb_ok (cfg : Cfg) (o : Nat) (c : Option Nat) (s : St) : (setCb cfg o c s).ok = s.ok := rfl

/-! frame: what an operation on one output leaves alone (no bounds needed) -/

theorem activate_frame_cb (cfg : Cfg) (f : Faults) (k : Nat) (s : St) (o : Nat) (ho : o ≠ cfg.outOf k) :
    (activate cfg f k s).cb o = s.cb o := by
  simp only [activate]
  split
  · simp
  · rw [setAct_cb, setCb_cb]; simp [ho]

theorem activate_frame_act (cfg : Cfg) (f : Faults) (k : Nat) (s : St) (i : Nat) (hi : cfg.outOf i ≠ cfg.outOf k) :
    (activate cfg f k s).act i = s.act i := by
  have hik : ¬ i = k := by intro e; rw [e] at hi; exact hi rfl
  have hfr := deactivateAll_frame cfg f (some k) (inputsOf cfg (cfg.outOf k)) s i
    (Or.inl (fun hm => hi ((mem_inputsOf ..).1 hm).2))
  simp only [activate]
  split
  · exact hfr
  · rw [setAct_act]; simp only [hik, if_false, setCb_act]; exact hfr

theorem selfControlled_frame_cb (cfg : Cfg) (f : Faults) (o0 : Nat) (s : St) (o : Nat) (ho : o ≠ o0) :
    (selfControlled cfg f o0 s).cb o = s.cb o := by
  unfold selfControlled
  split
  · rfl
  · simp only []
    split
    · simp
    · rw [setCb_cb]; simp [ho]

theorem selfControlled_frame_act (cfg : Cfg) (f : Faults) (o0 : Nat) (s : St) (i : Nat) (hi : cfg.outOf i ≠ o0) :
    (selfControlled cfg f o0 s).act i = s.act i := by
  have hfr := deactivateAll_frame cfg f none (inputsOf cfg o0) s i (Or.inl (fun hm => hi ((mem_inputsOf ..).1 hm).2))
  unfold selfControlled
  split
  · rfl
  · simp only []
    split
    · exact hfr
    · rw [setCb_act]; exact hfr

/-- an `activate_control` that returned: the output names `k`, and among its inputs exactly `k` is marked -/
theorem activate_taken (cfg : Cfg) (f : Faults) (k : Nat) (s : St) (hok : (activate cfg f k s).ok = true) :
    (activate cfg f k s).cb (cfg.outOf k) = some k ∧
    ∀ i, i < cfg.n → cfg.outOf i = cfg.outOf k → ((activate cfg f k s).act i = true ↔ i = k) := by
  have hdone := deactivateAll_done cfg f (some k) (inputsOf cfg (cfg.outOf k)) s
  simp only [activate] at hok ⊢
  generalize deactivateAll cfg f (some k) (inputsOf cfg (cfg.outOf k)) s = s1 at *
  by_cases hok1 : s1.ok = true
  · simp only [hok1, Bool.not_true, Bool.false_eq_true, if_false] at hok ⊢
    rw [setAct_ok] at hok
    have hf : f k true = .ok := by simp at hok; exact hok.2
    refine ⟨by rw [setAct_cb, setCb_cb]; simp, fun i hi hio => ?_⟩
    rw [setAct_act]
    by_cases hik : i = k
    · simp [hik, hf]
    · have := hdone hok1 i ((mem_inputsOf ..).2 ⟨hi, hio⟩) (by intro e; exact hik (Option.some.inj e).symm)
      simp [hik, this]
  · have hfalse : s1.ok = false := by simpa using hok1
    simp [hfalse] at hok

/-- a `self_controlled` that returned: the output names itself -/
theorem selfControlled_taken_cb (cfg : Cfg) (f : Faults) (o0 : Nat) (s : St) (hok : (selfControlled cfg f o0 s).ok = true) :
    (selfControlled cfg f o0 s).cb o0 = none := by
  unfold selfControlled at hok ⊢
  cases hc : s.cb o0 with
  | none => simpa using hc
  | some c =>
    simp only [hc] at hok ⊢
    by_cases hok1 : (deactivateAll cfg f none (inputsOf cfg o0) s).ok = true
    · simp only [hok1, Bool.not_true, Bool.false_eq_true, if_false]
      rw [setCb_cb]; simp
    · have hfalse : (deactivateAll cfg f none (inputsOf cfg o0) s).ok = false := by simpa using hok1
      simp [hfalse] at hok

end Frappy.Control
