import FrappyModel.Spec.C18
/- helper lemmas about the control hand-over model -/
namespace Frappy.Control
open Frappy.Spec.C18

@[simp] theorem emit_cb (s : St) (e : Ev) : (emit s e).cb = s.cb := rfl
@[simp] theorem emit_act (s : St) (e : Ev) : (emit s e).act = s.act := rfl

theorem mem_inputsOf (cfg : Cfg) (o j : Nat) : j ∈ inputsOf cfg o ↔ j < cfg.n ∧ cfg.outOf j = o := by
  simp [inputsOf]

@[simp] theorem deactivate_cb (i : Nat) (s : St) : (deactivate i s).cb = s.cb := by
  unfold deactivate; split <;> rfl

theorem deactivate_act (i : Nat) (s : St) (j : Nat) :
    (deactivate i s).act j = if j = i then false else s.act j := by
  unfold deactivate
  by_cases h : s.act i = true
  · simp [h]
  · simp only [h]
    by_cases hj : j = i
    · subst hj; simpa using h
    · simp [hj]

@[simp] theorem deactivateAll_cb (skip : Option Nat) (l : List Nat) : ∀ s, (deactivateAll skip l s).cb = s.cb := by
  induction l with
  | nil => intro s; rfl
  | cons i is ih => intro s; simp only [deactivateAll]; rw [ih]; split <;> simp

theorem deactivateAll_act (skip : Option Nat) (l : List Nat) : ∀ s j,
    (deactivateAll skip l s).act j = if j ∈ l ∧ skip ≠ some j then false else s.act j := by
  induction l with
  | nil => intro s j; simp [deactivateAll]
  | cons i is ih =>
    intro s j
    simp only [deactivateAll]
    rw [ih]
    by_cases hsk : skip = some i
    · simp only [hsk, if_true]
      by_cases hj : j = i
      · subst hj; simp
      · have : ¬ (some i = some j) := by intro h; exact hj (Option.some.inj h).symm
        simp [hj]
    · simp only [hsk, if_false, deactivate_act]
      by_cases hj : j = i
      · subst hj; simp [hsk]
      · simp [hj]

theorem setCb_cb (cfg : Cfg) (o : Nat) (c : Option Nat) (s : St) (o' : Nat) :
    (setCb cfg o c s).cb o' = if o' = o then c else s.cb o' := rfl
@[simp] theorem setCb_act (cfg : Cfg) (o : Nat) (c : Option Nat) (s : St) : (setCb cfg o c s).act = s.act := rfl
@[simp] theorem setActive_cb (cfg : Cfg) (k : Nat) (s : St) : (setActive cfg k s).cb = s.cb := rfl
theorem setActive_act (cfg : Cfg) (k : Nat) (s : St) (j : Nat) :
    (setActive cfg k s).act j = if j = k then true else s.act j := rfl

theorem activate_cb (cfg : Cfg) (k : Nat) (s : St) (o : Nat) :
    (activate cfg k s).cb o = if o = cfg.outOf k then some k else s.cb o := by
  simp [activate, setCb_cb]

theorem activate_act (cfg : Cfg) (k : Nat) (s : St) (j : Nat) :
    (activate cfg k s).act j =
      if j = k then true else if j < cfg.n ∧ cfg.outOf j = cfg.outOf k then false else s.act j := by
  simp only [activate, setActive_act, setCb_act]
  by_cases h : j = k
  · simp [h]
  · simp only [h, if_false]
    rw [deactivateAll_act]
    have : some k ≠ some j := by intro e; exact h (Option.some.inj e).symm
    simp [this, mem_inputsOf]

theorem selfControlled_cb (cfg : Cfg) (o : Nat) (s : St) (o' : Nat) :
    (selfControlled cfg o s).cb o' = if o' = o then none else s.cb o' := by
  unfold selfControlled
  cases h : s.cb o with
  | none =>
    by_cases ho : o' = o
    · simp [ho, h]
    · simp [ho]
  | some c => simp [setCb_cb]

theorem selfControlled_act (cfg : Cfg) (o : Nat) (s : St) (j : Nat) :
    (selfControlled cfg o s).act j =
      if s.cb o ≠ none ∧ j < cfg.n ∧ cfg.outOf j = o then false else s.act j := by
  unfold selfControlled
  cases h : s.cb o with
  | none => simp
  | some c =>
    simp only
    rw [deactivateAll_act]
    simp [mem_inputsOf]

end Frappy.Control
