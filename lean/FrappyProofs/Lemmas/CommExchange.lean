import FrappyProofs.Lemmas.CommVisible
/- helper lemmas for C16: an exchange (command, reply, what getFullReply reads in addition) is not interleaved with other
traffic; a dropped connection is announced by the caller that dropped it -/
open Frappy.Spec.C16
namespace Frappy.Comm

/-! ## exchanges -/

/-- the caller touching the connection with this event -/
def trafficEv (e : Ev) : Option Nat :=
  match e with
  | .send c _ _ _ => some c
  | .isend c _ _ _ => some c
  | .flush c => some c
  | .recv c _ => some c
  | _ => none

def sendLikeEv (e : Ev) : Bool :=
  match e with
  | .send _ _ _ _ => true
  | .isend _ _ _ _ => true
  | _ => false

/-- events that end (or begin) an exchange of the acting caller -/
def boundaryEv (e : Ev) : Bool :=
  match e with
  | .send _ _ _ _ => true
  | .isend _ _ _ _ => true
  | .flush _ => true
  | .ret _ _ => true
  | _ => false

/-- inside an exchange: the command is out, the lock is still held -/
def exPc (p : Pc) : Bool :=
  match p with
  | .read | .relI | .readX | .idRead | .idRel => true
  | _ => false

/-- draining stale input before the command goes out -/
def drainPc (p : Pc) : Bool :=
  match p with
  | .drain | .idDrain => true
  | _ => false

theorem trafficEv_who {e : Ev} {c : Nat} (h : trafficEv e = some c) : e.who = some c := by
  cases e <;> simp [trafficEv] at h <;> simp [Ev.who, h]

theorem trafficAt_eq (log : Log) (m : Nat) : trafficAt log m = (evAt log m).bind trafficEv := by
  unfold trafficAt
  cases hev : evAt log m with
  | none => rfl
  | some e => cases e <;> rfl

theorem sendLikeAt_eq (log : Log) (m : Nat) :
    sendLikeAt log m = (evAt log m).bind (fun e => if sendLikeEv e then e.who else none) := by
  unfold sendLikeAt
  cases hev : evAt log m with
  | none => rfl
  | some e => cases e <;> rfl

theorem misc_exPc (s : State) (cfg : Cfg) (k : Caller) :
    exPc (failTo k).pc = false ∧ exPc (nextReq k).pc = false ∧ exPc (afterConnected s k).pc = false ∧
    exPc (toFlush s k).pc = false ∧ exPc (rcFail k).pc = false ∧ exPc (afterIdent s k).pc = false ∧
    exPc (startIdent s k).pc = false ∧ exPc (idNext cfg k).pc = false ∧ exPc (toIdFlush s k).pc = false ∧
    exPc (toIdEndFail k).pc = false := by
  have h1 : exPc (failTo k).pc = false := by unfold failTo; simp only; split <;> rfl
  have h3 : exPc (afterConnected s k).pc = false := by
    unfold afterConnected; split <;> split <;> (try split) <;> (try rfl) <;> exact h1
  have h6 : exPc (afterIdent s k).pc = false := by unfold afterIdent; split <;> (try split) <;> (try rfl) <;> exact h3
  refine ⟨h1, ?_, h3, ?_, ?_, h6, ?_, ?_, ?_, rfl⟩
  · unfold nextReq; split <;> (try split) <;> rfl
  · unfold toFlush; split <;> (try rfl); exact h1
  · unfold rcFail; split <;> (try rfl); exact h1
  · unfold startIdent; split <;> (try rfl); exact h6
  · unfold idNext; split <;> (try split) <;> (try split) <;> rfl
  · unfold toIdFlush; split <;> rfl

theorem misc_drainPc (s : State) (cfg : Cfg) (k : Caller) :
    drainPc (failTo k).pc = false ∧ drainPc (nextReq k).pc = false ∧ drainPc (afterConnected s k).pc = false ∧
    drainPc (toFlush s k).pc = false ∧ drainPc (rcFail k).pc = false ∧ drainPc (afterIdent s k).pc = false ∧
    drainPc (startIdent s k).pc = false ∧ drainPc (idNext cfg k).pc = false ∧ drainPc (toIdFlush s k).pc = false ∧
    drainPc (toIdEndFail k).pc = false := by
  have h1 : drainPc (failTo k).pc = false := by unfold failTo; simp only; split <;> rfl
  have h3 : drainPc (afterConnected s k).pc = false := by
    unfold afterConnected; split <;> split <;> (try split) <;> (try rfl) <;> exact h1
  have h6 : drainPc (afterIdent s k).pc = false := by unfold afterIdent; split <;> (try split) <;> (try rfl) <;> exact h3
  refine ⟨h1, ?_, h3, ?_, ?_, h6, ?_, ?_, ?_, rfl⟩
  · unfold nextReq; split <;> (try split) <;> rfl
  · unfold toFlush; split <;> (try rfl); exact h1
  · unfold rcFail; split <;> (try rfl); exact h1
  · unfold startIdent; split <;> (try rfl); exact h6
  · unfold idNext; split <;> (try split) <;> (try split) <;> rfl
  · unfold toIdFlush; split <;> rfl

set_option hygiene false in
/-- `hp : P (helper …).pc = true` with P false on every helper's result (`misc` : the conjunction of these facts) -/
macro "helper_contra" m:ident : tactic => `(tactic| first
  | (rw [($m s s.cfg _).1] at hp; simp at hp; done)
  | (rw [($m s s.cfg _).2.1] at hp; simp at hp; done)
  | (rw [($m _ s.cfg _).2.2.1] at hp; simp at hp; done)
  | (rw [($m _ s.cfg _).2.2.2.1] at hp; simp at hp; done)
  | (rw [($m s s.cfg _).2.2.2.2.1] at hp; simp at hp; done)
  | (rw [($m _ s.cfg _).2.2.2.2.2.1] at hp; simp at hp; done)
  | (rw [($m _ s.cfg _).2.2.2.2.2.2.1] at hp; simp at hp; done)
  | (rw [($m s _ _).2.2.2.2.2.2.2.1] at hp; simp at hp; done)
  | (rw [($m _ s.cfg _).2.2.2.2.2.2.2.2.1] at hp; simp at hp; done)
  | (rw [($m s s.cfg _).2.2.2.2.2.2.2.2.2] at hp; simp at hp; done))

set_option maxHeartbeats 16000000 in
/-- an exchange is entered by a send (of a command or of an identification request) and left by anything but
`recv` / `more` -/
theorem step_ex (s s' : State) (t c : Nat) (e : Ev) (h : stepCaller s t c e = some s')
    (hp : exPc (s'.callers c).pc = true) :
    (exPc (s.callers c).pc = true ∧ boundaryEv e = false) ∨ sendLikeEv e = true := by
  step_arms
  all_goals (first
    | (right; rfl)
    | (left; refine ⟨?_, rfl⟩; simp [hpc, exPc]; done)
    | (exfalso; simp only [setC_same] at hp; first
        | (rw [hpc] at hp; simp [exPc] at hp; done)
        | (simp [exPc] at hp; done)
        | helper_contra misc_exPc
        | (split at hp <;> first | (simp [exPc] at hp; done) | helper_contra misc_exPc))
    | skip)

set_option maxHeartbeats 16000000 in
/-- the drain phase is entered by `flush` and goes on with `recv` only -/
theorem step_drain (s s' : State) (t c : Nat) (e : Ev) (h : stepCaller s t c e = some s')
    (hp : drainPc (s'.callers c).pc = true) :
    (drainPc (s.callers c).pc = true ∧ boundaryEv e = false) ∨ ∃ x, e = .flush x := by
  step_arms
  all_goals (first
    | (right; exact ⟨_, rfl⟩)
    | (left; refine ⟨?_, rfl⟩; simp [hpc, drainPc]; done)
    | (exfalso; simp only [setC_same] at hp; first
        | (rw [hpc] at hp; simp [drainPc] at hp; done)
        | (simp [drainPc] at hp; done)
        | helper_contra misc_drainPc
        | (split at hp <;> first | (simp [drainPc] at hp; done) | helper_contra misc_drainPc))
    | skip)

/-- whoever touches the connection holds the communicator lock -/
theorem step_traffic_held (s s' : State) (t c : Nat) (e : Ev) (h : stepCaller s t c e = some s')
    (hk : heldOk (s.callers c)) (ht : (trafficEv e).isSome = true) : 0 < (s.callers c).held := by
  cases hpc : (s.callers c).pc <;> cases e <;> simp only [stepCaller, hpc] at h <;>
    first | (simp at h; done) | (simp [trafficEv] at ht; done) | (simp only [heldOk, hpc] at hk; omega)

/-- a `recv` is accepted while draining or while reading a reply -/
theorem step_recv_pc (s s' : State) (t c x : Nat) (out : RecvOut) (h : stepCaller s t c (.recv x out) = some s') :
    drainPc (s.callers c).pc = true ∨ exPc (s.callers c).pc = true := by
  cases hpc : (s.callers c).pc <;> simp only [stepCaller, hpc] at h <;> first | (simp at h; done) | (simp [drainPc, exPc])

/-- "the last send of `c` is at i, and nothing of `c` that ends the exchange has happened since; nobody else has touched
the connection since" -/
def OpenEx (log : Log) (c i : Nat) : Prop :=
  sendLikeAt log i = some c ∧
  ∀ m, i < m → m < log.length →
    (∀ c', trafficAt log m = some c' → c' = c) ∧ sendLikeAt log m ≠ some c ∧ isRetOf c (evAt log m) = false ∧
      evAt log m ≠ some (.flush c)

/-- "`c` has begun to drain at f and has neither sent nor returned nor begun another drain since" -/
def OpenDrain (log : Log) (c f : Nat) : Prop :=
  evAt log f = some (.flush c) ∧
  ∀ m, f < m → m < log.length →
    sendLikeAt log m ≠ some c ∧ isRetOf c (evAt log m) = false ∧ evAt log m ≠ some (.flush c)

structure XInv (log : Log) (s : State) : Prop where
  x : ∀ c, exPc (s.callers c).pc = true → ∃ i, OpenEx log c i
  d : ∀ c, drainPc (s.callers c).pc = true → ∃ f, OpenDrain log c f

theorem sendLikeAt_lt {log : Log} {i c : Nat} (h : sendLikeAt log i = some c) : i < log.length := by
  false_or_by_contra; rename_i hn
  simp [sendLikeAt, evAt_none log i (by omega)] at h

/-- the new last event, seen from a caller `c` that is not affected by it -/
theorem openEx_extend {log : Log} {e : TEv} {c i : Nat} (h : OpenEx log c i)
    (h1 : ∀ c', trafficEv e.ev = some c' → c' = c) (h2 : e.ev.who ≠ some c ∨ boundaryEv e.ev = false) :
    OpenEx (log ++ [e]) c i := by
  obtain ⟨hs, hall⟩ := h
  have hil := sendLikeAt_lt hs
  refine ⟨by rw [sendLikeAt_eq, evAt_append_lt log e i hil, ← sendLikeAt_eq]; exact hs, fun m hm1 hm2 => ?_⟩
  simp only [List.length_append, List.length_singleton] at hm2
  rcases Nat.lt_or_ge m log.length with hlt | hge
  · have := hall m hm1 hlt
    rw [trafficAt_eq, sendLikeAt_eq, evAt_append_lt log e m hlt, ← trafficAt_eq, ← sendLikeAt_eq]
    exact this
  · have : m = log.length := by omega
    subst this
    rw [trafficAt_eq, sendLikeAt_eq, evAt_append_eq]
    simp only [Option.bind_some]
    refine ⟨h1, ?_, ?_, ?_⟩
    · rcases h2 with h2 | h2
      · split
        · exact h2
        · simp
      · have : sendLikeEv e.ev = false := by cases hev : e.ev <;> simp [hev, boundaryEv, sendLikeEv] at h2 ⊢
        simp [this]
    · rcases h2 with h2 | h2
      · cases hev : e.ev <;> simp only [isRetOf] <;> try rfl
        rename_i x r
        rw [hev] at h2
        simp only [Ev.who, ne_eq, Option.some.injEq] at h2
        simpa using h2
      · cases hev : e.ev <;> simp only [isRetOf] <;> try rfl
        rw [hev] at h2; simp [boundaryEv] at h2
    · rcases h2 with h2 | h2
      · intro heq
        simp only [Option.some.injEq] at heq
        rw [heq] at h2; simp [Ev.who] at h2
      · intro heq
        simp only [Option.some.injEq] at heq
        rw [heq] at h2; simp [boundaryEv] at h2

theorem openDrain_extend {log : Log} {e : TEv} {c f : Nat} (h : OpenDrain log c f)
    (h2 : e.ev.who ≠ some c ∨ boundaryEv e.ev = false) : OpenDrain (log ++ [e]) c f := by
  obtain ⟨hs, hall⟩ := h
  have hfl : f < log.length := by
    false_or_by_contra; rename_i hn
    rw [evAt_none log f (by omega)] at hs; simp at hs
  refine ⟨by rw [evAt_append_lt log e f hfl]; exact hs, fun m hm1 hm2 => ?_⟩
  simp only [List.length_append, List.length_singleton] at hm2
  rcases Nat.lt_or_ge m log.length with hlt | hge
  · have := hall m hm1 hlt
    rw [sendLikeAt_eq, evAt_append_lt log e m hlt, ← sendLikeAt_eq]
    exact this
  · have : m = log.length := by omega
    subst this
    rw [sendLikeAt_eq, evAt_append_eq]
    simp only [Option.bind_some]
    refine ⟨?_, ?_, ?_⟩
    · rcases h2 with h2 | h2
      · split
        · exact h2
        · simp
      · have : sendLikeEv e.ev = false := by cases hev : e.ev <;> simp [hev, boundaryEv, sendLikeEv] at h2 ⊢
        simp [this]
    · rcases h2 with h2 | h2
      · cases hev : e.ev <;> simp only [isRetOf] <;> try rfl
        rename_i x r
        rw [hev] at h2
        simp only [Ev.who, ne_eq, Option.some.injEq] at h2
        simpa using h2
      · cases hev : e.ev <;> simp only [isRetOf] <;> try rfl
        rw [hev] at h2; simp [boundaryEv] at h2
    · rcases h2 with h2 | h2
      · intro heq
        simp only [Option.some.injEq] at heq
        rw [heq] at h2; simp [Ev.who] at h2
      · intro heq
        simp only [Option.some.injEq] at heq
        rw [heq] at h2; simp [boundaryEv] at h2

theorem xinv_step {log : Log} {s s' : State} (e : TEv) (hi : Inv log s) (hx : XInv log s) (h : step s e = some s') :
    XInv (log ++ [e]) s' := by
  cases hwho : e.ev.who with
  | none =>
    have hcal := (step_env_callers hwho h).1
    have htr : ∀ c c', trafficEv e.ev = some c' → c' = c := by
      intro c c' ht
      have := trafficEv_who ht
      rw [hwho] at this; simp at this
    refine ⟨fun c hp => ?_, fun c hp => ?_⟩
    · rw [hcal] at hp
      obtain ⟨i, ho⟩ := hx.x c hp
      exact ⟨i, openEx_extend ho (htr c) (Or.inl (by rw [hwho]; simp))⟩
    · rw [hcal] at hp
      obtain ⟨f, ho⟩ := hx.d c hp
      exact ⟨f, openDrain_extend ho (Or.inl (by rw [hwho]; simp))⟩
  | some c0 =>
    rw [step_caller_form s e c0 hwho] at h
    split at h
    · simp at h
    · have hoth := step_others _ s' e.t c0 e.ev h
      refine ⟨fun c hp => ?_, fun c hp => ?_⟩
      · by_cases hcc : c = c0
        · subst hcc
          rcases step_ex _ s' e.t c e.ev h hp with ⟨hold, hnb⟩ | hsl
          · obtain ⟨i, ho⟩ := hx.x c hold
            refine ⟨i, openEx_extend ho (fun c' ht => ?_) (Or.inr hnb)⟩
            have := trafficEv_who ht
            rw [hwho] at this; simpa using this.symm
          · refine ⟨log.length, ?_, fun m h1 h2 => ?_⟩
            · rw [sendLikeAt_eq, evAt_append_eq]
              simp [hsl, hwho]
            · simp only [List.length_append, List.length_singleton] at h2; omega
        · rw [hoth c hcc] at hp
          obtain ⟨i, ho⟩ := hx.x c hp
          refine ⟨i, openEx_extend ho (fun c' ht => ?_) (Or.inl (by rw [hwho]; simpa using fun h => hcc h.symm))⟩
          -- c holds the lock: c0 cannot touch the connection
          exfalso
          have hw := trafficEv_who ht
          rw [hwho] at hw
          have hheld0 := step_traffic_held _ s' e.t c0 e.ev h (hi.hk c0) (by rw [ht]; rfl)
          have hheld : 0 < (s.callers c).held := by
            have hk := hi.hk c
            unfold heldOk at hk
            cases hpc : (s.callers c).pc <;> simp [exPc, hpc] at hp <;> simp only [hpc] at hk <;> omega
          have o1 := hi.li1 c hheld
          have o2 := hi.li1 c0 hheld0
          rw [o1] at o2; simp at o2; exact hcc o2
      · by_cases hcc : c = c0
        · subst hcc
          rcases step_drain _ s' e.t c e.ev h hp with ⟨hold, hnb⟩ | ⟨x, hfl⟩
          · obtain ⟨f, ho⟩ := hx.d c hold
            exact ⟨f, openDrain_extend ho (Or.inr hnb)⟩
          · refine ⟨log.length, ?_, fun m h1 h2 => ?_⟩
            · rw [evAt_append_eq, hfl]
              rw [hfl] at hwho
              simp only [Ev.who, Option.some.injEq] at hwho
              rw [hwho]
            · simp only [List.length_append, List.length_singleton] at h2; omega
        · rw [hoth c hcc] at hp
          obtain ⟨f, ho⟩ := hx.d c hp
          exact ⟨f, openDrain_extend ho (Or.inl (by rw [hwho]; simpa using fun h => hcc h.symm))⟩

theorem xinv_exec_gen : ∀ (evs pre : List TEv) (s0 s : State), Inv pre s0 → XInv pre s0 → exec s0 evs = some s →
    XInv (pre ++ evs) s
  | [], pre, s0, s, _, hv, h => by simp [exec] at h; subst h; simpa using hv
  | e :: es, pre, s0, s, hi, hv, h => by
    simp only [exec] at h
    cases hst : step s0 e with
    | none => simp [hst] at h
    | some s1 =>
      simp only [hst] at h
      have := xinv_exec_gen es (pre ++ [e]) s1 s (inv_step e hi hst) (xinv_step e hi hv hst) h
      simpa using this

theorem xinv_exec (cfg : Cfg) (cbs : List Nat) (evs : List TEv) (s : State)
    (h : exec { cfg := cfg, cbsReg := cbs } evs = some s) : XInv evs s := by
  have h0 : XInv [] { cfg := cfg, cbsReg := cbs } := ⟨fun c hp => by simp [exPc] at hp, fun c hp => by simp [drainPc] at hp⟩
  simpa using xinv_exec_gen evs [] _ s (inv_init cfg cbs) h0 h

/-- searching backwards from k finds the last position that satisfies p -/
theorem find_last (p : Nat → Bool) : ∀ (k i : Nat), i < k → p i = true → (∀ m, i < m → m < k → p m = false) →
    (List.range k).reverse.find? p = some i
  | 0, i, h, _, _ => by omega
  | k + 1, i, h, hp, hno => by
    rw [List.range_succ, List.reverse_append]
    simp only [List.reverse_cons, List.reverse_nil, List.nil_append, List.singleton_append, List.find?_cons]
    rcases Nat.lt_or_ge i k with hlt | hge
    · rw [hno k hlt (by omega)]
      exact find_last p k i hlt hp (fun m h1 h2 => hno m h1 (by omega))
    · have : i = k := by omega
      subst this
      rw [hp]

/-! ## a dropped connection is announced -/

def visPc2 (p : Pc) : Bool :=
  match p with
  | .visF => true
  | .idVisF _ => true
  | _ => false

/-- after `closeConnection` has dropped the connection the only thing the caller does is the update -/
theorem step_vis2 (s s' : State) (t c : Nat) (e : Ev) (h : stepCaller s t c e = some s')
    (hp : visPc2 (s.callers c).pc = true) : ∃ x, e = .isconn x false := by
  cases hpc : (s.callers c).pc <;> simp [visPc2, hpc] at hp <;> cases e <;> simp only [stepCaller, hpc] at h <;>
    try (simp at h)
  all_goals (obtain ⟨hv, _⟩ := h; subst hv; exact ⟨_, rfl⟩)

theorem step_hclose (s s' : State) (t c x : Nat) (h : stepCaller s t c (.hclose x) = some s') :
    visPc2 (s'.callers c).pc = true := by
  cases hpc : (s.callers c).pc <;> simp only [stepCaller, hpc] at h <;> try (simp at h)
  · subst h; simp [visPc2]
  · obtain ⟨_, rfl⟩ := h; simp [visPc2]

theorem step_ret_pc2 (s s' : State) (t c x : Nat) (r : Res) (h : stepCaller s t c (.ret x r) = some s') :
    visPc2 (s.callers c).pc = false := by
  cases hpc : (s.callers c).pc <;> simp only [stepCaller, hpc] at h <;> first | rfl | (simp at h)

/-- "caller c has dropped the connection at position i and has neither announced it nor returned since" -/
def PendingClose (log : Log) (c i : Nat) : Prop :=
  evAt log i = some (.hclose c) ∧
  (∀ m, i < m → m < log.length → evAt log m ≠ some (.isconn c false)) ∧
  (∀ m, i < m → m < log.length → isRetOf c (evAt log m) = false)

structure WInv (log : Log) (s : State) : Prop where
  w : ∀ c i, PendingClose log c i → visPc2 (s.callers c).pc = true

theorem pendingClose_restrict {log : Log} {e : TEv} {c i : Nat} (hlt : i < log.length) (h : PendingClose (log ++ [e]) c i) :
    PendingClose log c i ∧ e.ev ≠ .isconn c false ∧ isRetOf c (some e.ev) = false := by
  obtain ⟨h1, h2, h3⟩ := h
  refine ⟨⟨by rwa [evAt_append_lt log e i hlt] at h1, ?_, ?_⟩, ?_, ?_⟩
  · intro m hm1 hm2
    have := h2 m hm1 (by simp; omega)
    rwa [evAt_append_lt log e m hm2] at this
  · intro m hm1 hm2
    have := h3 m hm1 (by simp; omega)
    rwa [evAt_append_lt log e m hm2] at this
  · have := h2 log.length hlt (by simp)
    rw [evAt_append_eq] at this
    intro heq; rw [heq] at this; exact this rfl
  · have := h3 log.length hlt (by simp)
    rwa [evAt_append_eq] at this

theorem winv_step {log : Log} {s s' : State} (e : TEv) (hv : WInv log s) (h : step s e = some s') :
    WInv (log ++ [e]) s' := by
  refine ⟨fun c i hp => ?_⟩
  have hile : i < (log ++ [e]).length := by
    false_or_by_contra; rename_i hn
    have := hp.1; rw [evAt_none _ i (by omega)] at this; simp at this
  simp only [List.length_append, List.length_singleton] at hile
  cases hwho : e.ev.who with
  | none =>
    have hcal := (step_env_callers hwho h).1
    rcases Nat.lt_or_ge i log.length with hlt | hge
    · rw [hcal]; exact hv.w c i (pendingClose_restrict hlt hp).1
    · have : i = log.length := by omega
      subst this
      have := hp.1; rw [evAt_append_eq] at this
      simp only [Option.some.injEq] at this
      rw [this] at hwho; simp [Ev.who] at hwho
  | some c0 =>
    rw [step_caller_form s e c0 hwho] at h
    split at h
    · simp at h
    · rcases Nat.lt_or_ge i log.length with hlt | hge
      · obtain ⟨hold, hne, hnr⟩ := pendingClose_restrict hlt hp
        have hvis := hv.w c i hold
        by_cases hcc : c = c0
        · subst hcc
          obtain ⟨x, hx⟩ := step_vis2 _ s' e.t c e.ev h hvis
          rw [hx] at hwho; simp only [Ev.who, Option.some.injEq] at hwho
          subst hwho; exact absurd hx hne
        · rw [step_others _ s' e.t c0 e.ev h c hcc]; exact hvis
      · have : i = log.length := by omega
        subst this
        have hev := hp.1; rw [evAt_append_eq] at hev
        simp only [Option.some.injEq] at hev
        rw [hev] at hwho h
        simp only [Ev.who, Option.some.injEq] at hwho
        subst hwho
        exact step_hclose _ s' e.t c c h

theorem winv_exec_gen : ∀ (evs pre : List TEv) (s0 s : State), WInv pre s0 → exec s0 evs = some s → WInv (pre ++ evs) s
  | [], pre, s0, s, hv, h => by simp [exec] at h; subst h; simpa using hv
  | e :: es, pre, s0, s, hv, h => by
    simp only [exec] at h
    cases hst : step s0 e with
    | none => simp [hst] at h
    | some s1 =>
      simp only [hst] at h
      have := winv_exec_gen es (pre ++ [e]) s1 s (winv_step e hv hst) h
      simpa using this

theorem winv_exec (cfg : Cfg) (cbs : List Nat) (evs : List TEv) (s : State)
    (h : exec { cfg := cfg, cbsReg := cbs } evs = some s) : WInv evs s := by
  have h0 : WInv [] { cfg := cfg, cbsReg := cbs } := ⟨fun c i hp => by have := hp.1; simp [evAt] at this⟩
  simpa using winv_exec_gen evs [] _ s h0 h

end Frappy.Comm
