import FrappyProofs.Lemmas.Dispatch
import FrappyModel.Spec.C04
/- helper lemmas for the write paths that forward (`Node/Forward.lean`, Spec C04 section "write paths that forward") -/
namespace Frappy.Lemmas.Forward
open Frappy.Node Frappy.Node.Forward Frappy.Spec.C04 Frappy.Lemmas.Dispatch

variable {J V : Type}

theorem paramOf_attr (mod : Module J V) (a : String) (p : Param J V) (h : paramOf mod a = some p) : p.attr = a := by
  unfold paramOf at h
  cases hf : mod.accs.find? (fun x => x.attr == a) with
  | none => simp [hf] at h
  | some acc =>
    have hs := List.find?_some hf
    cases acc with
    | command c => simp [hf] at h
    | param q =>
      simp only [hf, Option.some.injEq] at h
      subst h
      simpa [Acc.attr] using hs

/-- the wrapper lets a value through exactly when the parameter exists, the datatype accepts the value and the limits
and hooks of THIS parameter agree -/
theorem enter_ok_iff (c : Ctx J V) (a : String) (v : V) (p : Param J V) (w : V) :
    enter c a v = .ok (p, w) ↔
      paramOf c.mod a = some p ∧ p.dt.revalidate v = .ok w ∧ ChecksOK c.env c.mod a v p.checks := by
  unfold enter
  cases hp : paramOf c.mod a with
  | none => simp
  | some q =>
    simp only [Option.some.injEq]
    cases hr : q.dt.revalidate v with
    | error e =>
      simp only [reduceCtorEq, false_iff]
      rintro ⟨rfl, h2, _⟩
      rw [hr] at h2; cases h2
    | ok w' =>
      simp only
      cases hc : runChecks (checkOne c.env c.mod a v) q.checks with
      | some e =>
        simp only [reduceCtorEq, false_iff]
        rintro ⟨rfl, _, h3⟩
        rw [← runChecks_none_iff, hc] at h3; cases h3
      | none =>
        simp only [Except.ok.injEq, Prod.mk.injEq]
        constructor
        · rintro ⟨rfl, rfl⟩
          exact ⟨rfl, hr, (runChecks_none_iff ..).1 hc⟩
        · rintro ⟨rfl, h2, _⟩
          rw [hr] at h2
          exact ⟨rfl, Except.ok.inj h2⟩

theorem enter_visitOK (c : Ctx J V) (a : String) (v : V) (pw : Param J V × V) (h : enter c a v = .ok pw) :
    VisitOK c a v := by
  obtain ⟨h1, h2, h3⟩ := (enter_ok_iff c a v pw.1 pw.2).1 h
  exact ⟨pw.1, h1, ⟨pw.2, h2⟩, h3⟩

theorem visitOK_enter (c : Ctx J V) (a : String) (v : V) (h : VisitOK c a v) : ∃ pw, enter c a v = .ok pw := by
  obtain ⟨p, h1, ⟨w, h2⟩, h3⟩ := h
  exact ⟨(p, w), (enter_ok_iff c a v p w).2 ⟨h1, h2, h3⟩⟩

theorem driverCall_calls (c : Ctx J V) (p : Param J V) (w : V) :
    (driverCall c p w).calls = [DriverCall.write c.mod.name p.attr w] := by
  simp only [driverCall]
  split
  · rfl
  · split <;> rfl
  · rfl

theorem driverCall_exhausted (c : Ctx J V) (p : Param J V) (w : V) : (driverCall c p w).exhausted = false := by
  simp only [driverCall]
  split
  · rfl
  · split <;> rfl
  · rfl

theorem seqAll_nil (f : String → V → WOut V) : seqAll f [] = ⟨[], none, false⟩ := rfl

theorem seqAll_single (f : String → V → WOut V) (ax : String × V) :
    (seqAll f [ax]).calls = (f ax.1 ax.2).calls ∧ (seqAll f [ax]).err = (f ax.1 ax.2).err ∧
    (seqAll f [ax]).exhausted = (f ax.1 ax.2).exhausted := by
  cases h : (f ax.1 ax.2).err <;> simp [seqAll, h]

theorem mem_seqAll_calls (f : String → V → WOut V) : ∀ (l : List (String × V)) (call : DriverCall V),
    call ∈ (seqAll f l).calls → ∃ ax ∈ l, call ∈ (f ax.1 ax.2).calls
  | [], call, h => by simp [seqAll] at h
  | ax :: rest, call, h => by
    unfold seqAll at h
    cases he : (f ax.1 ax.2).err with
    | some e =>
      simp only [he] at h
      exact ⟨ax, by simp, h⟩
    | none =>
      simp only [he, List.mem_append] at h
      rcases h with h | h
      · exact ⟨ax, by simp, h⟩
      · obtain ⟨bx, hb, hc⟩ := mem_seqAll_calls f rest call h
        exact ⟨bx, by simp [hb], hc⟩

/-- the generated function runs: the wrapper let the value through and there is someone to hand it to -/
theorem wrap_forward (c : Ctx J V) (fuel : Nat) (a : String) (v : V) (pw : Param J V × V)
    (he : enter c a v = .ok pw) (hne : succs c a pw.2 ≠ []) :
    wrap (fuel + 1) c a v = seqAll (wrap fuel c) (succs c a pw.2) := by
  unfold wrap
  simp only [he]
  cases hb : c.body a with
  | absent => simp [succs, hb] at hne
  | driver => simp [succs, hb] at hne
  | toStruct s k => rfl
  | toMembers ms => rfl
  | toIndex i => rfl

theorem succs_linear (c : Ctx J V) (hl : Linear c) (a : String) (w : V) :
    succs c a w = [] ∨ ∃ ax, succs c a w = [ax] := by
  unfold succs
  cases hb : c.body a with
  | absent => exact .inl rfl
  | driver => exact .inl rfl
  | toStruct s k =>
    cases h : attrValue c.mod s with
    | none => left; simp [h]
    | some cur => right; exact ⟨(s, c.ops.set cur k w), by simp [h]⟩
  | toMembers ms => exact absurd hb (hl a ms)
  | toIndex i => exact .inr ⟨_, rfl⟩

/-- every call of a driver-written write method: the parameter is on the write path of the request, and ITS wrapper
let the value it was given through (valid for its datatype, inside its limits, its hooks agree); the driver gets
exactly the validated value.  No hypothesis on the forwarding structure. -/
theorem wrap_call_checked (c : Ctx J V) : ∀ (fuel : Nat) (a : String) (v : V) (call : DriverCall V),
    call ∈ (wrap fuel c a v).calls →
      ∃ b u p w, Reach c a v b u ∧ c.body b = .driver ∧ enter c b u = .ok (p, w) ∧
        call = DriverCall.write c.mod.name b w
  | 0, a, v, call, h => by simp [wrap] at h
  | fuel + 1, a, v, call, h => by
    cases he : enter c a v with
    | error e => simp [wrap, he] at h
    | ok pw =>
      have hen := (enter_ok_iff c a v pw.1 pw.2).1 he
      by_cases hne : succs c a pw.2 = []
      · unfold wrap at h
        simp only [he] at h
        cases hb : c.body a with
        | absent => simp [hb] at h
        | driver =>
          simp only [hb, driverCall_calls, List.mem_singleton] at h
          refine ⟨a, v, pw.1, pw.2, .here a v, hb, he, ?_⟩
          rw [h, paramOf_attr _ _ _ hen.1]
        | toStruct s k => simp [hb, hne, seqAll] at h
        | toMembers ms => simp [hb, hne, seqAll] at h
        | toIndex i => simp [hb, hne, seqAll] at h
      · rw [wrap_forward c fuel a v pw he hne] at h
        obtain ⟨ax, hax, hc⟩ := mem_seqAll_calls _ _ _ h
        obtain ⟨b, u, p, w, hr, hbd, hen', hcall⟩ := wrap_call_checked c fuel ax.1 ax.2 call hc
        exact ⟨b, u, p, w, .step ⟨pw.1, pw.2, hen.1, hen.2.1, hax⟩ hr, hbd, hen', hcall⟩

/-- without a generated function that calls several write methods: if a driver is called, or the request ends without
an exception, EVERY parameter of the write path let its value through -/
theorem wrap_path_ok (c : Ctx J V) (hl : Linear c) : ∀ (fuel : Nat) (a : String) (v : V),
    (wrap fuel c a v).exhausted = false →
    ((wrap fuel c a v).calls ≠ [] ∨ (wrap fuel c a v).err = none) → PathOK c a v
  | 0, a, v, hex, _ => by simp [wrap] at hex
  | fuel + 1, a, v, hex, h => by
    intro b u hr
    cases he : enter c a v with
    | error e => simp [wrap, he] at h
    | ok pw =>
      have hen := (enter_ok_iff c a v pw.1 pw.2).1 he
      cases hr with
      | here => exact enter_visitOK c a v pw he
      | step hh hr' =>
        obtain ⟨p', w', hp', hw', hmem⟩ := hh
        have e1 : p' = pw.1 := Option.some.inj (hp'.symm.trans hen.1)
        subst e1
        have e2 : w' = pw.2 := by
          have := hw'.symm.trans hen.2.1
          exact Except.ok.inj this
        subst e2
        have hne : succs c a pw.2 ≠ [] := by
          intro h0; rw [h0] at hmem; cases hmem
        rcases succs_linear c hl a pw.2 with h0 | ⟨ax, h1⟩
        · exact absurd h0 hne
        · rw [wrap_forward c fuel a v pw he hne, h1] at hex h
          rw [h1, List.mem_singleton] at hmem
          obtain ⟨s1, s2, s3⟩ := seqAll_single (wrap fuel c) ax
          rw [s3] at hex
          rw [s1, s2] at h
          have ih := wrap_path_ok c hl fuel ax.1 ax.2 hex h
          rw [← hmem] at ih
          exact ih _ _ hr'

/-- … and at most one driver-written write method is called -/
theorem wrap_calls_le_one (c : Ctx J V) (hl : Linear c) : ∀ (fuel : Nat) (a : String) (v : V),
    (wrap fuel c a v).calls.length ≤ 1
  | 0, a, v => by simp [wrap]
  | fuel + 1, a, v => by
    cases he : enter c a v with
    | error e => simp [wrap, he]
    | ok pw =>
      by_cases hne : succs c a pw.2 = []
      · unfold wrap
        simp only [he]
        cases hb : c.body a with
        | absent => simp
        | driver => simp [driverCall_calls]
        | toStruct s k => simp [hne, seqAll]
        | toMembers ms => simp [hne, seqAll]
        | toIndex i => simp [hne, seqAll]
      · rcases succs_linear c hl a pw.2 with h0 | ⟨ax, h1⟩
        · exact absurd h0 hne
        · rw [wrap_forward c fuel a v pw he hne, h1, (seqAll_single (wrap fuel c) ax).1]
          exact wrap_calls_le_one c hl fuel ax.1 ax.2

/-! the monitor's decisions against the declarative clauses -/

theorem visitVerdict_none_iff (c : Ctx J V) (a : String) (v : V) : visitVerdict c a v = none ↔ VisitOK c a v := by
  unfold visitVerdict VisitOK
  cases hp : paramOf c.mod a with
  | none => simp
  | some p =>
    simp only [Option.some.injEq, exists_eq_left']
    cases hr : p.dt.revalidate v with
    | error e => simp
    | ok w =>
      simp only [Except.ok.injEq, exists_eq', true_and]
      rw [← runChecks_cls, Option.map_eq_none_iff, runChecks_none_iff]

theorem mem_pathList_reach (c : Ctx J V) : ∀ (fuel : Nat) (a : String) (v : V) (av : String × V),
    av ∈ pathList fuel c a v → Reach c a v av.1 av.2
  | 0, a, v, av, h => by
    simp only [pathList, List.mem_singleton] at h
    subst h; exact .here a v
  | fuel + 1, a, v, av, h => by
    simp only [pathList, List.mem_cons] at h
    rcases h with h | h
    · subst h; exact .here a v
    · cases hp : paramOf c.mod a with
      | none => simp [hp] at h
      | some p =>
        cases hr : p.dt.revalidate v with
        | error e => simp [hp, hr] at h
        | ok w =>
          simp only [hp, hr, List.mem_flatMap] at h
          obtain ⟨ax, hax, hm⟩ := h
          exact .step ⟨p, w, hp, hr, hax⟩ (mem_pathList_reach c fuel ax.1 ax.2 av hm)

end Frappy.Lemmas.Forward
