import FrappyProofs.Lemmas.DatatypesIdemM
/-
C01: what `validate` returns is in canonical form (no float leaf is changed by `+ 0.0`).
-/
set_option linter.unusedSectionVars false
set_option linter.unusedVariables false
namespace Frappy.Lemmas.C01
open FloatOps DType Frappy.Datatypes Frappy.Spec.C01
open PVal (toFloat? seqItems? prevItems prevFields dictGet dictSet)

variable {F : Type} [FloatOps F] [LawfulFloatOps F]

theorem canon_of_eq {x : F} (h : addZero x = x) : Canon (.float x) := by
  simp only [Canon]; rw [h]; exact same_refl x

theorem toFloat_canon {v : PVal F} {x : F} (h : toFloat? v = some x) : addZero x = x := by
  cases v <;> simp only [toFloat?] at h
  all_goals first
    | cases h
    | skip
  case bool b => exact LawfulFloatOps.addZero_ofInt _ x h
  case int i => exact LawfulFloatOps.addZero_ofInt _ x h
  case float y => exact LawfulFloatOps.addZero_idem y

theorem median3_canon {a b c : F} (ha : addZero a = a) (hb : addZero b = b) (hc : addZero c = c) :
    addZero (median3 a b c) = median3 a b c := by
  rcases median3_mem a b c with h | h | h <;> rw [h] <;> assumption

theorem doubleCall_canon {v : PVal F} {x : F} (h : doubleCall v = .ok x) : addZero x = x := by
  unfold doubleCall at h
  split at h
  · cases h
  · rename_i x0 hx0
    split at h
    · cases h
    · injection h with h
      rw [← h]
      exact median3_canon LawfulFloatOps.addZero_neg_maxFinite (toFloat_canon hx0) LawfulFloatOps.addZero_maxFinite

theorem scaledCall_canon {scale : F} (hp : DType.positive scale = true) {v : PVal F} {r : F}
    (h : scaledCall scale v = .ok r) : addZero r = r := by
  obtain ⟨_, k, y, _, _, hy, hr, _⟩ := scaledCall_ok h
  rw [hr]
  exact LawfulFloatOps.addZero_ofGrid k y scale hy (positive_iff hp)

theorem canonList_of_forall : ∀ (l : List (PVal F)), (∀ v ∈ l, Canon v) → CanonList l
  | [], _ => by simp only [CanonList]
  | x :: xs, h => by
    simp only [CanonList]
    exact ⟨h x List.mem_cons_self, canonList_of_forall xs (fun v hv => h v (List.mem_cons_of_mem _ hv))⟩

theorem canonFields_of_forall : ∀ (d : List (String × PVal F)), (∀ kv ∈ d, Canon kv.2) → CanonFields d
  | [], _ => by simp only [CanonFields]
  | (k, x) :: rest, h => by
    simp only [CanonFields]
    exact ⟨h (k, x) List.mem_cons_self, canonFields_of_forall rest (fun kv hkv => h kv (List.mem_cons_of_mem _ hkv))⟩

/-- `previous`, if any, is in canonical form -/
def PrevCanon (prev : Option (PVal F)) : Prop := ∀ p, prev = some p → Canon p

theorem prevItems_canon {prev : Option (PVal F)} (hp : PrevCanon prev) : ∀ p ∈ prevItems prev, Canon p := by
  intro p hmem
  cases prev with
  | none => simp [prevItems] at hmem
  | some q =>
    have hq := hp q rfl
    cases q
    case tuple l => simp only [prevItems] at hmem; simp only [Canon] at hq; exact canonList_mem _ hq p hmem
    case list l => simp only [prevItems] at hmem; simp only [Canon] at hq; exact canonList_mem _ hq p hmem
    all_goals simp [prevItems] at hmem

theorem prevFields_canon {prev : Option (PVal F)} (hp : PrevCanon prev) : ∀ kv ∈ prevFields prev, Canon kv.2 := by
  intro kv hmem
  cases prev with
  | none => simp [prevFields] at hmem
  | some q =>
    have hq := hp q rfl
    cases q
    case dict d => simp only [prevFields] at hmem; simp only [Canon] at hq; exact canonFields_mem _ hq kv hmem
    all_goals simp [prevFields] at hmem

mutual
theorem conv_canon : ∀ (dt : DType F) (v : PVal F) (prev : Option (PVal F)) (r : PVal F),
    dt.WF → PrevCanon prev → conv .validate dt v prev = .ok r → Canon r
  | .double min max ar rr, v, prev, r, hwf, _, h => by
    simp only [conv] at h
    obtain ⟨x, hx, hr⟩ := map_ok h
    simp only [DType.WF] at hwf
    obtain ⟨_, _, _, _, _, cmin, cmax, _⟩ := hwf
    unfold doubleValidate at hx
    split at hx
    · cases hx
    · rename_i y hy
      simp only at hx
      split at hx
      · injection hx with hx
        rw [hr, ← hx]
        exact canon_of_eq (median3_canon cmin (doubleCall_canon hy) cmax)
      · cases hx
  | .scaled scale min max ar rr, v, prev, r, hwf, _, h => by
    simp only [conv] at h
    obtain ⟨x, hx, hr⟩ := map_ok h
    simp only [DType.WF] at hwf
    obtain ⟨_, hp, _⟩ := hwf
    obtain ⟨result, lo, hi, _, hres, hlo, hhi, _, hcase⟩ := scaledValidate_ok hx
    rw [hr]
    rcases hcase with ⟨_, _, e⟩ | ⟨_, _, _, e⟩
    · rw [e]; exact canon_of_eq (scaledCall_canon hp hres)
    · rw [e]; exact canon_of_eq (median3_canon (scaledCall_canon hp hlo) (scaledCall_canon hp hres) (scaledCall_canon hp hhi))
  | .int min max, v, prev, r, hwf, _, h => by
    simp only [conv] at h
    obtain ⟨x, hx, hr⟩ := map_ok h
    rw [hr]; simp only [Canon]
  | .bool, v, prev, r, hwf, _, h => by
    simp only [conv] at h
    obtain ⟨x, hx, hr⟩ := map_ok h
    rw [hr]; simp only [Canon]
  | .enum ms, v, prev, r, hwf, _, h => by
    simp only [conv] at h
    obtain ⟨n, k, hr, _, _⟩ := enumCall_ok h
    rw [hr]; simp only [Canon]
  | .string minc maxc utf8, v, prev, r, hwf, _, h => by
    simp only [conv] at h
    obtain ⟨x, hx, hr⟩ := map_ok h
    rw [hr]; simp only [Canon]
  | .blob minb maxb, v, prev, r, hwf, _, h => by
    simp only [conv] at h
    obtain ⟨x, hx, hr⟩ := map_ok h
    rw [hr]; simp only [Canon]
  | .array elem lo hi, v, prev, r, hwf, hp, h => by
    simp only [conv] at h
    simp only [DType.WF] at hwf
    split at h
    · cases h
    · rename_i vs hvs
      split at h
      · cases h
      · split at h
        · cases h
        · obtain ⟨rs, hrs, hr⟩ := map_ok h
          have hrs := mapErr_ok hrs
          obtain ⟨h1, _⟩ := mapPrev_ok (P := Canon) (Q := Canon)
            (fun v p r hq h => conv_canon elem v p r hwf.1 hq h) vs _ rs (prevItems_canon hp) hrs
          rw [hr]; simp only [Canon]
          exact canonList_of_forall rs h1
  | .tuple elems, v, prev, r, hwf, hp, h => by
    simp only [DType.WF] at hwf
    cases prev with
    | some p =>
      simp only [conv] at h
      split at h
      · cases h
      · rename_i vs hvs
        split at h
        · cases h
        · split at h
          · cases h
          · rename_i ps hps
            obtain ⟨rs, hrs, hr⟩ := map_ok h
            have hrs := mapErr_ok hrs
            have hq := hp p rfl
            have hcl : CanonList ps := by
              cases p <;> simp only [seqItems?] at hps <;> try (cases hps)
              all_goals simpa only [Canon] using hq
            rw [hr]; simp only [Canon]
            exact convTuple_canon elems vs (some ps) rs hwf.2 (fun l hl => by injection hl with hl; rw [← hl]; exact hcl) hrs
    | none =>
      simp only [conv] at h
      split at h
      · cases h
      · rename_i vs hvs
        split at h
        · cases h
        · obtain ⟨rs, hrs, hr⟩ := map_ok h
          have hrs := mapErr_ok hrs
          rw [hr]; simp only [Canon]
          exact convTuple_canon elems vs none rs hwf.2 (fun l hl => by cases hl) hrs
  | .struct ms opt cl, v, prev, r, hwf, hp, h => by
    simp only [conv] at h
    simp only [DType.WF] at hwf
    split at h
    · rename_i items
      split at h
      · obtain ⟨acc, hacc, hr⟩ := map_ok h
        have hacc := mapErr_ok hacc
        obtain ⟨a, _, _⟩ := foldFields_ok (M := fun k x => Canon x)
          (fun k v r hkv => convMember_canon ms k v r hwf.2.2.2 hkv) items _ acc hacc
        rw [hr]; simp only [Canon]
        exact canonFields_of_forall acc (a (prevFields_canon hp))
      · cases h
    · cases h
theorem convTuple_canon : ∀ (ts : List (DType F)) (vs : List (PVal F)) (ps : Option (List (PVal F)))
    (rs : List (PVal F)), WFList ts → (∀ l, ps = some l → CanonList l) →
    convTuple .validate ts vs ps = .ok rs → CanonList rs
  | [], vs, ps, rs, _, _, h => by
    simp only [convTuple] at h
    injection h with h
    subst h
    simp only [CanonList]
  | t :: ts, [], ps, rs, _, _, h => by
    simp only [convTuple] at h
    injection h with h
    subst h
    simp only [CanonList]
  | t :: ts, v :: vs, some [], rs, _, _, h => by
    simp only [convTuple] at h
    injection h with h
    subst h
    simp only [CanonList]
  | t :: ts, v :: vs, some (p :: ps), rs, hwf, hps, h => by
    simp only [convTuple] at h
    simp only [WFList] at hwf
    have hz := hps _ rfl
    simp only [CanonList] at hz
    split at h
    · cases h
    · rename_i r hr
      split at h
      · cases h
      · rename_i rs' hrs
        injection h with h
        subst h
        simp only [CanonList]
        refine ⟨conv_canon t v (some p) r hwf.1 (fun q hq => by injection hq with hq; rw [← hq]; exact hz.1) hr, ?_⟩
        exact convTuple_canon ts vs (some ps) rs' hwf.2 (fun l hl => by injection hl with hl; rw [← hl]; exact hz.2) hrs
  | t :: ts, v :: vs, none, rs, hwf, hps, h => by
    simp only [convTuple] at h
    simp only [WFList] at hwf
    split at h
    · cases h
    · rename_i r hr
      split at h
      · cases h
      · rename_i rs' hrs
        injection h with h
        subst h
        simp only [CanonList]
        refine ⟨conv_canon t v none r hwf.1 (fun q hq => by cases hq) hr, ?_⟩
        exact convTuple_canon ts vs none rs' hwf.2 (fun l hl => by cases hl) hrs
theorem convMember_canon : ∀ (ms : List (String × DType F)) (k : String) (v r : PVal F),
    WFFields ms → convMember .validate ms k v = some (.ok r) → Canon r
  | [], k, v, r, _, h => by simp [convMember] at h
  | (k0, t) :: rest, k, v, r, hwf, h => by
    simp only [convMember] at h
    simp only [WFFields] at hwf
    split at h
    · injection h with h
      exact conv_canon t v none r hwf.1 (fun q hq => by cases hq) h
    · exact convMember_canon rest k v r hwf.2 h
end

end Frappy.Lemmas.C01
