import FrappyProofs.Lemmas.KlassProps
/- helper lemmas for C09: what the heap shows of a class is `pureViews` of its value and of what the classes along
its MRO show — hence a function of the class bodies (`viewsOf`) -/
namespace Frappy.Klass
open Frappy.Spec.C09

/-- the listed objects show the listed values, name by name -/
def Aligned {β : Type} (g : Ref → Option β) (refs : List (Name × Ref)) (vals : List (Name × β)) : Prop :=
  refs.map (fun nr => (nr.1, g nr.2)) = vals.map (fun kv => (kv.1, some kv.2))

theorem aligned_nil {β : Type} (g : Ref → Option β) : Aligned g [] [] := rfl

theorem aligned_append {β : Type} {g : Ref → Option β} {refs : List (Name × Ref)} {vals : List (Name × β)}
    (h : Aligned g refs vals) (k : Name) (r : Ref) (v : β) (hr : g r = some v) :
    Aligned g (refs ++ [(k, r)]) (vals ++ [(k, v)]) := by
  unfold Aligned at *
  simp only [List.map_append, List.map_cons, List.map_nil, h, hr]

theorem aligned_congr {β : Type} {g g' : Ref → Option β} {refs : List (Name × Ref)} {vals : List (Name × β)}
    (hg : ∀ nr ∈ refs, g' nr.2 = g nr.2) (h : Aligned g refs vals) : Aligned g' refs vals := by
  unfold Aligned at *
  rw [← h]
  exact List.map_congr_left (fun nr hnr => by rw [hg nr hnr])

theorem aligned_some {β : Type} {g : Ref → Option β} {refs : List (Name × Ref)} {vals : List (Name × β)}
    (h : Aligned g refs vals) {nr : Name × Ref} (hnr : nr ∈ refs) : ∃ v, g nr.2 = some v := by
  unfold Aligned at h
  have hm : (nr.1, g nr.2) ∈ refs.map (fun nr => (nr.1, g nr.2)) := List.mem_map.2 ⟨nr, hnr, rfl⟩
  rw [h] at hm
  obtain ⟨kv, _, hkv⟩ := List.mem_map.1 hm
  exact ⟨kv.2, (Prod.mk.inj hkv).2.symm⟩

theorem aligned_aget? {β : Type} {g : Ref → Option β} {refs : List (Name × Ref)} {vals : List (Name × β)}
    (h : Aligned g refs vals) (n : Name) : (aget? refs n).bind g = aget? vals n := by
  unfold Aligned at h
  induction refs generalizing vals with
  | nil =>
    cases vals with
    | nil => rfl
    | cons _ _ => simp at h
  | cons x refs ih =>
    cases vals with
    | nil => simp at h
    | cons y vals =>
      obtain ⟨k, r⟩ := x
      obtain ⟨k', v⟩ := y
      simp only [List.map_cons, List.cons.injEq, Prod.mk.injEq] at h
      obtain ⟨⟨hk, hv⟩, hrest⟩ := h
      subst hk
      simp only [aget?]
      split
      · simpa using hv
      · exact ih hrest

theorem aligned_aget?_map {β : Type} {g : Ref → Option β} {refs : List (Name × Ref)} {vals : List (Name × β)}
    (h : Aligned g refs vals) (n : Name) :
    (aget? refs n).map (fun r => (n, g r)) = (aget? vals n).map (fun v => (n, some v)) := by
  unfold Aligned at h
  induction refs generalizing vals with
  | nil =>
    cases vals with
    | nil => rfl
    | cons _ _ => simp at h
  | cons x refs ih =>
    cases vals with
    | nil => simp at h
    | cons y vals =>
      obtain ⟨k, r⟩ := x
      obtain ⟨k', v⟩ := y
      simp only [List.map_cons, List.cons.injEq, Prod.mk.injEq] at h
      obtain ⟨⟨hk, hv⟩, hrest⟩ := h
      subst hk
      simp only [aget?]
      split
      · simp [hv]
      · exact ih hrest

/-! ### pass 1: the declared datatype objects -/

def declTreesL (self : Name) (l : List (Name × EntryV)) : List (Name × DTree) :=
  l.filterMap (fun ke => match ke.2 with
    | .acc a => (a.declTree self).map (fun t => (ke.1, t))
    | _ => none)

theorem declTreesOf_eq (cv : ClassV) : declTreesOf cv = declTreesL cv.decl.name cv.dict := rfl

theorem dtAt_append_old {h : Heap} {r : Ref} (o : Obj) (hr : r < h.length) : Heap.dtAt (h ++ [o]) r = h.dtAt r := by
  unfold Heap.dtAt; rw [List.getElem?_append_left hr]

theorem declTreesL_cons (self : Name) (ke : Name × EntryV) (l : List (Name × EntryV)) :
    declTreesL self (ke :: l) = declTreesL self [ke] ++ declTreesL self l := by
  unfold declTreesL
  rw [← List.filterMap_append]
  rfl

theorem allocDecl_step (self : Name) (st : Heap × List (Name × Ref)) (vals : List (Name × DTree)) (ke : Name × EntryV)
    (h : Aligned st.1.dtAt st.2 vals) :
    Aligned (allocDecl self st ke).1.dtAt (allocDecl self st ke).2 (vals ++ declTreesL self [ke]) := by
  obtain ⟨k, e⟩ := ke
  cases e with
  | acc a =>
    cases ht : a.declTree self with
    | none =>
      simp only [allocDecl, declTreesL, ht, List.filterMap_cons, List.filterMap_nil, Option.map_none, List.append_nil]
      exact h
    | some t =>
      simp only [allocDecl, declTreesL, ht, List.filterMap_cons, List.filterMap_nil, Option.map_some, alloc_heap, alloc_ref]
      apply aligned_append (aligned_congr _ h)
      · unfold Heap.dtAt; simp
      · intro nr hnr
        obtain ⟨v, hv⟩ := aligned_some h hnr
        exact dtAt_append_old _ (dtAt_lt hv)
  | bare v c o =>
    simp only [allocDecl, declTreesL, List.filterMap_cons, List.filterMap_nil, List.append_nil]
    exact h
  | none =>
    simp only [allocDecl, declTreesL, List.filterMap_cons, List.filterMap_nil, List.append_nil]
    exact h
  | prop p =>
    simp only [allocDecl, declTreesL, List.filterMap_cons, List.filterMap_nil, List.append_nil]
    exact h

theorem allocDecl_aligned (self : Name) (l : List (Name × EntryV)) (st : Heap × List (Name × Ref))
    (vals : List (Name × DTree)) (h : Aligned st.1.dtAt st.2 vals) :
    Aligned (l.foldl (allocDecl self) st).1.dtAt (l.foldl (allocDecl self) st).2 (vals ++ declTreesL self l) := by
  induction l generalizing st vals with
  | nil => simpa [declTreesL] using h
  | cons ke l ih =>
    simp only [List.foldl_cons]
    rw [declTreesL_cons, ← List.append_assoc]
    exact ih _ _ (allocDecl_step self st vals ke h)

theorem layoutDecl_aligned (w : World) (cv : ClassV) :
    Aligned (layoutDecl w cv).1.dtAt (layoutDecl w cv).2 (declTreesOf cv) := by
  have := allocDecl_aligned cv.decl.name cv.dict ((layoutProp w cv).1, []) [] (aligned_nil _)
  rw [List.nil_append] at this
  exact this

/-! ### pass 2: the Parameter/Command objects of the `__dict__` -/

/-- the heap `h` shows `V` for the class record `cr` -/
structure HeapShows (h : Heap) (cr : ClassRec) (V : ClassViews) : Prop where
  decl : Aligned h.dtAt cr.declDt V.declTrees
  acc : Aligned (viewAt h) cr.accRef V.accViews
  accessibles : cr.accessibles.map (fun nr => (nr.1, viewAt h nr.2)) = V.accessibles

/-- `look` tells what the classes of `w'` show in the heap `h` -/
def LookOk (w' : World) (h : Heap) (look : Name → Option ClassViews) : Prop :=
  ∀ c, (∀ cr, w'.findClass c = some cr → ∃ V, look c = some V ∧ HeapShows h cr V) ∧
       (w'.findClass c = none → look c = none)

theorem treeAt_eq_bind (h : Heap) (o : Option Ref) : treeAt h o = o.bind h.dtAt := by
  cases o <;> rfl

theorem viewAt_congr' {h h' : Heap} {r : Ref} (e0 : h'[r]? = h[r]?)
    (e1 : ∀ a rd, h.accAt r = some a → a.dtype = some rd → h'[rd]? = h[rd]?) : viewAt h' r = viewAt h r := by
  unfold viewAt
  rw [accAt_congr e0]
  cases ha : h.accAt r with
  | none => rfl
  | some a =>
    simp only
    cases hd : a.dtype with
    | none => rfl
    | some rd => simp only [treeAt]; rw [dtAt_congr (e1 a rd ha hd)]

def accViewsL (look : Name → Option ClassViews) (self : Name) (own : List (Name × DTree)) (l : List (Name × EntryV)) :
    List (Name × AccView) :=
  l.filterMap (fun ke => match ke.2 with
    | .acc a => some (ke.1, ⟨a.isCmd, a.props, slotTreeV look self own a.dt⟩)
    | _ => none)

theorem accViewsOf_eq (look : Name → Option ClassViews) (cv : ClassV) (own : List (Name × DTree)) :
    accViewsOf look cv own = accViewsL look cv.decl.name own cv.dict := rfl

theorem accViewsL_cons (look : Name → Option ClassViews) (self : Name) (own : List (Name × DTree)) (ke : Name × EntryV)
    (l : List (Name × EntryV)) : accViewsL look self own (ke :: l) = accViewsL look self own [ke] ++ accViewsL look self own l := by
  unfold accViewsL
  rw [← List.filterMap_append]
  rfl

/-- the objects listed so far lie inside the heap, and so do their datatype objects -/
def OwnOk (st : Heap × List (Name × Ref)) : Prop :=
  ∀ nr ∈ st.2, nr.2 < st.1.length ∧ ∀ a rd, st.1.accAt nr.2 = some a → a.dtype = some rd → rd < st.1.length

/-- what does not change during pass 2 -/
structure Pass2Ctx (w w' : World) (cname : Name) (sd : List (Name × Ref)) (own : List (Name × DTree))
    (look : Name → Option ClassViews) (H0 : Heap) : Prop where
  ext0 : Extends w.heap H0
  hsd : Aligned H0.dtAt sd own
  hlook : LookOk w' w.heap look
  sub : ∀ c cr, w'.findClass c = some cr → w.findClass c = some cr
  bounded : Bounded w

/-- the tree a resolved declared datatype object shows in any heap extending the one pass 1 left -/
theorem resolveDt_tree {w w' : World} {self : Name} {sd : List (Name × Ref)} {own : List (Name × DTree)}
    {look : Name → Option ClassViews} {H0 : Heap} (ctx : Pass2Ctx w w' self sd own look H0) {H : Heap}
    (he : Extends H0 H) (c n : Name) (t : DTree) :
    treeAt H (resolveDt w' self sd (.decl c n)) = slotTreeV look self own (.set (.decl c n) t) ∧
    ∀ rd, resolveDt w' self sd (.decl c n) = some rd → rd < H.length := by
  simp only [resolveDt, slotTreeV, treeAt_eq_bind]
  split
  · -- declared in the new class itself
    have hal : Aligned H.dtAt sd own := aligned_congr (fun nr hnr => by
      obtain ⟨v, hv⟩ := aligned_some ctx.hsd hnr
      exact dtAt_congr (he.get (dtAt_lt hv))) ctx.hsd
    refine ⟨aligned_aget? hal n, ?_⟩
    intro rd hrd
    obtain ⟨v, hv⟩ := aligned_some ctx.hsd (aget?_mem hrd)
    exact Nat.lt_of_lt_of_le (dtAt_lt hv) he.len
  · cases hc : w'.findClass c with
    | none =>
      rw [(ctx.hlook c).2 hc]
      exact ⟨rfl, fun rd h => by simp at h⟩
    | some cr =>
      obtain ⟨V, hV, hs⟩ := (ctx.hlook c).1 cr hc
      rw [hV]
      simp only [Option.bind_some]
      have hal : Aligned H.dtAt cr.declDt V.declTrees := aligned_congr (fun nr hnr => by
        obtain ⟨v, hv⟩ := aligned_some hs.decl hnr
        exact dtAt_congr ((ctx.ext0.trans he).get (dtAt_lt hv))) hs.decl
      refine ⟨aligned_aget? hal n, ?_⟩
      intro rd hrd
      obtain ⟨v, hv⟩ := aligned_some hs.decl (aget?_mem hrd)
      exact Nat.lt_of_lt_of_le (dtAt_lt hv) (ctx.ext0.trans he).len

theorem allocSlot_tree {w w' : World} {self : Name} {sd : List (Name × Ref)} {own : List (Name × DTree)}
    {look : Name → Option ClassViews} {H0 : Heap} (ctx : Pass2Ctx w w' self sd own look H0) {h : Heap}
    (he : Extends H0 h) (s : DtSlot) :
    (∀ H, Extends (allocSlot w' self sd h s).1 H → treeAt H (allocSlot w' self sd h s).2 = slotTreeV look self own s) ∧
    ∀ rd, (allocSlot w' self sd h s).2 = some rd → rd < (allocSlot w' self sd h s).1.length := by
  cases s with
  | unset => exact ⟨fun H _ => rfl, fun rd hrd => by simp [allocSlot] at hrd⟩
  | cleared => exact ⟨fun H _ => rfl, fun rd hrd => by simp [allocSlot] at hrd⟩
  | set id t =>
    cases id with
    | copy c n =>
      simp only [allocSlot, slotTreeV]
      constructor
      · intro H heH
        have hlt : h.length < (h ++ [Obj.dt t]).length := by simp
        simp only [treeAt]
        rw [dtAt_congr (heH.get hlt)]
        unfold Heap.dtAt; simp
      · intro rd hrd
        cases hrd
        simp
    | decl c n =>
      simp only [allocSlot]
      constructor
      · intro H heH
        exact (resolveDt_tree ctx (he.trans heH) c n t).1
      · intro rd hrd
        exact (resolveDt_tree ctx he c n t).2 rd hrd

/-- invariant of pass 2 -/
structure P2Inv (H0 : Heap) (st : Heap × List (Name × Ref)) (vals : List (Name × AccView)) : Prop where
  ext : Extends H0 st.1
  al : Aligned (viewAt st.1) st.2 vals
  own : OwnOk st

theorem accAt_append_acc (h : Heap) (a : AccH) : Heap.accAt (h ++ [Obj.acc a]) h.length = some a := by
  unfold Heap.accAt; simp

theorem allocAcc_step {w w' : World} {self : Name} {sd : List (Name × Ref)} {own : List (Name × DTree)}
    {look : Name → Option ClassViews} {H0 : Heap} (ctx : Pass2Ctx w w' self sd own look H0)
    (st : Heap × List (Name × Ref)) (vals : List (Name × AccView)) (ke : Name × EntryV) (hi : P2Inv H0 st vals) :
    P2Inv H0 (allocAcc w' self sd st ke) (vals ++ accViewsL look self own [ke]) := by
  obtain ⟨k, e⟩ := ke
  cases e with
  | bare v c o =>
    simp only [allocAcc, accViewsL, List.filterMap_cons, List.filterMap_nil, List.append_nil]
    exact hi
  | none =>
    simp only [allocAcc, accViewsL, List.filterMap_cons, List.filterMap_nil, List.append_nil]
    exact hi
  | prop p =>
    simp only [allocAcc, accViewsL, List.filterMap_cons, List.filterMap_nil, List.append_nil]
    exact hi
  | acc a =>
    simp only [allocAcc, accViewsL, List.filterMap_cons, List.filterMap_nil]
    obtain ⟨htree, hbound⟩ := allocSlot_tree ctx hi.ext a.dt
    have he1 := extends_allocSlot w' self sd st.1 a.dt
    generalize hh1 : (allocSlot w' self sd st.1 a.dt).1 = h1 at htree hbound he1
    generalize hdr : (allocSlot w' self sd st.1 a.dt).2 = dref at htree hbound
    have he2 : Extends h1 (h1 ++ [Obj.acc (accObj w' self sd a dref)]) := ⟨_, rfl⟩
    have hlen : (h1 ++ [Obj.acc (accObj w' self sd a dref)]).length = h1.length + 1 := by simp
    have hold : ∀ nr ∈ st.2, viewAt (h1 ++ [Obj.acc (accObj w' self sd a dref)]) nr.2 = viewAt st.1 nr.2 := by
      intro nr hnr
      obtain ⟨h0, h1'⟩ := hi.own nr hnr
      exact viewAt_congr' ((he1.trans he2).get h0) (fun a' rd ha' hd => (he1.trans he2).get (h1' a' rd ha' hd))
    refine ⟨hi.ext.trans (he1.trans he2), ?_, ?_⟩
    · apply aligned_append (aligned_congr hold hi.al)
      rw [viewAt_new]
      have ht := htree _ he2
      simp only [accObj] at ht ⊢
      rw [ht]
    · intro nr hnr
      simp only [List.mem_append, List.mem_singleton] at hnr
      rcases hnr with hnr | rfl
      · obtain ⟨h0, h1'⟩ := hi.own nr hnr
        have hlt : nr.2 < h1.length := Nat.lt_of_lt_of_le h0 he1.len
        refine ⟨by rw [hlen]; exact Nat.lt_succ_of_lt hlt, ?_⟩
        intro a' rd ha' hd
        rw [accAt_congr ((he1.trans he2).get h0)] at ha'
        rw [hlen]
        exact Nat.lt_succ_of_lt (Nat.lt_of_lt_of_le (h1' a' rd ha' hd) he1.len)
      · refine ⟨by simp, ?_⟩
        intro a' rd ha' hd
        simp only at ha'
        rw [accAt_append_acc] at ha'
        cases ha'
        simp only [accObj] at hd
        rw [hlen]
        exact Nat.lt_succ_of_lt (hbound rd hd)

theorem allocAcc_foldl {w w' : World} {self : Name} {sd : List (Name × Ref)} {own : List (Name × DTree)}
    {look : Name → Option ClassViews} {H0 : Heap} (ctx : Pass2Ctx w w' self sd own look H0)
    (l : List (Name × EntryV)) (st : Heap × List (Name × Ref)) (vals : List (Name × AccView)) (hi : P2Inv H0 st vals) :
    P2Inv H0 (l.foldl (allocAcc w' self sd) st) (vals ++ accViewsL look self own l) := by
  induction l generalizing st vals with
  | nil => simpa [accViewsL] using hi
  | cons ke l ih =>
    simp only [List.foldl_cons]
    rw [accViewsL_cons, ← List.append_assoc]
    exact ih _ _ (allocAcc_step ctx st vals ke hi)

/-! ### what a class shows does not depend on cells outside its reach -/

theorem declDt_root {w : World} {c : Name} {cr : ClassRec} {nr : Name × Ref} (hc : w.findClass c = some cr)
    (h : nr ∈ cr.declDt) : nr.2 ∈ w.roots (.cls c) := by
  simp only [World.roots, hc, List.mem_append, List.mem_map]
  exact Or.inl (Or.inl (Or.inr ⟨nr, h, rfl⟩))

theorem accRef_root' {w : World} {c : Name} {cr : ClassRec} {nr : Name × Ref} (hc : w.findClass c = some cr)
    (h : nr ∈ cr.accRef) : nr.2 ∈ w.roots (.cls c) := by
  simp only [World.roots, hc, List.mem_append, List.mem_map]
  exact Or.inl (Or.inl (Or.inl (Or.inr ⟨nr, h, rfl⟩)))

theorem accessibles_root {w : World} {c : Name} {cr : ClassRec} {nr : Name × Ref} (hc : w.findClass c = some cr)
    (h : nr ∈ cr.accessibles) : nr.2 ∈ w.roots (.cls c) := by
  simp only [World.roots, hc, List.mem_append, List.mem_map]
  exact Or.inl (Or.inl (Or.inl (Or.inl ⟨nr, h, rfl⟩)))

theorem heapShows_congr {w : World} {c : Name} {cr : ClassRec} {V : ClassViews} {h' : Heap}
    (hc : w.findClass c = some cr) (hcells : ∀ x ∈ reach w (.cls c), h'[x]? = w.heap[x]?)
    (hs : HeapShows w.heap cr V) : HeapShows h' cr V := by
  refine ⟨aligned_congr ?_ hs.decl, aligned_congr ?_ hs.acc, ?_⟩
  · intro nr hnr
    exact dtAt_congr (hcells _ (root_reach (declDt_root hc hnr) (self_mem_reachAcc _ _)))
  · intro nr hnr
    exact viewAt_congr (fun x hx => hcells x (root_reach (accRef_root' hc hnr) hx))
  · rw [← hs.accessibles]
    apply List.map_congr_left
    intro nr hnr
    rw [viewAt_congr (fun x hx => hcells x (root_reach (accessibles_root hc hnr) hx))]

/-! ### the new class -/

theorem filterMap_congr' {α β : Type} {f g : α → Option β} {l : List α} (h : ∀ x ∈ l, f x = g x) :
    l.filterMap f = l.filterMap g := by
  induction l with
  | nil => rfl
  | cons x l ih =>
    simp only [List.filterMap_cons, h x List.mem_cons_self]
    rw [ih (fun y hy => h y (List.mem_cons_of_mem _ hy))]

theorem layout_shows (w : World) (cv : ClassV) (look : Name → Option ClassViews) (hb : Bounded w)
    (hlook : LookOk (w.restrictTo cv.decl.mro.tail) w.heap look) :
    HeapShows (layout w cv).heap (layoutRec w cv) (pureViews look cv) := by
  have he0 : Extends w.heap (layoutDecl w cv).1 :=
    (extends_layoutProp w cv).trans (extends_foldl _ (extends_allocDecl _) cv.dict ((layoutProp w cv).1, []))
  have ctx : Pass2Ctx w (w.restrictTo cv.decl.mro.tail) cv.decl.name (layoutDecl w cv).2 (declTreesOf cv) look
      (layoutDecl w cv).1 :=
    ⟨he0, layoutDecl_aligned w cv, hlook, fun c cr h => findClass_of_restrictTo h, hb⟩
  have p2 := allocAcc_foldl ctx cv.dict ((layoutDecl w cv).1, []) []
    ⟨Extends.refl _, aligned_nil _, fun nr hnr => by cases hnr⟩
  rw [List.nil_append, ← accViewsOf_eq] at p2
  have hH : (layout w cv).heap = (layoutAcc (w.restrictTo cv.decl.mro.tail) cv (layoutDecl w cv)).1 := rfl
  have hext : Extends w.heap (layout w cv).heap := extends_layout w cv
  -- what the classes along the MRO show in the new heap
  have hlookH : ∀ c cr, (w.restrictTo cv.decl.mro.tail).findClass c = some cr →
      ∃ V, look c = some V ∧ HeapShows (layout w cv).heap cr V := by
    intro c cr hc
    obtain ⟨V, hV, hs⟩ := (hlook c).1 cr hc
    exact ⟨V, hV, heapShows_congr (findClass_of_restrictTo hc) (fun x hx => hext.get (hb _ x hx)) hs⟩
  refine ⟨?_, ?_, ?_⟩
  · -- declared datatype objects
    show Aligned (layout w cv).heap.dtAt (layoutDecl w cv).2 (declTreesOf cv)
    refine aligned_congr (fun nr hnr => ?_) (layoutDecl_aligned w cv)
    obtain ⟨v, hv⟩ := aligned_some (layoutDecl_aligned w cv) hnr
    rw [hH]
    exact dtAt_congr (p2.ext.get (dtAt_lt hv))
  · exact p2.al
  · -- cls.accessibles
    show List.map (fun nr => (nr.1, viewAt (layout w cv).heap nr.2))
      (layoutAccessibles (w.restrictTo cv.decl.mro.tail) cv (layoutAcc (w.restrictTo cv.decl.mro.tail) cv (layoutDecl w cv)).2) =
      accessiblesViewsOf look cv (accViewsOf look cv (declTreesOf cv))
    have hal : Aligned (viewAt (layout w cv).heap) (layoutAcc (w.restrictTo cv.decl.mro.tail) cv (layoutDecl w cv)).2
        (accViewsOf look cv (declTreesOf cv)) := p2.al
    unfold layoutAccessibles accessiblesViewsOf
    split
    · rw [List.map_filterMap]
      apply filterMap_congr'
      intro ns _
      unfold accessibleRef accessibleViewV
      rw [Option.map_map]
      split
      · exact aligned_aget?_map hal ns.1
      · cases hc : (w.restrictTo cv.decl.mro.tail).findClass ns.2.owner with
        | none => rw [(hlook ns.2.owner).2 hc]; rfl
        | some cr =>
          obtain ⟨V, hV, hs⟩ := hlookH _ cr hc
          rw [hV]
          exact aligned_aget?_map hs.acc ns.1
    · unfold dictAccs dictAccsV
      rw [List.map_filterMap]
      apply filterMap_congr'
      intro ke _
      obtain ⟨k, e⟩ := ke
      cases e with
      | acc a =>
        simp only [Option.map_map]
        exact aligned_aget?_map hal k
      | bare v c o => rfl
      | none => rfl
      | prop p => rfl

/-! ### refinement to `viewsOf`: what a class shows is a function of the class bodies -/

/-- every class of the world shows in the heap what `viewsOf` says, from some fuel on -/
def VInv (T : Tables) (env : Name → Option ClassDecl) (w : World) : Prop :=
  ∀ c cr, w.findClass c = some cr → ∃ V, HeapShows w.heap cr V ∧ ∃ F, ∀ f, F ≤ f → viewsOf T env f c = some V

theorem viewsOf_none (T : Tables) (env : Name → Option ClassDecl) (f : Nat) (n : Name) (h : env n = none) :
    viewsOf T env f n = none := by
  cases f with
  | zero => rfl
  | succ f => simp [viewsOf, h]

/-- one fuel for all classes of a list -/
theorem fuel_for (T : Tables) (env : Name → Option ClassDecl) (w : World) (hinv : VInv T env w) (l : List Name) :
    ∃ F, ∀ c ∈ l, ∀ cr, w.findClass c = some cr →
      ∃ V, HeapShows w.heap cr V ∧ ∀ f, F ≤ f → viewsOf T env f c = some V := by
  induction l with
  | nil => exact ⟨0, fun c hc => by cases hc⟩
  | cons c l ih =>
    obtain ⟨F, hF⟩ := ih
    cases hc : w.findClass c with
    | none =>
      refine ⟨F, fun c' hc' cr' hcr' => ?_⟩
      simp only [List.mem_cons] at hc'
      rcases hc' with rfl | hc'
      · rw [hc] at hcr'; cases hcr'
      · exact hF c' hc' cr' hcr'
    | some cr =>
      obtain ⟨V, hs, Fc, hFc⟩ := hinv c cr hc
      refine ⟨max F Fc, fun c' hc' cr' hcr' => ?_⟩
      simp only [List.mem_cons] at hc'
      rcases hc' with rfl | hc'
      · rw [hc] at hcr'; cases hcr'
        exact ⟨V, hs, fun f hf => hFc f (Nat.le_trans (Nat.le_max_right _ _) hf)⟩
      · obtain ⟨V', hs', hV'⟩ := hF c' hc' cr' hcr'
        exact ⟨V', hs', fun f hf => hV' f (Nat.le_trans (Nat.le_max_left _ _) hf)⟩

/-- what the classes along the MRO show, read off `viewsOf` -/
def lookAt (T : Tables) (env : Name → Option ClassDecl) (l : List Name) (f : Nat) : Name → Option ClassViews :=
  fun c => if l.contains c then viewsOf T env f c else none

theorem lookAt_ok (T : Tables) (env : Name → Option ClassDecl) (w : World) (l : List Name) (F : Nat)
    (hF : ∀ c ∈ l, ∀ cr, w.findClass c = some cr →
      ∃ V, HeapShows w.heap cr V ∧ ∀ f, F ≤ f → viewsOf T env f c = some V)
    (hcons : ∀ m ∈ l, env m ≠ none → w.findClass m ≠ none) (f : Nat) (hf : F ≤ f) :
    LookOk (w.restrictTo l) w.heap (lookAt T env l f) ∧ lookAt T env l f = lookAt T env l F := by
  constructor
  · intro c
    constructor
    · intro cr hc
      rw [findClass_restrictTo] at hc
      split at hc
      · rename_i hin
        obtain ⟨V, hs, hV⟩ := hF c (by simpa using hin) cr hc
        exact ⟨V, by simp only [lookAt, hin, if_true]; exact hV f hf, hs⟩
      · cases hc
    · intro hnone
      rw [findClass_restrictTo] at hnone
      unfold lookAt
      split
      · rename_i hin
        simp only [hin, if_true] at hnone
        have henv : env c = none := by
          false_or_by_contra
          rename_i hne
          exact hcons c (by simpa using hin) hne hnone
        exact viewsOf_none T env f c henv
      · rfl
  · funext c
    unfold lookAt
    split
    · rename_i hin
      have hmem : c ∈ l := by simpa using hin
      cases hc : w.findClass c with
      | none =>
        have henv : env c = none := by
          false_or_by_contra
          rename_i hne
          exact hcons c hmem hne hc
        rw [viewsOf_none T env f c henv, viewsOf_none T env F c henv]
      | some cr =>
        obtain ⟨V, _, hV⟩ := hF c hmem cr hc
        rw [hV f hf, hV F (Nat.le_refl _)]
    · rfl

theorem vInv_transfer {T : Tables} {env : Name → Option ClassDecl} {w w' : World}
    (hcls : ∀ c, w'.findClass c = w.findClass c)
    (hcells : ∀ c x, x ∈ reach w (.cls c) → w'.heap[x]? = w.heap[x]?) (h : VInv T env w) : VInv T env w' := by
  intro c cr hfind
  rw [hcls] at hfind
  obtain ⟨V, hs, hF⟩ := h c cr hfind
  exact ⟨V, heapShows_congr hfind (hcells c) hs, hF⟩

theorem vInv_define (T : Tables) (env : Name → Option ClassDecl) (w : World) (d : ClassDecl)
    (hadm : w.findClass d.name = none) (hcons : Consistent env w (.define d)) (hb : Bounded w)
    (hp : PureInv T env w) (h : VInv T env w) : VInv T env (defineClass T w d) := by
  have hname : (pureDefine T (chainOf w d) d).decl.name = d.name := by rw [pureDefine_decl]
  have hmro : (pureDefine T (chainOf w d) d).decl.mro = d.mro := by rw [pureDefine_decl]
  obtain ⟨F1, hF1⟩ := fuel_for T env w h d.mro.tail
  obtain ⟨F2, hF2⟩ := chain_agrees T env w hp d.mro.tail hcons.2
  have hext := extends_layout w (pureDefine T (chainOf w d) d)
  intro c cr hfind
  by_cases hc : c = d.name
  · subst hc
    have hnew := findClass_layout_new w (pureDefine T (chainOf w d) d) (by rw [hname]; exact hadm)
    rw [hname] at hnew
    unfold defineClass at hfind
    rw [hnew] at hfind
    cases hfind
    have hl := lookAt_ok T env w d.mro.tail F1 hF1 hcons.2
    refine ⟨pureViews (lookAt T env d.mro.tail F1) (pureDefine T (chainOf w d) d), ?_, max F1 F2 + 1, ?_⟩
    · apply layout_shows w _ _ hb
      rw [hmro]
      exact (hl F1 (Nat.le_refl _)).1
    · intro f hf
      obtain ⟨g, rfl⟩ : ∃ g, f = g + 1 := ⟨f - 1, by omega⟩
      have hg1 : F1 ≤ g := by have := Nat.le_max_left F1 F2; omega
      have hg2 : F2 ≤ g := by have := Nat.le_max_right F1 F2; omega
      simp only [viewsOf, hcons.1, Option.map_some, hF2 g hg2]
      have hlook : (fun c => if d.mro.tail.contains c then viewsOf T env g c else none) = lookAt T env d.mro.tail F1 :=
        (hl g hg1).2
      rw [hlook]
      rfl
  · unfold defineClass at hfind
    rw [findClass_layout_ne w _ c (by rw [hname]; exact hc)] at hfind
    obtain ⟨V, hs, hF⟩ := h c cr hfind
    exact ⟨V, heapShows_congr hfind (fun x hx => hext.get (hb _ x hx)) hs, hF⟩

theorem vInv_step (T : Tables) (env : Name → Option ClassDecl) (w : World) (op : Op) (hadm : Admissible w op)
    (hcons : Consistent env w op) (hb : Bounded w) (hs : Separated w) (hp : PureInv T env w) (h : VInv T env w) :
    VInv T env (step T w op) := by
  cases op with
  | define d => exact vInv_define T env w d hadm hcons hb hp h
  | inst n c cfg =>
    exact vInv_transfer (w := w) (w' := step T w (.inst n c cfg)) (fun _ => rfl)
      (fun c' x hx => (extends_instantiate T w n c cfg).get (hb _ x hx)) h
  | setprop i p pa k v =>
    have hrec := (records_mutation T w (.setprop i p pa k v) (Or.inl ⟨i, p, pa, k, v, rfl⟩)).1
    exact vInv_transfer (w := w) (w' := step T w (.setprop i p pa k v)) (fun c' => by simp only [World.findClass, hrec])
      (fun c' x hx => class_cell_step T w _ hb hs c' x hx) h
  | addEnum i p m =>
    have hrec := (records_mutation T w (.addEnum i p m) (Or.inr ⟨i, p, m, rfl⟩)).1
    exact vInv_transfer (w := w) (w' := step T w (.addEnum i p m)) (fun c' => by simp only [World.findClass, hrec])
      (fun c' x hx => class_cell_step T w _ hb hs c' x hx) h

end Frappy.Klass
