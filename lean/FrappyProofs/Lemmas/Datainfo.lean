import FrappyModel.Datatypes.DatainfoWF
import FrappyModel.Datatypes.Import
import FrappyProofs.Lemmas.DatatypesLeaf
import FrappyProofs.Lemmas.DatatypesContainers
/-
C03 — helper lemmas: export / rebuild / copy of a datatype through its datainfo.
-/
set_option linter.unusedSectionVars false
set_option linter.unusedVariables false
set_option linter.unusedSimpArgs false
namespace Frappy.Lemmas.C03Datainfo
open FloatOps DType Frappy.Datatypes Frappy.DInfo
open Frappy.Lemmas.C01 (median3_inside same_refl notNaN_of_finite map_ok)
open PVal (toFloat? dictGet dictSet ofJVal)

variable {F : Type} [FloatOps F] [LawfulFloatOps F] [CompatLaws F]

/-! ## T2: the enum name and the client flag are not exported -/

mutual
theorem export_asClient (D : Consts F) : ∀ dt : DInfo F, exportDatatype D dt.asClient = exportDatatype D dt
  | .double mn mx ar rr u f => by simp only [asClient]
  | .int mn mx => by simp only [asClient]
  | .scaled s mn mx ar rr u f => by simp only [asClient]
  | .bool => by simp only [asClient]
  | .enum n ms => by simp only [asClient, exportDatatype]
  | .string a b u => by simp only [asClient]
  | .blob a b => by simp only [asClient]
  | .array e a b => by
    simp only [asClient, exportDatatype]
    rw [export_asClient D e]
  | .tuple es => by
    simp only [asClient, exportDatatype]
    rw [exportList_asClient D es]
  | .struct ms opt c => by
    simp only [asClient, exportDatatype]
    rw [exportFields_asClient D ms, asClientFields_names ms]
theorem exportList_asClient (D : Consts F) : ∀ es : List (DInfo F), exportList D (asClientList es) = exportList D es
  | [] => by simp only [asClientList]
  | t :: ts => by
    simp only [asClientList, exportList]
    rw [export_asClient D t, exportList_asClient D ts]
theorem exportFields_asClient (D : Consts F) : ∀ ms : List (String × DInfo F),
    exportFields D (asClientFields ms) = exportFields D ms
  | [] => by simp only [asClientFields]
  | (k, t) :: ts => by
    simp only [asClientFields, exportFields]
    rw [export_asClient D t, exportFields_asClient D ts]
theorem asClientFields_names : ∀ ms : List (String × DInfo F), (asClientFields ms).map (·.1) = ms.map (·.1)
  | [] => by simp only [asClientFields]
  | (k, t) :: ts => by
    simp only [asClientFields, List.map_cons]
    rw [asClientFields_names ts]
end

/-! ## T3: validation / import do not see the difference -/

theorem eraseList_length : ∀ es : List (DInfo F), (eraseList es).length = es.length
  | [] => by simp only [eraseList, List.length_nil]
  | t :: ts => by simp only [eraseList, List.length_cons, eraseList_length ts]

theorem asClientList_length : ∀ es : List (DInfo F), (asClientList es).length = es.length
  | [] => by simp only [asClientList, List.length_nil]
  | t :: ts => by simp only [asClientList, List.length_cons, asClientList_length ts]

theorem eraseFields_names : ∀ ms : List (String × DInfo F), (eraseFields ms).map (·.1) = ms.map (·.1)
  | [] => by simp only [eraseFields, List.map_nil]
  | (k, t) :: ts => by simp only [eraseFields, List.map_cons, eraseFields_names ts]

mutual
theorem conv_asClient : ∀ (dt : DInfo F) (v : PVal F) (prev : Option (PVal F)),
    conv .validate dt.asClient.erase v prev = conv .validate dt.erase v prev
  | .double mn mx ar rr u f, v, prev => by simp only [asClient]
  | .int mn mx, v, prev => by simp only [asClient]
  | .scaled s mn mx ar rr u f, v, prev => by simp only [asClient]
  | .bool, v, prev => by simp only [asClient]
  | .enum n ms, v, prev => by simp only [asClient, erase]
  | .string a b u, v, prev => by simp only [asClient]
  | .blob a b, v, prev => by simp only [asClient]
  | .array e a b, v, prev => by
    have h : conv .validate e.asClient.erase = conv .validate e.erase := by
      funext v p; exact conv_asClient e v p
    simp only [asClient, erase, conv, h]
  | .tuple es, v, prev => by
    have h : convTuple .validate (eraseList (asClientList es)) = convTuple .validate (eraseList es) := by
      funext vs ps; exact convTuple_asClient es vs ps
    simp only [asClient, erase, conv, h, eraseList_length, asClientList_length]
  | .struct ms opt c, v, prev => by
    have h : convMember .validate (eraseFields (asClientFields ms)) = convMember .validate (eraseFields ms) := by
      funext k v; exact convMember_asClient ms k v
    simp only [asClient, erase, conv, h, eraseFields_names, asClientFields_names, beq_self_eq_true, Bool.or_true]
theorem convTuple_asClient : ∀ (es : List (DInfo F)) (vs : List (PVal F)) (ps : Option (List (PVal F))),
    convTuple .validate (eraseList (asClientList es)) vs ps = convTuple .validate (eraseList es) vs ps
  | [], vs, ps => by simp only [asClientList]
  | t :: ts, [], ps => by simp only [asClientList, eraseList, convTuple]
  | t :: ts, v :: vs, some [] => by simp only [asClientList, eraseList, convTuple]
  | t :: ts, v :: vs, some (p :: ps) => by
    simp only [asClientList, eraseList, convTuple]
    rw [conv_asClient t v (some p), convTuple_asClient ts vs (some ps)]
  | t :: ts, v :: vs, none => by
    simp only [asClientList, eraseList, convTuple]
    rw [conv_asClient t v none, convTuple_asClient ts vs none]
theorem convMember_asClient : ∀ (ms : List (String × DInfo F)) (k : String) (v : PVal F),
    convMember .validate (eraseFields (asClientFields ms)) k v = convMember .validate (eraseFields ms) k v
  | [], k, v => by simp only [asClientFields]
  | (k0, t) :: rest, k, v => by
    simp only [asClientFields, eraseFields, convMember]
    rw [conv_asClient t v none, convMember_asClient rest k v]
end

theorem validate_asClient : ∀ (dt : DInfo F) (v : PVal F) (prev : Option (PVal F)),
    Datatypes.validate dt.asClient.erase v prev = Datatypes.validate dt.erase v prev :=
  fun dt v prev => conv_asClient dt v prev

mutual
theorem import_asClient : ∀ (dt : DInfo F) (j : JVal F),
    Datatypes.importValue dt.asClient.erase j = Datatypes.importValue dt.erase j
  | .double mn mx ar rr u f, j => by simp only [asClient]
  | .int mn mx, j => by simp only [asClient]
  | .scaled s mn mx ar rr u f, j => by simp only [asClient]
  | .bool, j => by simp only [asClient]
  | .enum n ms, j => by simp only [asClient, erase]
  | .string a b u, j => by simp only [asClient]
  | .blob a b, j => by simp only [asClient]
  | .array e a b, j => by
    have h : importValue e.asClient.erase = importValue e.erase := by
      funext j; exact import_asClient e j
    simp only [asClient, erase, importValue, h]
  | .tuple es, j => by
    have h : importTuple (eraseList (asClientList es)) = importTuple (eraseList es) := by
      funext js; exact importTuple_asClient es js
    simp only [asClient, erase, importValue, h, eraseList_length, asClientList_length]
  | .struct ms opt c, j => by
    have h : importMember (eraseFields (asClientFields ms)) = importMember (eraseFields ms) := by
      funext k j; exact importMember_asClient ms k j
    simp only [asClient, erase, importValue, h, eraseFields_names, asClientFields_names]
theorem importTuple_asClient : ∀ (es : List (DInfo F)) (js : List (JVal F)),
    importTuple (eraseList (asClientList es)) js = importTuple (eraseList es) js
  | [], js => by simp only [asClientList]
  | t :: ts, [] => by simp only [asClientList, eraseList, importTuple]
  | t :: ts, j :: js => by
    simp only [asClientList, eraseList, importTuple]
    rw [import_asClient t j, importTuple_asClient ts js]
theorem importMember_asClient : ∀ (ms : List (String × DInfo F)) (k : String) (j : JVal F),
    importMember (eraseFields (asClientFields ms)) k j = importMember (eraseFields ms) k j
  | [], k, j => by simp only [asClientFields]
  | (k0, t) :: rest, k, j => by
    simp only [asClientFields, eraseFields, importMember]
    rw [import_asClient t j, importMember_asClient rest k j]
end

/-! ## T1 / T4: rebuild through the datainfo, copy -/

/-- facts about the carrier that the rebuild of a `double` needs and that neither `LawfulFloatOps` nor
`CompatLaws` provide: the default limits `±sys.float_info.max` are canonical (`x + 0.0 = x`), so that a
limit that compares equal (`==`) to its default *is* the default -/
structure ConstsOK2 (F : Type) [FloatOps F] : Prop where
  neg_max_canon : addZero (neg (maxFinite : F)) = neg maxFinite
  max_canon : addZero (maxFinite : F) = maxFinite

/-! ### lookups in the exported object -/

theorem dictGet_append {α : Type} (a b : List (String × α)) (k : String) :
    dictGet (a ++ b) k = (dictGet a k).or (dictGet b k) := by
  induction a with
  | nil => simp [dictGet]
  | cons x xs ih =>
    obtain ⟨k', v⟩ := x
    simp only [List.cons_append, dictGet]
    split
    · simp
    · exact ih

theorem dictGet_optField {α : Type} (c : Bool) (k k' : String) (v : α) :
    dictGet (optField c k v) k' = if k = k' then (if c then some v else none) else none := by
  unfold optField
  cases c <;> simp [dictGet]

theorem dictGet_cons {α : Type} (k k' : String) (v : α) (r : List (String × α)) :
    dictGet ((k, v) :: r) k' = if k = k' then some v else dictGet r k' := by
  simp only [dictGet]

theorem dictGet_nil {α : Type} (k' : String) : dictGet ([] : List (String × α)) k' = none := by
  simp only [dictGet]

theorem dictGet_convFields (D : Consts F) : ∀ (fields : List (String × JVal F)) (k : String),
    dictGet (convFields D fields) k = (dictGet fields k).map (dconv D)
  | [], k => by simp only [convFields, dictGet, Option.map_none]
  | (k0, j) :: rest, k => by
    simp only [convFields, dictGet]
    split
    · simp only [Option.map_some]
    · exact dictGet_convFields D rest k

theorem getDatatype_obj (D : Consts F) (fields : List (String × JVal F)) (base : String)
    (h : dictGet fields "type" = some (.str base)) :
    getDatatype D (.obj fields) = buildNode D base fields (convFields D fields) := by
  simp only [getDatatype, dconv, h]

theorem subOf_members (D : Consts F) (fields : List (String × JVal F)) (j : JVal F)
    (h : dictGet fields "members" = some j) :
    subOf fields (convFields D fields) "members" = some (j, dconv D j) := by
  simp only [subOf, dictGet_convFields, h, Option.map_some]

theorem ok_bind {α β : Type} (a : α) (f : α → Except Err β) : (Except.ok a >>= f) = f a := rfl

/-! ### integers -/

theorem ofInt_ok {i : Int} (h1 : -intLimit ≤ i) (h2 : i ≤ intLimit) : ∃ y : F, ofInt i = some y :=
  LawfulFloatOps.ofInt_isSome i (by simpa [intLimit] using h1) (by simpa [intLimit] using h2)

theorem intValidate_self {lo hi i : Int} (h1 : lo ≤ i) (h2 : i ≤ hi) (h : ∃ y : F, ofInt i = some y) :
    intValidate (F := F) lo hi (.int i) = .ok i := by
  obtain ⟨y, hy⟩ := h
  simp [intValidate, intCall, hy, h1, h2]

theorem propNat_self {lo hi : Int} {n : Nat} (h1 : lo ≤ n) (h2 : (n : Int) ≤ hi)
    (h : ∃ y : F, ofInt (n : Int) = some y) : propNat (F := F) lo hi (.int n) = .ok n := by
  simp [propNat, intValidate_self h1 h2 h]

theorem ofInt_nat_ok {n : Nat} (h : (n : Int) ≤ intLimit) : ∃ y : F, ofInt (n : Int) = some y :=
  ofInt_ok (by unfold intLimit; omega) h

/-! ### the leaves without floats -/

theorem leaf_bool (D : Consts F) :
    ∃ j, exportDatatype D (.bool : DInfo F) = .ok j ∧ getDatatype D j = .ok .bool := by
  refine ⟨_, by rw [exportDatatype], ?_⟩
  rw [getDatatype_obj D _ "bool" (by simp [dictGet_cons])]
  simp [buildNode, dictGet_cons, dictGet_nil]

theorem leaf_int (D : Consts F) {mn mx : Int} (hwf : (DInfo.int mn mx : DInfo F).WF D) :
    ∃ j, exportDatatype D (.int mn mx : DInfo F) = .ok j ∧ getDatatype D j = .ok (.int mn mx) := by
  simp only [DInfo.WF, DType.WF] at hwf
  obtain ⟨h1, h2, h3⟩ := hwf
  refine ⟨_, by rw [exportDatatype], ?_⟩
  rw [getDatatype_obj D _ "int" (by simp [dictGet_cons])]
  have e1 := intValidate_self (F := F) (lo := -intLimit) (hi := intLimit) (i := mn) h2 (by omega) (ofInt_ok h2 (by omega))
  have e2 := intValidate_self (F := F) (lo := -intLimit) (hi := intLimit) (i := mx) (by omega) h3 (ofInt_ok (by omega) h3)
  simp [buildNode, mkInt, arg, orDefault, ofJVal, dictGet_cons, dictGet_nil, e1, e2, h1, ok_bind]

theorem leaf_string (D : Consts F) (hD : D.OK) {a b : Nat} {u : Bool}
    (hwf : (DInfo.string a b u : DInfo F).WF D) :
    ∃ j, exportDatatype D (.string a b u : DInfo F) = .ok j ∧ getDatatype D j = .ok (.string a b u) := by
  simp only [DInfo.WF] at hwf
  obtain ⟨h1, h2⟩ := hwf
  refine ⟨_, by rw [exportDatatype], ?_⟩
  rw [getDatatype_obj D _ "string" (by simp [dictGet_append, dictGet_optField, dictGet_cons])]
  have ea := propNat_self (F := F) (lo := 0) (hi := intLimit) (n := a) (by omega) (by omega) (ofInt_nat_ok (by omega))
  have eb := propNat_self (F := F) (lo := 0) (hi := intLimit) (n := b) (by omega) h2 (ofInt_nat_ok h2)
  have e0 : propNat (F := F) 0 intLimit (.int 0) = .ok 0 :=
    propNat_self (F := F) (lo := 0) (hi := intLimit) (n := 0) (by omega) (by unfold intLimit; omega)
      (ofInt_nat_ok (by unfold intLimit; omega))
  by_cases ha : a = 0 <;> by_cases hb : (b : Int) = intLimit <;> cases u <;>
    simp [buildNode, mkString, arg, ofJVal, dictGet_append, dictGet_optField, dictGet_cons, dictGet_nil,
      ea, eb, e0, ha, hb, h1, ok_bind, boolCall] <;> simp_all [ok_bind]

theorem leaf_blob (D : Consts F) (hD : D.OK) {a b : Nat}
    (hwf : (DInfo.blob a b : DInfo F).WF D) :
    ∃ j, exportDatatype D (.blob a b : DInfo F) = .ok j ∧ getDatatype D j = .ok (.blob a b) := by
  simp only [DInfo.WF] at hwf
  obtain ⟨h1, h2⟩ := hwf
  refine ⟨_, by rw [exportDatatype], ?_⟩
  rw [getDatatype_obj D _ "blob" (by simp [dictGet_append, dictGet_optField, dictGet_cons])]
  have ea := propNat_self (F := F) (lo := 0) (hi := 16777216) (n := a) (by omega) (by omega)
    (ofInt_nat_ok (by unfold intLimit; omega))
  have eb := propNat_self (F := F) (lo := 0) (hi := 16777216) (n := b) (by omega) (by omega)
    (ofInt_nat_ok (by unfold intLimit; omega))
  have e0 : propNat (F := F) 0 16777216 (.int 0) = .ok 0 :=
    propNat_self (F := F) (lo := 0) (hi := 16777216) (n := 0) (by omega) (by omega)
      (ofInt_nat_ok (by unfold intLimit; omega))
  by_cases ha : a = 0 <;>
    simp [buildNode, mkBlob, arg, ofJVal, dictGet_append, dictGet_optField, dictGet_cons, dictGet_nil,
      ea, eb, e0, ha, h1, ok_bind] <;> simp_all [ok_bind]

/-! ### enum -/

theorem nodupB_of_nodup {α : Type} [BEq α] [LawfulBEq α] : ∀ l : List α, l.Nodup → DType.nodupB l = true
  | [], _ => by simp only [DType.nodupB]
  | a :: l, h => by
    rw [List.nodup_cons] at h
    simp only [DType.nodupB, Bool.and_eq_true, Bool.not_eq_eq_eq_not, Bool.not_true]
    exact ⟨by simpa using h.1, nodupB_of_nodup l h.2⟩

theorem enumMembers_export : ∀ ms : List (String × Int),
    enumMembers (F := F) (ms.map (fun m => (m.1, JVal.int m.2))) = some ms
  | [] => by simp only [List.map_nil, enumMembers]
  | (k, v) :: rest => by
    simp only [List.map_cons, enumMembers, enumMembers_export rest, Option.map_some]

theorem sortedByValue_tail {m : String × Int} {ms : List (String × Int)} (h : sortedByValue (m :: ms)) :
    sortedByValue ms := by
  cases ms with
  | nil => simp only [sortedByValue]
  | cons x xs => exact h.2

theorem sortByValue_sorted : ∀ ms : List (String × Int), sortedByValue ms → sortByValue ms = ms
  | [], _ => by simp only [sortByValue]
  | m :: ms, h => by
    simp only [sortByValue]
    rw [sortByValue_sorted ms (sortedByValue_tail h)]
    cases ms with
    | nil => simp only [insertByValue]
    | cons x xs =>
      simp only [sortedByValue] at h
      simp only [insertByValue, h.1, if_true]

theorem leaf_enum (D : Consts F) {n : String} {ms : List (String × Int)}
    (hwf : (DInfo.enum n ms : DInfo F).WF D) :
    ∃ j, exportDatatype D (.enum n ms : DInfo F) = .ok j ∧ getDatatype D j = .ok (.enum "" ms) := by
  simp only [DInfo.WF, DType.WF] at hwf
  obtain ⟨⟨h1, h2, h3⟩, h4⟩ := hwf
  refine ⟨_, by rw [exportDatatype], ?_⟩
  rw [getDatatype_obj D _ "enum" (by simp [dictGet_cons])]
  have hne : ms.isEmpty = false := by
    unfold DType.namesOK at h1
    cases ms <;> simp_all
  simp [buildNode, mkEnum, dictGet_cons, dictGet_nil, enumMembers_export, hne,
    nodupB_of_nodup _ h2, nodupB_of_nodup _ h3, sortByValue_sorted ms h4]

/-! ### containers: one step -/

theorem array_step (D : Consts F) {j : JVal F} {e' : DInfo F} {a b : Nat}
    (hj : getDatatype D j = .ok e') (h1 : a ≤ b) (h2 : b ≤ 16777216) :
    getDatatype D (.obj [("type", .str "array"), ("minlen", .int a), ("maxlen", .int b), ("members", j)]) =
      .ok (.array e' a b) := by
  rw [getDatatype_obj D _ "array" (by simp [dictGet_cons])]
  have ea := propNat_self (F := F) (lo := 0) (hi := 16777216) (n := a) (by omega) (by omega)
    (ofInt_nat_ok (by unfold intLimit; omega))
  have eb := propNat_self (F := F) (lo := 0) (hi := 16777216) (n := b) (by omega) (by omega)
    (ofInt_nat_ok (by unfold intLimit; omega))
  unfold getDatatype at hj
  rw [buildNode, subOf_members D _ j (by simp [dictGet_cons])]
  simp [mkArray, arg, ofJVal, dictGet_cons, dictGet_nil, ea, eb, h1, ok_bind, hj]

theorem allOk_map_ok {α : Type} : ∀ l : List α, allOk (l.map Except.ok) = .ok l
  | [] => by simp only [List.map_nil, allOk]
  | a :: l => by simp only [List.map_cons, allOk, allOk_map_ok l]

theorem allOkFields_map_ok {α : Type} : ∀ l : List (String × α),
    allOkFields (l.map (fun kt => (kt.1, Except.ok kt.2))) = .ok l
  | [] => by simp only [List.map_nil, allOkFields]
  | (k, a) :: l => by simp only [List.map_cons, allOkFields, allOkFields_map_ok l]

theorem strItems_map : ∀ l : List String, strItems (F := F) (l.map JVal.str) = some l
  | [] => by simp only [List.map_nil, strItems]
  | a :: l => by simp only [List.map_cons, strItems, strItems_map l, Option.map_some]

theorem tuple_step (D : Consts F) {js : List (JVal F)} {es' : List (DInfo F)}
    (hjs : (convList D js).map (·.self) = es'.map Except.ok) (hne : es' ≠ []) :
    getDatatype D (.obj [("type", .str "tuple"), ("members", .arr js)]) = .ok (.tuple es') := by
  rw [getDatatype_obj D _ "tuple" (by simp [dictGet_cons])]
  rw [buildNode, subOf_members D _ (.arr js) (by simp [dictGet_cons])]
  have hitems : (dconv D (.arr js)).items = es'.map Except.ok := by simp only [dconv, hjs]
  cases es' with
  | nil => exact absurd rfl hne
  | cons t ts =>
    have := allOk_map_ok (t :: ts)
    simp only [List.map_cons] at this
    simp [mkTuple, dictGet_cons, dictGet_nil, hitems, this]

theorem struct_step (D : Consts F) {js : List (String × JVal F)} {ms' : List (String × DInfo F)}
    {opt : List String} {differs : Bool}
    (hjs : (convFields D js).map (fun kc => (kc.1, kc.2.self)) = ms'.map (fun kt => (kt.1, Except.ok kt.2)))
    (hne : ms' ≠ []) (hsame : differs = false → opt = ms'.map (·.1)) (hopt : ∀ k ∈ opt, k ∈ ms'.map (·.1)) :
    getDatatype D (.obj ([("type", .str "struct"), ("members", .obj js)] ++
        optField differs "optional" (.arr (opt.map .str)))) = .ok (.struct ms' opt true) := by
  rw [getDatatype_obj D _ "struct" (by simp [dictGet_cons])]
  rw [buildNode, subOf_members D _ (.obj js) (by simp [dictGet_cons])]
  have hfields : (dconv D (.obj js)).fields = ms'.map (fun kt => (kt.1, Except.ok kt.2)) := by
    simp only [dconv, hjs]
  cases ms' with
  | nil => exact absurd rfl hne
  | cons t ts =>
    have := allOkFields_map_ok (t :: ts)
    simp only [List.map_cons] at this
    cases differs with
    | false =>
      have ho := hsame rfl
      simp [mkStruct, dictGet_cons, dictGet_nil, dictGet_optField, hfields, this, ho]
    | true =>
      have hall : opt.all (List.map (fun x => x.fst) (t :: ts)).contains = true := by
        rw [List.all_eq_true]
        intro k hk
        simpa using hopt k hk
      simp [mkStruct, dictGet_cons, dictGet_nil, dictGet_optField, hfields, this, strItems_map]
      rw [if_pos hall]

/-! ### the induction, relative to the two float leaves -/

/-- a `double` leaf is rebuilt from its datainfo -/
def DoubleLeafOK (D : Consts F) : Prop :=
  ∀ (mn mx ar rr : F) (u f : String), (DInfo.double mn mx ar rr u f).WF D →
    ∃ j, exportDatatype D (.double mn mx ar rr u f) = .ok j ∧ getDatatype D j = .ok (.double mn mx ar rr u f)

/-- a grid-aligned `scaled` leaf is rebuilt from its datainfo -/
def ScaledLeafOK (D : Consts F) : Prop :=
  ∀ (s mn mx ar rr : F) (u f : String), (DInfo.scaled s mn mx ar rr u f).WF D →
    (DInfo.scaled s mn mx ar rr u f).Exportable →
    ∃ j, exportDatatype D (.scaled s mn mx ar rr u f) = .ok j ∧ getDatatype D j = .ok (.scaled s mn mx ar rr u f)

theorem asClientList_ne_nil {es : List (DInfo F)} (h : es ≠ []) : asClientList es ≠ [] := by
  cases es with
  | nil => exact absurd rfl h
  | cons t ts => simp [asClientList]

theorem asClientFields_ne_nil {ms : List (String × DInfo F)} (h : ms ≠ []) : asClientFields ms ≠ [] := by
  cases ms with
  | nil => exact absurd rfl h
  | cons t ts => obtain ⟨k, t⟩ := t; simp [asClientFields]

mutual
theorem rebuild_gen (D : Consts F) (hD : D.OK) (hdbl : DoubleLeafOK D) (hsc : ScaledLeafOK D) :
    ∀ dt : DInfo F, dt.WF D → dt.Exportable → dt.OptionalInOrder →
      ∃ j, exportDatatype D dt = .ok j ∧ getDatatype D j = .ok dt.asClient
  | .double mn mx ar rr u f, hwf, _, _ => by simpa only [asClient] using hdbl mn mx ar rr u f hwf
  | .int mn mx, hwf, _, _ => by simpa only [asClient] using leaf_int D hwf
  | .scaled s mn mx ar rr u f, hwf, hex, _ => by simpa only [asClient] using hsc s mn mx ar rr u f hwf hex
  | .bool, _, _, _ => by simpa only [asClient] using leaf_bool D
  | .enum n ms, hwf, _, _ => by simpa only [asClient] using leaf_enum D hwf
  | .string a b u, hwf, _, _ => by simpa only [asClient] using leaf_string D hD hwf
  | .blob a b, hwf, _, _ => by simpa only [asClient] using leaf_blob D hD hwf
  | .array e a b, hwf, hex, hoo => by
    simp only [DInfo.WF] at hwf
    simp only [Exportable] at hex
    simp only [OptionalInOrder] at hoo
    obtain ⟨j, hj1, hj2⟩ := rebuild_gen D hD hdbl hsc e hwf.1 hex hoo
    refine ⟨_, by rw [exportDatatype, hj1], ?_⟩
    simp only [asClient]
    exact array_step D hj2 hwf.2.1 hwf.2.2
  | .tuple es, hwf, hex, hoo => by
    simp only [DInfo.WF] at hwf
    simp only [Exportable] at hex
    simp only [OptionalInOrder] at hoo
    obtain ⟨js, hj1, hj2⟩ := rebuild_list D hD hdbl hsc es hwf.2 hex hoo
    refine ⟨_, by rw [exportDatatype, hj1], ?_⟩
    simp only [asClient]
    exact tuple_step D hj2 (asClientList_ne_nil hwf.1)
  | .struct ms opt c, hwf, hex, hoo => by
    simp only [DInfo.WF] at hwf
    simp only [Exportable] at hex
    simp only [OptionalInOrder] at hoo
    obtain ⟨js, hj1, hj2⟩ := rebuild_fields D hD hdbl hsc ms hwf.2.2.2 hex hoo.2
    refine ⟨_, by rw [exportDatatype, hj1], ?_⟩
    simp only [asClient]
    exact struct_step D hj2 (asClientFields_ne_nil hwf.1)
      (by rw [asClientFields_names]; exact hoo.1) (by rw [asClientFields_names]; exact hwf.2.2.1)
theorem rebuild_list (D : Consts F) (hD : D.OK) (hdbl : DoubleLeafOK D) (hsc : ScaledLeafOK D) :
    ∀ es : List (DInfo F), WFList D es → ExportableList es → OptionalInOrderList es →
      ∃ js, exportList D es = .ok js ∧ (convList D js).map (·.self) = (asClientList es).map Except.ok
  | [], _, _, _ => ⟨[], by rw [exportList], by simp only [convList, asClientList, List.map_nil]⟩
  | t :: ts, hwf, hex, hoo => by
    simp only [DInfo.WFList] at hwf
    simp only [ExportableList] at hex
    simp only [OptionalInOrderList] at hoo
    obtain ⟨j, hj1, hj2⟩ := rebuild_gen D hD hdbl hsc t hwf.1 hex.1 hoo.1
    obtain ⟨js, hjs1, hjs2⟩ := rebuild_list D hD hdbl hsc ts hwf.2 hex.2 hoo.2
    refine ⟨j :: js, by rw [exportList, hj1, hjs1], ?_⟩
    unfold getDatatype at hj2
    simp only [convList, asClientList, List.map_cons, hj2, hjs2]
theorem rebuild_fields (D : Consts F) (hD : D.OK) (hdbl : DoubleLeafOK D) (hsc : ScaledLeafOK D) :
    ∀ ms : List (String × DInfo F), WFFields D ms → ExportableFields ms → OptionalInOrderFields ms →
      ∃ js, exportFields D ms = .ok js ∧
        (convFields D js).map (fun kc => (kc.1, kc.2.self)) = (asClientFields ms).map (fun kt => (kt.1, Except.ok kt.2))
  | [], _, _, _ => ⟨[], by rw [exportFields], by simp only [convFields, asClientFields, List.map_nil]⟩
  | (k, t) :: ts, hwf, hex, hoo => by
    simp only [DInfo.WFFields] at hwf
    simp only [ExportableFields] at hex
    simp only [OptionalInOrderFields] at hoo
    obtain ⟨j, hj1, hj2⟩ := rebuild_gen D hD hdbl hsc t hwf.1 hex.1 hoo.1
    obtain ⟨js, hjs1, hjs2⟩ := rebuild_fields D hD hdbl hsc ts hwf.2 hex.2 hoo.2
    refine ⟨(k, j) :: js, by rw [exportFields, hj1, hjs1], ?_⟩
    unfold getDatatype at hj2
    simp only [convFields, asClientFields, List.map_cons, hj2, hjs2]
end

theorem viaDatainfo_of (D : Consts F) {t t' : DInfo F}
    (h : ∃ j, exportDatatype D t = .ok j ∧ getDatatype D j = .ok t') : viaDatainfo D t = .ok t' := by
  obtain ⟨j, h1, h2⟩ := h
  simp only [viaDatainfo, h1, h2]

mutual
theorem copy_gen (D : Consts F) (hD : D.OK) (hdbl : DoubleLeafOK D) (hsc : ScaledLeafOK D) :
    ∀ dt : DInfo F, dt.WF D → dt.Exportable → copy D dt = .ok dt
  | .double mn mx ar rr u f, hwf, _ => by rw [copy]; exact viaDatainfo_of D (hdbl mn mx ar rr u f hwf)
  | .int mn mx, hwf, _ => by rw [copy]; exact viaDatainfo_of D (leaf_int D hwf)
  | .scaled s mn mx ar rr u f, hwf, hex => by rw [copy]; exact viaDatainfo_of D (hsc s mn mx ar rr u f hwf hex)
  | .bool, _, _ => by rw [copy]; exact viaDatainfo_of D (leaf_bool D)
  | .enum n ms, _, _ => by rw [copy]
  | .string a b u, hwf, _ => by rw [copy]; exact viaDatainfo_of D (leaf_string D hD hwf)
  | .blob a b, hwf, _ => by rw [copy]; exact viaDatainfo_of D (leaf_blob D hD hwf)
  | .array e a b, hwf, hex => by
    simp only [DInfo.WF] at hwf
    simp only [Exportable] at hex
    rw [copy, copy_gen D hD hdbl hsc e hwf.1 hex]
  | .tuple es, hwf, hex => by
    simp only [DInfo.WF] at hwf
    simp only [Exportable] at hex
    rw [copy, copyList_gen D hD hdbl hsc es hwf.2 hex]
  | .struct ms opt c, hwf, hex => by
    simp only [DInfo.WF] at hwf
    simp only [Exportable] at hex
    rw [copy, copyFields_gen D hD hdbl hsc ms hwf.2.2.2 hex]
theorem copyList_gen (D : Consts F) (hD : D.OK) (hdbl : DoubleLeafOK D) (hsc : ScaledLeafOK D) :
    ∀ es : List (DInfo F), WFList D es → ExportableList es → copyList D es = .ok es
  | [], _, _ => by rw [copyList]
  | t :: ts, hwf, hex => by
    simp only [DInfo.WFList] at hwf
    simp only [ExportableList] at hex
    rw [copyList, copy_gen D hD hdbl hsc t hwf.1 hex.1, copyList_gen D hD hdbl hsc ts hwf.2 hex.2]
theorem copyFields_gen (D : Consts F) (hD : D.OK) (hdbl : DoubleLeafOK D) (hsc : ScaledLeafOK D) :
    ∀ ms : List (String × DInfo F), WFFields D ms → ExportableFields ms → copyFields D ms = .ok ms
  | [], _, _ => by rw [copyFields]
  | (k, t) :: ts, hwf, hex => by
    simp only [DInfo.WFFields] at hwf
    simp only [ExportableFields] at hex
    rw [copyFields, copy_gen D hD hdbl hsc t hwf.1 hex.1, copyFields_gen D hD hdbl hsc ts hwf.2 hex.2]
end

/-! ### float properties -/

theorem zero_finite (D : Consts F) (hD : D.OK) : isFinite D.zero = true :=
  CompatLaws.ofInt_finite 0 D.zero (by decide) (by decide) hD.zero_eq

theorem zero_nonneg (D : Consts F) (hD : D.OK) : DType.nonneg D.zero = true := by
  unfold DType.nonneg isNonneg
  rw [hD.zero_eq]
  exact LawfulFloatOps.le_refl _ (notNaN_of_finite (zero_finite D hD))

theorem le_zero_of_nonneg (D : Consts F) (hD : D.OK) {x : F} (h : DType.nonneg x = true) : le D.zero x = true := by
  unfold DType.nonneg isNonneg at h
  rw [hD.zero_eq] at h
  exact h

theorem max_finite : isFinite (maxFinite : F) = true :=
  CompatLaws.bounds_finite _ LawfulFloatOps.neg_max_le_max (LawfulFloatOps.le_refl _ LawfulFloatOps.maxFinite_notNaN)

theorem neg_max_finite : isFinite (neg (maxFinite : F)) = true :=
  CompatLaws.bounds_finite _ (LawfulFloatOps.le_refl _ LawfulFloatOps.neg_maxFinite_notNaN) LawfulFloatOps.neg_max_le_max

/-- a property value inside the limits of its `FloatRange` is returned unchanged -/
theorem propDouble_of (D : Consts F) (hD : D.OK) {lo hi x : F} {v : PVal F} (hv : toFloat? v = some x)
    (hx : isFinite x = true) (hlo : isFinite lo = true) (hhi : isFinite hi = true)
    (h1 : le lo x = true) (h2 : le x hi = true) : propDouble D lo hi v = .ok x := by
  have hb := CompatLaws.finite_bounds x hx
  have hn := notNaN_of_finite hx
  have ht := CompatLaws.tol_nonneg D.relRes D.zero x hD.relRes_finite hD.relRes_nonneg (zero_finite D hD)
    (zero_nonneg D hD) hx
  have hc : doubleCall v = .ok x := by
    simp [doubleCall, hv, hn, median3_inside hb.1 hb.2]
  have l1 : le (sub lo (tolerance D.relRes D.zero x)) x = true :=
    LawfulFloatOps.sub_le lo x _ hlo h1 ht.2
  have l2 : le x (add hi (tolerance D.relRes D.zero x)) = true :=
    LawfulFloatOps.le_add x hi _ hhi h2 ht.2
  simp [propDouble, doubleValidate, hc, l1, l2, median3_inside h1 h2]

theorem propDouble_self (D : Consts F) (hD : D.OK) {lo hi x : F} (hc : addZero x = x)
    (hx : isFinite x = true) (hlo : isFinite lo = true) (hhi : isFinite hi = true)
    (h1 : le lo x = true) (h2 : le x hi = true) : propDouble D lo hi (.float x) = .ok x :=
  propDouble_of D hD (by simp only [toFloat?, hc]) hx hlo hhi h1 h2

theorem propStr_self {utf8 : Bool} {s : String} (h : DInfo.strOK utf8 s) : propStr (F := F) utf8 (.str s) = .ok s := by
  obtain ⟨h1, h2, h3⟩ := h
  have hlen : ¬ s.length > intLimit.toNat := by unfold intLimit at h3 ⊢; omega
  cases utf8 with
  | false => simp [propStr, stringCall, h1 rfl, h2, hlen]
  | true => simp [propStr, stringCall, h2, hlen]

theorem kwStr_step {utf8 : Bool} {s d : String} (h : DInfo.strOK utf8 s) :
    kwProp (F := F) (if s = d then none else some (.str s)) d (propStr utf8) = .ok s := by
  by_cases hs : s = d
  · simp [kwProp, hs]
  · simp [kwProp, hs, propStr_self h]

/-- a resolution given only when it differs from its default -/
theorem kwRes_step (D : Consts F) (hD : D.OK) {x d : F} (hd : addZero d = d) (hc : addZero x = x)
    (hx : isFinite x = true) (hn : DType.nonneg x = true) :
    kwProp (if feq x d then none else some (.float x)) d (propDouble D D.zero maxFinite) = .ok x := by
  cases hf : feq x d with
  | true =>
    have := CompatLaws.feq_canon x d hf hc hd
    simp [kwProp, this]
  | false =>
    simp only [Bool.false_eq_true, if_false, kwProp]
    exact propDouble_self D hD hc hx (zero_finite D hD) max_finite (le_zero_of_nonneg D hD hn)
      (CompatLaws.finite_bounds x hx).2

/-- a limit given only when it differs from its default `d = ±max` -/
theorem limit_step (D : Consts F) (hD : D.OK) {x d : F} (hd : addZero d = d) (hdf : isFinite d = true)
    (hc : addZero x = x) (hx : isFinite x = true) :
    propDouble D (neg maxFinite) maxFinite (orDefault (if feq x d then none else some (.float x)) (.float d)) = .ok x := by
  cases hf : feq x d with
  | true =>
    have := CompatLaws.feq_canon x d hf hc hd
    simp only [if_true, orDefault, this]
    exact propDouble_self D hD hd hdf neg_max_finite max_finite (CompatLaws.finite_bounds d hdf).1
      (CompatLaws.finite_bounds d hdf).2
  | false =>
    simp only [Bool.false_eq_true, if_false, orDefault]
    exact propDouble_self D hD hc hx neg_max_finite max_finite (CompatLaws.finite_bounds x hx).1
      (CompatLaws.finite_bounds x hx).2

theorem mkDouble_of_args (D : Consts F) (hD : D.OK) (hC : ConstsOK2 F) {fields : List (String × JVal F)}
    {mn mx ar rr : F} {u f : String} (hwf : (DInfo.double mn mx ar rr u f).WF D)
    (h1 : arg fields "min" = if feq mn (neg maxFinite) then none else some (.float mn))
    (h2 : arg fields "max" = if feq mx maxFinite then none else some (.float mx))
    (h3 : arg fields "unit" = if u = "" then none else some (.str u))
    (h4 : arg fields "fmtstr" = if f = "%g" then none else some (.str f))
    (h5 : arg fields "absolute_resolution" = if feq ar D.zero then none else some (.float ar))
    (h6 : arg fields "relative_resolution" = if feq rr D.relRes then none else some (.float rr)) :
    mkDouble D fields = .ok (.double mn mx ar rr u f) := by
  simp only [DInfo.WF, DType.WF] at hwf
  obtain ⟨⟨fmn, fmx, hle, _, _, cmn, cmx, far, nar, frr, nrr⟩, car, crr, su, sf, hfmt⟩ := hwf
  have s1 := limit_step D hD hC.neg_max_canon neg_max_finite cmn fmn
  have s2 := limit_step D hD hC.max_canon max_finite cmx fmx
  have s3 := kwStr_step (F := F) (d := "") su
  have s4 := kwStr_step (F := F) (d := "%g") sf
  have s5 := kwRes_step D hD hD.zero_canon car far nar
  have s6 := kwRes_step D hD hD.relRes_canon crr frr nrr
  simp [mkDouble, h1, h2, h3, h4, h5, h6, s1, s2, s3, s4, s5, s6, ok_bind, hle, hfmt]

theorem leaf_double (D : Consts F) (hD : D.OK) (hC : ConstsOK2 F) : DoubleLeafOK D := by
  intro mn mx ar rr u f hwf
  refine ⟨_, by rw [exportDatatype], ?_⟩
  rw [getDatatype_obj D _ "double" (by simp [dictGet_append, dictGet_optField, dictGet_cons])]
  have hmk := mkDouble_of_args D hD hC (fields :=
      optField (u != "") "unit" (.str u) ++
      optField (!feq mn (neg maxFinite)) "min" (.num mn) ++
      optField (!feq mx maxFinite) "max" (.num mx) ++
      optField (f != "%g") "fmtstr" (.str f) ++
      optField (!feq ar D.zero) "absolute_resolution" (.num ar) ++
      optField (!feq rr D.relRes) "relative_resolution" (.num rr) ++
      [("type", .str "double")]) hwf
    (by cases feq mn (neg maxFinite) <;> simp [arg, ofJVal, dictGet_append, dictGet_optField, dictGet_cons, dictGet_nil])
    (by cases feq mx maxFinite <;> simp [arg, ofJVal, dictGet_append, dictGet_optField, dictGet_cons, dictGet_nil])
    (by by_cases h : u = "" <;> simp [arg, ofJVal, dictGet_append, dictGet_optField, dictGet_cons, dictGet_nil, h])
    (by by_cases h : f = "%g" <;> simp [arg, ofJVal, dictGet_append, dictGet_optField, dictGet_cons, dictGet_nil, h])
    (by cases feq ar D.zero <;> simp [arg, ofJVal, dictGet_append, dictGet_optField, dictGet_cons, dictGet_nil])
    (by cases feq rr D.relRes <;> simp [arg, ofJVal, dictGet_append, dictGet_optField, dictGet_cons, dictGet_nil])
  simp only [List.append_assoc] at hmk
  simp [buildNode, dictGet_append, dictGet_optField, dictGet_cons, dictGet_nil, hmk]

/-! ### scaled -/

theorem aligned_iff {s x : F} (h : DInfo.Aligned s x) :
    ∃ k y, DType.gridIndex s x = some k ∧ ofInt k = some y ∧ mul y s = x := by
  unfold DInfo.Aligned DType.snap at h
  split at h
  · rename_i k hk
    unfold DType.ofGrid at h
    split at h
    · rename_i y hy
      injection h with h
      exact ⟨k, y, hk, hy, h⟩
    · cases h
  · cases h

theorem le_zero_of_positive (D : Consts F) (hD : D.OK) {s : F} (h : DType.positive s = true) : le D.zero s = true := by
  unfold DType.positive at h
  rw [hD.zero_eq] at h
  obtain ⟨n1, n2⟩ := CompatLaws.lt_notNaN _ _ h
  have := (LawfulFloatOps.lt_iff D.zero s n1 n2).1 h
  exact Frappy.Lemmas.C01.le_of_not_le n2 n1 this

theorem dictGet_scaledAbsRes_ne (D : Consts F) (s ar : F) (k : String) (h : k ≠ "absolute_resolution") :
    dictGet (scaledAbsResField D s ar) k = none := by
  have h' : ¬ "absolute_resolution" = k := fun e => h e.symm
  unfold scaledAbsResField
  split
  · simp [dictGet, h']
  · split
    · simp [dictGet]
    · simp [dictGet, h']

theorem dictGet_scaledAbsRes_eq (D : Consts F) (s ar : F) :
    dictGet (scaledAbsResField D s ar) "absolute_resolution" =
      if feq ar D.zero then some (.int 0) else if feq ar s then none else some (.num ar) := by
  unfold scaledAbsResField
  split
  · simp [dictGet]
  · split
    · simp [dictGet]
    · simp [dictGet]

theorem scaledAbsRes_step (D : Consts F) (hD : D.OK) {s ar : F} (hs : addZero s = s) (hsf : isFinite s = true)
    (hsp : DType.positive s = true) (hc : addZero ar = ar) (hx : isFinite ar = true) (hn : DType.nonneg ar = true) :
    propDouble D D.zero maxFinite
      (orDefault (if feq ar D.zero then some (.int 0) else if feq ar s then none else some (.float ar)) (.float s)) =
      .ok ar := by
  have zf := zero_finite D hD
  cases h0 : feq ar D.zero with
  | true =>
    have := CompatLaws.feq_canon ar D.zero h0 hc hD.zero_canon
    simp only [if_true, orDefault, this]
    exact propDouble_of D hD (by simp only [toFloat?, hD.zero_eq]) zf zf max_finite
      (LawfulFloatOps.le_refl _ (notNaN_of_finite zf)) (CompatLaws.finite_bounds _ zf).2
  | false =>
    cases h1 : feq ar s with
    | true =>
      have := CompatLaws.feq_canon ar s h1 hc hs
      simp only [Bool.false_eq_true, if_false, if_true, orDefault, this]
      exact propDouble_self D hD hs hsf zf max_finite (le_zero_of_positive D hD hsp) (CompatLaws.finite_bounds _ hsf).2
    | false =>
      simp only [Bool.false_eq_true, if_false, orDefault]
      exact propDouble_self D hD hc hx zf max_finite (le_zero_of_nonneg D hD hn) (CompatLaws.finite_bounds _ hx).2

theorem mkScaled_of_args (D : Consts F) (hD : D.OK) {fields : List (String × JVal F)}
    {s mn mx ar rr : F} {u f : String} {kmin kmax : Int} {ymin ymax : F}
    (hwf : (DInfo.scaled s mn mx ar rr u f).WF D)
    (hkmin : ofInt kmin = some ymin) (hmn : mul ymin s = mn) (hkmax : ofInt kmax = some ymax) (hmx : mul ymax s = mx)
    (h0 : arg fields "scale" = some (.float s))
    (h1 : arg fields "min" = some (.int kmin))
    (h2 : arg fields "max" = some (.int kmax))
    (h3 : arg fields "unit" = if u = "" then none else some (.str u))
    (h4 : arg fields "fmtstr" = if f = "%g" then none else some (.str f))
    (h5 : arg fields "absolute_resolution" =
      if feq ar D.zero then some (.int 0) else if feq ar s then none else some (.float ar))
    (h6 : arg fields "relative_resolution" = if feq rr D.relRes then none else some (.float rr)) :
    mkScaled D fields = .ok (.scaled s mn mx ar rr u f) := by
  simp only [DInfo.WF, DType.WF] at hwf
  obtain ⟨⟨fs, ps, fmn, fmx, hle, cmn, cmx, far, nar, frr, nrr⟩, cs, car, crr, hms, su, sf, hfmt⟩ := hwf
  have s0 := propDouble_self D hD cs fs hD.minScale_finite max_finite hms (CompatLaws.finite_bounds _ fs).2
  have s1 := propDouble_self D hD cmn fmn neg_max_finite max_finite (CompatLaws.finite_bounds _ fmn).1
    (CompatLaws.finite_bounds _ fmn).2
  have s2 := propDouble_self D hD cmx fmx neg_max_finite max_finite (CompatLaws.finite_bounds _ fmx).1
    (CompatLaws.finite_bounds _ fmx).2
  have s3 := kwStr_step (F := F) (d := "") su
  have s4 := kwStr_step (F := F) (d := "%g") sf
  have s5 := scaledAbsRes_step D hD cs fs ps car far nar
  have s6 := kwRes_step D hD hD.relRes_canon crr frr nrr
  have m1 : (pyMul (.int kmin) (.float s)).bind pyFloat = some mn := by
    simp [pyMul, intLike?, pyFloat, hkmin, hmn]
  have m2 : (pyMul (.int kmax) (.float s)).bind pyFloat = some mx := by
    simp [pyMul, intLike?, pyFloat, hkmax, hmx]
  simp only [mkScaled, h0, h1, h2, m1, m2, pyFloat, h3, h4, h5, h6, s0, s1, s2, s3, s4, s5, s6, ok_bind]
  simp [hle, hfmt]

theorem leaf_scaled (D : Consts F) (hD : D.OK) : ScaledLeafOK D := by
  intro s mn mx ar rr u f hwf hex
  simp only [DInfo.Exportable] at hex
  obtain ⟨kmin, ymin, g1, o1, e1⟩ := aligned_iff hex.1
  obtain ⟨kmax, ymax, g2, o2, e2⟩ := aligned_iff hex.2
  refine ⟨_, by rw [exportDatatype, g1, g2], ?_⟩
  rw [getDatatype_obj D _ "scaled" (by
    simp [dictGet_append, dictGet_optField, dictGet_cons, dictGet_scaledAbsRes_ne])]
  have hmk := mkScaled_of_args D hD (fields :=
      optField (u != "") "unit" (.str u) ++
      [("scale", .num s)] ++
      optField (f != "%g") "fmtstr" (.str f) ++
      optField (!feq rr D.relRes) "relative_resolution" (.num rr) ++
      scaledAbsResField D s ar ++
      [("type", .str "scaled"), ("min", .int kmin), ("max", .int kmax)]) hwf o1 e1 o2 e2
    (by simp [arg, ofJVal, dictGet_append, dictGet_optField, dictGet_cons, dictGet_nil, dictGet_scaledAbsRes_ne])
    (by simp [arg, ofJVal, dictGet_append, dictGet_optField, dictGet_cons, dictGet_nil, dictGet_scaledAbsRes_ne])
    (by simp [arg, ofJVal, dictGet_append, dictGet_optField, dictGet_cons, dictGet_nil, dictGet_scaledAbsRes_ne])
    (by by_cases h : u = "" <;>
      simp [arg, ofJVal, dictGet_append, dictGet_optField, dictGet_cons, dictGet_nil, dictGet_scaledAbsRes_ne, h])
    (by by_cases h : f = "%g" <;>
      simp [arg, ofJVal, dictGet_append, dictGet_optField, dictGet_cons, dictGet_nil, dictGet_scaledAbsRes_ne, h])
    (by cases h0 : feq ar D.zero <;> cases h1 : feq ar s <;>
      simp [arg, ofJVal, dictGet_append, dictGet_optField, dictGet_cons, dictGet_nil, dictGet_scaledAbsRes_eq, h0, h1])
    (by cases feq rr D.relRes <;>
      simp [arg, ofJVal, dictGet_append, dictGet_optField, dictGet_cons, dictGet_nil, dictGet_scaledAbsRes_ne])
  simp only [List.append_assoc, List.cons_append, List.nil_append] at hmk
  simp [buildNode, dictGet_append, dictGet_optField, dictGet_cons, dictGet_nil, dictGet_scaledAbsRes_ne, hmk]

/-! ## the theorems -/

/-- T1: the datainfo of a well-formed, grid-aligned tree is rebuilt by `get_datatype` into the same tree up
to the enum names and the `client` flags -/
theorem rebuild_core (D : Consts F) (hD : D.OK) (hC : ConstsOK2 F) :
    ∀ dt : DInfo F, dt.WF D → dt.Exportable → dt.OptionalInOrder →
      ∃ j, exportDatatype D dt = .ok j ∧ getDatatype D j = .ok dt.asClient :=
  rebuild_gen D hD (leaf_double D hD hC) (leaf_scaled D hD)

/-- T4: `copy()` of a well-formed, grid-aligned tree is the tree itself -/
theorem copy_core (D : Consts F) (hD : D.OK) (hC : ConstsOK2 F) :
    ∀ dt : DInfo F, dt.WF D → dt.Exportable → copy D dt = .ok dt :=
  copy_gen D hD (leaf_double D hD hC) (leaf_scaled D hD)

/-- the extra carrier facts hold for the exact carrier `Rat` (non-vacuity of `ConstsOK2`) -/
example : ConstsOK2 Rat :=
  ⟨rfl, rfl⟩

end Frappy.Lemmas.C03Datainfo
