import FrappyModel.Datatypes.DatainfoWF
import FrappyModel.Datatypes.Import
import FrappyProofs.Lemmas.DatatypesLeaf
import FrappyProofs.Lemmas.DatatypesContainers
/-
C03 — helper lemmas: export / rebuild / copy of a datatype through its datainfo.
-/
set_option linter.unusedSectionVars false
set_option linter.unusedVariables false
namespace Frappy.Lemmas.C03Datainfo
open FloatOps DType Frappy.Datatypes Frappy.DInfo
open Frappy.Lemmas.C01 (median3_inside same_refl notNaN_of_finite map_ok)
open PVal (toFloat? dictGet dictSet ofJVal)

variable {F : Type} [FloatOps F] [LawfulFloatOps F] [CompatLaws F]

/-! ## T2: the enum name and the client flag are not exported -/

mutual
theorem export_asClient (D : Consts F) : ∀ dt : DInfo F, exportDatatype D dt.asClient = exportDatatype D dt
  | .double mn mx ar rr u f => by simp only [asClient]
  | .int mn mx => by simp only [asClient]
  | .scaled s mn mx ar rr u f => by simp only [asClient]
  | .bool => by simp only [asClient]
  | .enum n ms => by simp only [asClient, exportDatatype]
  | .string a b u => by simp only [asClient]
  | .blob a b => by simp only [asClient]
  | .array e a b => by
    simp only [asClient, exportDatatype]
    rw [export_asClient D e]
  | .tuple es => by
    simp only [asClient, exportDatatype]
    rw [exportList_asClient D es]
  | .struct ms opt c => by
    simp only [asClient, exportDatatype]
    rw [exportFields_asClient D ms, asClientFields_names ms]
theorem exportList_asClient (D : Consts F) : ∀ es : List (DInfo F), exportList D (asClientList es) = exportList D es
  | [] => by simp only [asClientList]
  | t :: ts => by
    simp only [asClientList, exportList]
    rw [export_asClient D t, exportList_asClient D ts]
theorem exportFields_asClient (D : Consts F) : ∀ ms : List (String × DInfo F),
    exportFields D (asClientFields ms) = exportFields D ms
  | [] => by simp only [asClientFields]
  | (k, t) :: ts => by
    simp only [asClientFields, exportFields]
    rw [export_asClient D t, exportFields_asClient D ts]
theorem asClientFields_names : ∀ ms : List (String × DInfo F), (asClientFields ms).map (·.1) = ms.map (·.1)
  | [] => by simp only [asClientFields]
  | (k, t) :: ts => by
    simp only [asClientFields, List.map_cons]
    rw [asClientFields_names ts]
end

/-! ## T3: validation / import do not see the difference -/

theorem eraseList_length : ∀ es : List (DInfo F), (eraseList es).length = es.length
  | [] => by simp only [eraseList, List.length_nil]
  | t :: ts => by simp only [eraseList, List.length_cons, eraseList_length ts]

theorem asClientList_length : ∀ es : List (DInfo F), (asClientList es).length = es.length
  | [] => by simp only [asClientList, List.length_nil]
  | t :: ts => by simp only [asClientList, List.length_cons, asClientList_length ts]

theorem eraseFields_names : ∀ ms : List (String × DInfo F), (eraseFields ms).map (·.1) = ms.map (·.1)
  | [] => by simp only [eraseFields, List.map_nil]
  | (k, t) :: ts => by simp only [eraseFields, List.map_cons, eraseFields_names ts]

mutual
theorem conv_asClient : ∀ (dt : DInfo F) (v : PVal F) (prev : Option (PVal F)),
    conv .validate dt.asClient.erase v prev = conv .validate dt.erase v prev
  | .double mn mx ar rr u f, v, prev => by simp only [asClient]
  | .int mn mx, v, prev => by simp only [asClient]
  | .scaled s mn mx ar rr u f, v, prev => by simp only [asClient]
  | .bool, v, prev => by simp only [asClient]
  | .enum n ms, v, prev => by simp only [asClient, erase]
  | .string a b u, v, prev => by simp only [asClient]
  | .blob a b, v, prev => by simp only [asClient]
  | .array e a b, v, prev => by
    have h : conv .validate e.asClient.erase = conv .validate e.erase := by
      funext v p; exact conv_asClient e v p
    simp only [asClient, erase, conv, h]
  | .tuple es, v, prev => by
    have h : convTuple .validate (eraseList (asClientList es)) = convTuple .validate (eraseList es) := by
      funext vs ps; exact convTuple_asClient es vs ps
    simp only [asClient, erase, conv, h, eraseList_length, asClientList_length]
  | .struct ms opt c, v, prev => by
    have h : convMember .validate (eraseFields (asClientFields ms)) = convMember .validate (eraseFields ms) := by
      funext k v; exact convMember_asClient ms k v
    simp only [asClient, erase, conv, h, eraseFields_names, asClientFields_names, beq_self_eq_true, Bool.or_true]
theorem convTuple_asClient : ∀ (es : List (DInfo F)) (vs : List (PVal F)) (ps : Option (List (PVal F))),
    convTuple .validate (eraseList (asClientList es)) vs ps = convTuple .validate (eraseList es) vs ps
  | [], vs, ps => by simp only [asClientList]
  | t :: ts, [], ps => by simp only [asClientList, eraseList, convTuple]
  | t :: ts, v :: vs, some [] => by simp only [asClientList, eraseList, convTuple]
  | t :: ts, v :: vs, some (p :: ps) => by
    simp only [asClientList, eraseList, convTuple]
    rw [conv_asClient t v (some p), convTuple_asClient ts vs (some ps)]
  | t :: ts, v :: vs, none => by
    simp only [asClientList, eraseList, convTuple]
    rw [conv_asClient t v none, convTuple_asClient ts vs none]
theorem convMember_asClient : ∀ (ms : List (String × DInfo F)) (k : String) (v : PVal F),
    convMember .validate (eraseFields (asClientFields ms)) k v = convMember .validate (eraseFields ms) k v
  | [], k, v => by simp only [asClientFields]
  | (k0, t) :: rest, k, v => by
    simp only [asClientFields, eraseFields, convMember]
    rw [conv_asClient t v none, convMember_asClient rest k v]
end

theorem validate_asClient : ∀ (dt : DInfo F) (v : PVal F) (prev : Option (PVal F)),
    Datatypes.validate dt.asClient.erase v prev = Datatypes.validate dt.erase v prev :=
  fun dt v prev => conv_asClient dt v prev

mutual
theorem import_asClient : ∀ (dt : DInfo F) (j : JVal F),
    Datatypes.importValue dt.asClient.erase j = Datatypes.importValue dt.erase j
  | .double mn mx ar rr u f, j => by simp only [asClient]
  | .int mn mx, j => by simp only [asClient]
  | .scaled s mn mx ar rr u f, j => by simp only [asClient]
  | .bool, j => by simp only [asClient]
  | .enum n ms, j => by simp only [asClient, erase]
  | .string a b u, j => by simp only [asClient]
  | .blob a b, j => by simp only [asClient]
  | .array e a b, j => by
    have h : importValue e.asClient.erase = importValue e.erase := by
      funext j; exact import_asClient e j
    simp only [asClient, erase, importValue, h]
  | .tuple es, j => by
    have h : importTuple (eraseList (asClientList es)) = importTuple (eraseList es) := by
      funext js; exact importTuple_asClient es js
    simp only [asClient, erase, importValue, h, eraseList_length, asClientList_length]
  | .struct ms opt c, j => by
    have h : importMember (eraseFields (asClientFields ms)) = importMember (eraseFields ms) := by
      funext k j; exact importMember_asClient ms k j
    simp only [asClient, erase, importValue, h, eraseFields_names, asClientFields_names]
theorem importTuple_asClient : ∀ (es : List (DInfo F)) (js : List (JVal F)),
    importTuple (eraseList (asClientList es)) js = importTuple (eraseList es) js
  | [], js => by simp only [asClientList]
  | t :: ts, [] => by simp only [asClientList, eraseList, importTuple]
  | t :: ts, j :: js => by
    simp only [asClientList, eraseList, importTuple]
    rw [import_asClient t j, importTuple_asClient ts js]
theorem importMember_asClient : ∀ (ms : List (String × DInfo F)) (k : String) (j : JVal F),
    importMember (eraseFields (asClientFields ms)) k j = importMember (eraseFields ms) k j
  | [], k, j => by simp only [asClientFields]
  | (k0, t) :: rest, k, j => by
    simp only [asClientFields, eraseFields, importMember]
    rw [import_asClient t j, importMember_asClient rest k j]
end

end Frappy.Lemmas.C03Datainfo
