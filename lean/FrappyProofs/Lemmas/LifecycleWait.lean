import FrappyProofs.Lemmas.LifecycleInit
/-
Helper lemmas for C15: shape of the log of the start phase (start loop, poll thread prologues, abstract MultiEvent),
for every schedule.
-/
namespace Frappy.Proofs.LifecycleWait
open Frappy.Lifecycle Frappy.Spec.C15 Frappy.Proofs.Lifecycle Frappy.Proofs.LifecycleInit

def isMainEv : Ev → Bool
  | .start _ => true
  | .thread _ => true
  | _ => false

def isProEv : Ev → Bool
  | .write _ _ => true
  | .firstpoll _ => true
  | .rounddone _ => true
  | .initread _ => true
  | .comfail _ => true
  | _ => false

theorem isProEv_of_isProl {e : Ev} (h : isProl e = true) : isProEv e = true := by
  cases e <;> simp [isProl] at h <;> rfl

/-- events the start phase may log after `ready` -/
def isLateEv (e : Ev) : Bool := isProEv e || e == Ev.deadline

structure WS (S : List Ev) (w : Wait) : Prop where
  main : w.log.filter isMainEv ++ w.mainTodo = S
  mainEv : ∀ e ∈ S, isMainEv e = true
  todoPro : ∀ p ∈ w.todo, ∀ e ∈ p.2, isProEv e = true
  shape : ∀ e ∈ w.log, isMainEv e = true ∨ isProEv e = true ∨ e = Ev.deadline ∨ e = Ev.ready ∨ ∃ t, e = Ev.timeout t
  r0 : w.ready = false → Ev.ready ∉ w.log
  r1 : w.ready = true → w.mainTodo = [] ∧ ∃ pre post, w.log = pre ++ Ev.ready :: post ∧ Ev.ready ∉ pre ∧
        (∀ e ∈ post, isLateEv e = true) ∧
        ∀ t, Ev.thread t ∈ pre → Ev.rounddone t ∈ pre ∨ (Ev.deadline ∈ pre ∧ Ev.timeout t ∈ pre)
  r2 : w.expired = true → Ev.deadline ∈ w.log

theorem ws_append_late {S : List Ev} {w : Wait} (h : WS S w) (e : Ev) (he : isLateEv e = true)
    (w' : Wait) (hlog : w'.log = w.log ++ [e]) (hm : w'.mainTodo = w.mainTodo) (hr : w'.ready = w.ready)
    (ht : ∀ p ∈ w'.todo, ∀ e ∈ p.2, isProEv e = true) (hx : w'.expired = true → w.expired = true ∨ e = Ev.deadline) :
    WS S w' := by
  have hnm : isMainEv e = false := by
    cases e <;> simp [isLateEv, isProEv, isMainEv] at he ⊢
  have hnr : e ≠ Ev.ready := by
    intro h; subst h; simp [isLateEv, isProEv] at he
  refine ⟨?_, h.mainEv, ht, ?_, ?_, ?_, ?_⟩
  · rw [hlog, hm, List.filter_append]
    simpa [List.filter, hnm] using h.main
  · intro x hx'
    rw [hlog] at hx'
    rcases List.mem_append.mp hx' with hx' | hx'
    · exact h.shape x hx'
    · simp only [List.mem_singleton] at hx'
      subst hx'
      simp only [isLateEv, Bool.or_eq_true, beq_iff_eq] at he
      rcases he with he | he
      · exact Or.inr (Or.inl he)
      · exact Or.inr (Or.inr (Or.inl he))
  · intro hf hmem
    rw [hlog] at hmem
    rw [hr] at hf
    rcases List.mem_append.mp hmem with hmem | hmem
    · exact h.r0 hf hmem
    · simp only [List.mem_singleton] at hmem
      exact hnr hmem.symm
  · intro hf
    rw [hr] at hf
    obtain ⟨hm0, pre, post, hl, hp, hpost, hthr⟩ := h.r1 hf
    refine ⟨hm.trans hm0, pre, post ++ [e], ?_, hp, ?_, hthr⟩
    · rw [hlog, hl]; simp
    · intro x hx'
      rcases List.mem_append.mp hx' with hx' | hx'
      · exact hpost x hx'
      · simp only [List.mem_singleton] at hx'
        subst hx'; exact he
  · intro hf
    rw [hlog]
    rcases hx hf with hf | hf
    · exact List.mem_append_left _ (h.r2 hf)
    · subst hf; simp

theorem isPro_late {e : Ev} (h : isProEv e = true) : isLateEv e = true := by simp [isLateEv, h]

theorem ws_step (S : List Ev) (w : Wait) (a : Act) (h : WS S w) (hw : WInv w) : WS S (actStep w a) := by
  cases a with
  | main =>
    simp only [actStep, mainStep]
    cases hm : w.mainTodo with
    | nil => exact h
    | cons e rest =>
      have hmain := h.main
      rw [hm] at hmain
      have heS : e ∈ S := by rw [← hmain]; simp
      have heM := h.mainEv e heS
      have hrf : w.ready = false := by
        cases hr : w.ready with
        | false => rfl
        | true => have := (h.r1 hr).1; rw [hm] at this; cases this
      have hner : e ≠ Ev.ready := by intro he; subst he; simp [isMainEv] at heM
      refine ⟨?_, h.mainEv, h.todoPro, ?_, ?_, ?_, ?_⟩
      · simp only [List.filter_append, List.filter, heM]
        rw [← hmain]; simp
      · intro x hx
        simp only [List.mem_append, List.mem_singleton] at hx
        rcases hx with hx | rfl
        · exact h.shape x hx
        · exact Or.inl heM
      · intro _ hmem
        simp only [List.mem_append, List.mem_singleton] at hmem
        rcases hmem with hmem | hmem
        · exact h.r0 hrf hmem
        · exact hner hmem.symm
      · intro hr; simp only at hr; rw [hrf] at hr; cases hr
      · intro hx
        exact List.mem_append_left _ (h.r2 hx)
  | step t =>
    simp only [actStep, threadStep]
    split
    · have hps := popThread_spec t w.todo
      cases hp : popThread t w.todo with
      | mk oe todo' =>
        rw [hp] at hps
        cases oe with
        | none => exact h
        | some e =>
          obtain ⟨p, hpm, hem⟩ := hps.1 e rfl
          have hpro := h.todoPro p hpm e hem
          exact ws_append_late h e (isPro_late hpro) _ rfl rfl rfl
            (by
              intro p' hp' e' he'
              obtain ⟨p0, hp0, he0⟩ := hps.2 p' hp' e' he'
              exact h.todoPro p0 hp0 e' he0)
            (fun hx => Or.inl hx)
    · exact h
  | expire =>
    simp only [actStep]
    split
    · exact h
    · exact ws_append_late h Ev.deadline (by simp [isLateEv]) _ rfl rfl rfl h.todoPro (fun _ => Or.inr rfl)
  | wake =>
    simp only [actStep, wakeStep]
    split
    · exact h
    · rename_i hc
      have hrf : w.ready = false := by
        cases hr : w.ready with
        | false => rfl
        | true => simp [hr] at hc
      have hm0 : w.mainTodo = [] := by
        cases hm : w.mainTodo with
        | nil => rfl
        | cons a l => simp [hm] at hc
      have key : ∀ (tos : List Name), (∀ t, Ev.thread t ∈ w.log →
            Ev.rounddone t ∈ w.log ∨ (Ev.deadline ∈ w.log ∧ t ∈ tos)) →
          WS S { w with ready := true, log := w.log ++ tos.map Ev.timeout ++ [Ev.ready] } := by
        intro tos hth
        refine ⟨?_, h.mainEv, h.todoPro, ?_, (by intro hr; cases hr), ?_, ?_⟩
        · have : (tos.map Ev.timeout).filter isMainEv = [] := by
            rw [List.filter_eq_nil_iff]
            intro x hx
            obtain ⟨t, _, rfl⟩ := List.mem_map.mp hx
            simp [isMainEv]
          simp only [List.filter_append, this, List.append_nil]
          simpa [List.filter, isMainEv] using h.main
        · intro x hx
          simp only [List.mem_append, List.mem_map, List.mem_singleton] at hx
          rcases hx with (hx | ⟨t, _, rfl⟩) | rfl
          · exact h.shape x hx
          · exact Or.inr (Or.inr (Or.inr (Or.inr ⟨t, rfl⟩)))
          · exact Or.inr (Or.inr (Or.inr (Or.inl rfl)))
        · intro _
          refine ⟨hm0, w.log ++ tos.map Ev.timeout, [], (by simp), ?_, (by intro e he; cases he), ?_⟩
          · intro hmem
            rcases List.mem_append.mp hmem with hmem | hmem
            · exact h.r0 hrf hmem
            · obtain ⟨t, _, ht⟩ := List.mem_map.mp hmem
              cases ht
          · intro t ht
            have ht' : Ev.thread t ∈ w.log := by
              rcases List.mem_append.mp ht with ht | ht
              · exact ht
              · obtain ⟨t', _, ht'⟩ := List.mem_map.mp ht
                cases ht'
            rcases hth t ht' with hd | ⟨hd, hto⟩
            · exact Or.inl (List.mem_append_left _ hd)
            · exact Or.inr ⟨List.mem_append_left _ hd, List.mem_append_right _ (List.mem_map.mpr ⟨t, hto, rfl⟩)⟩
        · intro hx
          simp only at hx
          exact List.mem_append_left _ (List.mem_append_left _ (h.r2 hx))
      split
      · rename_i hpe
        have hpn : w.pending = [] := by
          cases hp : w.pending with
          | nil => rfl
          | cons a l => simp [hp] at hpe
        have := key [] (by
          intro t ht
          rcases hw.pend t ht with hp | hp
          · rw [hpn] at hp; cases hp
          · exact Or.inl hp)
        simpa using this
      · split
        · rename_i hexp
          exact key w.pending (by
            intro t ht
            rcases hw.pend t ht with hp | hp
            · exact Or.inr ⟨h.r2 hexp, hp⟩
            · exact Or.inl hp)
        · exact h

theorem ws_run (S : List Ev) (sched : List Act) : ∀ (w : Wait), WS S w → WInv w → WS S (waitRun w sched) ∧ WInv (waitRun w sched) := by
  induction sched with
  | nil => intro w h hw; exact ⟨h, hw⟩
  | cons a rest ih =>
    intro w h hw
    exact ih _ (ws_step S w a h hw) (winv_step w a hw)

theorem ws_init (st : St) : WS (startEvents st) (waitInit st) := by
  refine ⟨by simp [waitInit], ?_, ?_, by intro e he; simp [waitInit] at he, by intro _ h; simp [waitInit] at h,
    by intro h; simp [waitInit] at h, by intro h; simp [waitInit] at h⟩
  · intro e he
    simp only [startEvents, List.mem_flatMap] at he
    obtain ⟨m, _, hm⟩ := he
    unfold startOne at hm
    split at hm
    · simp only [List.mem_singleton] at hm; subst hm; rfl
    · simp only [List.mem_cons, List.not_mem_nil, or_false] at hm
      rcases hm with rfl | rfl <;> rfl
  · intro p hp e he
    simp only [waitInit, List.mem_map] at hp
    obtain ⟨t, _, rfl⟩ := hp
    exact isProEv_of_isProl (prologue_pro st t e he)

theorem mainTodo_drain : ∀ (n : Nat) (w : Wait), w.mainTodo.length = n →
    (waitRun w (w.mainTodo.map (fun _ => Act.main))).mainTodo = [] := by
  intro n
  induction n with
  | zero =>
    intro w h
    have : w.mainTodo = [] := List.eq_nil_of_length_eq_zero h
    simp [this, waitRun]
  | succ n ih =>
    intro w h
    cases hm : w.mainTodo with
    | nil => rw [hm] at h; cases h
    | cons e rest =>
      simp only [List.map_cons, waitRun, List.foldl_cons]
      have h1 : (actStep w Act.main).mainTodo = rest := by simp [actStep, mainStep, hm]
      have := ih (actStep w Act.main) (by rw [h1]; rw [hm] at h; simpa using h)
      rw [h1] at this
      exact this

theorem mainTodo_nil_step (w : Wait) (a : Act) (h : w.mainTodo = []) : (actStep w a).mainTodo = [] := by
  cases a with
  | main => simp [actStep, mainStep, h]
  | step t =>
    simp only [actStep, threadStep]
    split
    · cases popThread t w.todo with
      | mk oe todo' => cases oe <;> simp [h]
    · exact h
  | expire => simp only [actStep]; split <;> exact h
  | wake =>
    simp only [actStep, wakeStep]
    split
    · exact h
    · split
      · exact h
      · split <;> exact h

theorem mainTodo_nil_run (sched : List Act) : ∀ (w : Wait), w.mainTodo = [] → (waitRun w sched).mainTodo = [] := by
  induction sched with
  | nil => intro w h; exact h
  | cons a rest ih => intro w h; exact ih _ (mainTodo_nil_step w a h)

/-- the complete start phase, any schedule: structure of its log -/
theorem ws_finish (st : St) (sched : List Act) :
    WS (startEvents st) (finish (waitRun (waitInit st) sched)) ∧ (finish (waitRun (waitInit st) sched)).mainTodo = [] := by
  obtain ⟨h1, w1⟩ := ws_run (startEvents st) sched _ (ws_init st) (winv_init st)
  unfold finish
  obtain ⟨h2, w2⟩ := ws_run (startEvents st) ((waitRun (waitInit st) sched).mainTodo.map (fun _ => Act.main)) _ h1 w1
  have hm2 := mainTodo_drain _ (waitRun (waitInit st) sched) rfl
  simp only
  obtain ⟨h3, w3⟩ := ws_run (startEvents st)
    (if (waitRun (waitRun (waitInit st) sched) ((waitRun (waitInit st) sched).mainTodo.map (fun _ => Act.main))).ready = true then []
      else if (waitRun (waitRun (waitInit st) sched) ((waitRun (waitInit st) sched).mainTodo.map (fun _ => Act.main))).pending.isEmpty = true
        then [Act.wake] else [Act.expire, Act.wake]) _ h2 w2
  obtain ⟨h4, _⟩ := ws_run (startEvents st) _ _ h3 w3
  exact ⟨h4, mainTodo_nil_run _ _ (mainTodo_nil_run _ _ hm2)⟩

/-! ### the parts of a whole run -/

def laterPart (st : St) (sched : List Act) (pick : List Name → Nat) : List Ev :=
  waitPhase st sched ++ [Ev.shutdownbegin] ++ shutdownLog st.modules (threadsOf st) st.edges pick

theorem run_log (cfg : Cfg) (fuel : Nat) (sched : List Act) (pick : List Name → Nat) :
    (run cfg fuel sched pick).st = startup cfg fuel ∧
    (run cfg fuel sched pick).log =
      if (startup cfg fuel).errors.isEmpty then (startup cfg fuel).log ++ laterPart (startup cfg fuel) sched pick
      else (startup cfg fuel).log := by
  unfold run laterPart
  simp only
  split <;> simp [List.append_assoc]

theorem wait_shape (st : St) (sched : List Act) : ∀ e ∈ waitPhase st sched,
    isMainEv e = true ∨ isProEv e = true ∨ e = Ev.deadline ∨ e = Ev.ready ∨ ∃ t, e = Ev.timeout t :=
  (ws_finish st sched).1.shape

theorem later_no_init (st : St) (sched : List Act) (pick : List Name → Nat) :
    ∀ e ∈ laterPart st sched pick, gotten e = none ∧ isInitEv e = false := by
  intro e he
  simp only [laterPart, shutdownLog, List.mem_append, List.mem_singleton, List.mem_map] at he
  rcases he with (he | rfl) | ((⟨m, _, rfl⟩ | ⟨m, _, rfl⟩) | ⟨m, _, rfl⟩)
  · rcases wait_shape st sched e he with h | h | rfl | rfl | ⟨t, rfl⟩
    · cases e <;> simp [isMainEv] at h <;> exact ⟨rfl, rfl⟩
    · cases e <;> simp [isProEv] at h <;> exact ⟨rfl, rfl⟩
    · exact ⟨rfl, rfl⟩
    · exact ⟨rfl, rfl⟩
    · exact ⟨rfl, rfl⟩
  all_goals exact ⟨rfl, rfl⟩

theorem startup_ar (cfg : Cfg) (fuel : Nat) : ARfrom [] (startup cfg fuel).log := by
  rw [startup_eq]
  split
  · exact (top_core cfg fuel).1.ar
  · simp only [emit]
    rw [ARfrom_snoc]
    exact ⟨(top_core cfg fuel).1.ar, by intro d hd; cases hd⟩

theorem startup_shape (cfg : Cfg) (fuel : Nat) : ∀ e ∈ (startup cfg fuel).log, isInitEv e = true ∨ e = Ev.exit := by
  rw [startup_eq]
  split
  · intro e he; exact Or.inl ((top_core cfg fuel).1.shape e he)
  · intro e he
    simp only [emit, List.mem_append, List.mem_singleton] at he
    rcases he with he | rfl
    · exact Or.inl ((top_core cfg fuel).1.shape e he)
    · exact Or.inr rfl

theorem takeWhile_append_stop (p : Ev → Bool) (a : Ev) (l2 : List Ev) (ha : p a = false) :
    ∀ (l1 : List Ev), (∀ e ∈ l1, p e = true) → (l1 ++ a :: l2).takeWhile p = l1 := by
  intro l1
  induction l1 with
  | nil => intro _; simp [List.takeWhile, ha]
  | cons b l1 ih =>
    intro h
    simp only [List.cons_append, List.takeWhile, h b (by simp)]
    rw [ih (fun e he => h e (by simp [he]))]

theorem shutdown_part_plain (st : St) (pick : List Name → Nat) :
    ∀ e ∈ [Ev.shutdownbegin] ++ shutdownLog st.modules (threadsOf st) st.edges pick,
      e ≠ Ev.ready ∧ isThread e = none := by
  intro e he
  simp only [shutdownLog, List.mem_append, List.mem_singleton, List.mem_map] at he
  rcases he with rfl | ((⟨m, _, rfl⟩ | ⟨m, _, rfl⟩) | ⟨m, _, rfl⟩) <;> exact ⟨(by intro h; cases h), rfl⟩

theorem init_part_plain (cfg : Cfg) (fuel : Nat) : ∀ e ∈ (startup cfg fuel).log, e ≠ Ev.ready ∧ isThread e = none := by
  intro e he
  rcases startup_shape cfg fuel e he with h | rfl
  · cases e <;> simp [isInitEv] at h <;> exact ⟨(by intro h; cases h), rfl⟩
  · exact ⟨(by intro h; cases h), rfl⟩

theorem late_plain {e : Ev} (h : isLateEv e = true) : e ≠ Ev.ready ∧ isThread e = none := by
  cases e <;> simp [isLateEv, isProEv] at h <;> exact ⟨(by intro h; cases h), rfl⟩

/-- the ready clause for a whole run, any schedule -/
theorem run_ready (cfg : Cfg) (fuel : Nat) (sched : List Act) (pick : List Name → Nat) :
    ReadyAfterFirstRound (run cfg fuel sched pick).log := by
  rw [(run_log cfg fuel sched pick).2]
  have hA := init_part_plain cfg fuel
  have hnotA : Ev.ready ∉ (startup cfg fuel).log := fun h => (hA _ h).1 rfl
  split
  · -- the node is started
    have hS := shutdown_part_plain (startup cfg fuel) pick
    have ws := (ws_finish (startup cfg fuel) sched).1
    simp only [laterPart, List.append_assoc]
    cases hr : (finish (waitRun (waitInit (startup cfg fuel)) sched)).ready with
    | false =>
      have hnW : Ev.ready ∉ waitPhase (startup cfg fuel) sched := ws.r0 hr
      have hnot : Ev.ready ∉ (startup cfg fuel).log ++ (waitPhase (startup cfg fuel) sched ++
          ([Ev.shutdownbegin] ++ shutdownLog (startup cfg fuel).modules (threadsOf (startup cfg fuel))
            (startup cfg fuel).edges pick)) := by
        intro h
        rcases List.mem_append.mp h with h | h
        · exact hnotA h
        · rcases List.mem_append.mp h with h | h
          · exact hnW h
          · exact (hS _ h).1 rfl
      refine ⟨by rw [List.count_eq_zero.mpr hnot]; omega, fun h => absurd h hnot⟩
    | true =>
      obtain ⟨_, pre, post, hl, hp, hpost, hthr⟩ := ws.r1 hr
      have hW : waitPhase (startup cfg fuel) sched = pre ++ Ev.ready :: post := hl
      rw [hW]
      have hrest : ∀ e ∈ post ++ ([Ev.shutdownbegin] ++ shutdownLog (startup cfg fuel).modules
          (threadsOf (startup cfg fuel)) (startup cfg fuel).edges pick), e ≠ Ev.ready ∧ isThread e = none := by
        intro e he
        rcases List.mem_append.mp he with he | he
        · exact late_plain (hpost e he)
        · exact hS e he
      have hreassoc : (startup cfg fuel).log ++ ((pre ++ Ev.ready :: post) ++ ([Ev.shutdownbegin] ++
          shutdownLog (startup cfg fuel).modules (threadsOf (startup cfg fuel)) (startup cfg fuel).edges pick)) =
          ((startup cfg fuel).log ++ pre) ++ Ev.ready :: (post ++ ([Ev.shutdownbegin] ++
          shutdownLog (startup cfg fuel).modules (threadsOf (startup cfg fuel)) (startup cfg fuel).edges pick)) := by
        simp [List.append_assoc]
      rw [hreassoc]
      have hpre0 : ((startup cfg fuel).log ++ pre).count Ev.ready = 0 := by
        rw [List.count_eq_zero]
        intro h
        rcases List.mem_append.mp h with h | h
        · exact hnotA h
        · exact hp h
      have hrest0 : (post ++ ([Ev.shutdownbegin] ++ shutdownLog (startup cfg fuel).modules
          (threadsOf (startup cfg fuel)) (startup cfg fuel).edges pick)).count Ev.ready = 0 := by
        rw [List.count_eq_zero]
        intro h
        exact (hrest _ h).1 rfl
      refine ⟨?_, ?_⟩
      · rw [List.count_append, List.count_cons, hpre0, hrest0]
        simp
      · intro _
        have htw := takeWhile_append_stop (· != Ev.ready) Ev.ready
          (post ++ ([Ev.shutdownbegin] ++ shutdownLog (startup cfg fuel).modules
            (threadsOf (startup cfg fuel)) (startup cfg fuel).edges pick)) (by simp)
          ((startup cfg fuel).log ++ pre)
          (by
            intro e he
            have : e ≠ Ev.ready := by
              intro h; subst h
              rcases List.mem_append.mp he with he | he
              · exact hnotA he
              · exact hp he
            simpa using this)
        simp only [htw]
        intro t ht
        obtain ⟨e, he, het⟩ := List.mem_filterMap.mp ht
        have hthread : e = Ev.thread t := by
          cases e <;> simp [isThread] at het
          subst het; rfl
        subst hthread
        have hin : Ev.thread t ∈ pre := by
          rcases List.mem_append.mp he with he | he
          · rcases List.mem_append.mp he with he | he
            · have := (hA _ he).2; simp [isThread] at this
            · exact he
          · rcases List.mem_cons.mp he with he | he
            · cases he
            · have := (hrest _ he).2; simp [isThread] at this
        refine ⟨List.mem_append_right _ hin, ?_⟩
        rcases hthr t hin with h | ⟨h1, h2⟩
        · exact Or.inl (List.mem_append_right _ h)
        · exact Or.inr ⟨List.mem_append_right _ h1, List.mem_append_right _ h2⟩
  · exact ⟨by rw [List.count_eq_zero.mpr hnotA]; omega, fun h => absurd h hnotA⟩

theorem pairwise_of_left {R : Ev → Ev → Prop} : ∀ (l : List Ev), (∀ a ∈ l, ∀ b, R a b) → l.Pairwise R
  | [], _ => List.Pairwise.nil
  | a :: l, h => List.Pairwise.cons (fun b _ => h a (by simp) b)
      (pairwise_of_left l (fun x hx => h x (by simp [hx])))

theorem shutdownOrder_prefix (mods : List Name) (edges : List (Name × Name)) (P S : List Ev)
    (hP : ∀ e ∈ P, isShutdown e = false ∧ isStopPoll e = false) (h : ShutdownOrder mods edges S)
    (hstop : ∀ m ∈ mods, 1 ≤ S.count (Ev.stopPoll m)) :
    ShutdownOrder mods edges (P ++ S) := by
  have hns : ∀ m, Ev.shutdown m ∉ P := fun m hm => by have := (hP _ hm).1; simp [isShutdown] at this
  have hnp : ∀ m, Ev.stopPoll m ∉ P := fun m hm => by have := (hP _ hm).2; simp [isStopPoll] at this
  refine ⟨?_, ?_, ?_⟩
  · unfold NeverAfter
    rw [List.pairwise_append]
    refine ⟨pairwise_of_left P (fun a ha b hh => ?_), h.1, fun a ha b _ hh => ?_⟩
    · rw [(hP a ha).1] at hh; exact absurd hh.1 (by simp)
    · rw [(hP a ha).1] at hh; exact absurd hh.1 (by simp)
  · intro m hm
    rw [List.count_append, List.count_append, List.count_eq_zero.mpr (hnp m), List.count_eq_zero.mpr (hns m)]
    have hS := h.2.1 m hm
    exact ⟨fun _ => by have := hstop m hm; omega, by simpa using hS.2⟩
  · intro e he hne
    unfold NeverAfter
    rw [List.pairwise_append]
    have hk : ∀ a ∈ P, (a == Ev.shutdown e.2) = false := by
      intro a ha
      cases hb : (a == Ev.shutdown e.2) with
      | false => rfl
      | true => exact absurd (beq_iff_eq.mp hb ▸ ha) (hns e.2)
    refine ⟨pairwise_of_left P (fun a ha b hh => ?_), h.2.2 e he hne, fun a ha b _ hh => ?_⟩
    · have h1 : (a == Ev.shutdown e.2) = true := hh.1
      rw [hk a ha] at h1; cases h1
    · have h1 : (a == Ev.shutdown e.2) = true := hh.1
      rw [hk a ha] at h1; cases h1

theorem shutdownLog_stop_all (mods threads : List Name) (edges : List (Name × Name)) (pick : List Name → Nat)
    (hnd : mods.Nodup) : ∀ m ∈ mods, 1 ≤ (shutdownLog mods threads edges pick).count (Ev.stopPoll m) := by
  intro m hm
  have h1 := count_map_one Ev.stopPoll (by intro a b h; cases h; rfl) mods hnd m hm
  simp only [shutdownLog, List.count_append, h1]
  omega

theorem before_shutdown_plain (cfg : Cfg) (fuel : Nat) (sched : List Act) :
    ∀ e ∈ (startup cfg fuel).log ++ (waitPhase (startup cfg fuel) sched ++ [Ev.shutdownbegin]),
      isShutdown e = false ∧ isStopPoll e = false := by
  intro e he
  simp only [List.mem_append, List.mem_singleton] at he
  rcases he with he | he | rfl
  · rcases startup_shape cfg fuel e he with h | rfl
    · cases e <;> simp [isInitEv] at h <;> exact ⟨rfl, rfl⟩
    · exact ⟨rfl, rfl⟩
  · rcases wait_shape _ sched e he with h | h | rfl | rfl | ⟨t, rfl⟩
    · cases e <;> simp [isMainEv] at h <;> exact ⟨rfl, rfl⟩
    · cases e <;> simp [isProEv] at h <;> exact ⟨rfl, rfl⟩
    · exact ⟨rfl, rfl⟩
    · exact ⟨rfl, rfl⟩
    · exact ⟨rfl, rfl⟩
  · exact ⟨rfl, rfl⟩

theorem startup_modsNd (cfg : Cfg) (fuel : Nat) : (startup cfg fuel).modules.Nodup := by
  rw [startup_eq]
  split
  · exact (top_core cfg fuel).1.modsNd
  · exact (top_core cfg fuel).1.modsNd

theorem onceInOrder_append (a b : Ev) (A L : List Ev) (h : OnceInOrder a b A) (ha : a ∉ L) (hb : b ∉ L) :
    OnceInOrder a b (A ++ L) := by
  refine ⟨by rw [List.count_append, List.count_eq_zero.mpr ha]; exact h.1,
          by rw [List.count_append, List.count_eq_zero.mpr hb]; exact h.2.1, ?_⟩
  unfold NeverAfter
  rw [List.pairwise_append]
  refine ⟨h.2.2, pairwise_of_left L (fun x hx y hh => ?_), fun x _ y hy hh => ?_⟩
  · have : x = b := beq_iff_eq.mp hh.1
    exact hb (this ▸ hx)
  · have : y = a := beq_iff_eq.mp hh.2
    exact ha (this ▸ hy)

theorem core_once (cfg : Cfg) (fuel : Nat) (herr : (core cfg fuel).errors = []) :
    ∀ m ∈ (core cfg fuel).inited, OnceInOrder (Ev.early m) (Ev.init m) (core cfg fuel).log := by
  intro m hm
  have i := (top_core cfg fuel).1
  have hnf : m ∉ (core cfg fuel).failed := fun h => i.failedErr m h herr
  exact ⟨i.earlyIn m (Or.inr hm), i.initOk m hm hnf, i.order m⟩

theorem core_created_inited (cfg : Cfg) (fuel : Nat) (hoof : (core cfg fuel).oof = false) :
    ∀ m ∈ (createLoop cfg.dyn fuel fuel cfg.mods { known := cfg.mods }).modules, m ∈ (core cfg fuel).inited := by
  intro m hm
  obtain ⟨t1, _⟩ := top_createLoop cfg.dyn fuel fuel cfg.mods _ (inv_init cfg.mods)
  obtain ⟨t2, _, r2⟩ := top_initAll fuel (createLoop cfg.dyn fuel fuel cfg.mods { known := cfg.mods }).modules _ t1
  obtain ⟨_, m3, _⟩ := top_initAll fuel
    (initAll fuel (createLoop cfg.dyn fuel fuel cfg.mods { known := cfg.mods }).modules
      (createLoop cfg.dyn fuel fuel cfg.mods { known := cfg.mods })).exportL _ t2
  have hoof2 : (initAll fuel (createLoop cfg.dyn fuel fuel cfg.mods { known := cfg.mods }).modules
      (createLoop cfg.dyn fuel fuel cfg.mods { known := cfg.mods })).oof = false := by
    cases h : (initAll fuel (createLoop cfg.dyn fuel fuel cfg.mods { known := cfg.mods }).modules
      (createLoop cfg.dyn fuel fuel cfg.mods { known := cfg.mods })).oof with
    | false => rfl
    | true =>
      have := m3.oof h
      unfold core at hoof
      simp only at hoof
      rw [this] at hoof
      cases hoof
  exact m3.inited m (r2 hoof2 m hm hm)

theorem start_loop_complete (st : St) (sched : List Act) :
    (waitPhase st sched).filter isMainEv = startEvents st := by
  obtain ⟨ws, hm⟩ := ws_finish st sched
  have := ws.main
  rw [hm, List.append_nil] at this
  exact this

theorem run_no_stray (cfg : Cfg) (fuel : Nat) (sched : List Act) (pick : List Name → Nat) :
    PollThreadsStopped (run cfg fuel sched pick).log := by
  intro e he
  rw [(run_log cfg fuel sched pick).2] at he
  have hinit : ∀ e ∈ (startup cfg fuel).log, isStray e = false := by
    intro e he
    rcases startup_shape cfg fuel e he with h | rfl
    · cases e <;> simp [isInitEv] at h <;> rfl
    · rfl
  split at he
  · rcases List.mem_append.mp he with he | he
    · exact hinit e he
    · simp only [laterPart, shutdownLog, List.mem_append, List.mem_singleton, List.mem_map] at he
      rcases he with (he | rfl) | ((⟨m, _, rfl⟩ | ⟨m, _, rfl⟩) | ⟨m, _, rfl⟩)
      · rcases wait_shape _ sched e he with h | h | rfl | rfl | ⟨t, rfl⟩
        · cases e <;> simp [isMainEv] at h <;> rfl
        · cases e <;> simp [isProEv] at h <;> rfl
        · rfl
        · rfl
        · rfl
      all_goals rfl
  · exact hinit e he

end Frappy.Proofs.LifecycleWait
