import FrappyProofs.Lemmas.RatLawful
import FrappyProofs.Lemmas.DatatypesIdem
import FrappyProofs.Lemmas.DatatypesCall
import FrappyProofs.Lemmas.DatatypesReval
/-
On the exact carrier every grid value `k * scale` (scale ≠ 0) snaps to itself, and a concrete scaled
type satisfies `GridExactScaled` — the hypothesis of the idempotence theorem is satisfiable.
-/
set_option linter.unusedSectionVars false
namespace Frappy.Lemmas.C01
open FloatOps DType Frappy.Spec.C01

theorem rat_round_intCast (k : Int) : RatCarrier.round (k : Rat) = k := by
  unfold RatCarrier.round
  have h := Rat.floor_add_intCast (x := (1/2 : Rat)) (y := k)
  rw [Rat.add_comm] at h
  rw [h]
  have : (1/2 : Rat).floor = 0 := by decide +kernel
  omega

theorem rat_snap_self (s : Rat) (hs : s ≠ 0) (k : Int) : snap s ((k : Rat) * s) = some ((k : Rat) * s) := by
  simp only [snap, gridIndex, ofGrid, FloatOps.round, FloatOps.div, FloatOps.ofInt, FloatOps.mul]
  rw [Rat.mul_div_cancel hs, rat_round_intCast]

/-- over the exact carrier the monitor's decidable grid test finds every grid value -/
theorem rat_onGridNear (s x : Rat) (h : OnGrid s x) : OnGridNear s x := by
  obtain ⟨k, hk⟩ := h
  have hx : x = (k : Rat) * s := by
    simp only [IsSome, ofGrid, FloatOps.ofInt, FloatOps.mul, FloatOps.same, decide_eq_true_eq] at hk
    exact hk.symm
  subst hx
  by_cases hs : s = 0
  · subst hs
    have : gridIndex (0 : Rat) ((k : Rat) * 0) = some 0 := by
      simp only [gridIndex, FloatOps.round, FloatOps.div, Rat.mul_zero]
      have : RatCarrier.round ((0 : Rat) / 0) = 0 := by decide +kernel
      rw [this]
    unfold OnGridNear
    rw [this]
    right; left
    simp [IsSome, ofGrid, FloatOps.ofInt, FloatOps.mul, FloatOps.same, Rat.mul_zero]
  · have hsn := rat_snap_self s hs k
    unfold snap at hsn
    unfold OnGridNear
    cases hg : gridIndex s ((k : Rat) * s) with
    | none => rw [hg] at hsn; cases hsn
    | some k' =>
      rw [hg] at hsn
      simp only at hsn ⊢
      right; left
      rw [hsn]
      simp [IsSome, FloatOps.same]

/-- over the exact carrier every grid value snaps to itself (hypothesis `GridAll` of `call_idem`) -/
theorem rat_gridAllScaled (s : Rat) (hs : s ≠ 0) : GridAllScaled s := by
  intro x y h _
  simp only [snap, gridIndex, ofGrid, FloatOps.round, FloatOps.div, FloatOps.ofInt, FloatOps.mul] at h
  injection h with h
  subst h
  exact rat_snap_self s hs _

/-- `ScaledInteger(0.1, 0, 10)` over the exact carrier -/
theorem rat_gridExact_example : GridExactScaled (1/10 : Rat) 0 10 := by
  have h0 : snap (1/10 : Rat) 0 = some 0 := by decide +kernel
  have h10 : snap (1/10 : Rat) 10 = some 10 := by decide +kernel
  refine ⟨?_, ?_, ?_⟩
  · intro lo h; rw [h0] at h; injection h with h; subst h; decide +kernel
  · intro hi h; rw [h10] at h; injection h with h; subst h; decide +kernel
  · intro x hon hbet
    obtain ⟨k, hk⟩ := hon
    have hx : x = (k : Rat) * (1/10) := by
      simp only [IsSome, ofGrid, FloatOps.ofInt, FloatOps.mul, FloatOps.same, decide_eq_true_eq] at hk
      exact hk.symm
    subst hx
    refine ⟨rat_snap_self _ (by decide +kernel) k, ?_⟩
    unfold BetweenSnapped at hbet
    rw [h0, h10] at hbet
    simp only [FloatOps.le, decide_eq_true_eq] at hbet
    simp only [isFinite, FloatOps.isNaN, FloatOps.le, FloatOps.abs, FloatOps.maxFinite, Bool.not_false, Bool.true_and,
      RatCarrier.big]
    split <;> grind

/-- over the exact carrier snapping is idempotent (the hypothesis of `revalidate_unchanged_partial`) -/
theorem rat_snapIdem : SnapIdem Rat := by
  intro s x y _ hp h hf
  have hs : s ≠ 0 := by
    intro e
    subst e
    revert hp
    decide +kernel
  exact rat_gridAllScaled s hs x y h hf

end Frappy.Lemmas.C01
