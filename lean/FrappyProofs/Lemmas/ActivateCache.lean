import FrappyProofs.Lemmas.ActivateDeadlock
import FrappyProofs.Lemmas.ActivateMatch
/-
The cache (value or error class AND time stamp) changes only by a store that is in the trace; the updater slot of a
connection works only inside a `read` / `change` request of that connection.
-/
namespace Frappy.Activate
open Frappy.Spec.C08

/-- `m:p` now holds `e`, nothing else changed -/
def storedAt (old new : Mod → Par → Entry) (m : Mod) (p : Par) (e : Entry) : Prop :=
  new m p = e ∧ ∀ m' p', ¬ (m' = m ∧ p' = p) → new m' p' = old m' p'

theorem cache_stepH (cfg : Cfg) (σ σ' : State) (c : Conn) (hs : stepH cfg σ c = some σ') : σ'.cache = σ.cache := by
  unfold stepH at hs
  step_cases hs
  all_goals first
    | rfl
    | simp

theorem cache_stepU (cfg : Cfg) (σ σ' : State) (k : Nat) (arg : Conn) (hs : stepU cfg σ k arg = some σ') :
    (σ'.cache = σ.cache ∧ ∀ u m p e, σ'.trace ≠ σ.trace ++ [.emit u m p e]) ∨
    ∃ m p e, σ'.trace = σ.trace ++ [.emit k m p e] ∧ emits cfg m p (σ.cache m p) e = true ∧ storedAt σ.cache σ'.cache m p e := by
  unfold stepU at hs
  step_cases hs
  all_goals first
    | (left; refine ⟨rfl, ?_⟩; intro u m p e h; simp at h; done)
    | (left; refine ⟨rfl, ?_⟩; intro u m p e h
       have := congrArg List.length h; simp at this; done)
    | (right; rename_i m p e _ _ _ hem
       exact ⟨m, p, e, rfl, hem, by simp [storedAt], by intro m' p' hne; simp [hne]⟩)
    | (left; refine ⟨rfl, ?_⟩; intro u m p e h; split at h <;> simp at h)

/-- an omitted announcement (repeated error, unchanged value inside its window, a parameter that is not exported) stores
nothing: the step leaves the cache alone and appends no event -/
theorem omitted_stores_nothing (cfg : Cfg) (σ σ' : State) (k : Nat) (arg : Conn) (m : Mod) (p : Par) (e : Entry)
    (rest : List (Mod × Par × Entry)) (hpc : σ.upc k = .idle) (hsc : σ.uscript k = (m, p, e) :: rest)
    (hem : emits cfg m p (σ.cache m p) e = false) (hs : stepU cfg σ k arg = some σ') :
    σ'.cache = σ.cache ∧ σ'.trace = σ.trace := by
  unfold stepU at hs
  simp only [hpc, hsc] at hs
  split at hs
  · simp only [hem, Bool.false_eq_true, ↓reduceIte, Option.some.injEq] at hs
    subst hs; exact ⟨rfl, rfl⟩
  · cases hs

/-- inside a call: the connection's thread is between the acquisition and the release of `accessLock` of a `read` / `change` -/
theorem inCall_curReq {pc : HPc} (h : inCall pc = true) : ∃ w m p e, curReq pc = some (.rw w m p e) := by
  cases pc <;> simp [inCall] at h
  rename_i w m p e n
  exact ⟨w, m, p, e, rfl⟩

end Frappy.Activate
