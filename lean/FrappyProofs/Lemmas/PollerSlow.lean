import FrappyProofs.Lemmas.Poller
/-
Lemmas for the refresh bound of the slow polls (`slow_refresh_bound`).
-/
namespace Frappy.Poller

/-! ## how a piece of the loop may change what the slow polls depend on -/

/-- the part of a module the slow polls depend on -/
def slowPart (m : Mod) : Bool × List Nat × Nat × Nat := (m.enabled, m.polled, m.slow, m.lastSlow)

/-- `σ'` comes after `σ`, nothing the slow polls depend on has changed, and the ghost for `(i, p)` has only grown -/
structure Step (i p : Nat) (σ σ' : PollState) : Prop where
  mono : σ.refreshed i p ≤ σ'.refreshed i p
  k : σ.stamp i p ≤ σ.refreshed i p → σ'.stamp i p ≤ σ'.refreshed i p
  slow : σ'.mods.map slowPart = σ.mods.map slowPart
  poll : σ'.toPoll = σ.toPoll
  clk : σ.clock ≤ σ'.clock

theorem Step.refl (i p : Nat) (σ : PollState) : Step i p σ σ := ⟨Nat.le_refl _, id, rfl, rfl, Nat.le_refl _⟩

theorem Step.trans {i p : Nat} {a b c : PollState} (h1 : Step i p a b) (h2 : Step i p b c) : Step i p a c :=
  ⟨Nat.le_trans h1.mono h2.mono, fun h => h2.k (h1.k h), h2.slow.trans h1.slow, h2.poll.trans h1.poll,
   Nat.le_trans h1.clk h2.clk⟩

theorem applyExts_stamp (es : List Ext) : ∀ σ, (applyExts es σ).stamp = σ.stamp := by
  induction es with
  | nil => intro σ; rfl
  | cons e es ih => intro σ; simp only [applyExts, List.foldl_cons] at ih ⊢; rw [ih]; rfl

theorem applyExts_refreshed (es : List Ext) : ∀ σ, (applyExts es σ).refreshed = σ.refreshed := by
  induction es with
  | nil => intro σ; rfl
  | cons e es ih => intro σ; simp only [applyExts, List.foldl_cons] at ih ⊢; rw [ih]; rfl

theorem applyTouch_ghost (i p : Nat) (σ : PollState) (t : Touch) :
    σ.refreshed i p ≤ (applyTouch σ t).refreshed i p ∧
    (σ.stamp i p ≤ σ.refreshed i p → (applyTouch σ t).stamp i p ≤ (applyTouch σ t).refreshed i p) := by
  simp only [applyTouch, bump, setStamp]
  by_cases h : i = t.m ∧ p = t.p
  · simp only [h, and_self, if_true]
    exact ⟨Nat.le_max_left _ _, fun _ => Nat.le_max_right _ _⟩
  · simp only [h, if_false]
    exact ⟨Nat.le_refl _, id⟩

theorem applyTouches_ghost (i p : Nat) (ts : List Touch) : ∀ σ,
    σ.refreshed i p ≤ (applyTouches ts σ).refreshed i p ∧
    (σ.stamp i p ≤ σ.refreshed i p → (applyTouches ts σ).stamp i p ≤ (applyTouches ts σ).refreshed i p) := by
  induction ts with
  | nil => intro σ; exact ⟨Nat.le_refl _, id⟩
  | cons t ts ih =>
    intro σ
    simp only [applyTouches, List.foldl_cons] at ih ⊢
    obtain ⟨a, b⟩ := applyTouch_ghost i p σ t
    obtain ⟨c, d⟩ := ih (applyTouch σ t)
    exact ⟨Nat.le_trans a c, fun h => d (b h)⟩

theorem runCall_step (env : Env) (hq : Quiet env) (i p : Nat) (σ : PollState) : Step i p σ (runCall env σ) := by
  have hg := applyTouches_ghost i p (env.touch σ.nCall) { σ with clock := σ.clock + env.dur σ.nCall, nCall := σ.nCall + 1 }
  refine ⟨?_, ?_, ?_, runCall_toPoll env σ, by rw [runCall_clock]; omega⟩
  · show _ ≤ (applyExts _ _).refreshed i p
    rw [applyExts_refreshed]; exact hg.1
  · intro h
    show (applyExts _ _).stamp i p ≤ (applyExts _ _).refreshed i p
    rw [applyExts_stamp, applyExts_refreshed]; exact hg.2 h
  · rw [runCall_mods env hq]

theorem noteRead_step (i p : Nat) (σ : PollState) (m : Nat) (f : Fn) : Step i p σ (noteRead σ m f) := by
  refine ⟨?_, ?_, rfl, rfl, Nat.le_refl _⟩
  · simp only [noteRead]; split
    · exact Nat.le_max_left _ _
    · exact Nat.le_refl _
  · intro h
    simp only [noteRead]; split
    · exact Nat.le_trans h (Nat.le_max_left _ _)
    · exact h

theorem call_step (env : Env) (hq : Quiet env) (i p : Nat) (σ : PollState) (m : Nat) (f : Fn) :
    Step i p σ (call env σ m f).σ :=
  (noteRead_step i p σ m f).trans (runCall_step env hq i p _)

/-- reading `(i, p)` itself makes the ghost at least the start time of the call -/
theorem call_read_refreshed (env : Env) (hq : Quiet env) (i p : Nat) (σ : PollState) :
    σ.clock ≤ (call env σ i (.read p)).σ.refreshed i p := by
  have h1 : σ.clock ≤ (noteRead σ i (.read p)).refreshed i p := by
    simp only [noteRead, and_self, if_true]; exact Nat.le_max_right _ _
  exact Nat.le_trans h1 (runCall_step env hq i p _).mono

theorem readClock_step (env : Env) (i p : Nat) (σ : PollState) : Step i p σ (readClock env σ) :=
  ⟨Nat.le_refl _, id, rfl, rfl, by simp only [readClock]; omega⟩

theorem markMain_slowPart (now clock : Nat) (m : Mod) : slowPart (markMain now clock m) = slowPart m := rfl

theorem pollMain_step (env : Env) (hq : Quiet env) (i p : Nat) (σ : PollState) (now j : Nat) :
    Step i p σ (pollMain env σ now j).σ := by
  unfold pollMain
  split
  · exact Step.refl i p σ
  · split
    · have h0 : Step i p σ { σ with mods := updAt (markMain now σ.clock) j σ.mods } :=
        ⟨Nat.le_refl _, id, updAt_map slowPart _ (markMain_slowPart now σ.clock) _ _, rfl, Nat.le_refl _⟩
      exact h0.trans (call_step env hq i p _ j .doPoll)
    · exact Step.refl i p σ

theorem sweep_step (env : Env) (hq : Quiet env) (D E : Nat) (hb : Bounded env D E) (i p : Nat) (is : List Nat) :
    ∀ σ now evs, Step i p σ (sweep env is σ now evs).σ ∧
      (sweep env is σ now evs).σ.clock ≤ σ.clock + is.length * (D + E) ∧
      (now = σ.clock → (sweep env is σ now evs).now = (sweep env is σ now evs).σ.clock) := by
  induction is with
  | nil => intro σ now evs; exact ⟨Step.refl i p σ, by simp [sweep], fun h => h⟩
  | cons j is ih =>
    intro σ now evs
    simp only [sweep]
    obtain ⟨a, b, c⟩ := ih (readClock env (pollMain env σ now j).σ) (readClock env (pollMain env σ now j).σ).clock
      (evs ++ (pollMain env σ now j).evs)
    have hc := pollMain_clock env hq D E hb σ now j
    have hr := readClock_clock env D E hb (pollMain env σ now j).σ
    refine ⟨((pollMain_step env hq i p σ now j).trans (readClock_step env i p _)).trans a, ?_, fun _ => c rfl⟩
    simp only [List.length_cons]
    have : (is.length + 1) * (D + E) = is.length * (D + E) + (D + E) := by rw [Nat.add_mul]; omega
    omega

end Frappy.Poller

namespace Frappy.Poller

/-! ## the iterator -/

theorem scan_split (σ : PollState) (now : Nat) : ∀ (l : List Entry) (e : Entry) (rest : List Entry),
    scan σ now l = some (e, rest) →
    ∃ pre, l = pre ++ e :: rest ∧ (∀ x ∈ pre, stale σ now x = false) ∧ stale σ now e = true := by
  intro l
  induction l with
  | nil => intro e rest h; cases h
  | cons a as ih =>
    intro e rest h
    simp only [scan] at h
    split at h
    · rename_i hs
      cases h
      exact ⟨[], rfl, (fun x hx => by cases hx), hs⟩
    · rename_i hs
      obtain ⟨pre, h1, h2, h3⟩ := ih e rest h
      refine ⟨a :: pre, by rw [h1]; rfl, ?_, h3⟩
      intro x hx
      rcases List.mem_cons.1 hx with rfl | hx
      · simpa using hs
      · exact h2 x hx

theorem scan_none (σ : PollState) (now : Nat) : ∀ (l : List Entry), scan σ now l = none →
    ∀ x ∈ l, stale σ now x = false := by
  intro l
  induction l with
  | nil => intro _ x hx; cases hx
  | cons a as ih =>
    intro h x hx
    simp only [scan] at h
    split at h
    · cases h
    · rename_i hs
      rcases List.mem_cons.1 hx with rfl | hx
      · simpa using hs
      · exact ih h x hx

/-- an entry that the scan passed over without calling it has a fresh time stamp -/
theorem fresh_bound (σ : PollState) (now i p S : Nat) (m : Mod) (hm : σ.mods[i]? = some m) (hS : m.slow = S)
    (h : stale σ now (i, p) = false) : now ≤ σ.stamp i p + S / 2 := by
  simp only [stale, slowOf, hm, hS, decide_eq_false_iff_not, Nat.not_lt] at h
  omega

/-! ## collecting -/

theorem collectEntries_length_le (now : Nat) : ∀ (mods : List Mod) (k : Nat),
    (collectEntries now k mods).length ≤ (allEntries k mods).length := by
  intro mods
  induction mods with
  | nil => intro k; simp [collectEntries, allEntries]
  | cons m ms ih =>
    intro k
    simp only [collectEntries, allEntries, List.length_append]
    have := ih (k + 1)
    by_cases hd : slowDue now m = true
    · have he : m.enabled = true := by
        simp only [slowDue, Bool.and_eq_true] at hd; exact hd.1
      simp only [hd, he, if_true]; omega
    · simp only [hd]
      simp only [Bool.false_eq_true, if_false, List.length_nil]
      omega

theorem collectEntries_mem (now : Nat) : ∀ (mods : List Mod) (k i p : Nat) (m : Mod), mods[i]? = some m →
    slowDue now m = true → p ∈ m.polled → (k + i, p) ∈ collectEntries now k mods := by
  intro mods
  induction mods with
  | nil => intro k i p m h; simp at h
  | cons a as ih =>
    intro k i p m h hd hp
    cases i with
    | zero =>
      simp only [List.getElem?_cons_zero, Option.some.injEq] at h
      subst h
      simp only [collectEntries, hd, if_true, List.mem_append, List.mem_map]
      exact Or.inl ⟨p, hp, rfl⟩
    | succ i =>
      simp only [List.getElem?_cons_succ] at h
      simp only [collectEntries, List.mem_append]
      right
      have := ih (k + 1) i p m h hd hp
      have e : k + 1 + i = k + (i + 1) := by omega
      rw [e] at this; exact this

theorem allEntries_congr : ∀ (a b : List Mod) (k : Nat),
    a.map (fun m => (m.enabled, m.polled)) = b.map (fun m => (m.enabled, m.polled)) →
    allEntries k a = allEntries k b := by
  intro a
  induction a with
  | nil => intro b k h; cases b with
    | nil => rfl
    | cons _ _ => simp at h
  | cons x xs ih =>
    intro b k h
    cases b with
    | nil => simp at h
    | cons y ys =>
      simp only [List.map_cons, List.cons.injEq, Prod.mk.injEq] at h
      simp only [allEntries, h.1.1, h.1.2, ih ys (k + 1) h.2]

theorem slowPart_ep (a b : List Mod) (h : a.map slowPart = b.map slowPart) :
    a.map (fun m => (m.enabled, m.polled)) = b.map (fun m => (m.enabled, m.polled)) := by
  have := congrArg (List.map (fun x : Bool × List Nat × Nat × Nat => (x.1, x.2.1))) h
  rw [List.map_map, List.map_map] at this
  exact this

theorem slowPart_get (a b : List Mod) (h : a.map slowPart = b.map slowPart) (i : Nat) (m : Mod)
    (hm : b[i]? = some m) : ∃ m', a[i]? = some m' ∧ slowPart m' = slowPart m := by
  have h1 : (a.map slowPart)[i]? = (b.map slowPart)[i]? := by rw [h]
  simp only [List.getElem?_map, hm, Option.map_some] at h1
  cases ha : a[i]? with
  | none => rw [ha] at h1; simp at h1
  | some m' => rw [ha] at h1; simp only [Option.map_some, Option.some.injEq] at h1; exact ⟨m', rfl, h1⟩

theorem markSlow_ep (now : Nat) (m : Mod) : (markSlow now m).enabled = m.enabled ∧ (markSlow now m).polled = m.polled ∧
    (markSlow now m).slow = m.slow := by
  unfold markSlow; split <;> exact ⟨rfl, rfl, rfl⟩

/-- the new `last_slow` of a collected module: on the grid, not later than `now`, less than one interval back -/
theorem grid_bounds (now S : Nat) (hS : 0 < S) : now / S * S ≤ now ∧ now < now / S * S + S := by
  constructor
  · exact Nat.div_mul_le_self now S
  · have := Nat.div_add_mod now S
    have h2 := Nat.mod_lt now hS
    rw [Nat.mul_comm] at this
    omega

end Frappy.Poller

namespace Frappy.Poller

/-! ## the potential -/

def dueOf (σ : PollState) (i : Nat) : Nat :=
  match σ.mods[i]? with
  | some m => m.lastSlow + m.slow
  | none => 0

/-- bound on the time until `(i,p)` is looked at when it is not in the iterator: the iterator (`len` entries) runs
out, the module becomes due, one more lap -/
def phiOut (N W clock len due : Nat) : Nat :=
  max (clock + (len + 1) * W) (due + (N + 1) * W) + (N + 1) * W

def PhiAt (i p N W c : Nat) (l : List Entry) (due : Nat) : Nat :=
  if (i, p) ∈ l then c + l.length * W else phiOut N W c l.length due

/-- the potential of a state: a time by which `(i, p)` will have been looked at by the slow phase -/
def PhiOf (i p N W : Nat) (σ : PollState) : Nat := PhiAt i p N W σ.clock (σ.toPoll.getD []) (dueOf σ i)

/-- the refresh bound: one and a half slow intervals, `2N+2` sweeps -/
def slowC (S N W : Nat) : Nat := S + S / 2 + (2 * N + 2) * W + 1

theorem phiOut_mono (N W c c' len len' due : Nat) (hc : c ≤ c') (hl : len ≤ len') :
    phiOut N W c len due ≤ phiOut N W c' len' due := by
  unfold phiOut
  have h1 : (len + 1) * W ≤ (len' + 1) * W := Nat.mul_le_mul_right W (by omega)
  omega

theorem PhiAt_le_out (i p N W c : Nat) (l : List Entry) (due : Nat) : PhiAt i p N W c l due ≤ phiOut N W c l.length due := by
  unfold PhiAt
  split
  · unfold phiOut
    have h1 : (l.length + 1) * W = l.length * W + W := by rw [Nat.add_mul]; omega
    omega
  · exact Nat.le_refl _

theorem clock_le_PhiAt (i p N W c : Nat) (l : List Entry) (due : Nat) : c ≤ PhiAt i p N W c l due := by
  unfold PhiAt
  split
  · omega
  · unfold phiOut; omega

/-- with evidence of a refresh at `R` (the clock is within `S/2 + (N+1)·W` of it, counting the iterator), the
potential is within the bound of `R` -/
theorem phiOut_evidence (S N W c len due R : Nat) (h1 : c + (len + 1) * W ≤ R + S / 2 + (N + 1) * W)
    (h2 : due ≤ R + S / 2 + S) : phiOut N W c len due ≤ R + slowC S N W := by
  unfold phiOut slowC
  have h3 : (2 * N + 2) * W = (N + 1) * W + (N + 1) * W := by
    rw [← Nat.add_mul]; congr 1; omega
  omega

/-- the potential when the module is not yet due and the iterator is short enough: it is `due + 2(N+1)W` -/
theorem phiOut_notdue (N W c len due : Nat) (h : c + (len + 1) * W ≤ due + (N + 1) * W) :
    phiOut N W c len due = due + (N + 1) * W + (N + 1) * W := by
  unfold phiOut; omega

theorem phiOut_ge_due (N W c len due : Nat) : due + (N + 1) * W + (N + 1) * W ≤ phiOut N W c len due := by
  unfold phiOut; omega

end Frappy.Poller

namespace Frappy.Poller

theorem PhiAt_mono_clock (i p N W c c' : Nat) (l : List Entry) (due : Nat) (h : c ≤ c') :
    PhiAt i p N W c l due ≤ PhiAt i p N W c' l due := by
  unfold PhiAt
  split
  · omega
  · exact phiOut_mono N W c c' _ _ due h (Nat.le_refl _)

/-- what the invariant says about module `i` -/
structure ModOk (i p S : Nat) (σ : PollState) (m : Mod) : Prop where
  get : σ.mods[i]? = some m
  en : m.enabled = true
  pol : p ∈ m.polled
  slow : m.slow = S
  ls : m.lastSlow ≤ σ.clock

theorem dueOf_eq (i p S : Nat) (σ : PollState) (m : Mod) (h : ModOk i p S σ m) : dueOf σ i = m.lastSlow + S := by
  unfold dueOf; rw [h.get]; simp only [h.slow]

/-- one slow poll: the entry `e` found after the fresh entries `pre` is called, `rest` stays in the iterator -/
theorem callEntry_phi (env : Env) (hq : Quiet env) (D E : Nat) (hb : Bounded env D E) (i p S N W : Nat) (hDW : D ≤ W)
    (σx : PollState) (m : Mod) (hok : ModOk i p S σx m) (pre rest : List Entry) (e : Entry)
    (hlen : (pre ++ e :: rest).length ≤ N) (hfresh : ∀ x ∈ pre, stale σx σx.clock x = false)
    (hk : σx.stamp i p ≤ σx.refreshed i p) :
    ModOk i p S (callEntry env σx e rest).σ m ∧ (callEntry env σx e rest).σ.mods = σx.mods ∧
    (callEntry env σx e rest).σ.toPoll = some rest ∧
    (callEntry env σx e rest).σ.stamp i p ≤ (callEntry env σx e rest).σ.refreshed i p ∧
    σx.refreshed i p ≤ (callEntry env σx e rest).σ.refreshed i p ∧
    σx.clock ≤ (callEntry env σx e rest).σ.clock ∧ (callEntry env σx e rest).σ.clock ≤ σx.clock + D ∧
    (((i, p) ∈ pre ∨ (i, p) = e) →
      PhiOf i p N W (callEntry env σx e rest).σ ≤ (callEntry env σx e rest).σ.refreshed i p + slowC S N W) ∧
    PhiOf i p N W (callEntry env σx e rest).σ ≤ PhiAt i p N W (σx.clock + D) rest (m.lastSlow + S) := by
  obtain ⟨hmods, hclo, hchi, _⟩ := callEntry_quiet env hq D E hb σx e rest i
  have st := call_step env hq i p σx e.1 (.read e.2)
  have hk' : (callEntry env σx e rest).σ.stamp i p ≤ (callEntry env σx e rest).σ.refreshed i p := st.k hk
  have hmono : σx.refreshed i p ≤ (callEntry env σx e rest).σ.refreshed i p := st.mono
  have hok' : ModOk i p S (callEntry env σx e rest).σ m :=
    ⟨by rw [hmods]; exact hok.get, hok.en, hok.pol, hok.slow, Nat.le_trans hok.ls hclo⟩
  have hphi : PhiOf i p N W (callEntry env σx e rest).σ =
      PhiAt i p N W (callEntry env σx e rest).σ.clock rest (m.lastSlow + S) := by
    unfold PhiOf
    rw [dueOf_eq i p S _ m hok']
    rfl
  have hlen' : rest.length + 1 ≤ N := by
    simp only [List.length_append, List.length_cons] at hlen; omega
  refine ⟨hok', hmods, rfl, hk', hmono, hclo, hchi, ?_, ?_⟩
  · intro hev
    have hR : σx.clock ≤ (callEntry env σx e rest).σ.refreshed i p + S / 2 := by
      rcases hev with hpre | he
      · have := fresh_bound σx σx.clock i p S m hok.get hok.slow (hfresh _ hpre)
        omega
      · have h1 := call_read_refreshed env hq i p σx
        have h2 : (callEntry env σx e rest).σ.refreshed i p = (call env σx e.1 (.read e.2)).σ.refreshed i p := rfl
        rw [h2, ← he]
        exact Nat.le_trans h1 (Nat.le_add_right _ _)
    rw [hphi]
    refine Nat.le_trans (PhiAt_le_out _ _ _ _ _ _ _) (phiOut_evidence S N W _ _ _ _ ?_ ?_)
    · have h1 : (rest.length + 1) * W ≤ N * W := Nat.mul_le_mul_right W hlen'
      have h2 : (N + 1) * W = N * W + W := by rw [Nat.add_mul]; omega
      omega
    · have := hok.ls; omega
  · rw [hphi]
    exact PhiAt_mono_clock _ _ _ _ _ _ _ _ hchi

end Frappy.Poller

namespace Frappy.Poller

/-- what the slow phase leaves behind -/
structure SlowOut (i p S N W : Nat) (σ1 σ' : PollState) (Φ0 : Nat) : Prop where
  ok : ∃ m', ModOk i p S σ' m'
  len : (σ'.toPoll.getD []).length ≤ N
  cnt : (allEntries 0 σ'.mods).length ≤ N
  mlen : σ'.mods.length = σ1.mods.length
  k : σ'.stamp i p ≤ σ'.refreshed i p
  mono : σ1.refreshed i p ≤ σ'.refreshed i p
  clk : σ1.clock ≤ σ'.clock
  phi : PhiOf i p N W σ' ≤ Φ0 ∨ PhiOf i p N W σ' ≤ σ'.refreshed i p + slowC S N W

theorem PhiOf_none (i p N W : Nat) (σ : PollState) (h : σ.toPoll = none) :
    PhiOf i p N W σ = phiOut N W σ.clock 0 (dueOf σ i) := by
  unfold PhiOf PhiAt; rw [h]; simp

theorem markSlow_map_ep (now : Nat) (mods : List Mod) :
    (mods.map (markSlow now)).map (fun m => (m.enabled, m.polled)) = mods.map (fun m => (m.enabled, m.polled)) := by
  rw [List.map_map]
  congr 1; funext m
  simp only [Function.comp, (markSlow_ep now m).1, (markSlow_ep now m).2.1]

theorem slowPhase_phi (env : Env) (hq : Quiet env) (D E : Nat) (hb : Bounded env D E) (i p S N W : Nat)
    (hDW : D ≤ W) (hS : 0 < S) (σ1 : PollState) (c0 : Nat) (m : Mod) (hok : ModOk i p S σ1 m)
    (hc0 : σ1.clock + D ≤ c0 + W) (hlen : (σ1.toPoll.getD []).length ≤ N)
    (hcnt : (allEntries 0 σ1.mods).length ≤ N) (hk : σ1.stamp i p ≤ σ1.refreshed i p) :
    SlowOut i p S N W σ1 (slowPhase env σ1 σ1.clock).σ
      (PhiAt i p N W c0 (σ1.toPoll.getD []) (m.lastSlow + S)) := by
  have hNW : (N + 1) * W = N * W + W := by rw [Nat.add_mul]; omega
  cases hsc : scan σ1 σ1.clock (σ1.toPoll.getD []) with
  | some er =>
    obtain ⟨e, rest⟩ := er
    have hsp : slowPhase env σ1 σ1.clock = callEntry env σ1 e rest := by
      unfold slowPhase; rw [hsc]
    rw [hsp]
    obtain ⟨pre, hl, hfresh, _⟩ := scan_split σ1 σ1.clock _ e rest hsc
    obtain ⟨a1, a2, a3, a4, a5, a6, a7, a8, a9⟩ := callEntry_phi env hq D E hb i p S N W hDW σ1 m hok pre rest e
      (by rw [← hl]; exact hlen) hfresh hk
    have hl1 : (σ1.toPoll.getD []).length = pre.length + (rest.length + 1) := by rw [hl]; simp
    refine ⟨⟨m, a1⟩, by rw [a3]; simp only [Option.getD_some]; omega, by rw [a2]; exact hcnt, by rw [a2], a4, a5, a6, ?_⟩
    by_cases h0 : (i, p) ∈ σ1.toPoll.getD []
    · have h0' := h0
      rw [hl, List.mem_append, List.mem_cons] at h0'
      rcases h0' with hp | hp | hp
      · exact Or.inr (a8 (Or.inl hp))
      · exact Or.inr (a8 (Or.inr hp))
      · left
        refine Nat.le_trans a9 ?_
        unfold PhiAt
        rw [if_pos hp, if_pos h0, hl1]
        have : (pre.length + (rest.length + 1)) * W = pre.length * W + (rest.length * W + W) := by
          rw [Nat.add_mul, Nat.add_mul]; omega
        omega
    · left
      refine Nat.le_trans a9 (Nat.le_trans (PhiAt_le_out _ _ _ _ _ _ _) ?_)
      unfold PhiAt
      rw [if_neg h0, hl1]
      unfold phiOut
      have : (pre.length + (rest.length + 1) + 1) * W = pre.length * W + ((rest.length + 1) * W + W) := by
        rw [Nat.add_mul, Nat.add_mul]; omega
      omega
  | none =>
    have hfresh1 := scan_none σ1 σ1.clock _ hsc
    -- the state after collecting
    have hmark : ({ σ1 with mods := σ1.mods.map (markSlow σ1.clock), toPoll := none } : PollState).mods[i]? =
        some (markSlow σ1.clock m) := by simp [hok.get]
    have hls2 : (markSlow σ1.clock m).lastSlow ≤ σ1.clock := by
      unfold markSlow; split
      · rw [hok.slow]; exact (grid_bounds σ1.clock S hS).1
      · exact hok.ls
    have hok2 : ModOk i p S { σ1 with mods := σ1.mods.map (markSlow σ1.clock), toPoll := none } (markSlow σ1.clock m) :=
      ⟨hmark, by rw [(markSlow_ep _ m).1]; exact hok.en, by rw [(markSlow_ep _ m).2.1]; exact hok.pol,
       by rw [(markSlow_ep _ m).2.2]; exact hok.slow, hls2⟩
    have hcnt2 : (allEntries 0 (σ1.mods.map (markSlow σ1.clock))).length ≤ N := by
      rw [allEntries_congr _ _ 0 (markSlow_map_ep σ1.clock σ1.mods)]; exact hcnt
    have hl2len : (collectEntries σ1.clock 0 σ1.mods).length ≤ N :=
      Nat.le_trans (collectEntries_length_le σ1.clock σ1.mods 0) hcnt
    -- evidence from the old iterator: `(i,p)` was in it and was passed over as fresh
    have hev1 : (i, p) ∈ σ1.toPoll.getD [] → σ1.clock ≤ σ1.refreshed i p + S / 2 := by
      intro h0
      have := fresh_bound σ1 σ1.clock i p S m hok.get hok.slow (hfresh1 _ h0)
      omega
    -- nothing is called: the state is the collected one
    have hnocall : ((i, p) ∈ σ1.toPoll.getD [] ∨ slowDue σ1.clock m = false ∨ σ1.clock ≤ σ1.refreshed i p + S / 2) →
        SlowOut i p S N W σ1 { σ1 with mods := σ1.mods.map (markSlow σ1.clock), toPoll := none }
          (PhiAt i p N W c0 (σ1.toPoll.getD []) (m.lastSlow + S)) := by
      intro hcase
      refine ⟨⟨_, hok2⟩, by simp, hcnt2, by simp, hk, Nat.le_refl _, Nat.le_refl _, ?_⟩
      rw [PhiOf_none i p N W _ rfl, dueOf_eq i p S _ _ hok2]
      have hev : σ1.clock ≤ σ1.refreshed i p + S / 2 → phiOut N W σ1.clock 0 ((markSlow σ1.clock m).lastSlow + S) ≤
          σ1.refreshed i p + slowC S N W := by
        intro h
        apply phiOut_evidence S N W _ _ _ _
        · omega
        · omega
      rcases hcase with h0 | hnd | hfr
      · exact Or.inr (hev (hev1 h0))
      · by_cases h0 : (i, p) ∈ σ1.toPoll.getD []
        · exact Or.inr (hev (hev1 h0))
        · left
          have hm2 : markSlow σ1.clock m = m := by unfold markSlow; rw [hnd]; rfl
          rw [hm2]
          simp only [slowDue, hok.en, Bool.true_and, decide_eq_false_iff_not, Nat.not_lt, hok.slow] at hnd
          unfold PhiAt; rw [if_neg h0]
          rw [phiOut_notdue N W σ1.clock 0 _ (by omega)]
          exact phiOut_ge_due _ _ _ _ _
      · exact Or.inr (hev hfr)
    have hsp : slowPhase env σ1 σ1.clock =
        (if (collectEntries σ1.clock 0 σ1.mods).isEmpty then
          ⟨{ σ1 with mods := σ1.mods.map (markSlow σ1.clock), toPoll := none }, []⟩
        else match scan { σ1 with mods := σ1.mods.map (markSlow σ1.clock), toPoll := none } σ1.clock
            (collectEntries σ1.clock 0 σ1.mods) with
          | some (e, rest) => callEntry env { σ1 with mods := σ1.mods.map (markSlow σ1.clock), toPoll := none } e rest
          | none => ⟨{ σ1 with mods := σ1.mods.map (markSlow σ1.clock), toPoll := none }, []⟩) := by
      unfold slowPhase; rw [hsc]; rfl
    rw [hsp]
    -- was the module collected?
    have hin2 : slowDue σ1.clock m = true → (i, p) ∈ collectEntries σ1.clock 0 σ1.mods := by
      intro hd
      have := collectEntries_mem σ1.clock σ1.mods 0 i p m hok.get hd hok.pol
      simpa using this
    split
    · -- nothing to collect
      rename_i hempty
      apply hnocall
      cases hd : slowDue σ1.clock m with
      | false => exact Or.inr (Or.inl rfl)
      | true =>
        have := hin2 hd
        rw [List.isEmpty_iff] at hempty
        rw [hempty] at this; cases this
    · cases hsc2 : scan { σ1 with mods := σ1.mods.map (markSlow σ1.clock), toPoll := none } σ1.clock
          (collectEntries σ1.clock 0 σ1.mods) with
      | none =>
        simp only
        apply hnocall
        cases hd : slowDue σ1.clock m with
        | false => exact Or.inr (Or.inl rfl)
        | true =>
          right; right
          have hf := scan_none _ σ1.clock _ hsc2 _ (hin2 hd)
          have := fresh_bound _ σ1.clock i p S _ hmark hok2.slow hf
          have hk0 := hk
          simp only at this
          omega
      | some er =>
        obtain ⟨e, rest⟩ := er
        simp only
        obtain ⟨pre, hl, hfresh, _⟩ := scan_split _ σ1.clock _ e rest hsc2
        obtain ⟨a1, a2, a3, a4, a5, a6, a7, a8, a9⟩ := callEntry_phi env hq D E hb i p S N W hDW
          { σ1 with mods := σ1.mods.map (markSlow σ1.clock), toPoll := none } (markSlow σ1.clock m) hok2 pre rest e
          (by rw [← hl]; exact hl2len) hfresh hk
        have hl1 : (collectEntries σ1.clock 0 σ1.mods).length = pre.length + (rest.length + 1) := by rw [hl]; simp
        have hrest : rest.length + 1 ≤ N := by omega
        have hrW : (rest.length + 1) * W ≤ N * W := Nat.mul_le_mul_right W hrest
        have hrW2 : (rest.length + 1) * W = rest.length * W + W := by rw [Nat.add_mul]; omega
        refine ⟨⟨_, a1⟩, by rw [a3]; simp only [Option.getD_some]; omega, by rw [a2]; exact hcnt2,
          by rw [a2]; simp, a4, a5, a6, ?_⟩
        -- general evidence route
        have hev : σ1.clock ≤ σ1.refreshed i p + S / 2 →
            PhiOf i p N W (callEntry env { σ1 with mods := σ1.mods.map (markSlow σ1.clock), toPoll := none } e rest).σ ≤
              (callEntry env { σ1 with mods := σ1.mods.map (markSlow σ1.clock), toPoll := none } e rest).σ.refreshed i p +
                slowC S N W := by
          intro h
          refine Nat.le_trans a9 (Nat.le_trans (PhiAt_le_out _ _ _ _ _ _ _) ?_)
          apply phiOut_evidence S N W _ _ _ _
          · simp only at a5 ⊢; omega
          · simp only at a5 ⊢; omega
        by_cases h0 : (i, p) ∈ σ1.toPoll.getD []
        · exact Or.inr (hev (hev1 h0))
        · cases hd : slowDue σ1.clock m with
          | false =>
            left
            have hm2 : markSlow σ1.clock m = m := by unfold markSlow; rw [hd]; rfl
            rw [hm2] at a9
            simp only [slowDue, hok.en, Bool.true_and, decide_eq_false_iff_not, Nat.not_lt, hok.slow] at hd
            refine Nat.le_trans a9 (Nat.le_trans (PhiAt_le_out _ _ _ _ _ _ _) ?_)
            unfold PhiAt; rw [if_neg h0]
            rw [phiOut_notdue N W _ rest.length _ (by simp only; omega)]
            exact phiOut_ge_due _ _ _ _ _
          | true =>
            have hmem := hin2 hd
            rw [hl, List.mem_append, List.mem_cons] at hmem
            rcases hmem with hp | hp | hp
            · exact Or.inr (a8 (Or.inl hp))
            · exact Or.inr (a8 (Or.inr hp))
            · left
              refine Nat.le_trans a9 ?_
              unfold PhiAt
              rw [if_pos hp, if_neg h0]
              unfold phiOut
              simp only
              omega

end Frappy.Poller

namespace Frappy.Poller

/-! ## waits do not touch the ghost, and do not run backwards -/

theorem waitBatches_ghost (timeout t0 : Nat) (bs : List (Nat × List Ext)) : ∀ σ,
    (waitBatches timeout t0 bs σ).stamp = σ.stamp ∧ (waitBatches timeout t0 bs σ).refreshed = σ.refreshed ∧
    t0 ≤ (waitBatches timeout t0 bs σ).clock := by
  induction bs with
  | nil => intro σ; exact ⟨rfl, rfl, Nat.le_add_right _ _⟩
  | cons b bs ih =>
    intro σ
    obtain ⟨d, exts⟩ := b
    simp only [waitBatches]
    split
    · split
      · exact ⟨applyExts_stamp exts σ, applyExts_refreshed exts σ, Nat.le_add_right _ _⟩
      · obtain ⟨a, b, c⟩ := ih (applyExts exts σ)
        exact ⟨by rw [a, applyExts_stamp], by rw [b, applyExts_refreshed], c⟩
    · exact ⟨rfl, rfl, Nat.le_add_right _ _⟩

theorem waitEvent_ghost (env : Env) (σ : PollState) (timeout : Nat) :
    (waitEvent env σ timeout).stamp = σ.stamp ∧ (waitEvent env σ timeout).refreshed = σ.refreshed ∧
    σ.clock ≤ (waitEvent env σ timeout).clock := by
  unfold waitEvent
  simp only
  split
  · exact ⟨rfl, rfl, Nat.le_refl _⟩
  · exact waitBatches_ghost timeout σ.clock _ σ

theorem doWait_ghost (env : Env) (σ : PollState) (timeout : Nat) :
    (doWait env σ timeout).stamp = σ.stamp ∧ (doWait env σ timeout).refreshed = σ.refreshed ∧
    σ.clock ≤ (doWait env σ timeout).clock := by
  obtain ⟨a, b, c⟩ := waitEvent_ghost env σ timeout
  refine ⟨?_, ?_, by rw [doWait_clock]; exact c⟩
  · show (applyExts (env.gap σ.nWait) (waitEvent env σ timeout)).stamp = σ.stamp
    rw [applyExts_stamp, a]
  · show (applyExts (env.gap σ.nWait) (waitEvent env σ timeout)).refreshed = σ.refreshed
    rw [applyExts_refreshed, b]

/-! ## the invariant of the refresh bound -/

structure SlowInv (i p S N W n t0 : Nat) (σ : PollState) : Prop where
  ok : ∃ m, ModOk i p S σ m
  len : (σ.toPoll.getD []).length ≤ N
  cnt : (allEntries 0 σ.mods).length ≤ N
  mlen : σ.mods.length = n
  k : σ.stamp i p ≤ σ.refreshed i p
  j : PhiOf i p N W σ ≤ max (σ.refreshed i p) t0 + slowC S N W

theorem turn_slowInv (c : Consts) (env : Env) (hq : Quiet env) (D E : Nat) (hb : Bounded env D E)
    (i p S N n t0 : Nat) (hS : 0 < S) (σ : PollState)
    (h : SlowInv i p S N (sweepBound n D E) n t0 σ) :
    SlowInv i p S N (sweepBound n D E) n t0 (turn c env σ).σ := by
  obtain ⟨⟨m, hok⟩, hlen, hcnt, hmlen, hk, hj⟩ := h
  have hrc := readClock_clock env D E hb σ
  unfold turn
  simp only
  split
  · -- waiting
    rename_i hw
    obtain ⟨hmods, hchi⟩ := doWait_quiet env hq (readClock env σ)
      (wakeAt c (readClock env σ).clock (readClock env σ).mods - (readClock env σ).clock)
    obtain ⟨hst, hrf, hclo⟩ := doWait_ghost env (readClock env σ)
      (wakeAt c (readClock env σ).clock (readClock env σ).mods - (readClock env σ).clock)
    have htp : (doWait env (readClock env σ)
        (wakeAt c (readClock env σ).clock (readClock env σ).mods - (readClock env σ).clock)).toPoll = none := by
      rw [doWait_toPoll, readClock_toPoll]
      have := hw.2
      cases hp : σ.toPoll with
      | none => rfl
      | some l => rw [readClock_toPoll, hp] at this; simp at this
    have hwk := (wakeAt_le c (readClock env σ).clock (readClock env σ).mods i m hok.get hok.en).2
    have hσtp : σ.toPoll = none := by rw [doWait_toPoll, readClock_toPoll] at htp; exact htp
    have hok' : ModOk i p S (doWait env (readClock env σ)
        (wakeAt c (readClock env σ).clock (readClock env σ).mods - (readClock env σ).clock)) m :=
      ⟨by rw [hmods]; exact hok.get, hok.en, hok.pol, hok.slow, by have := hok.ls; omega⟩
    refine ⟨⟨m, hok'⟩, by rw [htp]; simp, by rw [hmods]; exact hcnt, by rw [hmods]; exact hmlen,
      by rw [hst, hrf]; exact hk, ?_⟩
    rw [PhiOf_none _ _ _ _ _ htp, dueOf_eq i p S _ m hok', hrf]
    rw [PhiOf_none _ _ _ _ _ hσtp, dueOf_eq i p S _ m hok] at hj
    have h1 := phiOut_ge_due N (sweepBound n D E) σ.clock 0 (m.lastSlow + S)
    rw [phiOut_notdue N (sweepBound n D E) _ 0 _ (by
      have hNW : (N + 1) * sweepBound n D E = N * sweepBound n D E + sweepBound n D E := by rw [Nat.add_mul]; omega
      have := hok.slow
      have hw1 := hw.1
      omega)]
    exact Nat.le_trans h1 hj
  · -- sweeping, then the slow phase
    obtain ⟨st, hcl, hnow⟩ := sweep_step env hq D E hb i p (List.range (readClock env σ).mods.length)
      (readClock env σ) (readClock env σ).clock []
    have hnow' := hnow rfl
    rw [hnow']
    have st0 : Step i p σ (sweep env (List.range (readClock env σ).mods.length) (readClock env σ)
        (readClock env σ).clock []).σ := (readClock_step env i p σ).trans st
    generalize (sweep env (List.range (readClock env σ).mods.length) (readClock env σ)
        (readClock env σ).clock []).σ = σ1 at *
    obtain ⟨m1, hm1, hsp⟩ := slowPart_get σ1.mods σ.mods st0.slow i m hok.get
    simp only [slowPart, Prod.mk.injEq] at hsp
    have hok1 : ModOk i p S σ1 m1 :=
      ⟨hm1, by rw [hsp.1]; exact hok.en, by rw [hsp.2.1]; exact hok.pol, by rw [hsp.2.2.1]; exact hok.slow,
       by rw [hsp.2.2.2]; exact Nat.le_trans hok.ls st0.clk⟩
    have hlenr : (List.range (readClock env σ).mods.length).length = n := by
      rw [List.length_range]; exact hmlen
    rw [hlenr] at hcl
    have hW : σ1.clock + D ≤ σ.clock + sweepBound n D E := by
      unfold sweepBound; omega
    have hDW : D ≤ sweepBound n D E := by unfold sweepBound; omega
    have hcnt1 : (allEntries 0 σ1.mods).length ≤ N := by
      rw [allEntries_congr _ _ 0 (slowPart_ep _ _ st0.slow)]; exact hcnt
    have hmlen1 : σ1.mods.length = n := by
      have := congrArg List.length st0.slow
      simp only [List.length_map] at this
      rw [this]; exact hmlen
    have out := slowPhase_phi env hq D E hb i p S N (sweepBound n D E) hDW hS σ1 σ.clock m1 hok1 hW
      (by rw [st0.poll]; exact hlen) hcnt1 (st0.k hk)
    obtain ⟨ok', len', cnt', mlen', k', mono', _, phi'⟩ := out
    refine ⟨ok', len', cnt', by rw [mlen']; exact hmlen1, k', ?_⟩
    have hmono : σ.refreshed i p ≤ (slowPhase env σ1 σ1.clock).σ.refreshed i p := Nat.le_trans st0.mono mono'
    show PhiOf i p N (sweepBound n D E) (slowPhase env σ1 σ1.clock).σ ≤
      max ((slowPhase env σ1 σ1.clock).σ.refreshed i p) t0 + slowC S N (sweepBound n D E)
    rcases phi' with h | h
    · have heq : PhiAt i p N (sweepBound n D E) σ.clock (σ1.toPoll.getD []) (m1.lastSlow + S) =
          PhiOf i p N (sweepBound n D E) σ := by
        unfold PhiOf
        rw [dueOf_eq i p S σ m hok, st0.poll, hsp.2.2.2]
      rw [heq] at h
      omega
    · omega

theorem run_slowInv (c : Consts) (env : Env) (hq : Quiet env) (D E : Nat) (hb : Bounded env D E)
    (i p S N n t0 : Nat) (hS : 0 < S) (k : Nat) : ∀ (σ : PollState) (evs : List Event),
    SlowInv i p S N (sweepBound n D E) n t0 σ → SlowInv i p S N (sweepBound n D E) n t0 (run c env k σ evs).σ := by
  induction k with
  | zero => intro σ evs h; exact h
  | succ k ih =>
    intro σ evs h
    simp only [run]
    exact ih _ _ (turn_slowInv c env hq D E hb i p S N n t0 hS σ h)

end Frappy.Poller

namespace Frappy.Poller

/-! ## the start-up round, for the refresh bound -/

theorem writeOne_step (env : Env) (hq : Quiet env) (i p j q : Nat) (σ : PollState) :
    Step i p σ (writeOne env σ j q).σ := by
  have h0 : Step i p σ { σ with pending := popPending σ.pending j q } :=
    ⟨Nat.le_refl _, id, rfl, rfl, Nat.le_refl _⟩
  have h1 := call_step env hq i p { σ with pending := popPending σ.pending j q } j (.write q)
  have h2 : Step i p (call env { σ with pending := popPending σ.pending j q } j (.write q)).σ (writeOne env σ j q).σ :=
    ⟨Nat.le_refl _, id, rfl, rfl, Nat.le_refl _⟩
  exact (h0.trans h1).trans h2

theorem writeParams_step (env : Env) (hq : Quiet env) (i p j : Nat) (ps : List Nat) : ∀ σ evs,
    Step i p σ (writeParams env j ps σ evs).σ := by
  induction ps with
  | nil => intro σ evs; exact Step.refl i p σ
  | cons q ps ih =>
    intro σ evs
    simp only [writeParams]
    split
    · exact (writeOne_step env hq i p j q σ).trans (ih _ _)
    · exact ih _ _

theorem writeInit_step (env : Env) (hq : Quiet env) (i p j : Nat) (σ : PollState) (evs : List Event) :
    Step i p σ (writeInit env σ j evs).σ := writeParams_step env hq i p j _ σ evs

theorem initAll_step (env : Env) (hq : Quiet env) (i p : Nat) (is : List Nat) : ∀ σ evs,
    Step i p σ (initAll env is σ evs).σ := by
  induction is with
  | nil => intro σ evs; exact Step.refl i p σ
  | cons j is ih =>
    intro σ evs
    simp only [initAll]
    have h2 := (writeInit_step env hq i p j σ evs).trans (call_step env hq i p (writeInit env σ j evs).σ j .init)
    split
    · exact h2
    · exact h2.trans (ih _ _)

theorem readAll_step (env : Env) (hq : Quiet env) (i p : Nat) (es : List Entry) : ∀ σ evs,
    Step i p σ (readAll env es σ evs).σ := by
  induction es with
  | nil => intro σ evs; exact Step.refl i p σ
  | cons e es ih =>
    intro σ evs
    simp only [readAll]
    split
    · exact call_step env hq i p σ e.1 (.read e.2)
    · exact (call_step env hq i p σ e.1 (.read e.2)).trans (ih _ _)

theorem waitEvent_step (env : Env) (hq : Quiet env) (i p : Nat) (σ : PollState) (timeout : Nat) :
    Step i p σ (waitEvent env σ timeout) := by
  obtain ⟨a, b, c⟩ := waitEvent_ghost env σ timeout
  refine ⟨?_, ?_, ?_, waitEvent_toPoll env σ timeout, c⟩
  · rw [b]; exact Nat.le_refl _
  · intro h
    rw [a, b]; exact h
  · rw [waitEvent_quiet env hq]

theorem lateAll_step (env : Env) (hq : Quiet env) (i p : Nat) (is : List Nat) : ∀ σ evs,
    Step i p σ (lateAll env is σ evs).σ := by
  induction is with
  | nil => intro σ evs; exact Step.refl i p σ
  | cons j is ih =>
    intro σ evs
    simp only [lateAll]
    exact (writeInit_step env hq i p j σ evs).trans (ih _ _)

theorem startupRound_step (c : Consts) (env : Env) (hq : Quiet env) (i p : Nat) (σ : PollState) :
    Step i p σ (startupRound c env σ).σ := by
  have h1 := initAll_step env hq i p (List.range σ.mods.length) σ []
  unfold startupRound
  simp only
  split
  · exact h1.trans (waitEvent_step env hq i p _ _)
  · have h2 := readAll_step env hq i p (allEntries 0 (initAll env (List.range σ.mods.length) σ []).σ.mods)
      (initAll env (List.range σ.mods.length) σ []).σ (initAll env (List.range σ.mods.length) σ []).evs
    split
    · exact (h1.trans h2).trans (waitEvent_step env hq i p _ _)
    · exact h1.trans h2

theorem prologue_step (c : Consts) (env : Env) (hq : Quiet env) (i p : Nat) (σ : PollState) :
    Step i p σ (prologue c env σ).σ := by
  unfold prologue
  exact (startupRound_step c env hq i p σ).trans (lateAll_step env hq i p _ _ _)

theorem run_σ_indep (c : Consts) (env : Env) (k : Nat) : ∀ (σ : PollState) (evs : List Event),
    (run c env k σ evs).σ = (run c env k σ []).σ := by
  induction k with
  | zero => intro σ evs; rfl
  | succ k ih => intro σ evs; simp only [run]; rw [ih, ih _ ([] ++ _)]

end Frappy.Poller
