import FrappyProofs.Lemmas.CommRun
/- helper lemmas for C16: the receive buffer holds exactly what arrived since the last send -/
open Frappy.Spec.C16
namespace Frappy.Comm

/-- position i holds the last send of the log; it is `c`'s, on connection `conn`, with send number `n` -/
def LastSend (log : Log) (i c conn n : Nat) : Prop :=
  (∃ d, evAt log i = some (.send c conn n d)) ∧ ∀ m, i < m → m < log.length → sendAt log m = none

/-- the communicator drops its connection at this position -/
def hcloseAt (log : Log) (m : Nat) : Bool :=
  match evAt log m with
  | some (.hclose _) => true
  | _ => false

/-- the connection is neither replaced (successful connect) nor dropped (closeConnection) after position i -/
def NoConnectAfter (log : Log) (i : Nat) : Prop :=
  ∀ m, i < m → m < log.length → okConnectBy log m = none ∧ hcloseAt log m = false

/-- what the last event of a log contributes to `arrivedIn` -/
def contrib (conn : Nat) (tag : Option Nat) (e : Ev) : Bytes :=
  match e with
  | .arrive conn' tg data => if conn' == conn && (tag.isNone || tg == tag) then data else []
  | _ => []

theorem flatMap_congr' {α β : Type} : ∀ {l : List α} {f g : α → List β}, (∀ a ∈ l, f a = g a) → l.flatMap f = l.flatMap g
  | [], _, _, _ => rfl
  | a :: l, f, g, h => by
    simp only [List.flatMap_cons]
    rw [h a (by simp), flatMap_congr' (fun b hb => h b (by simp [hb]))]

theorem range_succ_filter (n i : Nat) (h : i < n) :
    (List.range (n + 1)).filter (fun m => decide (i < m)) = (List.range n).filter (fun m => decide (i < m)) ++ [n] := by
  rw [List.range_succ, List.filter_append]; simp [h]

theorem arrivedIn_snoc (log : Log) (e : TEv) (conn : Nat) (tag : Option Nat) (i : Nat) (h : i < log.length) :
    arrivedIn (log ++ [e]) conn tag i (log.length + 1) = arrivedIn log conn tag i log.length ++ contrib conn tag e.ev := by
  unfold arrivedIn
  rw [range_succ_filter _ _ h, List.flatMap_append]
  congr 1
  · apply flatMap_congr'
    intro m hm
    simp only [List.mem_filter, List.mem_range] at hm
    rw [evAt_append_lt log e m hm.1]
  · simp only [List.flatMap_cons, List.flatMap_nil, List.append_nil, evAt_append_eq, contrib]
    cases e.ev <;> rfl

theorem arrivedIn_empty (log : Log) (conn : Nat) (tag : Option Nat) (i : Nat) : arrivedIn log conn tag i (i + 1) = [] := by
  unfold arrivedIn
  have : (List.range (i + 1)).filter (fun m => decide (i < m)) = [] := by
    apply List.filter_eq_nil_iff.2
    intro m hm; simp only [List.mem_range] at hm; simp; omega
  rw [this]; rfl

theorem lastSend_lt {log : Log} {i c conn n : Nat} (h : LastSend log i c conn n) : i < log.length := by
  obtain ⟨⟨d, hd⟩, _⟩ := h
  false_or_by_contra; rename_i hn
  rw [evAt_none log i (by omega)] at hd; simp at hd

theorem lastSend_extend {log : Log} {e : TEv} {i c conn n : Nat} (h : LastSend log i c conn n)
    (hs : sendAt (log ++ [e]) log.length = none) : LastSend (log ++ [e]) i c conn n := by
  have hlt := lastSend_lt h
  obtain ⟨⟨d, hd⟩, hno⟩ := h
  refine ⟨⟨d, by rw [evAt_append_lt log e i hlt]; exact hd⟩, ?_⟩
  intro m h1 h2
  simp only [List.length_append, List.length_singleton] at h2
  rcases Nat.lt_or_ge m log.length with hm | hm
  · rw [sendAt_append_lt log e m hm]; exact hno m h1 hm
  · have : m = log.length := by omega
    subst this; exact hs

theorem noConnect_restrict {log : Log} {e : TEv} {i : Nat} (h : NoConnectAfter (log ++ [e]) i) : NoConnectAfter log i := by
  intro m h1 h2
  have := h m h1 (by simp; omega)
  simpa [okConnectBy, hcloseAt, evAt_append_lt log e m h2] using this

structure RInv (log : Log) (s : State) : Prop where
  r : ∀ c, (s.callers c).pc = .read → ∃ i conn n, LastSend log i c conn n ∧
        (NoConnectAfter log i → s.conn = some conn ∧ s.rxbuf ++ s.chan.flatten = arrivedIn log conn none i log.length)

theorem rinv_init (cfg : Cfg) (cbs : List Nat) : RInv [] { cfg := cfg, cbsReg := cbs } :=
  ⟨fun c h => by simp at h⟩

/-- a device event, or any event that changes neither the callers nor buffer and channel except by the arrival -/
theorem rinv_env {log : Log} {s s' : State} (e : TEv) (hr : RInv log s) (hc : s'.callers = s.callers)
    (hs : sendAt (log ++ [e]) log.length = none) (hconn : s'.conn = s.conn)
    (hbuf : ∀ conn, s.conn = some conn → s'.rxbuf ++ s'.chan.flatten = s.rxbuf ++ s.chan.flatten ++ contrib conn none e.ev) :
    RInv (log ++ [e]) s' := by
  refine ⟨fun c hp => ?_⟩
  rw [hc] at hp
  obtain ⟨i, conn, n, hl, himp⟩ := hr.r c hp
  refine ⟨i, conn, n, lastSend_extend hl hs, fun hnc => ?_⟩
  obtain ⟨h1, h2⟩ := himp (noConnect_restrict hnc)
  refine ⟨by rw [hconn]; exact h1, ?_⟩
  simp only [List.length_append, List.length_singleton]
  rw [arrivedIn_snoc log e conn none i (lastSend_lt hl), ← h2]
  exact hbuf conn h1


theorem contrib_caller {e : Ev} {c0 : Nat} (hw : e.who = some c0) (conn : Nat) (tag : Option Nat) : contrib conn tag e = [] := by
  cases e <;> simp [Ev.who] at hw <;> rfl

theorem bufPc_held {k : Caller} (hk : heldOk k) (hb : bufPc k.pc = true) : 0 < k.held := by
  unfold heldOk at hk
  cases hpc : k.pc <;> simp [bufPc, hpc] at hb <;> simp only [hpc] at hk <;> (try subst hb) <;> (try simp at hk) <;> omega

theorem rinv_caller {log : Log} {s s' : State} (e : TEv) (c0 : Nat) (hw : e.ev.who = some c0) (hi : Inv log s)
    (hr : RInv log s) (h : stepCaller s e.t c0 e.ev = some s') : RInv (log ++ [e]) s' := by
  have hoth : ∀ x, x ≠ c0 → s'.callers x = s.callers x := step_others s s' e.t c0 e.ev h
  refine ⟨fun c hp => ?_⟩
  by_cases hcc : c = c0
  · subst hcc
    rcases step_enter_read s s' e.t c e.ev h hp with hrd | ⟨x, conn, n, d, hsend⟩
    · -- stays in the read loop
      obtain ⟨hconn, hcase⟩ := step_read s s' e.t c e.ev h hrd
      rcases hcase with ⟨_, hsum, hns, hnc⟩ | ⟨hrel, _⟩ | ⟨hne, _⟩
      · obtain ⟨i, conn, n, hl, himp⟩ := hr.r c hrd
        have hs : sendAt (log ++ [e]) log.length = none := sendAt_last_not_send (fun a b c' d => hns a b c' d)
        refine ⟨i, conn, n, lastSend_extend hl hs, fun hno => ?_⟩
        obtain ⟨h1, h2⟩ := himp (noConnect_restrict hno)
        refine ⟨by rw [hconn]; exact h1, ?_⟩
        simp only [List.length_append, List.length_singleton]
        rw [arrivedIn_snoc log e conn none i (lastSend_lt hl), contrib_caller hw, List.append_nil, ← h2]
        exact hsum
      · rw [hp] at hrel; simp at hrel
      · exact absurd hp hne
    · -- enters it by a send
      have hx : x = c := by rw [hsend] at hw; simpa [Ev.who] using hw
      subst hx
      rw [hsend] at h
      obtain ⟨hconn, hn, hcase⟩ := step_send s s' e.t x x conn n d h
      rcases hcase with ⟨_, hrx, hch, hcn⟩ | hrel
      · refine ⟨log.length, conn, n, ⟨⟨d, by rw [evAt_append_eq, hsend]⟩, ?_⟩, fun _ => ?_⟩
        · intro m h1 h2; simp only [List.length_append, List.length_singleton] at h2; omega
        · refine ⟨by rw [hcn]; exact hconn, ?_⟩
          simp only [List.length_append, List.length_singleton]
          rw [arrivedIn_empty, hrx, hch]; rfl
      · rw [hp] at hrel; simp at hrel
  · -- another caller acts while c is reading: it does not hold the lock, so it cannot touch buffer or channel
    rw [hoth c hcc] at hp
    obtain ⟨i, conn, n, hl, himp⟩ := hr.r c hp
    have hheld : 0 < (s.callers c).held := by
      have := hi.hk c; simp only [heldOk, hp] at this; omega
    have hown := hi.li1 c hheld
    have hnb : bufPc (s.callers c0).pc = false := by
      cases hb : bufPc (s.callers c0).pc with
      | false => rfl
      | true =>
        have := hi.li1 c0 (bufPc_held (hi.hk c0) hb)
        rw [hown] at this; simp at this; exact absurd this hcc
    have hns : ∀ a b c' d, e.ev ≠ .send a b c' d := by
      intro a b c' d hse
      rw [hse] at h hw
      have ha : a = c0 := by simpa [Ev.who] using hw
      subst ha
      have := stale_send_pc s s' e.t a b c' d h
      rw [this] at hnb; simp [bufPc] at hnb
    have hs : sendAt (log ++ [e]) log.length = none := sendAt_last_not_send hns
    refine ⟨i, conn, n, lastSend_extend hl hs, fun hno => ?_⟩
    by_cases hcn : ∃ x od, e.ev = .connect x true od
    · obtain ⟨x, od, hx⟩ := hcn
      have := (hno log.length (lastSend_lt hl) (by simp)).1
      simp [okConnectBy, evAt_append_eq, hx] at this
    · by_cases hhc : ∃ x, e.ev = .hclose x
      · obtain ⟨x, hx⟩ := hhc
        have := (hno log.length (lastSend_lt hl) (by simp)).2
        simp [hcloseAt, evAt_append_eq, hx] at this
      have hkeep := step_buf_keep s s' e.t c0 e.ev h hnb (fun x od hx => hcn ⟨x, od, hx⟩) (fun x hx => hhc ⟨x, hx⟩)
      obtain ⟨h1, h2⟩ := himp (noConnect_restrict hno)
      refine ⟨by rw [hkeep.1]; exact h1, ?_⟩
      simp only [List.length_append, List.length_singleton]
      rw [arrivedIn_snoc log e conn none i (lastSend_lt hl), contrib_caller hw, List.append_nil, ← h2, hkeep.2.1, hkeep.2.2.1]

theorem rinv_clock {log : Log} {s : State} (t : Nat) (hr : RInv log s) : RInv log { s with clock := t } := ⟨hr.r⟩

theorem rinv_step {log : Log} {s s' : State} (e : TEv) (hi : Inv log s) (hr : RInv log s) (h : step s e = some s') :
    RInv (log ++ [e]) s' := by
  have hi1 := inv_clock e.t hi
  have hr1 := rinv_clock e.t hr
  cases hwho : e.ev.who with
  | some c =>
    rw [step_caller_form s e c hwho] at h
    split at h
    · simp at h
    · exact rinv_caller e c hwho hi1 hr1 h
  | none =>
    have hs : sendAt (log ++ [e]) log.length = none :=
      sendAt_last_not_send (by intro c a b d hc; rw [hc] at hwho; simp [Ev.who] at hwho)
    unfold step at h
    split at h
    · simp at h
    · simp only at h
      cases hev : e.ev <;> simp only [hev, Ev.who] at hwho h <;> try (simp at hwho)
      · -- arrive
        rename_i conn' tag data
        split at h
        · next hcn =>
          split at h
          · simp at h
          · simp only [Option.some.injEq] at h; subst h
            refine rinv_env e hr1 rfl hs rfl (fun conn hc => ?_)
            have : conn' = conn := by simp only at hcn hc; rw [hcn] at hc; simpa using hc
            subst this
            simp [hev, contrib]
        · next hcn =>
          simp only [Option.some.injEq] at h; subst h
          refine rinv_env e hr1 rfl hs rfl (fun conn hc => ?_)
          have : ¬ conn' = conn := by intro heq; subst heq; exact hcn hc
          simp [hev, contrib, this]
      · -- devclose
        split at h <;> (simp only [Option.some.injEq] at h; subst h; exact rinv_env e hr1 rfl hs rfl (fun conn _ => by simp [hev, contrib]))
      · -- dopoll
        simp only [Option.some.injEq] at h; subst h; exact rinv_env e hr1 rfl hs rfl (fun conn _ => by simp [hev, contrib])

theorem rinv_exec_gen : ∀ (evs pre : List TEv) (s0 s : State), Inv pre s0 → RInv pre s0 → exec s0 evs = some s →
    RInv (pre ++ evs) s
  | [], pre, s0, s, _, hr, h => by simp [exec] at h; subst h; simpa using hr
  | e :: es, pre, s0, s, hi, hr, h => by
    simp only [exec] at h
    cases hst : step s0 e with
    | none => simp [hst] at h
    | some s1 =>
      simp only [hst] at h
      have := rinv_exec_gen es (pre ++ [e]) s1 s (inv_step e hi hst) (rinv_step e hi hr hst) h
      simpa using this

theorem rinv_exec (cfg : Cfg) (cbs : List Nat) (evs : List TEv) (s : State)
    (h : exec { cfg := cfg, cbsReg := cbs } evs = some s) : RInv evs s := by
  simpa using rinv_exec_gen evs [] _ s (inv_init cfg cbs) (rinv_init cfg cbs) h


theorem step_env_callers {s s' : State} {e : TEv} (hw : e.ev.who = none) (h : step s e = some s') :
    s'.callers = s.callers ∧ s'.cfg = s.cfg := by
  unfold step at h
  split at h
  · simp at h
  · simp only at h
    cases hev : e.ev <;> simp only [hev, Ev.who] at hw h <;> try (simp at hw)
    · split at h
      · split at h
        · simp at h
        · simp only [Option.some.injEq] at h; subst h; exact ⟨rfl, rfl⟩
      · simp only [Option.some.injEq] at h; subst h; exact ⟨rfl, rfl⟩
    · split at h <;> (simp only [Option.some.injEq] at h; subst h; exact ⟨rfl, rfl⟩)
    · simp only [Option.some.injEq] at h; subst h; exact ⟨rfl, rfl⟩

theorem step_keeps_cfg {s s' : State} {e : TEv} (h : step s e = some s') : s'.cfg = s.cfg := by
  cases hwho : e.ev.who with
  | none => exact (step_env_callers hwho h).2
  | some c =>
    rw [step_caller_form s e c hwho] at h
    split at h
    · simp at h
    · exact step_cfg { s with clock := e.t } s' e.t c e.ev h

/-- all bytes arriving on `conn` at positions in (i, e) answer send number `n` -/
def OnlyAnswers (log : Log) (conn n i e : Nat) : Prop :=
  ∀ m, i < m → m < e → ∀ conn' tg data, evAt log m = some (.arrive conn' tg data) → conn' = conn → tg = some n

theorem arrivedIn_tag_eq (log : Log) (conn n i e : Nat) (h : OnlyAnswers log conn n i e) :
    arrivedIn log conn (some n) i e = arrivedIn log conn none i e := by
  unfold arrivedIn
  apply flatMap_congr'
  intro m hm
  simp only [List.mem_filter, List.mem_range, decide_eq_true_eq] at hm
  cases hev : evAt log m with
  | none => rfl
  | some ev =>
    cases ev <;> try rfl
    rename_i conn' tg data
    simp only
    by_cases hc : conn' = conn
    · have := h m hm.2 hm.1 conn' tg data hev hc
      simp [hc, this]
    · simp [hc]

/-- a completed reply is a line / the first `rlen` bytes of the buffer it was completed from -/
theorem complete_replyFrom (cfg : Cfg) (r : Req) (buf l rest more : Bytes) (h : complete cfg r buf = some (l, rest)) :
    replyFrom cfg.bytesMode cfg.eol r l (buf ++ more) = true := by
  unfold complete at h
  unfold replyFrom
  split at h
  · next hb =>
    simp only [hb, if_true]
    split at h
    · next hle =>
      simp only [Option.some.injEq, Prod.mk.injEq] at h
      rw [← h.1]
      simp only [Bool.and_eq_true, beq_iff_eq, List.length_take]
      refine ⟨by omega, ?_⟩
      exact List.isPrefixOf_iff_prefix.2 ((List.take_prefix _ _).trans (List.prefix_append _ _))
    · simp at h
  · next hb =>
    simp only [hb]
    have := splitFirst_eq cfg.eol buf l rest h
    simp only [Bool.false_eq_true, if_false]
    apply List.isPrefixOf_iff_prefix.2
    rw [this]
    exact ⟨rest ++ more, by simp⟩

end Frappy.Comm
