import FrappyProofs.Lemmas.Match
/-
C11 — helper lemmas: no request is lost.  A second inductive invariant of the matching model (independent of the
request→reply table): every request ever queued is accounted for, the keys of `active_requests` are pairwise
different (it is a `dict`), the tx thread's pending "file it" decision is still right, and what the rx thread takes
from `cleanup` has timed out.
-/
namespace Frappy.Client.Match
open Frappy.Spec.C11

section
variable {α : Type} [DecidableEq α]

structure Acc (tbl : List (α × α)) (s : St α) : Prop where
  acc : NoLostRequest s
  nodup : (s.active.map (·.1)).Nodup
  free : s.txTest = some false → ∀ e, s.txHold = some e → hasKey s.active (reqKey tbl e.req) = false
  clean : ∀ i ∈ s.cleanup, i ∈ s.timedOut
  cleanHold : ∀ i, s.rxClean = some i → i ∈ s.timedOut

theorem acc_init (tbl : List (α × α)) : Acc tbl ({} : St α) := by
  constructor <;> simp [NoLostRequest]

/-- a step that creates no request and forgets none keeps `NoLostRequest` -/
theorem noLost_mono {s s' : St α} (hn : s'.nextId = s.nextId)
    (h : ∀ i, i ∈ whereabouts s → i ∈ whereabouts s') (a : NoLostRequest s) : NoLostRequest s' := by
  intro i hi
  rw [hn] at hi
  exact h i (a i hi)

/-! ### association list facts -/

theorem hasKey_false_not_mem {m : List (Key α × Entry α)} {k : Key α} (h : hasKey m k = false) :
    k ∉ m.map (·.1) := by
  induction m with
  | nil => simp
  | cons p t ih =>
    obtain ⟨k', e'⟩ := p
    unfold hasKey at h ih
    simp only [findKey] at h
    split at h
    · simp at h
    · next hne =>
      simp only [List.map_cons, List.mem_cons, not_or]
      exact ⟨fun hk => hne hk.symm, ih h⟩

theorem eraseKey_sublist (m : List (Key α × Entry α)) (k : Key α) : (eraseKey m k).Sublist m := by
  induction m with
  | nil => simp [eraseKey]
  | cons p t ih =>
    obtain ⟨k', e'⟩ := p
    simp only [eraseKey]
    split
    · exact List.sublist_cons_self _ _
    · exact List.Sublist.cons_cons _ ih

theorem nodup_eraseKey {m : List (Key α × Entry α)} (k : Key α) (h : (m.map (·.1)).Nodup) :
    ((eraseKey m k).map (·.1)).Nodup :=
  List.Nodup.sublist ((eraseKey_sublist m k).map _) h

/-- what `eraseKey` drops is the entry `findKey` finds -/
theorem mem_or_found {m : List (Key α × Entry α)} {k : Key α} {p : Key α × Entry α} (hp : p ∈ m) :
    p ∈ eraseKey m k ∨ findKey m k = some p.2 := by
  induction m with
  | nil => simp at hp
  | cons q t ih =>
    obtain ⟨k', e'⟩ := q
    simp only [eraseKey, findKey]
    split
    · rcases List.mem_cons.1 hp with h | h
      · subst h; exact Or.inr rfl
      · exact Or.inl h
    · rcases List.mem_cons.1 hp with h | h
      · subst h; exact Or.inl (by simp)
      · rcases ih h with h2 | h2
        · exact Or.inl (List.mem_cons_of_mem _ h2)
        · exact Or.inr h2

theorem findId_spec {m : List (Key α × Entry α)} {i : Nat} {k : Key α} (h : findId m i = some k) :
    ∃ e, (k, e) ∈ m ∧ e.id = i := by
  induction m with
  | nil => simp [findId] at h
  | cons q t ih =>
    obtain ⟨k', e'⟩ := q
    simp only [findId] at h
    split at h
    · next hid => cases h; exact ⟨e', by simp, hid⟩
    · obtain ⟨e, he, hi⟩ := ih h
      exact ⟨e, List.mem_cons_of_mem _ he, hi⟩

theorem findKey_of_mem_nodup {m : List (Key α × Entry α)} {k : Key α} {e : Entry α}
    (hn : (m.map (·.1)).Nodup) (h : (k, e) ∈ m) : findKey m k = some e := by
  induction m with
  | nil => simp at h
  | cons q t ih =>
    obtain ⟨k', e'⟩ := q
    simp only [List.map_cons, List.nodup_cons] at hn
    simp only [findKey]
    rcases List.mem_cons.1 h with h1 | h1
    · cases h1; simp
    · split
      · next hk =>
        subst hk
        exact absurd (List.mem_map.2 ⟨(k', e), h1, rfl⟩) hn.1
      · exact ih hn.2 h1

/-- with pairwise different keys, cleaning up the request `i` drops exactly the entry with that id -/
theorem mem_or_id {m : List (Key α × Entry α)} {i : Nat} {k : Key α} (hn : (m.map (·.1)).Nodup)
    (hf : findId m i = some k) {p : Key α × Entry α} (hp : p ∈ m) : p ∈ eraseKey m k ∨ p.2.id = i := by
  obtain ⟨e, he, hi⟩ := findId_spec hf
  rcases mem_or_found (k := k) hp with h | h
  · exact Or.inl h
  · rw [findKey_of_mem_nodup hn he] at h
    cases h
    exact Or.inr hi

local macro "wh" : tactic =>
  `(tactic| simp only [stepF, whereabouts, List.mem_append, List.map_append, List.map_cons, List.map_nil, List.mem_cons,
      Option.toList_some, Option.toList_none, List.not_mem_nil, List.mem_map, or_false, false_or] at *)

/-- every action of the (repaired, `locked`) model preserves `Acc` -/
theorem acc_step {tbl : List (α × α)} {s s' : St α} {l : Label α}
    (inv : Acc tbl s) (h : step tbl true s l = some s') : Acc tbl s' := by
  unfold step at h
  split at h
  · next hen =>
    cases h
    cases l with
    | put r =>
      refine ⟨?_, inv.nodup, inv.free, inv.clean, inv.cleanHold⟩
      intro i hi
      simp only [stepF] at hi ⊢
      by_cases hlt : i < s.nextId
      · have := inv.acc i hlt
        wh
        grind
      · have : i = s.nextId := by omega
        subst this
        wh
        grind
    | selfRelease i =>
      refine ⟨noLost_mono (s := s) rfl ?_ inv.acc, inv.nodup, inv.free, inv.clean, inv.cleanHold⟩
      intro j hj
      simp only [stepF]
      wh
      grind
    | timeout i =>
      refine ⟨noLost_mono (s := s) rfl ?_ inv.acc, inv.nodup, inv.free, ?_, ?_⟩
      · intro j hj
        simp only [stepF]
        wh
        grind
      · intro j hj
        simp only [stepF, List.mem_cons] at hj ⊢
        rcases hj with h | h
        · exact Or.inl h
        · exact Or.inr (inv.clean j h)
      · intro j hj
        simp only [stepF, List.mem_cons] at hj ⊢
        exact Or.inr (inv.cleanHold j hj)
    | txGet =>
      simp only [enabled, Bool.and_eq_true, Option.isNone_iff_eq_none] at hen
      obtain ⟨⟨⟨hh, ht⟩, _⟩, _⟩ := hen
      simp only [stepF]
      split
      · next e t heq =>
        refine ⟨noLost_mono (s := s) rfl ?_ inv.acc, inv.nodup, ?_, inv.clean, inv.cleanHold⟩
        · intro j hj
          simp only [whereabouts, heq, hh] at hj
          wh
          grind
        · intro h1; simp [ht] at h1
      · exact inv
    | txTest parked =>
      refine ⟨noLost_mono (s := s) rfl (fun _ h => h) inv.acc, inv.nodup, ?_, inv.clean, inv.cleanHold⟩
      simp only [enabled] at hen
      split at hen
      · next e he =>
        simp only [Bool.and_eq_true, beq_iff_eq] at hen
        intro h1 e' he'
        simp only [stepF] at h1 he'
        cases h1
        rw [he] at he'; cases he'
        exact hen.2.symm
      · cases hen
    | txApply =>
      simp only [stepF]
      split
      · next e parked he ht =>
        unfold txApplyF
        split
        · next hp =>
          refine ⟨noLost_mono (s := s) rfl ?_ inv.acc, inv.nodup, ?_, inv.clean, inv.cleanHold⟩
          · intro j hj
            simp only [whereabouts, he] at hj
            wh
            grind
          · intro h1; simp at h1
        · next hp =>
          have hp' : parked = false := by simpa using hp
          subst hp'
          refine ⟨noLost_mono (s := s) rfl ?_ inv.acc, ?_, ?_, inv.clean, inv.cleanHold⟩
          · intro j hj
            simp only [whereabouts, he] at hj
            wh
            grind
          · simp only [List.map_cons, List.nodup_cons]
            exact ⟨hasKey_false_not_mem (inv.free ht e he), inv.nodup⟩
          · intro h1; simp at h1
      · exact inv
    | txSend =>
      simp only [stepF]
      split
      · exact ⟨noLost_mono (s := s) rfl (fun _ h => h) inv.acc, inv.nodup, inv.free, inv.clean, inv.cleanHold⟩
      · exact inv
    | txSendFail =>
      exact ⟨noLost_mono (s := s) rfl (fun _ h => h) inv.acc, inv.nodup, inv.free, inv.clean, inv.cleanHold⟩
    | peerEmit err a sp ev re =>
      exact ⟨noLost_mono (s := s) rfl (fun _ h => h) inv.acc, inv.nodup, inv.free, inv.clean, inv.cleanHold⟩
    | rxRead =>
      simp only [stepF]
      split
      · exact ⟨noLost_mono (s := s) rfl (fun _ h => h) inv.acc, inv.nodup, inv.free, inv.clean, inv.cleanHold⟩
      · exact inv
    | rxMatch found took =>
      simp only [stepF]
      simp only [enabled] at hen
      split
      · next l hl =>
        rw [hl] at hen
        simp only [Bool.and_eq_true, beq_iff_eq, Option.isNone_iff_eq_none, lockFree, Bool.not_true, Bool.false_or,
          Bool.or_eq_true] at hen
        obtain ⟨⟨⟨hset, hlock'⟩, hfound⟩, htook⟩ := hen
        unfold rxMatchF
        simp only [hfound, htook, and_self, if_true]
        split
        · next e hm =>
          have hlock : s.txTest = none := by
            rcases hlock' with h | h
            · simp [matchEntry, h] at hm
            · exact h
          have hfk : findKey s.active (resolve tbl s.active l) = some e := by
            unfold matchEntry at hm
            split at hm
            · cases hm
            · exact hm
          unfold rxDeliver
          refine ⟨noLost_mono (s := s) rfl ?_ inv.acc, nodup_eraseKey _ inv.nodup, ?_, inv.clean, inv.cleanHold⟩
          · intro j hj
            simp only [whereabouts, hset] at hj
            have key : ∀ p ∈ s.active, p ∈ eraseKey s.active (resolve tbl s.active l) ∨ p.2 = e := by
              intro p hp
              rcases mem_or_found (k := resolve tbl s.active l) hp with h | h
              · exact Or.inl h
              · rw [hfk] at h; cases h; exact Or.inr rfl
            wh
            grind
          · intro h1; simp [hlock] at h1
        · exact ⟨noLost_mono (s := s) rfl (fun _ h => h) inv.acc, inv.nodup, inv.free, inv.clean, inv.cleanHold⟩
      · exact inv
    | rxSetEvent =>
      simp only [stepF]
      split
      · next p hp =>
        refine ⟨noLost_mono (s := s) rfl ?_ inv.acc, inv.nodup, inv.free, inv.clean, inv.cleanHold⟩
        intro j hj
        simp only [whereabouts, hp] at hj
        wh
        grind
      · exact inv
    | rxRequeue =>
      simp only [stepF]
      split
      · next e t heq =>
        refine ⟨noLost_mono (s := s) rfl ?_ inv.acc, inv.nodup, inv.free, inv.clean, inv.cleanHold⟩
        intro j hj
        simp only [whereabouts, heq] at hj
        wh
        grind
      · exact inv
    | rxCleanPop =>
      simp only [enabled, Bool.and_eq_true, Option.isNone_iff_eq_none] at hen
      simp only [stepF]
      split
      · next i t heq =>
        refine ⟨noLost_mono (s := s) rfl (fun _ h => h) inv.acc, inv.nodup, inv.free, ?_, ?_⟩
        · intro j hj
          exact inv.clean j (by rw [heq]; exact List.mem_cons_of_mem _ hj)
        · intro j hj
          simp only [Option.some.injEq] at hj
          subst hj
          exact inv.clean i (by rw [heq]; simp)
      · exact inv
    | rxCleanup removed took =>
      simp only [stepF]
      simp only [enabled] at hen
      split
      · next i hc =>
        rw [hc] at hen
        simp only [Bool.and_eq_true, lockFree, Bool.not_true, Bool.false_or, Option.isNone_iff_eq_none,
          beq_iff_eq] at hen
        obtain ⟨⟨hlock, hrem⟩, htook⟩ := hen
        subst hrem
        subst htook
        unfold rxCleanupF
        simp only [and_self, if_true]
        have hto := inv.cleanHold i hc
        split
        · next k hk =>
          refine ⟨noLost_mono (s := s) rfl ?_ inv.acc, nodup_eraseKey _ inv.nodup, ?_, inv.clean, ?_⟩
          · intro j hj
            have key : ∀ p ∈ s.active, p ∈ eraseKey s.active k ∨ p.2.id = i :=
              fun p hp => mem_or_id inv.nodup hk hp
            wh
            grind
          · intro h1; simp [hlock] at h1
          · intro j hj; simp at hj
        · refine ⟨noLost_mono (s := s) rfl (fun _ h => h) inv.acc, inv.nodup, inv.free, inv.clean, ?_⟩
          intro j hj; simp at hj
      · exact inv
    | closeBegin =>
      exact ⟨noLost_mono (s := s) rfl (fun _ h => h) inv.acc, inv.nodup, inv.free, inv.clean, inv.cleanHold⟩
    | closeTxq =>
      simp only [stepF]
      split
      · next e t heq =>
        refine ⟨noLost_mono (s := s) rfl ?_ inv.acc, inv.nodup, inv.free, inv.clean, inv.cleanHold⟩
        intro j hj
        simp only [whereabouts, heq] at hj
        wh
        grind
      · exact inv
    | closeActive =>
      simp only [stepF]
      simp only [enabled, Bool.and_eq_true, lockFree, Bool.not_true, Bool.false_or,
        Option.isNone_iff_eq_none] at hen
      have hlock := hen.2
      split
      · next k e t ha =>
        refine ⟨noLost_mono (s := s) rfl ?_ inv.acc, ?_, ?_, inv.clean, inv.cleanHold⟩
        · intro j hj
          simp only [whereabouts, ha] at hj
          wh
          grind
        · have := inv.nodup
          rw [ha] at this
          simp only [List.map_cons, List.nodup_cons] at this
          exact this.2
        · intro h1; simp [hlock] at h1
      · exact inv
    | closePending =>
      simp only [stepF]
      split
      · next e t heq =>
        refine ⟨noLost_mono (s := s) rfl ?_ inv.acc, inv.nodup, inv.free, inv.clean, inv.cleanHold⟩
        intro j hj
        simp only [whereabouts, heq] at hj
        wh
        grind
      · exact inv
    | closeSet i =>
      refine ⟨noLost_mono (s := s) rfl ?_ inv.acc, inv.nodup, inv.free, inv.clean, inv.cleanHold⟩
      intro j hj
      simp only [stepF]
      have key : ∀ e ∈ s.relHold, e ∈ s.relHold.filter (fun e => !(e.id == i)) ∨ e.id = i := by
        intro e he
        by_cases hi : e.id = i
        · exact Or.inr hi
        · exact Or.inl (List.mem_filter.2 ⟨he, by simpa using hi⟩)
      wh
      grind
  · cases h

theorem reachable_acc {tbl : List (α × α)} {s : St α} (h : Reachable tbl true s) : Acc tbl s := by
  induction h with
  | init => exact acc_init tbl
  | step l _ hs ih => exact acc_step ih hs

/-! ### what a `disconnect()` does not touch -/

/-- the actions of `disconnect()` -/
def isCloseLabel : Label α → Bool
  | .closeBegin | .closeTxq | .closeActive | .closePending | .closeSet _ => true
  | _ => false

/-- what the workers hold, what was delivered or timed out, and the number of requests are not changed by them -/
structure Kept (s s' : St α) : Prop where
  txHold : s'.txHold = s.txHold
  rxSet : s'.rxSet = s.rxSet
  rxHold : s'.rxHold = s.rxHold
  nextId : s'.nextId = s.nextId

theorem stepF_close_kept {tbl : List (α × α)} (s : St α) {l : Label α} (h : isCloseLabel l = true) :
    Kept s (stepF tbl s l) := by
  cases l <;> simp [isCloseLabel] at h
  · exact ⟨rfl, rfl, rfl, rfl⟩
  · simp only [stepF]; split <;> exact ⟨rfl, rfl, rfl, rfl⟩
  · simp only [stepF]; split <;> exact ⟨rfl, rfl, rfl, rfl⟩
  · simp only [stepF]; split <;> exact ⟨rfl, rfl, rfl, rfl⟩
  · exact ⟨rfl, rfl, rfl, rfl⟩

theorem run_close_kept {tbl : List (α × α)} {locked : Bool} :
    ∀ (ls : List (Label α)) (s s' : St α) (i : Nat), (∀ l ∈ ls, isCloseLabel l = true) →
      run tbl locked s ls i = .ok s' → Kept s s' := by
  intro ls
  induction ls with
  | nil => intro s s' i _ h; simp only [run] at h; cases h; exact ⟨rfl, rfl, rfl, rfl⟩
  | cons l t ih =>
    intro s s' i hall h
    simp only [run] at h
    split at h
    · next s1 hs =>
      have h1 : s1 = stepF tbl s l := by
        unfold step at hs
        split at hs
        · cases hs; rfl
        · cases hs
      have k1 := stepF_close_kept (tbl := tbl) s (hall l (by simp))
      have k2 := ih s1 s' (i + 1) (fun l' hl' => hall l' (List.mem_cons_of_mem _ hl')) h
      rw [h1] at k2
      exact ⟨k2.txHold.trans k1.txHold, k2.rxSet.trans k1.rxSet, k2.rxHold.trans k1.rxHold,
        k2.nextId.trans k1.nextId⟩
    · cases h

theorem drainLabels_close (s : St α) : ∀ l ∈ drainLabels s, isCloseLabel l = true := by
  intro l hl
  simp only [drainLabels, List.mem_cons, List.mem_append, List.mem_flatMap, List.not_mem_nil, or_false] at hl
  rcases hl with h | ⟨_, _, h | h⟩ | ⟨_, _, h | h⟩ | ⟨_, _, h | h⟩ <;> subst h <;> rfl

end
end Frappy.Client.Match
