import FrappyProofs.Lemmas.UpdateSys
/-
Second invariant of the small-step system, for connections that are activated DURING the run as well as before it:
what a subscribed client knows about a parameter (the newest message it received, or what it knew at the start) is what
the sequential run of the completed calls holds — or, while a call is in flight, a known function of where that call is.
Stated with the exported form `ex` of the values (a suppressed call stores an equal value that may be another object).
-/
set_option linter.unusedSectionVars false
set_option linter.unusedSimpArgs false
set_option linter.unusedVariables false
namespace Frappy.UpdateSys
open Frappy.Update Frappy.Spec.C05

variable {V E X : Type} [DecidableEq E]

/-- what a client knows after the messages `l`, having known `k0` before -/
def knowsAfter (ex : V → X) (k0 : Option (VE X E)) (l : List (Msg V E)) : Option (VE X E) :=
  replayO k0 (l.map (fun m => m.ve.map ex))

theorem knowsAfter_snoc (ex : V → X) (k0 : Option (VE X E)) (l : List (Msg V E)) (m : Msg V E) :
    knowsAfter ex k0 (l ++ [m]) = some (m.ve.map ex) := by
  simp [knowsAfter, replayO, List.foldl_append]

/-- what connection `k` knew about parameter `p` when the run started: the cache if it was subscribed, else nothing -/
def known0 (c : Cfg V E) (ex : V → X) (init : Pid → Entry V E) (k : Cid) (p : Pid) : Option (VE X E) :=
  if c.act0 k p = true then some ((init p).ve.map ex) else none

/-- `k` is entitled to the state of `p`: subscribed before the run, or sent the snapshot of `p` during it -/
def Sub (c : Cfg V E) (s : Sys V E) (k : Cid) (p : Pid) : Prop :=
  k ∈ c.conns ∧ (c.act0 k p = true ∨ s.snapped k p = true)

/-- what the client must know while the owner of the update lock is at `pc` inside the funnel on this parameter;
`e0` = the entry when the lock was taken -/
def expect (c : Cfg V E) (ex : V → X) (e0 : Entry V E) (k : Cid) : PC V E → VE X E
  | .sending _ _ _ m rest => if k ∈ rest then e0.ve.map ex else m.ve.map ex
  | .leaving _ now r => (announceR c.o e0 now r).entry.ve.map ex
  | _ => e0.ve.map ex

/-- what a subscribed client must know about `p` in state `s` -/
def expectS (c : Cfg V E) (ex : V → X) (init : Pid → Entry V E) (s : Sys V E) (p : Pid) (k : Cid) : VE X E :=
  match s.lock with
  | some t => if pcPid (s.thr t).pc = some p then expect c ex (seqRun c init s p).entry k (s.thr t).pc
              else (seqRun c init s p).entry.ve.map ex
  | none => (seqRun c init s p).entry.ve.map ex

theorem expectS_owner {c : Cfg V E} {ex : V → X} {init : Pid → Entry V E} {s : Sys V E} {t : Tid} {p : Pid} (k : Cid)
    (hl : s.lock = some t) (hp : pcPid (s.thr t).pc = some p) :
    expectS c ex init s p k = expect c ex (seqRun c init s p).entry k (s.thr t).pc := by
  simp [expectS, hl, hp]

theorem expectS_other {c : Cfg V E} {ex : V → X} {init : Pid → Entry V E} {s : Sys V E} {t : Tid} {q : Pid} (k : Cid)
    (hl : s.lock = some t) (hp : pcPid (s.thr t).pc ≠ some q) :
    expectS c ex init s q k = (seqRun c init s q).entry.ve.map ex := by
  simp [expectS, hl, hp]

theorem expectS_free {c : Cfg V E} {ex : V → X} {init : Pid → Entry V E} {s : Sys V E} (q : Pid) (k : Cid)
    (hl : s.lock = none) : expectS c ex init s q k = (seqRun c init s q).entry.ve.map ex := by
  simp [expectS, hl]

/-- a thread that handles an `activate` request and has left the registration behind: its connection is a listener
for every parameter whose snapshot is still to be sent -/
def regOk (act : Cid → Pid → Bool) : PC V E → Prop
  | .actR k ps => ∀ p ∈ ps, act k p = true
  | .snap k ps => ∀ p ∈ ps, act k p = true
  | _ => True

theorem regOk_mono {act act' : Cid → Pid → Bool} (h : ∀ k p, act k p = true → act' k p = true) (pc : PC V E)
    (hr : regOk act pc) : regOk act' pc := by
  cases pc <;> simp only [regOk] at hr ⊢ <;> first | trivial | exact fun p hp => h _ _ (hr p hp)

theorem regOk_of_pcPid {act : Cid → Pid → Bool} {pc : PC V E} {p : Pid} (h : pcPid pc = some p) : regOk act pc := by
  cases pc <;> simp [pcPid] at h <;> trivial

structure Coh (c : Cfg V E) (ex : V → X) (init : Pid → Entry V E) (s : Sys V E) : Prop where
  know : ∀ k p, Sub c s k p → knowsAfter ex (known0 c ex init k p) (plog s k p) = some (expectS c ex init s p k)
  subAct : ∀ k p, s.snapped k p = true → s.act k p = true
  reg : ∀ t, regOk s.act (s.thr t).pc

theorem coh_init (c : Cfg V E) (ex : V → X) (init : Pid → Entry V E) (progs : Tid → List (Op V E)) (clock : Int) :
    Coh c ex init (Sys.init init progs clock c.act0) := by
  refine ⟨?_, fun k p h => by simp [Sys.init] at h, fun t => trivial⟩
  intro k p hs
  have h0 : c.act0 k p = true := by
    rcases hs.2 with h | h
    · exact h
    · simp [Sys.init] at h
  rw [expectS_free p k rfl]
  simp [knowsAfter, known0, h0, plog, Sys.init, replayO, seqRun, runR]

/-- a step of thread `t` outside the update lock that touches only the other locks, the subscriptions and `t` itself -/
theorem coh_outside {c : Cfg V E} {ex : V → X} {init : Pid → Entry V E} {s : Sys V E} (hi : Inv c init s)
    (hc : Coh c ex init s) (t : Tid) (a d sl : Option Tid) (ac : Cid → Pid → Bool) (th : Thread V E)
    (hu : inU (s.thr t).pc = false)
    (hmono : ∀ k p, s.act k p = true → ac k p = true) (hreg : regOk ac th.pc) (ad : Nat := s.adepth) :
    Coh c ex init { s with alock := a, adepth := ad, dlock := d, slock := sl, act := ac, thr := upd s.thr t th } := by
  refine ⟨?_, fun k p h => hmono k p (hc.subAct k p h), ?_⟩
  · intro k p hs
    have hk := hc.know k p hs
    have he : expectS c ex init { s with alock := a, adepth := ad, dlock := d, slock := sl, act := ac, thr := upd s.thr t th } p k =
        expectS c ex init s p k := by
      cases hl : s.lock with
      | none => rw [expectS_free p k hl, expectS_free p k (by first | rfl | exact hl)]; rfl
      | some t0 =>
        have hne : t0 ≠ t := by
          intro h; have := (hi.locked t0 hl).1; rw [h, hu] at this; cases this
        by_cases hp : pcPid (s.thr t0).pc = some p
        · rw [expectS_owner k hl hp, expectS_owner (t := t0) k (by first | rfl | exact hl) (by simpa [upd_other _ _ _ _ hne] using hp)]
          simp only [upd_other _ _ _ _ hne]; rfl
        · rw [expectS_other k hl hp, expectS_other (t := t0) k (by first | rfl | exact hl) (by simpa [upd_other _ _ _ _ hne] using hp)]
          rfl
    rw [he]; exact hk
  · intro t'
    by_cases htt : t' = t
    · rw [htt]; simp only [upd_same]; exact hreg
    · simp only [upd_other _ _ _ _ htt]; exact regOk_mono hmono _ (hc.reg t')

/-- a step of the owner inside the funnel on parameter `p` -/
theorem coh_inner {c : Cfg V E} {ex : V → X} {init : Pid → Entry V E} {s s' : Sys V E}
    (hc : Coh c ex init s) (t : Tid) (p : Pid)
    (hlk : s.lock = some t) (hp0 : pcPid (s.thr t).pc = some p)
    (hl : s'.lock = some t) (hh : s'.hist = s.hist) (hsn : s'.snapped = s.snapped) (hact : s'.act = s.act)
    (hthr : ∀ t', t' ≠ t → (s'.thr t').pc = (s.thr t').pc)
    (hlog : ∀ k q, q ≠ p → s'.logs k q = s.logs k q)
    (hpc : pcPid (s'.thr t).pc = some p)
    (hnew : ∀ k, Sub c s k p → knowsAfter ex (known0 c ex init k p) (plog s' k p) =
      some (expect c ex (seqRun c init s p).entry k (s'.thr t).pc)) : Coh c ex init s' := by
  have hseq : ∀ q, seqRun c init s' q = seqRun c init s q := fun q => by unfold seqRun; rw [hh]
  refine ⟨?_, by rw [hsn, hact]; exact hc.subAct, ?_⟩
  · intro k q hs
    have hs0 : Sub c s k q := by unfold Sub at hs ⊢; rw [hsn] at hs; exact hs
    by_cases hq : q = p
    · subst hq
      rw [expectS_owner k hl hpc, hseq]
      exact hnew k hs0
    · have h1 : pcPid (s'.thr t).pc ≠ some q := by rw [hpc]; intro h; exact hq (Option.some.inj h).symm
      have h0 : pcPid (s.thr t).pc ≠ some q := by rw [hp0]; intro h; exact hq (Option.some.inj h).symm
      have := hc.know k q hs0
      rw [expectS_other k hlk h0] at this
      rw [expectS_other k hl h1, hseq]
      unfold plog at this ⊢
      rw [hlog k q hq]; exact this
  · intro t'
    rw [hact]
    by_cases htt : t' = t
    · rw [htt]; exact regOk_of_pcPid hpc
    · rw [hthr t' htt]; exact hc.reg t'

theorem coh_old {c : Cfg V E} {ex : V → X} {init : Pid → Entry V E} {s : Sys V E} (hc : Coh c ex init s) {t : Tid}
    {p : Pid} (hlk : s.lock = some t) (hp0 : pcPid (s.thr t).pc = some p) (k : Cid) (hs : Sub c s k p) :
    knowsAfter ex (known0 c ex init k p) (plog s k p) =
      some (expect c ex (seqRun c init s p).entry k (s.thr t).pc) := by
  have := hc.know k p hs
  rwa [expectS_owner k hlk hp0] at this

theorem coh_stepIdle {c : Cfg V E} {ex : V → X} {init : Pid → Entry V E} {s s' : Sys V E} (hi : Inv c init s)
    (hc : Coh c ex init s) (t : Tid) (hpc : (s.thr t).pc = .idle) (hs : stepIdle s t = some s') : Coh c ex init s' := by
  unfold stepIdle at hs
  have hu : inU (s.thr t).pc = false := by rw [hpc]; rfl
  cases hprog : (s.thr t).prog with
  | nil => rw [hprog] at hs; cases hs
  | cons op rest =>
    rw [hprog] at hs
    cases op with
    | accAcquire =>
      simp only at hs
      split at hs
      · cases hs
        exact coh_outside hi hc t (some t) s.dlock s.slock s.act ⟨rest, .idle⟩ hu (fun _ _ h => h) trivial 1
      · split at hs
        · cases hs
          exact coh_outside hi hc t (some t) s.dlock s.slock s.act ⟨rest, .idle⟩ hu (fun _ _ h => h) trivial (s.adepth + 1)
        · cases hs
    | accRelease =>
      simp only at hs
      split at hs
      · cases hs
        exact coh_outside hi hc t _ s.dlock s.slock s.act ⟨rest, .idle⟩ hu (fun _ _ h => h) trivial (s.adepth - 1)
      · cases hs
    | reqAcquire k =>
      simp only at hs
      split at hs
      · cases hs
        exact coh_outside hi hc t s.alock (some t) s.slock s.act ⟨rest, .idle⟩ hu (fun _ _ h => h) trivial
      · cases hs
    | reqRelease =>
      simp only at hs
      split at hs
      · cases hs
        exact coh_outside hi hc t s.alock none s.slock s.act ⟨rest, .idle⟩ hu (fun _ _ h => h) trivial
      · cases hs
    | activate k ps =>
      simp only at hs
      split at hs
      · cases hs
        exact coh_outside hi hc t s.alock (some t) s.slock s.act ⟨rest, .actD k ps⟩ hu (fun _ _ h => h) trivial
      · cases hs
    | announce p ev ts =>
      simp only at hs
      split at hs
      · rename_i hl
        cases hs
        refine ⟨?_, hc.subAct, ?_⟩
        · intro k q hsub
          have hsub0 : Sub c s k q := hsub
          have old := hc.know k q hsub0
          rw [expectS_free q k hl] at old
          by_cases hq : q = p
          · subst hq
            rw [expectS_owner (t := t) k rfl (by simp [pcPid])]
            simp only [upd_same, expect]
            exact old
          · rw [expectS_other (t := t) k rfl (by simp only [upd_same, pcPid]; intro h; exact hq (Option.some.inj h).symm)]
            exact old
        · intro t'
          by_cases htt : t' = t
          · rw [htt]; simp only [upd_same]; trivial
          · simp only [upd_other _ _ _ _ htt]; exact hc.reg t'
      · cases hs

set_option hygiene false in
/-- a step inside the funnel that leaves the logs alone and after which every client must know what it had to know -/
macro "coh_triv" : tactic => `(tactic| (
  refine coh_inner hc t p hlk hp0 hlk rfl rfl rfl (fun t' h => setPc_pc_other _ _ _ _ h) (fun k q _ => rfl)
    (by simp [pcPid]) (fun k hk => ?_)
  have := coh_old hc hlk hp0 k hk
  rw [hpc] at this
  simp only [setPc_pc, expect] at this ⊢
  exact this))

theorem coh_step {c : Cfg V E} {ex : V → X} {init : Pid → Entry V E} {s s' : Sys V E} (h : ExportExact c.o ex)
    (hi : Inv c init s) (hc : Coh c ex init s) (t : Tid) (hs : step c s t = some s') : Coh c ex init s' := by
  unfold step at hs
  cases hpc : (s.thr t).pc with
  | idle => rw [hpc] at hs; exact coh_stepIdle hi hc t hpc hs
  | locked p ev ts =>
    rw [hpc] at hs; simp only [Option.some.injEq] at hs; subst hs
    have hp0 : pcPid (s.thr t).pc = some p := by rw [hpc]; rfl
    obtain ⟨hlk, _, hmid⟩ := inv_mid hi t p hp0
    coh_triv
  | timed p now r =>
    rw [hpc] at hs
    have hp0 : pcPid (s.thr t).pc = some p := by rw [hpc]; rfl
    obtain ⟨hlk, _, hmid⟩ := inv_mid hi t p hp0
    rw [hpc] at hmid
    simp only [Mid] at hmid
    cases r with
    | val v =>
      simp only [Option.some.injEq] at hs; subst hs
      coh_triv
    | err x =>
      simp only [Option.some.injEq] at hs; subst hs
      refine coh_inner hc t p hlk hp0 hlk rfl rfl rfl (fun t' h => setPc_pc_other _ _ _ _ h) (fun k q _ => rfl)
        (by simp only [setPc_pc]; split <;> simp [pcPid]) (fun k hk => ?_)
      have := coh_old hc hlk hp0 k hk
      rw [hpc] at this
      simp only [expect] at this
      simp only [setPc_pc]
      rw [hmid.1]
      split
      · rename_i he
        have hd : emits c.o (seqRun c init s p).entry now (.err x) = false := by simp [emits, he]
        simp only [expect, announceR_skip _ _ _ _ hd, storeValue]
        exact this
      · simp only [expect]; exact this
  | compared p now v chg =>
    rw [hpc] at hs; simp only [Option.some.injEq] at hs; subst hs
    have hp0 : pcPid (s.thr t).pc = some p := by rw [hpc]; rfl
    obtain ⟨hlk, _, hmid⟩ := inv_mid hi t p hp0
    coh_triv
  | stored p now v chg =>
    rw [hpc] at hs; simp only [Option.some.injEq] at hs; subst hs
    have hp0 : pcPid (s.thr t).pc = some p := by rw [hpc]; rfl
    obtain ⟨hlk, _, hmid⟩ := inv_mid hi t p hp0
    rw [hpc] at hmid
    simp only [Mid] at hmid
    obtain ⟨h1, h2, _⟩ := hmid
    refine coh_inner hc t p hlk hp0 hlk rfl rfl rfl (fun t' h => setPc_pc_other _ _ _ _ h) (fun k q _ => rfl)
      (by simp only [setPc_pc]; split <;> simp [pcPid]) (fun k hk => ?_)
    have := coh_old hc hlk hp0 k hk
    rw [hpc] at this
    simp only [expect] at this
    simp only [setPc_pc]
    rw [h1, h2]
    have hts : (storeValue (seqRun c init s p).entry (.val v)).timestamp = (seqRun c init s p).entry.timestamp := rfl
    have hw : (storeValue (seqRun c init s p).entry (.val v)).window = (seqRun c init s p).entry.window := rfl
    rw [hts, hw]
    split
    · rename_i hcnd
      have hd : emits c.o (seqRun c init s p).entry now (.val v) = false := by
        simp only [Bool.and_eq_true, Bool.not_eq_eq_eq_not, Bool.not_true, decide_eq_true_eq] at hcnd
        simp [emits, hcnd.1, hcnd.2]
      simp only [expect, announceR_skip _ _ _ _ hd]
      rw [ve_suppressed c.o ex h _ now _ hd]
      exact this
    · simp only [expect]; exact this
  | go p now r =>
    rw [hpc] at hs; simp only [Option.some.injEq] at hs; subst hs
    have hp0 : pcPid (s.thr t).pc = some p := by rw [hpc]; rfl
    obtain ⟨hlk, _, hmid⟩ := inv_mid hi t p hp0
    coh_triv
  | stamped p now r =>
    rw [hpc] at hs; simp only [Option.some.injEq] at hs; subst hs
    have hp0 : pcPid (s.thr t).pc = some p := by rw [hpc]; rfl
    obtain ⟨hlk, _, hmid⟩ := inv_mid hi t p hp0
    coh_triv
  | errset p now r =>
    rw [hpc] at hs; simp only [Option.some.injEq] at hs; subst hs
    have hp0 : pcPid (s.thr t).pc = some p := by rw [hpc]; rfl
    obtain ⟨hlk, _, hmid⟩ := inv_mid hi t p hp0
    coh_triv
  | built p now r m =>
    rw [hpc] at hs
    have hp0 : pcPid (s.thr t).pc = some p := by rw [hpc]; rfl
    obtain ⟨hlk, _, hmid⟩ := inv_mid hi t p hp0
    simp only at hs
    split at hs
    · simp only [Option.some.injEq] at hs; subst hs
      refine coh_inner hc t p hlk hp0 hlk rfl rfl rfl (fun t' h => setPc_pc_other _ _ _ _ h) (fun k q _ => rfl)
        (by simp [pcPid]) (fun k hk => ?_)
      have := coh_old hc hlk hp0 k hk
      rw [hpc] at this
      simp only [expect] at this
      have hin : k ∈ listeners c s p := by
        simp only [listeners, List.mem_filter]
        exact ⟨hk.1, hk.2.elim (hi.actMono k p) (hc.subAct k p)⟩
      simp only [setPc_pc, expect]
      rw [if_pos hin]
      exact this
    · cases hs
  | sending p now r m rest =>
    rw [hpc] at hs
    have hp0 : pcPid (s.thr t).pc = some p := by rw [hpc]; rfl
    obtain ⟨hlk, _, hmid⟩ := inv_mid hi t p hp0
    rw [hpc] at hmid
    simp only [Mid] at hmid
    obtain ⟨h1, h2, h3, done, hnd, _, _, _⟩ := hmid
    cases rest with
    | nil =>
      simp only [Option.some.injEq] at hs; subst hs
      refine coh_inner hc t p hlk hp0 hlk rfl rfl rfl (fun t' h => setPc_pc_other _ _ _ _ h) (fun k q _ => rfl)
        (by simp [pcPid]) (fun k hk => ?_)
      have := coh_old hc hlk hp0 k hk
      rw [hpc] at this
      simp only [expect, List.not_mem_nil, if_false] at this
      simp only [setPc_pc, expect, announceR_go _ _ _ _ h2]
      rw [h3, h1] at this
      exact this
    | cons k1 rest =>
      simp only [Option.some.injEq] at hs; subst hs
      have hk_rest : k1 ∉ rest := by
        have := (List.nodup_append.1 hnd).2.1
        exact (List.nodup_cons.1 this).1
      refine coh_inner hc t p hlk hp0 hlk rfl rfl rfl (fun t' h => setPc_pc_other _ _ _ _ h)
        (fun k' q hq => deliver_other_param _ _ _ _ _ _ hq) (by simp [pcPid]) (fun k hk => ?_)
      have := coh_old hc hlk hp0 k hk
      rw [hpc] at this
      simp only [expect] at this
      simp only [setPc_pc, expect]
      by_cases hkk : k = k1
      · subst hkk
        have hpl : plog ((s.deliver k p m).setPc t (.sending p now r m rest)) k p = plog s k p ++ [m] := by
          simp [plog, deliver_same]
        rw [hpl, knowsAfter_snoc, if_neg hk_rest]
      · have hpl : plog ((s.deliver k1 p m).setPc t (.sending p now r m rest)) k p = plog s k p := by
          simp only [plog, setPc_logs]; rw [deliver_other_conn _ _ _ _ _ _ hkk]
        rw [hpl]
        simp only [List.mem_cons, hkk, false_or] at this
        exact this
  | leaving p now r =>
    rw [hpc] at hs; simp only [Option.some.injEq] at hs; subst hs
    have hp0 : pcPid (s.thr t).pc = some p := by rw [hpc]; rfl
    obtain ⟨hlk, _, _⟩ := inv_mid hi t p hp0
    refine ⟨?_, hc.subAct, ?_⟩
    · intro k q hsub
      have hsub0 : Sub c s k q := hsub
      rw [expectS_free q k rfl]
      by_cases hq : q = p
      · subst hq
        have := coh_old hc hlk hp0 k hsub0
        rw [hpc] at this
        simp only [expect] at this
        simp only [seqRun] at this
        simp only [seqRun, setPc_hist, upd_same, runR_snoc]
        exact this
      · have := hc.know k q hsub0
        rw [expectS_other k hlk (by rw [hp0]; intro h; exact hq (Option.some.inj h).symm)] at this
        simp only [seqRun] at this
        simp only [seqRun, setPc_hist, upd_other _ _ _ _ hq]
        exact this
    · intro t'
      by_cases htt : t' = t
      · rw [htt]; simp only [setPc_pc]; trivial
      · rw [setPc_pc_other _ _ _ _ htt]; exact hc.reg t'
  | actD k ps =>
    rw [hpc] at hs
    simp only at hs
    split at hs
    · simp only [Option.some.injEq] at hs; subst hs
      exact coh_outside hi hc t s.alock s.dlock (some t) s.act ⟨(s.thr t).prog, .actS k ps⟩ (by rw [hpc]; rfl)
        (fun _ _ h => h) trivial
    · cases hs
  | actS k ps =>
    rw [hpc] at hs; simp only [Option.some.injEq] at hs; subst hs
    refine coh_outside hi hc t s.alock s.dlock none (subscribe s.act k ps) ⟨(s.thr t).prog, .actR k ps⟩
      (by rw [hpc]; rfl) (fun k' p h => by simp [subscribe, h]) ?_
    intro p hp
    simp [subscribe, hp]
  | actR k ps =>
    rw [hpc] at hs
    simp only at hs
    split at hs
    · rename_i hl
      simp only [Option.some.injEq] at hs; subst hs
      refine ⟨?_, hc.subAct, ?_⟩
      · intro k' q hsub
        have hsub0 : Sub c s k' q := hsub
        have old := hc.know k' q hsub0
        rw [expectS_free q k' hl] at old
        rw [expectS_other (t := t) k' rfl (by simp [pcPid])]
        exact old
      · intro t'
        by_cases htt : t' = t
        · rw [htt]; simp only [setPc_pc]
          have := hc.reg t
          rw [hpc] at this
          exact this
        · rw [setPc_pc_other _ _ _ _ htt]; exact hc.reg t'
    · cases hs
  | snap k1 rest =>
    rw [hpc] at hs
    have hlk : s.lock = some t := hi.owner t (by rw [hpc]; rfl)
    have hp0 : ∀ q, pcPid (s.thr t).pc ≠ some q := by intro q; rw [hpc]; simp [pcPid]
    obtain ⟨_, hcl, _⟩ := hi.locked t hlk
    cases rest with
    | nil =>
      simp only [Option.some.injEq] at hs; subst hs
      refine ⟨?_, hc.subAct, ?_⟩
      · intro k q hsub
        have hsub0 : Sub c s k q := hsub
        have old := hc.know k q hsub0
        rw [expectS_other k hlk (hp0 q)] at old
        rw [expectS_free q k rfl]
        exact old
      · intro t'
        by_cases htt : t' = t
        · rw [htt]; simp only [setPc_pc]; trivial
        · rw [setPc_pc_other _ _ _ _ htt]; exact hc.reg t'
    | cons p1 rest =>
      simp only [Option.some.injEq] at hs; subst hs
      have hreg := hc.reg t
      rw [hpc] at hreg
      simp only [regOk] at hreg
      have hsn : ∀ k' q, ((s.deliver k1 p1 (mkMsg (s.entries p1))).markSnapped k1 p1).snapped k' q =
          (s.snapped k' q || (k' == k1 && q == p1)) := fun _ _ => rfl
      refine ⟨?_, ?_, ?_⟩
      · intro k q hsub
        have hl' : (((s.deliver k1 p1 (mkMsg (s.entries p1))).markSnapped k1 p1).setPc t (.snap k1 rest)).lock = some t :=
          hlk
        rw [expectS_other k hl' (by simp [pcPid])]
        by_cases hkq : k = k1 ∧ q = p1
        · obtain ⟨hk, hq⟩ := hkq
          subst hk; subst hq
          have hpl : plog (((s.deliver k q (mkMsg (s.entries q))).markSnapped k q).setPc t (.snap k rest)) k q =
              plog s k q ++ [mkMsg (s.entries q)] := by
            simp [plog, deliver_same]
          rw [hpl, knowsAfter_snoc]
          have hclean := (hcl q (hp0 q)).1
          show some ((s.entries q).ve.map ex) = some ((seqRun c init s q).entry.ve.map ex)
          rw [hclean]
        · have hsub0 : Sub c s k q := by
            refine ⟨hsub.1, hsub.2.imp id (fun hh => ?_)⟩
            simp only [setPc_snapped, hsn, Bool.or_eq_true, Bool.and_eq_true, beq_iff_eq] at hh
            rcases hh with hh | hh
            · exact hh
            · exact absurd hh hkq
          have old := hc.know k q hsub0
          rw [expectS_other k hlk (hp0 q)] at old
          have hpl : plog (((s.deliver k1 p1 (mkMsg (s.entries p1))).markSnapped k1 p1).setPc t (.snap k1 rest)) k q =
              plog s k q := by
            simp only [plog, setPc_logs, markSnapped_logs]
            by_cases hq : q = p1
            · have hne : k ≠ k1 := fun hk => hkq ⟨hk, hq⟩
              rw [deliver_other_conn _ _ _ _ _ _ hne]
            · rw [deliver_other_param _ _ _ _ _ _ hq]
          rw [hpl]
          exact old
      · intro k q hh
        simp only [setPc_snapped, hsn, Bool.or_eq_true, Bool.and_eq_true, beq_iff_eq] at hh
        rcases hh with hh | ⟨hk, hq⟩
        · exact hc.subAct k q hh
        · rw [hk, hq]; exact hreg p1 (by simp)
      · intro t'
        by_cases htt : t' = t
        · rw [htt]; simp only [setPc_pc, regOk]
          exact fun p hp => hreg p (List.mem_cons_of_mem _ hp)
        · rw [setPc_pc_other _ _ _ _ htt]; exact hc.reg t'
  | actE =>
    rw [hpc] at hs; simp only [Option.some.injEq] at hs; subst hs
    exact coh_outside hi hc t s.alock none s.slock s.act ⟨(s.thr t).prog, .idle⟩ (by rw [hpc]; rfl) (fun _ _ h => h) trivial

/-- both invariants hold in every reachable state -/
theorem coh_reach {c : Cfg V E} {ex : V → X} {init : Pid → Entry V E} {progs : Tid → List (Op V E)} {clock : Int}
    {s : Sys V E} (h : ExportExact c.o ex) (hn : c.conns.Nodup) (hr : Reach c (Sys.init init progs clock c.act0) s) :
    Inv c init s ∧ Coh c ex init s := by
  induction hr with
  | start => exact ⟨inv_init c init progs clock, coh_init c ex init progs clock⟩
  | next t _ hs ih => exact ⟨inv_step hn ih.1 t hs, coh_step h ih.1 ih.2 t hs⟩

end Frappy.UpdateSys
