import FrappyProofs.Lemmas.CommRate
/- helper lemmas for C16: the delays of a multicomm -/
open Frappy.Spec.C16
namespace Frappy.Comm

def sentPhase (p : Pc) : Bool := match p with | .read | .relI | .readX => true | _ => false
def afterDelay (p : Pc) : Bool := match p with
  | .check | .chkNow | .rcheck | .connecting | .visT | .cbs _ | .acqI | .slpWB | .wakeWB | .flush | .drain | .relO => true
  -- checkHWIdent runs inside check_connection of the next request: the delay of the previous one is over
  | .idChk | .idChkNow | .idAcq | .idSlp | .idWake | .idFlush | .idDrain | .idRead | .idRel
  | .idClosing _ | .idVisF _ | .idFail | .idEnd _ => true
  | _ => false
def livePc (p : Pc) : Bool := match p with | .fail | .done | .idle | .closing | .visF => false | _ => true

/-- delay of the request sent last in the current call -/
def lastDelay (k : Caller) : Nat := (k.reqs0.getD (k.sent - 1) noReq).delay

structure GhostOk (clock : Nat) (k : Caller) : Prop where
  g1 : livePc k.pc = true → k.sent = k.popped + (if sentPhase k.pc then 1 else 0)
  g2 : livePc k.pc = true → k.todo = k.reqs0.drop k.popped
  g3 : k.kind = .multi → 1 ≤ k.sent → afterDelay k.pc = true → k.sendT + lastDelay k ≤ clock
  g4 : k.kind = .multi → k.pc = .slpD → k.wakeAt = lastDelay k ∧ 1 ≤ k.sent ∧ k.sendT ≤ clock
  g5 : k.kind = .multi → k.pc = .wakeD → k.sendT + lastDelay k ≤ k.wakeAt ∧ 1 ≤ k.sent
  g6 : sentPhase k.pc = true → k.sendT ≤ clock ∧ 1 ≤ k.sent
  g7 : k.pc = .done → k.failed = false → k.kind = .multi → 1 ≤ k.sent → k.sendT + lastDelay k ≤ clock
  g8 : k.pc = .acqO → k.sent = 0

theorem current_eq (k : Caller) (h : k.todo = k.reqs0.drop k.popped) : current k = k.reqs0.getD k.popped noReq := by
  unfold current noReq
  rw [h]
  cases hd : k.reqs0.drop k.popped with
  | nil =>
    have : k.reqs0.length ≤ k.popped := by simpa using List.drop_eq_nil_iff.1 hd
    simp [List.getD, List.getElem?_eq_none this]
  | cons a l =>
    have := List.getElem?_drop (xs := k.reqs0) (i := k.popped) (j := 0)
    rw [hd] at this
    simp at this
    simp [List.getD, ← this]


/-- the ghost-relevant fields agree -/
structure SameGhost (k k' : Caller) : Prop where
  kind : k'.kind = k.kind
  todo : k'.todo = k.todo
  reqs0 : k'.reqs0 = k.reqs0
  sent : k'.sent = k.sent
  popped : k'.popped = k.popped
  sendT : k'.sendT = k.sendT
  failed : k'.failed = k.failed

theorem lastDelay_same {k k' : Caller} (h : SameGhost k k') : lastDelay k' = lastDelay k := by
  unfold lastDelay; rw [h.reqs0, h.sent]

/-- nothing ghost-relevant changes and the caller stays where it is -/
theorem ghost_mono {clock t : Nat} {k k' : Caller} (hg : GhostOk clock k) (hc : clock ≤ t) (h : SameGhost k k')
    (hpc : k'.pc = k.pc) (hw : k'.wakeAt = k.wakeAt) : GhostOk t k' := by
  obtain ⟨g1, g2, g3, g4, g5, g6, g7, g8⟩ := hg
  have hl := lastDelay_same h
  constructor
  · intro h1; rw [hpc] at h1 ⊢; rw [h.sent, h.popped]; exact g1 h1
  · intro h1; rw [hpc] at h1; rw [h.todo, h.reqs0, h.popped]; exact g2 h1
  · intro h1 h2 h3; rw [hpc] at h3; rw [h.kind] at h1; rw [h.sent] at h2; rw [h.sendT, hl]; have := g3 h1 h2 h3; omega
  · intro h1 h2; rw [hpc] at h2; rw [h.kind] at h1; rw [hw, hl, h.sent, h.sendT]; have := g4 h1 h2; omega
  · intro h1 h2; rw [hpc] at h2; rw [h.kind] at h1; rw [hw, hl, h.sent, h.sendT]; exact g5 h1 h2
  · intro h1; rw [hpc] at h1; rw [h.sendT, h.sent]; have := g6 h1; omega
  · intro h1 h2 h3 h4; rw [hpc] at h1; rw [h.failed] at h2; rw [h.kind] at h3; rw [h.sent] at h4; rw [h.sendT, hl]
    have := g7 h1 h2 h3 h4; omega
  · intro h1; rw [hpc] at h1; rw [h.sent]; exact g8 h1

/-- the caller moves on, not through a send, a pop, a delay or a return -/
theorem ghost_plain {clock t : Nat} {k k' : Caller} (hg : GhostOk clock k) (hc : clock ≤ t) (h : SameGhost k k')
    (hlive : livePc k'.pc = true → livePc k.pc = true) (hsp : sentPhase k'.pc = sentPhase k.pc)
    (had : afterDelay k'.pc = true → afterDelay k.pc = true)
    (h1' : k'.pc ≠ .slpD) (h2' : k'.pc ≠ .wakeD) (h3' : k'.pc ≠ .done) (h4' : k'.pc ≠ .acqO) : GhostOk t k' := by
  obtain ⟨g1, g2, g3, g4, g5, g6, g7, g8⟩ := hg
  have hl := lastDelay_same h
  constructor
  · intro h1; rw [hsp, h.sent, h.popped]; exact g1 (hlive h1)
  · intro h1; rw [h.todo, h.reqs0, h.popped]; exact g2 (hlive h1)
  · intro h1 h2 h3; rw [h.kind] at h1; rw [h.sent] at h2; rw [h.sendT, hl]; have := g3 h1 h2 (had h3); omega
  · intro _ h2; exact absurd h2 h1'
  · intro _ h2; exact absurd h2 h2'
  · intro h1; rw [hsp] at h1; rw [h.sendT, h.sent]; have := g6 h1; omega
  · intro h1; exact absurd h1 h3'
  · intro h1; exact absurd h1 h4'

theorem ghost_failTo (t : Nat) (k : Caller) : GhostOk t (failTo k) := by
  rcases failTo_pc2 k with h | h <;>
  (constructor <;> intros <;> simp_all [livePc, sentPhase, afterDelay, failTo])

theorem ghost_nextReq (t : Nat) (k : Caller) (p1 : k.sent = k.popped) (p2 : k.todo = k.reqs0.drop k.popped)
    (p3 : k.kind = .multi → 1 ≤ k.sent → k.sendT + lastDelay k ≤ t) : GhostOk t (nextReq k) := by
  unfold nextReq
  split
  · by_cases hm : k.kind = .multi
    · simp only [hm, if_true]
      constructor <;> intros <;> simp_all [livePc, sentPhase, afterDelay, lastDelay]
    · simp only [hm, if_false]
      constructor <;> intros <;> simp_all [livePc, sentPhase, afterDelay, lastDelay]
  · constructor <;> intros <;> simp_all [livePc, sentPhase, afterDelay, lastDelay]

theorem ghost_afterConnected (t : Nat) (s : State) (k : Caller) (p1 : k.sent = k.popped)
    (p2 : k.todo = k.reqs0.drop k.popped)
    (p3 : k.kind = .multi → 1 ≤ k.sent → k.sendT + lastDelay k ≤ t) : GhostOk t (afterConnected s k) := by
  unfold afterConnected
  split
  · split
    · by_cases hm : k.kind = .poll
      · simp only [hm, if_true]
        constructor <;> intros <;> simp_all [livePc, sentPhase, afterDelay, lastDelay]
      · simp only [hm, if_false]
        constructor <;> intros <;> simp_all [livePc, sentPhase, afterDelay, lastDelay]
    · constructor <;> intros <;> simp_all [livePc, sentPhase, afterDelay, lastDelay]
  · split
    · split
      · next hm => constructor <;> intros <;> simp_all [livePc, sentPhase, afterDelay, lastDelay]
      · exact ghost_failTo t k
    · constructor <;> intros <;> simp_all [livePc, sentPhase, afterDelay, lastDelay]

theorem ghost_rcFail (t : Nat) (k : Caller) (p1 : k.sent = k.popped) (p2 : k.todo = k.reqs0.drop k.popped)
    (p3 : k.kind = .multi → 1 ≤ k.sent → k.sendT + lastDelay k ≤ t) : GhostOk t (rcFail k) := by
  unfold rcFail
  split
  · exact ghost_failTo t k
  · constructor <;> intros <;> simp_all [livePc, sentPhase, afterDelay, lastDelay]

theorem ghost_afterIdent (t : Nat) (s : State) (k : Caller) (p1 : k.sent = k.popped)
    (p2 : k.todo = k.reqs0.drop k.popped)
    (p3 : k.kind = .multi → 1 ≤ k.sent → k.sendT + lastDelay k ≤ t) : GhostOk t (afterIdent s k) := by
  unfold afterIdent
  split
  · split
    · exact ghost_afterConnected t s k p1 p2 p3
    · constructor <;> intros <;> simp_all [livePc, sentPhase, afterDelay, lastDelay]
  · exact ghost_afterConnected t s k p1 p2 p3

theorem ghost_startIdent (t : Nat) (s : State) (k : Caller) (p1 : k.sent = k.popped)
    (p2 : k.todo = k.reqs0.drop k.popped)
    (p3 : k.kind = .multi → 1 ≤ k.sent → k.sendT + lastDelay k ≤ t) : GhostOk t (startIdent s k) := by
  unfold startIdent
  split
  · exact ghost_afterIdent t s k p1 p2 p3
  · constructor <;> intros <;> simp_all [livePc, sentPhase, afterDelay, lastDelay]

theorem ghost_idNext (t : Nat) (cfg : Cfg) (k : Caller) (p1 : k.sent = k.popped) (p2 : k.todo = k.reqs0.drop k.popped)
    (p3 : k.kind = .multi → 1 ≤ k.sent → k.sendT + lastDelay k ≤ t) : GhostOk t (idNext cfg k) := by
  unfold idNext
  split
  · split <;> (constructor <;> intros <;> simp_all [livePc, sentPhase, afterDelay, lastDelay])
  · split <;> (constructor <;> intros <;> simp_all [livePc, sentPhase, afterDelay, lastDelay])

theorem ghost_toIdFlush (t : Nat) (s : State) (k : Caller) (p1 : k.sent = k.popped) (p2 : k.todo = k.reqs0.drop k.popped)
    (p3 : k.kind = .multi → 1 ≤ k.sent → k.sendT + lastDelay k ≤ t) : GhostOk t (toIdFlush s k) := by
  unfold toIdFlush
  split <;> (constructor <;> intros <;> simp_all [livePc, sentPhase, afterDelay, lastDelay])

theorem ghost_toIdEndFail (t : Nat) (k : Caller) (p1 : k.sent = k.popped) (p2 : k.todo = k.reqs0.drop k.popped)
    (p3 : k.kind = .multi → 1 ≤ k.sent → k.sendT + lastDelay k ≤ t) : GhostOk t (toIdEndFail k) := by
  unfold toIdEndFail
  constructor <;> intros <;> simp_all [livePc, sentPhase, afterDelay, lastDelay]

theorem ghost_toFlush (t : Nat) (s : State) (k : Caller) (p1 : k.sent = k.popped) (p2 : k.todo = k.reqs0.drop k.popped)
    (p3 : k.kind = .multi → 1 ≤ k.sent → k.sendT + lastDelay k ≤ t) : GhostOk t (toFlush s k) := by
  unfold toFlush
  split
  · exact ghost_failTo t k
  · constructor <;> intros <;> simp_all [livePc, sentPhase, afterDelay, lastDelay]

theorem ghost_dead (t : Nat) (k' : Caller) (h : k'.pc = .closing ∨ k'.pc = .visF ∨ k'.pc = .fail ∨ k'.pc = .idle) : GhostOk t k' := by
  rcases h with h | h | h | h <;> (constructor <;> intros <;> simp_all [livePc, sentPhase, afterDelay])

theorem ghost_fresh (t : Nat) (k' : Caller) (h1 : k'.sent = 0) (h2 : k'.popped = 0) (h3 : k'.todo = k'.reqs0)
    (hp : k'.pc = .acqO ∨ k'.pc = .rcheck ∨ k'.pc = .check) : GhostOk t k' := by
  rcases hp with h | h | h <;> (constructor <;> intros <;> simp_all [livePc, sentPhase, afterDelay])

/-- the send: one more request is out, at time t -/
theorem ghost_sent {clock t : Nat} {k k' : Caller} (hg : GhostOk clock k) (hpc : k.pc = .drain)
    (hp' : k'.pc = .read ∨ k'.pc = .relI) (hs : k'.sent = k.sent + 1) (hT : k'.sendT = t)
    (hpop : k'.popped = k.popped) (htodo : k'.todo = k.todo) (hr : k'.reqs0 = k.reqs0) : GhostOk t k' := by
  have g1 := hg.g1 (by simp [hpc, livePc])
  have g2 := hg.g2 (by simp [hpc, livePc])
  simp only [hpc, sentPhase] at g1
  rcases hp' with h | h <;>
  (constructor <;> intros <;> simp_all [livePc, sentPhase, afterDelay])

theorem drop_tail (l : List Req) (n : Nat) : (l.drop n).tail = l.drop (n + 1) := by
  rw [← List.drop_one, List.drop_drop]

/-- the request is done (inner lock released): with a delay to sleep … -/
theorem ghost_pop_sleep {clock t : Nat} {k k' : Caller} (hg : GhostOk clock k) (hc : clock ≤ t) (hpc : k.pc = .relI)
    (hp' : k'.pc = .slpD) (hs : k'.sent = k.sent) (hT : k'.sendT = k.sendT)
    (hpop : k'.popped = k.popped + 1) (htodo : k'.todo = k.todo.tail) (hr : k'.reqs0 = k.reqs0)
    (hw : k'.wakeAt = (current k).delay) : GhostOk t k' := by
  have g1 := hg.g1 (by simp [hpc, livePc])
  have g2 := hg.g2 (by simp [hpc, livePc])
  have g6 := hg.g6 (by simp [hpc, sentPhase])
  simp only [hpc, sentPhase, if_true] at g1
  have hcur := current_eq k g2
  have hl : lastDelay k' = (current k).delay := by
    unfold lastDelay; rw [hr, hs, hcur, g1]; simp
  constructor
  · intro _; rw [hs, hpop, hp']; simp [sentPhase, g1]
  · intro _; rw [htodo, hr, hpop, g2, drop_tail]
  · intro _ _ h3; rw [hp'] at h3; simp [afterDelay] at h3
  · intro _ _; rw [hw, hl, hs, hT]; exact ⟨rfl, g6.2, by omega⟩
  · intro _ h2; rw [hp'] at h2; simp at h2
  · intro h1; rw [hp'] at h1; simp [sentPhase] at h1
  · intro h1; rw [hp'] at h1; simp at h1
  · intro h1; rw [hp'] at h1; simp at h1

/-- … or without -/
theorem ghost_pop_next {clock t : Nat} {k k1 : Caller} (hg : GhostOk clock k) (hc : clock ≤ t) (hpc : k.pc = .relI)
    (hs : k1.sent = k.sent) (hT : k1.sendT = k.sendT) (hk : k1.kind = k.kind)
    (hpop : k1.popped = k.popped + 1) (htodo : k1.todo = k.todo.tail) (hr : k1.reqs0 = k.reqs0)
    (hd : ¬ (k.kind = .multi ∧ ¬ (current k).delay = 0)) : GhostOk t (nextReq k1) := by
  have g1 := hg.g1 (by simp [hpc, livePc])
  have g2 := hg.g2 (by simp [hpc, livePc])
  have g6 := hg.g6 (by simp [hpc, sentPhase])
  simp only [hpc, sentPhase, if_true] at g1
  have hcur := current_eq k g2
  have hl : lastDelay k1 = (current k).delay := by
    unfold lastDelay; rw [hr, hs, hcur, g1]; simp
  apply ghost_nextReq
  · rw [hs, hpop, g1]
  · rw [htodo, hr, hpop, g2, drop_tail]
  · intro hm _
    rw [hk] at hm
    have : (current k).delay = 0 := by
      false_or_by_contra; rename_i hn; exact hd ⟨hm, hn⟩
    rw [hT, hl, this]; omega

theorem ghost_sleep {clock t : Nat} {k k' : Caller} (hg : GhostOk clock k) (hc : clock ≤ t) (hpc : k.pc = .slpD)
    (hp' : k'.pc = .wakeD) (h : SameGhost k k') (d : Nat) (hd : d = k.wakeAt) (hw : k'.wakeAt = t + d) : GhostOk t k' := by
  have g1 := hg.g1 (by simp [hpc, livePc])
  have g2 := hg.g2 (by simp [hpc, livePc])
  have hl := lastDelay_same h
  simp only [hpc, sentPhase] at g1
  constructor
  · intro _; rw [h.sent, h.popped, hp']; simpa [sentPhase] using g1
  · intro _; rw [h.todo, h.reqs0, h.popped]; exact g2
  · intro _ _ h3; rw [hp'] at h3; simp [afterDelay] at h3
  · intro _ h2; rw [hp'] at h2; simp at h2
  · intro h1 _
    rw [h.kind] at h1
    have := hg.g4 h1 hpc
    rw [hw, hl, h.sendT, h.sent, hd]; omega
  · intro h1; rw [hp'] at h1; simp [sentPhase] at h1
  · intro h1; rw [hp'] at h1; simp at h1
  · intro h1; rw [hp'] at h1; simp at h1

theorem ghost_wake {clock t : Nat} {k : Caller} (hg : GhostOk clock k) (hpc : k.pc = .wakeD) (hw : k.wakeAt ≤ t) :
    GhostOk t (nextReq k) := by
  have g1 := hg.g1 (by simp [hpc, livePc])
  have g2 := hg.g2 (by simp [hpc, livePc])
  simp only [hpc, sentPhase] at g1
  apply ghost_nextReq
  · simpa using g1
  · exact g2
  · intro hm _; have := hg.g5 hm hpc; omega

theorem ghost_relO {clock t : Nat} {k k' : Caller} (hg : GhostOk clock k) (hc : clock ≤ t) (hpc : k.pc = .relO)
    (hp' : k'.pc = .done) (h : SameGhost k k') : GhostOk t k' := by
  have hl := lastDelay_same h
  constructor
  · intro h1; rw [hp'] at h1; simp [livePc] at h1
  · intro h1; rw [hp'] at h1; simp [livePc] at h1
  · intro _ _ h3; rw [hp'] at h3; simp [afterDelay] at h3
  · intro _ h2; rw [hp'] at h2; simp at h2
  · intro _ h2; rw [hp'] at h2; simp at h2
  · intro h1; rw [hp'] at h1; simp [sentPhase] at h1
  · intro _ _ h3 h4
    rw [h.kind] at h3; rw [h.sent] at h4
    have := hg.g3 h3 h4 (by simp [hpc, afterDelay])
    rw [h.sendT, hl]; omega
  · intro h1; rw [hp'] at h1; simp at h1

theorem ghost_acqO {clock t : Nat} {k k1 : Caller} (hg : GhostOk clock k) (hpc : k.pc = .acqO)
    (hs : k1.sent = k.sent) (hpop : k1.popped = k.popped) (htodo : k1.todo = k.todo) (hr : k1.reqs0 = k.reqs0) :
    GhostOk t (nextReq k1) := by
  have g1 := hg.g1 (by simp [hpc, livePc])
  have g2 := hg.g2 (by simp [hpc, livePc])
  have g8 := hg.g8 hpc
  simp only [hpc, sentPhase] at g1
  apply ghost_nextReq
  · rw [hs, hpop]; simpa using g1
  · rw [htodo, hr, hpop]; exact g2
  · intro _ h2; rw [hs, g8] at h2; omega

/-- what an "after the delay" state hands on (premises of the helper lemmas above) -/
theorem ghost_premises {clock t : Nat} {k : Caller} (hg : GhostOk clock k) (hc : clock ≤ t)
    (hl : livePc k.pc = true) (hs : sentPhase k.pc = false) (ha : afterDelay k.pc = true) :
    k.sent = k.popped ∧ k.todo = k.reqs0.drop k.popped ∧ (k.kind = .multi → 1 ≤ k.sent → k.sendT + lastDelay k ≤ t) := by
  refine ⟨by have := hg.g1 hl; simpa [hs] using this, hg.g2 hl, fun h1 h2 => ?_⟩
  have := hg.g3 h1 h2 ha; omega

set_option hygiene false in
macro "ghost_prem" : tactic => `(tactic| (
  have hl1 : livePc (s.callers c).pc = true := by simp [hpc, livePc]
  have hl2 : sentPhase (s.callers c).pc = false := by simp [hpc, sentPhase]
  have hl3 : afterDelay (s.callers c).pc = true := by simp [hpc, afterDelay]
  obtain ⟨p1, p2, p3⟩ := ghost_premises hG hc hl1 hl2 hl3))

set_option hygiene false in
macro "ghost_same" : tactic => `(tactic| exact ⟨rfl, rfl, rfl, rfl, rfl, rfl, rfl⟩)

set_option hygiene false in
macro "ghost_ps" : tactic => `(tactic| (first | exact p1 | exact p2 | exact p3 | (simpa using p1) | (simpa using p2) | (simpa [lastDelay] using p3)))

set_option maxHeartbeats 64000000 in
theorem step_ghost (s s' : State) (t c clock : Nat) (e : Ev) (h : stepCaller s t c e = some s') (hc : clock ≤ t)
    (hG : GhostOk clock (s.callers c)) : GhostOk t (s'.callers c) := by
  step_arms
  all_goals (try (simp only [setC_same]))
  all_goals (first
    | exact ghost_failTo _ _
    | (apply ghost_mono hG hc <;> first | ghost_same | (simp [hpc]; done))
    | (apply ghost_plain hG hc <;> first | ghost_same | (simp [hpc, livePc, sentPhase, afterDelay]; done))
    | (ghost_prem; apply ghost_nextReq <;> ghost_ps; done)
    | (ghost_prem; apply ghost_afterConnected <;> ghost_ps; done)
    | (ghost_prem; apply ghost_afterIdent <;> ghost_ps; done)
    | (ghost_prem; apply ghost_startIdent <;> ghost_ps; done)
    | (ghost_prem; apply ghost_rcFail <;> ghost_ps; done)
    | (ghost_prem; apply ghost_idNext <;> ghost_ps; done)
    | (ghost_prem; apply ghost_toIdFlush <;> ghost_ps; done)
    | (ghost_prem; apply ghost_toIdEndFail <;> ghost_ps; done)
    | (ghost_prem; apply ghost_toFlush <;> ghost_ps; done)
    | (ghost_prem; split <;> first
        | exact ghost_failTo _ _
        | (apply ghost_afterConnected <;> ghost_ps; done)
        | (apply ghost_toFlush <;> ghost_ps; done)
        | (apply ghost_toIdFlush <;> ghost_ps; done)
        | (apply ghost_plain hG hc <;> first | ghost_same | (simp [hpc, livePc, sentPhase, afterDelay]; done)))
    | (apply ghost_dead; simp; done)
    | (apply ghost_fresh <;> (simp; done))
    | (apply ghost_acqO hG hpc <;> rfl)
    | (apply ghost_sent hG hpc <;> first | rfl | (simp; done))
    | (apply ghost_pop_sleep hG hc hpc <;> first | rfl | (simp; done))
    | (apply ghost_pop_next hG hc hpc <;> first | rfl | assumption)
    | (exact ghost_sleep hG hc hpc rfl ⟨rfl, rfl, rfl, rfl, rfl, rfl, rfl⟩ _ hg rfl)
    | (exact ghost_wake hG hpc hg)
    | (apply ghost_relO hG hc hpc <;> first | ghost_same | rfl)
    | skip)

end Frappy.Comm
