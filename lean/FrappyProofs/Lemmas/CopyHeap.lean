import FrappyModel.Datatypes.CopyHeap
/-
C03 — lemmas about the object heap: `build` only appends new objects that point to new objects, hence the
copy made by `copyH` shares no object with anything allocated before.
-/
set_option linter.unusedSectionVars false
set_option linter.unusedVariables false
namespace Frappy.Lemmas.C03Heap
open Frappy Frappy.Datatypes Frappy.Datatypes.Heap

variable {F : Type}

/-! ### allocation -/

theorem alloc_objs (h : Heap F) (o : Obj F) : (h.alloc o).1.objs = h.objs ++ [o] := rfl
theorem alloc_ref (h : Heap F) (o : Obj F) : (h.alloc o).2 = h.size := rfl
theorem alloc_size (h : Heap F) (o : Obj F) : (h.alloc o).1.size = h.size + 1 := by
  simp [Heap.size, Heap.alloc]

theorem get?_none_of_le {h : Heap F} {i : Nat} (hi : h.size ≤ i) : h.get? i = none := by
  simp [Heap.get?, Heap.size] at *; exact hi

theorem get?_lt {h : Heap F} {i : Nat} {o : Obj F} (hg : h.get? i = some o) : i < h.size := by
  simp only [Heap.get?, Heap.size] at *
  exact (List.getElem?_eq_some_iff.mp hg).1

/-- `h'` extends `h` (allocation only appends) -/
def Pre (h h' : Heap F) : Prop := ∃ ext, h'.objs = h.objs ++ ext

theorem Pre.refl (h : Heap F) : Pre h h := ⟨[], by simp⟩
theorem Pre.trans {h1 h2 h3 : Heap F} (a : Pre h1 h2) (b : Pre h2 h3) : Pre h1 h3 := by
  obtain ⟨e1, a⟩ := a
  obtain ⟨e2, b⟩ := b
  exact ⟨e1 ++ e2, by rw [b, a, List.append_assoc]⟩
theorem Pre.alloc (h : Heap F) (o : Obj F) : Pre h (h.alloc o).1 := ⟨[o], rfl⟩
theorem Pre.size_le {h h' : Heap F} (a : Pre h h') : h.size ≤ h'.size := by
  obtain ⟨e, a⟩ := a
  simp [Heap.size, a]
theorem Pre.get? {h h' : Heap F} (a : Pre h h') {i : Nat} (hi : i < h.size) : h'.get? i = h.get? i := by
  obtain ⟨e, a⟩ := a
  simp only [Heap.get?, a]
  exact List.getElem?_append_left hi

/-- all objects at `n` or later only refer to objects at `n` or later (and inside the heap) -/
def Good (n : Nat) (h : Heap F) : Prop :=
  ∀ (i : Nat) o, n ≤ i → h.get? i = some o → ∀ x : Nat, x ∈ o.refs → n ≤ x ∧ x < h.size

theorem Good.self (h : Heap F) : Good h.size h := by
  intro i o hi hg
  rw [get?_none_of_le hi] at hg
  cases hg

theorem Good.alloc {n : Nat} {h : Heap F} (g : Good n h) (o : Obj F)
    (ho : ∀ x : Nat, x ∈ o.refs → n ≤ x ∧ x ≤ h.size) : Good n (h.alloc o).1 := by
  intro i o' hi hg x hx
  rw [alloc_size]
  have hlt := get?_lt hg
  rw [alloc_size] at hlt
  by_cases hc : i < h.size
  · rw [(Pre.alloc h o).get? hc] at hg
    have := g i o' hi hg x hx
    omega
  · have hi' : i = h.size := by omega
    subst hi'
    simp [Heap.get?, Heap.alloc, Heap.size] at hg
    subst hg
    have := ho x hx
    omega

/-- `h` is an extension of `h0` in which everything from `n` on points to `[n, size)` -/
structure Ext (n : Nat) (h0 h : Heap F) : Prop where
  le : n ≤ h0.size
  pre : Pre h0 h
  good : Good n h

theorem Ext.refl (h : Heap F) : Ext h.size h h := ⟨Nat.le_refl _, Pre.refl h, Good.self h⟩

theorem Ext.le' {n : Nat} {h0 h : Heap F} (e : Ext n h0 h) : n ≤ h.size :=
  Nat.le_trans e.le e.pre.size_le

theorem Ext.alloc {n : Nat} {h0 h : Heap F} (e : Ext n h0 h) (o : Obj F)
    (ho : ∀ x : Nat, x ∈ o.refs → n ≤ x ∧ x ≤ h.size) : Ext n h0 (h.alloc o).1 :=
  ⟨e.le, e.pre.trans (Pre.alloc h o), e.good.alloc o ho⟩

theorem Ext.props {n : Nat} {h0 h : Heap F} (e : Ext n h0 h) (vals : List (String × Prim F)) :
    Ext n h0 (h.alloc (.props vals)).1 :=
  e.alloc _ (by intro x hx; simp [Obj.refs] at hx)

/-- what `build t h` returns, relative to the base heap `h0` and the boundary `n` -/
def Res (n : Nat) (h0 h : Heap F) (p : Heap F × Nat) : Prop :=
  Ext n h0 p.1 ∧ h.size ≤ p.2 ∧ p.2 < p.1.size
def ResL (n : Nat) (h0 h : Heap F) (p : Heap F × List Nat) : Prop :=
  Ext n h0 p.1 ∧ h.size ≤ p.1.size ∧ ∀ r : Nat, r ∈ p.2 → h.size ≤ r ∧ r < p.1.size
def ResF (n : Nat) (h0 h : Heap F) (p : Heap F × List (String × Nat)) : Prop :=
  Ext n h0 p.1 ∧ h.size ≤ p.1.size ∧ ∀ r : Nat, r ∈ p.2.map (·.2) → h.size ≤ r ∧ r < p.1.size

theorem res_alloc {n : Nat} {h0 h h' : Heap F} (e : Ext n h0 h') (hs : h.size ≤ h'.size) (o : Obj F)
    (ho : ∀ x : Nat, x ∈ o.refs → n ≤ x ∧ x ≤ h'.size) : Res n h0 h (h'.alloc o) :=
  ⟨e.alloc o ho, by rw [alloc_ref]; exact hs, by rw [alloc_ref, alloc_size]; omega⟩

theorem res_leaf {n : Nat} {h0 h : Heap F} (e : Ext n h0 h) (vals : List (String × Prim F)) (kind : String) (c : Bool) :
    Res n h0 h ((h.alloc (.props vals)).1.alloc (.node kind (h.alloc (.props vals)).2 [] c)) := by
  refine res_alloc (e.props vals) (by rw [alloc_size]; omega) _ ?_
  intro x hx
  simp only [Obj.refs, alloc_ref, List.mem_singleton] at hx
  subst hx
  have := e.le'
  rw [alloc_size]
  omega

mutual
theorem build_ext : ∀ (t : DInfo F) (n : Nat) (h0 h : Heap F), Ext n h0 h → Res n h0 h (build t h)
  | .double mn mx ar rr u fmt, n, h0, h, e => by simp only [build]; exact res_leaf e _ _ _
  | .int mn mx, n, h0, h, e => by simp only [build]; exact res_leaf e _ _ _
  | .scaled s mn mx ar rr u fmt, n, h0, h, e => by simp only [build]; exact res_leaf e _ _ _
  | .bool, n, h0, h, e => by simp only [build]; exact res_leaf e _ _ _
  | .string a b u, n, h0, h, e => by simp only [build]; exact res_leaf e _ _ _
  | .blob a b, n, h0, h, e => by simp only [build]; exact res_leaf e _ _ _
  | .enum name ms, n, h0, h, e => by
    simp only [build]
    have e1 := e.props []
    have e2 : Ext n h0 ((h.alloc (.props [])).1.alloc (.enum name ms)).1 :=
      e1.alloc _ (by intro x hx; simp [Obj.refs] at hx)
    refine res_alloc e2 (by simp only [alloc_size]; omega) _ ?_
    intro x hx
    have := e.le'
    simp only [Obj.refs, alloc_ref, alloc_size, List.mem_cons, List.not_mem_nil, or_false] at hx ⊢
    rcases hx with rfl | rfl <;> omega
  | .array elem a b, n, h0, h, e => by
    simp only [build]
    have e1 := e.props (propsOf (.array elem a b))
    obtain ⟨e2, lo, hi⟩ := build_ext elem n h0 _ e1
    rw [alloc_size] at lo
    refine res_alloc e2 (by omega) _ ?_
    intro x hx
    have := e.le'
    simp only [Obj.refs, alloc_ref, List.mem_cons, List.not_mem_nil, or_false] at hx ⊢
    rcases hx with rfl | rfl <;> omega
  | .tuple es, n, h0, h, e => by
    simp only [build]
    have e1 := e.props []
    obtain ⟨e2, lo, hi⟩ := buildList_ext es n h0 _ e1
    rw [alloc_size] at lo
    have hn := e.le'
    have e3 := e2.alloc (.table ((buildList es (h.alloc (.props [])).1).2.map (fun r => ("", r)))) (by
      intro x hx
      simp only [Obj.refs, List.map_map, List.mem_map, Function.comp] at hx
      obtain ⟨r, hr, rfl⟩ := hx
      have := hi r hr
      rw [alloc_size] at this
      omega)
    refine res_alloc e3 (by rw [alloc_size]; omega) _ ?_
    intro x hx
    simp only [Obj.refs, alloc_ref, alloc_size, List.mem_cons, List.not_mem_nil, or_false] at hx ⊢
    rcases hx with rfl | rfl <;> omega
  | .struct ms opt c, n, h0, h, e => by
    simp only [build]
    have e1 := e.props []
    obtain ⟨e2, lo, hi⟩ := buildFields_ext ms n h0 _ e1
    rw [alloc_size] at lo
    have hn := e.le'
    have e3 := e2.alloc (.table (buildFields ms (h.alloc (.props [])).1).2) (by
      intro x hx
      have := hi x hx
      rw [alloc_size] at this
      omega)
    have e4 := e3.alloc (.names opt) (by intro x hx; simp [Obj.refs] at hx)
    refine res_alloc e4 (by simp only [alloc_size]; omega) _ ?_
    intro x hx
    simp only [Obj.refs, alloc_ref, alloc_size, List.mem_cons, List.not_mem_nil, or_false] at hx ⊢
    rcases hx with rfl | rfl | rfl <;> omega
theorem buildList_ext : ∀ (ts : List (DInfo F)) (n : Nat) (h0 h : Heap F), Ext n h0 h → ResL n h0 h (buildList ts h)
  | [], n, h0, h, e => by
    simp only [buildList]
    exact ⟨e, Nat.le_refl _, by intro r hr; cases hr⟩
  | t :: ts, n, h0, h, e => by
    unfold ResL
    simp only [buildList]
    obtain ⟨e1, lo1, hi1⟩ := build_ext t n h0 h e
    obtain ⟨e2, lo2, hi2⟩ := buildList_ext ts n h0 _ e1
    refine ⟨e2, by omega, ?_⟩
    intro r hr
    simp only [List.mem_cons] at hr
    rcases hr with rfl | hr
    · omega
    · have := hi2 r hr
      omega
theorem buildFields_ext : ∀ (ts : List (String × DInfo F)) (n : Nat) (h0 h : Heap F), Ext n h0 h → ResF n h0 h (buildFields ts h)
  | [], n, h0, h, e => by
    simp only [buildFields]
    exact ⟨e, Nat.le_refl _, by intro r hr; cases hr⟩
  | (k, t) :: ts, n, h0, h, e => by
    unfold ResF
    simp only [buildFields]
    obtain ⟨e1, lo1, hi1⟩ := build_ext t n h0 h e
    obtain ⟨e2, lo2, hi2⟩ := buildFields_ext ts n h0 _ e1
    refine ⟨e2, by omega, ?_⟩
    intro r hr
    simp only [List.map_cons, List.mem_cons] at hr
    rcases hr with rfl | hr
    · omega
    · have := hi2 r hr
      omega
end

/-! ### 1. what `build` does to the heap -/

/-- `build t h`: (a) the old objects are untouched, (b) the root is a new object, (c) new objects only refer to
new objects -/
theorem build_spec (t : DInfo F) (h h' : Heap F) (r : Ref) (hb : build t h = (h', r)) :
    (∃ ext, h'.objs = h.objs ++ ext) ∧
    (h.size ≤ r ∧ r < h'.size) ∧
    (∀ i o, h.size ≤ i → h'.get? i = some o → ∀ x ∈ o.refs, h.size ≤ x ∧ x < h'.size) := by
  obtain ⟨e, lo, hi⟩ := build_ext t h.size h h (Ext.refl h)
  rw [hb] at e lo hi
  exact ⟨e.pre, ⟨lo, hi⟩, e.good⟩

theorem buildList_spec (ts : List (DInfo F)) (h h' : Heap F) (rs : List Ref) (hb : buildList ts h = (h', rs)) :
    (∃ ext, h'.objs = h.objs ++ ext) ∧
    (∀ r ∈ rs, h.size ≤ r ∧ r < h'.size) ∧
    (∀ i o, h.size ≤ i → h'.get? i = some o → ∀ x ∈ o.refs, h.size ≤ x ∧ x < h'.size) := by
  obtain ⟨e, lo, hi⟩ := buildList_ext ts h.size h h (Ext.refl h)
  rw [hb] at e lo hi
  exact ⟨e.pre, hi, e.good⟩

theorem buildFields_spec (ts : List (String × DInfo F)) (h h' : Heap F) (rs : List (String × Ref))
    (hb : buildFields ts h = (h', rs)) :
    (∃ ext, h'.objs = h.objs ++ ext) ∧
    (∀ kr ∈ rs, h.size ≤ kr.2 ∧ kr.2 < h'.size) ∧
    (∀ i o, h.size ≤ i → h'.get? i = some o → ∀ x ∈ o.refs, h.size ≤ x ∧ x < h'.size) := by
  obtain ⟨e, lo, hi⟩ := buildFields_ext ts h.size h h (Ext.refl h)
  rw [hb] at e lo hi
  refine ⟨e.pre, ?_, e.good⟩
  intro kr hkr
  exact hi kr.2 (List.mem_map.mpr ⟨kr, hkr, rfl⟩)

/-! ### 2. everything reachable from a freshly built root is new -/

theorem Good.reach {n : Nat} {h : Heap F} (g : Good n h) {r x : Ref} (hr : n ≤ r) (hx : Reach h r x) : n ≤ x := by
  induction hx with
  | refl r => exact hr
  | step hg hm _ ih => exact ih (g _ _ hr hg _ hm).1

theorem build_fresh' (t : DInfo F) (h : Heap F) :
    ∀ x, Reach (build t h).1 (build t h).2 x → h.size ≤ x := by
  obtain ⟨e, lo, hi⟩ := build_ext t h.size h h (Ext.refl h)
  intro x hx
  exact e.good.reach lo hx

theorem build_fresh (t : DInfo F) (h : Heap F) :
    let (h', r) := build t h; ∀ x, Reach h' r x → h.size ≤ x :=
  build_fresh' t h

/-! ### 3. old objects only reach old objects, also in an extended heap -/

theorem old_reach_closed {h h' : Heap F} {ext : List (Obj F)} (hc : Closed h) (hp : h'.objs = h.objs ++ ext) :
    ∀ r0, r0 < h.size → ∀ x, Reach h' r0 x → x < h.size := by
  intro r0 hr0 x hx
  induction hx with
  | refl r => exact hr0
  | step hg hm _ ih =>
    rw [Pre.get? ⟨ext, hp⟩ hr0] at hg
    exact ih (hc _ _ hg _ hm)

/-! ### 4. the copy shares nothing with what existed before -/

section copy
variable [FloatOps F]

theorem copyH_build {D : Consts F} {h h' : Heap F} {r r' : Ref} (hcp : copyH D h r = some (h', r')) :
    ∃ t', build t' h = (h', r') := by
  unfold copyH at hcp
  split at hcp
  · split at hcp
    · exact ⟨_, Option.some.inj hcp⟩
    · cases hcp
  · cases hcp

theorem copyH_keeps (D : Consts F) {h h' : Heap F} {r r' : Ref} (hcp : copyH D h r = some (h', r')) :
    ∀ i, i < h.size → h'.get? i = h.get? i := by
  obtain ⟨t', hb⟩ := copyH_build hcp
  intro i hi
  exact Pre.get? (build_spec t' h h' r' hb).1 hi

/-- the copy is made of new objects only -/
theorem copyH_new (D : Consts F) {h h' : Heap F} {r r' : Ref} (hcp : copyH D h r = some (h', r')) :
    ∀ x, Reach h' r' x → h.size ≤ x := by
  obtain ⟨t', hb⟩ := copyH_build hcp
  have := build_fresh' t' h
  rw [hb] at this
  exact this

theorem copyH_fresh (D : Consts F) {h h' : Heap F} {r r' : Ref} (hc : Closed h)
    (hcp : copyH D h r = some (h', r')) :
    ∀ r0, r0 < h.size → ∀ x, Reach h' r' x → ¬ Reach h' r0 x := by
  intro r0 hr0 x hx hx0
  obtain ⟨t', hb⟩ := copyH_build hcp
  obtain ⟨ext, hp⟩ := (build_spec t' h h' r' hb).1
  have h1 := copyH_new D hcp x hx
  have h2 := old_reach_closed hc hp r0 hr0 x hx0
  exact Nat.lt_irrefl _ (Nat.lt_of_lt_of_le h2 h1)

/-! ### 5. frame: mutating the copy leaves every old object as it was -/

theorem copyH_frame (D : Consts F) {h h' : Heap F} {r r' x : Ref} (hcp : copyH D h r = some (h', r'))
    (hx : Reach h' r' x) : ∀ (o : Obj F) i, i < h.size → (h'.set x o).get? i = h.get? i := by
  intro o i hi
  have h1 := copyH_new D hcp x hx
  rw [← copyH_keeps D hcp i hi]
  simp only [Heap.get?, Heap.set]
  exact List.getElem?_set_ne (by omega)

end copy

/-! ### 6. `build` keeps the heap closed -/

theorem build_closed (t : DInfo F) (h : Heap F) (hc : Closed h) : Closed (build t h).1 := by
  obtain ⟨e, lo, hi⟩ := build_ext t h.size h h (Ext.refl h)
  intro i o hg x hx
  by_cases hi' : i < h.size
  · rw [e.pre.get? hi'] at hg
    exact Nat.lt_of_lt_of_le (hc i o hg x hx) e.pre.size_le
  · exact (e.good i o (Nat.le_of_not_lt hi') hg x hx).2

theorem closed_empty : Closed (⟨[]⟩ : Heap F) := by
  intro r o hg
  simp [Heap.get?] at hg

/-! ### non-vacuity: the hypotheses of `copyH_fresh` / `copyH_frame` hold on a concrete tree over `Rat` -/

section NonVacuity

def D0 : Consts Rat := ⟨0, 0, 0⟩
def t0 : DInfo Rat := .tuple [.enum "e" [("a", 1)], .bool]
def h0 : Heap Rat := (build t0 ⟨[]⟩).1
def r0 : Ref := (build t0 ⟨[]⟩).2

theorem h0_closed : Closed h0 := build_closed t0 ⟨[]⟩ closed_empty
theorem r0_lt : r0 < h0.size := (build_spec t0 ⟨[]⟩ h0 r0 rfl).2.1.2
theorem copy0 : copyH D0 h0 r0 = some ((build t0 h0).1, (build t0 h0).2) := by rfl

/-- the original tree (root `r0`, allocated before) does not reach the root of its copy … -/
example : ¬ Reach (build t0 h0).1 r0 (build t0 h0).2 :=
  copyH_fresh D0 h0_closed copy0 r0 r0_lt _ (Reach.refl _)

/-- … and overwriting the root of the copy leaves the original root object as it was -/
example (o : Obj Rat) : ((build t0 h0).1.set (build t0 h0).2 o).get? r0 = h0.get? r0 :=
  copyH_frame D0 copy0 (Reach.refl _) o r0 r0_lt

end NonVacuity

end Frappy.Lemmas.C03Heap
