import FrappyProofs.Lemmas.LifecycleWait
/-
Helper lemmas for C15: configured writes and first polls in the log of the start phase, for every schedule of the start
loop, the poll threads and the clock.
-/
namespace Frappy.Proofs.LifecycleWrites
open Frappy.Lifecycle Frappy.Spec.C15 Frappy.Proofs.Lifecycle Frappy.Proofs.LifecycleInit Frappy.Proofs.LifecycleWait

/-- every module is served by one poll thread only -/
def UniqueOwner (st : St) : Prop := ∀ m t t', m ∈ members st t → m ∈ members st t' → t = t'

/-- `polledModules` lists no module twice, whatever the thread -/
def GroupsOk (st : St) : Prop := (st.groups.map (·.2)).Nodup

instance (st : St) : Decidable (GroupsOk st) := by unfold GroupsOk; infer_instance

theorem snd_nodup_fst_eq : ∀ (l : List (Name × Name)) (a b m : Name), (l.map (·.2)).Nodup → (a, m) ∈ l → (b, m) ∈ l →
    a = b := by
  intro l
  induction l with
  | nil => intro a b m _ h; cases h
  | cons x l ih =>
    intro a b m hnd ha hb
    simp only [List.map_cons, List.nodup_cons] at hnd
    rcases List.mem_cons.mp ha with ha1 | ha1
    · rcases List.mem_cons.mp hb with hb1 | hb1
      · rw [← ha1] at hb1; exact (Prod.mk.injEq _ _ _ _ ▸ hb1).1.symm
      · subst ha1
        have : m ∈ l.map (·.2) := List.mem_map.mpr ⟨(b, m), hb1, rfl⟩
        exact absurd this hnd.1
    · rcases List.mem_cons.mp hb with hb1 | hb1
      · subst hb1
        have : m ∈ l.map (·.2) := List.mem_map.mpr ⟨(a, m), ha1, rfl⟩
        exact absurd this hnd.1
      · exact ih a b m hnd.2 ha1 hb1

theorem mem_members (st : St) (t m : Name) (h : m ∈ members st t) : (t, m) ∈ st.groups := by
  simp only [members, List.mem_map, List.mem_filter] at h
  obtain ⟨g, ⟨hg, ht⟩, rfl⟩ := h
  have : g.1 = t := by simpa using ht
  rw [← this]; exact hg

theorem uniqueOwner_of_groupsOk (st : St) (h : GroupsOk st) : UniqueOwner st := by
  intro m t t' h1 h2
  exact snd_nodup_fst_eq st.groups t t' m h (mem_members st t m h1) (mem_members st t' m h2)

theorem members_nodup_of_groupsOk (st : St) (h : GroupsOk st) (t : Name) : (members st t).Nodup := by
  unfold members
  exact h.sublist (List.Sublist.map _ List.filter_sublist)

/-! ### who logs what -/

theorem writeInitParams_mem (c : ModCfg) (e : Ev) (h : e ∈ (writeInitParams c).1) : ∃ p, e = Ev.write c.name p := by
  rw [writeInitParams_eq] at h
  obtain ⟨p, _, rfl⟩ := List.mem_map.mp h
  exact ⟨p, rfl⟩

theorem initialReadsOne_nowrite (c : ModCfg) (m : Name) (p : String) : Ev.write m p ∉ (initialReadsOne c).1 := by
  intro he
  unfold initialReadsOne at he
  split at he
  · simp at he
  · split at he <;> simp at he

theorem initLoop_write (st : St) (m : Name) (p : String) : ∀ (ms : List Name),
    Ev.write m p ∈ (initLoop st ms).evs → m ∈ ms := by
  intro ms
  induction ms with
  | nil => intro h; simp [initLoop] at h
  | cons x ms ih =>
    intro h
    unfold initLoop at h
    cases hr : initialReadsOne (objOf st x) with
    | mk evs exc =>
      have hn := initialReadsOne_nowrite (objOf st x) m p
      rw [hr] at hn
      simp only [hr] at h
      have hw : Ev.write m p ∈ (writeInitParams (objOf st x)).1 → m = x := by
        intro h'
        obtain ⟨q, hq⟩ := writeInitParams_mem _ _ h'
        simp only [objOf, Ev.write.injEq] at hq
        exact hq.1
      cases exc with
      | some _ =>
        simp only [List.mem_append] at h
        rcases h with h | h
        · rw [hw h]; simp
        · exact absurd h hn
      | none =>
        simp only [List.mem_append] at h
        rcases h with (h | h) | h
        · rw [hw h]; simp
        · exact absurd h hn
        · exact List.mem_cons_of_mem _ (ih h)

theorem firstPollOne_fp (c : ModCfg) (b : Bool) (m : Name) (h : Ev.firstpoll m ∈ (firstPollOne c b).1) : m = c.name := by
  unfold firstPollOne at h
  split at h
  · simpa using h
  · split at h <;> simpa using h

theorem pollLoop_fp (st : St) (m : Name) : ∀ (ms : List Name), Ev.firstpoll m ∈ (pollLoop st ms).evs → m ∈ ms := by
  intro ms
  induction ms with
  | nil => intro h; simp [pollLoop] at h
  | cons x ms ih =>
    intro h
    unfold pollLoop at h
    cases hr : firstPollOne (objOf st x) true with
    | mk evs exc =>
      have hf := firstPollOne_fp (objOf st x) true m
      rw [hr] at hf
      simp only [hr] at h
      cases exc with
      | some _ => rw [hf h]; simp [objOf]
      | none =>
        simp only [List.mem_append] at h
        rcases h with h | h
        · rw [hf h]; simp [objOf]
        · exact List.mem_cons_of_mem _ (ih h)

theorem pollLoop_rest (st : St) : ∀ (ms rest : List Name), (pollLoop st ms).aborted = some rest → ∀ x ∈ rest, x ∈ ms := by
  intro ms
  induction ms with
  | nil => intro rest h; simp [pollLoop] at h
  | cons y ms ih =>
    intro rest h x hx
    unfold pollLoop at h
    cases hr : firstPollOne (objOf st y) true with
    | mk evs exc =>
      simp only [hr] at h
      cases exc with
      | some _ =>
        simp only [Option.some.injEq] at h
        subst h
        exact List.mem_cons_of_mem _ hx
      | none => exact List.mem_cons_of_mem _ (ih rest h x hx)

theorem latePolls_fp (st : St) (m : Name) (ms : List Name) (h : Ev.firstpoll m ∈ latePolls st ms) : m ∈ ms := by
  obtain ⟨x, hx, hm⟩ := List.mem_flatMap.mp h
  have := firstPollOne_fp _ _ _ hm
  simp only [objOf] at this
  rw [this]; exact hx

theorem lateWrites_write (st : St) (m : Name) (p : String) (ms : List Name)
    (h : Ev.write m p ∈ lateWrites st ms) : m ∈ ms := by
  obtain ⟨x, hx, hm⟩ := List.mem_flatMap.mp h
  obtain ⟨q, hq⟩ := writeInitParams_mem _ _ hm
  simp only [objOf, Ev.write.injEq] at hq
  rw [hq.1]; exact hx

theorem initLoop_rest (st : St) : ∀ (ms rest : List Name), (initLoop st ms).aborted = some rest → ∀ x ∈ rest, x ∈ ms := by
  intro ms
  induction ms with
  | nil => intro rest h; simp [initLoop] at h
  | cons y ms ih =>
    intro rest h x hx
    unfold initLoop at h
    cases hr : initialReadsOne (objOf st y) with
    | mk evs exc =>
      simp only [hr] at h
      cases exc with
      | some _ =>
        simp only [Option.some.injEq] at h
        subst h
        exact List.mem_cons_of_mem _ hx
      | none => exact List.mem_cons_of_mem _ (ih rest h x hx)

/-- a configured value is written by the thread that serves the module -/
theorem prologue_write (st : St) (t m : Name) (p : String) (h : Ev.write m p ∈ prologue st t) : m ∈ members st t := by
  have hP : ∀ ms, Ev.write m p ∉ (pollLoop st ms).evs := by
    intro ms h'
    have := pollLoop_pl st ms _ h'
    simp [isPollLoopEv] at this
  have hL : ∀ ms, Ev.write m p ∉ latePolls st ms := by
    intro ms h'
    have := latePolls_pl st ms _ h'
    simp [isPollLoopEv] at this
  unfold prologue at h
  simp only at h
  split at h
  next rest hr =>
    simp only [List.mem_append, List.mem_singleton] at h
    rcases h with ((h | h) | h) | h
    · exact initLoop_write st m p _ h
    · cases h
    · exact initLoop_rest st _ rest hr m (lateWrites_write st m p _ h)
    · exact absurd h (hL _)
  · split at h
    · simp only [List.mem_append, List.mem_singleton] at h
      rcases h with ((h | h) | h) | h
      · exact initLoop_write st m p _ h
      · exact absurd h (hP _)
      · cases h
      · exact absurd h (hL _)
    · simp only [List.mem_append, List.mem_singleton] at h
      rcases h with (h | h) | h
      · exact initLoop_write st m p _ h
      · exact absurd h (hP _)
      · cases h

/-- a module is polled by the thread that serves it -/
theorem prologue_firstpoll (st : St) (t m : Name) (h : Ev.firstpoll m ∈ prologue st t) : m ∈ members st t := by
  have hI : Ev.firstpoll m ∉ (initLoop st (members st t)).evs := by
    intro h'
    have := initLoop_il st _ _ h'
    simp [isInitLoopEv] at this
  have hsub : ∀ x ∈ (members st t).filter (fun m => (cfgOf st m).poll), x ∈ members st t :=
    fun x hx => (List.mem_filter.mp hx).1
  unfold prologue at h
  simp only at h
  split at h
  · simp only [List.mem_append, List.mem_singleton] at h
    rcases h with ((h | h) | h) | h
    · exact absurd h hI
    · cases h
    · have := lateWrites_il st _ _ h
      simp [isInitLoopEv] at this
    · exact hsub _ (latePolls_fp st m _ h)
  · split at h
    next rest hr =>
      simp only [List.mem_append, List.mem_singleton] at h
      rcases h with ((h | h) | h) | h
      · exact absurd h hI
      · exact hsub _ (pollLoop_fp st m _ h)
      · cases h
      · exact hsub _ (pollLoop_rest st _ rest hr m (latePolls_fp st m _ h))
    · simp only [List.mem_append, List.mem_singleton] at h
      rcases h with (h | h) | h
      · exact absurd h hI
      · exact hsub _ (pollLoop_fp st m _ h)
      · cases h

/-- with any faults: the events of a poll thread are a part without first polls followed by a part without writes -/
theorem prologue_split (st : St) (t : Name) :
    ∃ A B, prologue st t = A ++ B ∧ (∀ e ∈ A, ∀ m, e ≠ Ev.firstpoll m) ∧ (∀ e ∈ B, ∀ m p, e ≠ Ev.write m p) := by
  have hA : ∀ e ∈ (initLoop st (members st t)).evs, ∀ m, e ≠ Ev.firstpoll m := by
    intro e he m h; subst h
    have := initLoop_il st _ _ he
    simp [isInitLoopEv] at this
  have hP : ∀ ms, ∀ e ∈ (pollLoop st ms).evs, ∀ m p, e ≠ Ev.write m p := by
    intro ms e he m p h; subst h
    have := pollLoop_pl st _ _ he
    simp [isPollLoopEv] at this
  have hL : ∀ ms, ∀ e ∈ latePolls st ms, ∀ m p, e ≠ Ev.write m p := by
    intro ms e he m p h; subst h
    have := latePolls_pl st _ _ he
    simp [isPollLoopEv] at this
  unfold prologue
  simp only
  split
  next rest h =>
    refine ⟨(initLoop st (members st t)).evs ++ [Ev.rounddone t] ++ lateWrites st rest,
      latePolls st ((members st t).filter (fun m => (cfgOf st m).poll)),
      by simp [List.append_assoc], ?_, hL _⟩
    intro e he m
    simp only [List.mem_append, List.mem_singleton] at he
    rcases he with (he | rfl) | he
    · exact hA e he m
    · intro h; cases h
    · intro h; subst h
      have := lateWrites_il st _ _ he
      simp [isInitLoopEv] at this
  next h =>
    split
    next rest h2 =>
      refine ⟨(initLoop st (members st t)).evs,
        (pollLoop st ((members st t).filter (fun m => (cfgOf st m).poll))).evs ++ [Ev.rounddone t] ++ latePolls st rest,
        by simp [List.append_assoc], hA, ?_⟩
      intro e he m p
      simp only [List.mem_append, List.mem_singleton] at he
      rcases he with (he | rfl) | he
      · exact hP _ e he m p
      · intro h; cases h
      · exact hL _ e he m p
    next h2 =>
      refine ⟨(initLoop st (members st t)).evs,
        (pollLoop st ((members st t).filter (fun m => (cfgOf st m).poll))).evs ++ [Ev.rounddone t],
        by simp [List.append_assoc], hA, ?_⟩
      intro e he m p
      simp only [List.mem_append, List.mem_singleton] at he
      rcases he with he | rfl
      · exact hP _ e he m p
      · intro h; cases h

/-- behind a first poll, a thread writes no configured value any more -/
theorem after_firstpoll_no_write (st : St) (t m : Name) (done r : List Ev)
    (h : done ++ Ev.firstpoll m :: r = prologue st t) : ∀ m' p, Ev.write m' p ∉ r := by
  obtain ⟨A, B, hAB, hA, hB⟩ := prologue_split st t
  rw [hAB] at h
  intro m' p hmem
  rcases List.append_eq_append_iff.mp h with ⟨a', h1, h2⟩ | ⟨c', h1, h2⟩
  · -- A = done ++ a', firstpoll m :: r = a' ++ B
    cases a' with
    | nil =>
      simp only [List.nil_append] at h2
      exact hB _ (by rw [← h2]; exact List.mem_cons_of_mem _ hmem) m' p rfl
    | cons x a'' =>
      simp only [List.cons_append, List.cons.injEq] at h2
      exact hA x (by rw [h1]; simp) m h2.1.symm
  · -- done = A ++ c', B = c' ++ firstpoll m :: r
    exact hB _ (by rw [h2]; simp [hmem]) m' p rfl

/-! ### the todo lists -/

theorem popThread_cases (t : Name) : ∀ (todo : List (Name × List Ev)),
    ((popThread t todo).1 = none ∧ (popThread t todo).2 = todo) ∨
    ∃ A e r B, todo = A ++ (t, e :: r) :: B ∧ popThread t todo = (some e, A ++ (t, r) :: B) := by
  intro todo
  induction todo with
  | nil => left; simp [popThread]
  | cons q rest ih =>
    obtain ⟨n, evs⟩ := q
    by_cases hn : (n == t) = true
    · have hnt : n = t := by simpa using hn
      subst hnt
      cases evs with
      | nil => left; simp [popThread]
      | cons e evs' =>
        right
        exact ⟨[], e, evs', rest, by simp, by simp [popThread]⟩
    · have hn' : (n == t) = false := by simpa using hn
      cases hp : popThread t rest with
      | mk oe rest' =>
        rw [hp] at ih
        rcases ih with ⟨h1, h2⟩ | ⟨A, e, r, B, h1, h2⟩
        · left
          simp only at h1 h2
          simp [popThread, hn', hp, h1, h2]
        · right
          simp only [Prod.mk.injEq] at h2
          refine ⟨(n, evs) :: A, e, r, B, by simp [h1], ?_⟩
          simp [popThread, hn', hp, h2.1, h2.2]

/-- what holds of the start phase under every schedule -/
structure OI (st : St) (w : Wait) : Prop where
  suffix : ∀ q ∈ w.todo, ∃ done, done ++ q.2 = prologue st q.1
  names : (w.todo.map (·.1)).Nodup
  order : ∀ m p, NeverAfter (· == Ev.firstpoll m) (· == Ev.write m p) w.log
  gone : ∀ m p, Ev.firstpoll m ∈ w.log → ∀ q ∈ w.todo, Ev.write m p ∉ q.2
  mainNo : ∀ e ∈ w.mainTodo, isProl e = false

theorem neverAfter_append_inert (p q : Ev → Bool) (l L : List Ev) (h : NeverAfter p q l)
    (hL : ∀ x ∈ L, p x = false ∧ q x = false) : NeverAfter p q (l ++ L) := by
  unfold NeverAfter at h ⊢
  rw [List.pairwise_append]
  refine ⟨h, ?_, ?_⟩
  · apply pairwise_of_left
    intro a ha b hab
    rw [(hL a ha).1] at hab
    cases hab.1
  · intro a _ b hb hab
    rw [(hL b hb).2] at hab
    cases hab.2

/-- a step that logs only events no poll thread logs, and leaves the todo lists alone -/
theorem oi_inert {st : St} {w w' : Wait} (h : OI st w) (L : List Ev) (hlog : w'.log = w.log ++ L)
    (hL : ∀ x ∈ L, isProl x = false) (ht : w'.todo = w.todo) (hm : ∀ e ∈ w'.mainTodo, e ∈ w.mainTodo) : OI st w' := by
  refine ⟨by rw [ht]; exact h.suffix, by rw [ht]; exact h.names, ?_, ?_, fun e he => h.mainNo e (hm e he)⟩
  · intro m p
    rw [hlog]
    apply neverAfter_append_inert _ _ _ _ (h.order m p)
    intro x hx
    have := hL x hx
    cases x <;> simp [isProl] at this <;> simp
  · intro m p hmem
    rw [hlog] at hmem
    rw [ht]
    rcases List.mem_append.mp hmem with hmem | hmem
    · exact h.gone m p hmem
    · have := hL _ hmem
      simp [isProl] at this

theorem oi_step (st : St) (hU : UniqueOwner st) (w : Wait) (a : Act) (h : OI st w) : OI st (actStep w a) := by
  cases a with
  | main =>
    simp only [actStep, mainStep]
    cases hm : w.mainTodo with
    | nil => exact h
    | cons e rest =>
      apply oi_inert h [e] rfl
      · intro x hx
        simp only [List.mem_singleton] at hx
        subst hx
        exact h.mainNo x (by rw [hm]; simp)
      · rfl
      · intro x hx
        rw [hm]; exact List.mem_cons_of_mem _ hx
  | expire =>
    simp only [actStep]
    split
    · exact h
    · apply oi_inert h [Ev.deadline] rfl
      · intro x hx
        simp only [List.mem_singleton] at hx
        subst hx; rfl
      · rfl
      · intro x hx; exact hx
  | wake =>
    simp only [actStep, wakeStep]
    split
    · exact h
    · split
      · apply oi_inert h [Ev.ready] rfl
        · intro x hx
          simp only [List.mem_singleton] at hx
          subst hx; rfl
        · rfl
        · intro x hx; exact hx
      · split
        · apply oi_inert h (w.pending.map Ev.timeout ++ [Ev.ready]) (by simp [List.append_assoc])
          · intro x hx
            simp only [List.mem_append, List.mem_map, List.mem_singleton] at hx
            rcases hx with ⟨t, _, rfl⟩ | rfl <;> rfl
          · rfl
          · intro x hx; exact hx
        · exact h
  | step t =>
    simp only [actStep, threadStep]
    split
    · rcases popThread_cases t w.todo with ⟨h1, h2⟩ | ⟨A, e, r, B, h1, h2⟩
      · cases hp : popThread t w.todo with
        | mk oe todo' =>
          rw [hp] at h1
          simp only at h1
          subst h1
          exact h
      · rw [h2]
        simp only
        have hq : (t, e :: r) ∈ w.todo := by rw [h1]; simp
        obtain ⟨done, hdone⟩ := h.suffix _ hq
        simp only at hdone
        have hnames := h.names
        rw [h1] at hnames
        simp only [List.map_append, List.map_cons] at hnames
        have htA : ∀ q ∈ A, q.1 ≠ t := by
          intro q hq' heq
          have := (List.nodup_append.mp hnames).2.2 q.1 (List.mem_map.mpr ⟨q, hq', rfl⟩) t (by simp)
          exact this heq
        have htB : ∀ q ∈ B, q.1 ≠ t := by
          intro q hq' heq
          have h2' := (List.nodup_append.mp hnames).2.1
          have := (List.nodup_cons.mp h2').1
          exact this (by rw [← heq]; exact List.mem_map.mpr ⟨q, hq', rfl⟩)
        have hepro : e ∈ prologue st t := by rw [← hdone]; simp
        refine ⟨?_, ?_, ?_, ?_, h.mainNo⟩
        · intro q hq'
          simp only [List.mem_append, List.mem_cons] at hq'
          rcases hq' with hq' | rfl | hq'
          · exact h.suffix q (by rw [h1]; simp [hq'])
          · exact ⟨done ++ [e], by simpa using hdone⟩
          · exact h.suffix q (by rw [h1]; simp [hq'])
        · simpa using hnames
        · intro m p
          rw [neverAfter_snoc]
          refine ⟨h.order m p, ?_⟩
          intro x hx hxe
          simp only [beq_iff_eq] at hxe
          obtain ⟨hx1, hx2⟩ := hxe
          subst hx1; subst hx2
          exact h.gone m p hx _ hq (by simp)
        · intro m p hmem q hq' hw
          simp only [List.mem_append, List.mem_singleton] at hmem
          have hq'' : q ∈ A ∨ q = (t, r) ∨ q ∈ B := by simpa using hq'
          rcases hmem with hmem | hmem
          · -- the first poll was logged before
            rcases hq'' with hqa | rfl | hqb
            · exact h.gone m p hmem q (by rw [h1]; simp [hqa]) hw
            · exact h.gone m p hmem _ hq (List.mem_cons_of_mem _ hw)
            · exact h.gone m p hmem q (by rw [h1]; simp [hqb]) hw
          · -- it is logged now, by thread t
            subst hmem
            have hmt : m ∈ members st t := prologue_firstpoll st t m hepro
            rcases hq'' with hqa | rfl | hqb
            · obtain ⟨d', hd'⟩ := h.suffix q (by rw [h1]; simp [hqa])
              have : m ∈ members st q.1 := prologue_write st q.1 m p (by rw [← hd']; simp [hw])
              exact htA q hqa (hU m q.1 t this hmt)
            · exact after_firstpoll_no_write st t m done r hdone m p hw
            · obtain ⟨d', hd'⟩ := h.suffix q (by rw [h1]; simp [hqb])
              have : m ∈ members st q.1 := prologue_write st q.1 m p (by rw [← hd']; simp [hw])
              exact htB q hqb (hU m q.1 t this hmt)
    · exact h

theorem oi_run (st : St) (hU : UniqueOwner st) (sched : List Act) : ∀ (w : Wait), OI st w → OI st (waitRun w sched) := by
  induction sched with
  | nil => intro w h; exact h
  | cons a rest ih => intro w h; exact ih _ (oi_step st hU w a h)

theorem oi_init (st : St) (hnd : st.modules.Nodup) : OI st (waitInit st) := by
  refine ⟨?_, ?_, ?_, ?_, ?_⟩
  · intro q hq
    simp only [waitInit, List.mem_map] at hq
    obtain ⟨t, _, rfl⟩ := hq
    exact ⟨[], rfl⟩
  · simp only [waitInit, List.map_map]
    have : (threadsOf st).map ((fun q : Name × List Ev => q.1) ∘ fun t => (t, prologue st t)) = threadsOf st := by
      simp [Function.comp_def]
    rw [this]
    exact hnd.sublist List.filter_sublist
  · intro m p; simp [waitInit, NeverAfter]
  · intro m p h; simp [waitInit] at h
  · intro e he
    simp only [waitInit, startEvents, List.mem_flatMap] at he
    obtain ⟨m, _, hm⟩ := he
    unfold startOne at hm
    split at hm
    · simp only [List.mem_singleton] at hm; subst hm; rfl
    · simp only [List.mem_cons, List.not_mem_nil, or_false] at hm
      rcases hm with rfl | rfl <;> rfl

/-- the start phase, every schedule: no configured value is written after the first poll of its module -/
theorem waitPhase_order (st : St) (hnd : st.modules.Nodup) (hU : UniqueOwner st) (sched : List Act) (m : Name) (p : String) :
    NeverAfter (· == Ev.firstpoll m) (· == Ev.write m p) (waitPhase st sched) := by
  unfold waitPhase finish
  simp only
  exact (oi_run st hU _ _ (oi_run st hU _ _ (oi_run st hU _ _ (oi_run st hU sched _ (oi_init st hnd))))).order m p

/-! ### every event of every poll thread is logged exactly as often as the thread's sequence says -/

/-- what the threads have logged plus what they still have to do is what their sequences contain -/
def CI (st : St) (w : Wait) : Prop :=
  ∀ e, isProl e = true →
    w.log.count e + (w.todo.flatMap (·.2)).count e = ((threadsOf st).flatMap (prologue st)).count e

theorem count_inert (e : Ev) (he : isProl e = true) (L : List Ev) (hL : ∀ x ∈ L, isProl x = false) : L.count e = 0 := by
  rw [List.count_eq_zero]
  intro h
  rw [hL e h] at he
  cases he

theorem ci_inert {st : St} {w w' : Wait} (h : CI st w) (L : List Ev) (hlog : w'.log = w.log ++ L)
    (hL : ∀ x ∈ L, isProl x = false) (ht : w'.todo = w.todo) : CI st w' := by
  intro e he
  rw [hlog, ht, List.count_append, count_inert e he L hL]
  simpa using h e he

theorem ci_step (st : St) (w : Wait) (a : Act) (ho : OI st w) (h : CI st w) : CI st (actStep w a) := by
  cases a with
  | main =>
    simp only [actStep, mainStep]
    cases hm : w.mainTodo with
    | nil => exact h
    | cons e rest =>
      apply ci_inert h [e] rfl
      · intro x hx
        simp only [List.mem_singleton] at hx
        subst hx
        exact ho.mainNo x (by rw [hm]; simp)
      · rfl
  | expire =>
    simp only [actStep]
    split
    · exact h
    · apply ci_inert h [Ev.deadline] rfl
      · intro x hx
        simp only [List.mem_singleton] at hx
        subst hx; rfl
      · rfl
  | wake =>
    simp only [actStep, wakeStep]
    split
    · exact h
    · split
      · apply ci_inert h [Ev.ready] rfl
        · intro x hx
          simp only [List.mem_singleton] at hx
          subst hx; rfl
        · rfl
      · split
        · apply ci_inert h (w.pending.map Ev.timeout ++ [Ev.ready]) (by simp [List.append_assoc])
          · intro x hx
            simp only [List.mem_append, List.mem_map, List.mem_singleton] at hx
            rcases hx with ⟨t, _, rfl⟩ | rfl <;> rfl
          · rfl
        · exact h
  | step t =>
    simp only [actStep, threadStep]
    split
    · rcases popThread_cases t w.todo with ⟨h1, h2⟩ | ⟨A, x, r, B, h1, h2⟩
      · cases hp : popThread t w.todo with
        | mk oe todo' =>
          rw [hp] at h1
          simp only at h1
          subst h1
          exact h
      · rw [h2]
        simp only
        intro e he
        have := h e he
        rw [h1] at this
        simp only [List.flatMap_append, List.flatMap_cons, List.count_append, List.count_cons, List.count_nil] at this ⊢
        omega
    · exact h

theorem ci_run (st : St) (hU : UniqueOwner st) (sched : List Act) : ∀ (w : Wait), OI st w → CI st w →
    CI st (waitRun w sched) := by
  induction sched with
  | nil => intro w _ h; exact h
  | cons a rest ih => intro w ho h; exact ih _ (oi_step st hU w a ho) (ci_step st w a ho h)

theorem ci_init (st : St) : CI st (waitInit st) := by
  intro e _
  simp [waitInit, List.flatMap_map]

/-! ### in the end every thread has done all of its sequence -/

theorem popThread_at (t : Name) (x : Ev) (r : List Ev) (B : List (Name × List Ev)) :
    ∀ (A : List (Name × List Ev)), (∀ q ∈ A, q.1 ≠ t) →
      popThread t (A ++ (t, x :: r) :: B) = (some x, A ++ (t, r) :: B) := by
  intro A
  induction A with
  | nil => intro _; simp [popThread]
  | cons q A ih =>
    intro h
    obtain ⟨n, evs⟩ := q
    have hn : (n == t) = false := by
      have := h (n, evs) (by simp)
      simpa using this
    have := ih (fun q hq => h q (List.mem_cons_of_mem _ hq))
    simp [popThread, hn, this]

theorem drain_one (t : Name) (B : List (Name × List Ev)) : ∀ (r : List Ev) (w : Wait) (A : List (Name × List Ev)),
    w.todo = A ++ (t, r) :: B → (∀ q ∈ A, q.1 ≠ t) → Ev.thread t ∈ w.log →
    (waitRun w (r.map (fun _ => Act.step t))).todo = A ++ (t, []) :: B ∧
    ∀ x ∈ w.log, x ∈ (waitRun w (r.map (fun _ => Act.step t))).log := by
  intro r
  induction r with
  | nil => intro w A h _ _; exact ⟨h, fun _ hx => hx⟩
  | cons x r ih =>
    intro w A h hA ht
    simp only [List.map_cons, waitRun, List.foldl_cons]
    have hc : w.log.contains (Ev.thread t) = true := by simpa using ht
    have hpop := popThread_at t x r B A hA
    rw [← h] at hpop
    have hstep : (actStep w (Act.step t)).todo = A ++ (t, r) :: B ∧ (actStep w (Act.step t)).log = w.log ++ [x] := by
      simp [actStep, threadStep, hpop, ht]
    obtain ⟨h1, h2⟩ := ih (actStep w (Act.step t)) A hstep.1 hA (by rw [hstep.2]; simp [ht])
    refine ⟨h1, ?_⟩
    intro y hy
    exact h2 y (by rw [hstep.2]; simp [hy])

theorem drain_all : ∀ (T : List (Name × List Ev)) (w : Wait) (A : List (Name × List Ev)),
    w.todo = A ++ T → ((A ++ T).map (·.1)).Nodup → (∀ q ∈ T, Ev.thread q.1 ∈ w.log) → (∀ q ∈ A, q.2 = []) →
    ∀ q ∈ (waitRun w (T.flatMap (fun p => p.2.map (fun _ => Act.step p.1)))).todo, q.2 = [] := by
  intro T
  induction T with
  | nil =>
    intro w A h _ _ hA q hq
    simp only [List.flatMap_nil, waitRun, List.foldl_nil] at hq
    rw [h] at hq
    exact hA q (by simpa using hq)
  | cons p T ih =>
    intro w A h hnd hthr hA
    obtain ⟨t, r⟩ := p
    simp only [List.flatMap_cons, waitRun, List.foldl_append]
    have hAt : ∀ q ∈ A, q.1 ≠ t := by
      intro q hq heq
      simp only [List.map_append, List.map_cons] at hnd
      exact (List.nodup_append.mp hnd).2.2 q.1 (List.mem_map.mpr ⟨q, hq, rfl⟩) t (by simp) heq
    obtain ⟨h1, h2⟩ := drain_one t T r w A h hAt (hthr (t, r) (by simp))
    apply ih _ (A ++ [(t, [])])
    · simpa [waitRun] using h1
    · simpa using hnd
    · intro q hq
      exact h2 _ (hthr q (List.mem_cons_of_mem _ hq))
    · intro q hq
      simp only [List.mem_append, List.mem_singleton] at hq
      rcases hq with hq | rfl
      · exact hA q hq
      · rfl

theorem todoNames_step (w : Wait) (a : Act) : (actStep w a).todo.map (·.1) = w.todo.map (·.1) := by
  cases a with
  | main => simp only [actStep, mainStep]; split <;> rfl
  | expire => simp only [actStep]; split <;> rfl
  | wake =>
    simp only [actStep, wakeStep]
    split
    · rfl
    · split
      · rfl
      · split <;> rfl
  | step t =>
    simp only [actStep, threadStep]
    split
    · rcases popThread_cases t w.todo with ⟨h1, h2⟩ | ⟨A, x, r, B, h1, h2⟩
      · cases hp : popThread t w.todo with
        | mk oe todo' =>
          rw [hp] at h1 h2
          simp only at h1 h2
          subst h1; subst h2
          rfl
      · rw [h2]
        simp only
        rw [h1]
        simp
    · rfl

theorem todoNames_run (sched : List Act) : ∀ (w : Wait), (waitRun w sched).todo.map (·.1) = w.todo.map (·.1) := by
  induction sched with
  | nil => intro w; rfl
  | cons a rest ih => intro w; exact (ih _).trans (todoNames_step w a)

theorem thread_in_startEvents (st : St) (t : Name) (h : t ∈ threadsOf st) : Ev.thread t ∈ startEvents st := by
  simp only [threadsOf, List.mem_filter] at h
  simp only [startEvents, List.mem_flatMap]
  refine ⟨t, h.1, ?_⟩
  unfold startOne
  have : (members st t).isEmpty = false := by simpa using h.2
  simp [this]

theorem count_nil_todo : ∀ (todo : List (Name × List Ev)) (e : Ev), (∀ q ∈ todo, q.2 = []) →
    (todo.flatMap (·.2)).count e = 0 := by
  intro todo e h
  induction todo with
  | nil => rfl
  | cons q rest ih =>
    simp only [List.flatMap_cons, List.count_append]
    rw [h q (by simp), ih (fun q hq => h q (List.mem_cons_of_mem _ hq))]
    rfl

/-- the complete start phase, every schedule: every event of every poll thread's sequence is in the log exactly as often
as the sequences contain it -/
theorem waitPhase_count (st : St) (hnd : st.modules.Nodup) (hU : UniqueOwner st) (sched : List Act) (e : Ev)
    (he : isProl e = true) :
    (waitPhase st sched).count e = ((threadsOf st).flatMap (prologue st)).count e := by
  unfold waitPhase finish
  simp only
  -- the three stages of `finish`
  have o0 := oi_run st hU sched _ (oi_init st hnd)
  have c0 := ci_run st hU sched _ (oi_init st hnd) (ci_init st)
  obtain ⟨s0, i0⟩ := ws_run (startEvents st) sched _ (ws_init st) (winv_init st)
  generalize hw0 : waitRun (waitInit st) sched = w0 at o0 c0 s0 i0
  have n0 : w0.todo.map (·.1) = threadsOf st := by
    rw [← hw0, todoNames_run]
    simp [waitInit, Function.comp_def]
  have o1 := oi_run st hU (w0.mainTodo.map (fun _ => Act.main)) _ o0
  have c1 := ci_run st hU (w0.mainTodo.map (fun _ => Act.main)) _ o0 c0
  obtain ⟨s1, i1⟩ := ws_run (startEvents st) (w0.mainTodo.map (fun _ => Act.main)) _ s0 i0
  have m1 := mainTodo_drain _ w0 rfl
  have n1 := (todoNames_run (w0.mainTodo.map (fun _ => Act.main)) w0).trans n0
  generalize waitRun w0 (w0.mainTodo.map (fun _ => Act.main)) = w1 at o1 c1 s1 i1 m1 n1
  generalize hs2 : (if w1.ready = true then [] else if w1.pending.isEmpty = true then [Act.wake] else [Act.expire, Act.wake]) = sch2
  have o2 := oi_run st hU sch2 _ o1
  have c2 := ci_run st hU sch2 _ o1 c1
  obtain ⟨s2, _⟩ := ws_run (startEvents st) sch2 _ s1 i1
  have m2 := mainTodo_nil_run sch2 _ m1
  have n2 := (todoNames_run sch2 w1).trans n1
  generalize waitRun w1 sch2 = w2 at o2 c2 s2 m2 n2
  have c3 := ci_run st hU (w2.todo.flatMap (fun p => p.2.map (fun _ => Act.step p.1))) _ o2 c2
  have hthr : ∀ q ∈ w2.todo, Ev.thread q.1 ∈ w2.log := by
    intro q hq
    have hq1 : q.1 ∈ threadsOf st := by rw [← n2]; exact List.mem_map.mpr ⟨q, hq, rfl⟩
    have hin := thread_in_startEvents st q.1 hq1
    have hmain := s2.main
    rw [m2, List.append_nil] at hmain
    rw [← hmain] at hin
    exact (List.mem_filter.mp hin).1
  have hempty := drain_all w2.todo w2 [] (by simp) (by simpa using o2.names) hthr (by simp)
  have := c3 e he
  rw [count_nil_todo _ e hempty] at this
  simpa using this

/-! ### how often a configured value is written -/

theorem count_flatMap_zero (f : Name → List Ev) (e : Ev) : ∀ (l : List Name), (∀ x ∈ l, (f x).count e = 0) →
    (l.flatMap f).count e = 0 := by
  intro l
  induction l with
  | nil => intro _; rfl
  | cons x l ih =>
    intro h
    simp only [List.flatMap_cons, List.count_append]
    rw [h x (by simp), ih (fun y hy => h y (List.mem_cons_of_mem _ hy))]

theorem count_flatMap_unique (f : Name → List Ev) (e : Ev) (t : Name) : ∀ (l : List Name), l.Nodup → t ∈ l →
    (∀ x ∈ l, x ≠ t → (f x).count e = 0) → (l.flatMap f).count e = (f t).count e := by
  intro l
  induction l with
  | nil => intro _ h; cases h
  | cons x l ih =>
    intro hnd ht h0
    simp only [List.flatMap_cons, List.count_append]
    obtain ⟨hx, hnd'⟩ := List.nodup_cons.mp hnd
    by_cases hxt : x = t
    · subst hxt
      rw [count_flatMap_zero f e l]
      · simp
      · intro y hy
        exact h0 y (List.mem_cons_of_mem _ hy) (by intro h; subst h; exact hx hy)
    · have ht' : t ∈ l := by
        rcases List.mem_cons.mp ht with h | h
        · exact absurd h.symm hxt
        · exact h
      rw [h0 x (by simp) hxt, ih hnd' ht' (fun y hy => h0 y (List.mem_cons_of_mem _ hy))]
      simp

theorem count_write_map (m : Name) (p : String) : ∀ (l : List String),
    (l.map (Ev.write m)).count (Ev.write m p) = l.count p := by
  intro l
  induction l with
  | nil => rfl
  | cons q l ih =>
    simp only [List.map_cons, List.count_cons, ih]
    by_cases h : q = p <;> simp [h]

theorem initialReadsOne_count_write (c : ModCfg) (m : Name) (p : String) :
    (initialReadsOne c).1.count (Ev.write m p) = 0 :=
  List.count_eq_zero.mpr (initialReadsOne_nowrite c m p)

/-- whatever breaks the write / initial-read loop off: the values written by the loop for the members it reached and the
values written afterwards for the members it did not reach are, together, the configured values of all members -/
theorem initLoop_count_write (st : St) (m : Name) (p : String) : ∀ (ms : List Name),
    (initLoop st ms).evs.count (Ev.write m p) +
        (lateWrites st ((initLoop st ms).aborted.getD [])).count (Ev.write m p) =
      (ms.flatMap (fun x => (cfgOf st x).writes.map (Ev.write x))).count (Ev.write m p) := by
  intro ms
  induction ms with
  | nil => simp [initLoop, lateWrites]
  | cons x ms ih =>
    have hw : (writeInitParams (objOf st x)).1 = (cfgOf st x).writes.map (Ev.write x) := by
      rw [writeInitParams_eq]; simp [objOf]
    have hl : ∀ l : List Name, lateWrites st l = l.flatMap (fun y => (cfgOf st y).writes.map (Ev.write y)) := by
      intro l
      unfold lateWrites
      congr 1
      funext y
      rw [writeInitParams_eq]; simp [objOf]
    have hn := initialReadsOne_count_write (objOf st x) m p
    unfold initLoop
    cases hr : initialReadsOne (objOf st x) with
    | mk evs exc =>
      rw [hr] at hn
      simp only at hn
      cases exc with
      | some _ =>
        simp only [Option.getD_some, List.count_append, List.flatMap_cons, hn, hw, hl]
        omega
      | none =>
        simp only [List.count_append, List.flatMap_cons, hn, hw]
        omega

theorem prologue_count_write (st : St) (t m : Name) (p : String) :
    (prologue st t).count (Ev.write m p) =
      (initLoop st (members st t)).evs.count (Ev.write m p) +
        (lateWrites st ((initLoop st (members st t)).aborted.getD [])).count (Ev.write m p) := by
  have hP : ∀ ms, (pollLoop st ms).evs.count (Ev.write m p) = 0 := by
    intro ms
    rw [List.count_eq_zero]
    intro h'
    have := pollLoop_pl st ms _ h'
    simp [isPollLoopEv] at this
  have hL : ∀ ms, (latePolls st ms).count (Ev.write m p) = 0 := by
    intro ms
    rw [List.count_eq_zero]
    intro h'
    have := latePolls_pl st ms _ h'
    simp [isPollLoopEv] at this
  unfold prologue
  simp only
  split
  next rest hr => simp [List.count_append, hL, hr]
  next hr =>
    have h0 : lateWrites st [] = [] := rfl
    split
    · simp [List.count_append, hL, hP, hr, h0]
    · simp [List.count_append, hP, hr, h0]

/-- **whatever** faults hit the start-up sequence of thread `t` (communication failures in initial reads and first polls
included): a configured value of a member is in the thread's sequence exactly as often as it is configured -/
theorem prologue_count_write_all (st : St) (t m : Name) (p : String) (hm : m ∈ members st t)
    (hnd : (members st t).Nodup) :
    (prologue st t).count (Ev.write m p) = (cfgOf st m).writes.count p := by
  rw [prologue_count_write, initLoop_count_write]
  rw [count_flatMap_unique _ _ m _ hnd hm]
  · exact count_write_map m p _
  · intro x _ hx
    rw [List.count_eq_zero]
    intro h
    obtain ⟨q, _, h⟩ := List.mem_map.mp h
    simp only [Ev.write.injEq] at h
    exact hx h.1

/-- the start phase, every schedule, any faults: a configured value of a module served by a poll thread is written
exactly as often as it is configured -/
theorem waitPhase_write_once (st : St) (hndm : st.modules.Nodup) (hU : UniqueOwner st) (sched : List Act)
    (t m : Name) (p : String) (ht : t ∈ threadsOf st) (hm : m ∈ members st t) (hnd : (members st t).Nodup) :
    (waitPhase st sched).count (Ev.write m p) = (cfgOf st m).writes.count p := by
  rw [waitPhase_count st hndm hU sched _ rfl]
  have hthr : (threadsOf st).Nodup := hndm.sublist List.filter_sublist
  rw [count_flatMap_unique (prologue st) (Ev.write m p) t (threadsOf st) hthr ht]
  · exact prologue_count_write_all st t m p hm hnd
  · intro t' _ hne
    rw [List.count_eq_zero]
    intro h
    exact hne (hU m t' t (prologue_write st t' m p h) hm)

/-! ### the whole life of the node -/

theorem neverAfter_prepend_inert (p q : Ev → Bool) (L l : List Ev) (h : NeverAfter p q l)
    (hL : ∀ x ∈ L, p x = false ∧ q x = false) : NeverAfter p q (L ++ l) := by
  unfold NeverAfter at h ⊢
  rw [List.pairwise_append]
  refine ⟨?_, h, ?_⟩
  · apply pairwise_of_left
    intro a ha b hab
    rw [(hL a ha).1] at hab
    cases hab.1
  · intro a ha b _ hab
    rw [(hL a ha).1] at hab
    cases hab.1

theorem startup_no_thread_ev (cfg : Cfg) (fuel : Nat) : ∀ e ∈ (startup cfg fuel).log, isProl e = false := by
  intro e he
  rcases startup_shape cfg fuel e he with h | rfl
  · cases e <;> simp [isInitEv] at h <;> rfl
  · rfl

theorem shutdown_no_thread_ev (st : St) (pick : List Name → Nat) :
    ∀ e ∈ [Ev.shutdownbegin] ++ shutdownLog st.modules (threadsOf st) st.edges pick, isProl e = false := by
  intro e he
  simp only [shutdownLog, List.mem_append, List.mem_singleton, List.mem_map] at he
  rcases he with rfl | ((⟨m, _, rfl⟩ | ⟨m, _, rfl⟩) | ⟨m, _, rfl⟩) <;> rfl

theorem inert_pq {L : List Ev} (h : ∀ x ∈ L, isProl x = false) (m : Name) (p : String) :
    ∀ x ∈ L, (x == Ev.firstpoll m) = false ∧ (x == Ev.write m p) = false := by
  intro x hx
  have := h x hx
  cases x <;> simp [isProl] at this <;> simp

/-- whole run, every schedule and choice function, any faults: no configured value is written after the first poll of
its module -/
theorem run_write_order (cfg : Cfg) (fuel : Nat) (sched : List Act) (pick : List Name → Nat)
    (hU : UniqueOwner (startup cfg fuel)) (m : Name) (p : String) :
    NeverAfter (· == Ev.firstpoll m) (· == Ev.write m p) (run cfg fuel sched pick).log := by
  rw [(run_log cfg fuel sched pick).2]
  have h0 := startup_no_thread_ev cfg fuel
  split
  · unfold laterPart
    apply neverAfter_prepend_inert _ _ _ _ _ (inert_pq h0 m p)
    rw [List.append_assoc]
    apply neverAfter_append_inert _ _ _ _ (waitPhase_order _ (startup_modsNd cfg fuel) hU sched m p)
    exact inert_pq (shutdown_no_thread_ev _ pick) m p
  · have : NeverAfter (· == Ev.firstpoll m) (· == Ev.write m p) ([] : List Ev) := by simp [NeverAfter]
    simpa using neverAfter_prepend_inert _ _ _ _ this (inert_pq h0 m p)

/-- whole run of a node that came up: a configured value is written exactly as often as it is configured -/
theorem run_write_count (cfg : Cfg) (fuel : Nat) (sched : List Act) (pick : List Name → Nat)
    (herr : (startup cfg fuel).errors = []) (hU : UniqueOwner (startup cfg fuel))
    (t m : Name) (p : String) (ht : t ∈ threadsOf (startup cfg fuel)) (hm : m ∈ members (startup cfg fuel) t)
    (hnd : (members (startup cfg fuel) t).Nodup) :
    (run cfg fuel sched pick).log.count (Ev.write m p) = (cfgOf (startup cfg fuel) m).writes.count p := by
  rw [(run_log cfg fuel sched pick).2]
  simp only [herr, List.isEmpty_nil, if_true, laterPart, List.count_append]
  rw [count_inert _ rfl _ (startup_no_thread_ev cfg fuel)]
  have h2 := count_inert (Ev.write m p) rfl _ (shutdown_no_thread_ev (startup cfg fuel) pick)
  simp only [List.count_append] at h2
  rw [waitPhase_write_once _ (startup_modsNd cfg fuel) hU sched t m p ht hm hnd]
  omega

end Frappy.Proofs.LifecycleWrites
