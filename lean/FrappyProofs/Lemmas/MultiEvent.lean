import FrappyModel.Klass.MultiEvent
/-
Helper lemmas for C15: the invariant of the MultiEvent protocol at the granularity of its primitives.
-/
namespace Frappy.Proofs.MultiEvent
open Frappy.MultiEvent

theorem mem_of_lookup {α β : Type} [BEq α] [LawfulBEq α] : ∀ (l : List (α × β)) (a : α) (b : β),
    l.lookup a = some b → (a, b) ∈ l := by
  intro l
  induction l with
  | nil => intro a b h; simp [List.lookup] at h
  | cons p l ih =>
    intro a b h
    obtain ⟨k, v⟩ := p
    simp only [List.lookup] at h
    split at h
    · rename_i heq
      have hk : a = k := by simpa using heq
      cases h
      subst hk
      simp
    · exact List.mem_cons_of_mem _ (ih a b h)

/-- invariant of the protocol; `R` is the only thread that registers single events (the main thread in
`Server._processCfg`) -/
structure J (R : Tid) (m : ME) : Prop where
  flagOk : m.flag = true → m.events = [] ∨ ∃ T, m.hold = some (T, Stage.clearHold)
  setOk : ∀ T, m.hold = some (T, Stage.setHold true) → m.events = []
  clearOk : ∀ T, m.hold = some (T, Stage.clearDone) → m.flag = false
  regWant : ∀ p ∈ m.want, ∀ t, p.2 = Want.clear t → p.1 = R
  regHold : ∀ T, m.hold = some (T, Stage.clearHold) ∨ m.hold = some (T, Stage.clearDone) → T = R
  waitHold : ∀ T e st, m.waiter = some (T, e) → m.hold ≠ some (T, st)
  waitWant : ∀ T e, m.waiter = some (T, e) → ∀ p ∈ m.want, p.1 ≠ T
  waitEmpty : m.waiter = some (R, true) → m.events = []

theorem J_init (R : Tid) : J R {} :=
  ⟨(by intro h; cases h), (by intro T h; cases h), (by intro T h; cases h), (by intro p hp; cases hp),
   (by intro T h; rcases h with h | h <;> cases h), (by intro T e st h; cases h), (by intro T e h; cases h),
   (by intro h; cases h)⟩

theorem not_busy {m : ME} {T : Tid} (h : busy m T = false) :
    (∀ p ∈ m.want, p.1 ≠ T) ∧ (∀ st, m.hold ≠ some (T, st)) ∧ (∀ e, m.waiter ≠ some (T, e)) := by
  simp only [busy, Bool.or_eq_false_iff] at h
  obtain ⟨⟨h1, h2⟩, h3⟩ := h
  refine ⟨?_, ?_, ?_⟩
  · intro p hp hpt
    have : (m.want.any fun p => p.1 == T) = true := List.any_eq_true.mpr ⟨p, hp, by simp [hpt]⟩
    rw [h1] at this; cases this
  · intro st hh
    rw [hh] at h2
    simp at h2
  · intro e hh
    rw [hh] at h3
    simp at h3

theorem J_step (R : Tid) (m m' : ME) (T : Tid) (l : Lbl) (hj : J R m) (hs : step m T l = some m')
    (hreg : ∀ t, l = Lbl.register t → T = R) : J R m' := by
  cases l with
  | fire t =>
    simp only [step] at hs
    split at hs
    · cases hs
    · rename_i hb
      have hb' : busy m T = false := by simpa using hb
      obtain ⟨_, _, hw⟩ := not_busy hb'
      cases hs
      refine ⟨hj.flagOk, hj.setOk, hj.clearOk, ?_, hj.regHold, hj.waitHold, ?_, hj.waitEmpty⟩
      · intro p hp t' ht'
        rcases List.mem_cons.mp hp with rfl | hp
        · cases ht'
        · exact hj.regWant p hp t' ht'
      · intro T' e hwt p hp
        rcases List.mem_cons.mp hp with rfl | hp
        · intro heq
          simp only at heq
          subst heq
          exact hw e hwt
        · exact hj.waitWant T' e hwt p hp
  | register t =>
    simp only [step] at hs
    split at hs
    · cases hs
    · rename_i hb
      have hb' : busy m T = false := by simpa using hb
      obtain ⟨_, _, hw⟩ := not_busy hb'
      cases hs
      refine ⟨hj.flagOk, hj.setOk, hj.clearOk, ?_, hj.regHold, hj.waitHold, ?_, hj.waitEmpty⟩
      · intro p hp t' ht'
        rcases List.mem_cons.mp hp with rfl | hp
        · exact hreg t rfl
        · exact hj.regWant p hp t' ht'
      · intro T' e hwt p hp
        rcases List.mem_cons.mp hp with rfl | hp
        · intro heq
          simp only at heq
          subst heq
          exact hw e hwt
        · exact hj.waitWant T' e hwt p hp
  | lock =>
    simp only [step] at hs
    split at hs
    · -- set_
      rename_i t hh hl
      cases hs
      have hmem := mem_of_lookup _ _ _ hl
      refine ⟨?_, ?_, ?_, ?_, ?_, ?_, ?_, (by intro hw; simp [hj.waitEmpty hw])⟩
      · intro hf
        rcases hj.flagOk hf with he | ⟨T', hT'⟩
        · left; simp [he]
        · rw [hh] at hT'; cases hT'
      · intro T' hT'
        simp only [Option.some.injEq, Prod.mk.injEq, Stage.setHold.injEq] at hT'
        simpa using hT'.2
      · intro T' hT'; simp at hT'
      · intro p hp t' ht'
        exact hj.regWant p (List.mem_filter.mp hp).1 t' ht'
      · intro T' hT'
        rcases hT' with hT' | hT' <;> simp at hT'
      · intro T' e st hw hhold
        simp only [Option.some.injEq, Prod.mk.injEq] at hhold
        have := hj.waitWant T' e hw _ hmem
        exact this hhold.1
      · intro T' e hw p hp
        exact hj.waitWant T' e hw p (List.mem_filter.mp hp).1
    · -- clear_
      rename_i t hh hl
      cases hs
      have hmem := mem_of_lookup _ _ _ hl
      refine ⟨?_, ?_, ?_, ?_, ?_, ?_, ?_, ?_⟩
      rotate_right
      · intro hw
        exact absurd (hj.regWant _ hmem t rfl) (hj.waitWant R true hw _ hmem)
      · intro _; exact Or.inr ⟨T, rfl⟩
      · intro T' hT'; simp at hT'
      · intro T' hT'; simp at hT'
      · intro p hp t' ht'
        exact hj.regWant p (List.mem_filter.mp hp).1 t' ht'
      · intro T' hT'
        have : T' = T := by
          rcases hT' with hT' | hT' <;> simp at hT'
          exact hT'.symm
        rw [this]
        exact hj.regWant _ hmem t rfl
      · intro T' e st hw hhold
        simp only [Option.some.injEq, Prod.mk.injEq] at hhold
        exact hj.waitWant T' e hw _ hmem hhold.1
      · intro T' e hw p hp
        exact hj.waitWant T' e hw p (List.mem_filter.mp hp).1
    · cases hs
  | evset =>
    simp only [step] at hs
    split at hs
    · rename_i h hh
      split at hs
      · rename_i hT
        have hT' : h = T := by simpa using hT
        subst hT'
        cases hs
        refine ⟨?_, ?_, ?_, hj.regWant, ?_, ?_, hj.waitWant, hj.waitEmpty⟩
        · intro _; exact Or.inl (hj.setOk h hh)
        · intro T' hT'; simp at hT'
        · intro T' hT'; simp at hT'
        · intro T' hT'; rcases hT' with hT' | hT' <;> simp at hT'
        · intro T' e st hw hhold
          simp only [Option.some.injEq, Prod.mk.injEq] at hhold
          exact hj.waitHold T' e _ hw (by rw [hh, hhold.1])
      · cases hs
    · cases hs
  | evclear =>
    simp only [step] at hs
    split at hs
    · rename_i h hh
      split at hs
      · rename_i hT
        have hT' : h = T := by simpa using hT
        subst hT'
        cases hs
        refine ⟨(by intro hf; cases hf), ?_, ?_, hj.regWant, ?_, ?_, hj.waitWant, hj.waitEmpty⟩
        · intro T' hT'; simp at hT'
        · intro T' _; rfl
        · intro T' hT'
          have : T' = h := by rcases hT' with hT' | hT' <;> simp at hT'; exact hT'.symm
          rw [this]
          exact hj.regHold h (Or.inl hh)
        · intro T' e st hw hhold
          simp only [Option.some.injEq, Prod.mk.injEq] at hhold
          exact hj.waitHold T' e _ hw (by rw [hh, hhold.1])
      · cases hs
    · cases hs
  | unlock =>
    have key : ∀ (hnc : ∀ T', m.hold ≠ some (T', Stage.clearHold)), m' = { m with hold := none } → J R m' := by
      intro hnc hm'
      subst hm'
      refine ⟨?_, ?_, ?_, hj.regWant, ?_, ?_, hj.waitWant, hj.waitEmpty⟩
      · intro hf
        rcases hj.flagOk hf with he | ⟨T', hT'⟩
        · exact Or.inl he
        · exact absurd hT' (hnc T')
      · intro T' hT'; cases hT'
      · intro T' hT'; cases hT'
      · intro T' hT'; rcases hT' with hT' | hT' <;> cases hT'
      · intro T' e st _ hhold; cases hhold
    simp only [step] at hs
    split at hs
    all_goals first
      | (rename_i h hh
         split at hs
         · cases hs
           exact key (by intro T' hT'; rw [hh] at hT'; cases hT') rfl
         · cases hs)
      | cases hs
  | wait =>
    simp only [step] at hs
    split at hs
    · cases hs
    · rename_i hb
      have hb' : busy m T = false := by simpa using hb
      obtain ⟨hw1, hw2, _⟩ := not_busy hb'
      cases hs
      refine ⟨hj.flagOk, hj.setOk, hj.clearOk, hj.regWant, hj.regHold, ?_, ?_, ?_⟩
      rotate_right
      · intro hw
        simp only [Option.some.injEq, Prod.mk.injEq] at hw
        simpa using hw.2
      · intro T' e st hw
        simp only [Option.some.injEq, Prod.mk.injEq] at hw
        rw [← hw.1]
        exact hw2 st
      · intro T' e hw
        simp only [Option.some.injEq, Prod.mk.injEq] at hw
        rw [← hw.1]
        exact hw1
  | waitdone ok =>
    have hm' : m' = { m with waiter := none } := by
      cases hw : m.waiter with
      | none => simp [step, hw] at hs
      | some p =>
        obtain ⟨h, e⟩ := p
        simp only [step, hw] at hs
        by_cases hc : (h == T && (if ok = true then e || m.flag else !e)) = true
        · rw [if_pos hc] at hs; cases hs; rfl
        · rw [if_neg hc] at hs; cases hs
    subst hm'
    exact ⟨hj.flagOk, hj.setOk, hj.clearOk, hj.regWant, hj.regHold, (by intro T' e st h; cases h),
      (by intro T' e h; cases h), (by intro h; cases h)⟩

theorem J_run (R : Tid) : ∀ (trace : List (Tid × Lbl)) (m0 m : ME), J R m0 →
    (∀ p ∈ trace, ∀ t, p.2 = Lbl.register t → p.1 = R) → run m0 trace = some m → J R m := by
  intro trace
  induction trace with
  | nil => intro m0 m hj _ hr; simp only [run, Option.some.injEq] at hr; subst hr; exact hj
  | cons p rest ih =>
    intro m0 m hj hreg hr
    obtain ⟨T, l⟩ := p
    simp only [run] at hr
    cases hs : step m0 T l with
    | none => rw [hs] at hr; cases hr
    | some m1 =>
      rw [hs] at hr
      exact ih m1 m (J_step R m0 m1 T l hj hs (fun t ht => hreg (T, l) (by simp) t ht))
        (fun p hp => hreg p (by simp [hp])) hr

end Frappy.Proofs.MultiEvent
