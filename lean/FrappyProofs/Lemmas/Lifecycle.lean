import FrappyModel.Spec.C15
/-
Helper lemmas for C15: the depth-first search of `_getSortedModules`.
-/
namespace Frappy.Proofs.Lifecycle
open Frappy.Lifecycle

section dfs
variable (att : Name → List Name) (mods : List Name) (rank : Name → Nat)

/-- what the search keeps true: `done` is closed under attachments, `l` lists `done` without repetition and no element
of `l` is attached to a later one -/
structure Inv (s : Dfs) : Prop where
  closed : ∀ u ∈ s.done, ∀ d ∈ att u, d ∈ s.done
  sorted : s.l.Pairwise (fun a b => b ∉ att a)
  lmem : ∀ m, m ∈ s.l ↔ m ∈ s.done
  nodup : s.l.Nodup
  sub : ∀ m ∈ s.done, m ∈ mods

/-- how a (successful) piece of the search changes the state -/
structure Step (s s' : Dfs) : Prop where
  visited : s'.visited = s.visited
  mono : ∀ m ∈ s.done, m ∈ s'.done
  keep : ∀ m ∈ s.unmarked, m ∈ s'.unmarked ∨ m ∈ s'.done
  shrink : ∀ m ∈ s'.unmarked, m ∈ s.unmarked
  len : s'.unmarked.length ≤ s.unmarked.length

theorem Step.refl (s : Dfs) : Step s s :=
  ⟨rfl, fun _ h => h, fun _ h => Or.inl h, fun _ h => h, Nat.le_refl _⟩

theorem Step.trans {a b c : Dfs} (h1 : Step a b) (h2 : Step b c) : Step a c where
  visited := h2.visited.trans h1.visited
  mono := fun m h => h2.mono m (h1.mono m h)
  keep := fun m h => by
    rcases h1.keep m h with h | h
    · exact h2.keep m h
    · exact Or.inr (h2.mono m h)
  shrink := fun m h => h1.shrink m (h2.shrink m h)
  len := Nat.le_trans h2.len h1.len

theorem goList_spec (rec : Name → Dfs → Dfs × Bool) (V : List Name) :
    ∀ (ds : List Name),
    (∀ d ∈ ds, ∀ s, Inv att mods s → s.visited = V →
        ∃ s', rec d s = (s', true) ∧ Inv att mods s' ∧ Step s s' ∧ d ∈ s'.done ∧
          ∀ m ∈ s'.done, m ∈ s.done ∨ rank m ≤ rank d) →
    ∀ s, Inv att mods s → s.visited = V →
      ∃ s', goList rec ds s = (s', true) ∧ Inv att mods s' ∧ Step s s' ∧ (∀ d ∈ ds, d ∈ s'.done) ∧
        ∀ m ∈ s'.done, m ∈ s.done ∨ ∃ d ∈ ds, rank m ≤ rank d := by
  intro ds
  induction ds with
  | nil =>
    intro _ s hi _
    exact ⟨s, rfl, hi, Step.refl s, by simp, fun m h => Or.inl h⟩
  | cons d ds ih =>
    intro hrec s hi hv
    obtain ⟨s1, e1, i1, st1, d1, r1⟩ := hrec d (by simp) s hi hv
    obtain ⟨s2, e2, i2, st2, d2, r2⟩ :=
      ih (fun d' hd' => hrec d' (by simp [hd'])) s1 i1 (st1.visited.trans hv)
    refine ⟨s2, ?_, i2, st1.trans st2, ?_, ?_⟩
    · simp [goList, e1, e2]
    · intro x hx
      rcases List.mem_cons.mp hx with rfl | hx
      · exact st2.mono _ d1
      · exact d2 x hx
    · intro m hm
      rcases r2 m hm with h | ⟨d', hd', hr⟩
      · rcases r1 m h with h | h
        · exact Or.inl h
        · exact Or.inr ⟨d, by simp, h⟩
      · exact Or.inr ⟨d', by simp [hd'], hr⟩

theorem go_spec
    (hclosed : ∀ u ∈ mods, ∀ d ∈ att u, d ∈ mods)
    (hrank : ∀ u ∈ mods, ∀ d ∈ att u, rank d < rank u) :
    ∀ (fuel : Nat) (name : Name) (s : Dfs), rank name < fuel → name ∈ mods →
      (∀ v ∈ s.visited, rank name < rank v) → Inv att mods s →
      ∃ s', go att fuel name s = (s', true) ∧ Inv att mods s' ∧ Step s s' ∧ name ∈ s'.done ∧
        ∀ m ∈ s'.done, m ∈ s.done ∨ rank m ≤ rank name := by
  intro fuel
  induction fuel with
  | zero => intro name s h; omega
  | succ fuel ih =>
    intro name s hf hm hvis hi
    by_cases hd : name ∈ s.done
    · refine ⟨s, ?_, hi, Step.refl s, hd, fun m h => Or.inl h⟩
      simp [go, hd]
    · have hnv : name ∉ s.visited := fun h => Nat.lt_irrefl _ (hvis name h)
      have hie : Inv att mods (enter s name) := ⟨hi.closed, hi.sorted, hi.lmem, hi.nodup, hi.sub⟩
      obtain ⟨s1, e1, i1, st1, d1, r1⟩ :=
        goList_spec att mods rank (go att fuel) (name :: s.visited) (att name)
          (fun d hdm s2 hi2 hv2 =>
            ih d s2 (by have := hrank name hm d hdm; omega) (hclosed name hm d hdm)
              (by
                intro v hv
                rw [hv2] at hv
                have hlt := hrank name hm d hdm
                rcases List.mem_cons.mp hv with rfl | hv
                · exact hlt
                · exact Nat.lt_trans hlt (hvis v hv))
              hi2)
          (enter s name) hie rfl
      have hnd1 : name ∉ s1.done := by
        intro h
        rcases r1 name h with h | ⟨d, hdm, hr⟩
        · exact hd h
        · have := hrank name hm d hdm; omega
      have hnl1 : name ∉ s1.l := fun h => hnd1 ((i1.lmem name).mp h)
      refine ⟨leave s1 name, ?_, ?_, ?_, ?_, ?_⟩
      · simp [go, hd, hnv, e1]
      · refine ⟨?_, ?_, ?_, ?_, ?_⟩
        · intro u hu d hdm
          simp only [leave, List.mem_cons] at hu ⊢
          rcases hu with rfl | hu
          · exact Or.inr (d1 d hdm)
          · exact Or.inr (i1.closed u hu d hdm)
        · simp only [leave]
          rw [List.pairwise_append]
          refine ⟨i1.sorted, by simp, ?_⟩
          intro a ha b hb
          simp only [List.mem_singleton] at hb
          subst hb
          intro hmem
          exact hnd1 (i1.closed a ((i1.lmem a).mp ha) _ hmem)
        · intro m
          simp only [leave, List.mem_append, List.mem_cons, List.not_mem_nil, or_false]
          rw [i1.lmem m]
          exact Or.comm
        · simp only [leave]
          rw [List.nodup_append]
          refine ⟨i1.nodup, by simp, ?_⟩
          intro a ha b hb
          simp only [List.mem_singleton] at hb
          subst hb
          intro hab
          subst hab
          exact hnl1 ha
        · intro m hmm
          simp only [leave, List.mem_cons] at hmm
          rcases hmm with rfl | hmm
          · exact hm
          · exact i1.sub m hmm
      · refine ⟨?_, ?_, ?_, ?_, ?_⟩
        · simp only [leave]
          rw [st1.visited]
          simp [enter]
        · intro m hmm
          simp only [leave, List.mem_cons]
          exact Or.inr (st1.mono m hmm)
        · intro m hmm
          by_cases hmn : m = name
          · subst hmn
            exact Or.inr (by simp [leave])
          · have : m ∈ (enter s name).unmarked := by
              simp only [enter]
              exact (List.mem_erase_of_ne hmn).mpr hmm
            rcases st1.keep m this with h | h
            · exact Or.inl h
            · exact Or.inr (by simp [leave, h])
        · intro m hmm
          have := st1.shrink m hmm
          simp only [enter] at this
          exact List.mem_of_mem_erase this
        · have h1 := st1.len
          simp only [enter] at h1
          exact Nat.le_trans h1 (List.length_erase_le ..)
      · simp [leave]
      · intro m hmm
        simp only [leave, List.mem_cons] at hmm
        rcases hmm with rfl | hmm
        · exact Or.inr (Nat.le_refl _)
        · rcases r1 m hmm with h | ⟨d, hdm, hr⟩
          · exact Or.inl h
          · have := hrank name hm d hdm
            exact Or.inr (by omega)

theorem popAny_mem (pick : List Name → Nat) (s : List Name) (h : s ≠ []) : popAny pick s ∈ s := by
  have hl : 0 < s.length := List.length_pos_iff.mpr h
  have hi : pick s % s.length < s.length := Nat.mod_lt _ hl
  unfold popAny
  rw [List.getD_eq_getElem?_getD, List.getElem?_eq_getElem hi]
  exact List.getElem_mem hi

theorem nodup_reverse' {l : List Name} (h : l.Nodup) : l.reverse.Nodup := by
  unfold List.Nodup at *
  rw [List.pairwise_reverse]
  exact h.imp (fun hab => fun e => hab e.symm)

theorem sortLoop_spec (pick : List Name → Nat) (fuel : Nat)
    (hclosed : ∀ u ∈ mods, ∀ d ∈ att u, d ∈ mods)
    (hrank : ∀ u ∈ mods, ∀ d ∈ att u, rank d < rank u)
    (hbound : ∀ m ∈ mods, rank m < fuel) :
    ∀ (n : Nat) (s : Dfs), Inv att mods s → s.visited = [] → (∀ m ∈ s.unmarked, m ∈ mods) →
      s.unmarked.length ≤ n → (∀ m ∈ mods, m ∈ s.unmarked ∨ m ∈ s.done) →
      ∃ s', sortLoop att pick fuel n s = s'.l.reverse ∧ Inv att mods s' ∧ ∀ m ∈ mods, m ∈ s'.done := by
  intro n
  induction n with
  | zero =>
    intro s hi hv _ hlen hcov
    have hu : s.unmarked = [] := List.eq_nil_of_length_eq_zero (Nat.le_zero.mp hlen)
    refine ⟨s, by simp [sortLoop, hv, hu], hi, ?_⟩
    intro m hm
    rcases hcov m hm with h | h
    · rw [hu] at h; cases h
    · exact h
  | succ n ih =>
    intro s hi hv hsub hlen hcov
    by_cases hu : s.unmarked = []
    · refine ⟨s, by simp [sortLoop, hu], hi, ?_⟩
      intro m hm
      rcases hcov m hm with h | h
      · rw [hu] at h; cases h
      · exact h
    · have hr := popAny_mem pick s.unmarked hu
      let s0 : Dfs := { s with unmarked := s.unmarked.erase (popAny pick s.unmarked) }
      have hi0 : Inv att mods s0 := ⟨hi.closed, hi.sorted, hi.lmem, hi.nodup, hi.sub⟩
      obtain ⟨s1, e1, i1, st1, d1, _⟩ :=
        go_spec att mods rank hclosed hrank fuel (popAny pick s.unmarked) s0
          (hbound _ (hsub _ hr)) (hsub _ hr) (by intro v hv'; simp [s0, hv] at hv') hi0
      have hlen0 : s0.unmarked.length ≤ n := by
        have := List.length_erase_of_mem hr
        simp only [s0]
        omega
      obtain ⟨s2, e2, i2, c2⟩ := ih s1 i1 (st1.visited.trans hv)
        (fun m hm => hsub m (List.mem_of_mem_erase (st1.shrink m hm)))
        (Nat.le_trans st1.len hlen0)
        (by
          intro m hm
          by_cases hmr : m = popAny pick s.unmarked
          · subst hmr; exact Or.inr d1
          · rcases hcov m hm with h | h
            · exact st1.keep m ((List.mem_erase_of_ne hmr).mpr h)
            · exact Or.inr (st1.mono m h))
      refine ⟨s2, ?_, i2, c2⟩
      have hne : s.unmarked.isEmpty = false := by
        cases hs : s.unmarked with
        | nil => exact absurd hs hu
        | cons a l => rfl
      simp only [sortLoop, hne]
      simp only [s0] at e1
      simp [e1, e2]

/-- `_getSortedModules` on a graph with a topological numbering: every module exactly once, and no module is listed
before a module that is attached to it... i.e. users come first -/
theorem getSortedModules_spec (pick : List Name → Nat)
    (hclosed : ∀ u ∈ mods, ∀ d ∈ att u, d ∈ mods)
    (hrank : ∀ u ∈ mods, ∀ d ∈ att u, rank d < rank u)
    (hbound : ∀ m ∈ mods, rank m ≤ mods.length) :
    (getSortedModules mods att pick).Nodup ∧
    (∀ m, m ∈ getSortedModules mods att pick ↔ m ∈ mods) ∧
    (getSortedModules mods att pick).Pairwise (fun a b => a ∉ att b) := by
  obtain ⟨s', e, i, c⟩ := sortLoop_spec att mods rank pick (mods.length + 1) hclosed hrank
    (fun m hm => Nat.lt_succ_of_le (hbound m hm)) mods.length ⟨mods, [], [], []⟩
    ⟨by simp, by simp, by simp, by simp, by simp⟩ rfl (fun m hm => hm) (Nat.le_refl _) (fun m hm => Or.inl hm)
  unfold getSortedModules
  rw [e]
  refine ⟨nodup_reverse' i.nodup, ?_, ?_⟩
  · intro m
    rw [List.mem_reverse, i.lmem]
    exact ⟨i.sub m, c m⟩
  · rw [List.pairwise_reverse]
    exact i.sorted

end dfs

section shutdown
open Frappy.Spec.C15

theorem pairwise_of_forall {α : Type} {R : α → α → Prop} (h : ∀ a b, R a b) : ∀ l : List α, l.Pairwise R
  | [] => List.Pairwise.nil
  | a :: l => List.Pairwise.cons (fun b _ => h a b) (pairwise_of_forall h l)

theorem count_map_one (f : Name → Ev) (hf : ∀ a b, f a = f b → a = b) :
    ∀ (l : List Name), l.Nodup → ∀ m ∈ l, (l.map f).count (f m) = 1 := by
  intro l
  induction l with
  | nil => intro _ m hm; cases hm
  | cons a l ih =>
    intro hnd m hm
    have hnd' := List.nodup_cons.mp hnd
    rcases List.mem_cons.mp hm with rfl | hm
    · have : (l.map f).count (f m) = 0 := by
        rw [List.count_eq_zero]
        intro h
        obtain ⟨x, hx, hxe⟩ := List.mem_map.mp h
        have := hf _ _ hxe
        subst this
        exact hnd'.1 hx
      simp [this]
    · have hne : f a ≠ f m := by
        intro h
        have := hf _ _ h
        subst this
        exact hnd'.1 hm
      simp [ih hnd'.2 m hm, hne]

theorem count_map_zero (f : Name → Ev) (e : Ev) (h : ∀ a, f a ≠ e) (l : List Name) : (l.map f).count e = 0 := by
  rw [List.count_eq_zero]
  intro hm
  obtain ⟨x, _, hx⟩ := List.mem_map.mp hm
  exact h x hx

theorem mem_attOf {edges : List (Name × Name)} {u d : Name} : d ∈ attOf edges u ↔ (u, d) ∈ edges := by
  unfold attOf
  simp only [List.mem_map, List.mem_filter, beq_iff_eq]
  constructor
  · rintro ⟨⟨a, b⟩, ⟨hm, ha⟩, hb⟩
    simp only at ha hb
    subst ha; subst hb
    exact hm
  · intro h
    exact ⟨(u, d), ⟨h, rfl⟩, rfl⟩

/-- the shutdown phase of the model satisfies the shutdown clause of the statement, for every choice function -/
theorem shutdownLog_order (mods threads : List Name) (edges : List (Name × Name)) (pick : List Name → Nat)
    (rank : Name → Nat) (hnd : mods.Nodup)
    (hclosed : ∀ e ∈ edges, e.1 ∈ mods → e.2 ∈ mods)
    (hrank : ∀ e ∈ edges, rank e.2 < rank e.1)
    (hbound : ∀ m ∈ mods, rank m ≤ mods.length) :
    ShutdownOrder mods edges (shutdownLog mods threads edges pick) := by
  obtain ⟨snd, smem, ssort⟩ := getSortedModules_spec (attOf edges) mods rank pick
    (fun u hu d hd => hclosed (u, d) (mem_attOf.mp hd) hu)
    (fun u _ d hd => hrank (u, d) (mem_attOf.mp hd)) hbound
  unfold shutdownLog
  rw [← List.map_append]
  refine ⟨?_, ?_, ?_⟩
  · unfold NeverAfter
    rw [List.pairwise_append]
    refine ⟨?_, ?_, ?_⟩
    · rw [List.pairwise_map]
      exact pairwise_of_forall (by intro a b; simp [isShutdown]) _
    · rw [List.pairwise_map]
      exact pairwise_of_forall (by intro a b; simp [isStopPoll]) _
    · intro a ha b _
      obtain ⟨x, _, rfl⟩ := List.mem_map.mp ha
      simp [isShutdown]
  · intro m hm
    have h1 := count_map_one Ev.stopPoll (by intro a b h; cases h; rfl) mods hnd m hm
    have h2 := count_map_zero Ev.stopPoll (Ev.shutdown m) (by intro a h; cases h)
    have h3 := count_map_one Ev.shutdown (by intro a b h; cases h; rfl) _ snd m ((smem m).mpr hm)
    simp only [List.map_append, List.count_append, h1, h2, h3]
    exact ⟨fun _ => by omega, trivial⟩
  · intro e he _
    unfold NeverAfter
    rw [List.pairwise_append]
    refine ⟨?_, ?_, ?_⟩
    · rw [List.pairwise_map]
      exact pairwise_of_forall (by intro a b; simp) _
    · rw [List.pairwise_map]
      refine ssort.imp ?_
      intro a b hab h
      simp only [beq_iff_eq, Ev.shutdown.injEq] at h
      obtain ⟨rfl, rfl⟩ := h
      exact hab (mem_attOf.mpr he)
    · intro a ha b _
      obtain ⟨x, _, rfl⟩ := List.mem_map.mp ha
      simp

end shutdown

section waiting
open Frappy.Spec.C15

/-- statements none of which lets an exception out: all of them run -/
theorem blocks_all_ok : ∀ (l : List Block), (∀ b ∈ l, b.2 = none) → blocks l = (l.flatMap (·.1), none) := by
  intro l
  induction l with
  | nil => intro _; rfl
  | cons b rest ih =>
    intro h
    obtain ⟨evs, exc⟩ := b
    have hb : exc = none := h (evs, exc) (by simp)
    subst hb
    have := ih (fun b hb => h b (List.mem_cons_of_mem _ hb))
    simp [blocks, this]

/-- `writes` (the keys of `writeDict`) is computed from the parameters: renaming the object changes nothing -/
@[simp] theorem writes_setName (c : ModCfg) (n : Name) : ({ c with name := n } : ModCfg).writes = c.writes := rfl

@[simp] theorem objOf_writes (st : St) (m : Name) : (objOf st m).writes = (cfgOf st m).writes := rfl

@[simp] theorem writeDict_setName (c : ModCfg) (n : Name) : writeDict ({ c with name := n } : ModCfg) = writeDict c := rfl

/-- the loop body of `writeInitParams` attempts the write and lets nothing out, whatever `write_<p>` raises -/
theorem writeOne_eq (c : ModCfg) (p : String) : writeOne c p = ([Ev.write c.name p], none) := by
  unfold writeOne
  split
  · rfl
  · split <;> rfl

theorem writeInitParams_eq (c : ModCfg) : writeInitParams c = (c.writes.map (Ev.write c.name), none) := by
  unfold writeInitParams
  rw [blocks_all_ok]
  · simp only [List.flatMap_map, writeOne_eq]
    induction c.writes with
    | nil => rfl
    | cons p ps ih =>
      have ih' := (Prod.mk.injEq _ _ _ _ ▸ ih).1
      simp [List.flatMap_cons, ih']
  · intro b hb
    obtain ⟨p, _, rfl⟩ := List.mem_map.mp hb
    rw [writeOne_eq]

/-- the events a poll thread logs before and during its first polls -/
def isProl : Ev → Bool
  | .write _ _ => true
  | .firstpoll _ => true
  | .rounddone _ => true
  | .initread _ => true
  | .comfail _ => true
  | _ => false

theorem writeInitParams_pro (c : ModCfg) : ∀ e ∈ (writeInitParams c).1, isProl e = true := by
  intro e he
  rw [writeInitParams_eq] at he
  obtain ⟨p, _, rfl⟩ := List.mem_map.mp he
  rfl

theorem initialReadsOne_pro (c : ModCfg) : ∀ e ∈ (initialReadsOne c).1, isProl e = true := by
  intro e he
  unfold initialReadsOne at he
  split at he
  · simp only [List.mem_singleton] at he; subst he; rfl
  · split at he
    · simp only [List.mem_cons, List.not_mem_nil, or_false] at he
      rcases he with rfl | rfl <;> rfl
    · simp only [List.mem_singleton] at he; subst he; rfl

theorem firstPollOne_pro (c : ModCfg) (b : Bool) : ∀ e ∈ (firstPollOne c b).1, isProl e = true := by
  intro e he
  unfold firstPollOne at he
  split at he
  · simp only [List.mem_singleton] at he; subst he; rfl
  · split at he
    · simp only [List.mem_cons, List.not_mem_nil, or_false] at he
      rcases he with rfl | rfl <;> rfl
    · simp only [List.mem_singleton] at he; subst he; rfl

theorem initLoop_pro (st : St) : ∀ (ms : List Name), ∀ e ∈ (initLoop st ms).evs, isProl e = true := by
  intro ms
  induction ms with
  | nil => intro e he; simp [initLoop] at he
  | cons m ms ih =>
    intro e he
    unfold initLoop at he
    cases hr : initialReadsOne (objOf st m) with
    | mk evs exc =>
      have hp := initialReadsOne_pro (objOf st m)
      rw [hr] at hp
      simp only [hr] at he
      cases exc with
      | some x =>
        simp only [List.mem_append] at he
        rcases he with he | he
        · exact writeInitParams_pro _ e he
        · exact hp e he
      | none =>
        simp only [List.mem_append] at he
        rcases he with (he | he) | he
        · exact writeInitParams_pro _ e he
        · exact hp e he
        · exact ih e he

theorem pollLoop_pro (st : St) : ∀ (ms : List Name), ∀ e ∈ (pollLoop st ms).evs, isProl e = true := by
  intro ms
  induction ms with
  | nil => intro e he; simp [pollLoop] at he
  | cons m ms ih =>
    intro e he
    unfold pollLoop at he
    cases hr : firstPollOne (objOf st m) true with
    | mk evs exc =>
      have hp := firstPollOne_pro (objOf st m) true
      rw [hr] at hp
      simp only [hr] at he
      cases exc with
      | some x => exact hp e he
      | none =>
        simp only [List.mem_append] at he
        rcases he with he | he
        · exact hp e he
        · exact ih e he

theorem latePolls_pro (st : St) (ms : List Name) : ∀ e ∈ latePolls st ms, isProl e = true := by
  intro e he
  obtain ⟨m, _, hm⟩ := List.mem_flatMap.mp he
  exact firstPollOne_pro _ _ e hm

theorem lateWrites_pro (st : St) (ms : List Name) : ∀ e ∈ lateWrites st ms, isProl e = true := by
  intro e he
  obtain ⟨m, _, hm⟩ := List.mem_flatMap.mp he
  exact writeInitParams_pro _ e hm

/-- events of the write / initial-read loop of the start-up sequence -/
def isInitLoopEv : Ev → Bool
  | .write _ _ => true
  | .initread _ => true
  | .comfail _ => true
  | _ => false

/-- events of the first polls -/
def isPollLoopEv : Ev → Bool
  | .firstpoll _ => true
  | .comfail _ => true
  | _ => false

theorem writeInitParams_il (c : ModCfg) : ∀ e ∈ (writeInitParams c).1, isInitLoopEv e = true := by
  intro e he
  rw [writeInitParams_eq] at he
  obtain ⟨p, _, rfl⟩ := List.mem_map.mp he
  rfl

theorem initialReadsOne_il (c : ModCfg) : ∀ e ∈ (initialReadsOne c).1, isInitLoopEv e = true := by
  intro e he
  unfold initialReadsOne at he
  split at he
  · simp only [List.mem_singleton] at he; subst he; rfl
  · split at he
    · simp only [List.mem_cons, List.not_mem_nil, or_false] at he
      rcases he with rfl | rfl <;> rfl
    · simp only [List.mem_singleton] at he; subst he; rfl

theorem initLoop_il (st : St) : ∀ (ms : List Name), ∀ e ∈ (initLoop st ms).evs, isInitLoopEv e = true := by
  intro ms
  induction ms with
  | nil => intro e he; simp [initLoop] at he
  | cons m ms ih =>
    intro e he
    unfold initLoop at he
    cases hr : initialReadsOne (objOf st m) with
    | mk evs exc =>
      have hp := initialReadsOne_il (objOf st m)
      rw [hr] at hp
      simp only [hr] at he
      cases exc with
      | some x =>
        simp only [List.mem_append] at he
        rcases he with he | he
        · exact writeInitParams_il _ e he
        · exact hp e he
      | none =>
        simp only [List.mem_append] at he
        rcases he with (he | he) | he
        · exact writeInitParams_il _ e he
        · exact hp e he
        · exact ih e he

theorem lateWrites_il (st : St) (ms : List Name) : ∀ e ∈ lateWrites st ms, isInitLoopEv e = true := by
  intro e he
  obtain ⟨m, _, hm⟩ := List.mem_flatMap.mp he
  exact writeInitParams_il _ e hm

theorem firstPollOne_pl (c : ModCfg) (b : Bool) : ∀ e ∈ (firstPollOne c b).1, isPollLoopEv e = true := by
  intro e he
  unfold firstPollOne at he
  split at he
  · simp only [List.mem_singleton] at he; subst he; rfl
  · split at he
    · simp only [List.mem_cons, List.not_mem_nil, or_false] at he
      rcases he with rfl | rfl <;> rfl
    · simp only [List.mem_singleton] at he; subst he; rfl

theorem pollLoop_pl (st : St) : ∀ (ms : List Name), ∀ e ∈ (pollLoop st ms).evs, isPollLoopEv e = true := by
  intro ms
  induction ms with
  | nil => intro e he; simp [pollLoop] at he
  | cons m ms ih =>
    intro e he
    unfold pollLoop at he
    cases hr : firstPollOne (objOf st m) true with
    | mk evs exc =>
      have hp := firstPollOne_pl (objOf st m) true
      rw [hr] at hp
      simp only [hr] at he
      cases exc with
      | some x => exact hp e he
      | none =>
        simp only [List.mem_append] at he
        rcases he with he | he
        · exact hp e he
        · exact ih e he

theorem latePolls_pl (st : St) (ms : List Name) : ∀ e ∈ latePolls st ms, isPollLoopEv e = true := by
  intro e he
  obtain ⟨m, _, hm⟩ := List.mem_flatMap.mp he
  exact firstPollOne_pl _ _ e hm

/-- no communication failure among the faults of `initialReads` -/
def readsQuiet (c : ModCfg) : Prop := c.readsFail.all (fun cls => !isComm cls) = true

instance (c : ModCfg) : Decidable (readsQuiet c) := by unfold readsQuiet; infer_instance

/-- no communication failure among the faults of the first poll -/
def pollQuiet (c : ModCfg) : Prop := c.pollFail.all (fun cls => !isComm cls) = true

instance (c : ModCfg) : Decidable (pollQuiet c) := by unfold pollQuiet; infer_instance

theorem initialReadsOne_ok (c : ModCfg) (h : readsQuiet c) : initialReadsOne c = ([Ev.initread c.name], none) := by
  unfold initialReadsOne
  unfold readsQuiet at h
  split
  · rfl
  · rename_i cls hc
    rw [hc] at h
    simp only [Option.all_some, Bool.not_eq_true'] at h
    simp [h]

theorem firstPollOne_ok (c : ModCfg) (b : Bool) (h : pollQuiet c) : firstPollOne c b = ([Ev.firstpoll c.name], none) := by
  unfold firstPollOne
  unfold pollQuiet at h
  split
  · rfl
  · rename_i cls hc
    rw [hc] at h
    simp only [Option.all_some, Bool.not_eq_true'] at h
    simp [h]

theorem initLoop_ok (st : St) : ∀ (ms : List Name), (∀ m ∈ ms, readsQuiet (objOf st m)) →
    initLoop st ms = ⟨ms.flatMap (fun m => (cfgOf st m).writes.map (Ev.write m) ++ [Ev.initread m]), none⟩ := by
  intro ms
  induction ms with
  | nil => intro _; rfl
  | cons m ms ih =>
    intro h
    have h1 := initialReadsOne_ok (objOf st m) (h m (by simp))
    have h2 := ih (fun x hx => h x (List.mem_cons_of_mem _ hx))
    unfold initLoop
    simp only [h1, h2, writeInitParams_eq, List.flatMap_cons]
    simp [objOf]

theorem pollLoop_ok (st : St) : ∀ (ms : List Name), (∀ m ∈ ms, pollQuiet (objOf st m)) →
    pollLoop st ms = ⟨ms.map Ev.firstpoll, none⟩ := by
  intro ms
  induction ms with
  | nil => intro _; rfl
  | cons m ms ih =>
    intro h
    have h1 := firstPollOne_ok (objOf st m) true (h m (by simp))
    have h2 := ih (fun x hx => h x (List.mem_cons_of_mem _ hx))
    unfold pollLoop
    simp only [h1, h2]
    simp [objOf]

theorem prologue_pro (st : St) (t : Name) : ∀ e ∈ prologue st t, isProl e = true := by
  intro e he
  unfold prologue at he
  simp only at he
  split at he
  · simp only [List.mem_append, List.mem_singleton] at he
    rcases he with ((he | rfl) | he) | he
    · exact initLoop_pro st _ e he
    · rfl
    · exact lateWrites_pro st _ e he
    · exact latePolls_pro st _ e he
  · split at he
    · simp only [List.mem_append, List.mem_singleton] at he
      rcases he with ((he | he) | rfl) | he
      · exact initLoop_pro st _ e he
      · exact pollLoop_pro st _ e he
      · rfl
      · exact latePolls_pro st _ e he
    · simp only [List.mem_append, List.mem_singleton] at he
      rcases he with (he | he) | rfl
      · exact initLoop_pro st _ e he
      · exact pollLoop_pro st _ e he
      · rfl

/-- every started poll thread is still pending or has reported its first round; prologues contain no `thread` event -/
structure WInv (w : Wait) : Prop where
  pend : ∀ t, Ev.thread t ∈ w.log → t ∈ w.pending ∨ Ev.rounddone t ∈ w.log
  nothr : ∀ p ∈ w.todo, ∀ e ∈ p.2, isThread e = none

theorem popThread_spec (t : Name) : ∀ (todo : List (Name × List Ev)),
    (∀ e, (popThread t todo).1 = some e → ∃ p ∈ todo, e ∈ p.2) ∧
    (∀ p' ∈ (popThread t todo).2, ∀ e' ∈ p'.2, ∃ p ∈ todo, e' ∈ p.2) := by
  intro todo
  induction todo with
  | nil => simp [popThread]
  | cons hd rest ih =>
    obtain ⟨n, evs⟩ := hd
    by_cases hn : (n == t) = true
    · cases evs with
      | nil =>
        simp only [popThread, hn, if_true]
        constructor
        · intro e h
          simp at h
        · intro p' hp' e' he'
          exact ⟨p', hp', he'⟩
      | cons e evs' =>
        simp only [popThread, hn, if_true]
        refine ⟨?_, ?_⟩
        · intro e0 h
          cases h
          exact ⟨(n, e :: evs'), by simp, by simp⟩
        · intro p' hp' e' he'
          rcases List.mem_cons.mp hp' with rfl | hp'
          · exact ⟨(n, e :: evs'), by simp, by simp at he'; simp [he']⟩
          · exact ⟨p', by simp [hp'], he'⟩
    · have hn' : (n == t) = false := by simpa using hn
      simp only [popThread, hn']
      refine ⟨?_, ?_⟩
      · intro e h
        obtain ⟨p, hp, he⟩ := ih.1 e h
        exact ⟨p, by simp [hp], he⟩
      · intro p' hp' e' he'
        rcases List.mem_cons.mp hp' with rfl | hp'
        · exact ⟨(n, evs), by simp, he'⟩
        · obtain ⟨p, hp, he⟩ := ih.2 p' hp' e' he'
          exact ⟨p, by simp [hp], he⟩

theorem winv_step (w : Wait) (a : Act) (h : WInv w) : WInv (actStep w a) := by
  cases a with
  | main =>
    simp only [actStep, mainStep]
    cases hm : w.mainTodo with
    | nil => exact h
    | cons e rest =>
      refine ⟨?_, h.nothr⟩
      intro t ht
      simp only [List.mem_append, List.mem_singleton] at ht ⊢
      rcases ht with ht | ht
      · rcases h.pend t ht with hp | hp
        · left
          cases e <;> simp [hp]
        · exact Or.inr (Or.inl hp)
      · subst ht
        left; simp
  | step t =>
    simp only [actStep, threadStep]
    split
    · have hps := popThread_spec t w.todo
      cases hp : popThread t w.todo with
      | mk oe todo' =>
        rw [hp] at hps
        cases oe with
        | none => exact h
        | some e =>
          obtain ⟨p, hpm, hem⟩ := hps.1 e rfl
          have hnt : isThread e = none := h.nothr p hpm e hem
          refine ⟨?_, ?_⟩
          · intro t' ht'
            simp only [List.mem_append, List.mem_singleton] at ht' ⊢
            rcases ht' with ht' | ht'
            · rcases h.pend t' ht' with hp' | hp'
              · by_cases he : (e == Ev.rounddone t) = true
                · simp only [he, if_true]
                  by_cases htt : t' = t
                  · subst htt
                    right; right
                    exact (beq_iff_eq.mp he).symm
                  · left
                    exact (List.mem_erase_of_ne htt).mpr hp'
                · have he' : (e == Ev.rounddone t) = false := by simpa using he
                  simp only [he']
                  exact Or.inl hp'
              · exact Or.inr (Or.inl hp')
            · subst ht'
              simp [isThread] at hnt
          · intro p' hp' e' he'
            obtain ⟨p0, hp0, he0⟩ := hps.2 p' hp' e' he'
            exact h.nothr p0 hp0 e' he0
    · exact h
  | expire =>
    simp only [actStep]
    split
    · exact h
    · refine ⟨?_, h.nothr⟩
      intro t ht
      simp only [List.mem_append, List.mem_singleton] at ht ⊢
      rcases ht with ht | ht
      · rcases h.pend t ht with hp | hp
        · exact Or.inl hp
        · exact Or.inr (Or.inl hp)
      · cases ht
  | wake =>
    simp only [actStep, wakeStep]
    split
    · exact h
    · split
      · refine ⟨?_, h.nothr⟩
        intro t ht
        simp only [List.mem_append, List.mem_singleton] at ht ⊢
        rcases ht with ht | ht
        · rcases h.pend t ht with hp | hp
          · exact Or.inl hp
          · exact Or.inr (Or.inl hp)
        · cases ht
      · split
        · refine ⟨?_, h.nothr⟩
          intro t ht
          simp only [List.mem_append, List.mem_singleton, List.mem_map] at ht ⊢
          rcases ht with (ht | ⟨x, _, hx⟩) | ht
          · rcases h.pend t ht with hp | hp
            · exact Or.inl hp
            · exact Or.inr (Or.inl (Or.inl hp))
          · cases hx
          · cases ht
        · exact h

theorem winv_run (sched : List Act) : ∀ (w : Wait), WInv w → WInv (waitRun w sched) := by
  induction sched with
  | nil => intro w h; exact h
  | cons a rest ih =>
    intro w h
    exact ih _ (winv_step w a h)

theorem winv_init (st : St) : WInv (waitInit st) := by
  refine ⟨by intro t ht; simp [waitInit] at ht, ?_⟩
  intro p hp e he
  simp only [waitInit, List.mem_map] at hp
  obtain ⟨t, _, rfl⟩ := hp
  have hp := prologue_pro st t e he
  cases e <;> simp [isProl] at hp <;> rfl

end waiting

section kahn
open Frappy.Spec.C15

/-- the round in which Kahn's stripping removes `u` -/
def rankOf (edges : List (Name × Name)) : Nat → List Name → Name → Nat
  | 0, _, _ => 0
  | n + 1, rest, u =>
    if rest.contains u then
      1 + rankOf edges n (rest.filter (fun v => edges.any (fun e => e.1 == v && rest.contains e.2))) u
    else 0

theorem rankOf_le (edges : List (Name × Name)) : ∀ (n : Nat) (rest : List Name) (u : Name), rankOf edges n rest u ≤ n := by
  intro n
  induction n with
  | zero => intro rest u; simp [rankOf]
  | succ n ih =>
    intro rest u
    simp only [rankOf]
    split
    · have := ih (rest.filter (fun v => edges.any (fun e => e.1 == v && rest.contains e.2))) u
      omega
    · omega

theorem strip_sound (edges : List (Name × Name)) : ∀ (n : Nat) (rest : List Name), strip edges n rest = [] →
    ∀ e ∈ edges, e.1 ∈ rest → e.2 ∈ rest → rankOf edges n rest e.2 < rankOf edges n rest e.1 := by
  intro n
  induction n with
  | zero =>
    intro rest h e _ h1 _
    simp only [strip] at h
    rw [h] at h1; cases h1
  | succ n ih =>
    intro rest h e he h1 h2
    simp only [strip] at h
    have hu : e.1 ∈ rest.filter (fun v => edges.any (fun e' => e'.1 == v && rest.contains e'.2)) := by
      rw [List.mem_filter]
      refine ⟨h1, ?_⟩
      rw [List.any_eq_true]
      exact ⟨e, he, by simp [h2]⟩
    have c1 : rest.contains e.1 = true := by simpa using h1
    have c2 : rest.contains e.2 = true := by simpa using h2
    simp only [rankOf, c1, c2, if_true]
    by_cases hd : e.2 ∈ rest.filter (fun v => edges.any (fun e' => e'.1 == v && rest.contains e'.2))
    · have := ih _ h e he hu hd
      omega
    · cases n with
      | zero =>
        simp only [strip] at h
        rw [h] at hu; cases hu
      | succ n =>
        have cd : (rest.filter (fun v => edges.any (fun e' => e'.1 == v && rest.contains e'.2))).contains e.2 = false := by
          simpa using hd
        have cu : (rest.filter (fun v => edges.any (fun e' => e'.1 == v && rest.contains e'.2))).contains e.1 = true := by
          simpa using hu
        simp only [rankOf, cd, cu, if_true]
        simp
        omega

/-- the monitor's acyclicity test is sound: when the stripping empties the node list, the stripping rounds are a
topological numbering (bounded by the number of nodes) of the edges inside the node list -/
theorem acyclicB_sound (nodes : List Name) (edges : List (Name × Name)) (h : acyclicB nodes edges = true) :
    ∃ rank : Name → Nat, (∀ e ∈ edges, e.1 ∈ nodes → e.2 ∈ nodes → rank e.2 < rank e.1) ∧
      ∀ m, rank m ≤ nodes.length := by
  refine ⟨rankOf edges nodes.length nodes, ?_, fun m => rankOf_le edges _ _ m⟩
  have h0 : strip edges nodes.length nodes = [] := by
    simpa [acyclicB, List.isEmpty_iff] using h
  exact strip_sound edges nodes.length nodes h0

theorem exists_min_rank (rank : Name → Nat) : ∀ (l : List Name), l ≠ [] → ∃ m ∈ l, ∀ x ∈ l, rank m ≤ rank x := by
  intro l
  induction l with
  | nil => intro h; exact absurd rfl h
  | cons a l ih =>
    intro _
    by_cases hl : l = []
    · subst hl
      exact ⟨a, by simp, by intro x hx; simp at hx; subst hx; exact Nat.le_refl _⟩
    · obtain ⟨m, hm, hmin⟩ := ih hl
      by_cases hc : rank a ≤ rank m
      · refine ⟨a, by simp, ?_⟩
        intro x hx
        rcases List.mem_cons.mp hx with rfl | hx
        · exact Nat.le_refl _
        · exact Nat.le_trans hc (hmin x hx)
      · refine ⟨m, by simp [hm], ?_⟩
        intro x hx
        rcases List.mem_cons.mp hx with rfl | hx
        · omega
        · exact hmin x hx

theorem strip_nil (edges : List (Name × Name)) : ∀ n, strip edges n [] = [] := by
  intro n
  induction n with
  | zero => rfl
  | succ n ih => simpa [strip] using ih

theorem strip_complete (nodes : List Name) (edges : List (Name × Name)) (rank : Name → Nat)
    (hr : ∀ e ∈ edges, e.1 ∈ nodes → e.2 ∈ nodes → rank e.2 < rank e.1) :
    ∀ (n : Nat) (rest : List Name), (∀ x ∈ rest, x ∈ nodes) → rest.length ≤ n → strip edges n rest = [] := by
  intro n
  induction n with
  | zero =>
    intro rest _ hl
    simp only [strip]
    exact List.eq_nil_of_length_eq_zero (Nat.le_zero.mp hl)
  | succ n ih =>
    intro rest hsub hl
    simp only [strip]
    by_cases hne : rest = []
    · subst hne
      simpa using strip_nil edges n
    · obtain ⟨m, hm, hmin⟩ := exists_min_rank rank rest hne
      apply ih
      · intro x hx
        exact hsub x (List.mem_filter.mp hx).1
      · have hlt : (rest.filter (fun v => edges.any (fun e => e.1 == v && rest.contains e.2))).length < rest.length := by
          rw [List.length_filter_lt_length_iff_exists]
          refine ⟨m, hm, ?_⟩
          intro hany
          rw [List.any_eq_true] at hany
          obtain ⟨e, he, hcond⟩ := hany
          simp only [Bool.and_eq_true, beq_iff_eq, List.contains_eq_mem, decide_eq_true_eq] at hcond
          obtain ⟨h1, h2⟩ := hcond
          have := hr e he (by rw [h1]; exact hsub m hm) (hsub _ h2)
          have := hmin _ h2
          rw [h1] at *
          omega
        omega

/-- ... and complete: a graph with a topological numbering is stripped to nothing -/
theorem acyclicB_complete (nodes : List Name) (edges : List (Name × Name))
    (h : ∃ rank : Name → Nat, ∀ e ∈ edges, e.1 ∈ nodes → e.2 ∈ nodes → rank e.2 < rank e.1) :
    acyclicB nodes edges = true := by
  obtain ⟨rank, hr⟩ := h
  have := strip_complete nodes edges rank hr nodes.length nodes (fun _ hx => hx) (Nat.le_refl _)
  simp [acyclicB, this]

end kahn

end Frappy.Proofs.Lifecycle
