import FrappyModel.Datatypes.Import
import FrappyModel.Spec.C01
/-
Helper lemmas for C01: the float carrier, the leaf datatypes.
-/
set_option linter.unusedSectionVars false
set_option linter.unusedVariables false
namespace Frappy.Lemmas.C01
open FloatOps DType Frappy.Datatypes Frappy.Spec.C01
open PVal (toFloat? seqItems? prevItems prevFields dictGet dictSet isNone given notOffered)

variable {F : Type} [FloatOps F] [LawfulFloatOps F]

/-! ### carrier -/

theorem same_refl (x : F) : same x x = true := (LawfulFloatOps.same_iff x x).2 rfl

theorem same_imp_eq {x y : F} (h : same x y = true) : x = y := (LawfulFloatOps.same_iff x y).1 h

theorem notNaN_of_finite {x : F} (h : isFinite x = true) : isNaN x = false := by
  unfold isFinite at h
  cases hx : isNaN x <;> simp_all

theorem le_of_not_le {x y : F} (hx : isNaN x = false) (hy : isNaN y = false) (h : le x y = false) :
    le y x = true := by
  rcases LawfulFloatOps.le_total x y hx hy with h' | h'
  · rw [h] at h'; cases h'
  · exact h'

theorem median3_mem (a b c : F) : median3 a b c = a ∨ median3 a b c = b ∨ median3 a b c = c := by
  unfold median3
  split <;> split <;> (try split) <;> simp

/-- the median of three lies between the outer two when these are ordered -/
theorem median3_between {a b c : F} (ha : isNaN a = false) (hb : isNaN b = false) (hc : isNaN c = false)
    (hac : le a c = true) : le a (median3 a b c) = true ∧ le (median3 a b c) c = true := by
  have raa := LawfulFloatOps.le_refl a ha
  have rcc := LawfulFloatOps.le_refl c hc
  unfold median3
  by_cases hab : le a b = true
  · by_cases hbc : le b c = true
    · simp [hab, hbc]
    · simp [hab, hbc, hac, rcc]
  · by_cases hbc : le b c = true
    · simp [hab, hac, raa]
    · simp [hab, hac, raa]

theorem median3_notNaN {a b c : F} (ha : isNaN a = false) (hb : isNaN b = false) (hc : isNaN c = false) :
    isNaN (median3 a b c) = false := by
  rcases median3_mem a b c with h | h | h <;> rw [h] <;> assumption

/-- inside the interval the median is the middle argument itself -/
theorem median3_inside {a b c : F} (hab : le a b = true) (hbc : le b c = true) : median3 a b c = b := by
  unfold median3; simp [hab, hbc]

/-! ### double -/

theorem doubleCall_notNaN {v : PVal F} {x : F} (h : doubleCall v = .ok x) : isNaN x = false := by
  unfold doubleCall at h
  split at h
  · cases h
  · split at h
    · cases h
    · rename_i x0 _ hn
      injection h with h
      rw [← h]
      exact median3_notNaN LawfulFloatOps.neg_maxFinite_notNaN (by simpa using hn) LawfulFloatOps.maxFinite_notNaN

theorem doubleValidate_sound {min max ar rr : F} {v : PVal F} {r : F}
    (hwf : (DType.double min max ar rr).WF) (h : doubleValidate min max ar rr v = .ok r) :
    InSet (.double min max ar rr) (.float r) := by
  simp only [DType.WF] at hwf
  obtain ⟨hmin, hmax, hle, _⟩ := hwf
  unfold doubleValidate at h
  split at h
  · cases h
  · rename_i x hx
    simp only at h
    split at h
    · injection h with h
      have hxn := doubleCall_notNaN hx
      have hb := median3_between (notNaN_of_finite hmin) hxn (notNaN_of_finite hmax) hle
      simp only [InSet, InSetG]
      rw [← h]
      exact ⟨median3_notNaN (notNaN_of_finite hmin) hxn (notNaN_of_finite hmax), hb.1, hb.2⟩
    · cases h

/-! ### int -/

theorem intValidate_sound {min max : Int} {v : PVal F} {i : Int} (h : intValidate (F := F) min max v = .ok i) :
    InSet (F := F) (.int min max) (.int i) := by
  unfold intValidate at h
  split at h
  · cases h
  · split at h
    · injection h with h
      rename_i hc
      simp only [InSet, InSetG]
      rw [← h]; exact hc
    · cases h

/-! ### scaled -/

/-- what a successful `scaledCall` computed -/
theorem scaledCall_ok {scale : F} {v : PVal F} {r : F} (h : scaledCall scale v = .ok r) :
    ∃ x k y, toFloat? v = some x ∧ gridIndex scale x = some k ∧ ofInt k = some y ∧ r = mul y scale ∧
      isFinite r = true := by
  unfold scaledCall at h
  split at h
  · cases h
  · rename_i x hx
    split at h
    · cases h
    · rename_i k hk
      split at h
      · cases h
      · rename_i y hy
        split at h
        · rename_i hf
          injection h with h
          exact ⟨x, k, y, hx, hk, hy, h.symm, h ▸ hf⟩
        · cases h

theorem scaledCall_ofGrid {scale : F} {v : PVal F} {r : F} (h : scaledCall scale v = .ok r) :
    ∃ k, ofGrid scale k = some r := by
  obtain ⟨x, k, y, _, _, hy, hr, _⟩ := scaledCall_ok h
  exact ⟨k, by unfold ofGrid; rw [hy, hr]⟩

/-- the grid value of a (canonical) limit is what the specification calls `snap` -/
theorem scaledCall_limit {scale lim lo : F} (hc : addZero lim = lim) (h : scaledCall scale (.float lim) = .ok lo) :
    snap scale lim = some lo ∧ ∃ k y, gridIndex scale lim = some k ∧ ofInt k = some y ∧ lo = mul y scale := by
  obtain ⟨x, k, y, hx, hk, hy, hr, _⟩ := scaledCall_ok h
  simp only [toFloat?, hc] at hx
  injection hx with hx
  subst hx
  refine ⟨?_, k, y, hk, hy, hr⟩
  unfold snap ofGrid
  rw [hk]; simp only; rw [hy, hr]

theorem positive_iff {s : F} (h : DType.positive s = true) : ∃ z : F, ofInt 0 = some z ∧ lt z s = true := by
  unfold DType.positive at h
  split at h
  · rename_i z hz; exact ⟨z, hz, h⟩
  · cases h

/-- the grid values of ordered limits are ordered -/
theorem snap_mono {scale a b lo hi : F} (hs : isFinite scale = true) (hp : DType.positive scale = true)
    (hab : le a b = true)
    (ha : ∃ k y, gridIndex scale a = some k ∧ ofInt k = some y ∧ lo = mul y scale)
    (hb : ∃ k y, gridIndex scale b = some k ∧ ofInt k = some y ∧ hi = mul y scale) :
    le lo hi = true := by
  obtain ⟨ka, ya, hka, hya, hlo⟩ := ha
  obtain ⟨kb, yb, hkb, hyb, hhi⟩ := hb
  have hpos := positive_iff hp
  unfold gridIndex at hka hkb
  have hd := LawfulFloatOps.div_mono a b scale hab hs hpos
  have hk := LawfulFloatOps.round_mono _ _ ka kb hd hka hkb
  have hy := LawfulFloatOps.ofInt_mono ka kb ya yb hk hya hyb
  rw [hlo, hhi]
  exact LawfulFloatOps.mul_mono ya yb scale hy hs hpos

theorem isSome_self (x : F) : IsSome (some x) x := by
  unfold IsSome; exact same_refl x

/-- what a successful `scaledValidate` did -/
theorem scaledValidate_ok {scale min max : F} {v : PVal F} {r : F} (h : scaledValidate scale min max v = .ok r) :
    ∃ result lo hi x, scaledCall scale v = .ok result ∧ scaledCall scale (.float min) = .ok lo ∧
      scaledCall scale (.float max) = .ok hi ∧ toFloat? v = some x ∧
      ((le lo result = true ∧ le result hi = true ∧ r = result) ∨
       ((le lo result && le result hi) = false ∧ lt (sub lo scale) x = true ∧ lt x (add hi scale) = true ∧
          r = median3 lo result hi)) := by
  unfold scaledValidate at h
  cases hres : scaledCall scale v with
  | error e => rw [hres] at h; cases h
  | ok result =>
    rw [hres] at h
    simp only at h
    obtain ⟨x, _, _, hx, _⟩ := scaledCall_ok hres
    cases hlo : scaledCall scale (PVal.float min) with
    | error e => rw [hlo] at h; cases h
    | ok lo =>
      cases hhi : scaledCall scale (PVal.float max) with
      | error e => rw [hlo, hhi] at h; cases h
      | ok hi =>
        rw [hlo, hhi] at h
        simp only at h
        refine ⟨result, lo, hi, x, rfl, rfl, rfl, hx, ?_⟩
        split at h
        · rename_i hc
          simp only [Bool.and_eq_true] at hc
          injection h with h
          exact Or.inl ⟨hc.1, hc.2, h.symm⟩
        · rename_i hc
          rw [hx] at h
          simp only at h
          split at h
          · rename_i hg
            simp only [Bool.and_eq_true] at hg
            injection h with h
            exact Or.inr ⟨by simpa using hc, hg.1, hg.2, h.symm⟩
          · cases h

theorem scaledValidate_sound {scale min max ar rr : F} {v : PVal F} {r : F}
    (hwf : (DType.scaled scale min max ar rr).WF) (h : scaledValidate scale min max v = .ok r) :
    InSet (.scaled scale min max ar rr) (.float r) := by
  simp only [DType.WF] at hwf
  obtain ⟨hs, hp, _, _, hle, hcmin, hcmax, _⟩ := hwf
  obtain ⟨result, lo, hi, x, hres, hlo, hhi, hx, hcase⟩ := scaledValidate_ok h
  obtain ⟨slo, dlo⟩ := scaledCall_limit hcmin hlo
  obtain ⟨shi, dhi⟩ := scaledCall_limit hcmax hhi
  have hlohi := snap_mono hs hp hle dlo dhi
  obtain ⟨_, _, _, _, _, _, _, flo⟩ := scaledCall_ok hlo
  obtain ⟨_, _, _, _, _, _, _, fhi⟩ := scaledCall_ok hhi
  obtain ⟨_, _, _, _, _, _, _, fres⟩ := scaledCall_ok hres
  simp only [InSet, InSetG]
  rcases hcase with ⟨h1, h2, hr⟩ | ⟨_, _, _, hr⟩
  · rw [hr]
    refine ⟨?_, ?_⟩
    · obtain ⟨k, hk⟩ := scaledCall_ofGrid hres; exact ⟨k, hk ▸ isSome_self result⟩
    · unfold BetweenSnapped; rw [slo, shi]; exact ⟨h1, h2⟩
  · have hb := median3_between (notNaN_of_finite flo) (notNaN_of_finite fres) (notNaN_of_finite fhi) hlohi
    rw [hr]
    refine ⟨?_, ?_⟩
    · unfold OnGrid
      rcases median3_mem lo result hi with e | e | e <;> rw [e]
      · obtain ⟨k, hk⟩ := scaledCall_ofGrid hlo; exact ⟨k, hk ▸ isSome_self lo⟩
      · obtain ⟨k, hk⟩ := scaledCall_ofGrid hres; exact ⟨k, hk ▸ isSome_self result⟩
      · obtain ⟨k, hk⟩ := scaledCall_ofGrid hhi; exact ⟨k, hk ▸ isSome_self hi⟩
    · unfold BetweenSnapped
      rw [slo, shi]
      exact hb

/-! ### bool, enum, string, blob -/

theorem enumByValue_mem {ms : List (String × Int)} {i : Int} {n : String} {k : Int}
    (h : enumByValue ms i = some (n, k)) : (n, k) ∈ ms ∧ k = i := by
  unfold enumByValue at h
  refine ⟨List.mem_of_find?_eq_some h, ?_⟩
  have := List.find?_some h
  simpa using this

theorem enumByName_mem {ms : List (String × Int)} {s : String} {n : String} {k : Int}
    (h : enumByName ms s = some (n, k)) : (n, k) ∈ ms ∧ n = s := by
  unfold enumByName at h
  refine ⟨List.mem_of_find?_eq_some h, ?_⟩
  have := List.find?_some h
  simpa using this

/-- what a successful `enumCall` did: found a member by name or by (integer) value -/
theorem enumCall_ok {ms : List (String × Int)} {v r : PVal F} (h : enumCall ms v = .ok r) :
    ∃ n k, r = .enum n k ∧ (n, k) ∈ ms ∧
      ((∃ s, v = .str s ∧ n = s) ∨ (intLike? v = some k ∧ ∀ s, v ≠ .str s)) := by
  cases v <;> simp only [enumCall] at h
  all_goals first
    | cases h
    | skip
  case str s =>
    split at h
    · rename_i n k hf
      injection h with h
      obtain ⟨hm, hn⟩ := enumByName_mem hf
      exact ⟨n, k, h.symm, hm, Or.inl ⟨s, rfl, hn⟩⟩
    · cases h
  case int i =>
    split at h
    · rename_i n k hf
      injection h with h
      obtain ⟨hm, hk⟩ := enumByValue_mem hf
      exact ⟨n, k, h.symm, hm, Or.inr ⟨by simp [intLike?, numInt?, hk], by intro s hs; cases hs⟩⟩
    · cases h
  case bool b =>
    split at h
    · rename_i n k hf
      injection h with h
      obtain ⟨hm, hk⟩ := enumByValue_mem hf
      exact ⟨n, k, h.symm, hm, Or.inr ⟨by simp [intLike?, numInt?, hk], by intro s hs; cases hs⟩⟩
    · cases h
  case float x =>
    split at h
    · rename_i i hi
      split at h
      · rename_i n k hf
        injection h with h
        obtain ⟨hm, hk⟩ := enumByValue_mem hf
        exact ⟨n, k, h.symm, hm, Or.inr ⟨by simp [intLike?, numInt?, hk, hi], by intro s hs; cases hs⟩⟩
      · cases h
    · cases h
  case enum en ev =>
    split at h
    · rename_i n k hf
      injection h with h
      obtain ⟨hm, hk⟩ := enumByValue_mem hf
      exact ⟨n, k, h.symm, hm, Or.inr ⟨by simp [intLike?, hk], by intro s hs; cases hs⟩⟩
    · cases h

theorem enumCall_sound {ms : List (String × Int)} {v r : PVal F} (h : enumCall ms v = .ok r) :
    InSet (.enum ms) r := by
  obtain ⟨n, k, hr, hm, _⟩ := enumCall_ok h
  rw [hr]; simpa only [InSet, InSetG] using hm

theorem stringCall_sound {minc maxc : Nat} {utf8 : Bool} {v : PVal F} {s : String}
    (h : stringCall minc maxc utf8 v = .ok s) :
    InSet (F := F) (.string minc maxc utf8) (.str s) ∧ v = .str s := by
  cases v <;> simp only [stringCall] at h
  all_goals first
    | cases h
    | skip
  case str t =>
    split at h
    · cases h
    · split at h
      · cases h
      · split at h
        · cases h
        · split at h
          · cases h
          · rename_i h1 h2 h3 h4
            injection h with h
            subst h
            refine ⟨?_, rfl⟩
            simp only [InSet, InSetG]
            refine ⟨by omega, by omega, ?_, ?_⟩
            · intro hu
              subst hu
              simp only [Bool.not_false, Bool.true_and, Bool.not_eq_true', Bool.not_eq_false] at h1
              unfold isAscii at h1
              intro c hc
              have := List.all_eq_true.1 h1 c hc
              simpa using this
            · intro c hc h0
              apply h4
              unfold hasNul
              exact List.any_eq_true.2 ⟨c, hc, by simp [h0]⟩

theorem blobCall_sound {minb maxb : Nat} {v : PVal F} {b : List UInt8} (h : blobCall minb maxb v = .ok b) :
    InSet (F := F) (.blob minb maxb) (.bytes b) ∧ v = .bytes b := by
  cases v <;> simp only [blobCall] at h
  all_goals first
    | cases h
    | skip
  case bytes t =>
    split at h
    · cases h
    · split at h
      · cases h
      · injection h with h
        subst h
        refine ⟨?_, rfl⟩
        simp only [InSet, InSetG]
        omega

end Frappy.Lemmas.C01
