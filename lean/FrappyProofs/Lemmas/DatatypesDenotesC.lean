import FrappyProofs.Lemmas.DatatypesDenotes
/-
C01: an accepted value denotes the value that was offered — containers, and the mutual induction.
-/
set_option linter.unusedSectionVars false
set_option linter.unusedVariables false
namespace Frappy.Lemmas.C01
open FloatOps DType Frappy.Datatypes Frappy.Spec.C01
open PVal (toFloat? seqItems? prevItems prevFields dictGet dictSet)

variable {F : Type} [FloatOps F] [LawfulFloatOps F]

/-! ### `PVal.same` is reflexive -/

mutual
theorem pval_same_refl : ∀ v : PVal F, PVal.same v v = true
  | .none => by simp [PVal.same]
  | .bool _ => by simp [PVal.same]
  | .int _ => by simp [PVal.same]
  | .float x => by simp only [PVal.same]; exact same_refl x
  | .str _ => by simp [PVal.same]
  | .bytes _ => by simp [PVal.same]
  | .tuple l => by simp only [PVal.same]; exact pval_sameList_refl l
  | .list l => by simp only [PVal.same]; exact pval_sameList_refl l
  | .dict d => by simp only [PVal.same]; exact pval_sameFields_refl d
  | .enum _ _ => by simp [PVal.same]
theorem pval_sameList_refl : ∀ l : List (PVal F), PVal.sameList l l = true
  | [] => by simp [PVal.sameList]
  | v :: vs => by simp only [PVal.sameList, Bool.and_eq_true]; exact ⟨pval_same_refl v, pval_sameList_refl vs⟩
theorem pval_sameFields_refl : ∀ d : List (String × PVal F), PVal.sameFields d d = true
  | [] => by simp [PVal.sameFields]
  | (k, v) :: rest => by
    simp only [PVal.sameFields, Bool.and_eq_true, beq_self_eq_true, true_and]
    exact ⟨pval_same_refl v, pval_sameFields_refl rest⟩
end

/-! ### dict lookups -/

section dict
variable {α : Type}

theorem dictGet_dictSet_same (d : List (String × α)) (k : String) (v : α) : dictGet (dictSet d k v) k = some v := by
  induction d with
  | nil => simp [dictSet, dictGet]
  | cons hd tl ih =>
    obtain ⟨k0, v0⟩ := hd
    simp only [dictSet]
    split
    · rename_i hk; simp [dictGet, hk]
    · rename_i hk; simp [dictGet, hk, ih]

theorem dictGet_dictSet_ne (d : List (String × α)) {k k' : String} (v : α) (h : k ≠ k') :
    dictGet (dictSet d k v) k' = dictGet d k' := by
  induction d with
  | nil => simp [dictSet, dictGet, h]
  | cons hd tl ih =>
    obtain ⟨k0, v0⟩ := hd
    simp only [dictSet]
    split
    · rename_i hk; subst hk; simp [dictGet, h]
    · rename_i hk
      simp only [dictGet]
      split
      · rfl
      · exact ih

theorem dictGet_of_mem {d : List (String × α)} (hn : (d.map (·.1)).Nodup) {kv : String × α} (h : kv ∈ d) :
    dictGet d kv.1 = some kv.2 := by
  induction d with
  | nil => cases h
  | cons hd tl ih =>
    obtain ⟨k0, v0⟩ := hd
    simp only [List.map_cons, List.nodup_cons] at hn
    rcases List.mem_cons.1 h with e | e
    · subst e; simp [dictGet]
    · simp only [dictGet]
      split
      · rename_i hk
        exfalso; apply hn.1; rw [hk]; exact List.mem_map_of_mem e
      · exact ih hn.2 e

end dict

/-! ### the member offered under a key -/

def givenStep (k : String) (acc : Option (PVal F)) (kv : String × PVal F) : Option (PVal F) :=
  if kv.1 = k && !isNone kv.2 then some kv.2 else acc

theorem given_eq (fields : List (String × PVal F)) (k : String) :
    given fields k = fields.foldl (givenStep k) none := rfl

theorem foldl_givenStep (k : String) : ∀ (fields : List (String × PVal F)) (init : Option (PVal F)),
    fields.foldl (givenStep k) init =
      match fields.foldl (givenStep k) none with
      | some v => some v
      | none => init := by
  intro fields
  induction fields with
  | nil => intro init; simp
  | cons hd tl ih =>
    intro init
    simp only [List.foldl_cons]
    rw [ih (givenStep k init hd), ih (givenStep k none hd)]
    cases h : tl.foldl (givenStep k) none with
    | some v => simp
    | none =>
      simp only
      unfold givenStep
      split <;> simp

theorem given_cons (hd : String × PVal F) (tl : List (String × PVal F)) (k : String) :
    given (hd :: tl) k =
      match given tl k with
      | some v => some v
      | none => if hd.1 = k && !isNone hd.2 then some hd.2 else none := by
  rw [given_eq, given_eq, List.foldl_cons, foldl_givenStep]
  rfl

/-! ### loops -/

theorem mapPrev_allDen {f : PVal F → Option (PVal F) → Res F} {P : Option (PVal F) → PVal F → PVal F → Prop}
    {Q : PVal F → Prop} (hf : ∀ v p r, (∀ q, p = some q → Q q) → f v p = .ok r → P p v r) :
    ∀ (vs ps rs : List (PVal F)), (∀ p ∈ ps, Q p) → mapPrev f vs ps = .ok rs → AllDen P ps vs rs := by
  intro vs
  induction vs with
  | nil => intro ps rs _ h; simp [mapPrev] at h; subst h; simp [AllDen]
  | cons v vs ih =>
    intro ps rs hq h
    simp only [mapPrev] at h
    split at h
    · cases h
    · rename_i r hr
      split at h
      · cases h
      · rename_i rs' hrs
        injection h with h
        subst h
        simp only [AllDen]
        refine ⟨hf v _ r (fun q hq0 => hq q (List.mem_of_head? hq0)) hr, ?_⟩
        exact ih ps.tail rs' (fun p hp => hq p (List.mem_of_mem_tail hp)) hrs

theorem foldFields_given {f : String → PVal F → Option (Res F)} {M : String → PVal F → PVal F → Prop}
    (hf : ∀ k v r, isNone v = false → f k v = some (.ok r) → M k v r) :
    ∀ (items acc res : List (String × PVal F)), foldFields f items acc = .ok res → (res.map (·.1)).Nodup →
      ∀ kv ∈ res, match given items kv.1 with
        | some v => M kv.1 v kv.2
        | none => dictGet acc kv.1 = some kv.2 := by
  intro items
  induction items with
  | nil =>
    intro acc res h hn kv hkv
    simp only [foldFields] at h
    injection h with h
    subst h
    simp only [given, List.foldl_nil]
    exact dictGet_of_mem hn hkv
  | cons hd tl ih =>
    intro acc res h hn kv hkv
    obtain ⟨k0, v0⟩ := hd
    rw [given_cons]
    cases v0
    case none =>
      simp only [foldFields] at h
      have := ih acc res h hn kv hkv
      cases hg : given tl kv.1 with
      | some v => rw [hg] at this; exact this
      | none =>
        rw [hg] at this
        simp only [isNone, Bool.not_true, Bool.and_false, Bool.false_eq_true, ↓reduceIte]
        exact this
    all_goals
      simp only [foldFields] at h
      split at h
      · cases h
      · cases h
      · rename_i r hr
        have := ih _ res h hn kv hkv
        cases hg : given tl kv.1 with
        | some v => rw [hg] at this; exact this
        | none =>
          rw [hg] at this
          simp only at this
          by_cases hk : k0 = kv.1
          · simp only [isNone, Bool.not_false, Bool.and_true, decide_eq_true_eq, hk, ↓reduceIte]
            rw [← hk, dictGet_dictSet_same] at this
            injection this with this
            rw [← this, ← hk]
            exact hf _ _ _ (by simp [isNone]) hr
          · simp only [isNone, Bool.not_false, Bool.and_true, decide_eq_true_eq, hk, ↓reduceIte]
            rw [dictGet_dictSet_ne _ _ hk] at this
            exact this

theorem mem_givenKeys {items : List (String × PVal F)} {kv : String × PVal F} (h : kv ∈ items)
    (hn : isNone kv.2 = false) : kv.1 ∈ givenKeys items := by
  induction items with
  | nil => cases h
  | cons hd tl ih =>
    obtain ⟨k0, v0⟩ := hd
    rcases List.mem_cons.1 h with e | e
    · subst e
      cases v0 <;> simp [givenKeys, isNone] at hn ⊢
    · have := ih e
      cases v0 <;> simp [givenKeys, this]

end Frappy.Lemmas.C01
