import FrappyProofs.Lemmas.CommReply
/- helper lemmas for C16: reconnect attempts and the rate limit -/
open Frappy.Spec.C16
namespace Frappy.Comm

theorem failTo_pc2 (k : Caller) : (failTo k).pc = .done ∨ (failTo k).pc = .fail := by
  unfold failTo; split <;> simp

theorem nextReq_pc_cases (k : Caller) : (nextReq k).pc = .relO ∨ (nextReq k).pc = .done ∨ (nextReq k).pc = .check := by
  unfold nextReq; split
  · by_cases h : k.kind = .multi <;> simp [h]
  · simp
theorem toFlush_pc_cases (s : State) (k : Caller) : (toFlush s k).pc = .done ∨ (toFlush s k).pc = .fail ∨ (toFlush s k).pc = .flush := by
  unfold toFlush; split
  · rcases failTo_pc2 k with h | h <;> simp [h]
  · simp

set_option hygiene false in
/-- `hp : (helper k).pc = P` with P not among the helper's results -/
macro "pc_contra" : tactic => `(tactic| first
  | (rcases failTo_pc2 _ with h' | h' <;> rw [h'] at hp <;> simp at hp; done)
  | (rcases nextReq_pc_cases _ with h' | h' | h' <;> rw [h'] at hp <;> simp at hp; done)
  | (rcases afterConnected_pc_cases _ _ (by first | exact hf.2 | rfl) with h' | h' | h' <;> rw [h'] at hp <;> simp at hp; done)
  | (rcases afterIdent_pc_cases _ _ (by first | exact hf.2 | rfl) with h' | h' | h' | ⟨l, h'⟩ <;> rw [h'] at hp <;> simp at hp; done)
  | (rcases toFlush_pc_cases _ _ with h' | h' | h' <;> rw [h'] at hp <;> simp at hp; done))

set_option maxHeartbeats 4000000 in
theorem step_basic (s s' : State) (t c : Nat) (e : Ev) (h : stepCaller s t c e = some s') :
    s'.cfg = s.cfg ∧ s'.clock = s.clock ∧
      (s'.lastAttempt = s.lastAttempt ∨ ((∃ x, e = .now x t) ∧ s'.lastAttempt = t)) := by
  step_arms
  all_goals (first
    | (refine ⟨?_, ?_, Or.inl ?_⟩ <;> (simp [State.setC, State.acquire, State.release]; done))
    | (refine ⟨?_, ?_, Or.inr ⟨⟨_, by rw [hg]⟩, ?_⟩⟩ <;> (simp [State.setC, hg]; done))
    | (obtain ⟨hg1, hg2⟩ := hg; refine ⟨?_, ?_, Or.inr ⟨⟨_, by rw [hg2]⟩, ?_⟩⟩ <;> (simp [State.setC, hg2]; done))
    | (split <;> (refine ⟨?_, ?_, Or.inl ?_⟩ <;> (simp [State.setC, State.acquire, State.release]; done)))
    | skip)


def chkNowPc (p : Pc) : Bool := match p with | .chkNow | .idChkNow => true | _ => false
def flightPc (p : Pc) : Bool := match p with | .rcheck | .connecting => true | _ => false

/-- a `chk` is the first event of check_connection — of a request of the call, or of an identification request -/
theorem step_chk (s s' : State) (t c x : Nat) (v : Bool) (h : stepCaller s t c (.chk x v) = some s') :
    ((s.callers c).pc = .check ∨ (s.callers c).pc = .idChk) ∧ (v = false → chkNowPc (s'.callers c).pc = true) := by
  cases hpc : (s.callers c).pc <;> simp only [stepCaller, hpc] at h <;> try (simp at h)
  all_goals (
    obtain ⟨hv, rfl⟩ := h
    refine ⟨by simp, fun hf => ?_⟩
    subst hv
    simp [hf, chkNowPc])

theorem step_connect (s s' : State) (t c x : Nat) (ok od : Bool) (h : stepCaller s t c (.connect x ok od) = some s') :
    (s.callers c).pc = .connecting ∧ t ≤ s.lastAttempt + s.cfg.slack ∧ (od = true → (s.callers c).kind ≠ .poll) := by
  cases hpc : (s.callers c).pc <;> simp only [stepCaller, hpc] at h <;> try (simp at h)
  obtain ⟨⟨h1, h2⟩, _⟩ := h
  refine ⟨rfl, h2, fun hod => ?_⟩
  subst hod
  simpa using h1

theorem misc_chkNowPc (s : State) (cfg : Cfg) (k : Caller) :
    chkNowPc (failTo k).pc = false ∧ chkNowPc (nextReq k).pc = false ∧ chkNowPc (afterConnected s k).pc = false ∧
    chkNowPc (toFlush s k).pc = false ∧ chkNowPc (rcFail k).pc = false ∧ chkNowPc (afterIdent s k).pc = false ∧
    chkNowPc (startIdent s k).pc = false ∧ chkNowPc (idNext cfg k).pc = false ∧ chkNowPc (toIdFlush s k).pc = false ∧
    chkNowPc (toIdEndFail k).pc = false := by
  have h1 : chkNowPc (failTo k).pc = false := by unfold failTo; simp only; split <;> rfl
  have h3 : chkNowPc (afterConnected s k).pc = false := by
    unfold afterConnected; split <;> split <;> (try split) <;> (try rfl) <;> exact h1
  have h6 : chkNowPc (afterIdent s k).pc = false := by unfold afterIdent; split <;> (try split) <;> (try rfl) <;> exact h3
  refine ⟨h1, ?_, h3, ?_, ?_, h6, ?_, ?_, ?_, rfl⟩
  · unfold nextReq; split <;> (try split) <;> rfl
  · unfold toFlush; split <;> (try rfl); exact h1
  · unfold rcFail; split <;> (try rfl); exact h1
  · unfold startIdent; split <;> (try rfl); exact h6
  · unfold idNext; split <;> (try split) <;> (try split) <;> rfl
  · unfold toIdFlush; split <;> rfl

theorem misc_flightPc (s : State) (cfg : Cfg) (k : Caller) :
    flightPc (failTo k).pc = false ∧ flightPc (nextReq k).pc = false ∧ flightPc (afterConnected s k).pc = false ∧
    flightPc (toFlush s k).pc = false ∧ flightPc (rcFail k).pc = false ∧ flightPc (afterIdent s k).pc = false ∧
    flightPc (startIdent s k).pc = false ∧ flightPc (idNext cfg k).pc = false ∧ flightPc (toIdFlush s k).pc = false ∧
    flightPc (toIdEndFail k).pc = false := by
  have h1 : flightPc (failTo k).pc = false := by unfold failTo; simp only; split <;> rfl
  have h3 : flightPc (afterConnected s k).pc = false := by
    unfold afterConnected; split <;> split <;> (try split) <;> (try rfl) <;> exact h1
  have h6 : flightPc (afterIdent s k).pc = false := by unfold afterIdent; split <;> (try split) <;> (try rfl) <;> exact h3
  refine ⟨h1, ?_, h3, ?_, ?_, h6, ?_, ?_, ?_, rfl⟩
  · unfold nextReq; split <;> (try split) <;> rfl
  · unfold toFlush; split <;> (try rfl); exact h1
  · unfold rcFail; split <;> (try rfl); exact h1
  · unfold startIdent; split <;> (try rfl); exact h6
  · unfold idNext; split <;> (try split) <;> (try split) <;> rfl
  · unfold toIdFlush; split <;> rfl

set_option hygiene false in
/-- `hp : P (helper …).pc = true` with P false on every helper's result (`misc` : the conjunction of these facts) -/
macro "helper_contra'" m:ident : tactic => `(tactic| first
  | (rw [($m s s.cfg _).1] at hp; simp at hp; done)
  | (rw [($m s s.cfg _).2.1] at hp; simp at hp; done)
  | (rw [($m _ s.cfg _).2.2.1] at hp; simp at hp; done)
  | (rw [($m _ s.cfg _).2.2.2.1] at hp; simp at hp; done)
  | (rw [($m s s.cfg _).2.2.2.2.1] at hp; simp at hp; done)
  | (rw [($m _ s.cfg _).2.2.2.2.2.1] at hp; simp at hp; done)
  | (rw [($m _ s.cfg _).2.2.2.2.2.2.1] at hp; simp at hp; done)
  | (rw [($m s _ _).2.2.2.2.2.2.2.1] at hp; simp at hp; done)
  | (rw [($m _ s.cfg _).2.2.2.2.2.2.2.2.1] at hp; simp at hp; done)
  | (rw [($m s s.cfg _).2.2.2.2.2.2.2.2.2] at hp; simp at hp; done))

set_option maxHeartbeats 16000000 in
/-- the rate test (of a request of the call or of an identification request) is reached by a `chk … false` only -/
theorem step_into_chkNow (s s' : State) (t c : Nat) (e : Ev) (h : stepCaller s t c e = some s')
    (hp : chkNowPc (s'.callers c).pc = true) : chkNowPc (s.callers c).pc = true ∨ ∃ x, e = .chk x false := by
  step_arms
  all_goals (first
    | (left; simp [hpc, chkNowPc]; done)
    | (exfalso; simp only [setC_same] at hp; first
        | (rw [hpc] at hp; simp [chkNowPc] at hp; done)
        | (simp [chkNowPc] at hp; done)
        | helper_contra' misc_chkNowPc
        | (split at hp <;> first | (simp [chkNowPc] at hp; done) | helper_contra' misc_chkNowPc))
    | (right; rename_i v _; cases v <;> simp_all [chkNowPc]; done)
    | skip)

/-- an attempt on behalf of a communicate call is under way: the rate test has been passed -/
def flight (k : Caller) : Bool := flightPc k.pc && k.kind != .poll

theorem flight_pc {k : Caller} (h : flight k = true) : flightPc k.pc = true ∧ k.kind ≠ .poll := by
  unfold flight at h
  simp only [Bool.and_eq_true, bne_iff_ne, ne_eq] at h
  exact h

theorem not_flight_of_pc {k : Caller} (h1 : k.pc ≠ .rcheck) (h2 : k.pc ≠ .connecting) : flight k = false := by
  unfold flight
  cases hp : k.pc <;> simp [flightPc] <;> simp_all

set_option maxHeartbeats 32000000 in
/-- … and an attempt on behalf of a call is started by passing a rate test -/
theorem step_into_flight (s s' : State) (t c : Nat) (e : Ev) (h : stepCaller s t c e = some s')
    (hp0 : flight (s'.callers c) = true) :
    flight (s.callers c) = true ∨
      (chkNowPc (s.callers c).pc = true ∧ (∃ x, e = .now x t) ∧ s.lastAttempt + s.cfg.interval ≤ t) := by
  obtain ⟨hp, hkind⟩ := flight_pc hp0
  step_arms
  all_goals (first
    | (left; simp only [setC_same] at hkind; simp [flight, flightPc, hpc]; simpa using hkind)
    | (right; exact ⟨by simp [hpc, chkNowPc], ⟨_, by rw [hg]⟩, by rw [← hg]; assumption⟩)
    | (exfalso; simp only [setC_same] at hp; first
        | (rw [hpc] at hp; simp [flightPc] at hp; done)
        | (simp [flightPc] at hp; done)
        | helper_contra' misc_flightPc
        | (split at hp <;> first | (simp [flightPc] at hp; done) | helper_contra' misc_flightPc))
    | (exfalso; simp only [setC_same] at hkind; simp at hkind; done)
    | skip)

theorem timeAt_append_lt (log : Log) (e : TEv) (i : Nat) (h : i < log.length) : timeAt (log ++ [e]) i = timeAt log i := by
  simp [timeAt, List.getElem?_append_left h]

theorem timeAt_append_eq (log : Log) (e : TEv) : timeAt (log ++ [e]) log.length = e.t := by simp [timeAt]

theorem connectAt_append_lt (log : Log) (e : TEv) (i : Nat) (h : i < log.length) : connectAt (log ++ [e]) i = connectAt log i := by
  simp [connectAt, evAt_append_lt log e i h]

theorem timeAt_take (log : Log) (k i : Nat) (h : i < k) : timeAt (log.take k) i = timeAt log i := by
  simp [timeAt, List.getElem?_take, h]

theorem connectAt_take (log : Log) (k i : Nat) (h : i < k) : connectAt (log.take k) i = connectAt log i := by
  simp [connectAt, evAt_take log k i h]

structure TInv (cfg : Cfg) (log : Log) (s : State) : Prop where
  cfg_eq : s.cfg = cfg
  t1 : s.lastAttempt ≤ s.clock
  t2 : ∀ i, i < log.length → connectAt log i ≠ none → timeAt log i ≤ s.lastAttempt + cfg.slack
  t3 : ∀ i, i < log.length → timeAt log i ≤ s.clock
  a4 : ∀ c, chkNowPc (s.callers c).pc = true → ∃ p, p < log.length ∧ evAt log p = some (.chk c false) ∧
        ∀ m, p < m → m < log.length → isChk c (evAt log m) = false
  a5 : ∀ c, flight (s.callers c) = true → ∃ p q, p < q ∧ q < log.length ∧ evAt log p = some (.chk c false) ∧
        (∀ m, p < m → m < log.length → isChk c (evAt log m) = false) ∧
        (∀ i, i < q → connectAt log i ≠ none → timeAt log i + cfg.interval ≤ timeAt log q + cfg.slack)

/-- extend the "no chk of c after p" part by an event that is not a chk of c -/
theorem nochk_extend {log : Log} {e : TEv} {c p : Nat} (h : ∀ m, p < m → m < log.length → isChk c (evAt log m) = false)
    (he : isChk c (some e.ev) = false) : ∀ m, p < m → m < (log ++ [e]).length → isChk c (evAt (log ++ [e]) m) = false := by
  intro m h1 h2
  simp only [List.length_append, List.length_singleton] at h2
  rcases Nat.lt_or_ge m log.length with hm | hm
  · rw [evAt_append_lt log e m hm]; exact h m h1 hm
  · have : m = log.length := by omega
    subst this; rw [evAt_append_eq]; exact he

theorem tinv_step {cfg : Cfg} {log : Log} {s s' : State} (e : TEv)
    (hi : TInv cfg log s) (h : step s e = some s') :
    TInv cfg (log ++ [e]) s' := by
  have hclk : s.clock ≤ e.t := by
    unfold step at h; split at h
    · simp at h
    · omega
  -- facts about the new state, by kind of event
  have hfacts : s'.cfg = s.cfg ∧ s'.clock = e.t ∧
      (s'.lastAttempt = s.lastAttempt ∨ ((∃ x, e.ev = .now x e.t) ∧ s'.lastAttempt = e.t)) := by
    cases hwho : e.ev.who with
    | none =>
      unfold step at h
      split at h
      · simp at h
      · simp only at h
        cases hev : e.ev <;> simp only [hev, Ev.who] at hwho h <;> try (simp at hwho)
        · split at h
          · split at h
            · simp at h
            · simp only [Option.some.injEq] at h; subst h; exact ⟨rfl, rfl, Or.inl rfl⟩
          · simp only [Option.some.injEq] at h; subst h; exact ⟨rfl, rfl, Or.inl rfl⟩
        · split at h <;> (simp only [Option.some.injEq] at h; subst h; exact ⟨rfl, rfl, Or.inl rfl⟩)
        · simp only [Option.some.injEq] at h; subst h; exact ⟨rfl, rfl, Or.inl rfl⟩
    | some c0 =>
      rw [step_caller_form s e c0 hwho] at h
      split at h
      · simp at h
      · have := step_basic _ s' e.t c0 e.ev h
        exact ⟨this.1, this.2.1, this.2.2⟩
  obtain ⟨hcfg, hclock, hla⟩ := hfacts
  have hla_ge : s.lastAttempt ≤ s'.lastAttempt := by
    rcases hla with h1 | ⟨_, h1⟩
    · omega
    · have := hi.t1; omega
  have hlen : (log ++ [e]).length = log.length + 1 := by simp
  -- callers: who changed
  have hcallers : ∀ c, e.ev.who ≠ some c → s'.callers c = s.callers c := by
    intro c hc
    cases hwho : e.ev.who with
    | none => rw [(step_env_callers hwho h).1]
    | some c0 =>
      rw [step_caller_form s e c0 hwho] at h
      split at h
      · simp at h
      · have hne : c ≠ c0 := by intro heq; rw [heq, hwho] at hc; exact hc rfl
        exact step_others _ s' e.t c0 e.ev h c hne
  have hnotchk : ∀ c, e.ev.who ≠ some c → isChk c (some e.ev) = false := by
    intro c hc
    cases hev : e.ev <;> simp only [isChk] <;> try rfl
    rename_i x v
    rw [hev] at hc
    simp only [Ev.who, ne_eq, Option.some.injEq] at hc
    simp [hc]
  refine ⟨by rw [hcfg]; exact hi.cfg_eq, by rw [hclock]; rcases hla with h1 | ⟨_, h1⟩ <;> (have := hi.t1; omega), ?_, ?_, ?_, ?_⟩
  · -- t2
    intro i hil hc
    rw [hlen] at hil
    rcases Nat.lt_or_ge i log.length with hlt | hge
    · rw [timeAt_append_lt log e i hlt]
      rw [connectAt_append_lt log e i hlt] at hc
      have := hi.t2 i hlt hc; omega
    · have : i = log.length := by omega
      subst this
      rw [timeAt_append_eq]
      simp only [connectAt, evAt_append_eq] at hc
      cases hev : e.ev <;> simp only [hev] at hc <;> try (simp at hc)
      rename_i x ok od
      have hwho : e.ev.who = some x := by rw [hev]; rfl
      rw [step_caller_form s e x hwho] at h
      split at h
      · simp at h
      · rw [hev] at h
        have hcn := step_connect _ s' e.t x x ok od h
        have hb := step_basic _ s' e.t x _ h
        have hsame : s'.lastAttempt = s.lastAttempt := by
          rcases hb.2.2 with h1 | ⟨⟨y, hy⟩, _⟩
          · exact h1
          · simp at hy
        simp only at hcn
        rw [hsame, ← hi.cfg_eq]; exact hcn.2.1
  · -- t3
    intro i hil
    rw [hlen] at hil
    rw [hclock]
    rcases Nat.lt_or_ge i log.length with hlt | hge
    · rw [timeAt_append_lt log e i hlt]; have := hi.t3 i hlt; omega
    · have : i = log.length := by omega
      subst this; rw [timeAt_append_eq]; exact Nat.le_refl _
  · -- a4
    intro c hp
    by_cases hwc : e.ev.who = some c
    · rw [step_caller_form s e c hwc] at h
      split at h
      · simp at h
      · rcases step_into_chkNow _ s' e.t c e.ev h hp with hold | ⟨x, hx⟩
        · obtain ⟨p, hpl, hpe, hno⟩ := hi.a4 c hold
          refine ⟨p, by omega, by rw [evAt_append_lt log e p hpl]; exact hpe, nochk_extend hno ?_⟩
          cases hev : e.ev <;> simp only [isChk] <;> try rfl
          rename_i y v
          rw [hev] at h
          have := (step_chk _ s' e.t c y v h).1
          simp only at hold this
          rcases this with this | this <;> (rw [this] at hold; simp [chkNowPc] at hold)
        · have hxc : x = c := by rw [hx] at hwc; simpa [Ev.who] using hwc
          subst hxc
          refine ⟨log.length, by omega, by rw [evAt_append_eq, hx], ?_⟩
          intro m h1 h2; omega
    · rw [hcallers c hwc] at hp
      obtain ⟨p, hpl, hpe, hno⟩ := hi.a4 c hp
      exact ⟨p, by omega, by rw [evAt_append_lt log e p hpl]; exact hpe, nochk_extend hno (hnotchk c hwc)⟩
  · -- a5
    intro c hp
    have hext : ∀ p q, p < q → q < log.length → evAt log p = some (.chk c false) →
        (∀ m, p < m → m < log.length → isChk c (evAt log m) = false) →
        (∀ i, i < q → connectAt log i ≠ none → timeAt log i + cfg.interval ≤ timeAt log q + cfg.slack) →
        isChk c (some e.ev) = false →
        ∃ p q, p < q ∧ q < (log ++ [e]).length ∧ evAt (log ++ [e]) p = some (.chk c false) ∧
          (∀ m, p < m → m < (log ++ [e]).length → isChk c (evAt (log ++ [e]) m) = false) ∧
          (∀ i, i < q → connectAt (log ++ [e]) i ≠ none →
            timeAt (log ++ [e]) i + cfg.interval ≤ timeAt (log ++ [e]) q + cfg.slack) := by
      intro p q hpq hql hpe hno hconn hnc
      refine ⟨p, q, hpq, by omega, by rw [evAt_append_lt log e p (by omega)]; exact hpe, nochk_extend hno hnc, ?_⟩
      intro i hiq hc
      rw [connectAt_append_lt log e i (by omega)] at hc
      rw [timeAt_append_lt log e i (by omega), timeAt_append_lt log e q hql]
      exact hconn i hiq hc
    by_cases hwc : e.ev.who = some c
    · rw [step_caller_form s e c hwc] at h
      split at h
      · simp at h
      · rcases step_into_flight _ s' e.t c e.ev h hp with hold | ⟨hchk, ⟨x, hx⟩, hle⟩
        · obtain ⟨p, q, hpq, hql, hpe, hno, hconn⟩ := hi.a5 c hold
          refine hext p q hpq hql hpe hno hconn ?_
          cases hev : e.ev <;> simp only [isChk] <;> try rfl
          rename_i y v
          rw [hev] at h
          have := (step_chk _ s' e.t c y v h).1
          have hfp := (flight_pc hold).1
          simp only at this hfp
          rcases this with this | this <;> (rw [this] at hfp; simp [flightPc] at hfp)
        · obtain ⟨p, hpl, hpe, hno⟩ := hi.a4 c hchk
          refine ⟨p, log.length, hpl, by omega, by rw [evAt_append_lt log e p hpl]; exact hpe, nochk_extend hno ?_, ?_⟩
          · rw [hx]; rfl
          · intro i hil hc
            rw [connectAt_append_lt log e i hil] at hc
            rw [timeAt_append_lt log e i hil, timeAt_append_eq]
            have := hi.t2 i hil hc
            simp only at hle
            rw [hi.cfg_eq] at hle
            omega
    · rw [hcallers c hwc] at hp
      obtain ⟨p, q, hpq, hql, hpe, hno, hconn⟩ := hi.a5 c hp
      exact hext p q hpq hql hpe hno hconn (hnotchk c hwc)

theorem tinv_init (cfg : Cfg) (cbs : List Nat) : TInv cfg [] { cfg := cfg, cbsReg := cbs } := by
  refine ⟨rfl, Nat.le_refl _, ?_, ?_, ?_, ?_⟩
  · intro i h; simp at h
  · intro i h; simp at h
  · intro c h; simp [chkNowPc] at h
  · intro c h; simp [flight, flightPc] at h

theorem tinv_exec_gen {cfg : Cfg} : ∀ (evs pre : List TEv) (s0 s : State), Inv pre s0 → TInv cfg pre s0 →
    exec s0 evs = some s → TInv cfg (pre ++ evs) s
  | [], pre, s0, s, _, hv, h => by simp [exec] at h; subst h; simpa using hv
  | e :: es, pre, s0, s, hi0, hv, h => by
    simp only [exec] at h
    cases hst : step s0 e with
    | none => simp [hst] at h
    | some s1 =>
      simp only [hst] at h
      have := tinv_exec_gen es (pre ++ [e]) s1 s (inv_step e hi0 hst) (tinv_step e hv hst) h
      simpa using this

theorem tinv_exec (cfg : Cfg) (cbs : List Nat) (evs : List TEv) (s : State)
    (h : exec { cfg := cfg, cbsReg := cbs } evs = some s) : TInv cfg evs s := by
  simpa using tinv_exec_gen evs [] _ s (inv_init cfg cbs) (tinv_init cfg cbs) h

end Frappy.Comm
