import FrappyProofs.Lemmas.Persist
/-
Helper lemmas for C17, second part: the module machine (`announce`, `writeInitLoop`, `loadParameters`, `act`) —
the value of one parameter through `writeInitParams`, the write dictionary, and the disk invariant of every action.
-/
namespace Frappy.Persist
open Frappy.Spec.C17
set_option linter.unusedSectionVars false
set_option linter.unusedSimpArgs false

/-- value of the parameter called `n` -/
def valueOf {V : Type} (ps : List (Param V)) (n : String) : Option V := (findParam ps n).map (·.value)

/-! ## monitors of the reload clauses -/

theorem judgeReloadRestores_nil_iff {N V : Type} [DecidableEq V] (parse : Bytes → Option (JV N))
    (imp : String → JV N → Option V) (wval : String → V → Option V) (file : Option Bytes) (obs : List (ReloadObs V)) :
    judgeReloadRestores parse imp wval file obs = [] ↔ ReloadRestores parse imp wval file obs := by
  unfold judgeReloadRestores ReloadRestores
  simp [List.filter_eq_nil_iff]

theorem judgeReloadFromThisRun_nil_iff {V : Type} [DecidableEq V] (obs : List (ReloadObs V)) :
    judgeReloadFromThisRun obs = [] ↔ ReloadFromThisRun obs := by
  unfold judgeReloadFromThisRun ReloadFromThisRun
  simp [List.filter_eq_nil_iff]

/-! ## dictionaries -/

theorem lookup_dset_same {V : Type} (d : List (String × V)) (k : String) (v : V) : (dset d k v).lookup k = some v := by
  induction d with
  | nil => simp [dset, List.lookup_cons]
  | cons e rest ih =>
    obtain ⟨k', v'⟩ := e
    unfold dset
    by_cases h : k' = k
    · subst h; simp [List.lookup_cons]
    · have h1 : (k' == k) = false := by simpa using h
      have h2 : (k == k') = false := by simpa using (fun e => h e.symm)
      simp only [h1, Bool.false_eq_true, if_false, List.lookup_cons, h2]
      exact ih

theorem lookup_dset_other {V : Type} (d : List (String × V)) (k n : String) (v : V) (h : n ≠ k) :
    (dset d k v).lookup n = d.lookup n := by
  induction d with
  | nil =>
    have : (n == k) = false := by simpa using h
    simp [dset, List.lookup_cons, this]
  | cons e rest ih =>
    obtain ⟨k', v'⟩ := e
    unfold dset
    by_cases h1 : k' = k
    · subst h1
      have : (n == k') = false := by simpa using h
      simp [List.lookup_cons, this]
    · have hb : (k' == k) = false := by simpa using h1
      simp only [hb, Bool.false_eq_true, if_false, List.lookup_cons]
      cases n == k' <;> simp [ih]

theorem lookup_filter_ne {V : Type} (d : List (String × V)) (k n : String) :
    (d.filter (fun e => !(e.1 == k))).lookup n = if n = k then none else d.lookup n := by
  induction d with
  | nil => simp
  | cons e rest ih =>
    obtain ⟨k', v'⟩ := e
    rw [List.filter_cons]
    by_cases h1 : k' = k
    · subst h1
      simp only [beq_self_eq_true, Bool.not_true, Bool.false_eq_true, if_false, ih]
      by_cases h2 : n = k'
      · simp [h2]
      · have : (n == k') = false := by simpa using h2
        simp [h2, List.lookup_cons, this]
    · have hb : (k' == k) = false := by simpa using h1
      simp only [hb, Bool.not_false, if_true, List.lookup_cons]
      by_cases h2 : n = k'
      · subst h2; simp [h1]
      · have : (n == k') = false := by simpa using h2
        simp only [this, ih]

theorem mem_keys_of_lookup {V : Type} (d : List (String × V)) (n : String) (v : V) (h : d.lookup n = some v) :
    n ∈ d.map Prod.fst := by
  induction d with
  | nil => simp at h
  | cons e rest ih =>
    obtain ⟨k', v'⟩ := e
    by_cases h2 : n = k'
    · simp [h2]
    · have : (n == k') = false := by simpa using h2
      simp only [List.lookup_cons, this] at h
      simp [ih h]

/-! ## parameters -/

theorem findParam_setValue {V : Type} (ps : List (Param V)) (k n : String) (v : V) :
    findParam (setValue ps k v) n =
      (findParam ps n).map (fun p => if p.name == k then { p with value := v } else p) := by
  induction ps with
  | nil => rfl
  | cons q rest ih =>
    unfold findParam setValue at *
    rw [List.map_cons, List.find?_cons, List.find?_cons]
    have hname : (if q.name == k then { q with value := v } else q).name = q.name := by split <;> rfl
    rw [hname]
    cases h : q.name == n
    · simpa using ih
    · simp

theorem valueOf_setValue {V : Type} (ps : List (Param V)) (k n : String) (v : V) :
    valueOf (setValue ps k v) n = if n = k then (findParam ps n).map (fun _ => v) else valueOf ps n := by
  unfold valueOf
  rw [findParam_setValue]
  cases hf : findParam ps n with
  | none => simp
  | some p =>
    have hpn : p.name = n := by
      unfold findParam at hf
      have := List.find?_some hf
      simpa using this
    by_cases h : n = k
    · subst h; simp [hpn]
    · have : ¬ p.name = k := by rw [hpn]; exact h
      simp [this, h]

/-- the fields of a parameter that no action changes -/
def flagsOf {V : Type} (ps : List (Param V)) (n : String) : Option (Bool × Bool × Bool × Bool) :=
  (findParam ps n).map (fun p => (p.persistent, p.auto, p.hasWrite, p.driver))

theorem flagsOf_setValue {V : Type} (ps : List (Param V)) (k n : String) (v : V) :
    flagsOf (setValue ps k v) n = flagsOf ps n := by
  unfold flagsOf
  rw [findParam_setValue]
  cases findParam ps n with
  | none => rfl
  | some p => simp only [Option.map_some]; split <;> rfl

/-! ## the stored value of a parameter, three ways -/

theorem loadRaw_keys_nodup {N : Type} (parse : Bytes → Option (JV N)) (file : Option Bytes)
    (hkeys : ∀ b kv, parse b = some (.obj kv) → (kv.map Prod.fst).Nodup) :
    ((loadRaw parse file).map Prod.fst).Nodup := by
  unfold loadRaw
  split
  · simp
  · split
    · rename_i b kv hkv; exact hkeys _ _ hkv
    · simp

theorem storedValue_eq {N V : Type} (parse : Bytes → Option (JV N)) (imp : String → JV N → Option V)
    (pers : String → Bool) (file : Option Bytes) (n : String) :
    storedValue parse imp pers file n =
      if pers n then ((loadRaw parse file).lookup n).bind (imp n) else none := by
  unfold storedValue loadRaw
  cases file with
  | none => simp
  | some b =>
    simp only [Option.bind_some]
    cases hpb : parse b with
    | none => simp
    | some j => cases j <;> simp

theorem any_persistent {V : Type} (ps : List (Param V)) (hnames : (ps.map (·.name)).Nodup) (p : Param V) (hp : p ∈ ps) :
    ps.any (fun q => q.name == p.name && q.persistent) = p.persistent := by
  have hfind := findParam_of_mem ps hnames p hp
  cases hpers : p.persistent
  · rw [List.any_eq_false]
    intro q hq
    by_cases hqn : q.name = p.name
    · have h1 := findParam_of_mem ps hnames q hq
      rw [hqn, hfind] at h1
      cases h1
      simp [hpers]
    · simp [hqn]
  · rw [List.any_eq_true]
    exact ⟨p, hp, by simp [hpers]⟩

theorem lookup_loaded {N V : Type} (ps : List (Param V)) (imp : String → JV N → Option V) (raw : Dict N)
    (hrawkeys : (raw.map Prod.fst).Nodup) (p : Param V) (hfind : findParam ps p.name = some p)
    (hpers : p.persistent = true) :
    (loadEntries ps imp raw).lookup p.name = (raw.lookup p.name).bind (imp p.name) := by
  rw [lookup_loadEntries ps imp _ hrawkeys]
  congr 1
  funext j
  simp [importEntry, hfind, hpers, Option.map_map, Function.comp_def]

/-! ## the module machine -/

section machine
variable {P N V : Type} [DecidableEq P]

theorem doSave_ms (env : Env P N V) (ms : MState N V) (f : Option Fault) :
    (doSave env ms f).ms = { ms with believed := (doSave env ms f).ms.believed } := rfl

theorem saveParameters_params (env : Env P N V) (ms : MState N V) (f : Option Fault) :
    (saveParameters env ms f).ms.params = ms.params ∧ (saveParameters env ms f).ms.writeDict = ms.writeDict ∧
    (saveParameters env ms f).ms.initData = ms.initData := by
  unfold saveParameters; split <;> simp [doSave]

theorem announce_params (env : Env P N V) (ms : MState N V) (n : String) (v : V) (f : Option Fault) :
    (announce env ms n v f).ms.params =
      (match findParam ms.params n with
        | some _ => setValue ms.params n v
        | none => ms.params) := by
  unfold announce
  cases findParam ms.params n with
  | none => rfl
  | some p =>
    simp only
    split
    · exact (saveParameters_params env _ f).1
    · rfl

theorem announce_writeDict (env : Env P N V) (ms : MState N V) (n : String) (v : V) (f : Option Fault) :
    (announce env ms n v f).ms.writeDict = ms.writeDict ∧ (announce env ms n v f).ms.initData = ms.initData := by
  unfold announce
  cases findParam ms.params n with
  | none => exact ⟨rfl, rfl⟩
  | some p =>
    simp only
    split
    · exact ⟨(saveParameters_params env _ f).2.1, (saveParameters_params env _ f).2.2⟩
    · exact ⟨rfl, rfl⟩

/-- one round of the loop of `writeInitParams` for a key that is still pending with value `v` -/
def wiStep (env : Env P N V) (ms : MState N V) (k : String) (v : V) (f : Option Fault) : StepOut P N V :=
  let ms1 := { ms with writeDict := ms.writeDict.filter (fun e => !(e.1 == k)) }
  let hw := match findParam ms.params k with
    | some p => p.hasWrite
    | none => false
  match (if hw then env.wval k v else some v) with
  | some v' => announce env ms1 k v' f
  | none => ⟨ms1, [], [], false⟩

theorem writeInitLoop_none (env : Env P N V) (k : String) (ks : List String) (ms : MState N V) (f : Option Fault)
    (hl : ms.writeDict.lookup k = none) :
    writeInitLoop env (k :: ks) ms f = writeInitLoop env ks ms f := by
  rw [writeInitLoop]; simp only [hl]

theorem writeInitLoop_some (env : Env P N V) (k : String) (ks : List String) (ms : MState N V) (f : Option Fault)
    (v : V) (hl : ms.writeDict.lookup k = some v) :
    (writeInitLoop env (k :: ks) ms f).ms =
      (writeInitLoop env ks (wiStep env ms k v f).ms (restFault (wiStep env ms k v f).evs f)).ms ∧
    (writeInitLoop env (k :: ks) ms f).evs =
      (wiStep env ms k v f).evs ++ (writeInitLoop env ks (wiStep env ms k v f).ms (restFault (wiStep env ms k v f).evs f)).evs := by
  rw [writeInitLoop]; simp only [hl]
  exact ⟨rfl, rfl⟩

theorem wiStep_writeDict (env : Env P N V) (ms : MState N V) (k : String) (v : V) (f : Option Fault) :
    (wiStep env ms k v f).ms.writeDict = ms.writeDict.filter (fun e => !(e.1 == k)) ∧
    (wiStep env ms k v f).ms.initData = ms.initData := by
  unfold wiStep
  simp only
  split
  · exact ⟨(announce_writeDict env _ k _ f).1, (announce_writeDict env _ k _ f).2⟩
  · exact ⟨rfl, rfl⟩

theorem wiStep_params (env : Env P N V) (ms : MState N V) (k : String) (v : V) (f : Option Fault) :
    (wiStep env ms k v f).ms.params = ms.params ∨ ∃ v', (wiStep env ms k v f).ms.params = setValue ms.params k v' := by
  unfold wiStep
  simp only
  split
  · rename_i v' _
    rw [announce_params]
    cases findParam ms.params k with
    | none => exact Or.inl rfl
    | some p => exact Or.inr ⟨v', rfl⟩
  · exact Or.inl rfl

/-- the parameter `k` after its round: the value the write path accepted, else unchanged -/
theorem wiStep_find_same (env : Env P N V) (ms : MState N V) (k : String) (v : V) (f : Option Fault) (p : Param V)
    (hp : findParam ms.params k = some p) :
    findParam (wiStep env ms k v f).ms.params k =
      some { p with value := ((if p.hasWrite then env.wval k v else some v)).getD p.value } := by
  have hpn : p.name = k := by
    unfold findParam at hp
    simpa using List.find?_some hp
  unfold wiStep
  simp only [hp]
  cases hw : (if p.hasWrite = true then env.wval k v else some v) with
  | none => simp [hp]
  | some v' =>
    simp only [announce_params, hp, findParam_setValue, Option.map_some, hpn, beq_self_eq_true, if_true, Option.getD_some]

/-- another parameter is not touched by the round of `k` -/
theorem wiStep_find_other (env : Env P N V) (ms : MState N V) (k n : String) (v : V) (f : Option Fault) (h : n ≠ k) :
    findParam (wiStep env ms k v f).ms.params n = findParam ms.params n := by
  rcases wiStep_params env ms k v f with h1 | ⟨v', h1⟩
  · rw [h1]
  · rw [h1, findParam_setValue]
    cases hf : findParam ms.params n with
    | none => rfl
    | some q =>
      have hqn : q.name = n := by
        unfold findParam at hf
        simpa using List.find?_some hf
      have : ¬ q.name = k := by rw [hqn]; exact h
      simp [this]

/-- `writeInitParams`, one parameter: if its name is among the keys being processed and a value is pending for it,
it ends with the value the write path accepted (unchanged if refused); otherwise it is not touched -/
theorem writeInitLoop_find (env : Env P N V) (n : String) :
    ∀ (ks : List String) (ms : MState N V) (f : Option Fault) (p : Param V), findParam ms.params n = some p →
    findParam (writeInitLoop env ks ms f).ms.params n =
      some { p with value :=
        if n ∈ ks then
          match ms.writeDict.lookup n with
          | some v => ((if p.hasWrite then env.wval n v else some v)).getD p.value
          | none => p.value
        else p.value } := by
  intro ks
  induction ks with
  | nil => intro ms f p hp; simp [writeInitLoop, hp]
  | cons k ks ih =>
    intro ms f p hp
    cases hl : ms.writeDict.lookup k with
    | none =>
      rw [writeInitLoop_none env k ks ms f hl, ih ms f p hp]
      by_cases hnk : n = k
      · subst hnk; simp [hl]
      · simp [hnk]
    | some v =>
      rw [(writeInitLoop_some env k ks ms f v hl).1]
      have hwd := (wiStep_writeDict env ms k v f).1
      by_cases hnk : n = k
      · subst hnk
        have hf := wiStep_find_same env ms n v f p hp
        rw [ih _ _ _ hf, hwd, lookup_filter_ne]
        simp [hl]
      · have hf : findParam (wiStep env ms k v f).ms.params n = some p := by
          rw [wiStep_find_other env ms k n v f hnk]; exact hp
        rw [ih _ _ _ hf, hwd, lookup_filter_ne]
        simp [hnk]

/-! ### `loadParameters` -/

theorem lookup_none_of_not_mem_keys {W : Type} (d : List (String × W)) (n : String) (h : n ∉ d.map Prod.fst) :
    d.lookup n = none := by
  cases hl : d.lookup n with
  | none => rfl
  | some v => exact absurd (mem_keys_of_lookup d n v hl) h

theorem applyLoaded_static (ms : MState N V) (l : List (String × V)) :
    (applyLoaded ms l).params = ms.params ∧ (applyLoaded ms l).believed = ms.believed ∧
    (applyLoaded ms l).initData = ms.initData := by
  induction l generalizing ms with
  | nil => exact ⟨rfl, rfl, rfl⟩
  | cons e rest ih =>
    obtain ⟨k, w⟩ := e
    unfold applyLoaded
    exact ih _

/-- `writeDict.update(loaded)`: a loaded value replaces what was pending for that name -/
theorem applyLoaded_lookup (ms : MState N V) (l : List (String × V)) (n : String) (hk : (l.map Prod.fst).Nodup) :
    (applyLoaded ms l).writeDict.lookup n =
      (match l.lookup n with
        | some v => some v
        | none => ms.writeDict.lookup n) := by
  induction l generalizing ms with
  | nil => rfl
  | cons e rest ih =>
    obtain ⟨k, w⟩ := e
    simp only [List.map_cons, List.nodup_cons] at hk
    unfold applyLoaded
    rw [ih _ hk.2]
    by_cases hnk : n = k
    · subst hnk
      rw [lookup_none_of_not_mem_keys rest n hk.1]
      simp [List.lookup_cons, lookup_dset_same]
    · have hb : (n == k) = false := by simpa using hnk
      simp only [List.lookup_cons, hb, lookup_dset_other _ _ _ _ hnk]

theorem loadEntries_keys_nodup (ps : List (Param V)) (imp : String → JV N → Option V) (raw : Dict N)
    (hk : (raw.map Prod.fst).Nodup) : ((loadEntries ps imp raw).map Prod.fst).Nodup := by
  have hsub : ((loadEntries ps imp raw).map Prod.fst).Sublist (raw.map Prod.fst) := by
    clear hk
    induction raw with
    | nil => exact List.Sublist.slnil
    | cons e rest ih =>
      unfold loadEntries at *
      rw [List.filterMap_cons]
      cases hi : importEntry ps imp e with
      | none => exact List.Sublist.cons _ ih
      | some r =>
        have := importEntry_key ps imp e r hi
        simp only [List.map_cons, this]
        exact List.Sublist.cons_cons _ ih
  exact hsub.nodup hk

/-- `loadParameters`, one parameter: a loaded value (else a value that was pending anyway) goes through the write
path; the parameter ends with what that accepted, or keeps its value -/
theorem loadParameters_find (env : Env P N V) (ms : MState N V) (file : Option Bytes) (f : Option Fault)
    (n : String) (p : Param V) (hp : findParam ms.params n = some p)
    (hk : ((loadRaw env.parse file).map Prod.fst).Nodup) :
    findParam (loadParameters env ms file f).ms.params n =
      some { p with value :=
        match (match (loadEntries ms.params env.imp (loadRaw env.parse file)).lookup n with
                | some v => some v
                | none => ms.writeDict.lookup n) with
        | some v => ((if p.hasWrite then env.wval n v else some v)).getD p.value
        | none => p.value } := by
  unfold loadParameters writeInit
  simp only
  have hst := applyLoaded_static { ms with believed := loadRaw env.parse file }
    (loadEntries ms.params env.imp (loadRaw env.parse file))
  have hp' : findParam (applyLoaded { ms with believed := loadRaw env.parse file }
      (loadEntries ms.params env.imp (loadRaw env.parse file))).params n = some p := by rw [hst.1]; exact hp
  rw [writeInitLoop_find env n _ _ f p hp']
  have hlk := applyLoaded_lookup { ms with believed := loadRaw env.parse file }
    (loadEntries ms.params env.imp (loadRaw env.parse file)) n (loadEntries_keys_nodup ms.params env.imp _ hk)
  simp only at hlk
  rw [← hlk]
  cases hl : (applyLoaded { ms with believed := loadRaw env.parse file }
      (loadEntries ms.params env.imp (loadRaw env.parse file))).writeDict.lookup n with
  | none => simp
  | some v => simp [mem_keys_of_lookup _ _ _ hl]

/-! ### the disk invariant of the module machine -/

/-- same parameter names and persistence flags, in the same order (only values differ) -/
def SameShape (ps ps' : List (Param V)) : Prop :=
  ps'.map (fun p => (p.name, p.persistent)) = ps.map (fun p => (p.name, p.persistent))

theorem setValue_shape (ps : List (Param V)) (k : String) (v : V) : SameShape ps (setValue ps k v) := by
  unfold SameShape setValue
  rw [List.map_map]
  apply List.map_congr_left
  intro p _
  simp only [Function.comp]
  split <;> rfl

theorem SameShape.trans {a b c : List (Param V)} (h1 : SameShape a b) (h2 : SameShape b c) : SameShape a c := by
  unfold SameShape at *; rw [h2, h1]

/-- `persistentData` is what a restart would read, and the parameters are those of the class -/
structure Good (env : Env P N V) (ps0 : List (Param V)) (fs : FS P) (ms : MState N V) : Prop where
  disk : loadRaw env.parse (fs env.tgt) = ms.believed
  shape : SameShape ps0 ms.params

/-- the snapshot of every value assignment of the class reads back as written -/
def Codec (env : Env P N V) (ps0 : List (Param V)) : Prop :=
  ∀ ps', SameShape ps0 ps' →
    env.parse (env.ser (exportAll env ps')).flatten = some (.obj (exportAll env ps'))

theorem saveStep_disk {D : Type} (same : D → D → Bool) (ser : D → List Bytes) (parse : Bytes → Option (JV N))
    (obj : D → Dict N) (tgt tmp : P) (htt : tgt ≠ tmp) (believed data : D) (f : Option Fault) (fs : FS P)
    (hc : parse (ser data).flatten = some (.obj (obj data)))
    (h : loadRaw parse (fs tgt) = obj believed) :
    loadRaw parse (applyEvs fs (saveStep same ser tgt tmp believed data f).evs tgt) =
      obj (saveStep same ser tgt tmp believed data f).believed := by
  unfold saveStep
  by_cases hs : same data believed = true
  · simp [hs, h]
  · obtain ⟨_, h2, h3⟩ := saveRun_final htt (ser data) f fs
    simp only [hs]
    cases hr : (saveRun tgt tmp (ser data) f).renamed
    · simp [hr, h3 hr, h]
    · simp [hr, h2 hr, loadRaw, hc]

theorem doSave_good (env : Env P N V) (ps0 : List (Param V)) (htt : env.tgt ≠ env.tmp) (hc : Codec env ps0)
    (fs : FS P) (ms : MState N V) (f : Option Fault) (h : Good env ps0 fs ms) :
    Good env ps0 (applyEvs fs (doSave env ms f).evs) (doSave env ms f).ms :=
  ⟨saveStep_disk env.same env.ser env.parse id env.tgt env.tmp htt ms.believed (exportAll env ms.params) f fs
      (hc _ h.shape) h.disk, h.shape⟩

/-- a save that returns normally leaves a file that reads back as the values (or as something Python-`==`, then
nothing was written) -/
theorem doSave_current (env : Env P N V) (ps0 : List (Param V)) (htt : env.tgt ≠ env.tmp) (hc : Codec env ps0)
    (fs : FS P) (ms : MState N V) (f : Option Fault) (h : Good env ps0 fs ms)
    (hraised : (doSave env ms f).raised = false) :
    loadRaw env.parse (applyEvs fs (doSave env ms f).evs env.tgt) = exportAll env ms.params ∨
    env.same (exportAll env ms.params) (loadRaw env.parse (applyEvs fs (doSave env ms f).evs env.tgt)) = true := by
  rw [(doSave_good env ps0 htt hc fs ms f h).disk]
  simp only [doSave, saveStep] at hraised ⊢
  split
  · right; assumption
  · rename_i hs
    simp only [hs] at hraised
    have hnr := saveRun_not_renamed env.tgt env.tmp (env.ser (exportAll env ms.params)) f
    cases hr : (saveRun env.tgt env.tmp (env.ser (exportAll env ms.params)) f).renamed
    · rw [hnr hr] at hraised; cases hraised
    · left; simp

theorem saveParameters_good (env : Env P N V) (ps0 : List (Param V)) (htt : env.tgt ≠ env.tmp) (hc : Codec env ps0)
    (fs : FS P) (ms : MState N V) (f : Option Fault) (h : Good env ps0 fs ms) :
    Good env ps0 (applyEvs fs (saveParameters env ms f).evs) (saveParameters env ms f).ms := by
  unfold saveParameters
  split
  · exact doSave_good env ps0 htt hc fs ms f h
  · exact h

theorem announce_good (env : Env P N V) (ps0 : List (Param V)) (htt : env.tgt ≠ env.tmp) (hc : Codec env ps0)
    (fs : FS P) (ms : MState N V) (n : String) (v : V) (f : Option Fault) (h : Good env ps0 fs ms) :
    Good env ps0 (applyEvs fs (announce env ms n v f).evs) (announce env ms n v f).ms := by
  unfold announce
  cases findParam ms.params n with
  | none => exact h
  | some p =>
    have h1 : Good env ps0 fs { ms with params := setValue ms.params n v } :=
      ⟨h.disk, h.shape.trans (setValue_shape _ _ _)⟩
    simp only
    split
    · exact saveParameters_good env ps0 htt hc fs _ f h1
    · exact h1

theorem wiStep_good (env : Env P N V) (ps0 : List (Param V)) (htt : env.tgt ≠ env.tmp) (hc : Codec env ps0)
    (fs : FS P) (ms : MState N V) (k : String) (v : V) (f : Option Fault) (h : Good env ps0 fs ms) :
    Good env ps0 (applyEvs fs (wiStep env ms k v f).evs) (wiStep env ms k v f).ms := by
  unfold wiStep
  have h1 : Good env ps0 fs { ms with writeDict := ms.writeDict.filter (fun e => !(e.1 == k)) } := ⟨h.disk, h.shape⟩
  simp only
  split
  · exact announce_good env ps0 htt hc fs _ k _ f h1
  · exact h1

theorem writeInitLoop_good (env : Env P N V) (ps0 : List (Param V)) (htt : env.tgt ≠ env.tmp) (hc : Codec env ps0) :
    ∀ (ks : List String) (fs : FS P) (ms : MState N V) (f : Option Fault), Good env ps0 fs ms →
    Good env ps0 (applyEvs fs (writeInitLoop env ks ms f).evs) (writeInitLoop env ks ms f).ms := by
  intro ks
  induction ks with
  | nil => intro fs ms f h; simpa [writeInitLoop] using h
  | cons k ks ih =>
    intro fs ms f h
    cases hl : ms.writeDict.lookup k with
    | none => rw [writeInitLoop_none env k ks ms f hl]; exact ih fs ms f h
    | some v =>
      obtain ⟨e1, e2⟩ := writeInitLoop_some env k ks ms f v hl
      rw [e1, e2, applyEvs_append]
      exact ih _ _ _ (wiStep_good env ps0 htt hc fs ms k v f h)

theorem act_good (env : Env P N V) (ps0 : List (Param V)) (htt : env.tgt ≠ env.tmp) (hc : Codec env ps0)
    (fs : FS P) (ms : MState N V) (a : Act V) (f : Option Fault) (h : Good env ps0 fs ms) :
    Good env ps0 (applyEvs fs (act env ms (fs env.tgt) a f).evs) (act env ms (fs env.tgt) a f).ms := by
  cases a with
  | set n v => exact announce_good env ps0 htt hc fs ms n v f h
  | save => exact saveParameters_good env ps0 htt hc fs ms f h
  | writeInit => exact writeInitLoop_good env ps0 htt hc _ fs ms f h
  | load =>
    simp only [act, loadParameters, writeInit]
    apply writeInitLoop_good env ps0 htt hc
    have hst := applyLoaded_static { ms with believed := loadRaw env.parse (fs env.tgt) }
      (loadEntries ms.params env.imp (loadRaw env.parse (fs env.tgt)))
    exact ⟨by rw [hst.2.1], by rw [hst.1]; exact h.shape⟩
  | factoryReset =>
    simp only [act, factoryReset, writeInit]
    apply writeInitLoop_good env ps0 htt hc
    exact ⟨h.disk, h.shape⟩
  | seterr n => exact h

/-! ### start-up -/

theorem startParam_shape (loaded : List (String × V)) (p : Param V) :
    ((startParam loaded p).name, (startParam loaded p).persistent, (startParam loaded p).hasWrite) =
      (p.name, p.persistent, p.hasWrite) := by
  unfold startParam
  split
  · split <;> rfl
  · rfl

theorem startUp_params (env : Env P N V) (ps : List (Param V)) (wd0 : List (String × V)) (file : Option Bytes)
    (f : Option Fault) :
    (startUp env ps wd0 file f).ms.params = ps.map (startParam (loadEntries ps env.imp (loadRaw env.parse file))) := by
  simp [startUp, doSave]

theorem startUp_names (env : Env P N V) (ps : List (Param V)) (wd0 : List (String × V)) (file : Option Bytes)
    (f : Option Fault) : (startUp env ps wd0 file f).ms.params.map (·.name) = ps.map (·.name) := by
  rw [startUp_params, List.map_map]
  apply List.map_congr_left
  intro p _
  have := startParam_shape (loadEntries ps env.imp (loadRaw env.parse file)) p
  simp only [Prod.mk.injEq] at this
  exact this.1

theorem startUp_good (env : Env P N V) (ps : List (Param V)) (htt : env.tgt ≠ env.tmp) (hc : Codec env ps)
    (wd0 : List (String × V)) (fs0 : FS P) (f : Option Fault) :
    Good env ps (applyEvs fs0 (startUp env ps wd0 (fs0 env.tgt) f).evs) (startUp env ps wd0 (fs0 env.tgt) f).ms := by
  unfold startUp
  apply doSave_good env ps htt hc
  refine ⟨rfl, ?_⟩
  unfold SameShape
  simp only [List.map_map]
  apply List.map_congr_left
  intro p _
  have := startParam_shape (loadEntries ps env.imp (loadRaw env.parse (fs0 env.tgt))) p
  simp only [Prod.mk.injEq] at this
  simp [Function.comp, this.1, this.2.1]

theorem world_run_good (env : Env P N V) (ps0 : List (Param V)) (htt : env.tgt ≠ env.tmp) (hc : Codec env ps0) :
    ∀ (hist : List (Act V × Option Fault)) (w : World P N V), Good env ps0 w.fs w.ms →
      Good env ps0 (World.run env w hist).fs (World.run env w hist).ms := by
  intro hist
  induction hist with
  | nil => intro w h; exact h
  | cons a rest ih =>
    intro w h
    unfold World.run
    rw [List.foldl_cons]
    exact ih _ (act_good env ps0 htt hc w.fs w.ms a.1 a.2 h)

/-- the entry of a persistent parameter in the exported dictionary -/
theorem lookup_exportAll (env : Env P N V) (ps : List (Param V)) (hnames : (ps.map (·.name)).Nodup)
    (p : Param V) (hp : p ∈ ps) (hpers : p.persistent = true) :
    (exportAll env ps).lookup p.name = some (env.exp p.name p.value) := by
  have hexpkeys : ((exportAll env ps).map Prod.fst).Nodup := by
    unfold exportAll
    rw [List.map_map]
    exact (List.Sublist.map _ List.filter_sublist).nodup hnames |> fun h => by simpa [Function.comp_def] using h
  have hmem : (p.name, env.exp p.name p.value) ∈ exportAll env ps := by
    unfold exportAll
    exact List.mem_map.2 ⟨p, List.mem_filter.2 ⟨hp, hpers⟩, rfl⟩
  generalize exportAll env ps = d at hexpkeys hmem
  induction d with
  | nil => cases hmem
  | cons e rest ih =>
    obtain ⟨k, j⟩ := e
    simp only [List.map_cons, List.nodup_cons] at hexpkeys
    rcases List.mem_cons.1 hmem with h | h
    · cases h; simp [List.lookup_cons]
    · have : (p.name == k) = false := by
        simp only [beq_eq_false_iff_ne, ne_eq]
        intro hk
        exact hexpkeys.1 (hk ▸ List.mem_map_of_mem (f := Prod.fst) h)
      simp only [List.lookup_cons, this]
      exact ih hexpkeys.2 h

end machine

/-! ## provenance: what the file holds are values of this run

`H n v` stands for "parameter `n` has had the value `v` in this run".  `Within H ms`: every persistent parameter has
such a value now, and its entry in `persistentData` (= in the file, by `Good`) imports to such a value. -/

section provenance
variable {P N V : Type} [DecidableEq P]

structure Within (env : Env P N V) (H : String → V → Prop) (ms : MState N V) : Prop where
  cur : ∀ n p, findParam ms.params n = some p → p.persistent = true → H n p.value
  stored : ∀ n p, findParam ms.params n = some p → p.persistent = true →
    ∃ v, (ms.believed.lookup n).bind (env.imp n) = some v ∧ H n v

theorem Within.mono {env : Env P N V} {H H' : String → V → Prop} {ms : MState N V} (h : Within env H ms)
    (hm : ∀ n v, H n v → H' n v) : Within env H' ms :=
  ⟨fun n p hf hp => hm _ _ (h.cur n p hf hp), fun n p hf hp => by
    obtain ⟨v, h1, h2⟩ := h.stored n p hf hp
    exact ⟨v, h1, hm _ _ h2⟩⟩

theorem mem_of_findParam {ps : List (Param V)} {n : String} {p : Param V} (h : findParam ps n = some p) :
    p ∈ ps ∧ p.name = n := by
  unfold findParam at h
  exact ⟨List.mem_of_find?_eq_some h, by simpa using List.find?_some h⟩

theorem doSave_believed (env : Env P N V) (ms : MState N V) (f : Option Fault) :
    (doSave env ms f).ms.believed = ms.believed ∨ (doSave env ms f).ms.believed = exportAll env ms.params := by
  unfold doSave saveStep
  simp only
  split
  · exact Or.inl rfl
  · split
    · exact Or.inr rfl
    · exact Or.inl rfl

theorem doSave_within (env : Env P N V) (H : String → V → Prop) (ms : MState N V) (f : Option Fault)
    (hnames : (ms.params.map (·.name)).Nodup) (hlaw : ∀ n v, env.imp n (env.exp n v) = some v)
    (h : Within env H ms) : Within env H (doSave env ms f).ms := by
  have hp : (doSave env ms f).ms.params = ms.params := rfl
  refine ⟨fun n p hf hpers => h.cur n p (hp ▸ hf) hpers, fun n p hf hpers => ?_⟩
  rw [hp] at hf
  rcases doSave_believed env ms f with hb | hb
  · rw [hb]; exact h.stored n p hf hpers
  · obtain ⟨hmem, hname⟩ := mem_of_findParam hf
    rw [hb, ← hname, lookup_exportAll env ms.params hnames p hmem hpers]
    exact ⟨p.value, hlaw _ _, hname ▸ h.cur n p hf hpers⟩

theorem saveParameters_within (env : Env P N V) (H : String → V → Prop) (ms : MState N V) (f : Option Fault)
    (hnames : (ms.params.map (·.name)).Nodup) (hlaw : ∀ n v, env.imp n (env.exp n v) = some v)
    (h : Within env H ms) : Within env H (saveParameters env ms f).ms := by
  unfold saveParameters
  split
  · exact doSave_within env H ms f hnames hlaw h
  · exact h

theorem setValue_names (ps : List (Param V)) (k : String) (v : V) :
    (setValue ps k v).map (·.name) = ps.map (·.name) := by
  unfold setValue
  rw [List.map_map]
  apply List.map_congr_left
  intro p _
  simp only [Function.comp]
  split <;> rfl

theorem announce_within (env : Env P N V) (H : String → V → Prop) (ms : MState N V) (k : String) (v : V)
    (f : Option Fault) (hnames : (ms.params.map (·.name)).Nodup) (hlaw : ∀ n v, env.imp n (env.exp n v) = some v)
    (hv : ∀ p, findParam ms.params k = some p → p.persistent = true → H k v)
    (h : Within env H ms) : Within env H (announce env ms k v f).ms := by
  unfold announce
  cases hk : findParam ms.params k with
  | none => exact h
  | some q =>
    have h1 : Within env H { ms with params := setValue ms.params k v } := by
      refine ⟨fun n p hf hpers => ?_, fun n p hf hpers => ?_⟩
      · simp only [findParam_setValue] at hf
        cases hf0 : findParam ms.params n with
        | none => simp [hf0] at hf
        | some p0 =>
          simp only [hf0, Option.map_some, Option.some.injEq] at hf
          have hp0n := (mem_of_findParam hf0).2
          by_cases hnk : p0.name = k
          · simp only [hnk, beq_self_eq_true, if_true] at hf
            subst hf
            have : n = k := hp0n ▸ hnk
            subst this
            rw [hk] at hf0
            cases hf0
            exact hv q hk hpers
          · have hb : (p0.name == k) = false := by simpa using hnk
            simp only [hb, Bool.false_eq_true, if_false] at hf
            subst hf
            exact h.cur n p0 hf0 hpers
      · simp only [findParam_setValue] at hf
        cases hf0 : findParam ms.params n with
        | none => simp [hf0] at hf
        | some p0 =>
          simp only [hf0, Option.map_some, Option.some.injEq] at hf
          have hpers0 : p0.persistent = true := by
            rw [← hf] at hpers
            split at hpers <;> exact hpers
          exact h.stored n p0 hf0 hpers0
    simp only
    split
    · exact saveParameters_within env H _ f (by simpa [setValue_names] using hnames) hlaw h1
    · exact h1

/-- whatever `writeInitParams` would assign to a persistent parameter is a value of this run -/
def Pending (env : Env P N V) (H : String → V → Prop) (ms : MState N V) : Prop :=
  ∀ k v p v', ms.writeDict.lookup k = some v → findParam ms.params k = some p → p.persistent = true →
    (if p.hasWrite then env.wval k v else some v) = some v' → H k v'

theorem wiStep_names (env : Env P N V) (ms : MState N V) (k : String) (v : V) (f : Option Fault) :
    (wiStep env ms k v f).ms.params.map (·.name) = ms.params.map (·.name) := by
  rcases wiStep_params env ms k v f with h | ⟨v', h⟩
  · rw [h]
  · rw [h, setValue_names]

theorem wiStep_within (env : Env P N V) (H : String → V → Prop) (ms : MState N V) (k : String) (v : V)
    (f : Option Fault) (hnames : (ms.params.map (·.name)).Nodup) (hlaw : ∀ n v, env.imp n (env.exp n v) = some v)
    (hl : ms.writeDict.lookup k = some v) (hpend : Pending env H ms) (h : Within env H ms) :
    Within env H (wiStep env ms k v f).ms := by
  unfold wiStep
  have h1 : Within env H { ms with writeDict := ms.writeDict.filter (fun e => !(e.1 == k)) } := ⟨h.cur, h.stored⟩
  simp only
  split
  · rename_i v' hwv
    refine announce_within env H { ms with writeDict := ms.writeDict.filter (fun e => !(e.1 == k)) } k v' f
      hnames hlaw ?_ h1
    intro p hp hpers
    simp only at hp
    simp only [hp] at hwv
    exact hpend k v p v' hl hp hpers hwv
  · exact h1

theorem wiStep_pending (env : Env P N V) (H : String → V → Prop) (ms : MState N V) (k : String) (v : V)
    (f : Option Fault) (hpend : Pending env H ms) : Pending env H (wiStep env ms k v f).ms := by
  intro k' w p v' hl hf hpers hwv
  rw [(wiStep_writeDict env ms k v f).1, lookup_filter_ne] at hl
  by_cases hkk : k' = k
  · simp [hkk] at hl
  · simp only [hkk, if_false] at hl
    rw [wiStep_find_other env ms k k' v f hkk] at hf
    exact hpend k' w p v' hl hf hpers hwv

theorem writeInitLoop_within (env : Env P N V) (H : String → V → Prop)
    (hlaw : ∀ n v, env.imp n (env.exp n v) = some v) :
    ∀ (ks : List String) (ms : MState N V) (f : Option Fault), (ms.params.map (·.name)).Nodup →
      Pending env H ms → Within env H ms → Within env H (writeInitLoop env ks ms f).ms := by
  intro ks
  induction ks with
  | nil => intro ms f _ _ h; simpa [writeInitLoop] using h
  | cons k ks ih =>
    intro ms f hnames hpend h
    cases hl : ms.writeDict.lookup k with
    | none => rw [writeInitLoop_none env k ks ms f hl]; exact ih ms f hnames hpend h
    | some v =>
      rw [(writeInitLoop_some env k ks ms f v hl).1]
      exact ih _ _ (by rw [wiStep_names]; exact hnames) (wiStep_pending env H ms k v f hpend)
        (wiStep_within env H ms k v f hnames hlaw hl hpend h)

theorem writeInitLoop_names (env : Env P N V) :
    ∀ (ks : List String) (ms : MState N V) (f : Option Fault),
      (writeInitLoop env ks ms f).ms.params.map (·.name) = ms.params.map (·.name) := by
  intro ks
  induction ks with
  | nil => intro ms f; simp [writeInitLoop]
  | cons k ks ih =>
    intro ms f
    cases hl : ms.writeDict.lookup k with
    | none => rw [writeInitLoop_none env k ks ms f hl]; exact ih ms f
    | some v => rw [(writeInitLoop_some env k ks ms f v hl).1, ih, wiStep_names]

/-- `writeInitParams` as a whole: afterwards everything is a value of this run, the values it assigned included -/
theorem writeInit_within (env : Env P N V) (H : String → V → Prop) (ms : MState N V) (f : Option Fault)
    (hnames : (ms.params.map (·.name)).Nodup) (hlaw : ∀ n v, env.imp n (env.exp n v) = some v)
    (h : Within env H ms) :
    Within env (fun n v => H n v ∨ valueOf (writeInit env ms f).ms.params n = some v) (writeInit env ms f).ms := by
  unfold writeInit
  apply writeInitLoop_within env _ hlaw _ ms f hnames _ (h.mono (fun _ _ hh => Or.inl hh))
  intro k v p v' hl hf _ hwv
  right
  unfold valueOf
  rw [writeInitLoop_find env k _ ms f p hf]
  simp [mem_keys_of_lookup _ _ _ hl, hl, hwv]

/-- one action of a history: what was a value of this run stays one, and the values after the action are added -/
theorem act_within (env : Env P N V) (H : String → V → Prop) (ms : MState N V) (fs : FS P) (a : Act V)
    (f : Option Fault) (hnames : (ms.params.map (·.name)).Nodup) (hlaw : ∀ n v, env.imp n (env.exp n v) = some v)
    (hdisk : loadRaw env.parse (fs env.tgt) = ms.believed) (h : Within env H ms) :
    Within env (fun n v => H n v ∨ valueOf (act env ms (fs env.tgt) a f).ms.params n = some v)
      (act env ms (fs env.tgt) a f).ms := by
  cases a with
  | set n v =>
    simp only [act]
    apply announce_within env _ ms n v f hnames hlaw _ (h.mono (fun _ _ hh => Or.inl hh))
    intro p hp _
    right
    rw [announce_params, hp]
    simp [valueOf_setValue, hp]
  | save =>
    simp only [act]
    exact (saveParameters_within env H ms f hnames hlaw h).mono (fun _ _ hh => Or.inl hh)
  | writeInit => exact writeInit_within env H ms f hnames hlaw h
  | load =>
    simp only [act, loadParameters]
    have hst := applyLoaded_static { ms with believed := loadRaw env.parse (fs env.tgt) }
      (loadEntries ms.params env.imp (loadRaw env.parse (fs env.tgt)))
    apply writeInit_within env H _ f (by rw [hst.1]; exact hnames) hlaw
    refine ⟨fun n p hf hp => h.cur n p (by rw [hst.1] at hf; exact hf) hp, fun n p hf hp => ?_⟩
    rw [hst.1] at hf
    rw [hst.2.1]
    simp only [hdisk]
    exact h.stored n p hf hp
  | factoryReset =>
    simp only [act, factoryReset]
    exact writeInit_within env H _ f hnames hlaw ⟨h.cur, h.stored⟩
  | seterr n => exact h.mono (fun _ _ hh => Or.inl hh)

theorem act_names (env : Env P N V) (ms : MState N V) (file : Option Bytes) (a : Act V) (f : Option Fault) :
    (act env ms file a f).ms.params.map (·.name) = ms.params.map (·.name) := by
  cases a with
  | set n v =>
    simp only [act, announce_params]
    cases findParam ms.params n <;> simp [setValue_names]
  | save => simp only [act]; rw [(saveParameters_params env ms f).1]
  | writeInit => exact writeInitLoop_names env _ ms f
  | load =>
    simp only [act, loadParameters, writeInit]
    rw [writeInitLoop_names, (applyLoaded_static _ _).1]
  | factoryReset =>
    simp only [act, factoryReset, writeInit]
    rw [writeInitLoop_names]
  | seterr n => rfl

/-- `n` has had the value `v` at the start of `hist` or after one of its actions -/
def Visited (env : Env P N V) (w : World P N V) (hist : List (Act V × Option Fault)) (n : String) (v : V) : Prop :=
  ∃ i, i ≤ hist.length ∧ valueOf (World.run env w (hist.take i)).ms.params n = some v

theorem world_run_cons (env : Env P N V) (w : World P N V) (a : Act V × Option Fault) (l : List (Act V × Option Fault)) :
    World.run env w (a :: l) = World.run env (World.step env w a) l := by
  unfold World.run; rw [List.foldl_cons]

theorem world_run_names (env : Env P N V) : ∀ (hist : List (Act V × Option Fault)) (w : World P N V),
    (World.run env w hist).ms.params.map (·.name) = w.ms.params.map (·.name) := by
  intro hist
  induction hist with
  | nil => intro w; rfl
  | cons a rest ih =>
    intro w
    rw [world_run_cons, ih]
    exact act_names env w.ms _ a.1 a.2

/-- every history: what the module holds and what the file holds are values of this run -/
theorem world_run_within (env : Env P N V) (ps0 : List (Param V)) (htt : env.tgt ≠ env.tmp) (hc : Codec env ps0)
    (hlaw : ∀ n v, env.imp n (env.exp n v) = some v) :
    ∀ (hist : List (Act V × Option Fault)) (w : World P N V) (H : String → V → Prop),
      Good env ps0 w.fs w.ms → (w.ms.params.map (·.name)).Nodup → Within env H w.ms →
      Within env (fun n v => H n v ∨ Visited env w hist n v) (World.run env w hist).ms := by
  intro hist
  induction hist with
  | nil => intro w H _ _ h; exact h.mono (fun _ _ hh => Or.inl hh)
  | cons a rest ih =>
    intro w H hgood hnames h
    rw [world_run_cons]
    have h1 := act_within env H w.ms w.fs a.1 a.2 hnames hlaw hgood.disk h
    have hg1 := act_good env ps0 htt hc w.fs w.ms a.1 a.2 hgood
    have hn1 : ((World.step env w a).ms.params.map (·.name)).Nodup := by
      show ((act env w.ms (w.fs env.tgt) a.1 a.2).ms.params.map (·.name)).Nodup
      rw [act_names]; exact hnames
    refine (ih (World.step env w a) _ hg1 hn1 h1).mono ?_
    intro n v hh
    rcases hh with (hh | hh) | ⟨i, hi, hv⟩
    · exact Or.inl hh
    · exact Or.inr ⟨1, by simp, by simpa [World.run, World.step] using hh⟩
    · refine Or.inr ⟨i + 1, by simpa using hi, ?_⟩
      rw [List.take_succ_cons, world_run_cons]; exact hv

end provenance

/-! ## the registration of the automatic save (`paramCallbacks`) -/
section hooks
variable {P N V : Type} [DecidableEq P]

theorem saveParameters_hooks (env : Env P N V) (ms : MState N V) (f : Option Fault) :
    (saveParameters env ms f).ms.hooks = ms.hooks := by
  unfold saveParameters; split <;> simp [doSave]

/-- `announceUpdate` swallows the exception of a callback and leaves it registered -/
theorem announce_hooks (env : Env P N V) (ms : MState N V) (n : String) (v : V) (f : Option Fault) :
    (announce env ms n v f).ms.hooks = ms.hooks := by
  unfold announce
  cases findParam ms.params n with
  | none => rfl
  | some p =>
    simp only
    split
    · exact saveParameters_hooks env _ f
    · rfl

theorem wiStep_hooks (env : Env P N V) (ms : MState N V) (k : String) (v : V) (f : Option Fault) :
    (wiStep env ms k v f).ms.hooks = ms.hooks := by
  unfold wiStep
  simp only
  split
  · rw [announce_hooks]
  · rfl

theorem writeInitLoop_hooks (env : Env P N V) :
    ∀ (ks : List String) (ms : MState N V) (f : Option Fault), (writeInitLoop env ks ms f).ms.hooks = ms.hooks := by
  intro ks
  induction ks with
  | nil => intro ms f; simp [writeInitLoop]
  | cons k ks ih =>
    intro ms f
    cases hl : ms.writeDict.lookup k with
    | none => rw [writeInitLoop_none env k ks ms f hl]; exact ih ms f
    | some v => rw [(writeInitLoop_some env k ks ms f v hl).1, ih, wiStep_hooks]

theorem applyLoaded_hooks (ms : MState N V) (l : List (String × V)) : (applyLoaded ms l).hooks = ms.hooks := by
  induction l generalizing ms with
  | nil => rfl
  | cons e rest ih =>
    obtain ⟨k, w⟩ := e
    unfold applyLoaded
    exact ih _

/-- no action of the module machine changes what is registered -/
theorem act_hooks (env : Env P N V) (ms : MState N V) (file : Option Bytes) (a : Act V) (f : Option Fault) :
    (act env ms file a f).ms.hooks = ms.hooks := by
  cases a with
  | set n v => exact announce_hooks env ms n v f
  | save => exact saveParameters_hooks env ms f
  | writeInit => exact writeInitLoop_hooks env _ ms f
  | load =>
    simp only [act, loadParameters, writeInit]
    rw [writeInitLoop_hooks, applyLoaded_hooks]
  | factoryReset =>
    simp only [act, factoryReset, writeInit]
    rw [writeInitLoop_hooks]
  | seterr n => rfl

theorem world_run_hooks (env : Env P N V) : ∀ (hist : List (Act V × Option Fault)) (w : World P N V),
    (World.run env w hist).ms.hooks = w.ms.hooks := by
  intro hist
  induction hist with
  | nil => intro w; rfl
  | cons a rest ih =>
    intro w
    rw [world_run_cons, ih]
    exact act_hooks env w.ms _ a.1 a.2

theorem startUp_hooks (env : Env P N V) (ps : List (Param V)) (wd0 : List (String × V)) (file : Option Bytes)
    (f : Option Fault) : (startUp env ps wd0 file f).ms.hooks = autoNames ps := by
  simp [startUp, doSave]

theorem mem_autoNames {ps : List (Param V)} {p : Param V} (hp : p ∈ ps) (hpers : p.persistent = true)
    (hauto : p.auto = true) : (autoNames ps).contains p.name = true := by
  simp only [autoNames, List.contains_iff_mem, List.mem_map, List.mem_filter]
  exact ⟨p, ⟨hp, by simp [hpers, hauto]⟩, rfl⟩

theorem findParam_isSome {V : Type} (ps : List (Param V)) (n : String) (h : n ∈ ps.map (·.name)) :
    (findParam ps n).isSome = true := by
  unfold findParam
  rw [List.find?_isSome]
  obtain ⟨p, hp, rfl⟩ := List.mem_map.mp h
  exact ⟨p, hp, by simp⟩

end hooks

/-! ## a concrete environment for the non-vacuity examples of `Props/C17`

One persistent parameter "a" (with a write method that refuses values above 100) and a plain parameter "b"; numbers
are written in unary, so every snapshot reads back. -/

/-- environment of the examples -/
def exEnv : Env Nat Nat Nat :=
  { tgt := 0, tmp := 1,
    parse := fun b => some (.obj [("a", .num b.length)]),
    ser := fun d => match d with
      | [(_, .num v)] => [List.replicate v 1]
      | _ => [[0]],
    same := fun _ _ => false,
    imp := fun _ j => match j with
      | .num n => some n
      | _ => none,
    exp := fun _ v => .num v,
    wval := fun _ v => if v ≤ 100 then some v else none }

/-- "a" is given in the configuration as 5 (and registered for writing), "b" is not persistent -/
def exParams : List (Param Nat) := [⟨"a", true, false, true, true, true, 5⟩, ⟨"b", false, false, false, false, false, 7⟩]

theorem exCodec : Codec exEnv exParams := by
  intro ps' h
  unfold SameShape exParams at h
  have hlen : ps'.length = 2 := by simpa using congrArg List.length h
  match ps', hlen, h with
  | [x, y], _, h =>
    simp only [List.map_cons, List.map_nil, List.cons.injEq, Prod.mk.injEq, and_true] at h
    obtain ⟨⟨hx1, hx2⟩, hy1, hy2⟩ := h
    simp [exportAll, List.filter_cons, hx2, hy2, hx1, exEnv]

/-- the same class with "a" saved automatically (`persistent='auto'`), not configured, without write method -/
def exAuto : List (Param Nat) := [⟨"a", true, true, false, false, false, 5⟩, ⟨"b", false, false, false, false, false, 7⟩]

theorem exAutoCodec : Codec exEnv exAuto := by
  intro ps' h
  unfold SameShape exAuto at h
  have hlen : ps'.length = 2 := by simpa using congrArg List.length h
  match ps', hlen, h with
  | [x, y], _, h =>
    simp only [List.map_cons, List.map_nil, List.cons.injEq, Prod.mk.injEq, and_true] at h
    obtain ⟨⟨hx1, hx2⟩, hy1, hy2⟩ := h
    simp [exportAll, List.filter_cons, hx2, hy2, hx1, exEnv]

theorem exLaws :
    exEnv.tgt ≠ exEnv.tmp ∧ (exParams.map (·.name)).Nodup ∧
    (∀ b kv, exEnv.parse b = some (.obj kv) → (kv.map Prod.fst).Nodup) ∧
    (∀ n (j : JV Nat) v v', exEnv.imp n j = some v → exEnv.wval n v = some v' → v' = v) ∧
    (∀ d d', exEnv.same d d' = true → ∀ n, (d'.lookup n).bind (exEnv.imp n) = (d.lookup n).bind (exEnv.imp n)) ∧
    (∀ n v, exEnv.imp n (exEnv.exp n v) = some v) := by
  refine ⟨by decide, by decide +kernel, ?_, ?_, ?_, ?_⟩
  · intro b kv h
    simp only [exEnv, Option.some.injEq, JV.obj.injEq] at h
    subst h; simp
  · intro n j v v' _ h
    simp only [exEnv] at h
    split at h
    · exact (Option.some.inj h).symm
    · cases h
  · intro d d' h; simp [exEnv] at h
  · intro n v; simp [exEnv]

end Frappy.Persist
