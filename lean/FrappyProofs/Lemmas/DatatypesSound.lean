import FrappyProofs.Lemmas.DatatypesContainers
/-
C01: soundness of `validate` by mutual structural induction over datatype trees.
-/
set_option linter.unusedSectionVars false
set_option linter.unusedVariables false
namespace Frappy.Lemmas.C01
open FloatOps DType Frappy.Datatypes Frappy.Spec.C01
open PVal (toFloat? seqItems? prevItems prevFields dictGet dictSet)

variable {F : Type} [FloatOps F] [LawfulFloatOps F]

/-- the value the parameter holds is absent or lies in the value set -/
def PrevOK (dt : DType F) (prev : Option (PVal F)) : Prop := ∀ p, prev = some p → InSet dt p

theorem prevItems_inSet {elem : DType F} {lo hi : Nat} {prev : Option (PVal F)}
    (hp : PrevOK (.array elem lo hi) prev) : ∀ p ∈ prevItems prev, InSet elem p := by
  intro p hmem
  cases prev with
  | none => simp [prevItems] at hmem
  | some q =>
    have hq := hp q rfl
    cases q <;> simp only [InSet, InSetG] at hq <;> try exact hq.elim
    case tuple l =>
      simp only [prevItems] at hmem
      exact hq.1 p hmem

theorem prevFields_inSet {ms : List (String × DType F)} {opt : List String} {cl : Bool} {prev : Option (PVal F)}
    (hp : PrevOK (.struct ms opt cl) prev) :
    (∀ kv ∈ prevFields prev, MemberInG OnGrid ms kv.1 kv.2) ∧ ((prevFields prev).map (·.1)).Nodup := by
  cases prev with
  | none => simp [prevFields]
  | some q =>
    have hq := hp q rfl
    cases q <;> simp only [InSet, InSetG] at hq <;> try exact hq.elim
    case dict d =>
      simp only [prevFields]
      exact ⟨hq.1, hq.2.1⟩

mutual
theorem conv_sound : ∀ (dt : DType F) (v : PVal F) (prev : Option (PVal F)) (r : PVal F),
    dt.WF → PrevOK dt prev → conv .validate dt v prev = .ok r → InSet dt r
  | .double min max ar rr, v, prev, r, hwf, _, h => by
    simp only [conv] at h
    obtain ⟨x, hx, hr⟩ := map_ok h
    rw [hr]; exact doubleValidate_sound hwf hx
  | .int min max, v, prev, r, hwf, _, h => by
    simp only [conv] at h
    obtain ⟨x, hx, hr⟩ := map_ok h
    rw [hr]; exact intValidate_sound hx
  | .scaled scale min max ar rr, v, prev, r, hwf, _, h => by
    simp only [conv] at h
    obtain ⟨x, hx, hr⟩ := map_ok h
    rw [hr]; exact scaledValidate_sound hwf hx
  | .bool, v, prev, r, hwf, _, h => by
    simp only [conv] at h
    obtain ⟨x, hx, hr⟩ := map_ok h
    rw [hr]; simp only [InSet, InSetG]
  | .enum ms, v, prev, r, hwf, _, h => by
    simp only [conv] at h
    exact enumCall_sound h
  | .string minc maxc utf8, v, prev, r, hwf, _, h => by
    simp only [conv] at h
    obtain ⟨x, hx, hr⟩ := map_ok h
    rw [hr]; exact (stringCall_sound hx).1
  | .blob minb maxb, v, prev, r, hwf, _, h => by
    simp only [conv] at h
    obtain ⟨x, hx, hr⟩ := map_ok h
    rw [hr]; exact (blobCall_sound hx).1
  | .array elem lo hi, v, prev, r, hwf, hp, h => by
    simp only [conv] at h
    simp only [DType.WF] at hwf
    split at h
    · cases h
    · rename_i vs hvs
      split at h
      · cases h
      · split at h
        · cases h
        · obtain ⟨rs, hrs, hr⟩ := map_ok h
          have hrs := mapErr_ok hrs
          obtain ⟨h1, h2⟩ := mapPrev_ok (P := InSet elem) (Q := InSet elem)
            (fun v p r hq h => conv_sound elem v p r hwf.1 hq h) vs _ rs (prevItems_inSet hp) hrs
          rw [hr]; simp only [InSet, InSetG]
          exact ⟨h1, by omega, by omega⟩
  | .tuple elems, v, prev, r, hwf, hp, h => by
    simp only [DType.WF] at hwf
    cases prev with
    | some p =>
      simp only [conv] at h
      split at h
      · cases h
      · rename_i vs hvs
        split at h
        · cases h
        · rename_i hlen
          have hlen' : vs.length = elems.length := by simpa using hlen
          split at h
          · cases h
          · rename_i ps hps
            obtain ⟨rs, hrs, hr⟩ := map_ok h
            have hrs := mapErr_ok hrs
            have hq := hp p rfl
            have hzip : ZipInG OnGrid elems ps := by
              cases p <;> simp only [InSet, InSetG] at hq <;> try exact hq.elim
              all_goals simp only [seqItems?] at hps
              case tuple l => injection hps with hps; rw [← hps]; exact hq
            rw [hr]; simp only [InSet, InSetG]
            exact convTuple_sound elems vs (some ps) rs hwf.2 hlen' (fun l hl => by injection hl with hl; rw [← hl]; exact hzip) hrs
    | none =>
      simp only [conv] at h
      split at h
      · cases h
      · rename_i vs hvs
        split at h
        · cases h
        · rename_i hlen
          have hlen' : vs.length = elems.length := by simpa using hlen
          obtain ⟨rs, hrs, hr⟩ := map_ok h
          have hrs := mapErr_ok hrs
          rw [hr]; simp only [InSet, InSetG]
          exact convTuple_sound elems vs none rs hwf.2 hlen' (fun l hl => by cases hl) hrs
  | .struct ms opt cl, v, prev, r, hwf, hp, h => by
    simp only [conv] at h
    simp only [DType.WF] at hwf
    split at h
    · rename_i items
      split at h
      · rename_i hcheck
        obtain ⟨acc, hacc, hr⟩ := map_ok h
        have hacc := mapErr_ok hacc
        simp only [beq_self_eq_true, Bool.or_true] at hcheck hacc
        obtain ⟨a, b, c⟩ := foldFields_ok (M := fun k x => MemberInG OnGrid ms k x)
          (fun k v r hkv => convMember_sound ms k v r hwf.2.2.2 hkv) items _ acc hacc
        obtain ⟨p1, p2⟩ := prevFields_inSet hp
        rw [hr]; simp only [InSet, InSetG]
        refine ⟨a p1, b p2, ?_⟩
        intro k hk hno
        exact c k (Or.inr (structCheck_mandatory hcheck k hk hno))
      · cases h
    · cases h
theorem convTuple_sound : ∀ (ts : List (DType F)) (vs : List (PVal F)) (ps : Option (List (PVal F)))
    (rs : List (PVal F)), WFList ts → vs.length = ts.length → (∀ l, ps = some l → ZipInG OnGrid ts l) →
    convTuple .validate ts vs ps = .ok rs → ZipInG OnGrid ts rs
  | [], vs, ps, rs, _, _, _, h => by
    simp only [convTuple] at h
    injection h with h
    subst h
    simp only [ZipInG]
  | t :: ts, [], ps, rs, _, hlen, _, h => by simp at hlen
  | t :: ts, v :: vs, some [], rs, _, _, hps, h => by
    have := hps [] rfl
    simp only [ZipInG] at this
  | t :: ts, v :: vs, some (p :: ps), rs, hwf, hlen, hps, h => by
    simp only [convTuple] at h
    simp only [WFList] at hwf
    have hz := hps _ rfl
    simp only [ZipInG] at hz
    split at h
    · cases h
    · rename_i r hr
      split at h
      · cases h
      · rename_i rs' hrs
        injection h with h
        subst h
        simp only [ZipInG]
        refine ⟨conv_sound t v (some p) r hwf.1 (fun q hq => by injection hq with hq; rw [← hq]; exact hz.1) hr, ?_⟩
        exact convTuple_sound ts vs (some ps) rs' hwf.2 (by simpa using hlen)
          (fun l hl => by injection hl with hl; rw [← hl]; exact hz.2) hrs
  | t :: ts, v :: vs, none, rs, hwf, hlen, hps, h => by
    simp only [convTuple] at h
    simp only [WFList] at hwf
    split at h
    · cases h
    · rename_i r hr
      split at h
      · cases h
      · rename_i rs' hrs
        injection h with h
        subst h
        simp only [ZipInG]
        refine ⟨conv_sound t v none r hwf.1 (fun q hq => by cases hq) hr, ?_⟩
        exact convTuple_sound ts vs none rs' hwf.2 (by simpa using hlen) (fun l hl => by cases hl) hrs
theorem convMember_sound : ∀ (ms : List (String × DType F)) (k : String) (v r : PVal F),
    WFFields ms → convMember .validate ms k v = some (.ok r) → MemberInG OnGrid ms k r
  | [], k, v, r, _, h => by simp [convMember] at h
  | (k0, t) :: rest, k, v, r, hwf, h => by
    simp only [convMember] at h
    simp only [WFFields] at hwf
    simp only [MemberInG]
    split at h
    · rename_i hk
      rw [if_pos hk]
      injection h with h
      exact conv_sound t v none r hwf.1 (fun q hq => by cases hq) h
    · rename_i hk
      rw [if_neg hk]
      exact convMember_sound rest k v r hwf.2 h
end

end Frappy.Lemmas.C01
