import FrappyProofs.Lemmas.Persist
import FrappyModel.Small.PersistPlace
/- helper lemmas for the directory layer of C17 (`Small/PersistPlace`) -/
namespace Frappy.Persist

theorem tmpFile_ne : ∀ p : Path, tmpFile p ≠ p
  | [] => by simp [tmpFile]
  | [x] => by simp [tmpFile]
  | x :: y :: r => by
    intro h
    have : tmpFile (y :: r) = y :: r := by simpa [tmpFile] using h
    exact tmpFile_ne (y :: r) this

theorem parentDir_tmpFile : ∀ p : Path, parentDir (tmpFile p) = parentDir p
  | [] => by simp [tmpFile, parentDir]
  | [x] => by simp [tmpFile, parentDir]
  | x :: y :: r => by
    have ih := parentDir_tmpFile (y :: r)
    have hne : tmpFile (y :: r) ≠ [] := by
      cases r <;> simp [tmpFile]
    obtain ⟨a, b, hab⟩ := List.exists_cons_of_ne_nil hne
    simp only [parentDir, tmpFile] at ih ⊢
    rw [hab] at ih ⊢
    simp [List.dropLast] at ih ⊢
    exact ih

theorem mem_prefixes_self : ∀ d : Path, d ∈ prefixes d
  | [] => by simp [prefixes]
  | x :: r => by
    simp only [prefixes, List.mem_cons, List.mem_map]
    exact Or.inr ⟨r, mem_prefixes_self r, rfl⟩

theorem nil_mem_prefixes (d : Path) : [] ∈ prefixes d := by
  cases d <;> simp [prefixes]

theorem mem_ensureDir (ds : List Path) (d : Path) : d ∈ ensureDir ds d := by
  unfold ensureDir
  split
  · assumption
  · exact List.mem_append_right _ (mem_prefixes_self d)

theorem subset_ensureDir (ds : List Path) (d : Path) : ∀ x ∈ ds, x ∈ ensureDir ds d := by
  intro x hx
  unfold ensureDir
  split
  · exact hx
  · exact List.mem_append_left _ hx

/-- with the parent of the file in place the directories play no role -/
theorem saveRunAt_of_mem {ds : List Path} {tgt : Path} (h : parentDir tgt ∈ ds) (chunks : List Bytes)
    (fault : Option Fault) : saveRunAt ds tgt (tmpFile tgt) chunks fault = saveRun tgt (tmpFile tgt) chunks fault := by
  simp [saveRunAt, parentDir_tmpFile, h]

/-- without it the call is the call whose `open` fails -/
theorem saveRunAt_of_not_mem {ds : List Path} {tgt : Path} (h : parentDir tgt ∉ ds) (chunks : List Bytes)
    (fault : Option Fault) :
    saveRunAt ds tgt (tmpFile tgt) chunks fault = saveRun tgt (tmpFile tgt) chunks (some noDirFault) := by
  simp [saveRunAt, parentDir_tmpFile, h]

end Frappy.Persist
