import FrappyProofs.Lemmas.DatatypesLeaf
/-
Helper lemmas for C01: dicts as association lists, the container loops.
-/
set_option linter.unusedSectionVars false
set_option linter.unusedVariables false
namespace Frappy.Lemmas.C01
open FloatOps DType Frappy.Datatypes Frappy.Spec.C01
open PVal (toFloat? seqItems? prevItems prevFields dictGet dictSet)

variable {F : Type} [FloatOps F]

/-! ### `Except` plumbing -/

theorem map_ok {α β : Type} {f : α → β} {e : Except Err α} {b : β} (h : e.map f = .ok b) :
    ∃ a, e = .ok a ∧ b = f a := by
  cases e with
  | error x => cases h
  | ok a => exact ⟨a, rfl, by injection h with h; exact h.symm⟩

theorem mapErr_ok {α : Type} {g : Err → Err} {e : Except Err α} {a : α} (h : mapErr g e = .ok a) : e = .ok a := by
  cases e with
  | error x => cases h
  | ok b => simpa [mapErr] using h

theorem wrapErr_ne_other (e : Err) (c : String) : wrapErr e ≠ .other c := by
  cases e <;> simp [wrapErr]

/-! ### association lists -/

section dict
variable {α : Type}

theorem mem_dictSet {d : List (String × α)} {k : String} {v : α} {kv : String × α}
    (h : kv ∈ dictSet d k v) : kv = (k, v) ∨ kv ∈ d := by
  induction d with
  | nil => simp [dictSet] at h; exact Or.inl h
  | cons hd tl ih =>
    obtain ⟨k', v'⟩ := hd
    simp only [dictSet] at h
    split at h
    · rename_i hk
      rcases List.mem_cons.1 h with h | h
      · left; rw [h, hk]
      · right; exact List.mem_cons_of_mem _ h
    · rcases List.mem_cons.1 h with h | h
      · right; rw [h]; exact List.mem_cons_self
      · rcases ih h with h | h
        · left; exact h
        · right; exact List.mem_cons_of_mem _ h

theorem mem_keys_dictSet {d : List (String × α)} {k : String} {v : α} {k' : String} :
    k' ∈ (dictSet d k v).map (·.1) ↔ k' = k ∨ k' ∈ d.map (·.1) := by
  induction d with
  | nil => simp [dictSet]
  | cons hd tl ih =>
    obtain ⟨k0, v0⟩ := hd
    simp only [dictSet]
    split
    · rename_i hk
      subst hk
      simp only [List.map_cons, List.mem_cons]
      constructor
      · intro h; exact Or.inr h
      · intro h; rcases h with h | h
        · exact Or.inl h
        · exact h
    · simp only [List.map_cons, List.mem_cons, ih]
      constructor
      · intro h; rcases h with h | h | h
        · exact Or.inr (Or.inl h)
        · exact Or.inl h
        · exact Or.inr (Or.inr h)
      · intro h; rcases h with h | h | h
        · exact Or.inr (Or.inl h)
        · exact Or.inl h
        · exact Or.inr (Or.inr h)

theorem nodup_dictSet {d : List (String × α)} {k : String} {v : α} (h : (d.map (·.1)).Nodup) :
    ((dictSet d k v).map (·.1)).Nodup := by
  induction d with
  | nil => simp [dictSet]
  | cons hd tl ih =>
    obtain ⟨k0, v0⟩ := hd
    simp only [List.map_cons, List.nodup_cons] at h
    simp only [dictSet]
    split
    · simpa only [List.map_cons, List.nodup_cons] using h
    · rename_i hk
      simp only [List.map_cons, List.nodup_cons]
      refine ⟨?_, ih h.2⟩
      intro hm
      rcases mem_keys_dictSet.1 hm with e | e
      · exact hk e
      · exact h.1 e

end dict

/-! ### the loops -/

theorem mapPrev_ok {f : PVal F → Option (PVal F) → Res F} {P Q : PVal F → Prop}
    (hf : ∀ v p r, (∀ q, p = some q → Q q) → f v p = .ok r → P r) :
    ∀ (vs ps rs : List (PVal F)), (∀ p ∈ ps, Q p) → mapPrev f vs ps = .ok rs →
      (∀ r ∈ rs, P r) ∧ rs.length = vs.length := by
  intro vs
  induction vs with
  | nil => intro ps rs _ h; simp [mapPrev] at h; subst h; simp
  | cons v vs ih =>
    intro ps rs hq h
    simp only [mapPrev] at h
    split at h
    · cases h
    · rename_i r hr
      split at h
      · cases h
      · rename_i rs' hrs
        injection h with h
        subst h
        have hq' : ∀ p ∈ ps.tail, Q p := fun p hp => hq p (List.mem_of_mem_tail hp)
        obtain ⟨h1, h2⟩ := ih ps.tail rs' hq' hrs
        have hhead : ∀ q, ps.head? = some q → Q q := by
          intro q hq0
          exact hq q (List.mem_of_head? hq0)
        refine ⟨?_, by simp [h2]⟩
        intro x hx
        rcases List.mem_cons.1 hx with e | e
        · rw [e]; exact hf v _ r hhead hr
        · exact h1 x e

theorem foldFields_ok {f : String → PVal F → Option (Res F)} {M : String → PVal F → Prop}
    (hf : ∀ k v r, f k v = some (.ok r) → M k r) :
    ∀ (items acc res : List (String × PVal F)), foldFields f items acc = .ok res →
      ((∀ kv ∈ acc, M kv.1 kv.2) → ∀ kv ∈ res, M kv.1 kv.2) ∧
      ((acc.map (·.1)).Nodup → (res.map (·.1)).Nodup) ∧
      (∀ k, (k ∈ acc.map (·.1) ∨ k ∈ givenKeys items) → k ∈ res.map (·.1)) := by
  intro items
  induction items with
  | nil =>
    intro acc res h
    simp only [foldFields] at h
    injection h with h
    subst h
    refine ⟨fun h => h, fun h => h, ?_⟩
    intro k hk
    rcases hk with hk | hk
    · exact hk
    · simp [givenKeys] at hk
  | cons hd tl ih =>
    intro acc res h
    obtain ⟨k0, v0⟩ := hd
    cases v0
    case none =>
      simp only [foldFields] at h
      obtain ⟨a, b, c⟩ := ih acc res h
      exact ⟨a, b, fun k hk => c k (by simpa [givenKeys] using hk)⟩
    all_goals
      simp only [foldFields] at h
      split at h
      · cases h
      · cases h
      · rename_i r hr
        obtain ⟨a, b, c⟩ := ih _ res h
        refine ⟨?_, ?_, ?_⟩
        · intro hacc
          apply a
          intro kv hkv
          rcases mem_dictSet hkv with e | e
          · rw [e]; exact hf _ _ _ hr
          · exact hacc kv e
        · intro hn; exact b (nodup_dictSet hn)
        · intro k hk
          apply c
          rcases hk with hk | hk
          · exact Or.inl (mem_keys_dictSet.2 (Or.inr hk))
          · simp only [givenKeys, List.mem_cons] at hk
            rcases hk with hk | hk
            · exact Or.inl (mem_keys_dictSet.2 (Or.inl hk))
            · exact Or.inr hk

/-- `structCheck` guarantees the mandatory members among the given keys -/
theorem structCheck_mandatory {names opt : List String} {allow : Bool} {items : List (String × PVal F)}
    (h : structCheck names opt allow items = true) :
    ∀ k ∈ names, k ∉ opt → k ∈ givenKeys items := by
  intro k hk hno
  unfold structCheck at h
  simp only [Bool.and_eq_true, List.all_eq_true] at h
  have := h.2 k hk
  simp only [Bool.or_eq_true, List.contains_eq_mem, decide_eq_true_eq, Bool.and_eq_true] at this
  rcases this with h1 | h1
  · exact h1
  · exact absurd h1.2 hno

end Frappy.Lemmas.C01
