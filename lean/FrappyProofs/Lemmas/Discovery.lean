import FrappyModel.Spec.C19
import FrappyModel.Generated.C19
namespace Frappy.Discovery

end Frappy.Discovery
