import FrappyModel.Spec.C19
import FrappyModel.Small.DiscoveryTables
/-
Helper lemmas for C19: sizes of the UTF-8 / JSON encodings, the description loop `fit`,
the length of a message, and the round trip through the Spec's readers.
-/
namespace Frappy.Discovery
open Frappy.Spec.C19

/-! ## sizes -/

theorem utf8_append (a b : Str) : utf8 (a ++ b) = utf8 a ++ utf8 b := by
  simp [utf8]

theorem utf8_cons (c : Char) (s : Str) : utf8 (c :: s) = utf8Char c ++ utf8 s := by
  simp [utf8]

@[simp] theorem utf8_nil : utf8 [] = [] := rfl

/-- bytes of the UTF-8 encoding of one character -/
theorem utf8Char_length (c : Char) :
    (utf8Char c).length = if c.toNat < 0x80 then 1 else if c.toNat < 0x800 then 2 else if c.toNat < 0x10000 then 3 else 4 := by
  unfold utf8Char; split
  · rfl
  · split
    · rfl
    · split <;> rfl

theorem hexDigit_ascii : ∀ k, k < 16 → (hexDigit k).toNat < 0x80 := by decide

theorem utf8Char_hexDigit_length (k : Nat) (h : k < 16) : (utf8Char (hexDigit k)).length = 1 := by
  rw [utf8Char_length, if_pos (hexDigit_ascii k h)]

/-- the model's `len(json.dumps(char).encode()) - 2` is the Spec's `charSize` -/
theorem escLen_eq_charSize (c : Char) : escLen c = charSize c := by
  unfold escLen escapeChar charSize
  by_cases h1 : c = '"'
  · subst h1; decide
  by_cases h2 : c = '\\'
  · subst h2; decide
  by_cases h3 : c = '\n'
  · subst h3; decide
  by_cases h4 : c = '\r'
  · subst h4; decide
  by_cases h5 : c = '\t'
  · subst h5; decide
  by_cases h6 : c = Char.ofNat 8
  · subst h6; decide
  by_cases h7 : c = Char.ofNat 12
  · subst h7; decide
  simp only [h1, h2, h3, h4, h5, h6, h7, if_false, or_self]
  by_cases h8 : c.toNat < 0x20
  · simp only [h8, if_true]
    have ha : c.toNat / 16 < 16 := by omega
    have hb : c.toNat % 16 < 16 := by omega
    simp only [utf8_cons, utf8_nil, List.length_append, utf8Char_hexDigit_length _ ha, utf8Char_hexDigit_length _ hb]
    have e1 : (utf8Char '\\').length = 1 := by decide
    have e2 : (utf8Char 'u').length = 1 := by decide
    have e3 : (utf8Char '0').length = 1 := by decide
    simp only [e1, e2, e3, List.length_nil]
  · simp only [h8, if_false, utf8_cons, utf8_nil, List.append_nil, utf8Char_length]

theorem utf8_escape_length : ∀ s : Str, (utf8 (escape s)).length = strSize s
  | [] => rfl
  | c :: s => by
    have := escLen_eq_charSize c
    unfold escLen at this
    simp only [escape, List.flatMap_cons, utf8_append, List.length_append, strSize]
    rw [this]; congr 1; exact utf8_escape_length s

theorem utf8_jsonStr_length (s : Str) : (utf8 (jsonStr s)).length = strSize s + 2 := by
  have : (utf8Char '"').length = 1 := by decide
  simp only [jsonStr, utf8_cons, utf8_append, List.length_append, utf8_escape_length, utf8_nil, List.length_nil, this]
  omega

theorem strSize_append : ∀ a b : Str, strSize (a ++ b) = strSize a + strSize b
  | [], b => by simp [strSize]
  | c :: a, b => by simp [strSize, strSize_append a b]; omega

/-! ## decimal numbers -/

theorem decimalFuel_length_le : ∀ (k f n : Nat), n < 10 ^ (k + 1) → (decimalFuel f n).length ≤ k + 1
  | _, 0, _, _ => by simp [decimalFuel]
  | 0, f + 1, n, h => by
    have : n < 10 := by simpa using h
    simp [decimalFuel, this]
  | k + 1, f + 1, n, h => by
    unfold decimalFuel; split
    · simp
    · have : n / 10 < 10 ^ (k + 1) := by
        rw [Nat.pow_succ] at h; omega
      have := decimalFuel_length_le k f (n / 10) this
      simp; omega

theorem digit_ascii (n : Nat) (h : n < 10) : (Char.ofNat (48 + n)).toNat = 48 + n := by
  have : ∀ n, n < 10 → (Char.ofNat (48 + n)).toNat = 48 + n := by decide
  exact this n h

theorem utf8_decimalFuel_length : ∀ (f n : Nat), (utf8 (decimalFuel f n)).length = (decimalFuel f n).length
  | 0, _ => by simp [decimalFuel]
  | f + 1, n => by
    unfold decimalFuel; split
    · rename_i h
      simp only [utf8_cons, utf8_nil, List.append_nil, List.length_singleton, utf8Char_length, digit_ascii n h]
      rw [if_pos (by omega)]
    · have h : n % 10 < 10 := by omega
      simp only [utf8_append, utf8_cons, utf8_nil, List.length_append, utf8_decimalFuel_length f (n / 10),
        List.append_nil, List.length_singleton, utf8Char_length, digit_ascii _ h]
      rw [if_pos (by omega)]

/-- a port number of at most 65535 takes at most five bytes -/
theorem utf8_decimal_length_le (p : Nat) (h : p ≤ 65535) : (utf8 (decimal p)).length ≤ 5 := by
  unfold decimal
  rw [utf8_decimalFuel_length]
  exact decimalFuel_length_le 4 _ p (by omega)

/-! ## the description loop -/

theorem fit_prefix : ∀ (a : Nat) (s : Str), fit a s <+: s
  | _, [] => by simp [fit]
  | a, c :: s => by
    unfold fit; split
    · exact List.prefix_cons_inj c |>.2 (fit_prefix _ s)
    · exact List.nil_prefix

theorem strSize_fit_le : ∀ (a : Nat) (s : Str), strSize (fit a s) ≤ a
  | _, [] => by simp [fit, strSize]
  | a, c :: s => by
    unfold fit; split
    · rename_i h
      have := strSize_fit_le (a - escLen c) s
      simp only [escLen_eq_charSize] at *
      simp only [strSize]; omega
    · simp [strSize]

theorem fit_eq_self : ∀ (a : Nat) (s : Str), strSize s ≤ a → fit a s = s
  | _, [], _ => by simp [fit]
  | a, c :: s, h => by
    simp only [strSize] at h
    unfold fit
    rw [if_pos (by rw [escLen_eq_charSize]; omega), fit_eq_self _ s (by rw [escLen_eq_charSize]; omega)]

theorem fit_maximal : ∀ (a : Nat) (s : Str), fit a s = s ∨ a < strSize (s.take ((fit a s).length + 1))
  | _, [] => by simp [fit]
  | a, c :: s => by
    unfold fit; split
    · rename_i h
      rcases fit_maximal (a - escLen c) s with h' | h'
      · left; rw [h']
      · right
        simp only [escLen_eq_charSize] at *
        simp only [List.length_cons, List.take_succ_cons, strSize]; omega
    · rename_i h
      right
      rw [escLen_eq_charSize] at h
      simp only [List.length_nil, Nat.zero_add, List.take_succ_cons, List.take_zero, strSize]; omega

/-! ## length of a message built with the generated constants -/

theorem gen_maxLen : generatedTables.maxLen = 508 := by decide
theorem gen_budgetPort : generatedTables.budgetPort = 65535 := by decide
theorem gen_fw (version : Str) : generatedTables.fwPrefix ++ version = firmwareOf version := rfl

theorem utf8_decimal_budgetPort : (utf8 (decimal 65535)).length = 5 := by decide

theorem message_length (id fw d : Str) (p : Nat) :
    (message generatedTables id fw d p).length =
      73 + (utf8 (decimal p)).length + strSize id + strSize fw + strSize d := by
  have s0 : (utf8 generatedTables.seg0).length = 23 := by decide
  have s1 : (utf8 generatedTables.seg1).length = 16 := by decide
  have s2 : (utf8 generatedTables.seg2).length = 12 := by decide
  have s3 : (utf8 generatedTables.seg3).length = 15 := by decide
  have s4 : (utf8 generatedTables.seg4).length = 1 := by decide
  simp only [message, messageText, utf8_append, List.length_append, utf8_jsonStr_length, s0, s1, s2, s3, s4]
  omega

theorem baseLen_eq (id fw : Str) : baseLen generatedTables id fw = 78 + strSize id + strSize fw := by
  unfold baseLen
  rw [message_length, gen_budgetPort, utf8_decimal_budgetPort]
  simp [strSize]

/-! ## UTF-8: the Spec's decoder inverts the model's encoder -/

theorem char_valid (c : Char) : c.toNat < 0xD800 ∨ (0xDFFF < c.toNat ∧ c.toNat < 0x110000) := by
  have := c.valid
  simp only [UInt32.isValidChar, Nat.isValidChar] at this
  exact this

theorem ofNat_toNat (c : Char) : Char.ofNat c.toNat = c := by
  simp

theorem dec_ascii (b : Nat) (r : Bytes) (h : b < 0x80) :
    utf8DecodeFrom 0 0 0 (b :: r) = pushChar (Char.ofNat b) (utf8DecodeFrom 0 0 0 r) := by
  rw [utf8DecodeFrom, if_pos h]

theorem dec_lead2 (b : Nat) (r : Bytes) (h1 : 0xC2 ≤ b) (h2 : b < 0xE0) :
    utf8DecodeFrom 0 0 0 (b :: r) = utf8DecodeFrom 1 (b - 0xC0) 0x80 r := by
  rw [utf8DecodeFrom, if_neg (by omega), if_neg (by omega), if_pos h2]

theorem dec_lead3 (b : Nat) (r : Bytes) (h1 : 0xE0 ≤ b) (h2 : b < 0xF0) :
    utf8DecodeFrom 0 0 0 (b :: r) = utf8DecodeFrom 2 (b - 0xE0) 0x800 r := by
  rw [utf8DecodeFrom, if_neg (by omega), if_neg (by omega), if_neg (by omega), if_pos h2]

theorem dec_lead4 (b : Nat) (r : Bytes) (h1 : 0xF0 ≤ b) (h2 : b < 0xF5) :
    utf8DecodeFrom 0 0 0 (b :: r) = utf8DecodeFrom 3 (b - 0xF0) 0x10000 r := by
  rw [utf8DecodeFrom, if_neg (by omega), if_neg (by omega), if_neg (by omega), if_neg (by omega), if_pos h2]

theorem isCont_of (b : Nat) (h1 : 0x80 ≤ b) (h2 : b < 0xC0) : isCont b = true := by
  simp [isCont, h1, h2]

theorem dec_cont (k acc lo b : Nat) (r : Bytes) (h1 : 0x80 ≤ b) (h2 : b < 0xC0) :
    utf8DecodeFrom (k + 2) acc lo (b :: r) = utf8DecodeFrom (k + 1) (acc * 64 + (b - 0x80)) lo r := by
  rw [utf8DecodeFrom, if_pos (isCont_of b h1 h2), if_neg (by omega)]

theorem dec_last (acc lo b : Nat) (r : Bytes) (h1 : 0x80 ≤ b) (h2 : b < 0xC0)
    (hv : validScalar lo (acc * 64 + (b - 0x80)) = true) :
    utf8DecodeFrom 1 acc lo (b :: r) = pushChar (Char.ofNat (acc * 64 + (b - 0x80))) (utf8DecodeFrom 0 0 0 r) := by
  rw [utf8DecodeFrom, if_pos (isCont_of b h1 h2), if_pos rfl, if_pos hv]

theorem validScalar_of (lo v : Nat) (h1 : lo ≤ v) (h2 : v < 0xD800 ∨ (0xDFFF < v ∧ v < 0x110000)) :
    validScalar lo v = true := by
  simp only [validScalar, Bool.and_eq_true, decide_eq_true_eq, Bool.not_eq_true', Bool.and_eq_false_iff,
    decide_eq_false_iff_not]
  omega

theorem utf8DecodeFrom_char (c : Char) (r : Bytes) :
    utf8DecodeFrom 0 0 0 (utf8Char c ++ r) = pushChar c (utf8DecodeFrom 0 0 0 r) := by
  have hv := char_valid c
  unfold utf8Char
  split
  · rename_i h
    simp only [List.cons_append, List.nil_append]
    rw [dec_ascii _ _ h, ofNat_toNat]
  · split
    · rename_i h1 h2
      simp only [List.cons_append, List.nil_append]
      rw [dec_lead2 _ _ (by omega) (by omega), dec_last _ _ _ _ (by omega) (by omega) (validScalar_of _ _ (by omega) (by omega))]
      have : (0xC0 + c.toNat / 64 - 0xC0) * 64 + (0x80 + c.toNat % 64 - 0x80) = c.toNat := by omega
      rw [this, ofNat_toNat]
    · split
      · rename_i h1 h2 h3
        simp only [List.cons_append, List.nil_append]
        rw [dec_lead3 _ _ (by omega) (by omega), dec_cont _ _ _ _ _ (by omega) (by omega),
          dec_last _ _ _ _ (by omega) (by omega) (validScalar_of _ _ (by omega) (by omega))]
        have : ((0xE0 + c.toNat / 4096 - 0xE0) * 64 + (0x80 + c.toNat / 64 % 64 - 0x80)) * 64 + (0x80 + c.toNat % 64 - 0x80) = c.toNat := by omega
        rw [this, ofNat_toNat]
      · rename_i h1 h2 h3
        simp only [List.cons_append, List.nil_append]
        rw [dec_lead4 _ _ (by omega) (by omega), dec_cont _ _ _ _ _ (by omega) (by omega), dec_cont _ _ _ _ _ (by omega) (by omega),
          dec_last _ _ _ _ (by omega) (by omega) (validScalar_of _ _ (by omega) (by omega))]
        have : (((0xF0 + c.toNat / 262144 - 0xF0) * 64 + (0x80 + c.toNat / 4096 % 64 - 0x80)) * 64 + (0x80 + c.toNat / 64 % 64 - 0x80)) * 64 + (0x80 + c.toNat % 64 - 0x80) = c.toNat := by omega
        rw [this, ofNat_toNat]

theorem utf8Decode_utf8 : ∀ s : Str, utf8Decode (utf8 s) = some s
  | [] => rfl
  | c :: s => by
    have ih := utf8Decode_utf8 s
    unfold utf8Decode at ih ⊢
    rw [utf8_cons, utf8DecodeFrom_char, ih]; rfl

/-! ## JSON strings: the Spec's reader inverts the model's escaping -/

theorem hexVal_hexDigit : ∀ k, k < 16 → hexVal (hexDigit k) = some k := by decide

theorem readStr_plain_cons (c : Char) (r : Str) (h1 : c ≠ '"') (h2 : c ≠ '\\') (h3 : ¬ c.toNat < 0x20) :
    readStrBody .plain (c :: r) = pushRes c (readStrBody .plain r) := by
  rw [readStrBody, if_neg h1, if_neg h2, if_neg h3]

theorem readStr_short (e ch : Char) (r : Str) (he : e ≠ 'u') (hu : unescape e = some ch) :
    readStrBody .plain ('\\' :: e :: r) = pushRes ch (readStrBody .plain r) := by
  rw [readStrBody, if_neg (by decide), if_pos rfl, readStrBody, if_neg he, hu]

theorem readStr_hex (a b : Nat) (r : Str) (ha : a < 2) (hb : b < 16) :
    readStrBody .plain ('\\' :: 'u' :: '0' :: '0' :: hexDigit a :: hexDigit b :: r)
      = pushRes (Char.ofNat (a * 16 + b)) (readStrBody .plain r) := by
  have h0 : hexVal '0' = some 0 := by decide
  rw [readStrBody, if_neg (by decide), if_pos rfl, readStrBody, if_pos rfl]
  rw [readStrBody, h0]; simp only
  rw [if_neg (by decide), readStrBody, h0]; simp only
  rw [if_neg (by decide), readStrBody, hexVal_hexDigit a (by omega)]; simp only
  rw [if_neg (by decide), readStrBody, hexVal_hexDigit b hb]; simp only
  rw [if_pos trivial, if_neg (by omega)]
  congr 2; omega

theorem readStr_escapeChar (c : Char) (r : Str) :
    readStrBody .plain (escapeChar c ++ r) = pushRes c (readStrBody .plain r) := by
  unfold escapeChar
  by_cases h1 : c = '"'
  · subst h1; exact readStr_short _ _ _ (by decide) (by decide)
  by_cases h2 : c = '\\'
  · subst h2; exact readStr_short _ _ _ (by decide) (by decide)
  by_cases h3 : c = '\n'
  · subst h3; exact readStr_short _ _ _ (by decide) (by decide)
  by_cases h4 : c = '\r'
  · subst h4; exact readStr_short _ _ _ (by decide) (by decide)
  by_cases h5 : c = '\t'
  · subst h5; exact readStr_short _ _ _ (by decide) (by decide)
  by_cases h6 : c = Char.ofNat 8
  · subst h6; exact readStr_short _ _ _ (by decide) (by decide)
  by_cases h7 : c = Char.ofNat 12
  · subst h7; exact readStr_short _ _ _ (by decide) (by decide)
  simp only [h1, h2, h3, h4, h5, h6, h7, if_false]
  by_cases h8 : c.toNat < 0x20
  · simp only [h8, if_true, List.cons_append, List.nil_append]
    rw [readStr_hex _ _ _ (by omega) (by omega)]
    have : c.toNat / 16 * 16 + c.toNat % 16 = c.toNat := by omega
    rw [this, ofNat_toNat]
  · simp only [h8, if_false, List.cons_append, List.nil_append]
    exact readStr_plain_cons c r h1 h2 h8

theorem readStr_escape : ∀ (s r : Str), readStrBody .plain (escape s ++ '"' :: r) = some (s, r)
  | [], r => by simp [escape, readStrBody]
  | c :: s, r => by
    have ih := readStr_escape s r
    simp only [escape, List.flatMap_cons, List.append_assoc] at ih ⊢
    rw [readStr_escapeChar, ih]; rfl

/-! ## numbers -/

theorem isDigit_digit : ∀ n, n < 10 → isDigit (Char.ofNat (48 + n)) = true := by decide
theorem digit_val : ∀ n, n < 10 → (Char.ofNat (48 + n)).toNat - '0'.toNat = n := by decide
theorem digit_ne_zero : ∀ n, n < 10 → 0 < n → Char.ofNat (48 + n) ≠ '0' := by decide
theorem digit_ne_quote (c : Char) (h : isDigit c = true) : c ≠ '"' := by
  intro hc; subst hc; revert h; decide

def digitsVal (acc : Nat) (ds : Str) : Nat := ds.foldl (fun a c => a * 10 + (c.toNat - '0'.toNat)) acc

theorem readDigits_append : ∀ (ds : Str) (acc : Nat) (r : Str), (∀ c ∈ ds, isDigit c = true) →
    readDigits acc (ds ++ r) = readDigits (digitsVal acc ds) r
  | [], _, _, _ => rfl
  | d :: ds, acc, r, h => by
    have hd : isDigit d = true := h d (by simp)
    simp only [List.cons_append, readDigits, hd, if_true]
    rw [readDigits_append ds _ r (fun c hc => h c (by simp [hc]))]
    rfl

theorem readDigits_stop (acc : Nat) (r : Str) (h : startsWithDigit r = false) : readDigits acc r = (acc, r) := by
  cases r with
  | nil => rfl
  | cons c r => simp only [startsWithDigit] at h; simp [readDigits, h]

theorem decimalFuel_digits : ∀ (f n : Nat), ∀ c ∈ decimalFuel f n, isDigit c = true
  | 0, _ => by simp [decimalFuel]
  | f + 1, n => by
    unfold decimalFuel; split
    · rename_i h; intro c hc; simp at hc; subst hc; exact isDigit_digit n h
    · intro c hc
      simp only [List.mem_append, List.mem_singleton] at hc
      rcases hc with hc | hc
      · exact decimalFuel_digits f _ c hc
      · subst hc; exact isDigit_digit _ (by omega)

theorem digitsVal_append_single (acc : Nat) (ds : Str) (c : Char) :
    digitsVal acc (ds ++ [c]) = digitsVal acc ds * 10 + (c.toNat - '0'.toNat) := by
  simp [digitsVal, List.foldl_append]

theorem digitsVal_decimalFuel : ∀ (f n : Nat), n < f → digitsVal 0 (decimalFuel f n) = n
  | 0, _, h => by omega
  | f + 1, n, h => by
    unfold decimalFuel; split
    · rename_i h10
      simp only [digitsVal, List.foldl_cons, List.foldl_nil, digit_val n h10]; omega
    · rw [digitsVal_append_single, digitsVal_decimalFuel f (n / 10) (by omega), digit_val _ (by omega)]
      omega

theorem decimalFuel_head : ∀ (f n : Nat), 0 < n → n < f → ∃ c cs, decimalFuel f n = c :: cs ∧ c ≠ '0'
  | 0, _, _, h => by omega
  | f + 1, n, h0, h => by
    unfold decimalFuel; split
    · rename_i h10; exact ⟨_, [], rfl, digit_ne_zero n h10 h0⟩
    · obtain ⟨c, cs, e, hc⟩ := decimalFuel_head f (n / 10) (by omega) (by omega)
      exact ⟨c, cs ++ [Char.ofNat (48 + n % 10)], by rw [e]; rfl, hc⟩

theorem decimal_ne_nil (p : Nat) : ∃ c cs, decimal p = c :: cs ∧ isDigit c = true ∧ (c = '0' → cs = [] ) := by
  by_cases h : p = 0
  · subst h; exact ⟨'0', [], by decide, by decide, fun _ => rfl⟩
  · obtain ⟨c, cs, e, hc⟩ := decimalFuel_head (p + 1) p (by omega) (by omega)
    refine ⟨c, cs, e, ?_, fun h0 => absurd h0 hc⟩
    exact decimalFuel_digits (p + 1) p c (by rw [e]; simp)

theorem readNat_decimal (p : Nat) (r : Str) (hr : startsWithDigit r = false) :
    readNat (decimal p ++ r) = some (p, r) := by
  obtain ⟨c, cs, e, hd, h0⟩ := decimal_ne_nil p
  have hall : ∀ x ∈ decimal p, isDigit x = true := decimalFuel_digits (p + 1) p
  have hval : digitsVal 0 (decimal p) = p := digitsVal_decimalFuel (p + 1) p (by omega)
  have key : readDigits 0 (decimal p ++ r) = (p, r) := by
    rw [readDigits_append _ _ _ hall, hval, readDigits_stop _ _ hr]
  rw [e] at key ⊢
  simp only [List.cons_append] at key ⊢
  rw [readNat, if_neg (by simp [hd])]
  rw [if_neg, key]
  rintro ⟨hc, hs⟩
  rw [h0 hc] at hs
  simp [hr] at hs

/-! ## members -/

theorem readValue_jsonStr (v r : Str) : readValue (jsonStr v ++ r) = some (.str v, r) := by
  simp only [jsonStr, List.cons_append, List.append_assoc, List.nil_append]
  rw [readValue, if_pos rfl, readStr_escape]

theorem readValue_decimal (p : Nat) (r : Str) (hr : startsWithDigit r = false) :
    readValue (decimal p ++ r) = some (.num p, r) := by
  have := readNat_decimal p r hr
  obtain ⟨c, cs, e, hd, _⟩ := decimal_ne_nil p
  rw [e] at this ⊢
  simp only [List.cons_append] at this ⊢
  rw [readValue, if_neg (digit_ne_quote c hd), this]

theorem readMembers_step (f : Nat) (k X : Str) (v : Val) (sep : Char) (r2 : Str)
    (hX : readValue X = some (v, sep :: r2)) :
    readMembers (f + 1) (jsonStr k ++ ':' :: X) =
      if sep = ',' then consMember (k, v) (readMembers f r2)
      else if sep = '}' ∧ r2 = [] then some [(k, v)] else none := by
  simp only [jsonStr, List.cons_append, List.append_assoc, List.nil_append]
  rw [readMembers, if_pos rfl, readStr_escape]
  simp only [if_true, hX]


/-! ## the whole message, read back -/

theorem seg0_eq : generatedTables.seg0 = '{' :: (jsonStr kSECoP ++ ':' :: (jsonStr wNode ++ ',' :: (jsonStr kPort ++ [':']))) := by decide
theorem seg1_eq : generatedTables.seg1 = ',' :: (jsonStr kId ++ [':']) := by decide
theorem seg2_eq : generatedTables.seg2 = ',' :: (jsonStr kFirmware ++ [':']) := by decide
theorem seg3_eq : generatedTables.seg3 = ',' :: (jsonStr kDescription ++ [':']) := by decide
theorem seg4_eq : generatedTables.seg4 = ['}'] := by decide

theorem messageText_eq (id fw d : Str) (p : Nat) :
    messageText generatedTables id fw d p =
      '{' :: (jsonStr kSECoP ++ ':' :: (jsonStr wNode ++ ',' :: (jsonStr kPort ++ ':' :: (decimal p ++ ',' ::
        (jsonStr kId ++ ':' :: (jsonStr id ++ ',' :: (jsonStr kFirmware ++ ':' :: (jsonStr fw ++ ',' ::
          (jsonStr kDescription ++ ':' :: (jsonStr d ++ ['}'])))))))))) := by
  simp only [messageText, seg0_eq, seg1_eq, seg2_eq, seg3_eq, seg4_eq, List.append_assoc, List.cons_append,
    List.nil_append]

theorem readObject_of_members (R : Str) (ms : List (Str × Val)) (h1 : R ≠ ['}'])
    (h2 : ∀ f, readMembers (f + 5) R = some ms) (h3 : 5 ≤ R.length) : readObject ('{' :: R) = some ms := by
  rw [readObject, if_pos rfl, if_neg h1]
  obtain ⟨f, hf⟩ : ∃ f, R.length = f + 5 := ⟨R.length - 5, by omega⟩
  rw [hf, h2]

theorem readObject_messageText (id fw d : Str) (p : Nat) :
    readObject (messageText generatedTables id fw d p) =
      some [(kSECoP, .str wNode), (kPort, .num p), (kId, .str id), (kFirmware, .str fw), (kDescription, .str d)] := by
  rw [messageText_eq]
  apply readObject_of_members
  · simp [jsonStr]
  · intro f
    rw [readMembers_step _ _ _ _ _ _ (readValue_jsonStr _ _), if_pos rfl]
    rw [readMembers_step _ _ _ _ _ _ (readValue_decimal _ _ (by rfl)), if_pos rfl]
    rw [readMembers_step _ _ _ _ _ _ (readValue_jsonStr _ _), if_pos rfl]
    rw [readMembers_step _ _ _ _ _ _ (readValue_jsonStr _ _), if_pos rfl]
    rw [readMembers_step _ _ _ _ _ _ (readValue_jsonStr _ _), if_neg (by decide), if_pos ⟨rfl, rfl⟩]
    rfl
  · simp only [List.length_append, List.length_cons, jsonStr]; omega

theorem fieldsOf_message (id fw d : Str) (p : Nat) :
    fieldsOf [(kSECoP, .str wNode), (kPort, .num p), (kId, .str id), (kFirmware, .str fw), (kDescription, .str d)]
      = some ⟨wNode, p, id, fw, d⟩ := by
  have hn : ([(kSECoP, Val.str wNode), (kPort, .num p), (kId, .str id), (kFirmware, .str fw), (kDescription, .str d)].map (·.1)).Nodup := by
    simp only [List.map]; decide
  have h1 : strField kSECoP [(kSECoP, Val.str wNode), (kPort, .num p), (kId, .str id), (kFirmware, .str fw), (kDescription, .str d)] = some wNode := by
    simp [strField, lookup]
  have h2 : numField kPort [(kSECoP, Val.str wNode), (kPort, .num p), (kId, .str id), (kFirmware, .str fw), (kDescription, .str d)] = some p := by
    simp [numField, lookup, kSECoP, kPort]
  have h3 : strField kId [(kSECoP, Val.str wNode), (kPort, .num p), (kId, .str id), (kFirmware, .str fw), (kDescription, .str d)] = some id := by
    simp [strField, lookup, kSECoP, kPort, kId]
  have h4 : strField kFirmware [(kSECoP, Val.str wNode), (kPort, .num p), (kId, .str id), (kFirmware, .str fw), (kDescription, .str d)] = some fw := by
    simp [strField, lookup, kSECoP, kPort, kId, kFirmware]
  have h5 : strField kDescription [(kSECoP, Val.str wNode), (kPort, .num p), (kId, .str id), (kFirmware, .str fw), (kDescription, .str d)] = some d := by
    simp [strField, lookup, kSECoP, kPort, kId, kFirmware, kDescription]
  unfold fieldsOf
  rw [h1, h2, h3, h4, h5]
  simp only
  rw [if_pos hn]

/-- the Spec's readers recover the fields from the bytes of a message -/
theorem readMessage_message (id fw d : Str) (p : Nat) :
    readMessage (message generatedTables id fw d p) = some ⟨wNode, p, id, fw, d⟩ := by
  unfold readMessage message
  rw [utf8Decode_utf8]
  simp only [readObject_messageText, fieldsOf_message]


/-! ## the node as the Spec sees it, and how a run of the model is observed -/

/-- the node as the Spec sees it: what the server hands to `UDPListener` -/
def nodeOf (id version : Str) (description : Option Str) (ifaces : List Iface) : Node :=
  ⟨id, firmwareOf version, description.getD [], ifaces⟩

def sendsOf {α : Type} : Outcome α → List (Send α)
  | .answered s => s
  | _ => []

/-- the recorded steps of a run of the model: each outcome next to the datagram that caused it -/
def stepsOf {α : Type} (buf : Nat) (decode : Bytes → Except Exc JTop) (dgs : List (Bytes × α))
    (outs : List (Outcome α)) : List (Step α) :=
  List.zipWith (fun d o => ⟨d.2, decode (d.1.take buf), sendsOf o⟩) dgs outs

def receivedOf {α : Type} (buf : Nat) (decode : Bytes → Except Exc JTop) (dgs : List (Bytes × α)) :
    List (α × Except Exc JTop) :=
  dgs.map (fun d => (d.2, decode (d.1.take buf)))

def eventsOf {α : Type} (dgs : List (Bytes × α)) : List (Event α) := dgs.map (fun d => Event.datagram d.1 d.2)

/-! ## the filter -/

theorem dictGet_iff_mem (key : Str) (v : Member) : ∀ (items : List (Str × Member)), (items.map (·.1)).Nodup →
    (dictGet key items = some v ↔ (key, v) ∈ items)
  | [], _ => by simp [dictGet]
  | (k, w) :: rest, h => by
    simp only [List.map_cons, List.nodup_cons] at h
    unfold dictGet
    by_cases hk : k = key
    · subst hk
      simp only [if_true, Option.some.injEq, List.mem_cons, Prod.mk.injEq, true_and]
      constructor
      · intro e; exact Or.inl e.symm
      · rintro (e | e)
        · exact e.symm
        · exact absurd (List.mem_map_of_mem (f := (·.1)) e) h.1
    · simp only [hk, if_false, List.mem_cons, Prod.mk.injEq]
      rw [dictGet_iff_mem key v rest h.2]
      constructor
      · exact Or.inr
      · rintro (⟨e, _⟩ | e)
        · exact absurd e.symm hk
        · exact e

theorem isDiscover_iff (d : Except Exc JTop)
    (hdict : ∀ items, d = .ok (.obj items) → (items.map (·.1)).Nodup) :
    (∃ v, d = .ok v ∧ isDiscover v = true) ↔ IsRequest d := by
  cases d with
  | error e => simp [IsRequest]
  | ok v =>
    cases v with
    | obj items =>
      have := dictGet_iff_mem secopKey (.str discoverWord) items (hdict items rfl)
      simp only [Except.ok.injEq, exists_eq_left', isDiscover, beq_iff_eq, IsRequest]
      exact this
    | _ => simp [IsRequest, isDiscover]

/-! ## ports -/

theorem portsOf_eq_tcpPorts (id version : Str) (description : Option Str) (ifaces : List Iface)
    (h : ∀ i ∈ ifaces, i.scheme ∈ Generated.C19.serverSchemes) :
    portsOf ifaces = tcpPorts (nodeOf id version description ifaces) := by
  have key : ∀ s ∈ Generated.C19.serverSchemes, (['t', 'c', 'p'].isPrefixOf s = true ↔ s = ['t', 'c', 'p']) := by decide
  unfold portsOf tcpPorts nodeOf
  simp only
  congr 1
  apply List.filter_congr
  intro i hi
  have := key i.scheme (h i hi)
  unfold isTcp
  by_cases e : i.scheme = ['t', 'c', 'p']
  · simp [e]
  · simp only [e, decide_false]
    cases hb : ['t', 'c', 'p'].isPrefixOf i.scheme
    · rfl
    · exact absurd (this.1 hb) e

/-! ## fields of the constructed listener -/

theorem construct_id (t : Tables) (id version : Str) (description : Option Str) (ifaces : List Iface) :
    (construct t id version description ifaces).id = id := by unfold construct; split <;> rfl
theorem construct_fw (t : Tables) (id version : Str) (description : Option Str) (ifaces : List Iface) :
    (construct t id version description ifaces).fw = t.fwPrefix ++ version := by unfold construct; split <;> rfl
theorem construct_ports (t : Tables) (id version : Str) (description : Option Str) (ifaces : List Iface) :
    (construct t id version description ifaces).ports = portsOf ifaces := by unfold construct; split <;> rfl

theorem mem_portsOf (ifaces : List Iface) (p : Nat) (h : p ∈ portsOf ifaces) : ∃ i ∈ ifaces, i.port = p := by
  unfold portsOf at h
  simp only [List.mem_map, List.mem_filter] at h
  obtain ⟨i, ⟨hi, _⟩, e⟩ := h
  exact ⟨i, hi, e⟩

end Frappy.Discovery
